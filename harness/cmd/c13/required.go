package main

import (
	"fmt"
	"strings"

	"goa.design/goa/v3/expr"

	"verifharness/vh"
)

var reqNames = []string{"a", "b", "c", "d", "e", "id"}

type ReqOp struct {
	Op   string `json:"op"` // add | remove
	Name string `json:"name"`
}

// ReqCase: a Required slice (contents and capacity) and mutator calls.
type ReqCase struct {
	Required []string `json:"required"`
	Cap      int      `json:"cap"`
	Ops      []ReqOp  `json:"ops"`
}

func (c *ReqCase) validation() *expr.ValidationExpr {
	v := &expr.ValidationExpr{Pattern: "p"}
	if c.Cap > 0 {
		v.Required = make([]string, len(c.Required), c.Cap)
		copy(v.Required, c.Required)
	}
	return v
}

func applyReqOps(v *expr.ValidationExpr, ops []ReqOp) {
	for _, o := range ops {
		if o.Op == "add" {
			v.AddRequired(o.Name)
		} else {
			v.RemoveRequired(o.Name)
		}
	}
}

// requiredCase runs the mutator calls once on the copy DupAtt makes of an attribute
// holding the validation and once on a second ValidationExpr over the same slice, writes
// what original and copy / alias read afterwards for the model, and checks directly that
// the calls on the copy left the original alone.
func (r *run) requiredCase(c *ReqCase) {
	in := Input{Stream: "required-ops", Req: c}
	r.addInput(in)
	// through a copy
	v := c.validation()
	att := &expr.AttributeExpr{Type: expr.String, Validation: v}
	cp := expr.DupAtt(att)
	applyReqOps(cp.Validation, c.Ops)
	oDup, cDup := append([]string{}, v.Required...), append([]string{}, cp.Validation.Required...)
	r.evals++
	if strings.Join(oDup, "\x00") != strings.Join(c.Required, "\x00") {
		r.fail("copy-mutation-leaks/required-ops", fmt.Sprintf("after %v on DupAtt(a).Validation the original's Required is %q, it was %q", c.Ops, oDup, c.Required), in)
	}
	// through an alias of the slice (no copy of the array): only observed, for the model
	v2 := c.validation()
	alias := &expr.ValidationExpr{Required: v2.Required}
	applyReqOps(alias, c.Ops)
	oAlias, cAlias := v2.Required, alias.Required
	pr := &printer{p: r.pool}
	var ops strings.Builder
	for _, o := range c.Ops {
		if o.Op == "add" {
			fmt.Fprintf(&ops, "(RA %s ", r.pool.s(o.Name))
		} else {
			fmt.Fprintf(&ops, "(RR %s ", r.pool.s(o.Name))
		}
	}
	ops.WriteString("RO" + strings.Repeat(")", len(c.Ops)))
	fmt.Fprintf(r.reqs, "RC %d %s %d %s %s %s %s %s\n", r.nReq, pr.strList(c.Required), c.Cap, ops.String(),
		pr.strList(oDup), pr.strList(cDup), pr.strList(oAlias), pr.strList(cAlias))
	r.reqIdx = append(r.reqIdx, r.nInputs-1)
	r.nReq++
	if strings.Join(oAlias, "\x00") != strings.Join(c.Required, "\x00") {
		r.res.Count("required_ops: alias changed the original (expected without a copy)")
	}
}

func (r *run) requiredStream(n int) {
	// fixed: the example of Properties.v and the boundary shapes
	fixed := []*ReqCase{
		{Required: []string{"a", "b", "c"}, Cap: 4, Ops: []ReqOp{{"remove", "a"}, {"add", "d"}, {"add", "e"}}},
		{Required: nil, Cap: 0, Ops: []ReqOp{{"add", "a"}, {"add", "a"}, {"remove", "a"}}},
		{Required: []string{}, Cap: 2, Ops: []ReqOp{{"add", "a"}, {"add", "b"}, {"add", "c"}}},
		{Required: []string{"a"}, Cap: 1, Ops: []ReqOp{{"remove", "a"}, {"remove", "a"}, {"add", "b"}}},
		{Required: []string{"a", "b"}, Cap: 2, Ops: []ReqOp{{"remove", "b"}, {"add", "c"}}},
	}
	for _, c := range fixed {
		r.requiredCase(c)
	}
	for i := 0; i < n; i++ {
		c := &ReqCase{}
		used := map[string]bool{}
		k := r.rng.Intn(5)
		for j := 0; j < k; j++ {
			nm := vh.Pick(r.rng, reqNames)
			if !used[nm] || r.rng.Chance(1, 10) { // now and then a name twice (AddRequired never does that, a literal can)
				used[nm] = true
				c.Required = append(c.Required, nm)
			}
		}
		c.Cap = len(c.Required) + r.rng.Intn(4)
		for j, m := 0, 1+r.rng.Intn(7); j < m; j++ {
			op := "add"
			if r.rng.Bool() {
				op = "remove"
			}
			c.Ops = append(c.Ops, ReqOp{op, vh.Pick(r.rng, reqNames)})
		}
		r.requiredCase(c)
		r.res.Count(fmt.Sprintf("required_ops: len=%d spare=%d", len(c.Required), c.Cap-len(c.Required)))
	}
}
