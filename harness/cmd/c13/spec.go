package main

import (
	"fmt"

	"goa.design/goa/v3/expr"
)

// ---- replayable description of a type graph ----

type MetaKV struct {
	K string   `json:"k"`
	V []string `json:"v"`
}

type Val struct {
	Required []string `json:"required,omitempty"`
	Enum     []string `json:"enum,omitempty"`
	Format   string   `json:"format,omitempty"`
	Pattern  string   `json:"pattern,omitempty"`
	Min      *float64 `json:"min,omitempty"`
	Max      *float64 `json:"max,omitempty"`
	MinLen   *int     `json:"minlen,omitempty"`
	MaxLen   *int     `json:"maxlen,omitempty"`
}

type Att struct {
	T       *Type    `json:"t"`
	Meta    []MetaKV `json:"meta,omitempty"`
	// EmptyMeta: Meta is a map without entries (not nil), as left behind by delete()
	EmptyMeta bool `json:"empty_meta,omitempty"`
	Val     *Val     `json:"val,omitempty"`
	Desc    string   `json:"desc,omitempty"`
	Docs    string   `json:"docs,omitempty"`    // URL of a DocsExpr, "" = none
	Default string   `json:"default,omitempty"` // DefaultValue (a string), "" = none
	Example string   `json:"example,omitempty"` // one UserExample, "" = none
}

type Field struct {
	Name string `json:"n"`
	Att  *Att   `json:"a"`
}

// Type: K = prim | array | map | object | union | user
type Type struct {
	K      string  `json:"k"`
	Prim   string  `json:"prim,omitempty"`
	Elem   *Att    `json:"elem,omitempty"`
	Key    *Att    `json:"key,omitempty"`
	Name   string  `json:"name,omitempty"` // union TypeName
	Fields []Field `json:"fields,omitempty"`
	Ref    int     `json:"ref,omitempty"`
}

type View struct {
	Name   string   `json:"name"`
	Fields []string `json:"fields"`
}

type User struct {
	Name        string `json:"name"`
	UID         string `json:"uid,omitempty"`
	Att         *Att   `json:"att"`
	Result      bool   `json:"result,omitempty"`
	Identifier  string `json:"identifier,omitempty"`
	ContentType string `json:"content_type,omitempty"`
	Views       []View `json:"views,omitempty"`
}

type Graph struct {
	Users []User `json:"users,omitempty"`
	Root  *Att   `json:"root"`
}

var prims = map[string]expr.Primitive{
	"boolean": expr.Boolean, "int": expr.Int, "int32": expr.Int32, "int64": expr.Int64,
	"uint": expr.UInt, "uint32": expr.UInt32, "uint64": expr.UInt64, "float32": expr.Float32,
	"float64": expr.Float64, "string": expr.String, "bytes": expr.Bytes, "any": expr.Any,
}
var primNames = []string{"boolean", "int", "int32", "int64", "uint", "uint32", "uint64", "float32", "float64", "string", "bytes", "any"}

// ---- building the real expr values ----

type built struct {
	users []expr.UserType
	root  *expr.AttributeExpr
}

func buildGraph(g *Graph) *built {
	b := &built{}
	for i := range g.Users {
		u := &g.Users[i]
		ute := &expr.UserTypeExpr{TypeName: u.Name, UID: u.UID}
		if u.Result {
			b.users = append(b.users, &expr.ResultTypeExpr{UserTypeExpr: ute, Identifier: u.Identifier, ContentType: u.ContentType})
		} else {
			b.users = append(b.users, ute)
		}
	}
	for i := range g.Users {
		b.users[i].SetAttribute(b.att(g.Users[i].Att))
	}
	for i := range g.Users {
		u := &g.Users[i]
		rt, ok := b.users[i].(*expr.ResultTypeExpr)
		if !ok {
			continue
		}
		for _, v := range u.Views {
			obj := &expr.Object{}
			pobj := expr.AsObject(rt.Type)
			for _, fn := range v.Fields {
				var t expr.DataType = expr.String
				if pobj != nil {
					if pa := pobj.Attribute(fn); pa != nil {
						switch pa.Type.(type) {
						case expr.Primitive, expr.UserType:
							t = pa.Type
						}
					}
				}
				*obj = append(*obj, &expr.NamedAttributeExpr{Name: fn, Attribute: &expr.AttributeExpr{Type: t}})
			}
			rt.Views = append(rt.Views, &expr.ViewExpr{AttributeExpr: &expr.AttributeExpr{Type: obj}, Name: v.Name, Parent: rt})
		}
	}
	b.root = b.att(g.Root)
	return b
}

func (b *built) att(a *Att) *expr.AttributeExpr {
	res := &expr.AttributeExpr{Type: b.typ(a.T), Description: a.Desc}
	if len(a.Meta) > 0 || a.EmptyMeta {
		res.Meta = expr.MetaExpr{}
		for _, kv := range a.Meta {
			res.Meta[kv.K] = append([]string{}, kv.V...)
		}
	}
	if a.Val != nil {
		v := &expr.ValidationExpr{Format: expr.ValidationFormat(a.Val.Format), Pattern: a.Val.Pattern}
		v.Required = append(v.Required, a.Val.Required...)
		for _, e := range a.Val.Enum {
			v.Values = append(v.Values, e)
		}
		if a.Val.Min != nil {
			x := *a.Val.Min
			v.Minimum = &x
		}
		if a.Val.Max != nil {
			x := *a.Val.Max
			v.Maximum = &x
		}
		if a.Val.MinLen != nil {
			x := *a.Val.MinLen
			v.MinLength = &x
		}
		if a.Val.MaxLen != nil {
			x := *a.Val.MaxLen
			v.MaxLength = &x
		}
		res.Validation = v
	}
	if a.Docs != "" {
		res.Docs = &expr.DocsExpr{URL: a.Docs}
	}
	if a.Default != "" {
		res.DefaultValue = a.Default
	}
	if a.Example != "" {
		res.UserExamples = []*expr.ExampleExpr{{Summary: "ex", Value: a.Example}}
	}
	return res
}

func (b *built) typ(t *Type) expr.DataType {
	switch t.K {
	case "prim":
		return prims[t.Prim]
	case "array":
		return &expr.Array{ElemType: b.att(t.Elem)}
	case "map":
		return &expr.Map{KeyType: b.att(t.Key), ElemType: b.att(t.Elem)}
	case "object":
		o := &expr.Object{}
		for _, f := range t.Fields {
			*o = append(*o, &expr.NamedAttributeExpr{Name: f.Name, Attribute: b.att(f.Att)})
		}
		return o
	case "union":
		u := &expr.Union{TypeName: t.Name}
		for _, f := range t.Fields {
			u.Values = append(u.Values, &expr.NamedAttributeExpr{Name: f.Name, Attribute: b.att(f.Att)})
		}
		return u
	case "user":
		return b.users[t.Ref]
	}
	panic(fmt.Sprintf("unknown type kind %q", t.K))
}

// ---- deep copies / rewrites of the description ----

func (a *Att) clone() *Att {
	if a == nil {
		return nil
	}
	c := *a
	c.T = a.T.clone()
	c.Meta = nil
	for _, kv := range a.Meta {
		c.Meta = append(c.Meta, MetaKV{kv.K, append([]string{}, kv.V...)})
	}
	if a.Val != nil {
		v := *a.Val
		v.Required = append([]string{}, a.Val.Required...)
		v.Enum = append([]string{}, a.Val.Enum...)
		c.Val = &v
	}
	return &c
}

func (t *Type) clone() *Type {
	if t == nil {
		return nil
	}
	c := *t
	c.Elem, c.Key = t.Elem.clone(), t.Key.clone()
	c.Fields = nil
	for _, f := range t.Fields {
		c.Fields = append(c.Fields, Field{f.Name, f.Att.clone()})
	}
	return &c
}

func (g *Graph) clone() *Graph {
	c := &Graph{Root: g.Root.clone()}
	for _, u := range g.Users {
		cu := u
		cu.Att = u.Att.clone()
		cu.Views = nil
		for _, v := range u.Views {
			cu.Views = append(cu.Views, View{v.Name, append([]string{}, v.Fields...)})
		}
		c.Users = append(c.Users, cu)
	}
	return c
}

// walkTypes calls f on every Type node of the description (roots and user bodies).
func (g *Graph) walkTypes(f func(t *Type)) {
	var wa func(a *Att)
	var wt func(t *Type)
	wa = func(a *Att) {
		if a != nil {
			wt(a.T)
		}
	}
	wt = func(t *Type) {
		if t == nil {
			return
		}
		f(t)
		wa(t.Elem)
		wa(t.Key)
		for _, fl := range t.Fields {
			wa(fl.Att)
		}
	}
	wa(g.Root)
	for i := range g.Users {
		wa(g.Users[i].Att)
	}
}

// walkAtts calls f on every Att node.
func (g *Graph) walkAtts(f func(a *Att)) {
	var wa func(a *Att)
	wa = func(a *Att) {
		if a == nil {
			return
		}
		f(a)
		if a.T != nil {
			wa(a.T.Elem)
			wa(a.T.Key)
			for _, fl := range a.T.Fields {
				wa(fl.Att)
			}
		}
	}
	wa(g.Root)
	for i := range g.Users {
		wa(g.Users[i].Att)
	}
}

// ---- pointer sharing added after construction ----

// Share asks for one node of the built graph to be used in several places (the tree
// shaped description cannot say that): Kind "attribute" = one *AttributeExpr becomes the
// attribute of further fields and the element of an array; Kind "object" = one *Object
// becomes the type of further attributes. Index selects the node.
type Share struct {
	Kind  string `json:"kind"`
	Index int    `json:"index"`
}

func hasInlineObject(dt expr.DataType) bool {
	switch t := dt.(type) {
	case *expr.Object:
		return true
	case *expr.Array:
		return hasInlineObject(t.ElemType.Type)
	case *expr.Map:
		return hasInlineObject(t.KeyType.Type) || hasInlineObject(t.ElemType.Type)
	case *expr.Union:
		for _, nat := range t.Values {
			if hasInlineObject(nat.Attribute.Type) {
				return true
			}
		}
	}
	return false
}

// buildShared builds the description and then applies the sharing.
func buildShared(g *Graph, sh *Share) *built {
	b := buildGraph(g)
	if sh == nil {
		return b
	}
	n := reach(b.root)
	switch sh.Kind {
	case "attribute":
		// attributes whose type holds no inline Object: sharing them shares no Object
		var cands []*expr.AttributeExpr
		for _, a := range n.atts {
			if !hasInlineObject(a.Type) {
				cands = append(cands, a)
			}
		}
		if len(cands) == 0 {
			return b
		}
		a := cands[sh.Index%len(cands)]
		// inside an object of the graph (the body of a user type when there is one) ...
		if len(n.objs) > 0 {
			o := n.objs[sh.Index%len(n.objs)]
			if o.Attribute("alias_of") == nil {
				*o = append(*o, &expr.NamedAttributeExpr{Name: "alias_of", Attribute: a})
			}
		}
		// ... and twice more at the root, once as the element of an array
		b.root = &expr.AttributeExpr{Type: &expr.Object{
			{Name: "p", Attribute: a},
			{Name: "p2", Attribute: a},
			{Name: "q", Attribute: &expr.AttributeExpr{Type: &expr.Array{ElemType: a}}},
			{Name: "r", Attribute: b.root},
		}}
	case "object":
		if len(n.objs) == 0 {
			return b
		}
		o := n.objs[sh.Index%len(n.objs)]
		b.root = &expr.AttributeExpr{Type: &expr.Object{
			{Name: "p", Attribute: &expr.AttributeExpr{Type: o}},
			{Name: "q", Attribute: &expr.AttributeExpr{Type: &expr.Array{ElemType: &expr.AttributeExpr{Type: o}}}},
			{Name: "r", Attribute: b.root},
		}}
	}
	return b
}
