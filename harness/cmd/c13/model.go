package main

import (
	"fmt"
	"sort"
	"strings"

	"goa.design/goa/v3/expr"

	"verifharness/vh"
)

// pool interns every string that appears in a Coq term; the definitions go into the
// header of the case files (long literals are slow to elaborate, references are not).
type pool struct {
	idx  map[string]int
	strs []string
}

func newPool() *pool { return &pool{idx: map[string]int{}} }

func (p *pool) s(x string) string {
	if x == "" {
		return "[]"
	}
	i, ok := p.idx[x]
	if !ok {
		i = len(p.strs)
		p.idx[x] = i
		p.strs = append(p.strs, x)
	}
	return fmt.Sprintf("s%d", i)
}

func (p *pool) header() string {
	var b strings.Builder
	b.WriteString("From TypeGraph Require Import Model Run.\n")
	for i, s := range p.strs {
		fmt.Fprintf(&b, "Definition s%d : bytes := %s%%N.\n", i, vh.CoqBytes(s))
	}
	return b.String()
}

// intList prints a wire list of primitive integers.
func intList(xs []uint64) string {
	var b strings.Builder
	for _, x := range xs {
		fmt.Fprintf(&b, "(IC %d ", x)
	}
	b.WriteString("IN")
	b.WriteString(strings.Repeat(")", len(xs)))
	return b.String()
}

// packedStr prints the length of a Go string and its bytes, 7 per uint63 (little endian).
func packedStr(s string) string {
	var cs []uint64
	for i := 0; i < len(s); i += 7 {
		var x uint64
		for j := 0; j < 7 && i+j < len(s); j++ {
			x |= uint64(s[i+j]) << (8 * uint(j))
		}
		cs = append(cs, x)
	}
	return fmt.Sprintf("%d %s", len(s), intList(cs))
}

// obsList prints the observed strings of one case: a string identical to an earlier one
// of the case is a back reference, a string of more than 512 bytes is reported by its
// length, a rolling checksum and its first 511 bytes.
func obsList(hs []string, stats map[string]int) string {
	var b strings.Builder
	for i, h := range hs {
		prev := -1
		for j := 0; j < i; j++ {
			if hs[j] == h {
				prev = j
				break
			}
		}
		switch {
		case prev >= 0:
			fmt.Fprintf(&b, "(OR %d ", prev)
			stats["observed_strings_same_as_earlier"]++
		case len(h) > 512:
			var roll uint64
			for k := 0; k < len(h); k++ {
				roll = (roll*1000003 + uint64(h[k])) & (1<<63 - 1)
			}
			fmt.Fprintf(&b, "(OD %d %d %s ", len(h), roll, packedStr(h[:511]))
			stats["observed_strings_by_length_checksum_prefix"]++
		default:
			fmt.Fprintf(&b, "(OX %s ", packedStr(h))
			stats["observed_strings_exact"]++
		}
	}
	b.WriteString("ON")
	b.WriteString(strings.Repeat(")", len(hs)))
	return b.String()
}

// namer numbers the pointers the model distinguishes: user types, objects, views.
type namer struct {
	ut     map[expr.UserType]int
	utList []expr.UserType
	obj    map[*expr.Object]int
	view   map[*expr.ViewExpr]int
	vwList []*expr.ViewExpr
	nextUT, nextObj, nextView int
}

func newNamer() *namer {
	return &namer{ut: map[expr.UserType]int{}, obj: map[*expr.Object]int{}, view: map[*expr.ViewExpr]int{}}
}

// collect numbers everything reachable from dt in depth-first discovery order.
func (n *namer) collect(dt expr.DataType) {
	switch t := dt.(type) {
	case expr.Primitive:
	case *expr.Array:
		n.collect(t.ElemType.Type)
	case *expr.Map:
		n.collect(t.KeyType.Type)
		n.collect(t.ElemType.Type)
	case *expr.Object:
		if _, ok := n.obj[t]; ok {
			return
		}
		n.obj[t] = n.nextObj
		n.nextObj++
		for _, nat := range *t {
			n.collect(nat.Attribute.Type)
		}
	case *expr.Union:
		for _, nat := range t.Values {
			n.collect(nat.Attribute.Type)
		}
	case expr.UserType:
		if _, ok := n.ut[t]; ok {
			return
		}
		n.ut[t] = n.nextUT
		n.nextUT++
		n.utList = append(n.utList, t)
		n.collect(t.Attribute().Type)
		if rt, ok := t.(*expr.ResultTypeExpr); ok {
			for _, v := range rt.Views {
				if _, ok := n.view[v]; ok {
					continue
				}
				n.view[v] = n.nextView
				n.nextView++
				n.vwList = append(n.vwList, v)
				n.collect(v.AttributeExpr.Type)
			}
		}
	default:
		panic(fmt.Sprintf("collect: %T", dt))
	}
}

type printer struct {
	p *pool
	n *namer
	r *vh.RNG // order in which map entries are handed to the model
}

func (pr *printer) strList(xs []string) string {
	var b strings.Builder
	for _, x := range xs {
		fmt.Fprintf(&b, "(SC %s ", pr.p.s(x))
	}
	b.WriteString("SN")
	b.WriteString(strings.Repeat(")", len(xs)))
	return b.String()
}

func otherOfValidation(v *expr.ValidationExpr) string {
	var b strings.Builder
	fmt.Fprintf(&b, "values=%v format=%s pattern=%s", v.Values, v.Format, v.Pattern)
	pf := func(n string, p *float64) {
		if p != nil {
			fmt.Fprintf(&b, " %s=%v", n, *p)
		}
	}
	pi := func(n string, p *int) {
		if p != nil {
			fmt.Fprintf(&b, " %s=%d", n, *p)
		}
	}
	pf("xmin", v.ExclusiveMinimum)
	pf("min", v.Minimum)
	pf("max", v.Maximum)
	pf("xmax", v.ExclusiveMaximum)
	pi("minlen", v.MinLength)
	pi("maxlen", v.MaxLength)
	return b.String()
}

func otherOfAtt(a *expr.AttributeExpr) string {
	s := ""
	if a.DefaultValue != nil {
		s += fmt.Sprintf("default=%v", a.DefaultValue)
	}
	for _, ex := range a.UserExamples {
		s += fmt.Sprintf(" example=%s:%v", ex.Summary, ex.Value)
	}
	return s
}

func (pr *printer) ainfo(a *expr.AttributeExpr) string {
	plain := a.Validation == nil && a.Description == "" && a.Docs == nil && a.DefaultValue == nil && len(a.UserExamples) == 0
	if len(a.Meta) == 0 && plain {
		return "I0"
	}
	keys := vh.SortedKeys(a.Meta)
	if pr.r != nil {
		for i := len(keys) - 1; i > 0; i-- {
			j := pr.r.Intn(i + 1)
			keys[i], keys[j] = keys[j], keys[i]
		}
	}
	var mb strings.Builder
	for _, k := range keys {
		fmt.Fprintf(&mb, "(MC %s %s ", pr.p.s(k), pr.strList(a.Meta[k]))
	}
	mb.WriteString("MN")
	mb.WriteString(strings.Repeat(")", len(keys)))
	if plain {
		return "(IM " + mb.String() + ")"
	}
	hasval, req, vother := "false", "SN", "[]"
	if v := a.Validation; v != nil {
		hasval, req, vother = "true", pr.strList(v.Required), pr.p.s(otherOfValidation(v))
	}
	return fmt.Sprintf("(IF %s %s %s %s %s %s %s)", mb.String(), hasval, req, vother, pr.p.s(a.Description), vh.CoqBool(a.Docs != nil), pr.p.s(otherOfAtt(a)))
}

func primCtor(p expr.Primitive) string {
	switch p {
	case expr.Boolean:
		return "PBoolean"
	case expr.Int:
		return "PInt"
	case expr.Int32:
		return "PInt32"
	case expr.Int64:
		return "PInt64"
	case expr.UInt:
		return "PUInt"
	case expr.UInt32:
		return "PUInt32"
	case expr.UInt64:
		return "PUInt64"
	case expr.Float32:
		return "PFloat32"
	case expr.Float64:
		return "PFloat64"
	case expr.String:
		return "PString"
	case expr.Bytes:
		return "PBytes"
	case expr.Any:
		return "PAny"
	}
	panic("primitive")
}

func (pr *printer) fields(nats []*expr.NamedAttributeExpr) string {
	var b strings.Builder
	for _, nat := range nats {
		fmt.Fprintf(&b, "(FC %s %s %s ", pr.p.s(nat.Name), pr.ainfo(nat.Attribute), pr.ty(nat.Attribute.Type))
	}
	b.WriteString("FN")
	b.WriteString(strings.Repeat(")", len(nats)))
	return b.String()
}

func (pr *printer) ty(dt expr.DataType) string {
	switch t := dt.(type) {
	case expr.Primitive:
		return "(Wp " + primCtor(t) + ")"
	case *expr.Array:
		return fmt.Sprintf("(Wa %s %s)", pr.ainfo(t.ElemType), pr.ty(t.ElemType.Type))
	case *expr.Map:
		return fmt.Sprintf("(Wm %s %s %s %s)", pr.ainfo(t.KeyType), pr.ty(t.KeyType.Type), pr.ainfo(t.ElemType), pr.ty(t.ElemType.Type))
	case *expr.Object:
		return fmt.Sprintf("(Wo %d %s)", pr.n.obj[t], pr.fields(*t))
	case *expr.Union:
		return fmt.Sprintf("(Wu %s %s)", pr.p.s(t.TypeName), pr.fields(t.Values))
	case expr.UserType:
		return fmt.Sprintf("(Wr %d)", pr.n.ut[t])
	}
	panic(fmt.Sprintf("ty: %T", dt))
}

// utdef prints the arguments of EC after the id.
func (pr *printer) utdef(u expr.UserType) string {
	switch t := u.(type) {
	case *expr.UserTypeExpr:
		return fmt.Sprintf("%s %s %s %s RN", pr.p.s(t.TypeName), pr.p.s(t.UID), pr.ainfo(t.AttributeExpr), pr.ty(t.AttributeExpr.Type))
	case *expr.ResultTypeExpr:
		vids := make([]uint64, len(t.Views))
		for i, v := range t.Views {
			vids[i] = uint64(pr.n.view[v])
		}
		return fmt.Sprintf("%s %s %s %s (RS %s %s %s)", pr.p.s(t.TypeName), pr.p.s(t.UID), pr.ainfo(t.AttributeExpr), pr.ty(t.AttributeExpr.Type),
			pr.p.s(t.Identifier), pr.p.s(t.ContentType), intList(vids))
	}
	panic(fmt.Sprintf("utdef: %T", u))
}

// envAll prints the user types the namer knows, by increasing number.
func (pr *printer) envAll() string {
	ids := make([]int, 0, len(pr.n.ut))
	byID := map[int]expr.UserType{}
	for u, id := range pr.n.ut {
		ids = append(ids, id)
		byID[id] = u
	}
	sort.Ints(ids)
	var b strings.Builder
	for _, id := range ids {
		fmt.Fprintf(&b, "(EC %d %s ", id, pr.utdef(byID[id]))
	}
	b.WriteString("EN")
	b.WriteString(strings.Repeat(")", len(ids)))
	return b.String()
}

var allFlags = [][3]bool{
	{false, false, false}, {false, false, true}, {false, true, false}, {false, true, true},
	{true, false, false}, {true, false, true}, {true, true, false}, {true, true, true},
}

// pairing walks an original and its copy in lockstep and records which pointer of the
// copy stands for which pointer of the original.
type pairing struct {
	ut  map[expr.UserType]expr.UserType
	obj map[*expr.Object]*expr.Object
	err string
}

func pairUp(o, c expr.DataType) *pairing {
	p := &pairing{ut: map[expr.UserType]expr.UserType{}, obj: map[*expr.Object]*expr.Object{}}
	p.walk(o, c)
	return p
}

func (p *pairing) named(os, cs []*expr.NamedAttributeExpr) {
	if len(os) != len(cs) {
		p.err = "attribute lists of different length"
		return
	}
	for i := range os {
		if os[i].Name != cs[i].Name {
			p.err = "attribute names differ"
			return
		}
		p.walk(os[i].Attribute.Type, cs[i].Attribute.Type)
	}
}

func (p *pairing) walk(o, c expr.DataType) {
	if p.err != "" {
		return
	}
	switch to := o.(type) {
	case expr.Primitive:
		if tc, ok := c.(expr.Primitive); !ok || tc != to {
			p.err = "primitive differs"
		}
	case *expr.Array:
		tc, ok := c.(*expr.Array)
		if !ok {
			p.err = "kind differs"
			return
		}
		p.walk(to.ElemType.Type, tc.ElemType.Type)
	case *expr.Map:
		tc, ok := c.(*expr.Map)
		if !ok {
			p.err = "kind differs"
			return
		}
		p.walk(to.KeyType.Type, tc.KeyType.Type)
		p.walk(to.ElemType.Type, tc.ElemType.Type)
	case *expr.Object:
		tc, ok := c.(*expr.Object)
		if !ok {
			p.err = "kind differs"
			return
		}
		if prev, seen := p.obj[tc]; seen {
			if prev != to {
				p.err = "one Object of the copy stands for two Objects of the original"
			}
			return
		}
		p.obj[tc] = to
		p.named(*to, *tc)
	case *expr.Union:
		tc, ok := c.(*expr.Union)
		if !ok {
			p.err = "kind differs"
			return
		}
		p.named(to.Values, tc.Values)
	case expr.UserType:
		tc, ok := c.(expr.UserType)
		if !ok {
			p.err = "kind differs"
			return
		}
		if prev, seen := p.ut[tc]; seen {
			if prev != to {
				p.err = "one user type of the copy stands for two user types of the original"
			}
			return
		}
		p.ut[tc] = to
		p.walk(to.Attribute().Type, tc.Attribute().Type)
	default:
		p.err = fmt.Sprintf("unexpected %T", o)
	}
}

// dupCase prints one copy case: the original, the offsets, and the copy with every
// pointer that is new named offset + (number of the pointer it stands for) and every
// pointer shared with the original named as in the original.
func dupCase(pl *pool, n *namer, root, cp expr.DataType) (string, string) {
	offu, offk := n.nextUT, n.nextObj
	pa := pairUp(root, cp)
	if pa.err != "" {
		return "", pa.err
	}
	n2 := &namer{ut: map[expr.UserType]int{}, obj: map[*expr.Object]int{}, view: n.view}
	for c, o := range pa.ut {
		if id, shared := n.ut[c]; shared {
			n2.ut[c] = id
		} else {
			n2.ut[c] = offu + n.ut[o]
		}
	}
	for c, o := range pa.obj {
		if k, shared := n.obj[c]; shared {
			n2.obj[c] = k
		} else {
			n2.obj[c] = offk + n.obj[o]
		}
	}
	for _, c := range reach(&expr.AttributeExpr{Type: cp}).uts {
		if rt, ok := c.(*expr.ResultTypeExpr); ok {
			for _, v := range rt.Views {
				if _, ok := n2.view[v]; !ok {
					return "", "the copy has a view expression that the original does not have"
				}
			}
		}
	}
	pr2 := &printer{p: pl, n: n2}
	return fmt.Sprintf("(DC %d %d %s %s)", offu, offk, pr2.envAll(), pr2.ty(cp)), ""
}
