package main

import (
	"fmt"
	"sort"
	"strings"

	"goa.design/goa/v3/expr"

	"verifharness/vh"
)

// pool interns every string that appears in a Coq term; the definitions go into the
// header of the case files (long literals are slow to elaborate, references are not).
type pool struct {
	idx  map[string]int
	strs []string
}

func newPool() *pool { return &pool{idx: map[string]int{}} }

func (p *pool) s(x string) string {
	if x == "" {
		return "[]"
	}
	i, ok := p.idx[x]
	if !ok {
		i = len(p.strs)
		p.idx[x] = i
		p.strs = append(p.strs, x)
	}
	return fmt.Sprintf("s%d", i)
}

func (p *pool) header() string {
	var b strings.Builder
	b.WriteString("From TypeGraph Require Import Model Run.\n")
	for i, s := range p.strs {
		fmt.Fprintf(&b, "Definition s%d : bytes := %s%%N.\n", i, vh.CoqBytes(s))
	}
	return b.String()
}

// packed prints a Go string as Run.packed: its length and the bytes 7 per uint63
// (little endian).
func packedStr(s string) string {
	var cs []string
	for i := 0; i < len(s); i += 7 {
		var x uint64
		for j := 0; j < 7 && i+j < len(s); j++ {
			x |= uint64(s[i+j]) << (8 * uint(j))
		}
		cs = append(cs, fmt.Sprint(x))
	}
	return fmt.Sprintf("(P %d [%s]%%uint63)", len(s), strings.Join(cs, ";"))
}

// obsList prints the observed strings of one case: a string identical to an earlier one
// of the case is a back reference, a string of more than 512 bytes is reported by its
// length, a rolling checksum and its first 511 bytes.
func obsList(hs []string, stats map[string]int) string {
	out := make([]string, len(hs))
	for i, h := range hs {
		prev := -1
		for j := 0; j < i; j++ {
			if hs[j] == h {
				prev = j
				break
			}
		}
		switch {
		case prev >= 0:
			out[i] = fmt.Sprintf("R %d", prev)
			stats["observed_strings_same_as_earlier"]++
		case len(h) > 512:
			var roll uint64
			for k := 0; k < len(h); k++ {
				roll = (roll*1000003 + uint64(h[k])) & (1<<63 - 1)
			}
			out[i] = fmt.Sprintf("D %d %d%%uint63 %s", len(h), roll, packedStr(h[:511]))
			stats["observed_strings_by_length_checksum_prefix"]++
		default:
			out[i] = "X " + packedStr(h)
			stats["observed_strings_exact"]++
		}
	}
	return vh.CoqList(out)
}

// namer numbers the pointers the model distinguishes: user types, objects, views.
type namer struct {
	ut     map[expr.UserType]int
	utList []expr.UserType
	obj    map[*expr.Object]int
	view   map[*expr.ViewExpr]int
	vwList []*expr.ViewExpr
	nextUT, nextObj, nextView int
}

func newNamer() *namer {
	return &namer{ut: map[expr.UserType]int{}, obj: map[*expr.Object]int{}, view: map[*expr.ViewExpr]int{}}
}

// collect numbers everything reachable from dt in depth-first discovery order.
func (n *namer) collect(dt expr.DataType) {
	switch t := dt.(type) {
	case expr.Primitive:
	case *expr.Array:
		n.collect(t.ElemType.Type)
	case *expr.Map:
		n.collect(t.KeyType.Type)
		n.collect(t.ElemType.Type)
	case *expr.Object:
		if _, ok := n.obj[t]; ok {
			return
		}
		n.obj[t] = n.nextObj
		n.nextObj++
		for _, nat := range *t {
			n.collect(nat.Attribute.Type)
		}
	case *expr.Union:
		for _, nat := range t.Values {
			n.collect(nat.Attribute.Type)
		}
	case expr.UserType:
		if _, ok := n.ut[t]; ok {
			return
		}
		n.ut[t] = n.nextUT
		n.nextUT++
		n.utList = append(n.utList, t)
		n.collect(t.Attribute().Type)
		if rt, ok := t.(*expr.ResultTypeExpr); ok {
			for _, v := range rt.Views {
				if _, ok := n.view[v]; ok {
					continue
				}
				n.view[v] = n.nextView
				n.nextView++
				n.vwList = append(n.vwList, v)
				n.collect(v.AttributeExpr.Type)
			}
		}
	default:
		panic(fmt.Sprintf("collect: %T", dt))
	}
}

type printer struct {
	p *pool
	n *namer
	r *vh.RNG // order in which map entries are handed to the model
}

func (pr *printer) strList(xs []string) string {
	ss := make([]string, len(xs))
	for i, x := range xs {
		ss[i] = pr.p.s(x)
	}
	return vh.CoqList(ss)
}

func otherOfValidation(v *expr.ValidationExpr) string {
	var b strings.Builder
	fmt.Fprintf(&b, "values=%v format=%s pattern=%s", v.Values, v.Format, v.Pattern)
	pf := func(n string, p *float64) {
		if p != nil {
			fmt.Fprintf(&b, " %s=%v", n, *p)
		}
	}
	pi := func(n string, p *int) {
		if p != nil {
			fmt.Fprintf(&b, " %s=%d", n, *p)
		}
	}
	pf("xmin", v.ExclusiveMinimum)
	pf("min", v.Minimum)
	pf("max", v.Maximum)
	pf("xmax", v.ExclusiveMaximum)
	pi("minlen", v.MinLength)
	pi("maxlen", v.MaxLength)
	return b.String()
}

func otherOfAtt(a *expr.AttributeExpr) string {
	s := ""
	if a.DefaultValue != nil {
		s += fmt.Sprintf("default=%v", a.DefaultValue)
	}
	for _, ex := range a.UserExamples {
		s += fmt.Sprintf(" example=%s:%v", ex.Summary, ex.Value)
	}
	return s
}

func (pr *printer) ainfo(a *expr.AttributeExpr) string {
	if len(a.Meta) == 0 && a.Validation == nil && a.Description == "" && a.Docs == nil && a.DefaultValue == nil && len(a.UserExamples) == 0 {
		return "ai0"
	}
	keys := vh.SortedKeys(a.Meta)
	if pr.r != nil {
		for i := len(keys) - 1; i > 0; i-- {
			j := pr.r.Intn(i + 1)
			keys[i], keys[j] = keys[j], keys[i]
		}
	}
	ms := make([]string, len(keys))
	for i, k := range keys {
		ms[i] = fmt.Sprintf("(%s, %s)", pr.p.s(k), pr.strList(a.Meta[k]))
	}
	val := "None"
	if v := a.Validation; v != nil {
		val = fmt.Sprintf("(Some (Val %s %s))", pr.strList(v.Required), pr.p.s(otherOfValidation(v)))
	}
	return fmt.Sprintf("(AI %s %s %s %s %s)", vh.CoqList(ms), val, pr.p.s(a.Description), vh.CoqBool(a.Docs != nil), pr.p.s(otherOfAtt(a)))
}

func primCtor(p expr.Primitive) string {
	switch p {
	case expr.Boolean:
		return "PBoolean"
	case expr.Int:
		return "PInt"
	case expr.Int32:
		return "PInt32"
	case expr.Int64:
		return "PInt64"
	case expr.UInt:
		return "PUInt"
	case expr.UInt32:
		return "PUInt32"
	case expr.UInt64:
		return "PUInt64"
	case expr.Float32:
		return "PFloat32"
	case expr.Float64:
		return "PFloat64"
	case expr.String:
		return "PString"
	case expr.Bytes:
		return "PBytes"
	case expr.Any:
		return "PAny"
	}
	panic("primitive")
}

func (pr *printer) fields(nats []*expr.NamedAttributeExpr) string {
	fs := make([]string, len(nats))
	for i, nat := range nats {
		fs[i] = fmt.Sprintf("F %s %s %s", pr.p.s(nat.Name), pr.ainfo(nat.Attribute), pr.ty(nat.Attribute.Type))
	}
	return vh.CoqList(fs)
}

func (pr *printer) ty(dt expr.DataType) string {
	switch t := dt.(type) {
	case expr.Primitive:
		return "(TPrim " + primCtor(t) + ")"
	case *expr.Array:
		return fmt.Sprintf("(TArr %s %s)", pr.ainfo(t.ElemType), pr.ty(t.ElemType.Type))
	case *expr.Map:
		return fmt.Sprintf("(TMap %s %s %s %s)", pr.ainfo(t.KeyType), pr.ty(t.KeyType.Type), pr.ainfo(t.ElemType), pr.ty(t.ElemType.Type))
	case *expr.Object:
		return fmt.Sprintf("(TObj %d %s)", pr.n.obj[t], pr.fields(*t))
	case *expr.Union:
		return fmt.Sprintf("(TUnion %s %s)", pr.p.s(t.TypeName), pr.fields(t.Values))
	case expr.UserType:
		return fmt.Sprintf("(TUser %d)", pr.n.ut[t])
	}
	panic(fmt.Sprintf("ty: %T", dt))
}

func (pr *printer) utdef(u expr.UserType) string {
	switch t := u.(type) {
	case *expr.UserTypeExpr:
		return fmt.Sprintf("UT %s %s %s %s None", pr.p.s(t.TypeName), pr.p.s(t.UID), pr.ainfo(t.AttributeExpr), pr.ty(t.AttributeExpr.Type))
	case *expr.ResultTypeExpr:
		vids := make([]int, len(t.Views))
		for i, v := range t.Views {
			vids[i] = pr.n.view[v]
		}
		return fmt.Sprintf("UT %s %s %s %s (Some (RT %s %s %s))", pr.p.s(t.TypeName), pr.p.s(t.UID), pr.ainfo(t.AttributeExpr), pr.ty(t.AttributeExpr.Type),
			pr.p.s(t.Identifier), pr.p.s(t.ContentType), vh.CoqNatList(vids))
	}
	panic(fmt.Sprintf("utdef: %T", u))
}

// env prints the user types with the given numbers.
func (pr *printer) env(ids []int, byID map[int]expr.UserType) string {
	sort.Ints(ids)
	es := make([]string, len(ids))
	for i, id := range ids {
		es[i] = fmt.Sprintf("(%d, %s)", id, pr.utdef(byID[id]))
	}
	return vh.CoqList(es)
}

func (pr *printer) envAll() string {
	ids := make([]int, 0, len(pr.n.utList))
	byID := map[int]expr.UserType{}
	for u, id := range pr.n.ut {
		ids = append(ids, id)
		byID[id] = u
	}
	return pr.env(ids, byID)
}

func (pr *printer) viewsAll() string {
	type kv struct {
		id int
		v  *expr.ViewExpr
	}
	var vs []kv
	for v, id := range pr.n.view {
		vs = append(vs, kv{id, v})
	}
	sort.Slice(vs, func(i, j int) bool { return vs[i].id < vs[j].id })
	es := make([]string, len(vs))
	for i, e := range vs {
		parent := -1
		if e.v.Parent != nil {
			if id, ok := pr.n.ut[e.v.Parent]; ok {
				parent = id
			}
		}
		if parent < 0 {
			panic("view parent not numbered")
		}
		es[i] = fmt.Sprintf("(%d, VW %s %s %s %d)", e.id, pr.p.s(e.v.Name), pr.ainfo(e.v.AttributeExpr), pr.ty(e.v.AttributeExpr.Type), parent)
	}
	return vh.CoqList(es)
}

var allFlags = [][3]bool{
	{false, false, false}, {false, false, true}, {false, true, false}, {false, true, true},
	{true, false, false}, {true, false, true}, {true, true, false}, {true, true, true},
}
