package main

import (
	"fmt"
	"sort"
	"strings"

	"verifharness/vh"
)

// attribute / value names: shared prefixes, upper case (sorts first), digits, a
// multi-byte name, names containing '_' and '-' only in the unrestricted pool
var cleanNames = []string{"a", "b", "c", "d", "aa", "ab", "a1", "B", "id", "name", "x", "y", "zz", "k9", "Zed", "e", "f", "g"}
var hostileNames = []string{"first_name", "content-type", "x_y", "caf\xc3\xa9", "a-b", "_", "a_", "n.m"}
var typeNames = []string{"T1", "T2", "Foo", "Bar", "Baz", "Item", "Node", "Tree"}
var unionNames = []string{"U", "Value", "OneOf", "Alt"}
var fieldMetaKeys = []string{"struct:field:name", "struct:field:type", "struct:field:proto", "struct:field:external"}
var otherMetaKeys = []string{"struct:tag:json", "openapi:example", "rpc:tag", "struct:error:name", "struct:pkg:path"}
var metaVals = []string{"Foo", "x", "int64", "1", "json,omitempty", "a b", "v2", ""}

type genCfg struct {
	maxDepth  int
	clean     bool // names from the clean pool only
	noInfo    bool // no meta / validation / description (plain structure)
	lossy     bool // also ContentType, which ResultTypeExpr.Dup does not copy (witness stream)
	maxUsers  int
	maxFields int
}

type gen struct {
	r   *vh.RNG
	cfg genCfg
	nu  int // number of user types of the graph being generated
}

func (g *gen) name(used map[string]bool) string {
	for tries := 0; ; tries++ {
		var n string
		if !g.cfg.clean && g.r.Chance(1, 6) {
			n = vh.Pick(g.r, hostileNames)
		} else {
			n = vh.Pick(g.r, cleanNames)
		}
		if tries > 20 {
			n = fmt.Sprintf("%s%d", n, tries)
		}
		if !used[n] {
			used[n] = true
			return n
		}
	}
}

func (g *gen) meta(forUser bool) []MetaKV {
	if g.cfg.noInfo || !g.r.Chance(1, 3) {
		return nil
	}
	var out []MetaKV
	used := map[string]bool{}
	n := 1 + g.r.Intn(3)
	for i := 0; i < n; i++ {
		var k string
		switch {
		case g.r.Chance(2, 3):
			k = vh.Pick(g.r, fieldMetaKeys)
		case forUser && g.r.Chance(1, 3):
			k = "struct:type:name"
		default:
			k = vh.Pick(g.r, otherMetaKeys)
		}
		if used[k] {
			continue
		}
		used[k] = true
		nv := 1 + g.r.Intn(2)
		if k != "struct:type:name" && g.r.Chance(1, 8) {
			nv = 0
		}
		vs := []string{}
		for j := 0; j < nv; j++ {
			v := vh.Pick(g.r, metaVals)
			if k == "struct:type:name" && v == "" {
				v = "Renamed"
			}
			vs = append(vs, v)
		}
		out = append(out, MetaKV{k, vs})
	}
	return out
}

func (g *gen) val(t *Type) *Val {
	if g.cfg.noInfo || !g.r.Chance(1, 3) {
		return nil
	}
	v := &Val{}
	if t.K == "object" {
		for _, f := range t.Fields {
			if g.r.Bool() {
				v.Required = append(v.Required, f.Name)
			}
		}
	}
	switch g.r.Intn(6) {
	case 0:
		v.Enum = []string{"e1", "e2"}
	case 1:
		v.Format = vh.Pick(g.r, []string{"date", "uuid", "email"})
	case 2:
		v.Pattern = "^[a-z]+$"
	case 3:
		lo, hi := float64(g.r.Intn(5)), float64(10+g.r.Intn(5))
		v.Min, v.Max = &lo, &hi
	case 4:
		lo, hi := g.r.Intn(3), 5+g.r.Intn(5)
		v.MinLen, v.MaxLen = &lo, &hi
	}
	return v
}

func (g *gen) att(depth int, outside []int) *Att {
	a := &Att{T: g.typ(depth, outside)}
	a.Meta = g.meta(false)
	if a.Meta == nil && !g.cfg.noInfo && g.r.Chance(1, 10) {
		a.EmptyMeta = true
	}
	a.Val = g.val(a.T)
	if !g.cfg.noInfo {
		if g.r.Chance(1, 5) {
			a.Desc = vh.Pick(g.r, []string{"desc", "the thing", "x"})
		}
		if g.r.Chance(1, 10) {
			a.Docs = "http://docs/" + vh.Pick(g.r, []string{"a", "b"})
		}
		if g.r.Chance(1, 10) {
			a.Default = vh.Pick(g.r, []string{"dflt", "0"})
		}
		if g.r.Chance(1, 12) {
			a.Example = vh.Pick(g.r, []string{"ex1", "ex2"})
		}
	}
	return a
}

// typ generates a type of nesting depth <= depth. outside lists the user types that
// may be referenced without passing through an object (keeps every cycle guarded by an
// object, as the DSL does); inside an object every user type may be referenced.
func (g *gen) typ(depth int, outside []int) *Type {
	k := g.r.Intn(100)
	if depth <= 0 {
		if len(outside) > 0 && k < 35 {
			return &Type{K: "user", Ref: vh.Pick(g.r, outside)}
		}
		return &Type{K: "prim", Prim: vh.Pick(g.r, primNames)}
	}
	all := make([]int, g.nu)
	for i := range all {
		all[i] = i
	}
	switch {
	case k < 22:
		return &Type{K: "prim", Prim: vh.Pick(g.r, primNames)}
	case k < 34 && len(outside) > 0:
		return &Type{K: "user", Ref: vh.Pick(g.r, outside)}
	case k < 46:
		return &Type{K: "array", Elem: g.att(depth-1, outside)}
	case k < 56:
		return &Type{K: "map", Key: g.att(min(depth-1, 1), outside), Elem: g.att(depth-1, outside)}
	case k < 68:
		t := &Type{K: "union", Name: vh.Pick(g.r, unionNames)}
		used := map[string]bool{}
		n := g.r.Intn(g.cfg.maxFields + 1)
		for i := 0; i < n; i++ {
			t.Fields = append(t.Fields, Field{g.name(used), g.att(depth-1, outside)})
		}
		return t
	default:
		t := &Type{K: "object"}
		used := map[string]bool{}
		n := g.r.Intn(g.cfg.maxFields + 1)
		for i := 0; i < n; i++ {
			t.Fields = append(t.Fields, Field{g.name(used), g.att(depth-1, all)})
		}
		return t
	}
}

func (g *gen) graph() *Graph {
	gr := &Graph{}
	g.nu = g.r.Intn(g.cfg.maxUsers + 1)
	usedNames := map[string]bool{}
	for i := 0; i < g.nu; i++ {
		u := User{Name: vh.Pick(g.r, typeNames)}
		if usedNames[u.Name] {
			// same type name twice: told apart by their UID only
			u.UID = fmt.Sprintf("uid-%s-%d", u.Name, i)
		} else if g.r.Chance(1, 4) {
			u.UID = fmt.Sprintf("pkg%d.%s", i, u.Name)
		}
		usedNames[u.Name] = true
		if g.r.Chance(1, 3) {
			u.Result = true
			u.Identifier = fmt.Sprintf("application/vnd.r%d", i)
			if g.cfg.lossy && g.r.Chance(1, 2) {
				u.ContentType = "application/json"
			}
		}
		gr.Users = append(gr.Users, u)
	}
	for i := 0; i < g.nu; i++ {
		u := &gr.Users[i]
		var lower []int
		for j := 0; j < i; j++ {
			lower = append(lower, j)
		}
		d := 1 + g.r.Intn(max(1, g.cfg.maxDepth-1))
		if u.Result || g.r.Chance(3, 4) {
			// object body (what Type(name, func(){...}) and ResultType produce)
			all := make([]int, g.nu)
			for k := range all {
				all[k] = k
			}
			t := &Type{K: "object"}
			used := map[string]bool{}
			n := g.r.Intn(g.cfg.maxFields + 1)
			for k := 0; k < n; k++ {
				t.Fields = append(t.Fields, Field{g.name(used), g.att(d-1, all)})
			}
			u.Att = &Att{T: t}
		} else {
			u.Att = &Att{T: g.typ(d, lower)}
		}
		u.Att.Meta = g.meta(!u.Result)
		if u.Att.Meta == nil && !g.cfg.noInfo && g.r.Chance(1, 8) {
			u.Att.EmptyMeta = true
		}
		for k := range u.Att.Meta {
			// Name() and, without a UID, ID() follow this entry: keep ID()s pairwise distinct
			// (the memo of Dup is keyed by ID(); the envelope of the property has unique IDs)
			if u.Att.Meta[k].K == "struct:type:name" {
				u.Att.Meta[k].V[0] = fmt.Sprintf("Renamed%d", i)
			}
		}
		u.Att.Val = g.val(u.Att.T)
		if u.Result {
			nv := g.r.Intn(3)
			if g.cfg.noInfo {
				nv = 0
			}
			for k := 0; k < nv; k++ {
				v := View{Name: []string{"default", "tiny", "full"}[k]}
				for _, f := range u.Att.T.Fields {
					if g.r.Bool() {
						v.Fields = append(v.Fields, f.Name)
					}
				}
				u.Views = append(u.Views, v)
			}
		}
	}
	// twins: now and then a user type is a structural twin of an earlier one (the same
	// body with the references to the two exchanged), so that a graph holds distinct user
	// types that are structurally equal, mutually recursive ones included
	if g.nu >= 2 && g.r.Chance(1, 4) {
		i := g.r.Intn(g.nu - 1)
		j := i + 1 + g.r.Intn(g.nu-1-i)
		if !gr.Users[i].Result && !gr.Users[j].Result {
			body := gr.Users[i].Att.clone()
			(&Graph{Root: body}).walkTypes(func(t *Type) {
				if t.K == "user" {
					switch t.Ref {
					case i:
						t.Ref = j
					case j:
						t.Ref = i
					}
				}
			})
			for k := range body.Meta {
				if body.Meta[k].K == "struct:type:name" {
					body.Meta[k].V[0] = fmt.Sprintf("Renamed%d", j)
				}
			}
			gr.Users[j].Att = body
		}
	}
	all := make([]int, g.nu)
	for k := range all {
		all[k] = k
	}
	gr.Root = g.att(g.cfg.maxDepth, all)
	if g.nu > 0 && g.r.Chance(1, 3) {
		gr.Root = &Att{T: &Type{K: "user", Ref: g.r.Intn(g.nu)}}
	}
	return gr
}

// ---- the class in which Equal is expected to decide structural equality ----

// ends tells how the hash of t (as Equal computes it) ends: dash = with the attribute
// list of an object, star = with the value list of a union; neither list has a closing
// delimiter.
func (gr *Graph) ends(t *Type, visiting map[int]bool) (dash, star bool) {
	switch t.K {
	case "object":
		dash = true
		if len(t.Fields) > 0 {
			fs := append([]Field{}, t.Fields...)
			sort.SliceStable(fs, func(i, j int) bool { return fs[i].Name < fs[j].Name })
			_, star = gr.ends(fs[len(fs)-1].Att.T, visiting)
		}
		return
	case "array":
		return gr.ends(t.Elem.T, visiting)
	case "map":
		return gr.ends(t.Elem.T, visiting)
	case "union":
		star = true
		if len(t.Fields) > 0 {
			fs := append([]Field{}, t.Fields...)
			sort.SliceStable(fs, func(i, j int) bool { return fs[i].Name < fs[j].Name })
			dash, _ = gr.ends(fs[len(fs)-1].Att.T, visiting)
		}
		return
	case "user":
		if visiting[t.Ref] {
			return true, true
		}
		visiting[t.Ref] = true
		defer delete(visiting, t.Ref)
		return gr.ends(gr.Users[t.Ref].Att.T, visiting)
	}
	return false, false
}

// openBeforeSibling returns a description of the first object attribute (union value)
// whose type hash ends in an open attribute (value) list and which is followed by a
// sibling in sorted order, or "" when there is none. This is the negation of the
// hypothesis of hash_sound_partial and the signature of the known collision.
func (gr *Graph) openBeforeSibling() string {
	res := ""
	gr.walkTypes(func(t *Type) {
		if res != "" || (t.K != "object" && t.K != "union") || len(t.Fields) < 2 {
			return
		}
		fs := append([]Field{}, t.Fields...)
		sort.SliceStable(fs, func(i, j int) bool { return fs[i].Name < fs[j].Name })
		for _, f := range fs[:len(fs)-1] {
			dash, star := gr.ends(f.Att.T, map[int]bool{})
			if (t.K == "object" && dash) || (t.K == "union" && star) {
				res = t.K + " entry " + f.Name
				return
			}
		}
	})
	return res
}

// namesClean: attribute names without '/', union value names without '|', union type
// names without '-' ':' '_' (what the parse of hash_sound_partial needs).
func (gr *Graph) namesClean() bool {
	ok := true
	gr.walkTypes(func(t *Type) {
		if t.K == "union" && (t.Name == "" || strings.ContainsAny(t.Name, "-:_")) {
			ok = false
		}
		for _, f := range t.Fields {
			if (t.K == "object" && strings.Contains(f.Name, "/")) || (t.K == "union" && strings.Contains(f.Name, "|")) {
				ok = false
			}
		}
	})
	return ok
}

func (gr *Graph) closed() bool { return gr.namesClean() && gr.openBeforeSibling() == "" }

// repair rewrites the description until it is in the closed class: in every object
// (union) at most the entry sorting last keeps an open-ended type.
func (gr *Graph) repair() {
	for iter := 0; iter < 50 && gr.openBeforeSibling() != ""; iter++ {
		gr.walkTypes(func(t *Type) {
			if (t.K != "object" && t.K != "union") || len(t.Fields) < 2 {
				return
			}
			idx := make([]int, len(t.Fields))
			for i := range idx {
				idx[i] = i
			}
			sort.SliceStable(idx, func(i, j int) bool { return t.Fields[idx[i]].Name < t.Fields[idx[j]].Name })
			for _, i := range idx[:len(idx)-1] {
				dash, star := gr.ends(t.Fields[i].Att.T, map[int]bool{})
				if (t.K == "object" && dash) || (t.K == "union" && star) {
					t.Fields[i].Att.T = &Type{K: "prim", Prim: "string"}
					t.Fields[i].Att.Val = nil
				}
			}
		})
	}
}

// ---- neighbours: one local change that makes the type structurally different ----

func (g *gen) neighbour(gr *Graph) (*Graph, string) {
	for tries := 0; tries < 30; tries++ {
		c := gr.clone()
		var nodes []*Type
		c.walkTypes(func(t *Type) { nodes = append(nodes, t) })
		t := vh.Pick(g.r, nodes)
		switch g.r.Intn(8) {
		case 0:
			if t.K == "prim" {
				p := vh.Pick(g.r, primNames)
				if p != t.Prim {
					t.Prim = p
					return c, "change-prim"
				}
			}
		case 1:
			if (t.K == "object" || t.K == "union") && len(t.Fields) > 0 {
				used := map[string]bool{}
				for _, f := range t.Fields {
					used[f.Name] = true
				}
				i := g.r.Intn(len(t.Fields))
				t.Fields[i].Name = g.name(used)
				return c, "rename-" + t.K + "-entry"
			}
		case 2:
			if t.K == "object" || t.K == "union" {
				used := map[string]bool{}
				for _, f := range t.Fields {
					used[f.Name] = true
				}
				t.Fields = append(t.Fields, Field{g.name(used), &Att{T: &Type{K: "prim", Prim: vh.Pick(g.r, primNames)}}})
				return c, "add-" + t.K + "-entry"
			}
		case 3:
			if (t.K == "object" || t.K == "union") && len(t.Fields) > 0 {
				i := g.r.Intn(len(t.Fields))
				t.Fields = append(t.Fields[:i:i], t.Fields[i+1:]...)
				return c, "delete-" + t.K + "-entry"
			}
		case 4:
			if t.K == "prim" {
				inner := *t
				*t = Type{K: "array", Elem: &Att{T: &inner}}
				return c, "wrap-array"
			}
		case 5:
			if t.K == "union" {
				n := vh.Pick(g.r, unionNames)
				if n != t.Name {
					t.Name = n
					return c, "rename-union"
				}
			}
		case 6:
			// move an attribute of a nested inline object up into its parent: the
			// shape of the known collision; in the closed class it must be told apart
			if t.K == "object" {
				for i := range t.Fields {
					in := t.Fields[i].Att.T
					if in.K == "object" && len(in.Fields) > 0 {
						used := map[string]bool{}
						for _, f := range t.Fields {
							used[f.Name] = true
						}
						j := g.r.Intn(len(in.Fields))
						mv := in.Fields[j]
						if used[mv.Name] {
							continue
						}
						in.Fields = append(in.Fields[:j:j], in.Fields[j+1:]...)
						t.Fields = append(t.Fields, mv)
						return c, "hoist-attribute"
					}
				}
			}
		case 7:
			if t.K == "map" {
				t.Key, t.Elem = t.Elem, t.Key
				if fmt.Sprint(specString(t.Key.T)) != fmt.Sprint(specString(t.Elem.T)) {
					return c, "swap-map-key-elem"
				}
			}
		}
	}
	return nil, ""
}

// sameUnderEqual: a change that expr.Equal must not see (it ignores user type names,
// struct:field tags, validations, descriptions and declaration order).
func (g *gen) sameUnderEqual(gr *Graph) (*Graph, string) {
	c := gr.clone()
	var atts []*Att
	c.walkAtts(func(a *Att) { atts = append(atts, a) })
	switch k := g.r.Intn(5); {
	case k == 0 && len(c.Users) > 0:
		u := &c.Users[g.r.Intn(len(c.Users))]
		u.Name = u.Name + "Renamed"
		if u.UID != "" {
			u.UID += "-renamed"
		}
		return c, "rename-user-type"
	case k <= 1:
		a := vh.Pick(g.r, atts)
		key := vh.Pick(g.r, fieldMetaKeys)
		for i, kv := range a.Meta {
			if kv.K == key {
				a.Meta[i].V = []string{"changed"}
				return c, "change-field-tag"
			}
		}
		a.Meta = append(a.Meta, MetaKV{key, []string{"added"}})
		return c, "add-field-tag"
	case k == 2:
		a := vh.Pick(g.r, atts)
		a.Desc = "other description"
		a.Val = &Val{Pattern: "^x$"}
		return c, "change-validation-description"
	default:
		c.walkTypes(func(t *Type) { shuffleFields(g.r, t.Fields) })
		return c, "reorder"
	}
}

// specString: a canonical text of a description node (used for distinct counting)
func specString(t *Type) string {
	var b strings.Builder
	var w func(t *Type)
	w = func(t *Type) {
		switch t.K {
		case "prim":
			b.WriteString(t.Prim)
		case "array":
			b.WriteString("[")
			w(t.Elem.T)
			b.WriteString("]")
		case "map":
			b.WriteString("map<")
			w(t.Key.T)
			b.WriteString(",")
			w(t.Elem.T)
			b.WriteString(">")
		case "object", "union":
			b.WriteString(t.K[:1] + t.Name + "{")
			for _, f := range t.Fields {
				b.WriteString(f.Name + ":")
				w(f.Att.T)
				b.WriteString(";")
			}
			b.WriteString("}")
		case "user":
			fmt.Fprintf(&b, "#%d", t.Ref)
		}
	}
	w(t)
	return b.String()
}

func (gr *Graph) String() string {
	var b strings.Builder
	for i, u := range gr.Users {
		fmt.Fprintf(&b, "#%d=%s/%s/%v/%d:%s|", i, u.Name, u.UID, u.Result, len(u.Views), specString(u.Att.T))
	}
	b.WriteString(specString(gr.Root.T))
	return b.String()
}

// permutations of 0..n-1
func permutations(n int) [][]int {
	if n == 0 {
		return [][]int{{}}
	}
	var out [][]int
	for _, p := range permutations(n - 1) {
		for i := 0; i <= len(p); i++ {
			q := append(append(append([]int{}, p[:i]...), n-1), p[i:]...)
			out = append(out, q)
		}
	}
	return out
}

func shuffleFields(r *vh.RNG, fs []Field) {
	for i := len(fs) - 1; i > 0; i-- {
		j := r.Intn(i + 1)
		fs[i], fs[j] = fs[j], fs[i]
	}
}
