package main

// Printer from a designgen.Design to the Go source of a goa design package. It mirrors
// harness/designgen/interp.go call for call (same DSL functions, same order, same
// moment of evaluation: what the interpreter evaluates while declaring is evaluated in
// init() in declaration order, what it defers to a DSL closure is printed as a closure),
// so that `goa gen` on the printed package sees the design the in-process interpreter
// builds. The harness checks that claim on every design it prints: the files generated
// in-process and by the real tool must be byte-identical.

import (
	"fmt"
	"sort"
	"strconv"
	"strings"

	dg "verifharness/designgen"
)

type printer struct {
	d     *dg.Design
	b     strings.Builder
	final map[string]int // type name -> index of its last declaration
	schem map[string]int
}

func ident(prefix string, i int) string { return fmt.Sprintf("%s%d", prefix, i) }

func q(s string) string { return strconv.Quote(s) }

// lit prints a Go expression whose dynamic type and value equal v's.
func lit(v any) string {
	switch x := v.(type) {
	case nil:
		return "nil"
	case bool:
		return strconv.FormatBool(x)
	case int:
		return fmt.Sprintf("int(%d)", x)
	case int32:
		return fmt.Sprintf("int32(%d)", x)
	case int64:
		return fmt.Sprintf("int64(%d)", x)
	case uint:
		return fmt.Sprintf("uint(%d)", x)
	case uint32:
		return fmt.Sprintf("uint32(%d)", x)
	case uint64:
		return fmt.Sprintf("uint64(%d)", x)
	case float32:
		return "float32(" + strconv.FormatFloat(float64(x), 'g', -1, 32) + ")"
	case float64:
		return "float64(" + strconv.FormatFloat(x, 'g', -1, 64) + ")"
	case string:
		return q(x)
	case []byte:
		return "[]byte(" + q(string(x)) + ")"
	case []any:
		parts := make([]string, len(x))
		for i, e := range x {
			parts[i] = lit(e)
		}
		return "[]any{" + strings.Join(parts, ", ") + "}"
	case []string:
		parts := make([]string, len(x))
		for i, e := range x {
			parts[i] = q(e)
		}
		return "[]string{" + strings.Join(parts, ", ") + "}"
	case map[string]any:
		keys := make([]string, 0, len(x))
		for k := range x {
			keys = append(keys, k)
		}
		sort.Strings(keys)
		parts := make([]string, len(keys))
		for i, k := range keys {
			parts[i] = q(k) + ": " + lit(x[k])
		}
		return "map[string]any{" + strings.Join(parts, ", ") + "}"
	}
	panic(fmt.Sprintf("printer: unsupported literal %T", v))
}

// defaultValue is designgen's conversion of a JSON-ish default (copied: it is unexported).
func defaultValue(v any, t *dg.Type) any {
	if t.Kind == "prim" {
		switch t.Prim {
		case "Int", "Int32", "Int64", "UInt", "UInt32", "UInt64":
			switch x := v.(type) {
			case float64:
				return int(x)
			case int64:
				return int(x)
			}
		case "Float32", "Float64":
			switch x := v.(type) {
			case int:
				return float64(x)
			case int64:
				return float64(x)
			}
		case "Bytes":
			if s, ok := v.(string); ok {
				return []byte(s)
			}
		}
	}
	if t.Kind == "array" {
		if xs, ok := v.([]any); ok {
			out := make([]any, len(xs))
			for i, x := range xs {
				out[i] = defaultValue(x, &t.Elem.T)
			}
			return out
		}
	}
	return v
}

func needsDSL(a *dg.Attr) bool {
	return a != nil && (a.V != nil || a.HasDef || len(a.Meta) > 0 || a.View != "" || a.Desc != "")
}

var primNames = map[string]bool{"Boolean": true, "Int": true, "Int32": true, "Int64": true, "UInt": true, "UInt32": true,
	"UInt64": true, "Float32": true, "Float64": true, "String": true, "Bytes": true, "Any": true}

func (p *printer) typeRef(name string, cur map[string]int) string {
	if i, ok := cur[name]; ok {
		return ident("t", i)
	}
	return q(name)
}

// dataType mirrors interp.dataType; cur is the set of types declared at the moment the
// interpreter would evaluate the expression.
func (p *printer) dataType(t *dg.Type, cur map[string]int) string {
	switch t.Kind {
	case "prim":
		if primNames[t.Prim] {
			return "expr." + t.Prim
		}
		return q(t.Prim)
	case "array":
		return "ArrayOf(" + p.elemType(t.Elem, cur) + ", " + p.attrDSLNoType(t.Elem) + ")"
	case "map":
		var fn strings.Builder
		fn.WriteString("func() {\n")
		if t.Key != nil && needsDSL(t.Key) {
			fn.WriteString("Key(" + p.attrDSLNoType(t.Key) + ")\n")
		}
		if t.Elem != nil && needsDSL(t.Elem) {
			fn.WriteString("Elem(" + p.attrDSLNoType(t.Elem) + ")\n")
		}
		fn.WriteString("}")
		return "MapOf(" + p.elemType(t.Key, cur) + ", " + p.elemType(t.Elem, cur) + ", " + fn.String() + ")"
	case "user":
		return p.typeRef(t.Ref, cur)
	case "collection":
		return "CollectionOf(" + p.typeRef(t.Ref, cur) + ")"
	}
	return "expr.String"
}

func (p *printer) elemType(a *dg.Attr, cur map[string]int) string {
	if a == nil {
		return "expr.String"
	}
	if a.T.Kind == "object" {
		return "inlineObject(func() {\n" + p.fields(a.T.Attrs, cur) + "})"
	}
	return p.dataType(&a.T, cur)
}

func (p *printer) validation(v *dg.Validation) string {
	if v == nil {
		return ""
	}
	var b strings.Builder
	if len(v.Enum) > 0 {
		parts := make([]string, len(v.Enum))
		for i, e := range v.Enum {
			parts[i] = lit(e)
		}
		b.WriteString("Enum(" + strings.Join(parts, ", ") + ")\n")
	}
	if v.Format != "" {
		b.WriteString("Format(expr.ValidationFormat(" + q(v.Format) + "))\n")
	}
	if v.Pattern != "" {
		b.WriteString("Pattern(" + q(v.Pattern) + ")\n")
	}
	if v.Min != nil {
		b.WriteString("Minimum(" + lit(*v.Min) + ")\n")
	}
	if v.Max != nil {
		b.WriteString("Maximum(" + lit(*v.Max) + ")\n")
	}
	if v.ExclMin != nil {
		b.WriteString("ExclusiveMinimum(" + lit(*v.ExclMin) + ")\n")
	}
	if v.ExclMax != nil {
		b.WriteString("ExclusiveMaximum(" + lit(*v.ExclMax) + ")\n")
	}
	if v.MinLen != nil {
		b.WriteString("MinLength(" + strconv.Itoa(*v.MinLen) + ")\n")
	}
	if v.MaxLen != nil {
		b.WriteString("MaxLength(" + strconv.Itoa(*v.MaxLen) + ")\n")
	}
	return b.String()
}

// attrDSLBody is the body of interp.attrDSLNoType's closure.
func (p *printer) attrDSLBody(a *dg.Attr) string {
	if a == nil {
		return ""
	}
	var b strings.Builder
	b.WriteString(p.validation(a.V))
	if a.HasDef {
		b.WriteString("Default(" + lit(defaultValue(a.Default, &a.T)) + ")\n")
	}
	for _, m := range a.Meta {
		if len(m) > 0 {
			parts := make([]string, len(m))
			for i, s := range m {
				parts[i] = q(s)
			}
			b.WriteString("Meta(" + strings.Join(parts, ", ") + ")\n")
		}
	}
	if a.View != "" {
		b.WriteString("View(" + q(a.View) + ")\n")
	}
	if a.Desc != "" {
		b.WriteString("Description(" + q(a.Desc) + ")\n")
	}
	return b.String()
}

func (p *printer) attrDSLNoType(a *dg.Attr) string {
	return "func() {\n" + p.attrDSLBody(a) + "}"
}

func (p *printer) fields(fs []*dg.Field, cur map[string]int) string {
	var b strings.Builder
	var req []string
	for _, f := range fs {
		var args []string
		if f.A.T.Kind == "object" {
			args = []string{"func() {\n" + p.fields(f.A.T.Attrs, cur) + p.attrDSLBody(&f.A) + "}"}
		} else {
			args = []string{p.dataType(&f.A.T, cur)}
			if needsDSL(&f.A) {
				args = append(args, p.attrDSLNoType(&f.A))
			}
		}
		rest := strings.Join(args, ", ")
		switch {
		case f.A.Sec != nil:
			switch f.A.Sec.Fn {
			case "Username", "Password", "Token", "AccessToken":
				b.WriteString(f.A.Sec.Fn + "(" + q(f.Name) + ", " + rest + ")\n")
			case "APIKey":
				b.WriteString("APIKey(" + q(f.A.Sec.Scheme) + ", " + q(f.Name) + ", " + rest + ")\n")
			}
		case f.Tag > 0:
			b.WriteString("Field(" + strconv.Itoa(f.Tag) + ", " + q(f.Name) + ", " + rest + ")\n")
		default:
			b.WriteString("Attribute(" + q(f.Name) + ", " + rest + ")\n")
		}
		if f.Required {
			req = append(req, q(f.Name))
		}
	}
	if len(req) > 0 {
		b.WriteString("Required(" + strings.Join(req, ", ") + ")\n")
	}
	return b.String()
}

func (p *printer) io(fn string, a *dg.Attr, view string) string {
	if a.T.Kind == "object" {
		return fn + "(func() {\n" + p.fields(a.T.Attrs, p.final) + p.attrDSLBody(a) + "})\n"
	}
	args := []string{p.dataType(&a.T, p.final)}
	if needsDSL(a) || view != "" {
		body := p.attrDSLBody(a)
		if view != "" {
			body += "View(" + q(view) + ")\n"
		}
		args = append(args, "func() {\n"+body+"}")
	}
	return fn + "(" + strings.Join(args, ", ") + ")\n"
}

func (p *printer) errorDef(e dg.ErrorDef) string {
	args := []string{q(e.Name)}
	if e.T != nil {
		if e.T.Kind == "object" {
			args = append(args, "func() {\n"+p.fields(e.T.Attrs, p.final)+"}")
		} else {
			args = append(args, p.dataType(e.T, p.final))
		}
	}
	if e.Temporary || e.Timeout || e.Fault {
		if e.T != nil && e.T.Kind == "object" {
			// interp: flags ignored for custom inline types
		} else {
			fl := "func() {\n"
			if e.Temporary {
				fl += "Temporary()\n"
			}
			if e.Timeout {
				fl += "Timeout()\n"
			}
			if e.Fault {
				fl += "Fault()\n"
			}
			args = append(args, fl+"}")
		}
	}
	return "Error(" + strings.Join(args, ", ") + ")\n"
}

func mapArg(m dg.MapEntry) string {
	if m.Wire == "" || m.Wire == m.Attr {
		return m.Attr
	}
	return m.Attr + ":" + m.Wire
}

func (p *printer) body(b *dg.BodySpec) string {
	if b == nil {
		return ""
	}
	switch {
	case b.Empty:
		return "Body(expr.Empty)\n"
	case b.Attr != "":
		return "Body(" + q(b.Attr) + ")\n"
	}
	s := "Body(func() {\n"
	for _, a := range b.Attrs {
		s += "Attribute(" + q(a) + ")\n"
	}
	return s + "})\n"
}

func (p *printer) response(r dg.Response) string {
	var b strings.Builder
	b.WriteString("func() {\n")
	if len(r.Tag) == 2 {
		b.WriteString("Tag(" + q(r.Tag[0]) + ", " + q(r.Tag[1]) + ")\n")
	}
	if r.ContentType != "" {
		b.WriteString("ContentType(" + q(r.ContentType) + ")\n")
	}
	for _, h := range r.Headers {
		b.WriteString("Header(" + q(mapArg(h)) + ")\n")
	}
	for _, c := range r.Cookies {
		b.WriteString("Cookie(" + q(mapArg(c)) + ")\n")
	}
	b.WriteString(p.body(r.Body))
	b.WriteString("}")
	return b.String()
}

func (p *printer) errResponse(er dg.ErrResponse) string {
	return "Response(" + q(er.Name) + ", " + strconv.Itoa(er.R.Status) + ", " + p.response(er.R) + ")\n"
}

func (p *printer) http(h *dg.HTTPMap) string {
	var b strings.Builder
	b.WriteString("HTTP(func() {\n")
	for _, r := range h.Routes {
		switch r.Verb {
		case "GET", "HEAD", "POST", "PUT", "DELETE", "OPTIONS", "TRACE", "CONNECT", "PATCH":
			b.WriteString(r.Verb + "(" + q(r.Path) + ")\n")
		}
	}
	for _, x := range h.Params {
		b.WriteString("Param(" + q(mapArg(x)) + ")\n")
	}
	if h.MapParams != "" {
		if h.MapParams == "*" {
			b.WriteString("MapParams()\n")
		} else {
			b.WriteString("MapParams(" + q(h.MapParams) + ")\n")
		}
	}
	for _, x := range h.Headers {
		b.WriteString("Header(" + q(mapArg(x)) + ")\n")
	}
	for _, x := range h.Cookies {
		b.WriteString("Cookie(" + q(mapArg(x)) + ")\n")
	}
	if h.Multipart {
		b.WriteString("MultipartRequest()\n")
	}
	if h.SkipReq {
		b.WriteString("SkipRequestBodyEncodeDecode()\n")
	}
	if h.SkipResp {
		b.WriteString("SkipResponseBodyEncodeDecode()\n")
	}
	b.WriteString(p.body(h.Body))
	for _, r := range h.Responses {
		b.WriteString("Response(" + strconv.Itoa(r.Status) + ", " + p.response(r) + ")\n")
	}
	for _, er := range h.Errors {
		b.WriteString(p.errResponse(er))
	}
	b.WriteString("})\n")
	return b.String()
}

func (p *printer) grpc(g *dg.GRPCMap) string {
	var b strings.Builder
	attrs := func(fn string, ms []dg.MapEntry) {
		b.WriteString(fn + "(func() {\n")
		for _, m := range ms {
			b.WriteString("Attribute(" + q(mapArg(m)) + ")\n")
		}
		b.WriteString("})\n")
	}
	b.WriteString("GRPC(func() {\n")
	if len(g.Metadata) > 0 {
		attrs("Metadata", g.Metadata)
	}
	if len(g.Message) > 0 {
		b.WriteString("Message(func() {\n")
		for _, a := range g.Message {
			b.WriteString("Attribute(" + q(a) + ")\n")
		}
		b.WriteString("})\n")
	}
	if g.Code != 0 || len(g.Headers) > 0 || len(g.Trailers) > 0 {
		b.WriteString("Response(" + strconv.Itoa(g.Code) + ", func() {\n")
		if len(g.Headers) > 0 {
			attrs("Headers", g.Headers)
		}
		if len(g.Trailers) > 0 {
			attrs("Trailers", g.Trailers)
		}
		b.WriteString("})\n")
	}
	for _, e := range g.Errors {
		b.WriteString("Response(" + q(e.Name) + ", " + strconv.Itoa(e.Code) + ")\n")
	}
	b.WriteString("})\n")
	return b.String()
}

func (p *printer) security(reqs []dg.Requirement) string {
	var b strings.Builder
	for _, r := range reqs {
		var args []string
		for _, n := range r.Schemes {
			if i, ok := p.schem[n]; ok {
				args = append(args, ident("s", i))
			} else {
				args = append(args, q(n))
			}
		}
		if len(r.Scopes) > 0 {
			fn := "func() {\n"
			for _, sc := range r.Scopes {
				fn += "Scope(" + q(sc) + ")\n"
			}
			args = append(args, fn+"}")
		}
		b.WriteString("Security(" + strings.Join(args, ", ") + ")\n")
	}
	return b.String()
}

func (p *printer) declare(i int, ut *dg.UserType, cur map[string]int) string {
	var body strings.Builder
	body.WriteString("func() {\n")
	if ut.Result {
		body.WriteString("TypeName(" + q(ut.Name) + ")\n")
	}
	if ut.Extend != "" {
		if j, ok := p.final[ut.Extend]; ok {
			body.WriteString("Extend(" + ident("t", j) + ")\n")
		}
	}
	if ut.Reference != "" {
		if j, ok := p.final[ut.Reference]; ok {
			body.WriteString("Reference(" + ident("t", j) + ")\n")
		}
	}
	for _, n := range ut.RefAttrs {
		body.WriteString("Attribute(" + q(n) + ")\n")
	}
	if ut.Base.Kind == "object" {
		body.WriteString(p.fields(ut.Base.Attrs, p.final))
	}
	body.WriteString(p.validation(ut.V))
	for _, v := range ut.Views {
		body.WriteString("View(" + q(v.Name) + ", func() {\n")
		for _, a := range v.Attrs {
			if a.View != "" {
				body.WriteString("Attribute(" + q(a.Name) + ", func() { View(" + q(a.View) + ") })\n")
			} else {
				body.WriteString("Attribute(" + q(a.Name) + ")\n")
			}
		}
		body.WriteString("})\n")
	}
	body.WriteString("}")
	v := ident("t", i)
	if ut.Result {
		id := ut.Identifier
		if id == "" {
			id = "application/vnd." + ut.Name
		}
		return v + " = ResultType(" + q(id) + ", " + body.String() + ")\n"
	}
	if ut.Base.Kind == "object" {
		return v + " = Type(" + q(ut.Name) + ", " + body.String() + ")\n"
	}
	return v + " = Type(" + q(ut.Name) + ", " + p.dataType(&ut.Base, cur) + ", " + body.String() + ")\n"
}

// PrintDesign returns the source of package `design`.
func PrintDesign(d *dg.Design) string {
	p := &printer{d: d, final: map[string]int{}, schem: map[string]int{}}
	for i, ut := range d.Types {
		p.final[ut.Name] = i
	}
	var b strings.Builder
	b.WriteString("// Package design is printed by the C09 harness from a designgen description.\npackage design\n\n")
	b.WriteString("import (\n\t. \"goa.design/goa/v3/dsl\"\n\t\"goa.design/goa/v3/eval\"\n\t\"goa.design/goa/v3/expr\"\n)\n\n")
	b.WriteString("var _ = eval.Execute\nvar _ = expr.String\n\n")
	b.WriteString("func inlineObject(fn func()) expr.DataType {\n\tat := &expr.AttributeExpr{Type: &expr.Object{}}\n\teval.Execute(fn, at)\n\treturn at.Type\n}\n\n")
	if len(d.Types) > 0 || len(d.Schemes) > 0 {
		b.WriteString("var (\n")
		for i := range d.Types {
			b.WriteString("\t" + ident("t", i) + " expr.UserType\n")
		}
		for i := range d.Schemes {
			b.WriteString("\t" + ident("s", i) + " *expr.SchemeExpr\n")
		}
		b.WriteString(")\n\n")
		b.WriteString("var _ = []any{")
		for i := range d.Types {
			b.WriteString(ident("t", i) + ", ")
		}
		for i := range d.Schemes {
			b.WriteString(ident("s", i) + ", ")
		}
		b.WriteString("}\n\n")
	}
	b.WriteString("func init() {\n")
	kinds := map[string]string{"basic": "BasicAuthSecurity", "apikey": "APIKeySecurity", "jwt": "JWTSecurity", "oauth2": "OAuth2Security"}
	for i, s := range d.Schemes {
		fn, ok := kinds[s.Kind]
		if !ok {
			continue
		}
		body := "func() {\n"
		for _, sc := range s.Scopes {
			body += "Scope(" + q(sc) + ", " + q("scope "+sc) + ")\n"
		}
		if s.Kind == "oauth2" {
			body += "ClientCredentialsFlow(\"http://auth/token\", \"http://auth/refresh\")\n"
		}
		body += "}"
		b.WriteString(ident("s", i) + " = " + fn + "(" + q(s.Name) + ", " + body + ")\n")
		p.schem[s.Name] = i
	}
	b.WriteString("API(" + q(d.Name) + ", func() {\n")
	b.WriteString(p.security(d.Security))
	for _, e := range d.Errors {
		b.WriteString(p.errorDef(e))
	}
	if d.BasePath != "" || len(d.HTTPErrs) > 0 {
		b.WriteString("HTTP(func() {\n")
		if d.BasePath != "" {
			b.WriteString("Path(" + q(d.BasePath) + ")\n")
		}
		for _, er := range d.HTTPErrs {
			b.WriteString(p.errResponse(er))
		}
		b.WriteString("})\n")
	}
	b.WriteString("})\n")
	cur := map[string]int{}
	for i, ut := range d.Types {
		b.WriteString(p.declare(i, ut, cur))
		cur[ut.Name] = i
	}
	for _, s := range d.Services {
		b.WriteString("Service(" + q(s.Name) + ", func() {\n")
		b.WriteString(p.security(s.Security))
		for _, e := range s.Errors {
			b.WriteString(p.errorDef(e))
		}
		if s.BasePath != "" || len(s.HTTPErrs) > 0 {
			b.WriteString("HTTP(func() {\n")
			if s.BasePath != "" {
				b.WriteString("Path(" + q(s.BasePath) + ")\n")
			}
			for _, er := range s.HTTPErrs {
				b.WriteString(p.errResponse(er))
			}
			b.WriteString("})\n")
		}
		for _, m := range s.Methods {
			b.WriteString("Method(" + q(m.Name) + ", func() {\n")
			if m.NoSecurity {
				b.WriteString("NoSecurity()\n")
			}
			b.WriteString(p.security(m.Security))
			if m.Payload != nil {
				b.WriteString(p.io("Payload", m.Payload, ""))
			}
			if m.StreamingPayload != nil {
				b.WriteString(p.io("StreamingPayload", m.StreamingPayload, ""))
			}
			if m.Result != nil {
				b.WriteString(p.io("Result", m.Result, m.ResultView))
			}
			if m.StreamingResult != nil {
				b.WriteString(p.io("StreamingResult", m.StreamingResult, ""))
			}
			for _, e := range m.Errors {
				b.WriteString(p.errorDef(e))
			}
			if m.HTTP != nil {
				b.WriteString(p.http(m.HTTP))
			}
			if m.GRPC != nil {
				b.WriteString(p.grpc(m.GRPC))
			}
			b.WriteString("})\n")
		}
		for _, f := range s.Files {
			b.WriteString("Files(" + q(f.Path) + ", " + q(f.File) + ")\n")
		}
		b.WriteString("})\n")
	}
	b.WriteString("}\n")
	return b.String()
}
