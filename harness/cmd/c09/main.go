// Command c09 observes goa's code generation (the part of C09 that is not proved):
//
//	tier A  in-process: every design is evaluated through the real DSL and generated
//	        (gen + example) R times into fresh directories with the same module-relative
//	        layout; file lists and sha256 must agree between repetitions (Go randomises
//	        map iteration per loop, so repetitions in one process already exercise
//	        different iteration orders). The []*codegen.File lists of the generators are
//	        read too (paths, SkipExist flags).
//	CLI     the real `goa` tool in fresh processes: designs are printed as Go design
//	        packages (printer.go) and histories of gen / example / user edits / stray
//	        files are executed on ONE output directory each, several process runs per
//	        history; after every operation the directory is recorded (path, sha256,
//	        mtime). The direct oracle evaluates the property on these records; every
//	        history with its final directory is also written as a Coq term and compared
//	        with the GenFS model inside Coq by bin/check.
//	probe   API/service/method-level metadata (tags, extensions, both summary spellings).
//	search  (-search) more repetitions on designs loaded with metadata, used by bin/check
//	        when a proof obligation broke and the normal streams found nothing.
package main

import (
	"bytes"
	"crypto/sha256"
	"encoding/hex"
	"encoding/json"
	"flag"
	"fmt"
	"go/parser"
	"go/token"
	"os"
	"os/exec"
	"path/filepath"
	"sort"
	"strings"
	"sync"
	"time"

	"goa.design/goa/v3/codegen"
	"goa.design/goa/v3/codegen/generator"
	"goa.design/goa/v3/dsl"
	"goa.design/goa/v3/eval"
	"goa.design/goa/v3/expr"
	httpcodegen "goa.design/goa/v3/http/codegen"
	"goa.design/goa/v3/http/codegen/openapi"

	dg "verifharness/designgen"
	"verifharness/vh"
)

// ------------------------------------------------------------------ records

type FileRec struct {
	SHA   string `json:"sha"`
	Mtime int64  `json:"mtime"`
	Pkg   string `json:"pkg,omitempty"` // package clause of a Go file ("!" + error if it does not parse)
}

type Snapshot map[string]FileRec

type FileFlag struct {
	Path string `json:"path"`
	Skip bool   `json:"skip_exist"`
}

// Failure input written to result.json / replay files.
type Input struct {
	Stream  string     `json:"stream"` // tierA | cli | metaprobe | search
	Design  *dg.Design `json:"design,omitempty"`
	Name    string     `json:"name,omitempty"`
	History []string   `json:"history,omitempty"`
	Detail  any        `json:"detail,omitempty"`
}

var (
	repo    string
	workDir string
	res     = vh.NewResult()
	resMu   sync.Mutex
)

func fail(sig, what string, in Input) {
	resMu.Lock()
	defer resMu.Unlock()
	res.Fail(sig, what, in)
}

func count(k string) {
	resMu.Lock()
	defer resMu.Unlock()
	res.Count(k)
}

var baseEnv = os.Environ() // before any ambient variation of this process

func goenv() []string {
	env := []string{}
	for _, e := range baseEnv {
		if strings.HasPrefix(e, "GOFLAGS=") || strings.HasPrefix(e, "GOPROXY=") || strings.HasPrefix(e, "GOSUMDB=") ||
			strings.HasPrefix(e, "GOTOOLCHAIN=") || strings.HasPrefix(e, "GO111MODULE=") {
			continue
		}
		env = append(env, e)
	}
	return append(env, "GOFLAGS=-mod=mod", "GOPROXY=off", "GOSUMDB=off", "GOTOOLCHAIN=local")
}

func sha(b []byte) string {
	h := sha256.Sum256(b)
	return hex.EncodeToString(h[:])
}

// snapshot records every regular file under dir except the module files, the design
// package and goa's temporary build directory.
func snapshot(dir string) Snapshot {
	s := Snapshot{}
	_ = filepath.Walk(dir, func(p string, fi os.FileInfo, err error) error {
		if err != nil {
			return nil
		}
		rel, _ := filepath.Rel(dir, p)
		if fi.IsDir() {
			if rel == "design" {
				return filepath.SkipDir
			}
			return nil
		}
		if rel == "go.mod" || rel == "go.sum" {
			return nil
		}
		b, err := os.ReadFile(p)
		if err != nil {
			return nil
		}
		rec := FileRec{SHA: sha(b), Mtime: fi.ModTime().UnixNano()}
		if strings.HasSuffix(rel, ".go") {
			if f, err := parser.ParseFile(token.NewFileSet(), p, b, parser.PackageClauseOnly); err != nil {
				rec.Pkg = "!" + err.Error()
			} else {
				rec.Pkg = f.Name.Name
			}
		}
		s[filepath.ToSlash(rel)] = rec
		return nil
	})
	return s
}

func shaOnly(s Snapshot) map[string]string {
	m := map[string]string{}
	for k, v := range s {
		m[k] = v.SHA
	}
	return m
}

// diffSnap lists paths whose presence or digest differ (first few).
func diffSnap(a, b map[string]string) []string {
	var out []string
	for _, k := range vh.SortedKeys(a) {
		if vb, ok := b[k]; !ok {
			out = append(out, "only in first: "+k)
		} else if vb != a[k] {
			out = append(out, "differs: "+k)
		}
	}
	for _, k := range vh.SortedKeys(b) {
		if _, ok := a[k]; !ok {
			out = append(out, "only in second: "+k)
		}
	}
	if len(out) > 8 {
		out = append(out[:8], fmt.Sprintf("... %d more", len(out)-8))
	}
	return out
}

func inGenSubdir(p string) bool {
	parts := strings.Split(p, "/")
	return len(parts) >= 3 && parts[0] == "gen"
}

// ------------------------------------------------------------------ tier A

// evalFresh evaluates the design in a world as fresh as a new process: designgen resets
// the evaluation context and the codegen caches; the OpenAPI builders also keep the JSON
// schema definitions of everything generated so far in a package-level map (goa's own
// tests reset it between designs) which decides how many example values are drawn.
func evalFresh(d *dg.Design) dg.Outcome {
	openapi.Definitions = make(map[string]*openapi.Schema)
	return d.Eval()
}

func setCmdline(cmd, outFlag string) {
	c := "--cmd=$ goa " + cmd + " tb/design"
	if outFlag != "" {
		c += " -o " + outFlag
	}
	os.Args = []string{os.Args[0], c}
}

// generatorFiles evaluates the design and asks the generator packages for their file
// lists (without rendering): path and SkipExist of every file of a command.
func generatorFiles(d *dg.Design, genpkg string) (gen, ex []FileFlag, err error) {
	o := evalFresh(d)
	if !o.Accepted {
		return nil, nil, fmt.Errorf("design rejected: %v %s", o.Err, o.Panic)
	}
	defer func() {
		if r := recover(); r != nil {
			err = fmt.Errorf("generator panic: %v", r)
		}
	}()
	roots, err := eval.Context.Roots()
	if err != nil {
		return nil, nil, err
	}
	collect := func(fs []*codegen.File) []FileFlag {
		var out []FileFlag
		for _, f := range fs {
			out = append(out, FileFlag{Path: filepath.ToSlash(f.Path), Skip: f.SkipExist})
		}
		return out
	}
	for _, g := range []generator.Genfunc{generator.Service, generator.Transport, generator.OpenAPI} {
		fs, err := g(genpkg, roots)
		if err != nil {
			return nil, nil, err
		}
		gen = append(gen, collect(fs)...)
	}
	// a fresh evaluation for the example generators (the generators keep caches)
	o = evalFresh(d)
	if !o.Accepted {
		return nil, nil, fmt.Errorf("design rejected on second evaluation: %v", o.Err)
	}
	roots, err = eval.Context.Roots()
	if err != nil {
		return nil, nil, err
	}
	fs, err := generator.Example(genpkg, roots)
	if err != nil {
		return nil, nil, err
	}
	ex = collect(fs)
	return gen, ex, nil
}

type tierAResult struct {
	Gen, Ex   map[string]string // path -> sha of the reference repetition (module-relative to the output dir)
	GenFlags  []FileFlag
	ExFlags   []FileFlag
	Accepted  bool
	Generated bool
}

// tierA generates design d `reps` times in-process into root/r<k>/<sub> (module tb in
// root/r<k>) and compares. stream names the case stream for failure inputs.
func tierA(d *dg.Design, root, sub string, reps, extraGen int, stream, outFlag string) *tierAResult {
	out := &tierAResult{}
	in := Input{Stream: stream, Design: d}
	var refGen, refAll map[string]string
	// repetitions 0..reps-1 run gen and example; extraGen more repetitions run gen only
	for k := 0; k < reps+extraGen; k++ {
		modroot := filepath.Join(root, fmt.Sprintf("r%d", k))
		if _, err := os.Stat(filepath.Join(modroot, "go.mod")); err != nil {
			if err := dg.WriteModule(modroot, "tb", repo, ""); err != nil {
				panic(err)
			}
		}
		dir := filepath.Join(modroot, sub)
		if sub != "." && sub != "" {
			os.RemoveAll(dir)
		}
		if err := os.MkdirAll(dir, 0o755); err != nil {
			panic(err)
		}
		setAmbient(k) // repetition k runs under another time zone / locale / environment
		defer restoreAmbient()
		o := evalFresh(d)
		if o.Panic != "" || !o.Accepted {
			count("tierA_design_rejected")
			return out
		}
		out.Accepted = true
		setCmdline("gen", outFlag)
		_, err, pan := dg.Generate(dir, "gen")
		if err != nil || pan != "" {
			// a design goa accepts but cannot generate belongs to C01; not a C09 failure
			count("tierA_generate_error")
			return out
		}
		sGen := shaOnly(snapshot(dir))
		if k >= reps {
			if df := diffSnap(refGen, sGen); len(df) > 0 {
				fail("gen-output-differs-between-runs", fmt.Sprintf("two in-process generations of one design differ (repetition 0 [ambient %s] vs %d [ambient %s: time zone %+ds, %v]): %s", ambients[0].Name, k, ambients[k%len(ambients)].Name, ambients[k%len(ambients)].ZoneS, ambients[k%len(ambients)].Env, strings.Join(df, "; ")), in)
				break
			}
			continue
		}
		setCmdline("example", outFlag)
		_, err, pan = dg.Generate(dir, "example")
		if err != nil || pan != "" {
			count("tierA_example_error")
			return out
		}
		sAll := shaOnly(snapshot(dir))
		// example must not have touched gen/
		for p, h := range sGen {
			if sAll[p] != h {
				fail("example-modified-existing-file", "in-process example run changed "+p+" written by gen", in)
			}
		}
		for p := range sAll {
			if strings.HasPrefix(p, "gen/temp.") {
				fail("gen-leaves-temp-file", "temporary file left in gen/: "+p, in)
			}
		}
		if k == 0 {
			refGen, refAll = sGen, sAll
			continue
		}
		if df := diffSnap(refGen, sGen); len(df) > 0 {
			fail("gen-output-differs-between-runs", fmt.Sprintf("two in-process generations of one design differ (repetition 0 [ambient %s] vs %d [ambient %s: time zone %+ds, %v]): %s", ambients[0].Name, k, ambients[k%len(ambients)].Name, ambients[k%len(ambients)].ZoneS, ambients[k%len(ambients)].Env, strings.Join(df, "; ")), in)
			break
		}
		if df := diffSnap(refAll, sAll); len(df) > 0 {
			fail("example-output-differs-between-runs", fmt.Sprintf("two in-process example generations of one design differ (repetition 0 vs %d [ambient %s]): %s", k, ambients[k%len(ambients)].Name, strings.Join(df, "; ")), in)
			break
		}
	}
	out.Generated = true
	out.Gen = refGen
	out.Ex = map[string]string{}
	for p, h := range refAll {
		if _, ok := refGen[p]; !ok {
			out.Ex[p] = h
		}
	}
	// generator file lists
	genpkg := "tb/" + filepath.ToSlash(sub) + "/gen"
	if sub == "" || sub == "." {
		genpkg = "tb/gen"
	}
	g, e, err := generatorFiles(d, genpkg)
	if err != nil {
		count("tierA_filelist_error")
		return out
	}
	out.GenFlags, out.ExFlags = g, e
	seen := map[string]bool{}
	for _, f := range g {
		if !inGenSubdir(f.Path) {
			fail("gen-file-outside-gen-subdir", "the gen command writes "+f.Path+", which is not inside a sub-directory of gen/ and is therefore never cleaned up (appended to by the next run)", in)
		}
		if f.Skip {
			fail("gen-file-with-skip-exist", "gen file "+f.Path+" has SkipExist set: a stale copy would survive regeneration", in)
		}
		if seen[f.Path] {
			count("gen_path_rendered_twice")
		}
		seen[f.Path] = true
		if _, ok := refGen[f.Path]; !ok {
			fail("gen-file-list-mismatch", "generator lists "+f.Path+" but the gen run did not write it", in)
		}
	}
	for p := range refGen {
		if !seen[p] {
			fail("gen-file-list-mismatch", "gen run wrote "+p+" which no generator lists", in)
		}
	}
	for _, f := range e {
		if !f.Skip {
			fail("example-file-without-skip-exist", "example file "+f.Path+" is rendered without SkipExist: a second `goa example` appends to / rewrites the user's file", in)
		}
		if inGenSubdir(f.Path) {
			fail("example-file-inside-gen", "example file "+f.Path+" lives in a sub-directory of gen/ and is wiped by the next gen", in)
		}
	}
	return out
}

// ------------------------------------------------------------------ CLI

var goaBin string

func buildGoa() error {
	mod := filepath.Join(workDir, "toolmod")
	if err := dg.WriteModule(mod, "c09tool", repo, ""); err != nil {
		return err
	}
	goaBin = filepath.Join(workDir, "goa")
	cmd := exec.Command("go", "build", "-o", goaBin, "goa.design/goa/v3/cmd/goa")
	cmd.Dir = mod
	cmd.Env = goenv()
	if b, err := cmd.CombinedOutput(); err != nil {
		return fmt.Errorf("go build cmd/goa: %v\n%s", err, b)
	}
	return nil
}

// Ambient is one setting of the inputs that are NOT the design or the command line: the
// local time zone, locale variables, unrelated environment variables, how deep the module
// lives in the file system. Generated bytes must not depend on any of them.
type Ambient struct {
	Name  string   `json:"name"`
	Env   []string `json:"env"`
	Nest  string   `json:"nest,omitempty"` // extra directories between the work dir and the module
	ZoneS int      `json:"zone_offset_s"`  // in-process: time.Local = FixedZone(Name, ZoneS)
}

var ambients = []Ambient{
	{Name: "utc", Env: []string{"TZ=UTC", "LANG=C", "LC_ALL=C"}, ZoneS: 0},
	{Name: "kiritimati", Env: []string{"TZ=Pacific/Kiritimati", "LANG=tr_TR.UTF-8", "LC_ALL=tr_TR.UTF-8", "C09_UNRELATED=1", "USER=someone", "HOSTNAME=elsewhere"}, Nest: "deeper/nest", ZoneS: 14 * 3600},
	{Name: "pago_pago", Env: []string{"TZ=Pacific/Pago_Pago", "LANG=ja_JP.UTF-8", "LC_ALL=", "COLUMNS=20"}, ZoneS: -11 * 3600},
	{Name: "kathmandu", Env: []string{"TZ=Asia/Kathmandu", "LANG=de_DE.ISO-8859-1", "LC_TIME=fr_FR"}, Nest: "a", ZoneS: 5*3600 + 45*60},
}

var processLocal = time.Local

// setAmbient applies ambient setting k to this process (tier A repetitions).
func setAmbient(k int) {
	a := ambients[k%len(ambients)]
	if a.ZoneS == 0 {
		time.Local = time.UTC
	} else {
		time.Local = time.FixedZone(a.Name, a.ZoneS)
	}
	for _, kv := range a.Env {
		i := strings.IndexByte(kv, '=')
		os.Setenv(kv[:i], kv[i+1:])
	}
}

func restoreAmbient() { time.Local = processLocal }

func runGoa(dir, cmdName, outFlag string, amb int) (string, error) {
	args := []string{cmdName, "tb/design"}
	if outFlag != "" {
		args = append(args, "-o", outFlag)
	}
	cmd := exec.Command(goaBin, args...)
	cmd.Dir = dir
	env := []string{}
	a := ambients[amb%len(ambients)]
	skip := map[string]bool{}
	for _, kv := range a.Env {
		skip[kv[:strings.IndexByte(kv, '=')]] = true
	}
	for _, kv := range goenv() {
		if !skip[kv[:strings.IndexByte(kv, '=')]] {
			env = append(env, kv)
		}
	}
	cmd.Env = append(env, a.Env...)
	b, err := cmd.CombinedOutput()
	return string(b), err
}

// Step of a history as executed; model ops are derived from it.
type Step struct {
	Kind    string `json:"kind"` // gen | example | write | delete
	Path    string `json:"path,omitempty"`
	Content string `json:"content,omitempty"`
}

type HistRun struct {
	Design   int        `json:"design"`
	Hist     string     `json:"hist"`
	Rep      int        `json:"rep"`
	ExPaths  []string   `json:"-"`             // paths the example command writes (from the generators' file lists)
	Out      string     `json:"out,omitempty"` // value of goa\'s -o flag ("" = the working directory)
	Steps    []Step     `json:"steps"`
	Snaps    []Snapshot `json:"-"` // after every step
	Err      string     `json:"err,omitempty"`
	FailedAt int        `json:"failed_at,omitempty"`
}

var histories = map[string][]string{
	"gen_gen":                        {"gen", "gen"},
	"gen_example_edit_example":       {"gen", "example", "edit", "example"},
	"example_gen":                    {"example", "gen"},
	"gen_stray_gen":                  {"gen", "stray", "gen"},
	"gen_example_delete_example_gen": {"gen", "example", "delete", "example", "gen"},
	"example_delete_example":         {"example", "delete", "example"},
	"precreate_example_example":      {"precreate", "example", "example"},
}

func histNames(tier string) []string {
	hs := []string{"gen_gen", "gen_example_edit_example", "example_gen", "gen_stray_gen", "example_delete_example", "precreate_example_example"}
	if tier == "thorough" {
		hs = append(hs, "gen_example_delete_example_gen")
	}
	return hs
}

func writeCLIModule(dir string, src string) error {
	if err := dg.WriteModule(dir, "tb", repo, ""); err != nil {
		return err
	}
	if err := os.MkdirAll(filepath.Join(dir, "design"), 0o755); err != nil {
		return err
	}
	return os.WriteFile(filepath.Join(dir, "design", "design.go"), []byte(src), 0o644)
}

// expand turns the abstract history into concrete steps given the current directory.
func expand(kind string, dir string, cur Snapshot, hr *HistRun) []Step {
	switch kind {
	case "gen", "example":
		return []Step{{Kind: kind}}
	case "edit", "delete":
		// the first example file outside gen/ (sorted), preferring a Go file
		var cands []string
		for p := range cur {
			if !strings.HasPrefix(p, "gen/") && strings.HasSuffix(p, ".go") {
				cands = append(cands, p)
			}
		}
		sort.Strings(cands)
		if len(cands) == 0 {
			return nil
		}
		if kind == "delete" {
			// SOME but not all example files disappear: the last service implementation
			// file of the output root (the others stay) and the first file below cmd/
			st := []Step{}
			var rootFiles []string
			for _, p := range cands {
				if !strings.Contains(p, "/") {
					rootFiles = append(rootFiles, p)
				}
			}
			if len(rootFiles) > 0 {
				st = append(st, Step{Kind: "delete", Path: rootFiles[len(rootFiles)-1]})
			}
			if len(rootFiles) > 2 {
				st = append(st, Step{Kind: "delete", Path: rootFiles[len(rootFiles)/2]})
			}
			if cands[0] != "" && strings.Contains(cands[0], "/") {
				st = append(st, Step{Kind: "delete", Path: cands[0]})
			}
			return st
		}
		// every example file gets some user content, kinds in rotation: whatever the user
		// left there — a polite edit, an emptied file, one byte, badly formatted code with an
		// unused import, text that is not Go — is the user's
		var st []Step
		for i, p := range cands {
			b, _ := os.ReadFile(filepath.Join(dir, p))
			st = append(st, Step{Kind: "write", Path: p, Content: userContent(i, string(b))})
		}
		return st
	case "precreate":
		// before the first example run the user already has files at (all but one of) the
		// paths example writes: empty placeholders, one-liners, notes
		var st []Step
		paths := append([]string(nil), hr.ExPaths...)
		sort.Strings(paths)
		for i, p := range paths {
			if i == len(paths)/2 {
				continue // this one is missing: example must create it
			}
			st = append(st, Step{Kind: "write", Path: p, Content: userContent(i+1, "package placeholder\n")})
		}
		return st
	case "stray":
		// a stray file in every directory below gen/, a tampered generated file, a deleted
		// generated file, and a file directly in gen/ (which goa does not own)
		dirs := map[string]bool{}
		var genFiles []string
		for p := range cur {
			if strings.HasPrefix(p, "gen/") {
				genFiles = append(genFiles, p)
				d := filepath.ToSlash(filepath.Dir(p))
				for d != "gen" && d != "." {
					dirs[d] = true
					d = filepath.ToSlash(filepath.Dir(d))
				}
			}
		}
		sort.Strings(genFiles)
		var st []Step
		for _, d := range vh.SortedKeys(dirs) {
			st = append(st, Step{Kind: "write", Path: d + "/zz_stray.txt", Content: "stray in " + d + "\n"})
		}
		st = append(st, Step{Kind: "write", Path: "gen/zz_new_dir/deep/zz_stray.go", Content: "package deep\n"})
		// cleanup must remove EVERY sub-directory of gen/, whatever it is called
		for _, n := range []string{"goa1234567", "goa", "goazz", "tmp", "design", ".hidden", "gen", "cmd", "X"} {
			if !dirs["gen/"+n] {
				st = append(st, Step{Kind: "write", Path: "gen/" + n + "/zz_stray.txt", Content: "stray directory " + n + "\n"})
			}
		}
		if len(genFiles) > 0 {
			f := genFiles[0]
			b, _ := os.ReadFile(filepath.Join(dir, f))
			st = append(st, Step{Kind: "write", Path: f, Content: string(b) + "\n// tampered\n"})
			st = append(st, Step{Kind: "delete", Path: genFiles[len(genFiles)-1]})
		}
		st = append(st, Step{Kind: "write", Path: "gen/zz_top_level.txt", Content: "not in a sub-directory\n"})
		return st
	}
	return nil
}

func exPaths(r *tierAResult) []string {
	var out []string
	for _, f := range r.ExFlags {
		out = append(out, f.Path)
	}
	return out
}

// userContent: kinds of content a user may leave in a file goa example created.
func userContent(kind int, orig string) string {
	switch kind % 6 {
	case 0:
		return orig + "\n// edited by the user\n"
	case 1:
		return "" // emptied, or an empty placeholder
	case 2:
		return "\n"
	case 3: // not gofmt-clean, unused import, odd spacing
		return strings.Replace(orig, "import (", "import (\n\t\"unsafe\"\n\n\n", 1) + "\n\n\nfunc   userAdded( )  {   }\n"
	case 4:
		return "this is not Go source <<<<\n" + orig
	default:
		return "// " + strings.Repeat("x", 1+kind) + "\n" + orig
	}
}

func runHistory(dir, src string, hr *HistRun) {
	os.RemoveAll(dir)
	if err := writeCLIModule(dir, src); err != nil {
		hr.Err = err.Error()
		return
	}
	cur := Snapshot{}
	moddir := dir
	dir = filepath.Join(moddir, hr.Out) // the output directory
	for _, k := range histories[hr.Hist] {
		for _, st := range expand(k, dir, cur, hr) {
			switch st.Kind {
			case "gen", "example":
				out, err := runGoa(moddir, st.Kind, hr.Out, hr.Rep)
				if err != nil {
					hr.Steps = append(hr.Steps, st)
					hr.Err = fmt.Sprintf("goa %s failed: %v: %s", st.Kind, err, trunc(out, 1500))
					hr.FailedAt = len(hr.Steps)
					return
				}
			case "write":
				p := filepath.Join(dir, st.Path)
				_ = os.MkdirAll(filepath.Dir(p), 0o755)
				if err := os.WriteFile(p, []byte(st.Content), 0o644); err != nil {
					hr.Err = err.Error()
					return
				}
			case "delete":
				_ = os.Remove(filepath.Join(dir, st.Path))
			}
			hr.Steps = append(hr.Steps, st)
			cur = snapshot(dir)
			hr.Snaps = append(hr.Snaps, cur)
		}
	}
}

func trunc(s string, n int) string {
	if len(s) > n {
		return s[:n] + "..."
	}
	return s
}

func stepNames(hr *HistRun) []string {
	var out []string
	for _, s := range hr.Steps {
		if s.Path != "" {
			out = append(out, s.Kind+" "+s.Path)
		} else {
			out = append(out, s.Kind)
		}
	}
	return out
}

// oracleHistory evaluates the property directly on one executed history.
func oracleHistory(d *dg.Design, hr *HistRun, fresh map[string]Snapshot) {
	in := Input{Stream: "cli", Design: d, History: stepNames(hr), Detail: map[string]any{"history": hr.Hist, "process_run": hr.Rep, "output_flag": hr.Out, "ambient": ambients[hr.Rep%len(ambients)]}}
	if hr.Err != "" {
		sig := "goa-command-failed"
		if hr.FailedAt > 1 {
			sig = "goa-command-fails-over-previous-output"
		}
		fail(sig, hr.Err, in)
		return
	}
	prev := Snapshot{}
	var lastGen Snapshot
	userWrote := map[string]string{} // path -> digest of what the user last wrote there
	for i, st := range hr.Steps {
		cur := hr.Snaps[i]
		if st.Kind == "write" {
			userWrote[st.Path] = sha([]byte(st.Content))
		}
		switch st.Kind {
		case "example":
			// never modifies a file that exists: content and mtime
			for p, r := range prev {
				c, ok := cur[p]
				switch {
				case !ok:
					fail("example-removed-existing-file", fmt.Sprintf("goa example removed %s (step %d)", p, i+1), in)
				case c.SHA != r.SHA:
					fail("example-modified-existing-file", fmt.Sprintf("goa example changed the content of the existing file %s (step %d of %v)", p, i+1, stepNames(hr)), in)
				case c.Mtime != r.Mtime:
					fail("example-rewrote-existing-file", fmt.Sprintf("goa example rewrote the existing file %s (same bytes, new mtime; step %d)", p, i+1), in)
				}
			}
			for p := range cur {
				if inGenSubdir(p) {
					if _, ok := prev[p]; !ok {
						fail("example-file-inside-gen", "goa example created "+p+" inside gen/", in)
					}
				}
			}
			if f, ok := fresh["example"]; ok {
				// whatever example creates is what it creates in an empty directory
				for p, c := range cur {
					if _, existed := prev[p]; existed {
						continue
					}
					if fr, ok := f[p]; !ok || fr.SHA != c.SHA {
						fail("example-output-depends-on-directory", "goa example created "+p+" with other bytes than in an empty directory", in)
					}
				}
			}
		case "gen":
			// everything in the sub-directories of gen/ is exactly the fresh output
			if f, ok := fresh["gen"]; ok {
				a, b := map[string]string{}, map[string]string{}
				for p, r := range f {
					if inGenSubdir(p) {
						a[p] = r.SHA
					}
				}
				for p, r := range cur {
					if inGenSubdir(p) {
						b[p] = r.SHA
					}
				}
				if df := diffSnap(a, b); len(df) > 0 {
					what := fmt.Sprintf("after step %d of %v the sub-directories of gen/ differ from a gen into an empty directory: %s", i+1, stepNames(hr), strings.Join(df, "; "))
					sig := "gen-over-previous-output-differs"
					for _, x := range df {
						if strings.Contains(x, "zz_") {
							sig = "gen-keeps-stray-files"
						}
					}
					if i == 0 {
						sig = "gen-output-differs-between-processes"
					}
					fail(sig, what, in)
				}
			}
			if lastGen != nil {
				_ = lastGen
			}
			// nothing outside gen's sub-directories is touched
			for p, r := range prev {
				if inGenSubdir(p) {
					continue
				}
				c, ok := cur[p]
				if !ok || c.SHA != r.SHA || c.Mtime != r.Mtime {
					fail("gen-touched-file-outside-gen", fmt.Sprintf("goa gen changed or removed %s (step %d)", p, i+1), in)
				}
			}
			for p := range cur {
				if !inGenSubdir(p) {
					if _, ok := prev[p]; !ok {
						fail("gen-file-outside-gen-subdir", "goa gen created "+p+" outside the sub-directories of gen/ (never cleaned up)", in)
					}
				}
			}
			lastGen = cur
		}
		// every directory holds one package (the tree must still build); files whose present
		// content is the user's are the user's business
		if st.Kind == "gen" || st.Kind == "example" {
			pk := map[string]map[string]string{}
			for p, r := range cur {
				if r.Pkg == "" || strings.Contains(p, "zz_") {
					continue
				}
				if uw, ok := userWrote[p]; ok && uw == r.SHA {
					continue
				}
				d := filepath.ToSlash(filepath.Dir(p))
				if pk[d] == nil {
					pk[d] = map[string]string{}
				}
				pk[d][strings.TrimSuffix(r.Pkg, "_test")] = p
			}
			for _, d := range vh.SortedKeys(pk) {
				if len(pk[d]) > 1 {
					var parts []string
					for _, n := range vh.SortedKeys(pk[d]) {
						parts = append(parts, fmt.Sprintf("package %s (%s)", n, pk[d][n]))
					}
					fail("package-clause-mismatch-in-directory", fmt.Sprintf("after step %d of %v directory %s holds files of different packages: %s", i+1, stepNames(hr), d, strings.Join(parts, ", ")), in)
				}
				for n, p := range pk[d] {
					if strings.HasPrefix(n, "!") {
						fail("generated-file-does-not-parse", p+": "+n[1:], in)
					}
				}
			}
		}
		for p := range cur {
			if strings.HasPrefix(p, "gen/temp.") || (strings.HasPrefix(p, "goa") && strings.Contains(p, "/")) {
				if strings.HasPrefix(p, "gen/temp.") {
					fail("gen-leaves-temp-file", "temporary file left behind: "+p, in)
				}
			}
		}
		prev = cur
	}
}

// ------------------------------------------------------------------ Coq terms

type ids struct {
	comp map[string]int
	dig  map[string]int
}

func newIDs() *ids { return &ids{comp: map[string]int{"gen": 0}, dig: map[string]int{}} }

func (t *ids) path(p string) string {
	parts := strings.Split(p, "/")
	out := make([]string, len(parts))
	for i, c := range parts {
		id, ok := t.comp[c]
		if !ok {
			id = len(t.comp)
			t.comp[c] = id
		}
		out[i] = fmt.Sprint(id)
	}
	return "[" + strings.Join(out, ";") + "]"
}

var emptySHA = sha(nil)

// digest prints the content term of a file with digest h: the empty file is the empty
// chunk list, anything else one opaque chunk.
func (t *ids) digest(h string) string {
	if h == emptySHA {
		return ""
	}
	id, ok := t.dig[h]
	if !ok {
		id = len(t.dig) + 1
		t.dig[h] = id
	}
	return fmt.Sprint(id)
}

func coqFiles(t *ids, flags []FileFlag, rendered map[string]string) (string, bool) {
	var items []string
	ok := true
	for _, f := range flags {
		h, found := rendered[f.Path]
		if !found {
			ok = false
			continue
		}
		items = append(items, fmt.Sprintf("mk_file %s [%s] %s", t.path(f.Path), t.digest(h), vh.CoqBool(f.Skip)))
	}
	return "[" + strings.Join(items, "; ") + "]", ok
}

// coqCase prints (idx, (gen files, example files), ops, observed final directory).
func coqCase(idx int, hr *HistRun, genFlags, exFlags []FileFlag, genSha, exSha map[string]string) (string, bool) {
	t := newIDs()
	gf, ok1 := coqFiles(t, genFlags, genSha)
	ef, ok2 := coqFiles(t, exFlags, exSha)
	var ops []string
	for _, st := range hr.Steps {
		switch st.Kind {
		case "gen":
			ops = append(ops, "Run Gen")
		case "example":
			ops = append(ops, "Run Example")
		case "write":
			ops = append(ops, fmt.Sprintf("Edit %s [%s]", t.path(st.Path), t.digest(sha([]byte(st.Content)))))
		case "delete":
			ops = append(ops, "Delete "+t.path(st.Path))
		}
	}
	// observed: final directory; stamp = index of the last step after which the file's
	// (digest, mtime) differs from the step before
	final := hr.Snaps[len(hr.Snaps)-1]
	var obs []string
	for _, p := range vh.SortedKeys(final) {
		stamp := 0
		for i := range hr.Snaps {
			cur, in := hr.Snaps[i][p]
			if !in {
				continue
			}
			if i == 0 {
				stamp = 1
				continue
			}
			pr, was := hr.Snaps[i-1][p]
			if !was || pr != cur {
				stamp = i + 1
			}
		}
		obs = append(obs, fmt.Sprintf("(%s, [%s], %d)", t.path(p), t.digest(final[p].SHA), stamp))
	}
	return fmt.Sprintf("(%d, (%s, %s), [%s], [%s])", idx, gf, ef, strings.Join(ops, "; "), strings.Join(obs, "; ")), ok1 && ok2
}

// ------------------------------------------------------------------ designs

func meta(kv ...string) []string { return kv }

// fixedDesigns: hand-written descriptions covering services, user and result types with
// views, recursion, collections, the four security kinds, file servers, errors, and
// attribute metadata (two or more struct:field:* keys on one attribute, struct tags,
// openapi extensions).
func fixedDesigns() []*dg.Design {
	withMeta := func(f *dg.Field, ms ...[]string) *dg.Field {
		f.A.Meta = append(f.A.Meta, ms...)
		return f
	}
	tags := [][]string{meta("struct:field:name", "Label"), meta("struct:field:proto", "label_pb"), meta("struct:field:external", "Ext"),
		meta("struct:tag:json", "label,omitempty"), meta("struct:tag:xml", "label"), meta("openapi:extension:x-order", "1"), meta("openapi:example", "false")}
	node := &dg.UserType{Name: "Node", Result: true, Base: dg.Obj(
		withMeta(dg.Req("name", dg.Prim("String")), tags...),
		withMeta(dg.F("weight", dg.Prim("Float64")), meta("struct:field:name", "W"), meta("struct:field:proto", "w"), meta("struct:tag:json", "w")),
		withMeta(dg.F("child", dg.Ref("Node")), meta("struct:field:name", "Kid"), meta("struct:field:external", "Kid2"), meta("struct:field:proto", "kid")),
		dg.F("leaves", dg.Type{Kind: "collection", Ref: "Leaf"}),
		dg.F("attrs", dg.MapOf(dg.A(dg.Prim("String")), dg.A(dg.Ref("Pair")))),
	)}
	node.Views = []dg.View{
		{Name: "default", Attrs: []dg.ViewField{{Name: "name"}, {Name: "weight"}, {Name: "child"}, {Name: "leaves"}, {Name: "attrs"}}},
		{Name: "tiny", Attrs: []dg.ViewField{{Name: "name"}, {Name: "child", View: "tiny"}, {Name: "leaves", View: "tiny"}}}}
	leaf := &dg.UserType{Name: "Leaf", Result: true, Base: dg.Obj(
		withMeta(dg.Req("id", dg.Prim("Int")), meta("struct:field:name", "Ident"), meta("struct:field:proto", "ident"), meta("struct:tag:json", "id")),
		dg.F("color", dg.Prim("String")).With(dg.Validation{Enum: []any{"red", "green", "blue"}}),
		dg.F("note", dg.Prim("String")))}
	leaf.Views = []dg.View{{Name: "default", Attrs: []dg.ViewField{{Name: "id"}, {Name: "color"}, {Name: "note"}}}, {Name: "tiny", Attrs: []dg.ViewField{{Name: "id"}}}}
	pair := &dg.UserType{Name: "Pair", Base: dg.Obj(
		withMeta(dg.Req("k", dg.Prim("String")), meta("struct:field:name", "Key"), meta("struct:field:proto", "key")),
		withMeta(dg.F("v", dg.Prim("Any")), meta("struct:field:name", "Val"), meta("struct:field:proto", "val"), meta("struct:field:external", "V")))}
	d1 := &dg.Design{Name: "metas", Types: []*dg.UserType{leaf, pair, node}, Services: []*dg.Service{{
		Name: "tree", BasePath: "/tree",
		Errors:   []dg.ErrorDef{{Name: "not_found"}},
		HTTPErrs: []dg.ErrResponse{{Name: "not_found", R: dg.Response{Status: 404}}},
		Methods: []*dg.Method{
			{Name: "get", Payload: &dg.Attr{T: dg.Obj(dg.Req("id", dg.Prim("Int")), dg.F("view", dg.Prim("String")))},
				Result: &dg.Attr{T: dg.Ref("Node")},
				HTTP:   &dg.HTTPMap{Routes: []dg.Route{{Verb: "GET", Path: "/{id}"}}, Params: []dg.MapEntry{{Attr: "view"}}}},
			{Name: "put", Payload: &dg.Attr{T: dg.Ref("Pair")}, Result: &dg.Attr{T: dg.Type{Kind: "collection", Ref: "Leaf"}}, ResultView: "tiny",
				HTTP: &dg.HTTPMap{Routes: []dg.Route{{Verb: "PUT", Path: "/pairs"}, {Verb: "POST", Path: "/pairs"}}}},
		}}}}

	d2 := &dg.Design{Name: "secured",
		Schemes: []dg.Scheme{{Kind: "basic", Name: "basic_sch"}, {Kind: "apikey", Name: "apikey_sch"},
			{Kind: "jwt", Name: "jwt_sch", Scopes: []string{"api:read", "api:write"}}, {Kind: "oauth2", Name: "oauth2_sch", Scopes: []string{"api:read", "api:write"}}},
		Errors:   []dg.ErrorDef{{Name: "api_err", Timeout: true}},
		HTTPErrs: []dg.ErrResponse{{Name: "api_err", R: dg.Response{Status: 504}}},
		Types: []*dg.UserType{
			{Name: "Alias0", Base: dg.Prim("String"), V: &dg.Validation{MinLen: dg.Ip(1), MaxLen: dg.Ip(20)}},
			{Name: "Creds", Base: dg.Obj(
				&dg.Field{Name: "user", A: dg.Attr{T: dg.Prim("String"), Sec: &dg.SecAttrKind{Fn: "Username"}}, Required: true},
				&dg.Field{Name: "pass", A: dg.Attr{T: dg.Prim("String"), Sec: &dg.SecAttrKind{Fn: "Password"}}, Required: true},
				dg.F("note", dg.Ref("Alias0")))},
		},
		Services: []*dg.Service{
			{Name: "acct", Security: []dg.Requirement{{Schemes: []string{"basic_sch"}}},
				Methods: []*dg.Method{
					{Name: "login", Payload: &dg.Attr{T: dg.Ref("Creds")}, Result: &dg.Attr{T: dg.Prim("String")},
						HTTP: &dg.HTTPMap{Routes: []dg.Route{{Verb: "POST", Path: "/login"}}}},
					{Name: "keyed", Security: []dg.Requirement{{Schemes: []string{"apikey_sch"}}},
						Payload: &dg.Attr{T: dg.Obj(&dg.Field{Name: "key", A: dg.Attr{T: dg.Prim("String"), Sec: &dg.SecAttrKind{Fn: "APIKey", Scheme: "apikey_sch"}}, Required: true}, dg.F("q", dg.Prim("Int")))},
						HTTP:    &dg.HTTPMap{Routes: []dg.Route{{Verb: "GET", Path: "/keyed"}}, Headers: []dg.MapEntry{{Attr: "key", Wire: "X-Key"}}, Params: []dg.MapEntry{{Attr: "q"}}}},
					{Name: "open", NoSecurity: true, Result: &dg.Attr{T: dg.ArrayOf(dg.A(dg.Prim("Int")))},
						HTTP: &dg.HTTPMap{Routes: []dg.Route{{Verb: "GET", Path: "/open"}}}},
				}},
			{Name: "store_front", BasePath: "/store", Files: []dg.FileServer{{Path: "/static/file.json", File: "public/file.json"}},
				Errors:   []dg.ErrorDef{{Name: "svc_err", Temporary: true}},
				HTTPErrs: []dg.ErrResponse{{Name: "svc_err", R: dg.Response{Status: 503}}},
				Methods: []*dg.Method{
					{Name: "list", Security: []dg.Requirement{{Schemes: []string{"jwt_sch"}, Scopes: []string{"api:read"}}, {Schemes: []string{"oauth2_sch"}, Scopes: []string{"api:write"}}},
						Payload: &dg.Attr{T: dg.Obj(
							&dg.Field{Name: "tok", A: dg.Attr{T: dg.Prim("String"), Sec: &dg.SecAttrKind{Fn: "Token"}}},
							&dg.Field{Name: "at", A: dg.Attr{T: dg.Prim("String"), Sec: &dg.SecAttrKind{Fn: "AccessToken"}}},
							dg.F("limit", dg.Prim("UInt32")).With(dg.Validation{Min: dg.Fp(1), Max: dg.Fp(100)}).Def(float64(10)),
							dg.F("tags", dg.ArrayOf(dg.A(dg.Prim("String")))))},
						Result: &dg.Attr{T: dg.MapOf(dg.A(dg.Prim("String")), dg.A(dg.Prim("Float64")))},
						Errors: []dg.ErrorDef{{Name: "bad", Fault: true}},
						HTTP: &dg.HTTPMap{Routes: []dg.Route{{Verb: "GET", Path: "/items"}}, Params: []dg.MapEntry{{Attr: "limit"}, {Attr: "tags", Wire: "t"}},
							Headers: []dg.MapEntry{{Attr: "tok", Wire: "Authorization"}, {Attr: "at", Wire: "X-Access"}},
							Errors:  []dg.ErrResponse{{Name: "bad", R: dg.Response{Status: 500}}}}},
				}},
		}}

	// six errors of six DIFFERENT Go types on one status code (and three more on another):
	// the generators group errors by type reference and by status
	var errTypes []*dg.UserType
	var errs6 []dg.ErrorDef
	var resp6 []dg.ErrResponse
	for i := 0; i < 6; i++ {
		n := fmt.Sprintf("ErrT%d", i)
		errTypes = append(errTypes, &dg.UserType{Name: n, Base: dg.Obj(dg.Req(fmt.Sprintf("msg%d", i), dg.Prim("String")), dg.F("code", dg.Prim("Int")))})
		t := dg.Ref(n)
		errs6 = append(errs6, dg.ErrorDef{Name: fmt.Sprintf("e%d", 5-i), T: &t})
		resp6 = append(resp6, dg.ErrResponse{Name: fmt.Sprintf("e%d", 5-i), R: dg.Response{Status: 400}})
	}
	// the second method has error types of its own (goa requires ErrorName when errors of one
	// service share a user type)
	for i := 6; i < 9; i++ {
		n := fmt.Sprintf("ErrT%d", i)
		errTypes = append(errTypes, &dg.UserType{Name: n, Base: dg.Obj(dg.Req(fmt.Sprintf("msg%d", i), dg.Prim("String")), dg.F("code", dg.Prim("Int")))})
	}
	t3, t4, t5 := dg.Ref("ErrT6"), dg.Ref("ErrT7"), dg.Ref("ErrT8")
	errs3 := []dg.ErrorDef{{Name: "c_z", T: &t3}, {Name: "c_a", T: &t5}, {Name: "c_m", T: &t4}, {Name: "c_plain"}}
	resp3 := []dg.ErrResponse{{Name: "c_z", R: dg.Response{Status: 409}}, {Name: "c_a", R: dg.Response{Status: 409}}, {Name: "c_m", R: dg.Response{Status: 409}}, {Name: "c_plain", R: dg.Response{Status: 409}}}
	d3 := &dg.Design{Name: "calc", BasePath: "/v1", // API name == a service name (the canonical goa layout): example package becomes calcapi
		Types: append(errTypes, []*dg.UserType{
			{Name: "Obj0", Base: dg.Obj(dg.Req("id", dg.Prim("UInt64")), dg.F("when", dg.Prim("String")).With(dg.Validation{Format: "date-time"}),
				dg.F("inner", dg.Obj(dg.F("a", dg.Prim("Boolean")), dg.F("b", dg.Prim("Bytes")))), dg.F("child", dg.Ref("Obj0")))},
			{Name: "Obj1", Extend: "Obj0", Base: dg.Obj(dg.F("extra", dg.Prim("Int32")).Def(float64(3)))},
			{Name: "Stamps", Base: dg.Obj(allFormats()...)},
		}...),
		Services: []*dg.Service{{Name: "calc", Methods: []*dg.Method{
			{Name: "add", Payload: &dg.Attr{T: dg.Obj(dg.Req("a", dg.Prim("Int")), dg.Req("b", dg.Prim("Int")))}, Result: &dg.Attr{T: dg.Prim("Int")},
				Errors: errs3,
				HTTP:   &dg.HTTPMap{Routes: []dg.Route{{Verb: "GET", Path: "/add/{a}/{b}"}}, Errors: resp3}},
			{Name: "echo", Payload: &dg.Attr{T: dg.Ref("Obj1")}, Result: &dg.Attr{T: dg.Ref("Obj0")},
				Errors: errs6,
				HTTP: &dg.HTTPMap{Routes: []dg.Route{{Verb: "POST", Path: "/echo"}}, Errors: resp6,
					Responses: []dg.Response{{Status: 200, Headers: []dg.MapEntry{{Attr: "when", Wire: "X-When"}}}}}},
			{Name: "nothing", HTTP: &dg.HTTPMap{Routes: []dg.Route{{Verb: "DELETE", Path: "/nothing"}}}},
			{Name: "stamps", Payload: &dg.Attr{T: dg.Obj(dg.F("day", dg.Prim("String")).With(dg.Validation{Format: "date"}), dg.F("at", dg.Prim("String")).With(dg.Validation{Format: "rfc1123"}))},
				Result: &dg.Attr{T: dg.ArrayOf(dg.A(dg.Ref("Stamps")))},
				HTTP:   &dg.HTTPMap{Routes: []dg.Route{{Verb: "GET", Path: "/stamps"}}, Params: []dg.MapEntry{{Attr: "day"}}, Headers: []dg.MapEntry{{Attr: "at", Wire: "X-At"}}}},
		}}, {Name: "history", Methods: []*dg.Method{
			{Name: "list", Result: &dg.Attr{T: dg.ArrayOf(dg.A(dg.Ref("Obj0")))}, HTTP: &dg.HTTPMap{Routes: []dg.Route{{Verb: "GET", Path: "/history"}}}},
		}}, {Name: "zlast", Methods: []*dg.Method{
			{Name: "ping", Result: &dg.Attr{T: dg.Prim("String")}, HTTP: &dg.HTTPMap{Routes: []dg.Route{{Verb: "GET", Path: "/ping"}}}},
		}}}}

	// names equal to or prefixed by names the tool itself uses (temporary directory prefix
	// "goa", gen, http, grpc, cli, cmd, design, example, tmp), single letters, snake and
	// camel variants: every directory below gen/ and every example path is computed from them
	var hs []*dg.Service
	for i, n := range hostileNames {
		hs = append(hs, &dg.Service{Name: n, Methods: []*dg.Method{{Name: "m", Result: &dg.Attr{T: dg.Prim("String")},
			HTTP: &dg.HTTPMap{Routes: []dg.Route{{Verb: "GET", Path: fmt.Sprintf("/h%d", i)}}}}}})
	}
	d4 := &dg.Design{Name: "goa", Types: []*dg.UserType{{Name: "Goa", Base: dg.Obj(dg.F("gen", dg.Prim("String")))}}, Services: hs}
	// order matters for the CLI: even positions run in the working directory (where the
	// generators' own os.Stat shortcuts look), odd positions with -o out
	return []*dg.Design{d3, d2, d4, d1}
}

// allFormats: one string attribute per Format keyword, several of the time-valued ones,
// none with an explicit example: goa computes the examples (dates are where a local time
// zone would show).
func allFormats() []*dg.Field {
	var fs []*dg.Field
	for i, f := range []string{"date", "date-time", "rfc1123", "date", "uuid", "email", "hostname", "ipv4", "ipv6", "ip", "uri", "mac", "cidr", "regexp", "json", "date", "date", "date"} {
		fs = append(fs, dg.F(fmt.Sprintf("f%d_%s", i, strings.ReplaceAll(f, "-", "_")), dg.Prim("String")).With(dg.Validation{Format: f}))
	}
	return fs
}

var hostileNames = []string{"goals", "goa_admin", "goa", "gen", "http", "grpc", "cli", "cmd", "tmp", "design", "example", "x", "fooBar", "foo_bar2", "Public"}

// hostileRename gives the services of a random design names from the hostile pool and,
// every other time, the API the name of its first service.
func hostileRename(d *dg.Design, r *vh.RNG) {
	used := map[string]bool{}
	for _, s := range d.Services {
		n := vh.Pick(r, hostileNames)
		for used[n] {
			n += "2"
		}
		used[n] = true
		s.Name = n
		if s.BasePath != "" {
			s.BasePath = "/" + n
		}
		for fi := range s.Files {
			s.Files[fi].Path = "/static/" + n + "/file.json"
		}
	}
	if r.Bool() && len(d.Services) > 0 {
		d.Name = d.Services[0].Name
	}
	d.Features = append(d.Features, "hostile_names")
}

// metaRich loads every attribute of every object user type with several struct:field:*
// and struct:tag:* keys (the inputs on which a map-order dependence of hashing, tag
// rendering or import collection would show).
func metaRich(d *dg.Design) *dg.Design {
	c := d.Clone()
	for _, ut := range c.Types {
		if ut.Base.Kind != "object" {
			continue
		}
		for _, f := range ut.Base.Attrs {
			f.A.Meta = append(f.A.Meta, meta("struct:field:proto", "p_"+f.Name), meta("struct:field:external", "E_"+f.Name),
				meta("struct:tag:json", f.Name+",omitempty"), meta("struct:tag:xml", f.Name), meta("struct:tag:form", f.Name),
				meta("openapi:extension:x-a", "1"), meta("openapi:extension:x-b", "2"))
		}
	}
	c.Features = append(c.Features, "meta_rich")
	return c
}

// ------------------------------------------------------------------ path computation streams

// pathStreams runs the real codegen.SnakeCase and filepath.Join on generated inputs and
// writes what they returned as Coq terms (cases_snake.txt, cases_join.txt) for the
// comparison with GenFS.snake_case / GenFS.join_clean. The model is stated for ASCII input.
func pathStreams(r *vh.RNG, designs []*dg.Design, out string, n int) (int, int) {
	bytesTerm := func(s string) string { return vh.CoqBytes(s) }
	var names []string
	seen := map[string]bool{}
	add := func(s string) {
		if !seen[s] {
			seen[s] = true
			names = append(names, s)
		}
	}
	for _, s := range []string{"", "News", "OldNews", "CNNNews", "OAuth", "OAuthToken", "myOAuth2Client", "OAuthOAuth", "OAut", "store_front", "fooBar", "foo-bar", " a  b ", "\ta\nb\r", "HTTPServer2Go", "X", "x", "_", "__a__B", "-", "--", "a-B-c", "A1B2", "123", "..", ".", "a/b", "A/B", "a.b", "Ab Cd", "ABC", "aBC", "ABc", "a_B", "A_b", "Z9z"} {
		add(s)
	}
	for _, n := range hostileNames {
		add(n)
		add(codegen.Goify(n, true))
	}
	for _, d := range designs {
		add(d.Name)
		for _, s := range d.Services {
			add(s.Name)
			add(codegen.Goify(s.Name, true))
		}
		for _, t := range d.Types {
			add(t.Name)
		}
	}
	nameAlpha := "abcxyzABCXYZ019__-- OAuth"
	anyAlpha := "aZ09_- ./\t~!(){}OAuth"
	for i := 0; i < n; i++ {
		alpha := nameAlpha
		if i%4 == 3 {
			alpha = anyAlpha
		}
		l := 1 + r.Intn(12)
		var b strings.Builder
		for j := 0; j < l; j++ {
			if r.Chance(1, 12) {
				b.WriteString("OAuth")
			} else {
				b.WriteByte(alpha[r.Intn(len(alpha))])
			}
		}
		add(b.String())
	}
	var sl []string
	for _, nm := range names {
		ascii := true
		for i := 0; i < len(nm); i++ {
			if nm[i] >= 128 {
				ascii = false
			}
		}
		if !ascii {
			continue
		}
		got := codegen.SnakeCase(nm)
		sl = append(sl, fmt.Sprintf("(%d, %s, %s)", len(sl), bytesTerm(nm), bytesTerm(got)))
		// the law itself, on the implementation: a name of letters, digits, '_', '-', blanks
		// (not all blank) gives a non-empty directory name over [a-z0-9_]
		isName, nonBlank := len(nm) > 0, false
		for i := 0; i < len(nm); i++ {
			c := nm[i]
			switch {
			case c >= 'a' && c <= 'z', c >= 'A' && c <= 'Z', c >= '0' && c <= '9', c == '_', c == '-':
				nonBlank = true
			case c == ' ' || (c >= 9 && c <= 13):
			default:
				isName = false
			}
		}
		if isName && nonBlank {
			ok := got != ""
			for i := 0; i < len(got); i++ {
				c := got[i]
				if !(c >= 'a' && c <= 'z' || c >= '0' && c <= '9' || c == '_') {
					ok = false
				}
			}
			if !ok {
				fail("service-directory-name-unsafe", fmt.Sprintf("codegen.SnakeCase(%q) = %q is not a non-empty word over [a-z0-9_]: the files of such a service would not land in a directory of their own below gen/", nm, got),
					Input{Stream: "paths", Name: nm})
			}
		}
	}
	pool := []string{"gen", "", "..", ".", "a", "a/b", "x/", "b//c", "calc", "service.go", "a/../b", "./k", "...", "http", "a/./b/..", "zz/"}
	var jl []string
	addJoin := func(elems []string) {
		first := ""
		for _, e := range elems {
			if e != "" {
				first = e
				break
			}
		}
		if strings.HasPrefix(first, "/") {
			return // the model is about relative paths
		}
		got := filepath.ToSlash(filepath.Join(elems...))
		var comps []string
		if got != "" && got != "." {
			comps = strings.Split(got, "/")
		}
		et := make([]string, len(elems))
		for i, e := range elems {
			et[i] = bytesTerm(e)
		}
		ct := make([]string, len(comps))
		for i, c := range comps {
			ct[i] = bytesTerm(c)
		}
		jl = append(jl, fmt.Sprintf("(%d, [%s], [%s])", len(jl), strings.Join(et, "; "), strings.Join(ct, "; ")))
	}
	addJoin([]string{"gen", "calc", "service.go"})
	addJoin([]string{"gen", "", "service.go"})
	addJoin([]string{"gen", "..", "service.go"})
	addJoin([]string{})
	addJoin([]string{"", ""})
	for i := 0; i < n; i++ {
		l := 1 + r.Intn(5)
		elems := make([]string, l)
		for j := range elems {
			elems[j] = vh.Pick(r, pool)
		}
		addJoin(elems)
	}
	if err := os.WriteFile(filepath.Join(out, "cases_snake.txt"), []byte(strings.Join(sl, "\n")+"\n"), 0o644); err != nil {
		panic(err)
	}
	if err := os.WriteFile(filepath.Join(out, "cases_join.txt"), []byte(strings.Join(jl, "\n")+"\n"), 0o644); err != nil {
		panic(err)
	}
	return len(sl), len(jl)
}

// ------------------------------------------------------------------ metadata probe

// metaProbe: metadata at the API, service and method level (designgen descriptions only
// carry attribute metadata): several openapi:tag:* keys, extensions, an operation id
// format, both spellings of the summary key with different values, two response
// cookies, headers. The OpenAPI files are rendered
// in memory `reps` times from fresh evaluations; every rendering must be identical.
func metaProbe(reps int) {
	build := func() {
		openapi.Definitions = make(map[string]*openapi.Schema)
		dg.ResetGoa()
		ok := eval.Execute(func() {
			dsl.API("probe", func() {
				dsl.Meta("openapi:tag:Alpha")
				dsl.Meta("openapi:tag:Beta:desc", "beta things")
				dsl.Meta("openapi:tag:Gamma:url", "http://example.com/gamma")
				dsl.Meta("openapi:extension:x-api-one", `{"a":1}`)
				dsl.Meta("openapi:extension:x-api-two", "two")
				dsl.Meta("openapi:operationId", "{service}.{method}")
				// both spellings of the summary key with different values at every level (API,
				// service, method, file server): once order-dependent (fixed: openapi:summary
				// wins), now part of the ordinary stream
				dsl.Meta("swagger:summary", "api summary, legacy key")
				dsl.Meta("openapi:summary", "api summary")
			})
			acc := dsl.ResultType("application/vnd.probe.acc", func() {
				dsl.TypeName("Acc")
				dsl.Attribute("id", dsl.String, func() {
					dsl.Meta("struct:tag:json", "id")
					dsl.Meta("struct:tag:xml", "id")
					dsl.Meta("struct:field:name", "Ident")
				})
				dsl.Attribute("sess", dsl.String)
				dsl.Attribute("csrf", dsl.String)
				dsl.Attribute("etag", dsl.String)
				dsl.Required("id")
			})
			for _, svc := range []string{"one", "two"} {
				dsl.Service(svc, func() {
					dsl.Meta("openapi:tag:Delta")
					dsl.Meta("openapi:tag:Epsilon:desc", "eps")
					dsl.Meta("openapi:tag:Alpha:desc", "alpha from "+svc)
					dsl.Meta("openapi:extension:x-svc", svc)
					dsl.Meta("openapi:summary", "service summary")
					dsl.Meta("swagger:summary", "service summary, legacy key")
					dsl.Method("get", func() {
						dsl.Meta("openapi:summary", "ONE")
						dsl.Meta("swagger:summary", "TWO")
						dsl.Meta("openapi:tag:Zeta")
						dsl.Meta("openapi:tag:Eta")
						dsl.Meta("openapi:extension:x-m1", "1")
						dsl.Meta("openapi:extension:x-m2", "2")
						dsl.Payload(func() {
							dsl.Attribute("q", dsl.String)
							dsl.Attribute("h", dsl.String)
						})
						dsl.Result(acc)
						dsl.Error("nope")
						dsl.HTTP(func() {
							dsl.GET("/" + svc + "/acc")
							dsl.Param("q")
							dsl.Header("h:X-H")
							dsl.Response(200, func() {
								dsl.Cookie("sess:SID")
								dsl.Cookie("csrf:CSRF")
								dsl.Header("etag:ETag")
							})
							dsl.Response("nope", 404)
						})
					})
					dsl.Method("plain", func() {
						dsl.Result(dsl.String)
						dsl.HTTP(func() { dsl.GET("/" + svc + "/plain") })
					})
					dsl.Files("/static/"+svc+".json", "public/"+svc+".json", func() {
						dsl.Meta("openapi:summary", "a file")
						dsl.Meta("swagger:summary", "a file, legacy key")
						dsl.Meta("openapi:tag:Files")
					})
				})
			}
		}, nil)
		if !ok {
			panic(eval.Context.Errors)
		}
		if err := eval.RunDSL(); err != nil {
			panic(err)
		}
	}
	first := map[string]string{}
	var differing []string
	for k := 0; k < reps; k++ {
		build()
		fs, err := httpcodegen.OpenAPIFiles(expr.Root)
		if err != nil {
			panic(err)
		}
		for _, f := range fs {
			var buf bytes.Buffer
			for _, s := range f.SectionTemplates {
				if err := s.Write(&buf); err != nil {
					panic(err)
				}
			}
			p := filepath.ToSlash(f.Path)
			h := sha(buf.Bytes())
			if prev, ok := first[p]; !ok {
				first[p] = h
			} else if prev != h {
				differing = append(differing, p)
			}
		}
	}
	count("metaprobe_repetitions")
	if len(differing) > 0 {
		sort.Strings(differing)
		fail("gen-output-differs-between-runs", fmt.Sprintf("the OpenAPI files of a design with API/service/method metadata (several openapi:tag:* keys, extensions, response cookies) differ between %d in-memory renderings: %v", reps, uniq(differing)),
			Input{Stream: "metaprobe", Name: "api-service-method-metadata", Detail: map[string]any{"repetitions": reps, "files": uniq(differing)}})
	}
}

func uniq(xs []string) []string {
	var out []string
	for i, x := range xs {
		if i == 0 || xs[i-1] != x {
			out = append(out, x)
		}
	}
	return out
}

// ------------------------------------------------------------------ main

func main() {
	seed := flag.Uint64("seed", 1, "")
	tier := flag.String("tier", "quick", "")
	out := flag.String("out", ".", "")
	replay := flag.String("replay", "", "")
	search := flag.Bool("search", false, "more repetitions on metadata-heavy designs (after a broken proof)")
	flag.StringVar(&repo, "repo", "", "goa tree under test (default: VERIF_REPO or /repo)")
	var cmdFlag string
	flag.StringVar(&cmdFlag, "cmd", "", "(set internally: the command line goa quotes in file headers)")
	flag.Parse()
	if repo == "" {
		repo = os.Getenv("VERIF_REPO")
	}
	if repo == "" {
		repo = "/repo"
	}
	repo, _ = filepath.Abs(repo)
	workDir, _ = filepath.Abs(*out)
	rng := vh.NewRNG(*seed)

	nA, repsA, nCLI, procs := 20, 2, 3, 2
	if *tier == "thorough" {
		nA, repsA, nCLI, procs = 200, 3, 20, 8
	}
	if *search {
		nA, repsA, nCLI, procs = 30, 6, 2, 3
		if *tier == "thorough" {
			nA, repsA, nCLI, procs = 120, 8, 6, 8
		}
	}

	if v := os.Getenv("C09_NA"); v != "" {
		fmt.Sscan(v, &nA)
	}
	if v := os.Getenv("C09_NCLI"); v != "" {
		fmt.Sscan(v, &nCLI)
	}
	var designs []*dg.Design
	nFixed, fixedExtra := 0, 10
	if *tier == "thorough" || *search {
		fixedExtra = 30
	}
	if *replay != "" {
		b, err := os.ReadFile(*replay)
		if err != nil {
			panic(err)
		}
		var rp struct {
			Input Input `json:"input"`
		}
		if err := json.Unmarshal(b, &rp); err != nil {
			fmt.Println("replay file unreadable:", err)
			os.Exit(2)
		}
		if rp.Input.Stream == "metaprobe" || rp.Input.Stream == "witness" {
			metaProbe(400)
			finish(*out, 400, 1, "replay of the API/service/method metadata probe", nil)
			return
		}
		if rp.Input.Design == nil {
			fmt.Println("replay file has neither a design nor a probe stream")
			os.Exit(2)
		}
		designs = []*dg.Design{rp.Input.Design}
		nA, repsA, nCLI, procs = 1, 12, 1, 3
	} else {
		fixed := fixedDesigns()
		designs = append(designs, fixed...)
		nFixed = len(fixed)
		for i := 0; len(designs) < nA; i++ {
			d := dg.Random(rng.Fork(), dg.DefaultOptions(), i)
			if *search || i%4 == 3 {
				d = metaRich(d)
			}
			if i%3 == 1 {
				hostileRename(d, rng)
			}
			designs = append(designs, d)
		}
	}

	// ---- tier A
	t0 := time.Now()
	taRoot := filepath.Join(workDir, "ta")
	distinct := vh.Distinct{}
	var ta []*tierAResult
	evaluations := 0
	for i, d := range designs {
		stream := "tierA"
		if *search {
			stream = "search"
		}
		extra := 0
		if i < nFixed {
			extra = fixedExtra // the feature designs put >= 2 entries into the generators' internal maps: many more orders
			if len(d.Services) > 8 {
				extra = 2 // the 15-service naming design is there for the paths, not for map orders; it is slow to generate
			}
		}
		r := tierA(d, taRoot, fmt.Sprintf("d%d", i), repsA, extra, stream, "")
		ta = append(ta, r)
		if r.Generated {
			evaluations += repsA*2 + extra
			distinct.Add(d.JSON())
			count("tierA_designs_generated")
			for _, f := range d.Features {
				count("feature_" + f)
			}
		}
		if i%7 == 1 && r.Generated {
			res.Sample(map[string]any{"stream": "tierA", "design": d.Name, "features": d.Features, "gen_files": len(r.Gen), "example_files": len(r.Ex), "repetitions": repsA}, 3)
		}
	}
	if os.Getenv("C09_KEEP") == "" {
		os.RemoveAll(taRoot)
	}

	res.Extra["seconds_tierA"] = int(time.Since(t0).Seconds())
	t0 = time.Now()
	// ---- CLI
	if err := buildGoa(); err != nil {
		fmt.Fprintln(os.Stderr, err)
		os.Exit(1)
	}
	// pick the CLI designs: the fixed ones first, then random ones that generated
	var cliIdx []int
	for i, r := range ta {
		if r.Generated && len(r.GenFlags) > 0 && len(cliIdx) < nCLI {
			cliIdx = append(cliIdx, i)
		}
	}
	hs := histNames(*tier)
	type job struct {
		di  int
		hr  *HistRun
		src string
	}
	var jobs []*job
	// reference: what gen / example produce in an empty directory (process run 0 of each)
	// every second design is generated with `-o out` (output directory different from the
	// working directory: the generators' own os.Stat shortcuts look at the working
	// directory, so there only File.Render's SkipExist protects existing example files)
	outOf := map[int]string{}
	for n, di := range cliIdx {
		if n%2 == 1 {
			outOf[di] = "out"
		}
		src := PrintDesign(designs[di])
		for _, h := range hs {
			for k := 0; k < procs; k++ {
				jobs = append(jobs, &job{di: di, hr: &HistRun{Design: di, Hist: h, Rep: k, Out: outOf[di], ExPaths: exPaths(ta[di])}, src: src})
			}
		}
	}
	workers := 12
	var wg sync.WaitGroup
	ch := make(chan *job)
	for w := 0; w < workers; w++ {
		wg.Add(1)
		go func() {
			defer wg.Done()
			for j := range ch {
				dir := filepath.Join(workDir, "cli", fmt.Sprintf("d%d", j.di), fmt.Sprintf("%s_p%d", j.hr.Hist, j.hr.Rep), ambients[j.hr.Rep%len(ambients)].Nest)
				runHistory(dir, j.src, j.hr)
			}
		}()
	}
	for _, j := range jobs {
		ch <- j
	}
	close(ch)
	wg.Wait()

	var cases []string
	caseMeta := []any{}
	printerChecked, printerAgree := 0, 0
	for _, di := range cliIdx {
		d := designs[di]
		// reference renderings: first gen / first example in an empty directory
		fresh := map[string]Snapshot{}
		for _, j := range jobs {
			if j.di != di || j.hr.Err != "" || len(j.hr.Snaps) == 0 {
				continue
			}
			if _, ok := fresh[j.hr.Steps[0].Kind]; !ok {
				fresh[j.hr.Steps[0].Kind] = j.hr.Snaps[0]
			}
		}
		// the in-process generation of the same design (same module layout, same quoted
		// command line) must be byte-identical to the tool's: ties tier A and the printer
		sub := "."
		if outOf[di] != "" {
			sub = outOf[di]
		}
		r := tierA(d, filepath.Join(workDir, "ta_cli"), sub, 1, 0, "tierA", outOf[di])
		os.RemoveAll(filepath.Join(workDir, "ta_cli"))
		if r.Generated {
			if f, ok := fresh["gen"]; ok {
				printerChecked++
				if df := diffSnap(r.Gen, shaOnly(f)); len(df) > 0 {
					fail("tool-and-library-generate-different-files", "goa gen (tool, printed design package) and generator.Generate (in-process, interpreted design) disagree: "+strings.Join(df, "; "),
						Input{Stream: "cli", Design: d, History: []string{"gen"}})
				} else {
					printerAgree++
				}
			}
			if f, ok := fresh["example"]; ok {
				if df := diffSnap(r.Ex, shaOnly(f)); len(df) > 0 {
					fail("tool-and-library-generate-different-files", "goa example (tool) and in-process example generation disagree: "+strings.Join(df, "; "),
						Input{Stream: "cli", Design: d, History: []string{"example"}})
				}
			}
		}
		// all process runs of one history must end in the same directory
		finals := map[string]map[string]string{}
		for _, j := range jobs {
			if j.di != di {
				continue
			}
			oracleHistory(d, j.hr, fresh)
			evaluations += len(j.hr.Steps)
			count("cli_history_" + j.hr.Hist)
			for _, s := range j.hr.Steps {
				count("cli_step_" + s.Kind)
			}
			if j.hr.Err != "" || len(j.hr.Snaps) == 0 {
				continue
			}
			fin := shaOnly(j.hr.Snaps[len(j.hr.Snaps)-1])
			if ref, ok := finals[j.hr.Hist]; ok {
				if df := diffSnap(ref, fin); len(df) > 0 {
					fail("output-differs-between-processes", fmt.Sprintf("history %s run in two fresh processes ends in different directories: %s", j.hr.Hist, strings.Join(df, "; ")),
						Input{Stream: "cli", Design: d, History: stepNames(j.hr), Detail: map[string]any{"history": j.hr.Hist, "process_run": j.hr.Rep}})
				}
			} else {
				finals[j.hr.Hist] = fin
			}
			// Coq case
			genSha, exSha := map[string]string{}, map[string]string{}
			if f, ok := fresh["gen"]; ok {
				genSha = shaOnly(f)
			}
			if f, ok := fresh["example"]; ok {
				exSha = shaOnly(f)
			} else {
				// example never ran first in this tier selection: take its files from a gen,example history
				for _, jj := range jobs {
					if jj.di == di && jj.hr.Err == "" && len(jj.hr.Steps) > 1 && jj.hr.Steps[1].Kind == "example" {
						for p, rr := range jj.hr.Snaps[1] {
							if _, isGen := jj.hr.Snaps[0][p]; !isGen {
								exSha[p] = rr.SHA
							}
						}
						break
					}
				}
			}
			if len(r.GenFlags) == 0 {
				continue
			}
			line, ok := coqCase(len(cases), j.hr, r.GenFlags, r.ExFlags, genSha, exSha)
			if !ok {
				count("cli_case_without_reference_rendering")
			}
			cases = append(cases, line)
			caseMeta = append(caseMeta, map[string]any{"design": d.Name, "design_index": di, "history": j.hr.Hist, "process_run": j.hr.Rep, "output_flag": j.hr.Out, "steps": stepNames(j.hr)})
		}
		distinct.Add("cli:" + d.JSON())
	}
	for i, di := range cliIdx {
		if i < 2 {
			res.Sample(map[string]any{"stream": "cli", "design": designs[di].Name, "features": designs[di].Features, "histories": hs, "process_runs_per_history": procs}, 6)
		}
	}
	if os.Getenv("C09_KEEP") == "" {
		os.RemoveAll(filepath.Join(workDir, "cli"))
		os.RemoveAll(filepath.Join(workDir, "toolmod"))
	}

	res.Extra["seconds_cli"] = int(time.Since(t0).Seconds())
	// ---- metadata probe (API/service/method-level metadata, incl. both summary spellings)
	if *replay == "" {
		probeReps := 100
		if *search || *tier == "thorough" {
			probeReps = 600
		}
		metaProbe(probeReps)
		evaluations += probeReps
		distinct.Add("metaprobe")
	}

	if *replay == "" {
		nPath := 400
		if *tier == "thorough" {
			nPath = 6000
		}
		ns, nj := pathStreams(rng.Fork(), designs, *out, nPath)
		res.Extra["model_cases_snake_case"] = ns
		res.Extra["model_cases_join"] = nj
		evaluations += ns + nj
	}
	res.Extra["printer_checked"] = printerChecked
	res.Extra["printer_agree"] = printerAgree
	res.Extra["cli_designs"] = len(cliIdx)
	res.Extra["cli_histories_run"] = len(jobs)
	res.Extra["model_cases"] = len(cases)
	res.Extra["tierA_repetitions"] = repsA
	res.Extra["process_runs_per_history"] = procs
	res.Extra["search_mode"] = *search
	res.Cases = caseMeta
	if err := os.WriteFile(filepath.Join(*out, "cases_fs.txt"), []byte(strings.Join(cases, "\n")+"\n"), 0o644); err != nil {
		panic(err)
	}
	finish(*out, evaluations, len(distinct), fmt.Sprintf("tier A: %d fixed feature designs (metadata with several struct:field:*/struct:tag:* keys per attribute, recursive result types with views and collections, the four security kinds, two services, file server, six errors of six different types on one status code plus four on another, Extend, defaults, validations; each generated 10 (quick) / 30 (thorough, search) more times, gen only) then designgen.Random designs (every 4th loaded with metadata), each evaluated through the real DSL and generated (gen + example) %d times in-process into fresh directories, repetition k under another ambient setting (time.Local UTC / +14h / -11h / +5h45, TZ, LANG, LC_*, unrelated variables); every fresh-process run of the tool likewise (TZ=UTC / Pacific/Kiritimati / Pacific/Pago_Pago / Asia/Kathmandu, locales, module nested at another depth); CLI: the first %d generated designs printed as design packages, histories %v (delete = some but not all example files; stray = a file in every directory below gen/ plus new directories named goa*, tmp, design, gen, cmd, .hidden), %d fresh-process runs per history on one output directory each, service/API names from a hostile-but-valid pool (goals, goa_admin, goa, gen, http, grpc, cli, cmd, tmp, design, example, x, fooBar, ...), API name == service name in the calc design; metadata probe: a design with API/service/method-level openapi:tag:*/extension/operationId metadata, two response cookies and file servers, both openapi:summary and swagger:summary with different values at API, service, method and file-server level, OpenAPI files rendered in memory 100 (600 thorough) times from fresh evaluations; path streams: codegen.SnakeCase on names of the designs, a fixed corpus and random ASCII strings, filepath.Join on random element lists (400 / 6000 each); evaluations = generator runs (tier A) + executed history steps (CLI) + probe renderings + path cases; distinct = distinct design descriptions per stream",
		len(fixedDesigns()), repsA, nCLI, hs, procs), nil)
}

func finish(out string, evaluations, distinct int, rule string, _ any) {
	res.Evaluations = evaluations
	res.Distinct = distinct
	res.Rule = rule
	if err := res.Write(filepath.Join(out, "result.json")); err != nil {
		panic(err)
	}
}
