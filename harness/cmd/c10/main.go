// Command c10 drives goa's real gRPC generators (grpc/codegen ProtoFiles and, in the
// thorough tier, the client/server type conversion files) on generated designs built
// through the public DSL, writes what it observed as Coq terms (cases_*.txt, compared
// with the GRPC model inside Coq) and evaluates the property directly on the real
// .proto text with an independent proto3 recogniser (result.json).
//
// protoc is absent in this sandbox: the protoc finaliser is never run, the protobuf
// wire format is not exercised and (tier B) the protoc-gen-go structs are stand-ins
// emitted by this harness.
package main

import (
	"crypto/sha256"
	"encoding/json"
	"flag"
	"fmt"
	"os"
	"path/filepath"
	"regexp"
	"strings"

	"goa.design/goa/v3/expr"

	"verifharness/vh"
)

type caseInfo struct {
	Stream string  `json:"stream"`
	Svc    string  `json:"service,omitempty"`
	Design *Design `json:"design"`
	Proto  string  `json:"proto,omitempty"`
}

type run struct {
	res      *vh.Result
	distinct vh.Distinct
	main     []string // cases_main.txt
	names    []string // cases_names.txt
	wit      []string // cases_witness.txt
	idx      int
}

func (r *run) newCase(ci caseInfo) int {
	i := r.idx
	r.idx++
	r.res.Cases = append(r.res.Cases, ci)
	return i
}

// knownFindingSigs are the signatures a witness design may raise; in the main
// streams every signature is reported as it is (bin/check decides what is listed).
func (r *run) report(fs []Finding, d *Design, svc string, proto string) {
	for _, f := range fs {
		r.res.Fail(f.Sig, f.What, map[string]any{"design": d, "service": svc, "detail": f.Detail, "proto": proto})
	}
}

// process evaluates one design of a main stream: DSL, generators, oracle, model case.
func (r *run) process(stream string, d *Design) {
	r.res.Evaluations++
	r.res.Count("stream:" + stream)
	for _, f := range d.Features {
		if !strings.HasPrefix(f, "cover:") {
			r.res.Count("feature:" + f)
		}
	}
	out := d.Eval()
	switch {
	case out.Panic != "":
		r.res.Fail("dsl-panic", "building the design through the DSL panicked: "+firstLine(out.Panic), map[string]any{"design": d})
		return
	case !out.Accepted:
		r.res.Count("rejected-by-goa")
		if len(r.res.Samples) < 6 {
			r.res.Sample(map[string]any{"rejected": firstLine(out.Err), "design": d}, 6)
		}
		if stream == "covering" {
			r.res.Fail("covering-design-rejected", "a design of the fixed covering set is no longer accepted: "+firstLine(out.Err), map[string]any{"design": d})
		}
		return
	}
	r.res.Count("accepted")
	files, panicked, err := RenderProto()
	if panicked != "" {
		cls := panicClass(panicked)
		small := Shrink(d, func(c *Design) bool {
			if o := c.Eval(); !o.Accepted {
				return false
			}
			_, p, _ := RenderProto()
			return p != "" && panicClass(p) == cls
		})
		sig := "generator-panic/" + designPanicClass(small, cls)
		if strings.Contains(panicked, "strconv.ParseUint") {
			sig = "nonnumeric-tag-panic"
		}
		r.res.Fail(sig, "goa's gRPC generator panics on a design RunDSL accepted: "+firstLine(panicked), map[string]any{"design": small, "original": d})
		return
	}
	if err != nil {
		r.res.Fail("proto-render-error", err.Error(), map[string]any{"design": d})
		return
	}
	for si := range d.Svcs {
		svc := &d.Svcs[si]
		var text string
		for _, f := range files {
			if f.Svc == svc.Name {
				text = f.Text
			}
		}
		h := sha256.Sum256([]byte(text))
		r.distinct.Add(string(h[:]))
		r.res.Count(fmt.Sprintf("methods:%d", len(svc.Methods)))
		found := Check(d, svc, text)
		r.report(found, d, svc.Name, text)
		term, why := ModelFile(svc)
		if why != "" {
			if stream != "replay" {
				r.res.Fail("outside-modelled-fragment", "a main-stream design could not be described to the model: "+why, map[string]any{"design": d})
			}
			continue
		}
		i := r.newCase(caseInfo{Stream: stream, Svc: svc.Name, Design: d, Proto: text})
		if stream == "replay" && len(found) > 0 {
			// a replayed failing design: the model has to print the same tokens and find the definition defective too
			r.wit = append(r.wit, fmt.Sprintf("(%d, %s, WText %s)", i, term, zn(text)))
			continue
		}
		r.main = append(r.main, fmt.Sprintf("(%d, %s, %s)", i, term, zn(text)))
		if len(r.res.Samples) < 3 {
			r.res.Sample(map[string]any{"design": d, "proto": text}, 3)
		}
	}
	// metadata split cases: request message attributes = payload minus metadata
	r.splitCases(d)
	r.requiredCases(d)
	r.orderCases(d)
}

var reVar = regexp.MustCompile(`\[[^\]]*\]|"[^"]*"|[0-9]+`)

// panicClass maps a panic message to a short stable class (variable parts removed).
func panicClass(p string) string {
	l := firstLine(p)
	if i := strings.LastIndex(l, "error calling "); i >= 0 {
		l = l[i+len("error calling "):]
	}
	l = reVar.ReplaceAllString(l, "")
	l = strings.Join(strings.Fields(l), "-")
	if len(l) > 70 {
		l = l[:70]
	}
	return l
}

// designPanicClass names the recorded cause of a generator panic from the
// (minimised) design: an attribute literally named "field" in a user type (goa takes
// the type for one of its own wrappers), or nested collections over Int and Int32 /
// UInt and UInt32 (their wrapper messages get the same name).
func designPanicClass(d *Design, msgClass string) string {
	for _, ut := range d.Types {
		for _, f := range ut.Fields {
			if f.Name == "field" {
				return "attribute-named-field"
			}
		}
	}
	seen := map[string]bool{}
	var leafOf func(t *Ty) string
	leafOf = func(t *Ty) string {
		switch t.K {
		case "prim":
			return t.P
		case "user":
			if ut := d.ut(t.Ref); ut != nil && ut.Alias != nil {
				return leafOf(ut.Alias)
			}
		}
		return ""
	}
	var visit func(t *Ty, depth int)
	visit = func(t *Ty, depth int) {
		if t == nil {
			return
		}
		if t.K == "array" || t.K == "map" {
			if depth >= 1 {
				seen[leafOf(t.E)] = true
				if t.Key != nil {
					seen[leafOf(t.Key)] = true
				}
			}
			visit(t.E, depth+1)
		}
	}
	var fields func(fs []Fld, depth int)
	fields = func(fs []Fld, depth int) {
		for _, f := range fs {
			visit(f.T, depth)
			fields(f.Alts, depth)
		}
	}
	for _, ut := range d.Types {
		fields(ut.Fields, 0)
	}
	for _, s := range d.Svcs {
		for _, m := range s.Methods {
			for _, io := range []*IO{m.Payload, m.SPayload, m.Result, m.SResult} {
				if io != nil {
					fields(io.Fields, 0)
					visit(io.T, 0)
				}
			}
		}
	}
	if (seen["Int"] && seen["Int32"]) || (seen["UInt"] && seen["UInt32"]) {
		return "wrapper-name-collision"
	}
	return msgClass
}

func firstLine(s string) string {
	if i := strings.IndexByte(s, '\n'); i >= 0 {
		return s[:i]
	}
	return s
}

var fieldLine = regexp.MustCompile(`^\t(?:optional |repeated )?\S+ (\S+) = (\d+);$`)

// names runs the hostile-name stream: the proto field name goa printed for each
// attribute name, to be compared with the model's field_name.
func (r *run) nameDesign(d *Design, ns [2]string) {
	r.res.Evaluations++
	r.res.Count("stream:names")
	out := d.Eval()
	if !out.Accepted {
		r.res.Count("names:rejected-by-goa")
		return
	}
	files, panicked, err := RenderProto()
	if panicked != "" || err != nil || len(files) != 1 {
		r.res.Fail("proto-render-panic", "rendering panicked for attribute names "+fmt.Sprintf("%q", ns)+": "+firstLine(panicked), map[string]any{"design": d})
		return
	}
	text := files[0].Text
	r.report(Check(d, &d.Svcs[0], text), d, "svc", text)
	// pick the single field of MRequest and of MResponse
	var got []string
	for _, blk := range []string{"message MRequest {", "message MResponse {"} {
		i := strings.Index(text, blk)
		if i < 0 {
			r.res.Fail("names-message-missing", blk, map[string]any{"design": d, "proto": text})
			return
		}
		lines := strings.Split(text[i:], "\n")
		if len(lines) < 2 {
			return
		}
		m := fieldLine.FindStringSubmatch(lines[1])
		if m == nil {
			r.res.Fail("names-field-line-unreadable", lines[1], map[string]any{"design": d, "proto": text})
			return
		}
		got = append(got, m[1])
	}
	for k := 0; k < 2; k++ {
		h := sha256.Sum256([]byte("name:" + ns[k]))
		r.distinct.Add(string(h[:]))
		i := r.newCase(caseInfo{Stream: "names", Design: d, Proto: got[k]})
		r.names = append(r.names, fmt.Sprintf("(%d, %s, %s)", i, zs(ns[k]), zs(got[k])))
	}
}

// witness runs one recorded finding's design: it must still fail with its signatures.
func (r *run) witness(w Witness) {
	r.res.Evaluations++
	r.res.Count("stream:witness")
	out := w.D.Eval()
	if out.Panic != "" {
		r.res.Fail("dsl-panic", "witness "+w.Name+": "+firstLine(out.Panic), map[string]any{"design": w.D})
		return
	}
	if !out.Accepted {
		// goa now rejects the design: the finding is gone (reported as a note by the check)
		r.res.Count("witness-now-rejected:" + w.Name)
		return
	}
	files, panicked, err := RenderProto()
	if panicked != "" {
		sig := "generator-panic/" + designPanicClass(w.D, panicClass(panicked))
		if strings.Contains(panicked, "strconv.ParseUint") {
			sig = "nonnumeric-tag-panic"
		}
		r.res.Fail(sig, "a design accepted by RunDSL panics while its .proto is rendered: "+firstLine(panicked), map[string]any{"design": w.D, "witness": w.Name})
		if sig == "nonnumeric-tag-panic" {
			i := r.newCase(caseInfo{Stream: "witness", Design: w.D})
			r.wit = append(r.wit, fmt.Sprintf("(%d, %s, WPanic)", i, witnessTerm(w.D)))
		}
		return
	}
	if err != nil || len(files) != 1 {
		r.res.Fail("proto-render-error", fmt.Sprint(err), map[string]any{"design": w.D})
		return
	}
	text := files[0].Text
	fs := Check(w.D, &w.D.Svcs[0], text)
	r.report(fs, w.D, "svc", text)
	seen := map[string]bool{}
	for _, f := range fs {
		seen[f.Sig] = true
	}
	for _, e := range w.Expect {
		if !seen[e] {
			r.res.Count("witness-not-reproduced:" + w.Name + ":" + e)
		}
	}
	// the model's verdict on the same design (when the message is an object the model can describe)
	if witnessesOutsideModel[w.Name] {
		r.res.Count("witness-outside-model:" + w.Name)
	} else if term, why := ModelFile(&w.D.Svcs[0]); why == "" {
		i := r.newCase(caseInfo{Stream: "witness", Design: w.D, Proto: text})
		r.wit = append(r.wit, fmt.Sprintf("(%d, %s, WText %s)", i, term, zn(text)))
	} else {
		r.res.Count("witness-outside-model:" + w.Name)
	}
}

// mustReject: goa has to refuse the design; if it does not, whatever it emits is judged.
func (r *run) mustReject(w Witness) {
	r.res.Evaluations++
	r.res.Count("stream:must-reject")
	out := w.D.Eval()
	if out.Panic != "" {
		r.res.Fail("dsl-panic", "must-reject "+w.Name+": "+firstLine(out.Panic), map[string]any{"design": w.D})
		return
	}
	if !out.Accepted {
		r.res.Count("must-reject:rejected")
		if fs := rejectModel[w.Name]; fs != nil {
			i := r.newCase(caseInfo{Stream: "reject", Design: w.D})
			rejectLines = append(rejectLines, fmt.Sprintf("(%d, %s)", i, membersTerm(w.D, fs)))
		}
		return
	}
	files, panicked, err := RenderProto()
	if panicked != "" || err != nil || len(files) != 1 {
		r.res.Fail("invalid-tags-accepted", "a design with a repeated or missing tag in the validated scope is accepted by RunDSL ("+w.Name+") and rendering fails: "+firstLine(panicked), map[string]any{"design": w.D})
		return
	}
	fs := Check(w.D, &w.D.Svcs[0], files[0].Text)
	r.report(fs, w.D, "svc", files[0].Text)
	if len(fs) == 0 {
		r.res.Fail("invalid-tags-accepted", "a design with a repeated or missing tag in the validated scope is accepted by RunDSL ("+w.Name+")", map[string]any{"design": w.D, "proto": files[0].Text})
	}
}

// witnessTerm describes the request message of a witness whose rendering panicked
// (goa's own data is not available then): the payload attributes as designed.
func witnessTerm(d *Design) string {
	var ms []string
	for _, f := range d.Svcs[0].Methods[0].Payload.Fields {
		tag := "None"
		if !f.NoTag {
			tag = "(Some " + zs(f.Tag) + ")"
		}
		ms = append(ms, fmt.Sprintf("MField %s %s %s (TPrim PInt)", zs(f.Name), tag, vh.CoqBool(f.Req)))
	}
	return fmt.Sprintf("File %s %s [(%s, Unary, %s, %s)] [Msg %s %s; Msg %s []]", zs("svc"), zs("Svc"),
		zs("M"), zs("MRequest"), zs("MResponse"), zs("MRequest"), vh.CoqList(ms), zs("MResponse"))
}

func strs(xs []string) string {
	ss := make([]string, len(xs))
	for i, x := range xs {
		ss[i] = zs(x)
	}
	return vh.CoqList(ss)
}

// splitCases: for every unary / server-streaming method with an object payload, the
// designed attribute names, the metadata names and the field names goa put in the
// request message (same for result / headers / trailers / response message).
func (r *run) splitCases(d *Design) {
	o := &oracle{d: d}
	for si := range d.Svcs {
		svc := &d.Svcs[si]
		x := endpointMessages(svc.Name)
		if x == nil {
			continue
		}
		for mi := range svc.Methods {
			m := &svc.Methods[mi]
			if fs, isObj, _ := o.ioFields(m.Payload); isObj && m.Payload != nil && m.SPayload == nil {
				if got, ok := x.request(mi); ok {
					i := r.newCase(caseInfo{Stream: "split", Svc: svc.Name, Design: d})
					splitLines = append(splitLines, fmt.Sprintf("(%d, %s, %s, [%s; %s], %s)", i, strs(fldNames(fs)), strs(msgNames(m.ReqMsg)), strs(m.Metadata), strs(m.SecNames(d)), strs(got)))
				}
			}
			res := m.Result
			if m.SResult != nil {
				res = m.SResult
			}
			if fs, isObj, _ := o.ioFields(res); isObj && res != nil {
				if got, ok := x.response(mi); ok {
					i := r.newCase(caseInfo{Stream: "split", Svc: svc.Name, Design: d})
					splitLines = append(splitLines, fmt.Sprintf("(%d, %s, %s, [%s; %s], %s)", i, strs(fldNames(fs)), strs(msgNames(m.RespMsg)), strs(m.Headers), strs(m.Trailers), strs(got)))
				}
			}
		}
	}
}

var streamHandlerLines []string

var splitLines, runtimeLines, reqmdLines, historyLines, orderLines, rejectLines []string

// membersTerm renders designed members as Model.member terms (must-reject designs: goa's
// own data does not exist for a refused design).
func membersTerm(d *Design, fs []Fld) string {
	var ty func(t *Ty) string
	ty = func(t *Ty) string {
		switch t.K {
		case "prim":
			return "(TPrim " + coqPrimName[t.P] + ")"
		case "array":
			return "(TArr " + ty(t.E) + ")"
		case "map":
			return "(TMap " + ty(t.Key) + " " + ty(t.E) + ")"
		}
		if ut := d.ut(t.Ref); ut != nil && ut.Alias != nil {
			return "(TAlias " + ty(ut.Alias) + ")"
		}
		return "(TMsg " + zs(t.Ref) + ")"
	}
	tag := func(f *Fld) string {
		if f.NoTag {
			return "None"
		}
		return "(Some " + zs(f.Tag) + ")"
	}
	var ms []string
	for i := range fs {
		f := &fs[i]
		if f.Alts != nil {
			var alts []string
			for j := range f.Alts {
				alts = append(alts, fmt.Sprintf("(%s, %s, %s)", zs(f.Alts[j].Name), tag(&f.Alts[j]), ty(f.Alts[j].T)))
			}
			ms = append(ms, fmt.Sprintf("MOneof %s %s", zs(f.Name), vh.CoqList(alts)))
			continue
		}
		ms = append(ms, fmt.Sprintf("MField %s %s %s %s", zs(f.Name), tag(f), vh.CoqBool(f.Req), ty(f.T)))
	}
	return vh.CoqList(ms)
}

// orderCases: the parts of the Method DSL in the order they were declared and the
// streaming kind goa derived while running it (MethodExpr.Stream).
func (r *run) orderCases(d *Design) {
	for si := range d.Svcs {
		svc := &d.Svcs[si]
		se := expr.Root.Service(svc.Name)
		if se == nil {
			continue
		}
		for mi := range svc.Methods {
			m := &svc.Methods[mi]
			me := se.Method(m.Name)
			if me == nil {
				continue
			}
			var ds []string
			for _, part := range m.order() {
				switch {
				case part == "payload" && m.Payload != nil:
					ds = append(ds, "DPayload")
				case part == "streaming_payload" && m.SPayload != nil:
					ds = append(ds, "DStreamingPayload")
				case part == "result" && m.Result != nil:
					ds = append(ds, "DResult")
				case part == "streaming_result" && m.SResult != nil:
					ds = append(ds, "DStreamingResult")
				}
			}
			observed := int(me.Stream)
			if observed == 0 { // never set: no stream
				observed = 1
			}
			if observed != m.StreamKind() {
				r.res.Fail("method-streaming-kind-differs-from-design", fmt.Sprintf("method %q declares %v: designed %s, goa's MethodExpr.Stream is %s", m.Name, ds,
					coqKind[m.StreamKind()], coqKind[observed]), map[string]any{"design": d, "method": m.Name})
			}
			i := r.newCase(caseInfo{Stream: "order", Svc: svc.Name, Design: d})
			orderLines = append(orderLines, fmt.Sprintf("(%d, %s, %s)", i, vh.CoqList(ds), coqKind[observed]))
		}
	}
}

// requiredCases: a payload (result) attribute sent as metadata (header, trailer) is
// required there exactly when the design requires it (goa's finalised expression is
// what the generated decoders are rendered from).
func (r *run) requiredCases(d *Design) {
	o := &oracle{d: d}
	for si := range d.Svcs {
		svc := &d.Svcs[si]
		for mi := range svc.Methods {
			m := &svc.Methods[mi]
			res := m.Result
			if m.SResult != nil {
				res = m.SResult
			}
			for _, part := range []struct {
				where string
				names []string
				io    *IO
			}{{"metadata", append(append([]string{}, m.Metadata...), m.SecNames(d)...), m.Payload}, {"headers", m.Headers, res}, {"trailers", m.Trailers, res}} {
				if part.io == nil {
					continue
				}
				fs, isObj, _ := o.ioFields(part.io)
				if !isObj {
					continue
				}
				if part.where == "metadata" && m.SPayload != nil {
					// with a streaming payload every payload attribute travels as request metadata
					part.names = fldNames(fs)
				}
				if len(part.names) == 0 {
					continue
				}
				var required, want []string
				for _, f := range fs {
					if f.Req {
						required = append(required, f.Name)
					}
				}
				for _, n := range part.names {
					for _, q := range required {
						if q == n {
							want = append(want, n)
						}
					}
				}
				got, ok := goaRequired(svc.Name, mi, part.where, part.names)
				if !ok {
					continue
				}
				if strings.Join(got, ",") != strings.Join(want, ",") {
					r.res.Fail("metadata-required-flag-differs-from-design", fmt.Sprintf("%s.%s %s %v: the design requires %v, goa's finalised endpoint requires %v (the generated decoder hands user code a zero value instead of a missing-field error, or refuses an optional attribute)",
						svc.Name, m.Name, part.where, part.names, want, got), map[string]any{"design": d, "method": m.Name, "where": part.where})
				}
				if part.where == "metadata" {
					// the data the generated request decoder / client CLI are rendered from
					if cg, ok := codegenRequired(svc.Name, mi, part.names); ok && strings.Join(cg, ",") != strings.Join(want, ",") {
						r.res.Fail("metadata-required-flag-differs-from-design", fmt.Sprintf("%s.%s request metadata %v: the design requires %v, goa's code generation data (MetadataData.Required) says %v",
							svc.Name, m.Name, part.names, want, cg), map[string]any{"design": d, "method": m.Name, "where": "codegen request metadata"})
					}
				}
				i := r.newCase(caseInfo{Stream: "reqmd", Svc: svc.Name, Design: d})
				reqmdLines = append(reqmdLines, fmt.Sprintf("(%d, %s, %s, %s)", i, strs(part.names), strs(required), strs(got)))
			}
		}
	}
}

func fldNames(fs []Fld) []string {
	var out []string
	for _, f := range fs {
		out = append(out, f.Name)
	}
	return out
}

func writeLines(path string, lines []string) {
	if err := os.WriteFile(path, []byte(strings.Join(lines, "\n")+"\n"), 0o644); err != nil {
		panic(err)
	}
}

func main() {
	seed := flag.Uint64("seed", 1, "seed")
	tier := flag.String("tier", "quick", "quick|thorough")
	out := flag.String("out", ".", "output directory")
	replay := flag.String("replay", "", "replay file")
	repo := flag.String("repo", "/repo", "goa checkout the work module replaces (tier B)")
	flag.StringVar(&harnessDir, "harness", harnessDir, "the verifharness module directory (tier B work module replaces it)")
	flag.Parse()

	r := &run{res: vh.NewResult(), distinct: vh.Distinct{}}
	rng := vh.NewRNG(*seed)

	if *replay != "" {
		var rp struct {
			Input struct {
				Design *Design `json:"design"`
			} `json:"input"`
		}
		b, err := os.ReadFile(*replay)
		if err == nil {
			err = json.Unmarshal(b, &rp)
		}
		if err != nil || rp.Input.Design == nil {
			fmt.Fprintln(os.Stderr, "cannot read replay:", err)
			os.Exit(2)
		}
		r.process("replay", rp.Input.Design)
	} else {
		if os.Getenv("C10_TIERB_ONLY") != "" {
			tierB(r, rng.Fork(), *out, *repo)
			finish(r, *out)
			return
		}
		for _, d := range Covering() {
			r.process("covering", d)
		}
		nRandom, nNames := 480, 300
		if *tier == "thorough" {
			nRandom, nNames = 5000, 3000
		}
		rr := rng.Fork()
		for i := 0; i < nRandom; i++ {
			r.process("random", Random(rr))
		}
		nr := rng.Fork()
		for i := 0; i < nNames; i++ {
			d, ns := NameDesign(nr)
			r.nameDesign(d, ns)
		}
		for _, w := range Witnesses() {
			r.witness(w)
		}
		for _, w := range MustReject() {
			r.mustReject(w)
		}
		nrt := 800
		if *tier == "thorough" {
			nrt = 8000
		}
		runtimeLines = r.runtimeStream(rng.Fork(), nrt)
		historyLines = r.historyStream(rng.Fork(), nrt/10, nrt/4)
		streamHandlerLines = r.streamHandlerStream(rng.Fork(), nrt/2)
		if *tier == "thorough" {
			tierB(r, rng.Fork(), *out, *repo)
		}
	}

	finish(r, *out)
}

func finish(r *run, out string) {
	writeLines(filepath.Join(out, "cases_main.txt"), r.main)
	writeLines(filepath.Join(out, "cases_names.txt"), r.names)
	writeLines(filepath.Join(out, "cases_witness.txt"), r.wit)
	writeLines(filepath.Join(out, "cases_split.txt"), splitLines)
	writeLines(filepath.Join(out, "cases_runtime.txt"), runtimeLines)
	writeLines(filepath.Join(out, "cases_reqmd.txt"), reqmdLines)
	writeLines(filepath.Join(out, "cases_order.txt"), orderLines)
	writeLines(filepath.Join(out, "cases_reject.txt"), rejectLines)
	writeLines(filepath.Join(out, "cases_history.txt"), historyLines)
	writeLines(filepath.Join(out, "cases_streamhandler.txt"), streamHandlerLines)
	r.res.Distinct = len(r.distinct)
	r.res.Rule = "designs are built through goa's public DSL from generated descriptions (fixed covering set, then seed-driven random designs inside the partial hypotheses, then the hostile attribute-name stream, then one witness design per recorded finding); a case is one rendered .proto file (or one attribute name of the name stream); distinct = distinct SHA-256 of the rendered text / of the name; every rendered file has a service block and at least two messages, so none is trivial"
	if err := r.res.Write(filepath.Join(out, "result.json")); err != nil {
		panic(err)
	}
}
