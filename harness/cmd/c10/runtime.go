package main

// Runtime stream (quick and thorough, no generated code): goa's client invoker
// (grpc/client.go cliInvoker.Invoke) wired to goa's unary handler (grpc/handler.go)
// through an in-memory transport: the outgoing metadata of the context the invoker
// hands to the remote function becomes the incoming metadata of the handler's
// context; headers and trailers the handler sends are handed back through the
// grpc.Header / grpc.Trailer call options. Encoders and decoders have the shape of
// the generated ones (the request encoder appends payload attributes to *metadata.MD,
// the response encoder appends to hdr / trlr).

import (
	"context"
	"errors"
	"fmt"
	"reflect"
	"sort"
	"strconv"
	"strings"

	goagrpc "goa.design/goa/v3/grpc"
	goa "goa.design/goa/v3/pkg"
	"google.golang.org/grpc"
	"google.golang.org/grpc/codes"
	"google.golang.org/grpc/metadata"
	"google.golang.org/grpc/status"

	"verifharness/vh"
)

type kv struct {
	K string   `json:"k"`
	V []string `json:"v"`
}

type rtCase struct {
	Ctx      string `json:"ctx"` // plain | other-keys | same-keys | empty-md
	Caller   []kv   `json:"caller_md,omitempty"`
	Written  []kv   `json:"written"`
	Body     string `json:"body"`
	DecFail  string `json:"decode_failure,omitempty"` // "" | plain | service
	EpFail   bool   `json:"endpoint_fails,omitempty"`
	Hdr      []kv   `json:"headers,omitempty"`
	Trlr     []kv   `json:"trailers,omitempty"`
	Result   string `json:"result"`
	Required string `json:"required_key,omitempty"` // a metadata key the server decoder requires
}

type rtStream struct{ hdr, trlr metadata.MD }

func (s *rtStream) Method() string                  { return "/c10/runtime" }
func (s *rtStream) SetHeader(md metadata.MD) error  { s.hdr = metadata.Join(s.hdr, md); return nil }
func (s *rtStream) SendHeader(md metadata.MD) error { s.hdr = metadata.Join(s.hdr, md); return nil }
func (s *rtStream) SetTrailer(md metadata.MD) error { s.trlr = metadata.Join(s.trlr, md); return nil }

var rtKeys = []string{"authorization", "x-key", "limit", "goa-attr", "trace-id", "request-id", "k"}
var rtVals = []string{"", "v", "Bearer abc", "1", "two words", "é"}

func mdOf(kvs []kv) metadata.MD {
	md := metadata.MD{}
	for _, e := range kvs {
		md.Append(e.K, e.V...)
	}
	return md
}

func genKVs(r *vh.RNG, keys []string, n int) []kv {
	var out []kv
	for i := 0; i < n; i++ {
		e := kv{K: vh.Pick(r, keys)}
		for j := 0; j <= r.Intn(2); j++ {
			e.V = append(e.V, vh.Pick(r, rtVals))
		}
		out = append(out, e)
	}
	return out
}

func genRT(r *vh.RNG, i int) rtCase {
	c := rtCase{Ctx: []string{"plain", "other-keys", "same-keys", "empty-md"}[i%4], Body: vh.Pick(r, rtVals), Result: vh.Pick(r, rtVals)}
	c.Written = genKVs(r, rtKeys[:4], 1+r.Intn(3))
	c.Required = c.Written[0].K
	switch c.Ctx {
	case "other-keys":
		c.Caller = genKVs(r, rtKeys[4:], 1+r.Intn(2))
	case "same-keys":
		c.Caller = append(genKVs(r, rtKeys[4:], r.Intn(2)), kv{K: c.Written[r.Intn(len(c.Written))].K, V: []string{"caller-value"}})
	}
	switch k := r.Intn(10); {
	case k == 0:
		c.DecFail = "plain"
	case k == 1:
		c.DecFail = "service"
	case k == 2:
		c.EpFail = true
	}
	if r.Bool() {
		c.Hdr = genKVs(r, []string{"location", "h2"}, 1+r.Intn(2))
	}
	if r.Chance(1, 3) {
		c.Trlr = genKVs(r, []string{"t1", "goa-view"}, 1)
	}
	return c
}

func coqKVs(kvs []kv) string {
	var es []string
	for _, e := range kvs {
		es = append(es, fmt.Sprintf("(%s, %s)", zs(e.K), strs(e.V)))
	}
	return vh.CoqList(es)
}

// runtimeStream runs n cases; returns the Coq case lines.
func (r *run) runtimeStream(rng *vh.RNG, n int) []string {
	var lines []string
	for i := 0; i < n; i++ {
		c := genRT(rng, i)
		r.res.Evaluations++
		r.res.Count("stream:runtime")
		r.res.Count("runtime:ctx:" + c.Ctx)
		r.distinct.Add(fmt.Sprintf("rt:%v", c))
		var trace []string
		var serverMD, cliHdr, cliTrlr metadata.MD
		var gotBody string
		enc := func(_ context.Context, v any, md *metadata.MD) (any, error) {
			p := v.(*rtCase)
			for _, e := range p.Written {
				(*md).Append(e.K, e.V...)
			}
			return &struct{ Body string }{p.Body}, nil
		}
		dec := func(_ context.Context, v any, md metadata.MD) (any, error) {
			trace = append(trace, "decode")
			serverMD = md.Copy()
			switch c.DecFail {
			case "plain":
				return nil, errors.New("cannot decode")
			case "service":
				return nil, goa.InvalidLengthError("message.x", "v", 1, 2, true)
			}
			if vals := md.Get(c.Required); len(vals) == 0 {
				return nil, goa.MissingFieldError(c.Required, "metadata")
			}
			gotBody = v.(*struct{ Body string }).Body
			return gotBody, nil
		}
		endpoint := func(_ context.Context, req any) (any, error) {
			trace = append(trace, "endpoint")
			if c.EpFail {
				return nil, errors.New("endpoint failed")
			}
			return c.Result, nil
		}
		encResp := func(_ context.Context, v any, hdr, trlr *metadata.MD) (any, error) {
			trace = append(trace, "encode")
			for _, e := range c.Hdr {
				(*hdr).Append(e.K, e.V...)
			}
			for _, e := range c.Trlr {
				(*trlr).Append(e.K, e.V...)
			}
			return &struct{ R string }{v.(string)}, nil
		}
		decResp := func(_ context.Context, v any, hdr, trlr metadata.MD) (any, error) {
			cliHdr, cliTrlr = hdr.Copy(), trlr.Copy()
			return v.(*struct{ R string }).R, nil
		}
		h := goagrpc.NewUnaryHandler(endpoint, dec, encResp)
		transport := func(ctx context.Context, reqpb any, opts ...grpc.CallOption) (any, error) {
			out, _ := metadata.FromOutgoingContext(ctx)
			st := &rtStream{hdr: metadata.MD{}, trlr: metadata.MD{}}
			sctx := grpc.NewContextWithServerTransportStream(metadata.NewIncomingContext(context.Background(), out.Copy()), st)
			resp, err := h.Handle(sctx, reqpb)
			for _, o := range opts {
				switch t := o.(type) {
				case grpc.HeaderCallOption:
					*t.HeaderAddr = st.hdr
				case grpc.TrailerCallOption:
					*t.TrailerAddr = st.trlr
				}
			}
			return resp, err
		}
		ctx := context.Background()
		var callerMD metadata.MD
		if c.Ctx != "plain" {
			callerMD = mdOf(c.Caller)
			ctx = metadata.NewOutgoingContext(ctx, callerMD)
		}
		before := callerMD.Copy()
		res, err := goagrpc.NewInvoker(transport, enc, decResp).Invoke(ctx, &c)
		in := map[string]any{"runtime_case": c, "trace": trace, "server_metadata": serverMD, "error": fmt.Sprint(err)}
		fail := func(sig, what string) { r.res.Fail(sig, what, in) }

		// ---- direct oracle
		if len(trace) == 0 || trace[0] != "decode" {
			fail("runtime-handler-did-not-decode-first", fmt.Sprint(trace))
			continue
		}
		want := mdOf(c.Caller)
		for _, e := range c.Written {
			want.Append(e.K, e.V...)
		}
		for k, vs := range want {
			if !reflect.DeepEqual(serverMD.Get(k), vs) {
				sig := "runtime-metadata-written-by-encoder-not-delivered"
				if len(serverMD.Get(k)) > len(vs) {
					sig = "runtime-metadata-duplicated"
				}
				for _, e := range c.Caller {
					if strings.ToLower(e.K) == k && len(serverMD.Get(k)) < len(e.V) {
						sig = "runtime-caller-metadata-lost"
					}
				}
				fail(sig, fmt.Sprintf("context %s: key %q: the request encoder wrote / the caller's context carried %q, the server decoder saw %q", c.Ctx, k, vs, serverMD.Get(k)))
				break
			}
		}
		if !(len(callerMD) == 0 && len(before) == 0) && !reflect.DeepEqual(callerMD, before) {
			fail("runtime-caller-context-metadata-mutated", fmt.Sprintf("%v -> %v", before, callerMD))
		}
		wantTrace := []string{"decode"}
		if c.DecFail == "" {
			wantTrace = append(wantTrace, "endpoint")
			if !c.EpFail {
				wantTrace = append(wantTrace, "encode")
			}
		}
		if !reflect.DeepEqual(trace, wantTrace) {
			sig := "runtime-handler-order"
			if c.DecFail != "" && len(trace) > 1 {
				sig = "runtime-endpoint-ran-after-decode-error"
			}
			fail(sig, fmt.Sprintf("handler stages %v, required %v", trace, wantTrace))
		}
		switch {
		case c.DecFail == "plain":
			if status.Code(err) != codes.InvalidArgument {
				fail("runtime-decode-error-status", fmt.Sprintf("a decode error must surface as InvalidArgument, got %v", err))
			}
		case c.DecFail == "service":
			var se *goa.ServiceError
			if !errors.As(err, &se) {
				fail("runtime-decode-error-status", fmt.Sprintf("a validation error must surface as the goa service error, got %v", err))
			}
		case c.EpFail:
			if err == nil {
				fail("runtime-endpoint-error-lost", "")
			}
		default:
			if err != nil {
				fail("runtime-valid-call-failed", fmt.Sprintf("context %s: %v", c.Ctx, err))
				break
			}
			if res != c.Result || gotBody != c.Body {
				fail("runtime-value-differs", fmt.Sprintf("body %q -> %q, result %q -> %v", c.Body, gotBody, c.Result, res))
			}
			if !reflect.DeepEqual(cliHdr, mdOf(c.Hdr)) || !reflect.DeepEqual(cliTrlr, mdOf(c.Trlr)) {
				fail("runtime-response-metadata-not-delivered", fmt.Sprintf("server wrote headers %v trailers %v, client decoder saw %v %v", mdOf(c.Hdr), mdOf(c.Trlr), cliHdr, cliTrlr))
			}
		}
		// ---- model case: merged request metadata per key, handler trace
		keys := map[string]bool{}
		for _, e := range append(append([]kv{}, c.Caller...), c.Written...) {
			keys[e.K] = true
		}
		var ks []string
		for k := range keys {
			ks = append(ks, k)
		}
		sort.Strings(ks)
		var seen []string
		for _, k := range ks {
			seen = append(seen, fmt.Sprintf("(%s, %s)", zs(k), strs(serverMD.Get(k))))
		}
		var tr []string
		for _, s := range trace {
			tr = append(tr, map[string]string{"decode": "SDecode", "endpoint": "SEndpoint", "encode": "SEncode"}[s])
		}
		idx := r.newCase(caseInfo{Stream: "runtime"})
		r.res.Cases[idx] = map[string]any{"stream": "runtime", "case": c}
		var callerKVs []kv // the caller's metadata as the map it is: one entry per key
		for _, e := range c.Caller {
			dup := false
			for _, x := range callerKVs {
				dup = dup || x.K == e.K
			}
			if !dup {
				callerKVs = append(callerKVs, kv{e.K, before.Get(e.K)})
			}
		}
		lines = append(lines, fmt.Sprintf("(%d, %s, %s, %s, %s, %s, %s)", idx, coqKVs(callerKVs), coqKVs(c.Written), vh.CoqList(seen),
			vh.CoqBool(c.DecFail == ""), vh.CoqBool(!c.EpFail), vh.CoqList(tr)))
		if i < 2 {
			r.res.Sample(map[string]any{"runtime": in}, 8)
		}
	}
	return lines
}

// ------------------------------------------------------------------ histories
// Sequences of calls through ONE set of handlers (two endpoints) and one transport,
// mixing successes, decode errors, endpoint errors, transports whose SendHeader /
// SetTrailer fails, endpoints that send a header themselves, and calls that leave
// headers and trailers unset; then the same from several goroutines. Every call
// carries values of its own: whatever the client decoder sees must be what THIS
// call's response encoder wrote.

type hCall struct {
	ID       int    `json:"id"`
	Endpoint int    `json:"endpoint"`
	Kind     string `json:"kind"` // ok | decfail | epfail | hdrfail | trlrfail | early-header
	Hdr      []kv   `json:"headers,omitempty"`
	Trlr     []kv   `json:"trailers,omitempty"`
}

type hStream struct {
	hdr, trlr         metadata.MD
	failHdr, failTrlr bool
	strictOnce        bool
	sent              int
}

func (s *hStream) Method() string { return "/c10/history" }
func (s *hStream) SetHeader(md metadata.MD) error {
	s.hdr = metadata.Join(s.hdr, md)
	return nil
}
func (s *hStream) SendHeader(md metadata.MD) error {
	s.sent++
	if s.failHdr || (s.strictOnce && s.sent > 1) {
		return errors.New("transport: headers cannot be sent")
	}
	s.hdr = metadata.Join(s.hdr, md)
	return nil
}
func (s *hStream) SetTrailer(md metadata.MD) error {
	if s.failTrlr {
		return errors.New("transport: trailers cannot be set")
	}
	s.trlr = metadata.Join(s.trlr, md)
	return nil
}

type hRecord struct {
	Call            hCall
	Err             error
	CliHdr, CliTrlr metadata.MD
	Res             any
}

func genHCall(r *vh.RNG, id int, bare bool) hCall {
	c := hCall{ID: id, Endpoint: r.Intn(2), Kind: "ok"}
	if bare {
		return c
	}
	switch k := r.Intn(12); {
	case k == 0:
		c.Kind = "decfail"
	case k == 1:
		c.Kind = "epfail"
	case k < 4:
		c.Kind = "hdrfail"
	case k < 6:
		c.Kind = "trlrfail"
	case k == 6:
		c.Kind = "early-header"
	}
	val := func() []string { return []string{fmt.Sprintf("c%d-%s", id, vh.Pick(r, []string{"a", "b", "x y"}))} }
	for _, k := range []string{"location", "h2", "goa-view"} {
		if r.Chance(1, 2) {
			c.Hdr = append(c.Hdr, kv{k, val()})
		}
	}
	for _, k := range []string{"t1", "t2"} {
		if r.Chance(1, 3) {
			c.Trlr = append(c.Trlr, kv{k, val()})
		}
	}
	return c
}

var errEndpointWithoutRequest = errors.New("the endpoint ran although the request was not decoded")

// hHandlers builds the shared handlers (one per endpoint): stateless generated-shape
// decoder / encoder, the call travels as request message and as endpoint result.
func hHandlers() [2]goagrpc.UnaryHandler {
	var hs [2]goagrpc.UnaryHandler
	for e := 0; e < 2; e++ {
		dec := func(_ context.Context, v any, _ metadata.MD) (any, error) {
			c := v.(*hCall)
			if c.Kind == "decfail" {
				return nil, goa.MissingFieldError("x", "message")
			}
			return c, nil
		}
		endpoint := func(ctx context.Context, req any) (any, error) {
			c, ok := req.(*hCall)
			if !ok {
				return nil, errEndpointWithoutRequest
			}
			if c.Kind == "epfail" {
				return nil, errors.New("endpoint failed")
			}
			if c.Kind == "early-header" {
				if err := grpc.SendHeader(ctx, metadata.Pairs("early", fmt.Sprintf("c%d", c.ID))); err != nil {
					return nil, err
				}
			}
			return c, nil
		}
		encResp := func(_ context.Context, v any, hdr, trlr *metadata.MD) (any, error) {
			c := v.(*hCall)
			for _, e := range c.Hdr {
				(*hdr).Append(e.K, e.V...)
			}
			for _, e := range c.Trlr {
				(*trlr).Append(e.K, e.V...)
			}
			return c, nil
		}
		hs[e] = goagrpc.NewUnaryHandler(endpoint, dec, encResp)
	}
	return hs
}

func hInvoke(hs [2]goagrpc.UnaryHandler, c hCall) hRecord {
	rec := hRecord{Call: c}
	transport := func(ctx context.Context, reqpb any, opts ...grpc.CallOption) (any, error) {
		out, _ := metadata.FromOutgoingContext(ctx)
		st := &hStream{hdr: metadata.MD{}, trlr: metadata.MD{}, failHdr: c.Kind == "hdrfail", failTrlr: c.Kind == "trlrfail", strictOnce: c.Kind == "early-header"}
		sctx := grpc.NewContextWithServerTransportStream(metadata.NewIncomingContext(context.Background(), out.Copy()), st)
		resp, err := hs[c.Endpoint].Handle(sctx, reqpb)
		for _, o := range opts {
			switch t := o.(type) {
			case grpc.HeaderCallOption:
				*t.HeaderAddr = st.hdr
			case grpc.TrailerCallOption:
				*t.TrailerAddr = st.trlr
			}
		}
		return resp, err
	}
	enc := func(_ context.Context, v any, _ *metadata.MD) (any, error) { return v, nil }
	decResp := func(_ context.Context, v any, hdr, trlr metadata.MD) (any, error) {
		rec.CliHdr, rec.CliTrlr = hdr.Copy(), trlr.Copy()
		return v, nil
	}
	cc := c
	rec.Res, rec.Err = goagrpc.NewInvoker(transport, enc, decResp).Invoke(context.Background(), &cc)
	return rec
}

func mdPairs(md metadata.MD) []kv {
	var ks []string
	for k := range md {
		ks = append(ks, k)
	}
	sort.Strings(ks)
	var out []kv
	for _, k := range ks {
		out = append(out, kv{k, md[k]})
	}
	return out
}

// hJudge evaluates one call of a history; returns the Coq case line for delivered calls.
func (r *run) hJudge(rec hRecord, history []hCall, mode string) string {
	c := rec.Call
	r.res.Evaluations++
	r.res.Count("stream:history")
	r.res.Count("history:" + mode + ":" + c.Kind)
	in := map[string]any{"history_mode": mode, "call": c, "calls_before": history, "client_headers": rec.CliHdr, "client_trailers": rec.CliTrlr, "error": fmt.Sprint(rec.Err)}
	wantErr := c.Kind == "decfail" || c.Kind == "epfail" || (c.Kind == "hdrfail" && len(c.Hdr) > 0) || (c.Kind == "trlrfail" && len(c.Trlr) > 0) ||
		(c.Kind == "early-header" && len(c.Hdr) > 0)
	if wantErr {
		if errors.Is(rec.Err, errEndpointWithoutRequest) {
			r.res.Fail("history-endpoint-ran-after-decode-error", fmt.Sprintf("call %d: %v", c.ID, rec.Err), in)
		}
		if rec.Err == nil {
			r.res.Fail("history-failing-call-succeeded", fmt.Sprintf("%s call %d must fail", c.Kind, c.ID), in)
		}
		return ""
	}
	if rec.Err != nil {
		r.res.Fail("history-valid-call-failed", fmt.Sprintf("call %d (%s, headers %v, trailers %v) after %d earlier calls through the same handlers: %v", c.ID, c.Kind, c.Hdr, c.Trlr, len(history), rec.Err), in)
		return ""
	}
	pre := []kv{}
	if c.Kind == "early-header" {
		pre = []kv{{"early", []string{fmt.Sprintf("c%d", c.ID)}}}
	}
	wantHdr := mdOf(append(append([]kv{}, pre...), c.Hdr...))
	if c.Kind == "hdrfail" { // nothing to send: SendHeader is not reached
		wantHdr = metadata.MD{}
	}
	wantTrlr := mdOf(c.Trlr)
	if !reflect.DeepEqual(rec.CliHdr, wantHdr) || !reflect.DeepEqual(rec.CliTrlr, wantTrlr) {
		r.res.Fail("history-response-metadata-from-another-call", fmt.Sprintf("call %d (%s) wrote headers %v trailers %v; the client decoded headers %v trailers %v (%d earlier calls through the same handlers)",
			c.ID, c.Kind, wantHdr, wantTrlr, rec.CliHdr, rec.CliTrlr, len(history)), in)
	}
	if got, ok := rec.Res.(*hCall); !ok || got.ID != c.ID {
		r.res.Fail("history-result-of-another-call", fmt.Sprint(rec.Res), in)
	}
	idx := r.newCase(caseInfo{Stream: "history"})
	r.res.Cases[idx] = map[string]any{"stream": "history", "mode": mode, "call": c, "calls_before": len(history)}
	return fmt.Sprintf("(%d, %s, %s, %s, %s, %s)", idx, coqKVs(pre), coqKVs(c.Hdr), coqKVs(mdPairs(rec.CliHdr)), coqKVs(c.Trlr), coqKVs(mdPairs(rec.CliTrlr)))
}

func (r *run) historyStream(rng *vh.RNG, nHist, nConc int) []string {
	var lines []string
	id := 0
	for h := 0; h < nHist; h++ {
		hs := hHandlers()
		n := 6 + rng.Intn(10)
		var history []hCall
		for i := 0; i < n; i++ {
			c := genHCall(rng, id, i == n-1 || rng.Chance(1, 5))
			id++
			rec := hInvoke(hs, c)
			if l := r.hJudge(rec, history, "sequential"); l != "" {
				lines = append(lines, l)
			}
			history = append(history, c)
			r.distinct.Add(fmt.Sprintf("h:%v", c))
		}
	}
	// concurrent: the same handlers from several goroutines
	hs := hHandlers()
	const workers = 8
	calls := make([][]hCall, workers)
	for w := range calls {
		for i := 0; i < nConc; i++ {
			calls[w] = append(calls[w], genHCall(rng, id, rng.Chance(1, 4)))
			id++
		}
	}
	recs := make([][]hRecord, workers)
	done := make(chan int, workers)
	for w := 0; w < workers; w++ {
		go func(w int) {
			for _, c := range calls[w] {
				recs[w] = append(recs[w], hInvoke(hs, c))
			}
			done <- w
		}(w)
	}
	for w := 0; w < workers; w++ {
		<-done
	}
	for w := range recs {
		for i, rec := range recs[w] {
			if l := r.hJudge(rec, calls[w][:i], "concurrent"); l != "" {
				lines = append(lines, l)
			}
		}
	}
	return lines
}

// -------------------------------------------------------------- stream handlers
// goa's stream handler (grpc/handler.go streamHandler: Decode then Handle) driven the
// way the generated server methods drive it (server_grpc_interface.go.tpl): for
// server streaming `Decode(ctx, message)`, for client and bidirectional streaming
// `Decode(ctx, nil)` - the method payload, if any, travels in the request metadata
// and the generated request decoder builds and validates it from there - then the
// payload assertion, then `Handle(ctx, endpointInput)`. The client side is goa's
// invoker with a generated-shape request encoder.

type sCase struct {
	Kind     string `json:"kind"`    // server | client | bidi
	Payload  string `json:"payload"` // none | object | primitive
	Written  []kv   `json:"written,omitempty"`
	Body     string `json:"body,omitempty"` // server streaming: the request message
	Drop     string `json:"drop,omitempty"` // a required metadata key the client does not send
	IllTyped bool   `json:"ill_typed,omitempty"`
	DecPlain bool   `json:"decode_plain_error,omitempty"`
	EpFail   bool   `json:"endpoint_fails,omitempty"`
}

type sPayload struct {
	MD   map[string][]string
	N    int
	Body string
}

type sEndpointInput struct {
	Payload *sPayload
	Stream  any
}

func genSCase(r *vh.RNG, i int) sCase {
	c := sCase{Kind: []string{"server", "client", "bidi"}[i%3], Payload: []string{"object", "primitive", "none", "object"}[(i/3)%4]}
	switch c.Payload {
	case "object":
		c.Written = append([]kv{{"count", []string{fmt.Sprint(r.Intn(1000))}}}, genKVs(r, rtKeys[:4], 1+r.Intn(2))...)
	case "primitive":
		c.Written = []kv{{"goa_payload", []string{vh.Pick(r, rtVals)}}}
	}
	if c.Kind == "server" {
		c.Body = vh.Pick(r, rtVals)
	}
	if c.Payload != "none" {
		switch k := r.Intn(8); {
		case k == 0:
			c.Drop = c.Written[0].K
		case k == 1 && c.Payload == "object":
			c.IllTyped = true
			c.Written[0].V = []string{"not-a-number"}
		case k == 2:
			c.DecPlain = true
		}
	}
	c.EpFail = r.Chance(1, 8)
	return c
}

func (r *run) streamHandlerStream(rng *vh.RNG, n int) []string {
	var lines []string
	for i := 0; i < n; i++ {
		c := genSCase(rng, i)
		r.res.Evaluations++
		r.res.Count("stream:stream-handler")
		r.res.Count("stream-handler:" + c.Kind + ":" + c.Payload)
		r.distinct.Add(fmt.Sprintf("sh:%v", c))
		var trace []string
		var serverMD metadata.MD
		var got *sPayload
		// generated-shape server request decoder: payload from the metadata (and from the
		// message for server streaming), required and typed attributes checked
		dec := func(_ context.Context, v any, md metadata.MD) (any, error) {
			trace = append(trace, "decode")
			serverMD = md.Copy()
			if c.DecPlain {
				return nil, errors.New("cannot decode")
			}
			p := &sPayload{MD: map[string][]string{}}
			req := c.Written[0].K
			if vals := md.Get(req); len(vals) == 0 {
				return nil, goa.MissingFieldError(req, "metadata")
			}
			if c.Payload == "object" {
				n, err := strconv.Atoi(md.Get("count")[0])
				if err != nil {
					return nil, goa.InvalidFieldTypeError("count", md.Get("count")[0], "integer")
				}
				p.N = n
			}
			for _, e := range c.Written {
				p.MD[e.K] = md.Get(e.K)
			}
			if m, ok := v.(*struct{ Body string }); ok && m != nil {
				p.Body = m.Body
			}
			return p, nil
		}
		endpoint := func(_ context.Context, in any) (any, error) {
			trace = append(trace, "endpoint")
			got = in.(*sEndpointInput).Payload
			if c.EpFail {
				return nil, errors.New("endpoint failed")
			}
			return nil, nil
		}
		var h goagrpc.StreamHandler
		if c.Payload == "none" {
			h = goagrpc.NewStreamHandler(endpoint, nil)
		} else {
			h = goagrpc.NewStreamHandler(endpoint, dec)
		}
		// the generated server method
		serverMethod := func(ctx context.Context, message any) (err error) {
			defer func() {
				if rec := recover(); rec != nil {
					err = fmt.Errorf("PANIC in the generated server method shape: %v", rec)
				}
			}()
			var arg any // nil when the payload is streamed
			if c.Kind == "server" {
				arg = message
			}
			p, err := h.Decode(ctx, arg)
			if err != nil {
				return goagrpc.EncodeError(err)
			}
			ep := &sEndpointInput{Stream: "stream"}
			if c.Payload != "none" {
				ep.Payload = p.(*sPayload)
			}
			if err = h.Handle(ctx, ep); err != nil {
				return goagrpc.EncodeError(err)
			}
			return nil
		}
		enc := func(_ context.Context, v any, md *metadata.MD) (any, error) {
			for _, e := range c.Written {
				if e.K != c.Drop {
					(*md).Append(e.K, e.V...)
				}
			}
			if c.Kind == "server" {
				return &struct{ Body string }{c.Body}, nil
			}
			return nil, nil
		}
		transport := func(ctx context.Context, reqpb any, _ ...grpc.CallOption) (any, error) {
			out, _ := metadata.FromOutgoingContext(ctx)
			return "client-stream", serverMethod(metadata.NewIncomingContext(context.Background(), out.Copy()), reqpb)
		}
		_, err := goagrpc.NewInvoker(transport, enc, nil).Invoke(context.Background(), &c)
		in := map[string]any{"stream_handler_case": c, "trace": trace, "server_metadata": serverMD, "error": fmt.Sprint(err)}
		fail := func(sig, what string) { r.res.Fail(sig, what, in) }

		hasDecoder := c.Payload != "none"
		decodeOK := !c.DecPlain && c.Drop == "" && !c.IllTyped
		var want []string
		if hasDecoder {
			want = append(want, "decode")
		}
		if !hasDecoder || decodeOK {
			want = append(want, "endpoint")
		}
		if err != nil && strings.Contains(err.Error(), "PANIC") {
			fail("stream-handler-panic", fmt.Sprintf("%s streaming method with a %s payload: %v", c.Kind, c.Payload, err))
		}
		switch {
		case !reflect.DeepEqual(trace, want):
			sig := "stream-handler-order"
			if hasDecoder && (len(trace) == 0 || trace[0] != "decode") {
				sig = "stream-handler-request-decoder-not-run"
			} else if !decodeOK && len(trace) > 1 {
				sig = "stream-handler-endpoint-ran-after-decode-error"
			}
			fail(sig, fmt.Sprintf("%s streaming method with a %s payload: stages %v, required %v", c.Kind, c.Payload, trace, want))
		case hasDecoder && !decodeOK && err == nil:
			fail("stream-handler-invalid-request-accepted", fmt.Sprintf("%v", c))
		case (!hasDecoder || decodeOK) && c.EpFail != (err != nil):
			fail("stream-handler-endpoint-error", fmt.Sprintf("endpoint fails=%v, error=%v", c.EpFail, err))
		case hasDecoder && decodeOK:
			if got == nil {
				fail("stream-handler-payload-lost", fmt.Sprintf("%s streaming method: the endpoint received no payload", c.Kind))
				break
			}
			wantMD := mdOf(c.Written)
			for k, vs := range wantMD {
				if !reflect.DeepEqual(got.MD[k], vs) {
					fail("stream-handler-payload-differs", fmt.Sprintf("key %q: sent %q, endpoint payload has %q", k, vs, got.MD[k]))
					break
				}
			}
			if got.Body != c.Body {
				fail("stream-handler-payload-differs", fmt.Sprintf("body %q -> %q", c.Body, got.Body))
			}
		}
		// model case
		var seen, tr []string
		if hasDecoder && serverMD != nil {
			var ks []string
			for _, e := range c.Written {
				dup := false
				for _, k := range ks {
					dup = dup || k == e.K
				}
				if !dup && e.K != c.Drop {
					ks = append(ks, e.K)
				}
			}
			for _, k := range ks {
				seen = append(seen, fmt.Sprintf("(%s, %s)", zs(k), strs(serverMD.Get(k))))
			}
		}
		for _, s := range trace {
			tr = append(tr, map[string]string{"decode": "SDecode", "endpoint": "SEndpoint"}[s])
		}
		var written []kv
		for _, e := range c.Written {
			if e.K != c.Drop {
				written = append(written, e)
			}
		}
		idx := r.newCase(caseInfo{Stream: "stream-handler"})
		r.res.Cases[idx] = map[string]any{"stream": "stream-handler", "case": c}
		lines = append(lines, fmt.Sprintf("(%d, %s, %s, %s, %s, %s)", idx, coqKVs(written), vh.CoqList(seen), vh.CoqBool(hasDecoder), vh.CoqBool(decodeOK), vh.CoqList(tr)))
		if i < 2 {
			r.res.Sample(map[string]any{"stream_handler": in}, 10)
		}
	}
	return lines
}
