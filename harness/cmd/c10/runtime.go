package main

// Runtime stream (quick and thorough, no generated code): goa's client invoker
// (grpc/client.go cliInvoker.Invoke) wired to goa's unary handler (grpc/handler.go)
// through an in-memory transport: the outgoing metadata of the context the invoker
// hands to the remote function becomes the incoming metadata of the handler's
// context; headers and trailers the handler sends are handed back through the
// grpc.Header / grpc.Trailer call options. Encoders and decoders have the shape of
// the generated ones (the request encoder appends payload attributes to *metadata.MD,
// the response encoder appends to hdr / trlr).

import (
	"context"
	"errors"
	"fmt"
	"reflect"
	"sort"
	"strings"

	goagrpc "goa.design/goa/v3/grpc"
	goa "goa.design/goa/v3/pkg"
	"google.golang.org/grpc"
	"google.golang.org/grpc/codes"
	"google.golang.org/grpc/metadata"
	"google.golang.org/grpc/status"

	"verifharness/vh"
)

type kv struct {
	K string   `json:"k"`
	V []string `json:"v"`
}

type rtCase struct {
	Ctx      string `json:"ctx"` // plain | other-keys | same-keys | empty-md
	Caller   []kv   `json:"caller_md,omitempty"`
	Written  []kv   `json:"written"`
	Body     string `json:"body"`
	DecFail  string `json:"decode_failure,omitempty"` // "" | plain | service
	EpFail   bool   `json:"endpoint_fails,omitempty"`
	Hdr      []kv   `json:"headers,omitempty"`
	Trlr     []kv   `json:"trailers,omitempty"`
	Result   string `json:"result"`
	Required string `json:"required_key,omitempty"` // a metadata key the server decoder requires
}

type rtStream struct{ hdr, trlr metadata.MD }

func (s *rtStream) Method() string                  { return "/c10/runtime" }
func (s *rtStream) SetHeader(md metadata.MD) error  { s.hdr = metadata.Join(s.hdr, md); return nil }
func (s *rtStream) SendHeader(md metadata.MD) error { s.hdr = metadata.Join(s.hdr, md); return nil }
func (s *rtStream) SetTrailer(md metadata.MD) error { s.trlr = metadata.Join(s.trlr, md); return nil }

var rtKeys = []string{"authorization", "x-key", "limit", "goa-attr", "trace-id", "request-id", "k"}
var rtVals = []string{"", "v", "Bearer abc", "1", "two words", "é"}

func mdOf(kvs []kv) metadata.MD {
	md := metadata.MD{}
	for _, e := range kvs {
		md.Append(e.K, e.V...)
	}
	return md
}

func genKVs(r *vh.RNG, keys []string, n int) []kv {
	var out []kv
	for i := 0; i < n; i++ {
		e := kv{K: vh.Pick(r, keys)}
		for j := 0; j <= r.Intn(2); j++ {
			e.V = append(e.V, vh.Pick(r, rtVals))
		}
		out = append(out, e)
	}
	return out
}

func genRT(r *vh.RNG, i int) rtCase {
	c := rtCase{Ctx: []string{"plain", "other-keys", "same-keys", "empty-md"}[i%4], Body: vh.Pick(r, rtVals), Result: vh.Pick(r, rtVals)}
	c.Written = genKVs(r, rtKeys[:4], 1+r.Intn(3))
	c.Required = c.Written[0].K
	switch c.Ctx {
	case "other-keys":
		c.Caller = genKVs(r, rtKeys[4:], 1+r.Intn(2))
	case "same-keys":
		c.Caller = append(genKVs(r, rtKeys[4:], r.Intn(2)), kv{K: c.Written[r.Intn(len(c.Written))].K, V: []string{"caller-value"}})
	}
	switch k := r.Intn(10); {
	case k == 0:
		c.DecFail = "plain"
	case k == 1:
		c.DecFail = "service"
	case k == 2:
		c.EpFail = true
	}
	if r.Bool() {
		c.Hdr = genKVs(r, []string{"location", "h2"}, 1+r.Intn(2))
	}
	if r.Chance(1, 3) {
		c.Trlr = genKVs(r, []string{"t1", "goa-view"}, 1)
	}
	return c
}

func coqKVs(kvs []kv) string {
	var es []string
	for _, e := range kvs {
		es = append(es, fmt.Sprintf("(%s, %s)", zs(e.K), strs(e.V)))
	}
	return vh.CoqList(es)
}

// runtimeStream runs n cases; returns the Coq case lines.
func (r *run) runtimeStream(rng *vh.RNG, n int) []string {
	var lines []string
	for i := 0; i < n; i++ {
		c := genRT(rng, i)
		r.res.Evaluations++
		r.res.Count("stream:runtime")
		r.res.Count("runtime:ctx:" + c.Ctx)
		r.distinct.Add(fmt.Sprintf("rt:%v", c))
		var trace []string
		var serverMD, cliHdr, cliTrlr metadata.MD
		var gotBody string
		enc := func(_ context.Context, v any, md *metadata.MD) (any, error) {
			p := v.(*rtCase)
			for _, e := range p.Written {
				(*md).Append(e.K, e.V...)
			}
			return &struct{ Body string }{p.Body}, nil
		}
		dec := func(_ context.Context, v any, md metadata.MD) (any, error) {
			trace = append(trace, "decode")
			serverMD = md.Copy()
			switch c.DecFail {
			case "plain":
				return nil, errors.New("cannot decode")
			case "service":
				return nil, goa.InvalidLengthError("message.x", "v", 1, 2, true)
			}
			if vals := md.Get(c.Required); len(vals) == 0 {
				return nil, goa.MissingFieldError(c.Required, "metadata")
			}
			gotBody = v.(*struct{ Body string }).Body
			return gotBody, nil
		}
		endpoint := func(_ context.Context, req any) (any, error) {
			trace = append(trace, "endpoint")
			if c.EpFail {
				return nil, errors.New("endpoint failed")
			}
			return c.Result, nil
		}
		encResp := func(_ context.Context, v any, hdr, trlr *metadata.MD) (any, error) {
			trace = append(trace, "encode")
			for _, e := range c.Hdr {
				(*hdr).Append(e.K, e.V...)
			}
			for _, e := range c.Trlr {
				(*trlr).Append(e.K, e.V...)
			}
			return &struct{ R string }{v.(string)}, nil
		}
		decResp := func(_ context.Context, v any, hdr, trlr metadata.MD) (any, error) {
			cliHdr, cliTrlr = hdr.Copy(), trlr.Copy()
			return v.(*struct{ R string }).R, nil
		}
		h := goagrpc.NewUnaryHandler(endpoint, dec, encResp)
		transport := func(ctx context.Context, reqpb any, opts ...grpc.CallOption) (any, error) {
			out, _ := metadata.FromOutgoingContext(ctx)
			st := &rtStream{hdr: metadata.MD{}, trlr: metadata.MD{}}
			sctx := grpc.NewContextWithServerTransportStream(metadata.NewIncomingContext(context.Background(), out.Copy()), st)
			resp, err := h.Handle(sctx, reqpb)
			for _, o := range opts {
				switch t := o.(type) {
				case grpc.HeaderCallOption:
					*t.HeaderAddr = st.hdr
				case grpc.TrailerCallOption:
					*t.TrailerAddr = st.trlr
				}
			}
			return resp, err
		}
		ctx := context.Background()
		var callerMD metadata.MD
		if c.Ctx != "plain" {
			callerMD = mdOf(c.Caller)
			ctx = metadata.NewOutgoingContext(ctx, callerMD)
		}
		before := callerMD.Copy()
		res, err := goagrpc.NewInvoker(transport, enc, decResp).Invoke(ctx, &c)
		in := map[string]any{"runtime_case": c, "trace": trace, "server_metadata": serverMD, "error": fmt.Sprint(err)}
		fail := func(sig, what string) { r.res.Fail(sig, what, in) }

		// ---- direct oracle
		if len(trace) == 0 || trace[0] != "decode" {
			fail("runtime-handler-did-not-decode-first", fmt.Sprint(trace))
			continue
		}
		want := mdOf(c.Caller)
		for _, e := range c.Written {
			want.Append(e.K, e.V...)
		}
		for k, vs := range want {
			if !reflect.DeepEqual(serverMD.Get(k), vs) {
				sig := "runtime-metadata-written-by-encoder-not-delivered"
				if len(serverMD.Get(k)) > len(vs) {
					sig = "runtime-metadata-duplicated"
				}
				for _, e := range c.Caller {
					if strings.ToLower(e.K) == k && len(serverMD.Get(k)) < len(e.V) {
						sig = "runtime-caller-metadata-lost"
					}
				}
				fail(sig, fmt.Sprintf("context %s: key %q: the request encoder wrote / the caller's context carried %q, the server decoder saw %q", c.Ctx, k, vs, serverMD.Get(k)))
				break
			}
		}
		if !(len(callerMD) == 0 && len(before) == 0) && !reflect.DeepEqual(callerMD, before) {
			fail("runtime-caller-context-metadata-mutated", fmt.Sprintf("%v -> %v", before, callerMD))
		}
		wantTrace := []string{"decode"}
		if c.DecFail == "" {
			wantTrace = append(wantTrace, "endpoint")
			if !c.EpFail {
				wantTrace = append(wantTrace, "encode")
			}
		}
		if !reflect.DeepEqual(trace, wantTrace) {
			sig := "runtime-handler-order"
			if c.DecFail != "" && len(trace) > 1 {
				sig = "runtime-endpoint-ran-after-decode-error"
			}
			fail(sig, fmt.Sprintf("handler stages %v, required %v", trace, wantTrace))
		}
		switch {
		case c.DecFail == "plain":
			if status.Code(err) != codes.InvalidArgument {
				fail("runtime-decode-error-status", fmt.Sprintf("a decode error must surface as InvalidArgument, got %v", err))
			}
		case c.DecFail == "service":
			var se *goa.ServiceError
			if !errors.As(err, &se) {
				fail("runtime-decode-error-status", fmt.Sprintf("a validation error must surface as the goa service error, got %v", err))
			}
		case c.EpFail:
			if err == nil {
				fail("runtime-endpoint-error-lost", "")
			}
		default:
			if err != nil {
				fail("runtime-valid-call-failed", fmt.Sprintf("context %s: %v", c.Ctx, err))
				break
			}
			if res != c.Result || gotBody != c.Body {
				fail("runtime-value-differs", fmt.Sprintf("body %q -> %q, result %q -> %v", c.Body, gotBody, c.Result, res))
			}
			if !reflect.DeepEqual(cliHdr, mdOf(c.Hdr)) || !reflect.DeepEqual(cliTrlr, mdOf(c.Trlr)) {
				fail("runtime-response-metadata-not-delivered", fmt.Sprintf("server wrote headers %v trailers %v, client decoder saw %v %v", mdOf(c.Hdr), mdOf(c.Trlr), cliHdr, cliTrlr))
			}
		}
		// ---- model case: merged request metadata per key, handler trace
		keys := map[string]bool{}
		for _, e := range append(append([]kv{}, c.Caller...), c.Written...) {
			keys[e.K] = true
		}
		var ks []string
		for k := range keys {
			ks = append(ks, k)
		}
		sort.Strings(ks)
		var seen []string
		for _, k := range ks {
			seen = append(seen, fmt.Sprintf("(%s, %s)", zs(k), strs(serverMD.Get(k))))
		}
		var tr []string
		for _, s := range trace {
			tr = append(tr, map[string]string{"decode": "SDecode", "endpoint": "SEndpoint", "encode": "SEncode"}[s])
		}
		idx := r.newCase(caseInfo{Stream: "runtime"})
		r.res.Cases[idx] = map[string]any{"stream": "runtime", "case": c}
		var callerKVs []kv // the caller's metadata as the map it is: one entry per key
		for _, e := range c.Caller {
			dup := false
			for _, x := range callerKVs {
				dup = dup || x.K == e.K
			}
			if !dup {
				callerKVs = append(callerKVs, kv{e.K, before.Get(e.K)})
			}
		}
		lines = append(lines, fmt.Sprintf("(%d, %s, %s, %s, %s, %s, %s)", idx, coqKVs(callerKVs), coqKVs(c.Written), vh.CoqList(seen),
			vh.CoqBool(c.DecFail == ""), vh.CoqBool(!c.EpFail), vh.CoqList(tr)))
		if i < 2 {
			r.res.Sample(map[string]any{"runtime": in}, 8)
		}
	}
	return lines
}
