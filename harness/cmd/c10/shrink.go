package main

import "encoding/json"

// Shrink greedily minimises a design while keep(d) stays true: drop services,
// methods, payload/result parts, mappings, types, members, union alternatives;
// simplify types to their element or to Int.
func Shrink(d *Design, keep func(*Design) bool) *Design {
	clone := func(x *Design) *Design {
		var c Design
		b, _ := json.Marshal(x)
		_ = json.Unmarshal(b, &c)
		return &c
	}
	cur := clone(d)
	try := func(mut func(c *Design) bool) bool {
		c := clone(cur)
		if !mut(c) {
			return false
		}
		if keep(c) {
			cur = c
			return true
		}
		return false
	}
	for round := 0; round < 40; round++ {
		progress := false
		// services and methods
		for i := len(cur.Svcs) - 1; i >= 0 && len(cur.Svcs) > 1; i-- {
			i := i
			progress = try(func(c *Design) bool { c.Svcs = append(c.Svcs[:i], c.Svcs[i+1:]...); return true }) || progress
		}
		for s := range cur.Svcs {
			for i := len(cur.Svcs[s].Methods) - 1; i >= 0 && len(cur.Svcs[s].Methods) > 1; i-- {
				s, i := s, i
				progress = try(func(c *Design) bool {
					if i >= len(c.Svcs[s].Methods) {
						return false
					}
					c.Svcs[s].Methods = append(c.Svcs[s].Methods[:i], c.Svcs[s].Methods[i+1:]...)
					return true
				}) || progress
			}
		}
		// parts of methods
		for s := range cur.Svcs {
			for m := range cur.Svcs[s].Methods {
				s, m := s, m
				for part := 0; part < 7; part++ {
					part := part
					progress = try(func(c *Design) bool {
						mm := &c.Svcs[s].Methods[m]
						switch part {
						case 0:
							if mm.Payload == nil {
								return false
							}
							mm.Payload, mm.Metadata = nil, nil
						case 1:
							if mm.Result == nil {
								return false
							}
							mm.Result, mm.Headers, mm.Trailers = nil, nil, nil
						case 2:
							if mm.SPayload == nil {
								return false
							}
							mm.SPayload = nil
						case 3:
							if mm.SResult == nil {
								return false
							}
							mm.SResult = nil
						case 4:
							if mm.Metadata == nil {
								return false
							}
							mm.Metadata = nil
						case 5:
							if mm.Headers == nil {
								return false
							}
							mm.Headers = nil
						case 6:
							if mm.Trailers == nil {
								return false
							}
							mm.Trailers = nil
						}
						return true
					}) || progress
				}
			}
		}
		// members of every object, alternatives, types
		lists := func(c *Design) []*[]Fld {
			var out []*[]Fld
			for t := range c.Types {
				if c.Types[t].Alias == nil {
					out = append(out, &c.Types[t].Fields)
				}
			}
			for s := range c.Svcs {
				for m := range c.Svcs[s].Methods {
					mm := &c.Svcs[s].Methods[m]
					for _, io := range []*IO{mm.Payload, mm.SPayload, mm.Result, mm.SResult} {
						if io != nil && io.T == nil {
							out = append(out, &io.Fields)
						}
					}
				}
			}
			n := len(out)
			for k := 0; k < n; k++ {
				for f := range *out[k] {
					if (*out[k])[f].Alts != nil {
						out = append(out, &(*out[k])[f].Alts)
					}
				}
			}
			return out
		}
		nl := len(lists(cur))
		for l := 0; l < nl; l++ {
			ls := lists(cur)
			if l >= len(ls) {
				break
			}
			for i := len(*ls[l]) - 1; i >= 0; i-- {
				l, i := l, i
				progress = try(func(c *Design) bool {
					x := lists(c)
					if l >= len(x) || i >= len(*x[l]) || len(*x[l]) <= 1 {
						return false
					}
					*x[l] = append((*x[l])[:i], (*x[l])[i+1:]...)
					return true
				}) || progress
				// simplify the member's type
				for step := 0; step < 3; step++ {
					step := step
					progress = try(func(c *Design) bool {
						x := lists(c)
						if l >= len(x) || i >= len(*x[l]) {
							return false
						}
						f := &(*x[l])[i]
						if f.T == nil {
							return false
						}
						switch step {
						case 0:
							if f.T.K != "array" && f.T.K != "map" {
								return false
							}
							f.T = f.T.E
						case 1:
							if f.T.K == "prim" && f.T.P == "Int" {
								return false
							}
							f.T = P("Int")
						case 2:
							if !f.Req && f.V == nil {
								return false
							}
							f.Req, f.V = false, nil
						}
						return true
					}) || progress
				}
			}
		}
		for i := len(cur.Types) - 1; i >= 0; i-- {
			i := i
			progress = try(func(c *Design) bool { c.Types = append(c.Types[:i], c.Types[i+1:]...); return true }) || progress
		}
		if !progress {
			break
		}
	}
	cur.Features = nil
	return cur
}
