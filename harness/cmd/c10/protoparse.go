package main

// An independent proto3 recogniser (tokenizer + recursive descent parser) for the
// subset of the language a goa-generated file may use. It is the direct oracle's
// reading of the REAL .proto text; it shares nothing with goa or with the Coq model.
//
//   file    = "syntax" "=" "\"proto3\"" ";" "package" fullIdent ";" { option | import } { service | message }
//   option  = "option" ident "=" strLit ";"
//   import  = "import" strLit ";"
//   service = "service" ident "{" { rpc } "}"
//   rpc     = "rpc" ident "(" ["stream"] typeName ")" "returns" "(" ["stream"] typeName ")" ";"
//   message = "message" ident "{" { field | mapField | oneof | message } "}"
//   field   = ["optional" | "repeated"] type ident "=" intLit ";"
//   mapField= "map" "<" keyType "," type ">" ident "=" intLit ";"
//   oneof   = "oneof" ident "{" oneofField { oneofField } "}"       oneofField = type ident "=" intLit ";"

import (
	"fmt"
	"math/big"
	"strings"
)

type Tok struct {
	Kind string // id | num | str | sym | bad
	Text string
	Line int
}

func isLetter(c byte) bool { return c >= 'a' && c <= 'z' || c >= 'A' && c <= 'Z' || c == '_' }
func isDigit(c byte) bool  { return c >= '0' && c <= '9' }

// Tokenize splits proto source into tokens; // and /* */ comments are dropped.
// A lexeme that is not a token of the language becomes one "bad" token.
func Tokenize(src string) []Tok {
	var out []Tok
	line := 1
	i := 0
	for i < len(src) {
		c := src[i]
		switch {
		case c == '\n':
			line++
			i++
		case c == ' ' || c == '\t' || c == '\r':
			i++
		case c == '/' && i+1 < len(src) && src[i+1] == '/':
			for i < len(src) && src[i] != '\n' {
				i++
			}
		case c == '/' && i+1 < len(src) && src[i+1] == '*':
			j := strings.Index(src[i+2:], "*/")
			if j < 0 {
				out = append(out, Tok{"bad", src[i:], line})
				return out
			}
			line += strings.Count(src[i:i+2+j+2], "\n")
			i += 2 + j + 2
		case isLetter(c):
			j := i
			for j < len(src) && (isLetter(src[j]) || isDigit(src[j])) {
				j++
			}
			out = append(out, Tok{"id", src[i:j], line})
			i = j
		case isDigit(c):
			j := i
			for j < len(src) && (isLetter(src[j]) || isDigit(src[j])) {
				j++
			}
			lex := src[i:j]
			kind := "num"
			for k := 0; k < len(lex); k++ {
				if !isDigit(lex[k]) {
					kind = "bad" // 1_abc, 0x10, 1e3 ... : not a decimal literal
				}
			}
			if kind == "num" && len(lex) > 1 && lex[0] == '0' {
				kind = "bad" // octal: never a field number goa means
			}
			out = append(out, Tok{kind, lex, line})
			i = j
		case c == '"':
			j := i + 1
			for j < len(src) && src[j] != '"' && src[j] != '\n' {
				if src[j] == '\\' {
					j++
				}
				j++
			}
			if j >= len(src) || src[j] != '"' {
				out = append(out, Tok{"bad", src[i:min(j, len(src))], line})
				i = j
				continue
			}
			out = append(out, Tok{"str", src[i+1 : j], line})
			i = j + 1
		case strings.IndexByte("={}()<>;,.", c) >= 0:
			out = append(out, Tok{"sym", string(c), line})
			i++
		default:
			out = append(out, Tok{"bad", string(c), line})
			i++
		}
	}
	return out
}

type PField struct {
	Label  string // "" | optional | repeated | map
	Type   string // scalar or message name; map: value type
	Key    string // map key type
	Name   string
	Number *big.Int
	Oneof  string // enclosing oneof name, "" if none
}

type PMessage struct {
	Name   string
	Fields []PField
	Oneofs []string
	Nested []*PMessage
}

type PRPC struct {
	Name                  string
	Req, Resp             string
	ReqStream, RespStream bool
}

type PService struct {
	Name string
	RPCs []PRPC
}

type PFile struct {
	Package  string
	Options  map[string]string
	Imports  []string
	Services []*PService
	Messages []*PMessage
}

type parser struct {
	toks []Tok
	pos  int
}

type parseError struct {
	Class string // short stable class for signatures
	Msg   string
}

func (e *parseError) Error() string { return e.Class + ": " + e.Msg }

func (p *parser) fail(class, format string, args ...any) {
	line := 0
	if p.pos < len(p.toks) {
		line = p.toks[p.pos].Line
	}
	panic(&parseError{class, fmt.Sprintf("line %d: ", line) + fmt.Sprintf(format, args...)})
}

func (p *parser) peek() Tok {
	if p.pos < len(p.toks) {
		return p.toks[p.pos]
	}
	return Tok{Kind: "eof"}
}

func (p *parser) next() Tok { t := p.peek(); p.pos++; return t }

func (p *parser) isSym(s string) bool { t := p.peek(); return t.Kind == "sym" && t.Text == s }
func (p *parser) isID(s string) bool  { t := p.peek(); return t.Kind == "id" && t.Text == s }

func (p *parser) sym(s string) {
	if !p.isSym(s) {
		p.fail("unexpected-token", "expected %q, found %q", s, p.peek().Text)
	}
	p.pos++
}

func (p *parser) kw(s string) {
	if !p.isID(s) {
		p.fail("unexpected-token", "expected %q, found %q", s, p.peek().Text)
	}
	p.pos++
}

func (p *parser) ident(what string) string {
	t := p.peek()
	if t.Kind != "id" {
		p.fail("not-an-identifier", "expected %s identifier, found %q", what, t.Text)
	}
	p.pos++
	return t.Text
}

func (p *parser) fullIdent(what string) string {
	s := p.ident(what)
	for p.isSym(".") {
		p.pos++
		s += "." + p.ident(what)
	}
	return s
}

func (p *parser) str() string {
	t := p.peek()
	if t.Kind != "str" {
		p.fail("unexpected-token", "expected string literal, found %q", t.Text)
	}
	p.pos++
	return t.Text
}

func (p *parser) number() *big.Int {
	t := p.peek()
	if t.Kind != "num" {
		p.fail("bad-field-number", "expected decimal field number, found %q", t.Text)
	}
	p.pos++
	n, _ := new(big.Int).SetString(t.Text, 10)
	return n
}

var scalarTypes = map[string]bool{"double": true, "float": true, "int32": true, "int64": true, "uint32": true,
	"uint64": true, "sint32": true, "sint64": true, "fixed32": true, "fixed64": true, "sfixed32": true,
	"sfixed64": true, "bool": true, "string": true, "bytes": true}

var mapKeyTypes = map[string]bool{"int32": true, "int64": true, "uint32": true, "uint64": true, "sint32": true,
	"sint64": true, "fixed32": true, "fixed64": true, "sfixed32": true, "sfixed64": true, "bool": true, "string": true}

// words that cannot start a type in field position because they start another production
var memberKeywords = map[string]bool{"optional": true, "repeated": true, "map": true, "oneof": true, "message": true,
	"reserved": true, "option": true, "enum": true, "extensions": true, "extend": true, "group": true, "required": true, "stream": true}

func (p *parser) typeName() string {
	t := p.peek()
	if t.Kind != "id" {
		p.fail("not-a-type", "expected a type, found %q", t.Text)
	}
	if memberKeywords[t.Text] {
		p.fail("keyword-as-type", "keyword %q used as a type", t.Text)
	}
	return p.fullIdent("type")
}

func (p *parser) plainField(oneof string) PField {
	typ := p.typeName()
	name := p.ident("field name")
	p.sym("=")
	n := p.number()
	p.sym(";")
	return PField{Type: typ, Name: name, Number: n, Oneof: oneof}
}

func (p *parser) message() *PMessage {
	p.kw("message")
	m := &PMessage{Name: p.ident("message name")}
	p.sym("{")
	for !p.isSym("}") {
		switch {
		case p.peek().Kind == "eof":
			p.fail("unexpected-eof", "message %s is not closed", m.Name)
		case p.isID("message"):
			m.Nested = append(m.Nested, p.message())
		case p.isID("oneof"):
			p.pos++
			on := p.ident("oneof name")
			m.Oneofs = append(m.Oneofs, on)
			p.sym("{")
			cnt := 0
			for !p.isSym("}") {
				if p.peek().Kind == "eof" {
					p.fail("unexpected-eof", "oneof %s is not closed", on)
				}
				if p.isID("optional") || p.isID("repeated") || p.isID("map") {
					p.fail("label-in-oneof", "label %q inside oneof %s", p.peek().Text, on)
				}
				m.Fields = append(m.Fields, p.plainField(on))
				cnt++
			}
			p.sym("}")
			if cnt == 0 {
				p.fail("empty-oneof", "oneof %s has no field", on)
			}
		case p.isID("map"):
			p.pos++
			p.sym("<")
			k := p.typeName()
			p.sym(",")
			v := p.typeName()
			p.sym(">")
			name := p.ident("field name")
			p.sym("=")
			n := p.number()
			p.sym(";")
			m.Fields = append(m.Fields, PField{Label: "map", Key: k, Type: v, Name: name, Number: n})
		case p.isID("optional") || p.isID("repeated"):
			lab := p.next().Text
			if p.isID("map") {
				p.fail("label-on-map", "label %q on a map field", lab)
			}
			f := p.plainField("")
			f.Label = lab
			m.Fields = append(m.Fields, f)
		default:
			m.Fields = append(m.Fields, p.plainField(""))
		}
	}
	p.sym("}")
	return m
}

func (p *parser) service() *PService {
	p.kw("service")
	s := &PService{Name: p.ident("service name")}
	p.sym("{")
	for !p.isSym("}") {
		if p.peek().Kind == "eof" {
			p.fail("unexpected-eof", "service %s is not closed", s.Name)
		}
		p.kw("rpc")
		r := PRPC{Name: p.ident("rpc name")}
		p.sym("(")
		if p.isID("stream") {
			p.pos++
			r.ReqStream = true
		}
		r.Req = p.typeName()
		p.sym(")")
		p.kw("returns")
		p.sym("(")
		if p.isID("stream") {
			p.pos++
			r.RespStream = true
		}
		r.Resp = p.typeName()
		p.sym(")")
		p.sym(";")
		s.RPCs = append(s.RPCs, r)
	}
	p.sym("}")
	return s
}

// ParseProto parses a whole file. Lexical problems and grammar violations are
// returned as *parseError.
func ParseProto(src string) (f *PFile, err error) {
	toks := Tokenize(src)
	for _, t := range toks {
		if t.Kind == "bad" {
			cls := "bad-lexeme"
			if len(t.Text) > 0 && isDigit(t.Text[0]) {
				cls = "bad-number-or-digit-led-identifier"
			}
			return nil, &parseError{cls, fmt.Sprintf("line %d: %q is not a token of proto3", t.Line, t.Text)}
		}
	}
	p := &parser{toks: toks}
	defer func() {
		if r := recover(); r != nil {
			if pe, ok := r.(*parseError); ok {
				f, err = nil, pe
				return
			}
			panic(r)
		}
	}()
	f = &PFile{Options: map[string]string{}}
	p.kw("syntax")
	p.sym("=")
	if v := p.str(); v != "proto3" {
		p.fail("bad-syntax-version", "syntax %q", v)
	}
	p.sym(";")
	p.kw("package")
	f.Package = p.fullIdent("package")
	p.sym(";")
	for p.isID("option") || p.isID("import") {
		if p.next().Text == "option" {
			k := p.ident("option name")
			p.sym("=")
			f.Options[k] = p.str()
		} else {
			f.Imports = append(f.Imports, p.str())
		}
		p.sym(";")
	}
	for p.peek().Kind != "eof" {
		switch {
		case p.isID("service"):
			f.Services = append(f.Services, p.service())
		case p.isID("message"):
			f.Messages = append(f.Messages, p.message())
		default:
			p.fail("unexpected-token", "expected service or message, found %q", p.peek().Text)
		}
	}
	return f, nil
}

func (f *PFile) message(name string) *PMessage {
	for _, m := range f.Messages {
		if m.Name == name {
			return m
		}
	}
	return nil
}
