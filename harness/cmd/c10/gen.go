package main

// Design generators: a fixed covering set, seed-driven random designs inside the
// hypotheses of the _partial theorems (canonical in-range tags, unique per message
// including oneof alternatives; names distinct after snake-casing and not digit-led;
// legal map keys; no alias of a collection), the witness designs of the recorded
// findings, and the hostile-name stream.

import (
	"fmt"
	"strconv"

	"verifharness/vh"
)

var allPrims = []string{"Boolean", "Int", "Int32", "Int64", "UInt", "UInt32", "UInt64", "Float32", "Float64", "String", "Bytes"}
var keyPrims = []string{"String", "Int", "Int32", "Int64", "UInt", "UInt32", "UInt64", "Boolean"}
var metaPrims = []string{"String", "Int", "Int32", "Int64", "UInt", "UInt32", "UInt64", "Boolean", "Float32", "Float64"}

var fieldNames = []string{"id", "name", "user_id", "created_at", "value", "count", "x", "y", "fooBar", "itemCount",
	"a1", "v2_beta", "message", "userID", "HTTPServer", "api_key", "url", "data", "tags", "kind", "is_ok",
	"total_amount", "oauthToken", "string", "map", "Title", "aB", "xml_http", "n", "payload", "result", "key",
	"sha256sum", "ip4", "ABC", "option", "zed_9"}
var methodNames = []string{"get", "list_items", "createItem", "m", "stream_data", "Update", "do_it2", "fetch", "watch", "sum", "echo", "put_all"}
var serviceNames = []string{"svc", "my_svc", "Calc", "dataStore", "items"}
var typeNames = []string{"Item", "Point", "user_rec", "Detail", "Leaf", "Node2", "Pair", "Stats"}
var aliasNames = []string{"Score", "Label", "Counter", "Ratio"}
var boundaryTags = []int{18999, 20000, 536870911, 65535, 1000, 2047, 2048, 16, 15}

func P(p string) *Ty   { return &Ty{K: "prim", P: p} }
func Arr(e *Ty) *Ty    { return &Ty{K: "array", E: e} }
func Map(k, e *Ty) *Ty { return &Ty{K: "map", Key: k, E: e} }
func U(ref string) *Ty { return &Ty{K: "user", Ref: ref} }
func F(tag int, name string, t *Ty) Fld {
	return Fld{Name: name, Tag: strconv.Itoa(tag), T: t}
}
func FS(tag, name string, t *Ty) Fld { return Fld{Name: name, Tag: tag, T: t} }
func Rq(f Fld) Fld                   { f.Req = true; return f }
func ip(i int) *int                  { return &i }

type gen struct {
	r       *vh.RNG
	d       *Design
	objs    []string // object user types declared so far (usable as references)
	aliases []string
	feat    map[string]bool
	unions  map[string]bool
}

func (g *gen) f(s string) { g.feat[s] = true }

// tags draws n distinct valid field numbers.
func (g *gen) tags(n int) []int {
	used := map[int]bool{}
	out := make([]int, 0, n)
	next := 1
	for len(out) < n {
		var t int
		switch {
		case g.r.Chance(1, 12):
			t = vh.Pick(g.r, boundaryTags)
			g.f("boundary-tag")
		case g.r.Chance(1, 6):
			next += 1 + g.r.Intn(5)
			t = next
		default:
			t = next
		}
		if used[t] || t < 1 || (t >= 19000 && t <= 19999) || t > 536870911 {
			next++
			continue
		}
		used[t] = true
		out = append(out, t)
		if t >= next && t < 10000 {
			next = t + 1
		}
	}
	if g.r.Chance(1, 5) { // numbers need not follow declaration order
		for i := len(out) - 1; i > 0; i-- {
			j := g.r.Intn(i + 1)
			out[i], out[j] = out[j], out[i]
		}
		g.f("shuffled-tags")
	}
	return out
}

// names draws n attribute names pairwise distinct after normalisation.
func (g *gen) names(n int) []string {
	used := map[string]bool{}
	var out []string
	for len(out) < n {
		c := vh.Pick(g.r, fieldNames)
		if used[norm(c)] {
			c = fmt.Sprintf("%s_%c", c, 'a'+byte(g.r.Intn(26)))
			if used[norm(c)] {
				continue
			}
		}
		used[norm(c)] = true
		out = append(out, c)
	}
	return out
}

func (g *gen) leaf() *Ty {
	switch k := g.r.Intn(10); {
	case k < 7 || (len(g.objs) == 0 && len(g.aliases) == 0):
		return P(vh.Pick(g.r, allPrims))
	case k < 9 && len(g.objs) > 0:
		g.f("nested-message")
		return U(vh.Pick(g.r, g.objs))
	case len(g.aliases) > 0:
		g.f("alias")
		return U(vh.Pick(g.r, g.aliases))
	}
	return P("String")
}

// nestedLeaf: element of a collection nested in a collection. Such collections are
// wrapped in messages goa names after the proto type (ArrayOfSint32 ...): Int/Int32
// and UInt/UInt32 would share a wrapper name (recorded finding), so only one of each
// pair, and no alias, is drawn here.
var nestedPrims = []string{"Boolean", "Int", "Int64", "UInt", "UInt64", "Float32", "Float64", "String", "Bytes"}

func (g *gen) nestedLeaf() *Ty {
	if len(g.objs) > 0 && g.r.Chance(1, 4) {
		g.f("nested-message")
		return U(vh.Pick(g.r, g.objs))
	}
	return P(vh.Pick(g.r, nestedPrims))
}

func (g *gen) ty(depth int) *Ty {
	switch k := g.r.Intn(12); {
	case k < 7 || depth >= 2:
		if depth >= 2 {
			return g.nestedLeaf()
		}
		return g.leaf()
	case k < 10:
		g.f("array")
		if depth > 0 {
			g.f("nested-collection")
		}
		return Arr(g.ty(depth + 1))
	default:
		g.f("map")
		if depth > 0 {
			g.f("nested-collection")
		}
		if depth > 0 {
			return Map(P(vh.Pick(g.r, nestedKeyPrims)), g.ty(depth+1))
		}
		return Map(P(vh.Pick(g.r, keyPrims)), g.ty(depth+1))
	}
}

var nestedKeyPrims = []string{"String", "Int", "Int64", "UInt", "UInt64", "Boolean"}

// members draws the members of an object: fields and, sometimes, a oneof.
func (g *gen) members(max int, allowUnion bool) []Fld {
	n := 1 + g.r.Intn(max)
	withUnion := allowUnion && g.r.Chance(1, 4)
	nalt := 0
	if withUnion {
		nalt = 1 + g.r.Intn(3)
	}
	names := g.names(n + nalt + 1)
	tags := g.tags(n + nalt)
	var fs []Fld
	for i := 0; i < n; i++ {
		f := F(tags[i], names[i], g.ty(0))
		f.Req = g.r.Chance(1, 3)
		if f.Req {
			g.f("required")
		}
		fs = append(fs, f)
	}
	if withUnion {
		g.f("oneof")
		// (two unions of one design with the same name and an equally named primitive
		// alternative share goa's wrapper type name: recorded finding; names kept apart here)
		if g.unions == nil {
			g.unions = map[string]bool{}
		}
		un := names[n+nalt]
		if g.unions[norm(un)] {
			un = fmt.Sprintf("%s_u%d", un, len(g.unions))
		}
		g.unions[norm(un)] = true
		u := Fld{Name: un, Alts: []Fld{}}
		for i := 0; i < nalt; i++ {
			u.Alts = append(u.Alts, F(tags[n+i], names[n+i], g.leaf()))
		}
		pos := g.r.Intn(len(fs) + 1)
		fs = append(fs[:pos], append([]Fld{u}, fs[pos:]...)...)
	}
	return fs
}

func (g *gen) types() {
	na := g.r.Intn(3)
	for i := 0; i < na; i++ {
		p := vh.Pick(g.r, allPrims)
		ut := UT{Name: aliasNames[i], Alias: P(p)}
		if p == "String" && g.r.Bool() {
			ut.V = &Val{MinLen: ip(1), MaxLen: ip(8)}
		}
		if (p == "Int" || p == "Int32" || p == "Int64") && g.r.Bool() {
			ut.V = &Val{Min: ip(-5), Max: ip(100)}
		}
		g.d.Types = append(g.d.Types, ut)
		g.aliases = append(g.aliases, ut.Name)
	}
	no := g.r.Intn(4)
	off := g.r.Intn(len(typeNames))
	for i := 0; i < no; i++ {
		ut := UT{Name: typeNames[(off+i)%len(typeNames)]}
		ut.Fields = g.members(4, true)
		g.d.Types = append(g.d.Types, ut)
		g.objs = append(g.objs, ut.Name)
	}
}

func (g *gen) io(allowColl bool) *IO {
	switch k := g.r.Intn(20); {
	case k < 11:
		return &IO{Fields: g.members(5, true)}
	case k < 14 && len(g.objs) > 0:
		g.f("user-type-io")
		return &IO{T: U(vh.Pick(g.r, g.objs))}
	case k < 16:
		g.f("primitive-io")
		return &IO{T: P(vh.Pick(g.r, allPrims))}
	case k < 17 && len(g.aliases) > 0:
		g.f("alias-io")
		return &IO{T: U(vh.Pick(g.r, g.aliases))}
	case k < 19 && allowColl:
		g.f("collection-io")
		if g.r.Bool() {
			return &IO{T: Arr(g.ty(1))}
		}
		return &IO{T: Map(P(vh.Pick(g.r, keyPrims)), g.ty(1))}
	}
	return &IO{Fields: g.members(3, false)}
}

// primFields lists the top-level attributes of an IO that may travel as metadata.
func (g *gen) primFields(io *IO) []string {
	if io == nil {
		return nil
	}
	fs := io.Fields
	if io.T != nil {
		if io.T.K != "user" {
			return nil
		}
		ut := g.d.ut(io.T.Ref)
		if ut == nil || ut.Alias != nil {
			return nil
		}
		fs = ut.Fields
	}
	var out []string
	for _, f := range fs {
		if f.Alts == nil && f.Sec == "" && f.T.K == "prim" && f.T.P != "Bytes" {
			out = append(out, f.Name)
		}
	}
	return out
}

// objFields gives the attributes of an object IO (inline or user type), nil otherwise.
func (g *gen) objFields(io *IO) []Fld {
	if io == nil {
		return nil
	}
	if io.T == nil {
		return io.Fields
	}
	if io.T.K == "user" {
		if ut := g.d.ut(io.T.Ref); ut != nil && ut.Alias == nil {
			return ut.Fields
		}
	}
	return nil
}

// explicitMessage draws an explicit Message(...) listing: some attributes that are not
// mapped elsewhere, in any order, some with attribute-level DSL.
func (g *gen) explicitMessage(io *IO, taken ...[]string) []MsgAttr {
	skip := map[string]bool{}
	for _, t := range taken {
		for _, n := range t {
			skip[n] = true
		}
	}
	var out []MsgAttr
	for _, f := range g.objFields(io) {
		if f.Alts != nil || f.Sec != "" || skip[f.Name] || g.r.Bool() {
			continue
		}
		a := MsgAttr{Name: f.Name, Meta: g.r.Bool(), Desc: g.r.Chance(1, 3)}
		a.MaxLen = f.T.K == "prim" && f.T.P == "String" && f.V == nil && g.r.Chance(1, 3)
		out = append(out, a)
	}
	for i := len(out) - 1; i > 0; i-- {
		j := g.r.Intn(i + 1)
		out[i], out[j] = out[j], out[i]
	}
	return out
}

func (g *gen) subset(xs []string, num, den int) (in, rest []string) {
	for _, x := range xs {
		if g.r.Chance(num, den) {
			in = append(in, x)
		} else {
			rest = append(rest, x)
		}
	}
	return
}

func (g *gen) method(name string) Meth {
	m := Meth{Name: name}
	kind := 1
	if g.r.Chance(2, 5) {
		kind = 2 + g.r.Intn(3)
	}
	g.f([]string{"", "unary", "client-stream", "server-stream", "bidi-stream"}[kind])
	// payload
	if kind == 2 || kind == 4 {
		m.SPayload = g.io(true)
		if g.r.Chance(1, 3) { // a payload next to a streaming payload travels as metadata
			g.f("payload-with-streaming-payload")
			if g.r.Bool() {
				m.Payload = &IO{T: P(vh.Pick(g.r, []string{"String", "Int", "Boolean"}))}
			} else {
				ns := g.names(2)
				m.Payload = &IO{Fields: []Fld{F(1, ns[0], P("String")), F(2, ns[1], P(vh.Pick(g.r, metaPrims)))}}
			}
		}
	} else if g.r.Chance(7, 8) {
		m.Payload = g.io(true)
		if m.Payload.T == nil && g.r.Chance(1, 4) {
			m.Security = vh.Pick(g.r, secKinds)
			m.Payload.Fields = requireSec(insertSec(m.Payload.Fields, m.Security, g.r.Intn(len(m.Payload.Fields)+1), g.r.Bool(), 900+g.r.Intn(50)), g.r.Bool)
			g.f("security-" + m.Security)
		}
		if ps := g.primFields(m.Payload); len(ps) > 0 && g.r.Chance(1, 3) {
			m.Metadata, _ = g.subset(ps, 1, 2)
			if len(m.Metadata) > 0 {
				g.f("metadata")
			}
		}
		if g.r.Chance(1, 4) {
			if m.ReqMsg = g.explicitMessage(m.Payload, m.Metadata); len(m.ReqMsg) > 0 {
				g.f("explicit-request-message")
			}
		}
	} else {
		g.f("empty-payload")
	}
	// result
	if kind == 3 || kind == 4 {
		m.SResult = g.io(true)
	} else if g.r.Chance(7, 8) {
		m.Result = g.io(true)
		if ps := g.primFields(m.Result); len(ps) > 0 && g.r.Chance(1, 3) {
			hs, rest := g.subset(ps, 1, 2)
			m.Headers = hs
			if g.r.Bool() {
				m.Trailers, _ = g.subset(rest, 1, 2)
			}
			if len(m.Headers) > 0 {
				g.f("headers")
			}
			if len(m.Trailers) > 0 {
				g.f("trailers")
			}
		}
		if g.r.Chance(1, 4) {
			if m.RespMsg = g.explicitMessage(m.Result, m.Headers, m.Trailers); len(m.RespMsg) > 0 {
				g.f("explicit-response-message")
			}
		}
	} else {
		g.f("empty-result")
	}
	if g.r.Bool() { // the parts of a Method DSL may be declared in any order
		m.Order = append([]string{}, canonicalOrder...)
		for i := len(m.Order) - 1; i > 0; i-- {
			j := g.r.Intn(i + 1)
			m.Order[i], m.Order[j] = m.Order[j], m.Order[i]
		}
		g.f("shuffled-declaration-order")
	}
	return m
}

// Random draws one design inside the partial hypotheses.
func Random(r *vh.RNG) *Design {
	g := &gen{r: r, d: &Design{}, feat: map[string]bool{}}
	g.types()
	ns := 1
	if r.Chance(1, 5) {
		ns = 2
		g.f("two-services")
	}
	sn := serviceNames[r.Intn(len(serviceNames))]
	for s := 0; s < ns; s++ {
		svc := Svc{Name: sn}
		if s == 1 {
			svc.Name = serviceNames[(indexOf(serviceNames, sn)+1)%len(serviceNames)]
		}
		nm := 1 + r.Intn(4)
		off := r.Intn(len(methodNames))
		for i := 0; i < nm; i++ {
			svc.Methods = append(svc.Methods, g.method(methodNames[(off+i)%len(methodNames)]))
		}
		g.d.Svcs = append(g.d.Svcs, svc)
	}
	g.d.Features = vh.SortedKeys(g.feat)
	return g.d
}

func indexOf(xs []string, x string) int {
	for i, y := range xs {
		if y == x {
			return i
		}
	}
	return 0
}

func one(name string, m Meth, types ...UT) *Design {
	m.Name = "m"
	return &Design{Types: types, Svcs: []Svc{{Name: "svc", Methods: []Meth{m}}}, Features: []string{name}}
}

// Covering is the fixed, seed-independent set met by every run.
func Covering() []*Design {
	var out []*Design
	item := UT{Name: "Item", Fields: []Fld{Rq(F(1, "id", P("UInt64"))), F(2, "name", P("String")), F(3, "tags", Arr(P("String")))}}
	score := UT{Name: "Score", Alias: P("Int32"), V: &Val{Min: ip(0), Max: ip(10)}}
	// every primitive, required and optional, as field, array element, map value
	var fs, fr, fa, fm []Fld
	for i, p := range allPrims {
		fs = append(fs, F(i+1, "f_"+string(rune('a'+i)), P(p)))
		fr = append(fr, Rq(F(i+1, "f_"+string(rune('a'+i)), P(p))))
		fa = append(fa, F(i+1, "f_"+string(rune('a'+i)), Arr(P(p))))
		fm = append(fm, F(i+1, "f_"+string(rune('a'+i)), Map(P(keyPrims[i%len(keyPrims)]), P(p))))
	}
	out = append(out, one("cover:optional-primitives", Meth{Payload: &IO{Fields: fs}, Result: &IO{Fields: fs}}))
	out = append(out, one("cover:required-primitives", Meth{Payload: &IO{Fields: fr}, Result: &IO{Fields: fr}}))
	out = append(out, one("cover:arrays", Meth{Payload: &IO{Fields: fa}, Result: &IO{Fields: fa}}))
	out = append(out, one("cover:maps", Meth{Payload: &IO{Fields: fm}, Result: &IO{Fields: fm}}))
	// primitive / collection / alias / user-type payloads and results
	for _, p := range allPrims {
		out = append(out, one("cover:primitive-io", Meth{Payload: &IO{T: P(p)}, Result: &IO{T: Arr(P(p))}}))
	}
	out = append(out, one("cover:alias-io", Meth{Payload: &IO{T: U("Score")}, Result: &IO{T: U("Item")}}, item, score))
	out = append(out, one("cover:map-io", Meth{Payload: &IO{T: Map(P("String"), U("Item"))}, Result: &IO{T: Map(P("Int"), Arr(P("Int")))}}, item))
	out = append(out, one("cover:nested-collections", Meth{Payload: &IO{Fields: []Fld{
		F(1, "aa", Arr(Arr(P("Int")))), F(2, "am", Arr(Map(P("String"), P("Int")))), F(3, "ma", Map(P("Int"), Arr(P("String")))),
		F(4, "mm", Map(P("String"), Map(P("String"), U("Item")))), F(5, "aaa", Arr(Arr(Arr(P("Boolean"))))), F(6, "ai", Arr(U("Item"))), F(7, "as", Arr(U("Score")))}}}, item, score))
	// oneof
	out = append(out, one("cover:oneof", Meth{Payload: &IO{Fields: []Fld{F(1, "id", P("Int")),
		{Name: "choice", Alts: []Fld{F(2, "s", P("String")), F(3, "it", U("Item")), F(4, "sc", U("Score")), F(5, "b", P("Bytes"))}}, F(6, "last", P("Boolean"))}},
		Result: &IO{Fields: []Fld{{Name: "only", Alts: []Fld{F(1, "a", P("Int"))}}}}}, item, score))
	// streaming kinds x payload shapes
	obj := &IO{Fields: []Fld{F(1, "a", P("Int")), F(2, "b", P("String"))}}
	for _, sp := range []*IO{obj, {T: P("Int")}, {T: U("Item")}, {T: Arr(P("String"))}} {
		out = append(out, one("cover:client-stream", Meth{SPayload: sp, Result: obj}, item))
		out = append(out, one("cover:server-stream", Meth{Payload: obj, SResult: sp}, item))
		out = append(out, one("cover:bidi-stream", Meth{SPayload: sp, SResult: sp}, item))
		out = append(out, one("cover:bidi-with-payload", Meth{Payload: &IO{T: P("String")}, SPayload: sp, SResult: obj}, item))
	}
	out = append(out, one("cover:empty", Meth{}))
	// metadata, headers, trailers
	pl := &IO{Fields: []Fld{Rq(F(1, "key", P("String"))), F(2, "limit", P("Int")), F(3, "body_part", P("Bytes")), F(4, "flag", P("Boolean"))}}
	out = append(out, one("cover:metadata", Meth{Payload: pl, Metadata: []string{"key", "limit"}, Result: pl, Headers: []string{"key"}, Trailers: []string{"flag"}}))
	out = append(out, one("cover:metadata-all", Meth{Payload: obj, Metadata: []string{"a", "b"}, Result: obj, Headers: []string{"a"}, Trailers: []string{"b"}}))
	out = append(out, one("cover:metadata-user-type", Meth{Payload: &IO{T: U("Item")}, Metadata: []string{"name"}, Result: &IO{T: U("Item")}, Headers: []string{"id"}}, item))
	// security schemes: credentials first / in the middle / last, declared with and without a field number
	for ki, kind := range secKinds {
		for pos := 0; pos <= 2; pos++ {
			fs := []Fld{Rq(F(1, "aa", P("Int"))), F(2, "bb", P("String"))}
			out = append(out, one("cover:security", Meth{Security: kind, Payload: &IO{Fields: insertSec(fs, kind, pos, (ki+pos)%2 == 0, 5)}, Result: obj}))
			out = append(out, one("cover:security-required", Meth{Security: kind, Payload: &IO{Fields: requireSec(insertSec(fs, kind, pos, (ki+pos)%2 == 1, 5), func() bool { return true })}, Result: obj}))
		}
	}
	out = append(out, one("cover:security-user-type", Meth{Security: "jwt", Payload: &IO{T: U("Cred")}, Result: obj},
		UT{Name: "Cred", Fields: insertSec([]Fld{F(1, "aa", P("Int")), F(2, "bb", P("String"))}, "jwt", 1, false, 0)}))
	out = append(out, one("cover:security-with-metadata", Meth{Security: "apikey", Payload: &IO{Fields: insertSec([]Fld{F(1, "aa", P("Int")), F(2, "bb", P("String"))}, "apikey", 0, true, 9)},
		Metadata: []string{"bb"}, Result: obj}))
	// explicit Message(...) on the request and on the response side: a subset / all of the
	// attributes, reordered, with and without attribute-level DSL
	pm := &IO{Fields: []Fld{Rq(F(4, "key", P("String"))), F(7, "limit", P("Int")), F(2, "body_part", P("Bytes")), F(9, "flag", P("Boolean")), F(5, "it", U("Item"))}}
	for _, ms := range [][]MsgAttr{
		{{Name: "limit"}},
		{{Name: "flag", Meta: true}, {Name: "key", Meta: true, Desc: true, MaxLen: true}},
		{{Name: "it", Desc: true}, {Name: "body_part", Meta: true}, {Name: "key"}, {Name: "limit", Meta: true}, {Name: "flag", Desc: true}},
	} {
		out = append(out, one("cover:explicit-message", Meth{Payload: pm, ReqMsg: ms, Result: pm, RespMsg: ms}, item))
		out = append(out, one("cover:explicit-message-user-type", Meth{Payload: &IO{T: U("Pm")}, ReqMsg: ms, Result: &IO{T: U("Pm")}, RespMsg: ms}, item, UT{Name: "Pm", Fields: pm.Fields}))
	}
	out = append(out, one("cover:explicit-message-with-metadata", Meth{Payload: pm, ReqMsg: []MsgAttr{{Name: "flag", Meta: true}, {Name: "limit", Desc: true}}, Metadata: []string{"key"},
		Result: pm, RespMsg: []MsgAttr{{Name: "it", Meta: true}}, Headers: []string{"key"}, Trailers: []string{"limit"}}, item))
	// required and optional attributes through metadata, headers, trailers
	rq := &IO{Fields: []Fld{Rq(F(1, "ra", P("String"))), F(2, "ob", P("String")), Rq(F(3, "rc", P("Int"))), F(4, "od", P("Boolean")), Rq(F(5, "re", P("Float64"))), F(6, "keep", P("Int"))}}
	out = append(out, one("cover:required-metadata", Meth{Payload: rq, Metadata: []string{"ra", "ob", "rc", "od"}, Result: rq, Headers: []string{"ra", "ob"}, Trailers: []string{"rc", "od", "re"}}))
	// every declaration order of the parts of a Method DSL, for the four streaming kinds
	// (object payloads with required attributes: with a streaming payload they all travel
	// as request metadata)
	rp := &IO{Fields: []Fld{Rq(F(1, "ra", P("String"))), F(2, "ob", P("Int")), Rq(F(3, "rc", P("Boolean")))}}
	for _, k := range []struct {
		m     Meth
		parts []string
	}{
		{Meth{Payload: rp, Result: obj}, []string{"payload", "result", "grpc"}},
		{Meth{Payload: rp, SPayload: obj, Result: obj}, []string{"payload", "streaming_payload", "result", "grpc"}},
		{Meth{SPayload: obj, Result: obj}, []string{"streaming_payload", "result"}},
		{Meth{Payload: rp, SResult: obj}, []string{"payload", "streaming_result", "grpc"}},
		{Meth{Payload: rp, SPayload: obj, SResult: obj}, []string{"payload", "streaming_payload", "streaming_result", "grpc"}},
		{Meth{SPayload: obj, SResult: obj}, []string{"streaming_payload", "streaming_result"}},
	} {
		for _, perm := range permutations(k.parts) {
			m := k.m
			m.Order = perm
			out = append(out, one("cover:declaration-order", m))
		}
	}
	// boundary tags and names
	out = append(out, one("cover:boundary-tags", Meth{Payload: &IO{Fields: []Fld{F(536870911, "max", P("Int")), F(18999, "below", P("Int")),
		F(20000, "above", P("Int")), F(1, "one", P("Int"))}}}))
	out = append(out, one("cover:names", Meth{Payload: &IO{Fields: []Fld{F(1, "fooBar", P("Int")), F(2, "userID", P("Int")), F(3, "HTTPServer", P("Int")),
		F(4, "message", P("Int")), F(5, "a1b", P("Int")), F(6, "api_key", P("Int")), F(7, "aB", P("Int")), F(8, "oauthToken", P("Int")), F(9, "OAuthGrant", P("Int")),
		F(10, "sint32", P("Int")), F(11, "utf8", P("Int")), F(12, "x__y", P("Int")), F(13, "Title", P("Int")), F(14, "zed_", P("Int"))}}}))
	// several methods sharing types, two services
	d := &Design{Types: []UT{item, score}, Features: []string{"cover:shared-types"}, Svcs: []Svc{
		{Name: "my_svc", Methods: []Meth{{Name: "get_item", Payload: &IO{Fields: []Fld{F(1, "it", U("Item"))}}, Result: &IO{T: U("Item")}},
			{Name: "list", Result: &IO{Fields: []Fld{F(1, "items", Arr(U("Item"))), F(2, "sc", U("Score"))}}},
			{Name: "watchAll", Payload: &IO{Fields: []Fld{F(2, "it", U("Item"))}}, SResult: &IO{T: U("Item")}}}},
		{Name: "Calc", Methods: []Meth{{Name: "sum", SPayload: &IO{T: P("Int")}, Result: &IO{T: P("Int64")}}}}}}
	out = append(out, d)
	return out
}

// Witness designs: one per recorded finding; each must keep failing with exactly
// the listed signatures (all of them recorded).
type Witness struct {
	Name   string
	D      *Design
	Expect []string // signatures that must be reported
	Panics bool     // rendering must panic (nonnumeric tag)
}

// witnessesOutsideModel: the defect lies before the attribute tree the model is given
// (goa's DSL resolved a type wrongly): no model case
var witnessesOutsideModel = map[string]bool{"union-name-collision": true}

func Witnesses() []Witness {
	pay := func(fs ...Fld) Meth { return Meth{Payload: &IO{Fields: fs}} }
	return []Witness{
		{"snake-names", one("witness:snake-names", pay(F(1, "fooBar", P("Int")), F(2, "foo_bar", P("Int")))), []string{"dup-field-name-after-snake-case"}, false},
		{"digit-led-name", one("witness:digit-led-name", pay(F(1, "1abc", P("Int")))), []string{"field-name-not-identifier"}, false},
		{"wrapper-name-collision", one("witness:wrapper-name-collision", pay(F(1, "a", Arr(Arr(P("UInt")))), F(2, "b", Arr(Arr(P("UInt32")))))),
			[]string{"generator-panic/wrapper-name-collision"}, true},
		{"attribute-named-field", one("witness:attribute-named-field", Meth{Result: &IO{Fields: []Fld{{Name: "choice", Alts: []Fld{F(3, "id", U("Point"))}}}}},
			UT{Name: "Point", Fields: []Fld{F(3, "field", P("String"))}}), []string{"generator-panic/attribute-named-field"}, true},
		{"union-name-collision", one("witness:union-name-collision", Meth{Result: &IO{Fields: []Fld{F(4, "value", U("Pair")),
			{Name: "n", Alts: []Fld{F(7, "zed", P("Boolean"))}}}}}, UT{Name: "Pair", Fields: []Fld{{Name: "n", Alts: []Fld{F(6, "zed", P("UInt"))}}}}),
			[]string{"oneof-alternative-type-name-collision"}, false},
		{"alias-of-collection", one("witness:alias-of-collection", Meth{Payload: &IO{Fields: []Fld{F(1, "ints", U("Ints"))}}}, UT{Name: "Ints", Alias: Arr(P("Int"))}),
			[]string{"usertype-alias-of-collection-malformed"}, false},
	}
}

var secKinds = []string{"basic", "apikey", "jwt", "oauth2"}

// secAttrs gives the credential attributes a scheme kind needs.
func secAttrs(kind string, tagged bool, tag int) []Fld {
	mk := func(sec, name string, t int) Fld {
		f := Fld{Name: name, Sec: sec, T: P("String"), Tag: strconv.Itoa(t)}
		if !tagged {
			f.Tag, f.NoTag = "", true
		}
		return f
	}
	switch kind {
	case "basic":
		return []Fld{mk("username", "sec_user", tag), mk("password", "sec_pass", tag+1)}
	case "apikey":
		return []Fld{mk("apikey", "sec_key", tag)}
	case "jwt":
		return []Fld{mk("token", "sec_tok", tag)}
	}
	return []Fld{mk("accesstoken", "sec_acc", tag)}
}

// requireSec marks the credential attributes required where pick says so.
func requireSec(fs []Fld, pick func() bool) []Fld {
	for i := range fs {
		if fs[i].Sec != "" && pick() {
			fs[i].Req = true
		}
	}
	return fs
}

// permutations of the given parts
func permutations(xs []string) [][]string {
	if len(xs) <= 1 {
		return [][]string{append([]string{}, xs...)}
	}
	var out [][]string
	for i := range xs {
		rest := append(append([]string{}, xs[:i]...), xs[i+1:]...)
		for _, p := range permutations(rest) {
			out = append(out, append([]string{xs[i]}, p...))
		}
	}
	return out
}

// insertSec puts the credential attributes of the scheme at position pos.
func insertSec(fs []Fld, kind string, pos int, tagged bool, tag int) []Fld {
	out := append([]Fld{}, fs[:pos]...)
	out = append(out, secAttrs(kind, tagged, tag)...)
	return append(out, fs[pos:]...)
}

// rejectModel: the members of the defective message of a must-reject design, for the
// model of goa's validation (nil: no model case).
var rejectModel = map[string][]Fld{}

// MustReject: designs whose tags goa's validation has to refuse (the only scope it
// validates: an unmapped top-level payload / result). If one is accepted the oracle
// runs on what is emitted for it.
func MustReject() []Witness {
	pay := func(fs ...Fld) Meth { return Meth{Payload: &IO{Fields: fs}} }
	res := func(fs ...Fld) Meth { return Meth{Result: &IO{Fields: fs}} }
	var sec []Witness
	for _, kind := range secKinds {
		for pos := 0; pos <= 3; pos++ {
			for defect := 0; defect < 6; defect++ {
				fs := []Fld{F(1, "aa", P("Int")), F(2, "bb", P("String")), F(3, "cc", P("Int"))}
				switch defect {
				case 0:
					fs[1].Tag = "1" // aa / bb
				case 1:
					fs[2].Tag = "2" // bb / cc
				case 2:
					fs[2].Tag = "1" // aa / cc
				default:
					fs[defect-3].Tag, fs[defect-3].NoTag = "", true
				}
				name := fmt.Sprintf("security-%s-at-%d-defect-%d", kind, pos, defect)
				sec = append(sec, Witness{Name: name, D: one("reject:"+name, Meth{Security: kind,
					Payload: &IO{Fields: insertSec(fs, kind, pos, defect%2 == 0, 7)}})})
			}
		}
	}
	// the designs of the repaired findings (field numbers validated as numbers, in every
	// scope, union alternatives included; protobuf map key types): goa has to refuse them
	// in the payload, the result, the streaming payload, a user type and next to a mapping
	rej := func(name string, defect []Fld, types ...UT) {
		rejectModel[name] = defect
		plain := []Fld{F(41, "pa", P("String")), F(42, "pb", P("Int"))}
		t := UT{Name: "Carrier", Fields: defect}
		for _, v := range []struct {
			scope string
			m     Meth
			ts    []UT
		}{
			{"payload", Meth{Payload: &IO{Fields: defect}}, nil},
			{"result", Meth{Result: &IO{Fields: defect}}, nil},
			{"streaming-payload", Meth{SPayload: &IO{Fields: defect}, Result: &IO{Fields: plain}}, nil},
			{"streaming-result", Meth{Payload: &IO{Fields: plain}, SResult: &IO{Fields: defect}}, nil},
			{"user-type", Meth{Payload: &IO{Fields: []Fld{F(1, "carrier", U("Carrier"))}}}, []UT{t}},
			{"user-type-in-array-in-result", Meth{Result: &IO{Fields: []Fld{F(1, "carriers", Arr(U("Carrier")))}}}, []UT{t}},
			{"next-to-metadata", Meth{Payload: &IO{Fields: append(append([]Fld{}, defect...), plain...)}, Metadata: []string{"pa"}}, nil},
			{"next-to-headers", Meth{Result: &IO{Fields: append(append([]Fld{}, defect...), plain...)}, Headers: []string{"pa"}}, nil},
			{"next-to-explicit-message", Meth{Payload: &IO{Fields: append(append([]Fld{}, defect...), plain...)}, ReqMsg: []MsgAttr{{Name: "pb", Meta: true}}}, nil},
		} {
			n := name + "-in-" + v.scope
			rejectModel[n] = defect
			sec = append(sec, Witness{Name: n, D: one("reject:"+n, v.m, append(v.ts, types...)...)})
		}
	}
	rej("number-zero", []Fld{F(0, "x", P("Int"))})
	rej("number-noncanonical-duplicate", []Fld{F(1, "x", P("Int")), FS("01", "y", P("Int"))})
	rej("number-of-oneof-sibling", []Fld{F(1, "x", P("Int")), {Name: "u", Alts: []Fld{F(1, "a", P("String")), F(2, "b", P("Int"))}}})
	rej("number-in-oneof-twice", []Fld{{Name: "u", Alts: []Fld{F(3, "a", P("String")), F(3, "b", P("Int"))}}})
	rej("number-reserved-19000", []Fld{F(19000, "x", P("Int"))})
	rej("number-reserved-19999", []Fld{F(7, "w", P("Int")), F(19999, "x", P("Int"))})
	rej("number-above-max", []Fld{F(536870912, "x", P("Int"))})
	rej("number-not-a-number", []Fld{FS("abc", "x", P("Int"))})
	rej("number-negative", []Fld{FS("-1", "x", P("Int"))})
	rej("number-missing", []Fld{F(2, "y", P("Int")), {Name: "x", NoTag: true, T: P("Int")}})
	rej("number-twice", []Fld{F(2, "y", P("Int")), F(5, "w", P("String")), F(2, "z", P("Int"))})
	rej("oneof-alternative-untagged", []Fld{{Name: "u", Alts: []Fld{{Name: "a", NoTag: true, T: P("String")}}}})
	rej("map-key-float", []Fld{F(1, "mf", Map(P("Float64"), P("String")))})
	rej("map-key-bytes", []Fld{F(1, "mb", Map(P("Bytes"), P("String")))})
	rej("map-key-message", []Fld{F(1, "mt", Map(U("T2"), P("String")))}, UT{Name: "T2", Fields: []Fld{F(1, "x", P("Int"))}})
	return append(sec, []Witness{
		{Name: "dup-tag-payload", D: one("reject:dup-tag-payload", pay(F(1, "x", P("Int")), F(2, "y", P("String")), F(2, "z", P("Int"))))},
		{Name: "dup-tag-result", D: one("reject:dup-tag-result", res(F(7, "x", P("Int")), F(7, "z", P("Int"))))},
		{Name: "untagged-payload", D: one("reject:untagged-payload", pay(F(1, "x", P("Int")), Fld{Name: "w", NoTag: true, T: P("Int")}))},
		{Name: "untagged-result", D: one("reject:untagged-result", res(Fld{Name: "w", NoTag: true, T: P("Int")}))},
		{Name: "dup-tag-user-type-payload", D: one("reject:dup-tag-user-type-payload", Meth{Payload: &IO{T: U("T")}},
			UT{Name: "T", Fields: []Fld{F(3, "a", P("Int")), F(3, "b", P("Int"))}})},
	}...)
}

// hostile names: letters in both cases, digits (never leading), separators goa's
// CamelCase drops, the OAuth exception, initialisms and proto keywords.
var nameAtoms = []string{"a", "b", "Z", "foo", "Bar", "ID", "id", "Id", "URL", "url", "HTTP", "http", "OAuth", "oauth", "API", "Json", "UUID",
	"utf8", "UTF8", "x", "Y", "q9", "7", "42", "_", "__", "-", ".", " ", "$", "_x", "message", "string", "Map", "oneof", "int32", "rpc", "Vm", "OK"}

func hostileName(r *vh.RNG) string {
	for {
		n := 1 + r.Intn(4)
		s := ""
		for i := 0; i < n; i++ {
			s += vh.Pick(r, nameAtoms)
		}
		if r.Chance(1, 12) {
			s += ":wire"
		}
		// keep outside the recorded digit-led class and away from names goa's DSL refuses
		i := 0
		for i < len(s) && !(isLetter(s[i]) && s[i] != '_' || isDigit(s[i])) {
			i++
		}
		if i == len(s) || isDigit(s[i]) || s[0] == ':' {
			continue
		}
		return s
	}
}

// NameDesign carries two hostile attribute names (payload and result), alone in
// their messages so that no clash can arise.
func NameDesign(r *vh.RNG) (*Design, [2]string) {
	a, b := hostileName(r), hostileName(r)
	return one("names", Meth{Payload: &IO{Fields: []Fld{F(1, a, P("Int"))}}, Result: &IO{Fields: []Fld{F(1, b, P("String"))}}}), [2]string{a, b}
}
