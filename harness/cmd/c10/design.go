package main

// gRPC design descriptions (plain data), the interpreter that builds them through
// goa's real public DSL, and the direct calls to goa's gRPC generators (the protoc
// finaliser is never run: protoc is absent in this sandbox).

import (
	"bytes"
	"encoding/json"
	"fmt"
	"runtime/debug"
	"strconv"

	"goa.design/goa/v3/codegen"
	dsl "goa.design/goa/v3/dsl"
	"goa.design/goa/v3/eval"
	"goa.design/goa/v3/expr"
	grpccodegen "goa.design/goa/v3/grpc/codegen"

	"verifharness/designgen"
)

// Ty is a data type: prim | array | map | user (reference to a named type of the pool).
type Ty struct {
	K   string `json:"k"`
	P   string `json:"p,omitempty"` // Boolean Int Int32 Int64 UInt UInt32 UInt64 Float32 Float64 String Bytes
	E   *Ty    `json:"e,omitempty"`
	Key *Ty    `json:"key,omitempty"`
	Ref string `json:"ref,omitempty"`
}

// Val holds the validations the value tier straddles.
type Val struct {
	Min    *int `json:"min,omitempty"`
	Max    *int `json:"max,omitempty"`
	MinLen *int `json:"min_len,omitempty"`
	MaxLen *int `json:"max_len,omitempty"`
}

// Fld is one attribute of an object, or a OneOf union (Alts != nil).
type Fld struct {
	Name string `json:"name"`
	// Tag is the first argument of Field; NoTag means the attribute is declared with
	// Attribute (no rpc:tag). A tag made of digits without a leading zero is passed
	// to the DSL as an int, anything else as a string.
	Tag   string `json:"tag,omitempty"`
	NoTag bool   `json:"no_tag,omitempty"`
	T     *Ty    `json:"t,omitempty"`
	Req   bool   `json:"req,omitempty"`
	V     *Val   `json:"v,omitempty"`
	Alts  []Fld  `json:"alts,omitempty"`
	// Sec declares the attribute with a security DSL function: username | password |
	// apikey | token | accesstoken (Username / UsernameField ... depending on NoTag).
	Sec string `json:"sec,omitempty"`
}

// UT is a named type: an object (Fields) or an alias of another type (Alias).
type UT struct {
	Name   string `json:"name"`
	Alias  *Ty    `json:"alias,omitempty"`
	V      *Val   `json:"v,omitempty"`
	Fields []Fld  `json:"fields,omitempty"`
}

// IO is a payload / result: inline object (Fields) or a type.
type IO struct {
	Fields []Fld `json:"fields,omitempty"`
	T      *Ty   `json:"t,omitempty"`
}

type Meth struct {
	Name     string   `json:"name"`
	Payload  *IO      `json:"payload,omitempty"`
	SPayload *IO      `json:"streaming_payload,omitempty"`
	Result   *IO      `json:"result,omitempty"`
	SResult  *IO      `json:"streaming_result,omitempty"`
	Metadata []string `json:"metadata,omitempty"`
	Headers  []string `json:"headers,omitempty"`
	Trailers []string `json:"trailers,omitempty"`
	// ReqMsg / RespMsg: explicit Message(func(){ Attribute(...) }) on the request /
	// response side: the listed attributes come first in the message, in this order.
	ReqMsg  []MsgAttr `json:"request_message,omitempty"`
	RespMsg []MsgAttr `json:"response_message,omitempty"`
	// Security is the kind of the scheme the method requires: basic | apikey | jwt | oauth2.
	Security string `json:"security,omitempty"`
	// Order is the order in which the Method DSL declares security, payload,
	// streaming_payload, result, streaming_result, grpc (parts left out come last, in
	// that order).
	Order []string `json:"order,omitempty"`
}

// MsgAttr is one attribute listed in an explicit Message DSL, optionally with its own
// attribute-level DSL (meta, description, validation).
type MsgAttr struct {
	Name   string `json:"name"`
	Meta   bool   `json:"meta,omitempty"`
	Desc   bool   `json:"desc,omitempty"`
	MaxLen bool   `json:"max_len,omitempty"` // only on String attributes
}

func msgNames(ms []MsgAttr) []string {
	var out []string
	for _, m := range ms {
		out = append(out, m.Name)
	}
	return out
}

func msgAttrs(ms []MsgAttr) func() {
	return func() {
		for _, m := range ms {
			m := m
			if !m.Meta && !m.Desc && !m.MaxLen {
				dsl.Attribute(m.Name)
				continue
			}
			dsl.Attribute(m.Name, func() {
				if m.Meta {
					dsl.Meta("any:key", "some value")
				}
				if m.Desc {
					dsl.Description("carried in the message: " + m.Name)
				}
				if m.MaxLen {
					dsl.MaxLength(4000)
				}
			})
		}
	}
}

// SecNames lists the payload attributes that carry credentials of the method's scheme
// (goa moves them to the request metadata unless they are mapped explicitly).
func (m *Meth) SecNames(d *Design) []string {
	if m.Security == "" || m.Payload == nil {
		return nil
	}
	fs := m.Payload.Fields
	if m.Payload.T != nil && m.Payload.T.K == "user" {
		if ut := d.ut(m.Payload.T.Ref); ut != nil {
			fs = ut.Fields
		}
	}
	want := map[string][]string{"basic": {"username", "password"}, "apikey": {"apikey"}, "jwt": {"token"}, "oauth2": {"accesstoken"}}[m.Security]
	var out []string
	for _, f := range fs {
		for _, w := range want {
			if f.Sec == w {
				out = append(out, f.Name)
			}
		}
	}
	return out
}

type Svc struct {
	Name    string `json:"name"`
	Methods []Meth `json:"methods"`
}

type Design struct {
	Types    []UT     `json:"types,omitempty"`
	Svcs     []Svc    `json:"services"`
	Features []string `json:"features,omitempty"`
}

func (d *Design) JSON() string { b, _ := json.Marshal(d); return string(b) }

// StreamKind: 1 none, 2 client, 3 server, 4 bidirectional (goa's expr.StreamKind values).
func (m *Meth) StreamKind() int {
	switch {
	case m.SPayload != nil && m.SResult != nil:
		return 4
	case m.SResult != nil:
		return 3
	case m.SPayload != nil:
		return 2
	}
	return 1
}

func (d *Design) ut(name string) *UT {
	for i := range d.Types {
		if d.Types[i].Name == name {
			return &d.Types[i]
		}
	}
	return nil
}

var primTypes = map[string]expr.DataType{
	"Boolean": expr.Boolean, "Int": expr.Int, "Int32": expr.Int32, "Int64": expr.Int64,
	"UInt": expr.UInt, "UInt32": expr.UInt32, "UInt64": expr.UInt64,
	"Float32": expr.Float32, "Float64": expr.Float64, "String": expr.String, "Bytes": expr.Bytes,
}

type interp struct {
	d       *Design
	types   map[string]expr.UserType
	schemes map[string]*expr.SchemeExpr
}

func canonicalInt(s string) (int, bool) {
	if s == "" || (len(s) > 1 && s[0] == '0') || len(s) > 18 {
		return 0, false
	}
	for i := 0; i < len(s); i++ {
		if s[i] < '0' || s[i] > '9' {
			return 0, false
		}
	}
	n, err := strconv.Atoi(s)
	return n, err == nil
}

func (in *interp) dataType(t *Ty) any {
	switch t.K {
	case "prim":
		return primTypes[t.P]
	case "array":
		return dsl.ArrayOf(in.dataType(t.E))
	case "map":
		return dsl.MapOf(in.dataType(t.Key), in.dataType(t.E))
	case "user":
		if ut, ok := in.types[t.Ref]; ok {
			return ut
		}
		return t.Ref
	}
	panic("bad type kind " + t.K)
}

func validation(v *Val) {
	if v == nil {
		return
	}
	if v.Min != nil {
		dsl.Minimum(*v.Min)
	}
	if v.Max != nil {
		dsl.Maximum(*v.Max)
	}
	if v.MinLen != nil {
		dsl.MinLength(*v.MinLen)
	}
	if v.MaxLen != nil {
		dsl.MaxLength(*v.MaxLen)
	}
}

func (in *interp) field(f *Fld) {
	var args []any
	if f.Alts != nil {
		alts := f.Alts
		fn := func() {
			for i := range alts {
				in.field(&alts[i])
			}
		}
		dsl.OneOf(f.Name, fn)
		return
	}
	args = append(args, in.dataType(f.T))
	if f.V != nil {
		v := f.V
		args = append(args, func() { validation(v) })
	}
	if f.Sec != "" {
		var tag any = f.Tag
		if n, ok := canonicalInt(f.Tag); ok {
			tag = n
		}
		switch {
		case f.Sec == "username" && f.NoTag:
			dsl.Username(f.Name, args...)
		case f.Sec == "username":
			dsl.UsernameField(tag, f.Name, args...)
		case f.Sec == "password" && f.NoTag:
			dsl.Password(f.Name, args...)
		case f.Sec == "password":
			dsl.PasswordField(tag, f.Name, args...)
		case f.Sec == "apikey" && f.NoTag:
			dsl.APIKey("api_key", f.Name, args...)
		case f.Sec == "apikey":
			dsl.APIKeyField(tag, "api_key", f.Name, args...)
		case f.Sec == "token" && f.NoTag:
			dsl.Token(f.Name, args...)
		case f.Sec == "token":
			dsl.TokenField(tag, f.Name, args...)
		case f.Sec == "accesstoken" && f.NoTag:
			dsl.AccessToken(f.Name, args...)
		default:
			dsl.AccessTokenField(tag, f.Name, args...)
		}
		return
	}
	if f.NoTag {
		dsl.Attribute(f.Name, args...)
		return
	}
	if n, ok := canonicalInt(f.Tag); ok {
		dsl.Field(n, f.Name, args...)
	} else {
		dsl.Field(f.Tag, f.Name, args...)
	}
}

func (in *interp) fields(fs []Fld) {
	var req []string
	for i := range fs {
		in.field(&fs[i])
		if fs[i].Req {
			req = append(req, fs[i].Name)
		}
	}
	if len(req) > 0 {
		dsl.Required(req...)
	}
}

func (in *interp) io(fn func(any, ...any), io *IO) {
	if io.T != nil {
		fn(in.dataType(io.T))
		return
	}
	fs := io.Fields
	fn(func() { in.fields(fs) })
}

func attrs(names []string) func() {
	return func() {
		for _, n := range names {
			dsl.Attribute(n)
		}
	}
}

func (in *interp) top() {
	dsl.API("c10", func() {})
	in.schemes = map[string]*expr.SchemeExpr{}
	for _, s := range in.d.Svcs {
		for _, m := range s.Methods {
			if _, ok := in.schemes[m.Security]; ok || m.Security == "" {
				continue
			}
			switch m.Security {
			case "basic":
				in.schemes["basic"] = dsl.BasicAuthSecurity("basic")
			case "apikey":
				in.schemes["apikey"] = dsl.APIKeySecurity("api_key")
			case "jwt":
				in.schemes["jwt"] = dsl.JWTSecurity("jwt")
			case "oauth2":
				in.schemes["oauth2"] = dsl.OAuth2Security("oauth2", func() { dsl.ClientCredentialsFlow("http://auth/token", "http://auth/refresh") })
			}
		}
	}
	for i := range in.d.Types {
		ut := &in.d.Types[i]
		if ut.Alias != nil {
			in.types[ut.Name] = dsl.Type(ut.Name, in.dataType(ut.Alias), func() { validation(ut.V) })
		} else {
			in.types[ut.Name] = dsl.Type(ut.Name, func() { in.fields(ut.Fields) })
		}
	}
	for si := range in.d.Svcs {
		s := &in.d.Svcs[si]
		dsl.Service(s.Name, func() {
			for mi := range s.Methods {
				m := &s.Methods[mi]
				dsl.Method(m.Name, func() {
					grpcDSL := func() { in.grpcDSL(m) }
					for _, part := range m.order() {
						switch part {
						case "security":
							if sc := in.schemes[m.Security]; sc != nil {
								dsl.Security(sc)
							}
						case "payload":
							if m.Payload != nil {
								in.io(dsl.Payload, m.Payload)
							}
						case "streaming_payload":
							if m.SPayload != nil {
								in.io(dsl.StreamingPayload, m.SPayload)
							}
						case "result":
							if m.Result != nil {
								in.io(dsl.Result, m.Result)
							}
						case "streaming_result":
							if m.SResult != nil {
								in.io(dsl.StreamingResult, m.SResult)
							}
						case "grpc":
							grpcDSL()
						}
					}
				})
			}
		})
	}
}

// canonicalOrder is the order in which a Method DSL declares its parts when the
// design says nothing else.
var canonicalOrder = []string{"security", "payload", "streaming_payload", "result", "streaming_result", "grpc"}

// order gives the declaration order of the parts of the Method DSL: Order (a
// permutation of a subset of canonicalOrder) first, the parts it omits after it.
func (m *Meth) order() []string {
	out := append([]string{}, m.Order...)
	for _, p := range canonicalOrder {
		seen := false
		for _, q := range out {
			seen = seen || q == p
		}
		if !seen {
			out = append(out, p)
		}
	}
	return out
}

func (in *interp) grpcDSL(m *Meth) {
	{
		{
			{
				{
					dsl.GRPC(func() {
						if len(m.Metadata) > 0 {
							dsl.Metadata(attrs(m.Metadata))
						}
						if len(m.ReqMsg) > 0 {
							dsl.Message(msgAttrs(m.ReqMsg))
						}
						if len(m.Headers) > 0 || len(m.Trailers) > 0 || len(m.RespMsg) > 0 {
							dsl.Response(0, func() { // codes.OK
								if len(m.RespMsg) > 0 {
									dsl.Message(msgAttrs(m.RespMsg))
								}
								if len(m.Headers) > 0 {
									dsl.Headers(attrs(m.Headers))
								}
								if len(m.Trailers) > 0 {
									dsl.Trailers(attrs(m.Trailers))
								}
							})
						}
					})
				}
			}
		}
	}
}

// Outcome of building a design with the real DSL and evaluation engine.
type Outcome struct {
	Accepted bool
	Err      string
	Panic    string
}

// Eval builds the design through goa's DSL; on success expr.Root is finalized.
func (d *Design) Eval() (out Outcome) {
	defer func() {
		if r := recover(); r != nil {
			out = Outcome{Panic: fmt.Sprintf("%v\n%s", r, debug.Stack())}
		}
	}()
	designgen.ResetGoa()
	in := &interp{d: d, types: map[string]expr.UserType{}}
	if !eval.Execute(in.top, nil) {
		return Outcome{Err: eval.Context.Errors.Error()}
	}
	if err := eval.RunDSL(); err != nil {
		return Outcome{Err: err.Error()}
	}
	return Outcome{Accepted: true}
}

const genpkg = "tb/gen"

// ProtoText is one rendered .proto file.
type ProtoText struct {
	Path string
	Svc  string
	Text string
}

func renderFile(f *codegen.File, skip map[string]bool) (string, error) {
	var buf bytes.Buffer
	for _, s := range f.SectionTemplates {
		if skip[s.Name] {
			continue
		}
		if err := s.Write(&buf); err != nil {
			return "", err
		}
	}
	return buf.String(), nil
}

// RenderProto calls goa's ProtoFiles on the current expr.Root and renders every
// section (the header comment is dropped: it only carries the command line).
func RenderProto() (files []ProtoText, panicked string, err error) {
	defer func() {
		if r := recover(); r != nil {
			panicked = fmt.Sprintf("%v\n%s", r, debug.Stack())
		}
	}()
	fs := grpccodegen.ProtoFiles(genpkg, expr.Root)
	for i, f := range fs {
		txt, e := renderFile(f, map[string]bool{"proto-header": true})
		if e != nil {
			return nil, "", e
		}
		files = append(files, ProtoText{Path: f.Path, Svc: expr.Root.API.GRPC.Services[i].Name(), Text: txt})
	}
	return
}
