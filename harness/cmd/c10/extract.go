package main

// What the Coq model is given: for every message goa emitted, the attribute tree
// goa's printer (protoBufMessageDef) was handed, read back from goa's own service
// data — names, rpc:tag strings, required flags, types with user types resolved to
// the message name goa chose — and the designed streaming kind of every method.
// The model prints its own .proto tokens from that and Coq compares them with the
// tokens of the real text.

import (
	"fmt"
	"strings"

	"goa.design/goa/v3/codegen"
	"goa.design/goa/v3/codegen/service"
	"goa.design/goa/v3/expr"
	grpccodegen "goa.design/goa/v3/grpc/codegen"

	"verifharness/vh"
)

var coqPrim = map[expr.Kind]string{
	expr.BooleanKind: "PBool", expr.IntKind: "PInt", expr.Int32Kind: "PInt32", expr.Int64Kind: "PInt64",
	expr.UIntKind: "PUInt", expr.UInt32Kind: "PUInt32", expr.UInt64Kind: "PUInt64",
	expr.Float32Kind: "PFloat32", expr.Float64Kind: "PFloat64", expr.StringKind: "PString", expr.BytesKind: "PBytes",
}

type extractor struct {
	sd  *grpccodegen.ServiceData
	err string
}

func (x *extractor) fail(format string, args ...any) string {
	if x.err == "" {
		x.err = fmt.Sprintf(format, args...)
	}
	return "(TMsg [])"
}

func (x *extractor) msgVarName(ut expr.UserType) (string, bool) {
	for _, m := range x.sd.Messages {
		if m.Name == ut.Name() {
			return m.VarName, true
		}
	}
	return "", false
}

// ty renders the type of an attribute as a Model.ty term.
func (x *extractor) ty(dt expr.DataType, depth int) string {
	if depth > 12 {
		return x.fail("type nesting too deep")
	}
	switch t := dt.(type) {
	case expr.Primitive:
		p, ok := coqPrim[t.Kind()]
		if !ok {
			return x.fail("primitive kind %v outside the fragment", t.Kind())
		}
		return "(TPrim " + p + ")"
	case *expr.Array:
		return "(TArr " + x.ty(t.ElemType.Type, depth+1) + ")"
	case *expr.Map:
		return "(TMap " + x.ty(t.KeyType.Type, depth+1) + " " + x.ty(t.ElemType.Type, depth+1) + ")"
	case expr.UserType:
		inner := t.Attribute().Type
		if _, isPrim := inner.(expr.Primitive); isPrim {
			return "(TAlias " + x.ty(inner, depth+1) + ")"
		}
		if iu, ok := inner.(expr.UserType); ok && expr.IsPrimitive(iu) {
			return "(TAlias " + x.ty(inner, depth+1) + ")"
		}
		if n, ok := x.msgVarName(t); ok {
			return "(TMsg " + zs(n) + ")"
		}
		return x.fail("user type %s has no emitted message", t.Name())
	}
	return x.fail("type %T outside the fragment", dt)
}

func coqTag(a *expr.AttributeExpr) string {
	if t, ok := a.FieldTag(); ok {
		return "(Some " + zs(t) + ")"
	}
	return "None"
}

// msg renders one emitted message as a Model.msg term.
func (x *extractor) msg(m *service.UserTypeData) string {
	att := m.Type.Attribute()
	obj, ok := att.Type.(*expr.Object)
	if !ok {
		x.fail("message %s is not an object (%T)", m.VarName, att.Type)
		return ""
	}
	var ms []string
	for _, nat := range *obj {
		if u, ok := nat.Attribute.Type.(*expr.Union); ok {
			var alts []string
			for _, v := range u.Values {
				alts = append(alts, fmt.Sprintf("(%s, %s, %s)", zs(v.Name), coqTag(v.Attribute), x.ty(v.Attribute.Type, 0)))
			}
			ms = append(ms, fmt.Sprintf("MOneof %s %s", zs(u.Name()), vh.CoqList(alts)))
			continue
		}
		ms = append(ms, fmt.Sprintf("MField %s %s %s %s", zs(nat.Name), coqTag(nat.Attribute),
			vh.CoqBool(att.IsRequired(nat.Name)), x.ty(nat.Attribute.Type, 0)))
	}
	return fmt.Sprintf("Msg %s %s", zs(m.VarName), vh.CoqList(ms))
}

var coqKind = map[int]string{1: "Unary", 2: "ClientStream", 3: "ServerStream", 4: "Bidi"}

// ModelFile renders the Model.file term for one service of the design whose goa
// data is current (ProtoFiles was called). ok=false when something is outside the
// modelled fragment (the reason is returned).
func ModelFile(svc *Svc) (term string, reason string) {
	sd := grpccodegen.GRPCServices.Get(svc.Name)
	if sd == nil {
		return "", "no gRPC service data"
	}
	x := &extractor{sd: sd}
	var rpcs []string
	if len(sd.Endpoints) != len(svc.Methods) {
		return "", "endpoint count differs from method count"
	}
	for i, ed := range sd.Endpoints {
		if ed.Request.Message == nil || ed.Response.Message == nil {
			return "", "endpoint without message data"
		}
		rpcs = append(rpcs, fmt.Sprintf("(%s, %s, %s, %s)", zs(ed.Method.VarName), coqKind[svc.Methods[i].StreamKind()],
			zs(ed.Request.Message.VarName), zs(ed.Response.Message.VarName)))
	}
	var msgs []string
	for _, m := range sd.Messages {
		msgs = append(msgs, x.msg(m))
	}
	if x.err != "" {
		return "", x.err
	}
	pkg := codegen.SnakeCase(sd.Service.PathName)
	return fmt.Sprintf("File %s %s %s %s", zs(pkg), zs(sd.Name), vh.CoqList(rpcs), vh.CoqList(msgs)), ""
}

// CoqTokens renders the tokens of the real text as Model.token terms.
func CoqTokens(toks []Tok) string {
	var b strings.Builder
	b.WriteString("[")
	for i, t := range toks {
		if i > 0 {
			b.WriteString(";")
		}
		switch t.Kind {
		case "id":
			b.WriteString("TI " + zs(t.Text))
		case "num":
			b.WriteString("TD " + t.Text)
		case "str":
			b.WriteString("TQ " + zs(t.Text))
		case "sym":
			fmt.Fprintf(&b, "TY %d", t.Text[0])
		default:
			b.WriteString("TBad " + zs(t.Text))
		}
	}
	b.WriteString("]")
	return b.String()
}

// epMsgs reads the attribute names goa put in the request / response message of
// each endpoint.
type epMsgs struct{ sd *grpccodegen.ServiceData }

func endpointMessages(svc string) *epMsgs {
	sd := grpccodegen.GRPCServices.Get(svc)
	if sd == nil {
		return nil
	}
	return &epMsgs{sd}
}

func objNames(m *service.UserTypeData) ([]string, bool) {
	if m == nil || m.Type == nil {
		return nil, false
	}
	obj, ok := m.Type.Attribute().Type.(*expr.Object)
	if !ok {
		return nil, false
	}
	var out []string
	for _, nat := range *obj {
		out = append(out, nat.Name)
	}
	return out, true
}

func (x *epMsgs) request(i int) ([]string, bool) {
	if i >= len(x.sd.Endpoints) {
		return nil, false
	}
	return objNames(x.sd.Endpoints[i].Request.Message)
}

func (x *epMsgs) response(i int) ([]string, bool) {
	if i >= len(x.sd.Endpoints) {
		return nil, false
	}
	return objNames(x.sd.Endpoints[i].Response.Message)
}

// chunks encodes a byte string as primitive integers holding up to seven bytes
// each behind a leading 1 (decoded by Run.z1 / Run.zl).
func chunks(s string) []string {
	var out []string
	for i := 0; i < len(s); i += 7 {
		j := min(i+7, len(s))
		x := uint64(1)
		for k := i; k < j; k++ {
			x = x<<8 | uint64(s[k])
		}
		out = append(out, fmt.Sprint(x))
	}
	return out
}

// zs prints a byte string as a Coq term of type str.
func zs(s string) string {
	c := chunks(s)
	switch len(c) {
	case 0:
		return "[]"
	case 1:
		return "(z1 " + c[0] + ")"
	}
	return "(zl [" + strings.Join(c, ";") + "])"
}

// zn prints a byte string as the list of integers Run.zl decodes.
func zn(s string) string { return "[" + strings.Join(chunks(s), ";") + "]" }

// goaRequired reads, from goa's finalised gRPC endpoint expression, which of the given
// request metadata / response header / response trailer attributes are required.
func goaRequired(svc string, method int, where string, names []string) ([]string, bool) {
	s := expr.Root.API.GRPC.Service(svc)
	if s == nil || method >= len(s.GRPCEndpoints) {
		return nil, false
	}
	e := s.GRPCEndpoints[method]
	var m *expr.MappedAttributeExpr
	switch where {
	case "metadata":
		m = e.Metadata
	case "headers":
		m = e.Response.Headers
	default:
		m = e.Response.Trailers
	}
	if m == nil {
		return nil, false
	}
	var out []string
	for _, n := range names {
		if m.IsRequired(n) {
			out = append(out, n)
		}
	}
	return out, true
}

// codegenRequired reads the Required flag of the request metadata entries in goa's
// gRPC code generation data (what the request decoder template branches on).
func codegenRequired(svc string, method int, names []string) ([]string, bool) {
	sd := grpccodegen.GRPCServices.Get(svc)
	if sd == nil || method >= len(sd.Endpoints) || sd.Endpoints[method].Request == nil {
		return nil, false
	}
	var out []string
	for _, n := range names {
		for _, md := range sd.Endpoints[method].Request.Metadata {
			if md.AttributeName == n && md.Required {
				out = append(out, n)
			}
		}
	}
	return out, true
}
