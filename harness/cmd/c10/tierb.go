package main

// Tier B (thorough): the generated gRPC conversion code is compiled and executed.
//
// For a batch of unary designs the harness renders gen/<svc>/service.go and
// gen/grpc/<svc>/{client,server}/{types.go,encode_decode.go} with goa's own
// generators, emits STAND-IN pb packages from the real .proto text (protoc and
// protoc-gen-go are absent: structs with protoc-gen-go's field naming, optional
// scalars as pointers, repeated as slices, maps, messages as pointers), emits a tiny
// driver per design, builds everything in one work module (replace goa => repo) and
// runs it: client EncodeRequest -> goa's unary handler (server DecodeRequest,
// recording endpoint, server EncodeResponse) -> client DecodeResponse on boundary
// values, valid and invalid.

import (
	"bufio"
	"bytes"
	"encoding/json"
	"fmt"
	"math"
	"os"
	"os/exec"
	"path/filepath"
	"strings"

	"goa.design/goa/v3/codegen"
	"goa.design/goa/v3/codegen/service"
	"goa.design/goa/v3/expr"
	grpccodegen "goa.design/goa/v3/grpc/codegen"

	"verifharness/c10rt"
	"verifharness/designgen"
	"verifharness/vh"
)

// ---------------------------------------------------------------- value types

// VT is the shape of a service value position.
type VT struct {
	K    string // prim | opt (pointer to primitive) | arr | map | msg
	P    string
	E    *VT
	Key  *VT
	Fs   []*VT
	Req  []bool // msg: required flag per field
	V    *Val   // validation on this position
	Cred bool   // a credential attribute (Token, APIKey, ...): values without blanks
}

func (o *oracle) vtOf(t *Ty, req bool, v *Val) *VT {
	switch t.K {
	case "prim":
		if req {
			return &VT{K: "prim", P: t.P, V: v}
		}
		return &VT{K: "opt", P: t.P, V: v}
	case "array":
		return &VT{K: "arr", E: o.vtOf(t.E, true, nil), V: v}
	case "map":
		return &VT{K: "map", Key: o.vtOf(t.Key, true, nil), E: o.vtOf(t.E, true, nil), V: v}
	case "user":
		ut := o.d.ut(t.Ref)
		if ut.Alias != nil {
			vv := v
			if vv == nil {
				vv = ut.V
			}
			return o.vtOf(ut.Alias, req, vv)
		}
		return o.vtMsg(ut.Fields)
	}
	panic("vtOf")
}

func (o *oracle) vtMsg(fs []Fld) *VT {
	m := &VT{K: "msg"}
	for i := range fs {
		vt := o.vtOf(fs[i].T, fs[i].Req, fs[i].V)
		// goa sends a credential holding a blank as it is (it is taken to carry its scheme
		// prefix already) and the server strips everything up to the first blank: such
		// values are outside the envelope
		vt.Cred = fs[i].Sec != ""
		m.Fs = append(m.Fs, vt)
		m.Req = append(m.Req, fs[i].Req)
	}
	return m
}

func (o *oracle) vtIO(io *IO) *VT {
	if io.T == nil {
		return o.vtMsg(io.Fields)
	}
	return o.vtOf(io.T, true, nil)
}

var coqPrimName = map[string]string{"Boolean": "PBool", "Int": "PInt", "Int32": "PInt32", "Int64": "PInt64", "UInt": "PUInt",
	"UInt32": "PUInt32", "UInt64": "PUInt64", "Float32": "PFloat32", "Float64": "PFloat64", "String": "PString", "Bytes": "PBytes"}

func (t *VT) coq() string {
	switch t.K {
	case "prim":
		return "(VPrim " + coqPrimName[t.P] + ")"
	case "opt":
		return "(VOpt " + coqPrimName[t.P] + ")"
	case "arr":
		return "(VArr " + t.E.coq() + ")"
	case "map":
		return "(VMap " + t.Key.coq() + " " + t.E.coq() + ")"
	}
	var fs []string
	for _, f := range t.Fs {
		fs = append(fs, f.coq())
	}
	return "(VMsg [" + strings.Join(fs, "; ") + "])"
}

// ------------------------------------------------------------ value generation

type valGen struct {
	r       *vh.RNG
	mode    int // 0 valid, 1 one invalid position, 2 narrowing allowed
	invalid bool
	narrows bool
	budget  int
}

var intVals = map[string][]int64{
	"Int":   {0, 1, -1, math.MaxInt32, math.MinInt32, 7, 100, -5},
	"Int32": {0, 1, -1, math.MaxInt32, math.MinInt32, 42},
	"Int64": {0, 1, -1, math.MaxInt64, math.MinInt64, 1 << 40, -(1 << 33)},
}
var uintVals = map[string][]uint64{
	"UInt":   {0, 1, math.MaxUint32, 77},
	"UInt32": {0, 1, math.MaxUint32},
	"UInt64": {0, 1, math.MaxUint64, 1 << 40},
}
var narrowInt = []int64{1 << 31, -(1 << 31) - 1, 1 << 40, math.MaxInt64, math.MinInt64, 1<<32 + 5}
var narrowUint = []uint64{1 << 32, math.MaxUint64, 1<<32 + 5, 1 << 63}
var f32Bits = []uint64{0, 0x80000000, 0x3fc00000, 0x7f7fffff, 0x00000001, 0x7f800000, 0xbf800000}
var f64Bits = []uint64{0, 0x8000000000000000, 0x3ff8000000000000, 0x7fefffffffffffff, 1, 0x7ff0000000000000, 0xbff0000000000000}
var strVals = []string{"", "a", "héllo", "x y/%+&=", "ninechars", "\x00\x7f", "日本語テキスト", "0123456789abcdef"}

func (g *valGen) prim(p string, v *Val) c10rt.Spec {
	wantInvalid := g.mode == 1 && !g.invalid && v != nil && g.r.Chance(1, 2)
	switch p {
	case "Int", "Int32", "Int64":
		x := vh.Pick(g.r, intVals[p])
		if v != nil && (v.Min != nil || v.Max != nil) {
			lo, hi := int64(math.MinInt32), int64(math.MaxInt32)
			if v.Min != nil {
				lo = int64(*v.Min)
			}
			if v.Max != nil {
				hi = int64(*v.Max)
			}
			switch {
			case wantInvalid && v.Max != nil && g.r.Bool():
				x, g.invalid = hi+1, true
			case wantInvalid && v.Min != nil:
				x, g.invalid = lo-1, true
			case wantInvalid:
				x, g.invalid = hi+1, true
			default:
				x = vh.Pick(g.r, []int64{lo, hi, lo + (hi-lo)/2})
			}
		} else if p == "Int" && g.mode == 2 && g.r.Chance(1, 2) {
			x, g.narrows = vh.Pick(g.r, narrowInt), true
		}
		return c10rt.Spec{K: "int", I: x}
	case "UInt", "UInt32", "UInt64":
		x := vh.Pick(g.r, uintVals[p])
		if v != nil && (v.Min != nil || v.Max != nil) {
			lo, hi := uint64(0), uint64(math.MaxUint32)
			if v.Min != nil && *v.Min > 0 {
				lo = uint64(*v.Min)
			}
			if v.Max != nil {
				hi = uint64(*v.Max)
			}
			switch {
			case wantInvalid && v.Max != nil:
				x, g.invalid = hi+1, true
			case wantInvalid && lo > 0:
				x, g.invalid = lo-1, true
			default:
				x = vh.Pick(g.r, []uint64{lo, hi})
			}
		} else if p == "UInt" && g.mode == 2 && g.r.Chance(1, 2) {
			x, g.narrows = vh.Pick(g.r, narrowUint), true
		}
		return c10rt.Spec{K: "uint", U: x}
	case "Float32":
		return c10rt.Spec{K: "float", U: vh.Pick(g.r, f32Bits)}
	case "Float64":
		return c10rt.Spec{K: "float", U: vh.Pick(g.r, f64Bits)}
	case "Boolean":
		return c10rt.Spec{K: "bool", I: int64(g.r.Intn(2))}
	case "String":
		s := vh.Pick(g.r, strVals)
		if v != nil && (v.MinLen != nil || v.MaxLen != nil) {
			lo, hi := 0, 12
			if v.MinLen != nil {
				lo = *v.MinLen
			}
			if v.MaxLen != nil {
				hi = *v.MaxLen
			}
			n := vh.Pick(g.r, []int{lo, hi})
			if wantInvalid && v.MaxLen != nil {
				n, g.invalid = hi+1, true
			} else if wantInvalid && lo > 0 {
				n, g.invalid = lo-1, true
			}
			s = strings.Repeat("é", n) // length validations count runes
		}
		return c10rt.Spec{K: "str", S: []byte(s)}
	case "Bytes":
		return vh.Pick(g.r, []c10rt.Spec{{K: "bytes", S: []byte{}}, {K: "bytes", S: []byte{0}}, {K: "bytes", S: []byte{0xff, 0, 0x80, 'a'}}})
	}
	panic("prim " + p)
}

func (g *valGen) value(t *VT, required bool) c10rt.Spec {
	g.budget--
	switch t.K {
	case "prim":
		if t.Cred {
			return c10rt.Spec{K: "str", S: []byte(vh.Pick(g.r, []string{"tok", "eyJhbGciOi.J9.x-y_z", "a/b+c=", "é"}))}
		}
		return g.prim(t.P, t.V)
	case "opt":
		if g.r.Chance(1, 3) {
			return c10rt.Spec{K: "nil"}
		}
		if t.Cred {
			return c10rt.Spec{K: "str", S: []byte(vh.Pick(g.r, []string{"tok", "eyJhbGciOi.J9.x-y_z", "a/b+c=", "é"}))}
		}
		return g.prim(t.P, t.V)
	case "arr":
		n := vh.Pick(g.r, []int{0, 0, 1, 2, 3})
		if g.budget < 0 {
			n = 0
		}
		if t.V != nil && (t.V.MinLen != nil || t.V.MaxLen != nil) {
			lo, hi := 0, 3
			if t.V.MinLen != nil {
				lo = *t.V.MinLen
			}
			if t.V.MaxLen != nil {
				hi = *t.V.MaxLen
			}
			n = vh.Pick(g.r, []int{lo, hi})
			if g.mode == 1 && !g.invalid && g.r.Bool() {
				if t.V.MaxLen != nil {
					n, g.invalid = hi+1, true
				} else if lo > 0 {
					n, g.invalid = lo-1, true
				}
			}
		} else if n == 0 && !required && g.r.Bool() {
			return c10rt.Spec{K: "nil"}
		}
		s := c10rt.Spec{K: "list", L: []c10rt.Spec{}}
		for i := 0; i < n; i++ {
			s.L = append(s.L, g.value(t.E, true))
		}
		return s
	case "map":
		n := vh.Pick(g.r, []int{0, 1, 2})
		if g.budget < 0 {
			n = 0
		}
		if n == 0 && !required && g.r.Bool() {
			return c10rt.Spec{K: "nil"}
		}
		s := c10rt.Spec{K: "map", M: [][]c10rt.Spec{}}
		seen := map[string]bool{}
		for i := 0; i < n; i++ {
			k := g.prim(t.Key.P, nil)
			kk, _ := json.Marshal(k)
			if seen[string(kk)] {
				continue
			}
			seen[string(kk)] = true
			s.M = append(s.M, []c10rt.Spec{k, g.value(t.E, true)})
		}
		return s
	}
	// message
	s := c10rt.Spec{K: "obj"}
	for i, f := range t.Fs {
		switch f.K {
		case "msg":
			if !t.Req[i] && g.r.Chance(1, 3) {
				s.L = append(s.L, c10rt.Spec{K: "nil"})
				continue
			}
			if t.Req[i] && g.mode == 1 && !g.invalid && g.r.Chance(1, 3) {
				g.invalid = true // a required message-typed attribute left out
				s.L = append(s.L, c10rt.Spec{K: "nil"})
				continue
			}
			s.L = append(s.L, g.value(f, true))
		default:
			s.L = append(s.L, g.value(f, t.Req[i]))
		}
	}
	return s
}

// --------------------------------------------------------------- tier-B designs

// tier-B attribute names: spellings on which goa's proto field name and its guess of
// protoc-gen-go's Go field name agree (the others are a recorded finding, see the
// witness designs)
var tbNames = []string{"id", "name", "user_id", "created_at", "value", "count", "fooBar", "itemCount", "api_key", "url", "data",
	"tags", "kind", "is_ok", "total_amount", "key", "string", "map", "option", "xy", "note", "label", "size"}

func (g *gen) tbNameList(n int) []string {
	used := map[string]bool{}
	var out []string
	for len(out) < n {
		c := vh.Pick(g.r, tbNames)
		if used[c] {
			c = fmt.Sprintf("%s_%c%c", c, 'a'+byte(g.r.Intn(26)), 'a'+byte(g.r.Intn(26)))
			if used[c] {
				continue
			}
		}
		used[c] = true
		out = append(out, c)
	}
	return out
}

func (g *gen) tbMembers(max int) []Fld {
	n := 1 + g.r.Intn(max)
	names := g.tbNameList(n)
	tags := g.tags(n)
	var fs []Fld
	for i := 0; i < n; i++ {
		f := F(tags[i], names[i], g.ty(0))
		f.Req = g.r.Chance(1, 3)
		if f.T.K == "prim" && g.r.Chance(1, 3) {
			switch f.T.P {
			case "Int", "Int32", "Int64":
				f.V = &Val{Min: ip(-3), Max: ip(20)}
			case "UInt", "UInt32", "UInt64":
				f.V = &Val{Max: ip(10)}
			case "String":
				f.V = &Val{MinLen: ip(1), MaxLen: ip(5)}
			}
		}
		if f.T.K == "array" && f.T.E.K == "prim" && g.r.Chance(1, 4) {
			f.V = &Val{MinLen: ip(1), MaxLen: ip(2)}
		}
		fs = append(fs, f)
	}
	return fs
}

// RandomTB draws a unary-only design with payload and result on every method, no
// unions, validations on some attributes, metadata / headers / trailers sometimes.
func RandomTB(r *vh.RNG, responseMetadata bool) *Design {
	g := &gen{r: r, d: &Design{}, feat: map[string]bool{}}
	na := g.r.Intn(3)
	for i := 0; i < na; i++ {
		p := vh.Pick(g.r, allPrims[:10]) // (an alias of Bytes does not compile: recorded finding)
		ut := UT{Name: aliasNames[i], Alias: P(p)}
		if p == "String" {
			ut.V = &Val{MinLen: ip(1), MaxLen: ip(8)}
		}
		if p == "Int" || p == "Int32" || p == "Int64" {
			ut.V = &Val{Min: ip(-5), Max: ip(100)}
		}
		g.d.Types = append(g.d.Types, ut)
		g.aliases = append(g.aliases, ut.Name)
	}
	no := g.r.Intn(3)
	off := g.r.Intn(len(typeNames))
	for i := 0; i < no; i++ {
		ut := UT{Name: typeNames[(off+i)%len(typeNames)], Fields: g.tbMembers(4)}
		g.d.Types = append(g.d.Types, ut)
		g.objs = append(g.objs, ut.Name)
	}
	io := func() *IO {
		switch k := g.r.Intn(10); {
		case k < 6:
			return &IO{Fields: g.tbMembers(5)}
		case k < 7 && len(g.objs) > 0:
			return &IO{T: U(vh.Pick(g.r, g.objs))}
		case k < 8:
			return &IO{T: P(vh.Pick(g.r, allPrims))}
		case k < 9:
			if g.r.Bool() {
				return &IO{T: Arr(g.ty(1))}
			}
			return &IO{T: Map(P(vh.Pick(g.r, keyPrims)), g.ty(1))}
		}
		return &IO{Fields: g.tbMembers(3)}
	}
	svc := Svc{Name: vh.Pick(r, serviceNames)}
	nm := 1 + r.Intn(3)
	offm := r.Intn(len(methodNames))
	for i := 0; i < nm; i++ {
		m := Meth{Name: methodNames[(offm+i)%len(methodNames)], Payload: io(), Result: io()}
		if m.Payload.T == nil && g.r.Chance(1, 4) { // credentials travel as request metadata
			m.Security = vh.Pick(g.r, secKinds)
			m.Payload.Fields = requireSec(insertSec(m.Payload.Fields, m.Security, g.r.Intn(len(m.Payload.Fields)+1), g.r.Bool(), 900+g.r.Intn(50)), g.r.Bool)
		}
		if g.r.Bool() {
			m.Order = append([]string{}, canonicalOrder...)
			for i := len(m.Order) - 1; i > 0; i-- {
				j := g.r.Intn(i + 1)
				m.Order[i], m.Order[j] = m.Order[j], m.Order[i]
			}
		}
		if ps := g.primFields(m.Payload); len(ps) > 0 && g.r.Chance(1, 3) {
			m.Metadata, _ = g.subset(ps, 1, 2)
		}
		if ps := g.primFields(m.Result); responseMetadata && len(ps) > 0 && g.r.Chance(1, 3) {
			hs, rest := g.subset(ps, 1, 2)
			m.Headers = hs
			if g.r.Bool() {
				m.Trailers, _ = g.subset(rest, 1, 2)
			}
		}
		svc.Methods = append(svc.Methods, m)
	}
	g.d.Svcs = []Svc{svc}
	g.d.Features = vh.SortedKeys(g.feat)
	return g.d
}

// ------------------------------------------------------- stand-in pb packages

func isLowerASCII(c byte) bool { return 'a' <= c && c <= 'z' }

// goCamelCase is protoc-gen-go's published naming rule (google.golang.org/protobuf
// internal/strs.GoCamelCase), restated here because protoc-gen-go cannot be run.
func goCamelCase(s string) string {
	var b []byte
	for i := 0; i < len(s); i++ {
		c := s[i]
		switch {
		case c == '.' && i+1 < len(s) && isLowerASCII(s[i+1]):
		case c == '.':
			b = append(b, '_')
		case c == '_' && (i == 0 || s[i-1] == '.'):
			b = append(b, 'X')
		case c == '_' && i+1 < len(s) && isLowerASCII(s[i+1]):
		case isDigit(c):
			b = append(b, c)
		default:
			if isLowerASCII(c) {
				c -= 'a' - 'A'
			}
			b = append(b, c)
			for ; i+1 < len(s) && isLowerASCII(s[i+1]); i++ {
				b = append(b, s[i+1])
			}
		}
	}
	return string(b)
}

var goScalar = map[string]string{"double": "float64", "float": "float32", "int32": "int32", "int64": "int64", "uint32": "uint32",
	"uint64": "uint64", "sint32": "int32", "sint64": "int64", "fixed32": "uint32", "fixed64": "uint64", "sfixed32": "int32",
	"sfixed64": "int64", "bool": "bool", "string": "string", "bytes": "[]byte"}

func pbGoType(t string) string {
	if g, ok := goScalar[t]; ok {
		return g
	}
	return "*" + goCamelCase(t)
}

// StandInPB renders the Go package protoc-gen-go would produce for the file, reduced
// to what the conversion code touches: message structs, oneof wrappers, the unary
// client interface.
func StandInPB(pkg string, f *PFile) string {
	var b bytes.Buffer
	fmt.Fprintf(&b, "// Stand-in for protoc-gen-go output (protoc is absent): field naming and\n// representation follow protoc-gen-go; no wire format.\npackage %s\n\nimport (\n\t\"context\"\n\n\t\"google.golang.org/grpc\"\n)\n\nvar _ = context.Background\n\n", pkg)
	for _, m := range f.Messages {
		mn := goCamelCase(m.Name)
		fmt.Fprintf(&b, "type %s struct {\n", mn)
		seenOneof := map[string]bool{}
		for _, pf := range m.Fields {
			if pf.Oneof != "" {
				if !seenOneof[pf.Oneof] {
					seenOneof[pf.Oneof] = true
					fmt.Fprintf(&b, "\t%s is%s_%s\n", goCamelCase(pf.Oneof), mn, goCamelCase(pf.Oneof))
				}
				continue
			}
			var gt string
			switch pf.Label {
			case "repeated":
				gt = "[]" + pbGoType(pf.Type)
			case "map":
				gt = "map[" + goScalar[pf.Key] + "]" + pbGoType(pf.Type)
			case "optional":
				gt = pbGoType(pf.Type)
				if gt != "[]byte" && !strings.HasPrefix(gt, "*") {
					gt = "*" + gt
				}
			default:
				gt = pbGoType(pf.Type)
			}
			fmt.Fprintf(&b, "\t%s %s\n", goCamelCase(pf.Name), gt)
		}
		fmt.Fprintf(&b, "}\n\n")
		for on := range seenOneof {
			fmt.Fprintf(&b, "type is%s_%s interface{ is%s_%s() }\n", mn, goCamelCase(on), mn, goCamelCase(on))
		}
		for _, pf := range m.Fields {
			if pf.Oneof != "" {
				fmt.Fprintf(&b, "type %s_%s struct{ %s %s }\nfunc (*%s_%s) is%s_%s() {}\n", mn, goCamelCase(pf.Name), goCamelCase(pf.Name), pbGoType(pf.Type),
					mn, goCamelCase(pf.Name), mn, goCamelCase(pf.Oneof))
			}
		}
	}
	for _, s := range f.Services {
		fmt.Fprintf(&b, "type %sClient interface {\n", goCamelCase(s.Name))
		for _, r := range s.RPCs {
			fmt.Fprintf(&b, "\t%s(ctx context.Context, in *%s, opts ...grpc.CallOption) (*%s, error)\n", goCamelCase(r.Name), goCamelCase(r.Req), goCamelCase(r.Resp))
		}
		fmt.Fprintf(&b, "}\n")
	}
	return b.String()
}

// ------------------------------------------------------------------ the batch

type tbMethod struct {
	Name, VarName         string
	PayloadRef, ResultRef string
	PVT, RVT              *VT
	Mapped                bool // metadata / headers / trailers present: outside the Coq value model
	Cases                 []tbCase
}

type tbCase struct {
	c10rt.Case
	Invalid bool `json:"invalid"`
	Narrows bool `json:"narrows"`
	Dropped bool `json:"dropped"` // a required metadata key was removed on the way
}

type tbDesign struct {
	Witness bool
	Idx     int
	D       *Design
	Svc     string
	Methods []tbMethod
}

func renderGo(dir string, files []*codegen.File, keep func(path string) bool) error {
	for _, f := range files {
		if !keep(f.Path) {
			continue
		}
		if _, err := f.Render(dir); err != nil {
			return fmt.Errorf("%s: %w", f.Path, err)
		}
	}
	return nil
}

// emitDesign writes generated code, stand-in pb package and driver of one design
// (whose goa state is current) under root/d<idx>.
func emitDesign(root string, td *tbDesign, r *vh.RNG, casesPerMethod int) (err error, panicked string) {
	defer func() {
		if rec := recover(); rec != nil {
			panicked = fmt.Sprint(rec)
		}
	}()
	d := td.D
	dir := filepath.Join(root, fmt.Sprintf("d%d", td.Idx))
	gp := fmt.Sprintf("tb/d%d/gen", td.Idx)
	// the .proto first: it fixes goa's gRPC service data
	protos := grpccodegen.ProtoFiles(gp, expr.Root)
	text, e := renderFile(protos[0], map[string]bool{"proto-header": true})
	if e != nil {
		return e, ""
	}
	pf, e := ParseProto(text)
	if e != nil {
		return fmt.Errorf("proto of a tier-B design does not parse: %v", e), ""
	}
	var files []*codegen.File
	for _, s := range expr.Root.Services {
		files = append(files, service.Files(gp, s, nil)...)
	}
	files = append(files, grpccodegen.ServerTypeFiles(gp, expr.Root)...)
	files = append(files, grpccodegen.ClientTypeFiles(gp, expr.Root)...)
	files = append(files, grpccodegen.ServerFiles(gp, expr.Root)...)
	files = append(files, grpccodegen.ClientFiles(gp, expr.Root)...)
	if e := renderGo(dir, files, func(p string) bool {
		return !strings.HasSuffix(p, "server/server.go") && !strings.HasSuffix(p, "client/client.go") && !strings.Contains(p, "/views/")
	}); e != nil {
		return e, ""
	}
	sd := grpccodegen.GRPCServices.Get(td.Svc)
	pbdir := filepath.Join(dir, "gen", "grpc", sd.Service.PathName, "pb")
	if e := os.MkdirAll(pbdir, 0o755); e != nil {
		return e, ""
	}
	if e := os.WriteFile(filepath.Join(pbdir, "standin.pb.go"), []byte(StandInPB(sd.PkgName, pf)), 0o644); e != nil {
		return e, ""
	}
	if e := os.WriteFile(filepath.Join(pbdir, "goagen.proto"), []byte(text), 0o644); e != nil {
		return e, ""
	}
	// driver
	o := &oracle{d: d}
	svc := &d.Svcs[0]
	var b bytes.Buffer
	fmt.Fprintf(&b, "package drv\n\nimport (\n\t\"io\"\n\t\"reflect\"\n\n\trt \"verifharness/c10rt\"\n\tcli \"%s/grpc/%s/client\"\n\tsrv \"%s/grpc/%s/server\"\n\t%s \"%s/%s\"\n)\n\nvar _ %s.Service\n\nfunc Run(out io.Writer) {\n",
		gp, sd.Service.PathName, gp, sd.Service.PathName, sd.Service.PkgName, gp, sd.Service.PathName, sd.Service.PkgName)
	for mi := range svc.Methods {
		m := &svc.Methods[mi]
		ed := sd.Endpoints[mi]
		tm := tbMethod{Name: m.Name, VarName: ed.Method.VarName, PayloadRef: ed.PayloadRef, ResultRef: ed.ResultRef,
			PVT: o.vtIO(m.Payload), RVT: o.vtIO(m.Result), Mapped: len(m.Metadata)+len(m.Headers)+len(m.Trailers) > 0 || m.Security != ""}
		hasNarrow := strings.Contains(tm.PVT.coq()+tm.RVT.coq(), "PInt)") || strings.Contains(tm.PVT.coq()+tm.RVT.coq(), "PUInt)")
		for c := 0; c < casesPerMethod; c++ {
			mode := 0
			switch k := r.Intn(10); {
			case k < 2:
				mode = 1
			case k == 2 && hasNarrow:
				mode = 2
			}
			gp := &valGen{r: r, mode: mode, budget: 40}
			pv := gp.value(tm.PVT, true)
			gr := &valGen{r: r, mode: map[int]int{0: 0, 1: 0, 2: 2}[mode], budget: 40}
			rv := gr.value(tm.RVT, true)
			tm.Cases = append(tm.Cases, tbCase{Case: c10rt.Case{ID: c, Payload: pv, Result: rv}, Invalid: gp.invalid, Narrows: gp.narrows || gr.narrows})
		}
		// a valid request from which each required metadata key is removed in turn
		if pf, isObj, _ := o.ioFields(m.Payload); isObj {
			for _, n := range m.Metadata {
				for _, f := range pf {
					if f.Name == n && f.Req {
						gp := &valGen{r: r, mode: 0, budget: 40}
						gr := &valGen{r: r, mode: 0, budget: 40}
						tm.Cases = append(tm.Cases, tbCase{Case: c10rt.Case{ID: len(tm.Cases), Payload: gp.value(tm.PVT, true), Result: gr.value(tm.RVT, true), DropMD: n}, Dropped: true})
					}
				}
			}
		}
		// ... and each REQUIRED credential attribute goa moves to the metadata itself
		if pf, isObj, _ := o.ioFields(m.Payload); isObj && m.Security != "" {
			for _, n := range m.SecNames(d) {
				for _, f := range pf {
					if f.Name == n && f.Req {
						key := "authorization"
						if m.Security == "basic" {
							key = n
						}
						gp := &valGen{r: r, mode: 0, budget: 40}
						gr := &valGen{r: r, mode: 0, budget: 40}
						tm.Cases = append(tm.Cases, tbCase{Case: c10rt.Case{ID: len(tm.Cases), Payload: gp.value(tm.PVT, true), Result: gr.value(tm.RVT, true), DropMD: key}, Dropped: true})
					}
				}
			}
		}
		var cs []c10rt.Case
		for _, c := range tm.Cases {
			cs = append(cs, c.Case)
		}
		cj, _ := json.Marshal(cs)
		fmt.Fprintf(&b, "\trt.RunUnary(out, rt.Method{Design: %d, Index: %d, Name: %q,\n\t\tPayloadType: reflect.TypeOf((*%s)(nil)).Elem(), ResultType: reflect.TypeOf((*%s)(nil)).Elem(),\n\t\tEncReq: cli.Encode%sRequest, DecReq: srv.Decode%sRequest, EncResp: srv.Encode%sResponse, DecResp: cli.Decode%sResponse,\n\t\tCases: %q})\n",
			td.Idx, mi, m.Name, tm.PayloadRef, tm.ResultRef, tm.VarName, tm.VarName, tm.VarName, tm.VarName, string(cj))
		td.Methods = append(td.Methods, tm)
	}
	fmt.Fprintf(&b, "}\n")
	drv := filepath.Join(dir, "drv")
	if e := os.MkdirAll(drv, 0o755); e != nil {
		return e, ""
	}
	return os.WriteFile(filepath.Join(drv, "drv.go"), b.Bytes(), 0o644), ""
}

var harnessDir = "/verif/harness"

// tbWitnesses: designs whose generated code is known not to compile (recorded
// findings); they live in their own packages so the main batch still builds.
func tbWitnesses() []Witness {
	res := &IO{Fields: []Fld{F(1, "note", P("String")), F(2, "count", P("Int")), F(3, "data", P("Float64"))}}
	pl := &IO{Fields: []Fld{F(1, "id", P("Int"))}}
	return []Witness{
		{Name: "string-header", D: one("tb-witness:string-header", Meth{Payload: pl, Result: res, Headers: []string{"note"}}),
			Expect: []string{"response-metadata-code-does-not-compile"}},
		{Name: "int-trailer", D: one("tb-witness:int-trailer", Meth{Payload: pl, Result: res, Trailers: []string{"count"}}),
			Expect: []string{"response-metadata-code-does-not-compile"}},
		{Name: "alias-of-bytes", D: one("tb-witness:alias-of-bytes", Meth{Payload: &IO{Fields: []Fld{F(1, "blob", U("Blob"))}}, Result: pl}, UT{Name: "Blob", Alias: P("Bytes")}),
			Expect: []string{"alias-of-bytes-does-not-compile"}},
		{Name: "go-field-name", D: one("tb-witness:go-field-name", Meth{Payload: &IO{Fields: []Fld{F(1, "aB_n", P("Int"))}}, Result: pl}),
			Expect: []string{"pb-go-field-name-mismatch"}},
	}
}

// compileClass names the recorded cause of a compile failure of generated code.
func compileClass(d *Design, msg string) string {
	hasRespMD := false
	for _, s := range d.Svcs {
		for _, m := range s.Methods {
			if len(m.Headers)+len(m.Trailers) > 0 {
				hasRespMD = true
			}
		}
	}
	captured, aliasBytes := false, false
	var visit func(fs []Fld)
	visit = func(fs []Fld) {
		for _, f := range fs {
			if f.Name == "message" || f.Name == "result" || f.Name == "payload" {
				captured = true
			}
		}
	}
	for _, ut := range d.Types {
		visit(ut.Fields)
		if ut.Alias != nil && ut.Alias.K == "prim" && ut.Alias.P == "Bytes" {
			aliasBytes = true
		}
	}
	for _, s := range d.Svcs {
		for _, m := range s.Methods {
			for _, io := range []*IO{m.Payload, m.Result} {
				if io != nil {
					visit(io.Fields)
				}
			}
		}
	}
	switch {
	case captured && (strings.Contains(msg, "redeclared") || strings.Contains(msg, "has no field or method Message") || strings.Contains(msg, "has no field or method Result") || strings.Contains(msg, "has no field or method Payload")):
		return "conversion-code-identifier-capture"
	case aliasBytes && strings.Contains(msg, "[]byte"):
		return "alias-of-bytes-does-not-compile"
	case strings.Contains(msg, "has no field or method") && strings.Contains(msg, "but does have field"):
		return "pb-go-field-name-mismatch"
	case hasRespMD && (strings.Contains(msg, "undefined: p") || strings.Contains(msg, "Raw")):
		return "response-metadata-code-does-not-compile"
	}
	return "generated-code-does-not-compile"
}

// tierB builds and runs the batch and evaluates the round-trip laws.
func tierB(r *run, rng *vh.RNG, out, repo string) {
	root := filepath.Join(out, "tb")
	_ = os.RemoveAll(root)
	if err := designgen.WriteModule(root, "tb", repo, harnessDir); err != nil {
		r.res.Fail("tierB-setup", err.Error(), nil)
		return
	}
	const nDesigns, casesPerMethod = 60, 24
	var batch []*tbDesign
	add := func(d *Design, witness bool) {
		o := d.Eval()
		if o.Panic != "" {
			r.res.Fail("dsl-panic", firstLine(o.Panic), map[string]any{"design": d})
			return
		}
		if !o.Accepted {
			r.res.Count("tierB:rejected-by-goa")
			return
		}
		td := &tbDesign{Idx: len(batch), D: d, Svc: d.Svcs[0].Name, Witness: witness}
		err, panicked := emitDesign(root, td, rng, casesPerMethod)
		if panicked != "" {
			cls := designPanicClass(d, panicClass(panicked))
			r.res.Fail("generator-panic/"+cls, "goa's gRPC generator panics on a design RunDSL accepted: "+firstLine(panicked), map[string]any{"design": d})
			_ = os.RemoveAll(filepath.Join(root, fmt.Sprintf("d%d", td.Idx)))
			return
		}
		if err != nil {
			r.res.Fail("tierB-generation-error", err.Error(), map[string]any{"design": d})
			_ = os.RemoveAll(filepath.Join(root, fmt.Sprintf("d%d", td.Idx)))
			return
		}
		batch = append(batch, td)
	}
	for attempt := 0; len(batch) < nDesigns && attempt < 4*nDesigns; attempt++ {
		r.res.Count("tierB:drawn")
		// C10_TB_RESPMD=1 draws Headers / Trailers too (they do not compile on the current
		// tree: recorded finding; used to try proposed_fixes/C10-grpc-response-metadata.diff)
		add(RandomTB(rng, os.Getenv("C10_TB_RESPMD") != ""), false)
	}
	// fixed designs: every primitive kind as required / optional request metadata
	{
		var fs []Fld
		var names []string
		for i, p := range metaPrims {
			n := fmt.Sprintf("md_%c%c", 'a'+byte(i), 'x')
			f := F(i+1, n, P(p))
			f.Req = i%3 != 2
			fs = append(fs, f)
			names = append(names, n)
		}
		fs = append(fs, F(40, "body", P("String")))
		add(one("tb-cover:required-metadata", Meth{Payload: &IO{Fields: fs}, Metadata: names, Result: &IO{Fields: []Fld{F(1, "ok", P("Boolean"))}}}), false)
	}
	for _, w := range tbWitnesses() {
		r.res.Count("tierB:witness-designs")
		add(w.D, true)
	}
	// stage 1: compile every package; designs that do not compile are reported and left out
	build := exec.Command("go", "build", "./...")
	build.Dir = root
	outb, berr := build.CombinedOutput()
	broken := map[int]string{}
	if berr != nil {
		cur := -1
		for _, line := range strings.Split(string(outb), "\n") {
			var n int
			if strings.HasPrefix(line, "# tb/d") {
				if _, e := fmt.Sscanf(line, "# tb/d%d/", &n); e == nil {
					cur = n
				}
				continue
			}
			if _, e := fmt.Sscanf(line, "d%d/", &n); e == nil {
				cur = n
			}
			if cur >= 0 && strings.TrimSpace(line) != "" {
				broken[cur] += line + "\n"
			}
		}
		if len(broken) == 0 {
			r.res.Fail("tierB-build-failed", clip(string(outb)), nil)
			return
		}
	}
	for n, msg := range broken {
		if n >= len(batch) {
			continue
		}
		td := batch[n]
		r.res.Count("tierB:designs-not-compiling")
		r.res.Fail(compileClass(td.D, msg), "generated gRPC conversion code does not compile (stand-in pb package with protoc-gen-go naming): "+clip(msg), map[string]any{"design": td.D, "compiler": clip(msg)})
	}
	// stage 2: link the drivers of the designs that compile
	var mb bytes.Buffer
	mb.WriteString("package main\n\nimport (\n\t\"bufio\"\n\t\"os\"\n")
	for _, td := range batch {
		if _, bad := broken[td.Idx]; !bad {
			fmt.Fprintf(&mb, "\td%d \"tb/d%d/drv\"\n", td.Idx, td.Idx)
		}
	}
	mb.WriteString(")\n\nfunc main() {\n\tw := bufio.NewWriter(os.Stdout)\n\tdefer w.Flush()\n")
	for _, td := range batch {
		if _, bad := broken[td.Idx]; !bad {
			fmt.Fprintf(&mb, "\td%d.Run(w)\n", td.Idx)
		}
	}
	mb.WriteString("}\n")
	if err := os.MkdirAll(filepath.Join(root, "cmd", "tbrun"), 0o755); err != nil {
		panic(err)
	}
	if err := os.WriteFile(filepath.Join(root, "cmd", "tbrun", "main.go"), mb.Bytes(), 0o644); err != nil {
		panic(err)
	}
	link := exec.Command("go", "build", "-o", filepath.Join(root, "tbrun.bin"), "./cmd/tbrun")
	link.Dir = root
	if o2, err := link.CombinedOutput(); err != nil {
		r.res.Fail("tierB-build-failed", clip(string(o2)), nil)
		return
	}
	run := exec.Command(filepath.Join(root, "tbrun.bin"))
	run.Dir = root
	outb, err := run.Output()
	if err != nil {
		r.res.Fail("tierB-driver-crashed", fmt.Sprint(err), nil)
		return
	}
	// evaluate
	var values []string
	sc := bufio.NewScanner(bytes.NewReader(outb))
	sc.Buffer(make([]byte, 1<<20), 1<<26)
	nobs := 0
	distinct := map[string]bool{}
	for sc.Scan() {
		var o c10rt.Obs
		if err := json.Unmarshal(sc.Bytes(), &o); err != nil {
			r.res.Fail("tierB-observation-unreadable", err.Error(), nil)
			continue
		}
		nobs++
		td := batch[o.Design]
		tm := &td.Methods[o.Method]
		tc := tm.Cases[o.Case]
		r.res.Evaluations++
		r.res.Count("tierB:stage:" + o.Stage)
		distinct[o.PayloadIn+"|"+o.ResultIn+"|"+tm.PVT.coq()] = true
		in := map[string]any{"design": td.D, "method": tm.Name, "payload": tc.Payload, "result": tc.Result, "observation": o}
		switch {
		case o.Stage == "panic":
			r.res.Fail("tierB-conversion-panic", "generated conversion code panicked: "+o.Err, in)
		case tc.Dropped:
			r.res.Count("tierB:required-metadata-dropped-cases")
			if o.Called {
				r.res.Fail("request-without-required-metadata-reached-endpoint", "required metadata attribute "+tc.DropMD+" was not sent, the endpoint ran all the same and received "+clip(o.PayloadGot), in)
			} else if o.Stage != "handler" {
				r.res.Fail("request-without-required-metadata-not-rejected", "stage "+o.Stage+" "+o.Err, in)
			}
		case tc.Narrows:
			r.res.Count("tierB:narrowing-cases")
			if o.Stage != "done" || o.PayloadGot != o.PayloadIn || o.ResultGot != o.ResultIn {
				r.res.Count("tierB:narrowing-cases-altered")
				if r.res.Dist["tierB:narrowing-cases-altered"] > 5 {
					break // (recorded finding: a few exemplars are enough, keep room for other failures)
				}
				r.res.Fail("int-narrowing", "an Int (UInt) attribute outside the int32 (uint32) range does not survive the trip (goa converts it with int32(v) / uint32(v)): sent "+clip(o.PayloadIn+" / "+o.ResultIn)+" received "+clip(o.PayloadGot+" / "+o.ResultGot)+" "+o.Err, in)
			}
		case tc.Invalid:
			r.res.Count("tierB:invalid-cases")
			if o.Called {
				r.res.Fail("invalid-payload-reached-endpoint", "a payload violating the design's validations reached the endpoint: "+clip(o.PayloadIn), in)
			} else if o.Stage != "handler" {
				r.res.Fail("invalid-payload-not-rejected-by-server", "stage "+o.Stage+" "+o.Err, in)
			}
		default:
			r.res.Count("tierB:valid-cases")
			switch {
			case o.Stage != "done":
				r.res.Fail("valid-value-rejected", "a valid payload / result was refused at stage "+o.Stage+": "+o.Err, in)
			case !o.Called:
				r.res.Fail("endpoint-not-called", "", in)
			case o.PayloadGot != o.PayloadIn:
				r.res.Fail("payload-round-trip-differs", "sent "+clip(o.PayloadIn)+" endpoint received "+clip(o.PayloadGot), in)
			case o.ResultGot != o.ResultIn:
				r.res.Fail("result-round-trip-differs", "returned "+clip(o.ResultIn)+" client decoded "+clip(o.ResultGot), in)
			}
		}
		// model cases: conversions of unmapped payloads and results
		// (a narrowed map key may collide with another key; which entry survives depends on
		// Go's map iteration order, so those cases are left to the direct oracle)
		keyNarrows := tc.Narrows && (strings.Contains(tm.PVT.coq()+tm.RVT.coq(), "(VMap (VPrim PInt)") || strings.Contains(tm.PVT.coq()+tm.RVT.coq(), "(VMap (VPrim PUInt)"))
		if !tm.Mapped && !tc.Invalid && !tc.Dropped && !keyNarrows && o.Stage == "done" {
			i := r.newCase(caseInfo{Stream: "values", Design: td.D})
			values = append(values, fmt.Sprintf("(%d, %s, %s, %s, %s)", i, tm.PVT.coq(), o.PayloadIn, o.ReqMsg, o.PayloadGot))
			i = r.newCase(caseInfo{Stream: "values", Design: td.D})
			values = append(values, fmt.Sprintf("(%d, %s, %s, %s, %s)", i, tm.RVT.coq(), o.ResultIn, o.RespMsg, o.ResultGot))
		}
		if len(r.res.Samples) < 5 && o.Case == 0 && o.Method == 0 {
			r.res.Sample(map[string]any{"tierB": in}, 5)
		}
	}
	for k := range distinct {
		r.distinct.Add("tb:" + k)
	}
	r.res.Extra["tierB"] = map[string]any{"designs": len(batch), "designs_not_compiling": len(broken), "observations": nobs,
		"stand_in": "pb structs emitted by the harness with protoc-gen-go naming; no protobuf wire format"}
	writeLines(filepath.Join(out, "cases_values.txt"), values)
}

func clip(s string) string {
	if len(s) > 300 {
		return s[:300] + "…"
	}
	return s
}
