package main

// The direct oracle: the property's own requirements evaluated on the REAL .proto
// text with the independent recogniser of protoparse.go, against the design
// description (never against goa's internal data, never against the Coq model).
//
//   well-formed proto3; per message: numbers in 1..2^29-1 outside 19000..19999, no
//   number twice, no name twice (oneof alternatives included); every referenced
//   message defined exactly once; map keys of a legal key type;
//   one rpc per method, in order, with the designed streaming direction;
//   every designed attribute present, in design order, with its designed number,
//   label (optional / repeated / map) and scalar type; request message = payload
//   minus metadata; response message = result minus headers and trailers.

import (
	"fmt"
	"math/big"
	"strings"
)

type Finding struct {
	Sig    string         `json:"signature"`
	What   string         `json:"what"`
	Detail map[string]any `json:"detail,omitempty"`
}

var (
	maxFieldNumber = big.NewInt(536870911) // 2^29-1
	resLo          = big.NewInt(19000)
	resHi          = big.NewInt(19999)
)

var scalarOf = map[string]string{
	"Boolean": "bool", "Int": "sint32", "Int32": "sint32", "Int64": "sint64",
	"UInt": "uint32", "UInt32": "uint32", "UInt64": "uint64",
	"Float32": "float", "Float64": "double", "String": "string", "Bytes": "bytes",
}

// norm is the name comparison the oracle uses when the exact proto spelling is
// goa's choice: case and underscores are ignored.
func norm(s string) string {
	return strings.ToLower(strings.ReplaceAll(s, "_", ""))
}

// wordChars: only letters, digits and underscores (goa drops every other character,
// the oracle then has no expectation of its own about the spelling).
func wordChars(s string) bool {
	alnum := false
	for i := 0; i < len(s); i++ {
		if !isLetter(s[i]) && !isDigit(s[i]) {
			return false
		}
		if s[i] != '_' {
			alnum = true
		}
	}
	return alnum
}

// plainSnake: lower-case words of letters joined by single underscores. For such a
// design name the proto field must be spelled exactly like the attribute (unless
// it is a proto keyword, which goa suffixes with "_").
func plainSnake(s string) bool {
	// every word has at least two letters: goa merges one-letter words (f_a -> fa,
	// x_y_z -> xyz) and the oracle claims nothing about those
	for _, w := range strings.Split(s, "_") {
		if len(w) < 2 {
			return false
		}
		for i := 0; i < len(w); i++ {
			if w[i] < 'a' || w[i] > 'z' {
				return false
			}
		}
	}
	return true
}

// scope says where a message comes from, for classifying number clashes.
type scope struct {
	Kind   string // top | top-mapped | nested | wrapper
	Where  string
	Fields []Fld // designed members, in order
}

type oracle struct {
	d        *Design
	f        *PFile
	out      []Finding
	visited  map[string]string // message name -> fingerprint of the expectation it was checked against
	scopes   map[string]*scope
	sigsSeen map[string]bool
}

func (o *oracle) add(sig, what string, detail map[string]any) {
	o.out = append(o.out, Finding{sig, what, detail})
}

// resolve follows user-type references: returns the primitive name for aliases of a
// primitive, the object type for objects, or the collection type.
func (o *oracle) resolve(t *Ty) (prim string, obj *UT, coll *Ty) {
	for depth := 0; depth < 8; depth++ {
		switch t.K {
		case "prim":
			return t.P, nil, nil
		case "array", "map":
			return "", nil, t
		case "user":
			ut := o.d.ut(t.Ref)
			if ut == nil {
				return "", nil, nil
			}
			if ut.Alias == nil {
				return "", ut, nil
			}
			t = ut.Alias
		}
	}
	return "", nil, nil
}

// checkType checks that the proto type `got` is what the design type t maps to when
// used as array element / map value / plain field type; nested collections go
// through a wrapper message with the single field `field = 1`.
func (o *oracle) checkType(t *Ty, got string, where string) {
	prim, obj, coll := o.resolve(t)
	switch {
	case prim != "":
		if got != scalarOf[prim] {
			o.add("type-differs-from-design", fmt.Sprintf("%s: designed %s must be proto %s, file says %s", where, prim, scalarOf[prim], got), nil)
		}
	case obj != nil:
		o.checkMessage(got, obj.Fields, &scope{Kind: "nested", Where: "type " + obj.Name}, where)
	case coll != nil:
		// wrapper message: one field named field numbered 1 holding the collection
		m := o.f.message(got)
		if scalarTypes[got] || m == nil {
			o.add("type-differs-from-design", fmt.Sprintf("%s: a nested collection needs a wrapper message, file says %s", where, got), nil)
			return
		}
		if len(m.Fields) != 1 || m.Fields[0].Name != "field" || m.Fields[0].Number.Cmp(big.NewInt(1)) != 0 {
			o.add("wrapper-message-malformed", fmt.Sprintf("%s: wrapper %s must hold exactly `field = 1`", where, got), nil)
			return
		}
		o.scopes[got] = &scope{Kind: "wrapper", Where: where}
		o.checkCollectionField(coll, m.Fields[0], where+" (wrapper "+got+")")
	default:
		o.add("oracle-cannot-resolve-type", where, nil)
	}
}

func (o *oracle) checkCollectionField(coll *Ty, pf PField, where string) {
	if coll.K == "array" {
		if pf.Label != "repeated" {
			o.add("label-differs-from-design", fmt.Sprintf("%s: designed array must be `repeated`, file has label %q", where, pf.Label), nil)
			return
		}
		o.checkType(coll.E, pf.Type, where+"[]")
		return
	}
	if pf.Label != "map" {
		o.add("label-differs-from-design", fmt.Sprintf("%s: designed map must be `map<,>`, file has label %q type %s", where, pf.Label, pf.Type), nil)
		return
	}
	kprim, _, _ := o.resolve(coll.Key)
	if kprim != "" && pf.Key != scalarOf[kprim] { // (a non-primitive key is reported by the key-type check)
		o.add("map-key-differs-from-design", fmt.Sprintf("%s: designed key %v, file says %s", where, *coll.Key, pf.Key), nil)
	}
	o.checkType(coll.E, pf.Type, where+"{}")
}

func expectedMembers(fs []Fld) (n int) {
	for _, f := range fs {
		if f.Alts != nil {
			n += len(f.Alts)
		} else {
			n++
		}
	}
	return
}

func tagNumber(f *Fld) (*big.Int, bool) {
	if f.NoTag {
		return big.NewInt(0), true // goa's rpcTag gives 0 when there is no rpc:tag
	}
	if f.Tag == "" {
		return nil, false
	}
	for i := 0; i < len(f.Tag); i++ {
		if f.Tag[i] < '0' || f.Tag[i] > '9' {
			return nil, false
		}
	}
	n, ok := new(big.Int).SetString(f.Tag, 10)
	return n, ok
}

// checkMessage compares message `name` of the file with the designed members.
func (o *oracle) checkMessage(name string, fs []Fld, sc *scope, where string) {
	fp := fmt.Sprintf("%s|%v", sc.Kind, fs)
	if prev, ok := o.visited[name]; ok {
		if prev != fp && sc.Kind != "nested" {
			o.add("message-shared-by-different-designs", fmt.Sprintf("%s: message %s is used for two different designed shapes", where, name), nil)
		}
		return
	}
	o.visited[name] = fp
	m := o.f.message(name)
	if m == nil {
		if scalarTypes[name] {
			o.add("type-differs-from-design", fmt.Sprintf("%s: designed message type, file says scalar %s", where, name), nil)
		}
		return // undefined reference is reported by the file-level pass
	}
	sc.Fields = fs
	o.scopes[name] = sc
	if len(m.Fields) != expectedMembers(fs) {
		var got []string
		for _, pf := range m.Fields {
			got = append(got, pf.Name)
		}
		var want []string
		for _, f := range fs {
			want = append(want, f.Name)
		}
		o.add("message-fields-differ-from-design", fmt.Sprintf("%s: message %s has fields %v, the design gives it attributes %v", where, name, got, want),
			map[string]any{"message": name, "got": got, "want": want})
		return
	}
	i := 0
	one := func(f *Fld, pf PField, oneof string) {
		w := fmt.Sprintf("%s.%s", name, pf.Name)
		if (wordChars(protoStrip(f.Name)) && norm(pf.Name) != norm(protoStrip(f.Name))) || (plainSnake(f.Name) && pf.Name != f.Name && pf.Name != f.Name+"_") {
			o.add("field-name-differs-from-design", fmt.Sprintf("%s: attribute %q became field %q", w, f.Name, pf.Name), nil)
		}
		if n, ok := tagNumber(f); ok && n.Cmp(pf.Number) != 0 {
			o.add("field-number-differs-from-design", fmt.Sprintf("%s: designed number %s, file says %s", w, n, pf.Number),
				map[string]any{"message": name, "field": pf.Name, "designed": n.String(), "got": pf.Number.String()})
		}
		if (oneof == "") != (pf.Oneof == "") || (oneof != "" && norm(oneof) != norm(pf.Oneof)) {
			o.add("oneof-membership-differs-from-design", fmt.Sprintf("%s: designed oneof %q, file has oneof %q", w, oneof, pf.Oneof), nil)
		}
		prim, obj, coll := o.resolve(f.T)
		switch {
		case coll != nil:
			o.checkCollectionField(coll, pf, w)
		case prim != "":
			want := ""
			if !f.Req && oneof == "" {
				want = "optional"
			}
			if pf.Label != want {
				o.add("label-differs-from-design", fmt.Sprintf("%s: designed %s primitive must have label %q, file has %q", w, map[bool]string{true: "required", false: "optional"}[f.Req], want, pf.Label), nil)
			}
			if pf.Type != scalarOf[prim] {
				sig := "type-differs-from-design"
				if oneof != "" && o.unionAltClash(oneof, f) {
					sig = "oneof-alternative-type-name-collision"
				}
				o.add(sig, fmt.Sprintf("%s: designed %s must be proto %s, file says %s", w, prim, scalarOf[prim], pf.Type), nil)
			}
		case obj != nil:
			if pf.Label != "" {
				o.add("label-differs-from-design", fmt.Sprintf("%s: message-typed field must have no label, file has %q", w, pf.Label), nil)
			}
			o.checkMessage(pf.Type, obj.Fields, &scope{Kind: "nested", Where: "type " + obj.Name}, w)
		}
	}
	for fi := range fs {
		f := &fs[fi]
		if f.Alts != nil {
			for ai := range f.Alts {
				one(&f.Alts[ai], m.Fields[i], f.Name)
				i++
			}
			continue
		}
		one(f, m.Fields[i], "")
		i++
	}
}

// unionAltClash: does the design hold another union with this name and an alternative
// with this name but another type (goa names the wrapper type of a primitive
// alternative <union><Alternative>, whichever union it belongs to)?
func (o *oracle) unionAltClash(union string, alt *Fld) bool {
	clash := false
	var visit func(fs []Fld)
	visit = func(fs []Fld) {
		for i := range fs {
			if fs[i].Alts != nil && fs[i].Name == union {
				for j := range fs[i].Alts {
					a := &fs[i].Alts[j]
					if a != alt && a.Name == alt.Name && fmt.Sprint(*a.T) != fmt.Sprint(*alt.T) {
						clash = true
					}
				}
			}
		}
	}
	for _, ut := range o.d.Types {
		visit(ut.Fields)
	}
	for _, s := range o.d.Svcs {
		for _, m := range s.Methods {
			for _, io := range []*IO{m.Payload, m.SPayload, m.Result, m.SResult} {
				if io != nil {
					visit(io.Fields)
				}
			}
		}
	}
	return clash
}

// protoStrip drops the ":transport" suffix goa allows in attribute names.
func protoStrip(n string) string {
	if i := strings.Index(n, ":"); i > 0 {
		return n[:i]
	}
	return n
}

func without(fs []Fld, names ...[]string) []Fld {
	drop := map[string]bool{}
	for _, ns := range names {
		for _, n := range ns {
			drop[n] = true
		}
	}
	var out []Fld
	for _, f := range fs {
		if !drop[f.Name] {
			out = append(out, f)
		}
	}
	return out
}

// ioFields gives the designed members of the message that carries an IO, and whether
// the IO is an object (attributes can be mapped to metadata) or a wrapped value.
func (o *oracle) ioFields(io *IO) (fs []Fld, isObj bool, wrapped *Ty) {
	if io == nil {
		return nil, true, nil
	}
	if io.T == nil {
		return io.Fields, true, nil
	}
	_, obj, _ := o.resolve(io.T)
	if obj != nil {
		return obj.Fields, true, nil
	}
	return nil, false, io.T
}

func (o *oracle) checkTop(msg string, io *IO, listed []string, removed [][]string, mapped bool, where string) {
	fs, isObj, wrapped := o.ioFields(io)
	if !isObj {
		// primitive / array / map / alias: one required field named field numbered 1
		m := o.f.message(msg)
		if m == nil {
			return
		}
		if _, ok := o.visited[msg]; ok {
			return
		}
		o.visited[msg] = "wrapped"
		o.scopes[msg] = &scope{Kind: "wrapper", Where: where}
		if len(m.Fields) != 1 || m.Fields[0].Name != "field" || m.Fields[0].Number.Cmp(big.NewInt(1)) != 0 {
			o.add("wrapper-message-malformed", fmt.Sprintf("%s: message %s for a non-object value must hold exactly `field = 1`", where, msg), nil)
			return
		}
		prim, _, coll := o.resolve(wrapped)
		pf := m.Fields[0]
		if coll != nil {
			o.checkCollectionField(coll, pf, where)
		} else if prim != "" {
			if pf.Label != "" || pf.Type != scalarOf[prim] {
				o.add("type-differs-from-design", fmt.Sprintf("%s: designed %s must be `%s field = 1`, file has %q %s", where, prim, scalarOf[prim], pf.Label, pf.Type), nil)
			}
		}
		return
	}
	kind := "top"
	if mapped { // explicit Metadata / Headers / Trailers (credentials moved by goa itself do not switch validation off)
		kind = "top-mapped"
	}
	// an explicit Message() puts its attributes first, in its own order; the others follow in design order
	var first []Fld
	for _, n := range listed {
		for _, f := range fs {
			if f.Name == n {
				first = append(first, f)
			}
		}
	}
	if len(listed) > 0 {
		kind = "top-mapped"
	}
	o.checkMessage(msg, append(first, without(fs, append(removed, listed)...)...), &scope{Kind: kind, Where: where}, where)
}

// Check runs the whole oracle on one service's .proto text.
func Check(d *Design, svc *Svc, text string) []Finding {
	o := &oracle{d: d, visited: map[string]string{}, scopes: map[string]*scope{}}
	f, err := ParseProto(text)
	if err != nil {
		pe := err.(*parseError)
		o.add(o.classifySyntax(svc, pe), "the generated .proto is not well-formed proto3: "+pe.Error(), map[string]any{"parse_error": pe.Error()})
		return o.out
	}
	o.f = f

	// ---- service: one rpc per method, designed streaming direction
	if len(f.Services) != 1 {
		o.add("service-count", fmt.Sprintf("expected one service block, found %d", len(f.Services)), nil)
		return o.out
	}
	ps := f.Services[0]
	if norm(ps.Name) != norm(svc.Name) {
		o.add("service-name-differs", fmt.Sprintf("service %q declared as %q", svc.Name, ps.Name), nil)
	}
	if len(ps.RPCs) != len(svc.Methods) {
		o.add("rpc-count-differs-from-methods", fmt.Sprintf("%d methods, %d rpc lines", len(svc.Methods), len(ps.RPCs)), nil)
		return o.out
	}
	rpcNames := map[string]bool{}
	for i := range svc.Methods {
		m := &svc.Methods[i]
		r := ps.RPCs[i]
		if norm(r.Name) != norm(m.Name) {
			o.add("rpc-name-differs-from-method", fmt.Sprintf("method %q has rpc %q", m.Name, r.Name), nil)
		}
		if rpcNames[r.Name] {
			o.add("rpc-declared-twice", r.Name, nil)
		}
		rpcNames[r.Name] = true
		k := m.StreamKind()
		wantReq, wantResp := k == 2 || k == 4, k == 3 || k == 4
		if r.ReqStream != wantReq || r.RespStream != wantResp {
			o.add("rpc-streaming-differs-from-design",
				fmt.Sprintf("method %q is designed %s, its rpc line has request stream=%v response stream=%v", m.Name,
					map[int]string{1: "unary", 2: "client streaming", 3: "server streaming", 4: "bidirectional"}[k], r.ReqStream, r.RespStream),
				map[string]any{"method": m.Name, "kind": k})
		}
		for _, t := range []string{r.Req, r.Resp} {
			if scalarTypes[t] {
				o.add("rpc-uses-scalar", fmt.Sprintf("rpc %s uses scalar %s", r.Name, t), nil)
			}
		}
		// ---- designed content of the request / response messages
		w := svc.Name + "." + m.Name
		if wantReq {
			o.checkTop(r.Req, m.SPayload, nil, nil, false, w+" streaming request")
		} else {
			o.checkTop(r.Req, m.Payload, msgNames(m.ReqMsg), [][]string{m.Metadata, m.SecNames(o.d)}, len(m.Metadata) > 0, w+" request")
		}
		res := m.Result
		if m.SResult != nil {
			res = m.SResult
		}
		o.checkTop(r.Resp, res, msgNames(m.RespMsg), [][]string{m.Headers, m.Trailers}, len(m.Headers)+len(m.Trailers) > 0, w+" response")
	}

	// ---- every message: numbers, names, references, map keys
	msgCount := map[string]int{}
	var all []*PMessage
	var walk func(ms []*PMessage)
	walk = func(ms []*PMessage) {
		for _, m := range ms {
			msgCount[m.Name]++
			all = append(all, m)
			walk(m.Nested)
		}
	}
	walk(f.Messages)
	for n, c := range msgCount {
		if c > 1 {
			o.add("message-defined-twice", n, nil)
		}
	}
	for _, m := range all {
		o.checkNumbersAndNames(m)
		for _, pf := range m.Fields {
			if !scalarTypes[pf.Type] && msgCount[pf.Type] == 0 {
				o.add("undefined-message-reference", fmt.Sprintf("%s.%s has type %s which the file does not define", m.Name, pf.Name, pf.Type), nil)
			}
			if pf.Label == "map" && !mapKeyTypes[pf.Key] {
				o.add("map-key-type-invalid", fmt.Sprintf("%s.%s: map key type %s is not allowed by proto3 (keys are integral, bool or string scalars)", m.Name, pf.Name, pf.Key),
					map[string]any{"message": m.Name, "field": pf.Name, "key": pf.Key})
			}
		}
	}
	for _, r := range ps.RPCs {
		for _, t := range []string{r.Req, r.Resp} {
			if !scalarTypes[t] && msgCount[t] == 0 {
				o.add("undefined-message-reference", fmt.Sprintf("rpc %s uses %s which the file does not define", r.Name, t), nil)
			}
		}
	}
	return o.out
}

// designed returns the designed member that became field index i of the message, if
// the message was matched against a design scope.
func designedMember(sc *scope, i int) (*Fld, bool) {
	if sc == nil {
		return nil, false
	}
	k := 0
	for fi := range sc.Fields {
		f := &sc.Fields[fi]
		if f.Alts != nil {
			for ai := range f.Alts {
				if k == i {
					return &f.Alts[ai], true
				}
				k++
			}
			continue
		}
		if k == i {
			return f, false
		}
		k++
	}
	return nil, false
}

func (o *oracle) checkNumbersAndNames(m *PMessage) {
	sc := o.scopes[m.Name]
	scKind := "unknown"
	if sc != nil {
		scKind = sc.Kind
	}
	byNum := map[string]int{}
	byName := map[string]int{}
	for i, pf := range m.Fields {
		w := fmt.Sprintf("%s.%s = %s", m.Name, pf.Name, pf.Number)
		det := map[string]any{"message": m.Name, "field": pf.Name, "number": pf.Number.String(), "scope": scKind}
		df, _ := designedMember(sc, i)
		switch {
		case pf.Number.Sign() == 0:
			sig := "field-number-zero"
			if df != nil && df.NoTag {
				sig = "untagged-attribute-emitted-as-zero"
				if scKind == "top" {
					sig = "untagged-attribute-in-validated-scope"
				}
			}
			o.add(sig, w+": field numbers start at 1", det)
		case pf.Number.Cmp(maxFieldNumber) > 0:
			o.add("field-number-above-max", w+": the largest field number is 536870911", det)
		case pf.Number.Cmp(resLo) >= 0 && pf.Number.Cmp(resHi) <= 0:
			o.add("field-number-reserved-range", w+": 19000-19999 are reserved for the protobuf implementation", det)
		}
		if j, ok := byNum[pf.Number.String()]; ok {
			other := m.Fields[j]
			dj, _ := designedMember(sc, j)
			sig := "dup-number"
			switch {
			case df == nil || dj == nil:
				sig = "dup-number-unclassified"
			case pf.Oneof != "" || other.Oneof != "":
				sig = "dup-number-oneof-sibling"
			case df.Tag != dj.Tag || df.NoTag != dj.NoTag:
				sig = "dup-number-noncanonical-tag"
			case scKind == "nested" || scKind == "top-mapped":
				sig = "dup-number-unvalidated-scope"
			default:
				sig = "dup-number-in-validated-scope"
			}
			o.add(sig, fmt.Sprintf("message %s: fields %s and %s both have number %s", m.Name, other.Name, pf.Name, pf.Number),
				map[string]any{"message": m.Name, "fields": []string{other.Name, pf.Name}, "number": pf.Number.String(), "scope": scKind})
		} else {
			byNum[pf.Number.String()] = i
		}
		if j, ok := byName[pf.Name]; ok {
			sig := "dup-field-name"
			dj, _ := designedMember(sc, j)
			if df != nil && dj != nil && df.Name != dj.Name {
				sig = "dup-field-name-after-snake-case"
			}
			o.add(sig, fmt.Sprintf("message %s: two fields are named %s", m.Name, pf.Name),
				map[string]any{"message": m.Name, "name": pf.Name})
		} else {
			byName[pf.Name] = i
		}
	}
	for _, on := range m.Oneofs {
		if _, ok := byName[on]; ok {
			o.add("oneof-name-clashes-with-field", fmt.Sprintf("message %s: oneof and field both named %s", m.Name, on), nil)
		}
	}
}

// classifySyntax names the class of a grammar violation from the design that caused it.
func (o *oracle) classifySyntax(svc *Svc, pe *parseError) string {
	digitLed := false
	aliasColl := false
	var visitF func(fs []Fld)
	visitF = func(fs []Fld) {
		for _, f := range fs {
			if f.Alts != nil {
				visitF(f.Alts)
			}
			if n := protoStrip(f.Name); n != "" && isDigit(n[0]) {
				digitLed = true
			}
		}
	}
	for _, ut := range o.d.Types {
		visitF(ut.Fields)
		if ut.Alias != nil && (ut.Alias.K == "array" || ut.Alias.K == "map") {
			aliasColl = true
		}
	}
	for _, m := range svc.Methods {
		for _, io := range []*IO{m.Payload, m.SPayload, m.Result, m.SResult} {
			if io != nil {
				visitF(io.Fields)
			}
		}
	}
	switch {
	case pe.Class == "bad-number-or-digit-led-identifier" && digitLed:
		return "field-name-not-identifier"
	case aliasColl && pe.Class == "unexpected-token":
		return "usertype-alias-of-collection-malformed"
	}
	return "proto-syntax/" + pe.Class
}
