// Command c16 drives the real goa muxer (http/mux.go on chi) and the net/url codec it
// relies on. It writes what it observed as Coq terms (cases_codec.txt, cases_route.txt, to
// be compared with the Mux model inside Coq) and evaluates the property's own laws
// directly on the Go results (result.json: failures found by the direct oracle).
package main

import (
	"bytes"
	"encoding/gob"
	"encoding/hex"
	"encoding/json"
	"encoding/xml"
	"flag"
	"io"
	"fmt"
	"mime"
	"net/http"
	"net/http/httptest"
	"net/url"
	"os"
	"path/filepath"
	"sort"
	"strings"

	chi "github.com/go-chi/chi/v5"
	goahttp "goa.design/goa/v3/http"
	goamw "goa.design/goa/v3/http/middleware"

	"verifharness/vh"
)

// ---------------------------------------------------------------- case types

type Seg struct {
	K string `json:"k"` // lit | var | catch
	S string `json:"s"` // literal text or wildcard name
}

type Op struct {
	Use    bool   `json:"use,omitempty"` // mux.Use(middleware #MW)
	MW     int    `json:"mw,omitempty"`
	Smart  bool   `json:"smart_redirect_slashes,omitempty"` // mux.Use(middleware.SmartRedirectSlashes)
	Method string `json:"method,omitempty"` // mux.Handle(Method, Pat, handler #H)
	Pat    []Seg  `json:"pat,omitempty"`
	H      int    `json:"h,omitempty"`
}

type Case struct {
	Stream string   `json:"stream"`
	Ops    []Op     `json:"ops"`
	Method string   `json:"method"`
	Wire   string   `json:"wire_hex"` // request path as sent, hex
	Pre    []bool   `json:"pre,omitempty"`
	Accept string   `json:"accept"`
	Real   bool     `json:"real_server,omitempty"` // also send it through httptest.NewServer when no handler ran
	Chosen int      `json:"chosen"` // position in Ops of the Handle whose pattern was instantiated, -1 none
	Values []string `json:"values_hex,omitempty"`
}

func (c *Case) wire() string { b, _ := hex.DecodeString(c.Wire); return string(b) }

func patString(p []Seg) string {
	if len(p) == 1 && p[0].K == "lit" && p[0].S == "" {
		return "/"
	}
	var b strings.Builder
	for _, s := range p {
		b.WriteByte('/')
		switch s.K {
		case "lit":
			b.WriteString(s.S)
		case "var":
			b.WriteString("{" + s.S + "}")
		default:
			b.WriteString("{*" + s.S + "}")
		}
	}
	return b.String()
}

// ---------------------------------------------------------------- observation

type errBody struct {
	NameFault, HasID, Msg404, Temporary, Timeout, Fault bool
}

type Obs struct {
	ParseErr  string            `json:"parse_err,omitempty"`
	Panics    []int             `json:"panics,omitempty"`
	Ran       []int             `json:"ran,omitempty"`
	Pre       []PreAns          `json:"asked_before_next,omitempty"`
	Status    int               `json:"status"`
	Reached   int               `json:"reached"` // handler id, -1 none
	Vars      map[string]string `json:"vars,omitempty"`
	VarsNil   bool              `json:"vars_nil,omitempty"`
	HPat      string            `json:"handler_pattern"`
	PostPat   string            `json:"post_pattern"`
	CT        string            `json:"content_type,omitempty"`
	Body      string            `json:"body,omitempty"`
	BodyOK    *errBody          `json:"body_decoded,omitempty"`
	DecoderOK bool              `json:"goa_response_decoder_ok,omitempty"`
	Location  string            `json:"location,omitempty"`
	RealSeen      bool   `json:"real_server,omitempty"`
	RealStatus    int    `json:"real_status,omitempty"`
	RealCT        string `json:"real_content_type,omitempty"`
	RealBodyOK    bool   `json:"real_body_ok,omitempty"`
	RealDecoderOK bool   `json:"real_decoder_ok,omitempty"`
	Path      string            `json:"url_path"`
	RawPath   string            `json:"url_rawpath"`
	nInstalled int
}

// PreAns is what a middleware was told when it asked before calling next.
type PreAns struct {
	Pattern string            `json:"pattern"`
	Vars    map[string]string `json:"vars"`
}

type xmlErr struct {
	XMLName   xml.Name `xml:"error"`
	Name      *string  `xml:"name"`
	ID        *string  `xml:"id"`
	Message   *string  `xml:"message"`
	Temporary *bool    `xml:"temporary"`
	Timeout   *bool    `xml:"timeout"`
	Fault     *bool    `xml:"fault"`
}

func decodeBody(ct string, body []byte) *errBody {
	mk := func(name, id, msg *string, temp, to, fault *bool) *errBody {
		if name == nil || id == nil || msg == nil || temp == nil || to == nil || fault == nil {
			return nil
		}
		return &errBody{*name == "fault", *id != "", *msg == "404 page not found", *temp, *to, *fault}
	}
	switch ct {
	case "application/json":
		var m struct {
			Name      *string `json:"name"`
			ID        *string `json:"id"`
			Message   *string `json:"message"`
			Temporary *bool   `json:"temporary"`
			Timeout   *bool   `json:"timeout"`
			Fault     *bool   `json:"fault"`
		}
		dec := json.NewDecoder(bytes.NewReader(body))
		if err := dec.Decode(&m); err != nil {
			return nil
		}
		return mk(m.Name, m.ID, m.Message, m.Temporary, m.Timeout, m.Fault)
	case "application/xml":
		var m xmlErr
		if err := xml.Unmarshal(body, &m); err != nil {
			return nil
		}
		return mk(m.Name, m.ID, m.Message, m.Temporary, m.Timeout, m.Fault)
	case "application/gob":
		var m goahttp.ErrorResponse
		if err := gob.NewDecoder(bytes.NewReader(body)).Decode(&m); err != nil {
			return nil
		}
		return mk(&m.Name, &m.ID, &m.Message, &m.Temporary, &m.Timeout, &m.Fault)
	}
	return nil
}

// run builds a fresh muxer as the case says, sends the request, and records what happened.
func run(c *Case) *Obs {
	o := &Obs{Reached: -1}
	m := goahttp.NewMuxer()
	var installed []int // middleware ids in the order Use accepted them
	pos := map[int]int{}
	for i, op := range c.Ops {
		i, op := i, op
		func() {
			defer func() {
				if r := recover(); r != nil {
					o.Panics = append(o.Panics, i)
				}
			}()
			if op.Use && op.Smart {
				m.Use(goamw.SmartRedirectSlashes)
				installed = append(installed, -1)
			} else if op.Use {
				id := op.MW
				mw := func(next http.Handler) http.Handler {
					return http.HandlerFunc(func(w http.ResponseWriter, r *http.Request) {
						o.Ran = append(o.Ran, id)
						if p, ok := pos[id]; ok && p < len(c.Pre) && c.Pre[p] {
							pa := PreAns{Pattern: m.ResolvePattern(r), Vars: map[string]string{}}
							for k, v := range m.Vars(r) {
								pa.Vars[k] = v
							}
							o.Pre = append(o.Pre, pa)
						}
						next.ServeHTTP(w, r)
						o.PostPat = m.ResolvePattern(r) // the outermost middleware writes last
					})
				}
				m.Use(mw)
				pos[id] = len(installed)
				installed = append(installed, id)
			} else {
				h := op.H
				m.Handle(op.Method, patString(op.Pat), func(w http.ResponseWriter, r *http.Request) {
					o.Reached = h
					vs := m.Vars(r)
					o.VarsNil = vs == nil
					o.Vars = map[string]string{}
					for k, v := range vs {
						o.Vars[k] = v
					}
					o.HPat = m.ResolvePattern(r)
					w.WriteHeader(http.StatusOK)
				})
			}
		}()
	}
	o.nInstalled = len(installed)
	req, err := http.NewRequest(c.Method, "http://h"+c.wire(), nil)
	if err != nil {
		o.ParseErr = err.Error()
		return o
	}
	o.Path, o.RawPath = req.URL.Path, req.URL.RawPath
	if c.Accept != "" {
		req.Header.Set("Accept", c.Accept)
	}
	w := httptest.NewRecorder()
	m.ServeHTTP(w, req)
	// the response as a client receives it: the headers committed by WriteHeader, not the live map
	observeResponse(o, w.Result())
	// the same request through a real server (net/http commits and sniffs headers itself), when
	// the client would put exactly these bytes on the wire
	if c.Real && o.Reached < 0 && c.wire() != "" && req.URL.EscapedPath() == c.wire() {
		saved := *o // the middlewares and handlers write into o: keep the first observation
		srv := httptest.NewServer(m)
		rq, _ := http.NewRequest(c.Method, srv.URL+c.wire(), nil)
		if c.Accept != "" {
			rq.Header.Set("Accept", c.Accept)
		}
		cl := &http.Client{CheckRedirect: func(*http.Request, []*http.Request) error { return http.ErrUseLastResponse }}
		if resp, err := cl.Do(rq); err == nil {
			ro := &Obs{Reached: -1}
			observeResponse(ro, resp)
			saved.RealStatus, saved.RealCT, saved.RealBodyOK, saved.RealDecoderOK, saved.RealSeen = ro.Status, ro.CT, ro.BodyOK != nil, ro.DecoderOK, true
		}
		srv.Close()
		*o = saved
	}
	return o
}

func observeResponse(o *Obs, resp *http.Response) {
	body, _ := io.ReadAll(resp.Body)
	resp.Body.Close()
	o.Status = resp.StatusCode
	o.Location = resp.Header.Get("Location")
	if o.Reached < 0 {
		o.CT = resp.Header.Get("Content-Type")
		o.Body = string(body)
		o.BodyOK = decodeBody(o.CT, body)
		// ... and as goa's own client decodes it
		resp.Body = io.NopCloser(bytes.NewReader(body))
		var er goahttp.ErrorResponse
		if err := goahttp.ResponseDecoder(resp).Decode(&er); err == nil && er.Name == "fault" && er.ID != "" && er.Message == "404 page not found" && er.Fault {
			o.DecoderOK = true
		}
	}
}

// ---------------------------------------------------------------- direct oracle

// live returns the Handle ops still in effect (a later Handle for the same method and the
// same pattern up to wildcard names replaces an earlier one).
func shapeKey(op Op) string {
	var b strings.Builder
	b.WriteString(op.Method)
	for _, s := range op.Pat {
		switch s.K {
		case "lit":
			b.WriteString("/L" + s.S)
		case "var":
			b.WriteString("/V")
		default:
			b.WriteString("/C")
		}
	}
	return b.String()
}

func live(ops []Op) []int {
	last := map[string]int{}
	for i, op := range ops {
		if !op.Use {
			last[shapeKey(op)] = i
		}
	}
	var out []int
	for i, op := range ops {
		if !op.Use && last[shapeKey(op)] == i {
			out = append(out, i)
		}
	}
	return out
}

// refMatch is the property's reading of a pattern: literal segments must be equal, {name}
// takes exactly one segment (not the empty last one), {*name} takes all that is left. It
// returns the captured texts (as they stand in the routed string).
func refMatch(p []Seg, segs []string) ([]string, bool) {
	var caps []string
	for i, s := range p {
		if s.K == "catch" {
			if i >= len(segs) {
				return nil, false
			}
			return append(caps, strings.Join(segs[i:], "/")), true
		}
		if i >= len(segs) {
			return nil, false
		}
		switch s.K {
		case "lit":
			if segs[i] != s.S {
				return nil, false
			}
		case "var":
			if segs[i] == "" && i == len(segs)-1 {
				return nil, false
			}
			caps = append(caps, segs[i])
		}
	}
	if len(segs) != len(p) {
		return nil, false
	}
	return caps, true
}

func routedSegs(o *Obs) []string {
	rp := o.RawPath
	if rp == "" {
		rp = o.Path
	}
	if rp == "" {
		rp = "/"
	}
	if rp[0] != '/' {
		return nil
	}
	return strings.Split(rp[1:], "/")
}

func fullyPercentValid(v string) bool { // contains '%', and PathUnescape accepts it
	if !strings.Contains(v, "%") {
		return false
	}
	_, err := url.PathUnescape(v)
	return err == nil
}

func hexEscapeNonASCII(s string) string {
	var b strings.Builder
	for i := 0; i < len(s); i++ {
		if s[i] >= 0x80 {
			fmt.Fprintf(&b, "%%%02x", s[i])
		} else {
			b.WriteByte(s[i])
		}
	}
	return b.String()
}

func wildNames(p []Seg) []string {
	var ns []string
	for _, s := range p {
		if s.K != "lit" {
			ns = append(ns, s.S)
		}
	}
	return ns
}

func textAccept(a string) bool {
	if a == "text/html" || a == "text/plain" {
		return true
	}
	mt, _, err := mime.ParseMediaType(a)
	return err == nil && (mt == "text/html" || mt == "text/plain")
}

func oracle(c *Case, o *Obs, res *vh.Result) {
	fail := func(sig, what string) {
		res.Fail(sig, what, map[string]any{"case": c, "observed": o})
	}
	// registration
	seenHandle := false
	for i, op := range c.Ops {
		if op.Use && seenHandle {
			for _, p := range o.Panics {
				if p == i {
					fail("use-after-handle-panics", fmt.Sprintf("Use after Handle panicked (registration call #%d)", i))
				}
			}
		}
		if !op.Use {
			seenHandle = true
		}
	}
	for _, p := range o.Panics {
		if !c.Ops[p].Use {
			fail("handle-panics", fmt.Sprintf("Handle(%s, %s) panicked", c.Ops[p].Method, patString(c.Ops[p].Pat)))
		}
	}
	if o.ParseErr != "" {
		if c.Stream == "built" || strings.HasPrefix(c.Stream, "witness") {
			fail("built-url-rejected", "the URL built from the pattern was refused by url.Parse: "+o.ParseErr)
		}
		return
	}
	segs := routedSegs(o)
	var matching []int // live Handle ops (same method) whose pattern matches
	anyMethod := false
	for _, i := range live(c.Ops) {
		if _, ok := refMatch(c.Ops[i].Pat, segs); ok {
			anyMethod = true
			if c.Ops[i].Method == c.Method {
				matching = append(matching, i)
			}
		}
	}
	opOfHandler := func(h int) int {
		for _, i := range live(c.Ops) {
			if c.Ops[i].H == h {
				return i
			}
		}
		return -1
	}
	if o.Reached >= 0 {
		ri := opOfHandler(o.Reached)
		in := false
		for _, i := range matching {
			in = in || i == ri
		}
		switch {
		case !in:
			fail("wrong-handler", fmt.Sprintf("handler #%d ran, but its method/pattern does not match the request", o.Reached))
		case len(matching) == 1 && matching[0] != ri:
			fail("wrong-handler", "exactly one registered pattern matches, another handler ran")
		}
		if ri >= 0 {
			want := patString(c.Ops[ri].Pat)
			if o.HPat != want || (len(o.Ran) > 0 && o.PostPat != want) {
				sig := "pattern-misreported"
				fail(sig, fmt.Sprintf("pattern registered %q; ResolvePattern gave %q in the handler, %q in the middleware after next", want, o.HPat, o.PostPat))
			}
			// every wildcard of the reached pattern has a value, nothing else
			names := wildNames(c.Ops[ri].Pat)
			okKeys := len(o.Vars) == len(names)
			for _, n := range names {
				if _, ok := o.Vars[n]; !ok {
					okKeys = false
				}
			}
			if !okKeys {
				sig := "vars-keys"
				fail(sig, fmt.Sprintf("Vars has keys %v, the pattern's wildcards are %v", vh.SortedKeys(o.Vars), names))
			}
		}
	} else if o.Status == http.StatusMovedPermanently {
		// SmartRedirectSlashes: only for a request that matches nothing as chi routes it, to the
		// same string (RawPath when set, else Path: the client's escaping is kept) with the trailing
		// slash toggled, which must match
		smart := false
		for _, op := range c.Ops {
			smart = smart || (op.Use && op.Smart)
		}
		routed := o.RawPath
		if routed == "" {
			routed = o.Path
		}
		toggled := routed + "/"
		if strings.HasSuffix(routed, "/") {
			toggled = strings.TrimSuffix(routed, "/")
		}
		targetOK := false
		for _, i := range live(c.Ops) {
			if _, ok := refMatch(c.Ops[i].Pat, strings.Split(strings.TrimPrefix(toggled, "/"), "/")); ok && c.Ops[i].Method == c.Method && strings.HasPrefix(toggled, "/") {
				targetOK = true
			}
		}
		switch {
		case !smart:
			fail("unexpected-redirect", "301 although SmartRedirectSlashes is not mounted")
		case len(matching) > 0 && o.RawPath != "":
			fail("smart-redirect-decoded-path", fmt.Sprintf("SmartRedirectSlashes answered 301 to %q although pattern %s matches the request as chi routes it (RawPath %q): it looked at the decoded path %q", o.Location, patString(c.Ops[matching[0]].Pat), o.RawPath, o.Path))
		case len(matching) > 0:
			fail("smart-redirect-of-matching-request", fmt.Sprintf("301 to %q although pattern %s matches", o.Location, patString(c.Ops[matching[0]].Pat)))
		case o.Location != "//h"+hexEscapeNonASCII(toggled) || !targetOK:
			fail("smart-redirect-wrong-target", fmt.Sprintf("301 to %q for the routed path %q; expected //h%s, which must match a registered pattern (%v)", o.Location, routed, toggled, targetOK))
		}
	} else {
		if len(matching) > 0 {
			sig := "no-handler-for-matching-request"
			if c.Stream == "built" || strings.HasPrefix(c.Stream, "witness") {
				sig = "built-url-not-routed"
			}
			fail(sig, fmt.Sprintf("status %d and no handler ran although pattern %s matches", o.Status, patString(c.Ops[matching[0]].Pat)))
		} else if !anyMethod {
			if o.Status != 404 {
				fail("notfound-status", fmt.Sprintf("no pattern matches, status is %d", o.Status))
			} else if o.BodyOK == nil || !o.BodyOK.NameFault || !o.BodyOK.HasID || !o.BodyOK.Msg404 || !o.BodyOK.Fault || !o.DecoderOK {
				sig := "notfound-body-malformed"
				if textAccept(c.Accept) && o.Body == "" {
					sig = "notfound-text-accept-empty-body"
				}
				fail(sig, fmt.Sprintf("404 for Accept %q: committed Content-Type %q, body %q: not a well-formed error (decodable with goahttp.ResponseDecoder: %v)", c.Accept, o.CT, o.Body, o.DecoderOK))
			} else if o.RealSeen && (o.RealStatus != 404 || (c.Method != "HEAD" && (!o.RealBodyOK || !o.RealDecoderOK))) {
				fail("notfound-body-malformed", fmt.Sprintf("404 for Accept %q through a real server: status %d, Content-Type %q, decodable %v / %v", c.Accept, o.RealStatus, o.RealCT, o.RealBodyOK, o.RealDecoderOK))
			}
		}
	}
	// a middleware that asked before next was told what the handler (and a middleware after
	// next) is told: the registered pattern and the same variables; nothing when no handler runs
	for _, pa := range o.Pre {
		if o.Status == http.StatusMovedPermanently && o.Reached < 0 {
			break // redirected by SmartRedirectSlashes: no handler to compare with
		}
		wantPat, wantVars := "", map[string]string{}
		if o.Reached >= 0 {
			if ri := opOfHandler(o.Reached); ri >= 0 {
				wantPat = patString(c.Ops[ri].Pat)
			}
			wantVars = o.Vars
		}
		same := pa.Pattern == wantPat && len(pa.Vars) == len(wantVars)
		for k, v := range wantVars {
			if pv, ok := pa.Vars[k]; !ok || pv != v {
				same = false
			}
		}
		if !same {
			sig := "resolve-before-routing"
			if o.Path == "" && o.RawPath == "" {
				sig = "resolve-before-routing-empty-path"
			}
			fail(sig, fmt.Sprintf("a middleware asking before next got pattern %q and Vars %v; the handler that ran is registered as %q and got Vars %v", pa.Pattern, pa.Vars, wantPat, wantVars))
			break
		}
	}
	// the property's construction: values out == values in
	if c.Chosen >= 0 && o.Reached == c.Ops[c.Chosen].H && opOfHandler(o.Reached) == c.Chosen {
		names := wildNames(c.Ops[c.Chosen].Pat)
		for k, n := range names {
			vb, _ := hex.DecodeString(c.Values[k])
			v := string(vb)
			got, ok := o.Vars[n]
			if !ok || got == v {
				continue
			}
			sig := "value-changed"
			if u, err := url.PathUnescape(v); o.RawPath == "" && fullyPercentValid(v) && err == nil && got == u {
				sig = "double-unescape"
			}
			fail(sig, fmt.Sprintf("wildcard %s: client value %q, Vars returned %q (URL.Path %q, RawPath %q)", n, v, got, o.Path, o.RawPath))
			break
		}
	}
}

// ---------------------------------------------------------------- Coq printing

func coqB(s string) string {
	if len(s) == 0 {
		return "[]"
	}
	var b strings.Builder
	b.Grow(4*len(s) + 2)
	b.WriteByte('[')
	for i := 0; i < len(s); i++ {
		if i > 0 {
			b.WriteByte(';')
		}
		fmt.Fprintf(&b, "x%02x", s[i])
	}
	b.WriteByte(']')
	return b.String()
}

func coqOB(s string, ok bool) string {
	if !ok {
		return "None"
	}
	return "(Some " + coqB(s) + ")"
}

func coqPat(p []Seg) string {
	it := make([]string, len(p))
	for i, s := range p {
		switch s.K {
		case "lit":
			it[i] = "Lit " + coqB(s.S)
		case "var":
			it[i] = "Var " + coqB(s.S)
		default:
			it[i] = "CatchAll " + coqB(s.S)
		}
	}
	return "[" + strings.Join(it, ";") + "]"
}

func mtClass(a string) string {
	switch a {
	case "":
		return "MEmpty"
	case "application/json":
		return "MJson"
	case "application/xml":
		return "MXml"
	case "application/gob":
		return "MGob"
	case "text/html":
		return "MHtml"
	case "text/plain":
		return "MPlain"
	}
	return "MOther"
}

func ctClass(ct string) string {
	switch ct {
	case "application/json":
		return "CTJson"
	case "application/xml":
		return "CTXml"
	case "application/gob":
		return "CTGob"
	case "text/html":
		return "CTHtml"
	case "text/plain":
		return "CTPlain"
	}
	return "CTOther"
}

func coqBools(bs []bool) string {
	it := make([]string, len(bs))
	for i, b := range bs {
		it[i] = vh.CoqBool(b)
	}
	return "[" + strings.Join(it, ";") + "]"
}

func coqOptNat(n int) string {
	if n < 0 {
		return "None"
	}
	return fmt.Sprintf("(Some %d)", n)
}

// handlerOfPattern finds the live handler registered for (method, pattern string).
func handlerOfPattern(c *Case, method, pat string) int {
	for _, i := range live(c.Ops) {
		if c.Ops[i].Method == method && patString(c.Ops[i].Pat) == pat {
			return c.Ops[i].H
		}
	}
	return -1
}

func coqKV(m map[string]string) string {
	ks := vh.SortedKeys(m)
	kv := make([]string, len(ks))
	for i, k := range ks {
		kv[i] = "(" + coqB(k) + "," + coqB(m[k]) + ")"
	}
	return "[" + strings.Join(kv, ";") + "]"
}

func coqCase(idx int, c *Case, o *Obs) string {
	ops := make([]string, len(c.Ops))
	for i, op := range c.Ops {
		if op.Use {
			if op.Smart {
				ops[i] = "OUse MSmart"
			} else {
				ops[i] = fmt.Sprintf("OUse (MRec %d)", op.MW)
			}
		} else {
			ops[i] = fmt.Sprintf("OHandle %s %s %d", op.Method, coqPat(op.Pat), op.H)
		}
	}
	parsed := "None"
	if mt, _, err := mime.ParseMediaType(c.Accept); err == nil {
		parsed = "(Some " + mtClass(mt) + ")"
	}
	obs := "None"
	if o.ParseErr == "" {
		var out string
		switch {
		case o.Reached >= 0:
			out = fmt.Sprintf("(OHandled %d %s %s)", o.Reached, coqKV(o.Vars), coqB(o.HPat))
		case o.Status == 404:
			body := "None"
			if b := o.BodyOK; b != nil {
				body = fmt.Sprintf("(Some (mkerr %s %s %s %s %s %s))", vh.CoqBool(b.NameFault), vh.CoqBool(b.HasID), vh.CoqBool(b.Msg404),
					vh.CoqBool(b.Temporary), vh.CoqBool(b.Timeout), vh.CoqBool(b.Fault))
			}
			out = fmt.Sprintf("(O404 %s %s)", ctClass(o.CT), body)
		case o.Status == 405:
			out = "O405"
		case o.Status == 301 && strings.HasPrefix(o.Location, "//h"):
			out = "(O301 " + coqB(strings.TrimPrefix(o.Location, "//h")) + ")"
		default:
			out = "OOther"
		}
		pre := make([]string, len(o.Pre))
		for i, pa := range o.Pre {
			pre[i] = "(" + coqB(pa.Pattern) + "," + coqKV(pa.Vars) + ")"
		}
		obs = fmt.Sprintf("(Some (mkobs %s %s [%s] %s %s))", vh.CoqNatList(o.Panics), vh.CoqNatList(o.Ran), strings.Join(pre, ";"), out, coqB(o.PostPat))
	}
	return fmt.Sprintf("(%d%%N, mkcase [%s] %s %s %s %s %s %s %s)", idx, strings.Join(ops, ";"), c.Method, coqB(c.wire()), coqBools(c.Pre),
		mtClass(c.Accept), parsed, coqOptNat(o.Reached), obs)
}

// ---------------------------------------------------------------- generators

var pieces = []string{"%", "/", "+", " ", "?", "#", ";", ",", "%41", "%2F", "%2f", "%25", "%zz", "%4", "%e9", "é", "日本", "\xff", "\xc3", "\xe2\x82",
	"*", "~", ":", "@", "&", "=", "$", "!", "'", "(", ")", "[", "]", "\"", "<", ">", "{", "}", "|", "\\", "^", "`", ".", "..", "-", "_",
	"a", "b", "Z", "0", "9", "f", "F", "abc", "x1"}

func genString(r *vh.RNG, maxPieces int, ctl bool) string {
	n := r.Intn(maxPieces + 1)
	var b strings.Builder
	for i := 0; i < n; i++ {
		switch k := r.Intn(20); {
		case k == 0:
			c := byte(r.Intn(256))
			if !ctl && (c < 0x20 || c == 0x7f) {
				c = 'q'
			}
			b.WriteByte(c)
		case k == 1:
			fmt.Fprintf(&b, "%%%02X", r.Intn(256))
		case k == 2:
			fmt.Fprintf(&b, "%%%02x", r.Intn(256))
		default:
			b.WriteString(vh.Pick(r, pieces))
		}
	}
	return b.String()
}

var litPool = []string{"a", "b", "users", "v1", "x.y", "a-b_c", "posts", "A", "0"}
var namePool = []string{"id", "x", "y", "p", "q", "name", "A_1", "rest", "0", "2nd_key", "_", "_x", "9", "Z", "007", "__", "a1b2_C3", "very_long_wildcard_name_0123456789_ABCDEFGHIJKLMNOPQRSTUVWXYZ_abcdefghijklmnopqrstuvwxyz"}
var methods = []string{"GET", "POST", "PUT", "DELETE", "PATCH", "HEAD", "OPTIONS", "TRACE", "CONNECT"}
var mainAccepts = []string{"", "", "application/json", "application/xml", "application/gob", "application/json; charset=utf-8", "application/xml;q=0.9",
	"APPLICATION/XML", "image/png", "*/*", "text/html,application/xhtml+xml,application/xml;q=0.9,*/*;q=0.8", "application/vnd.api+json", "garbage", ";;", "text/css"}
var textAccepts = []string{"text/html", "text/plain", "text/plain; charset=utf-8", "TEXT/HTML"}

func genPattern(r *vh.RNG) []Seg {
	if r.Chance(1, 14) {
		return []Seg{{"lit", ""}} // "/"
	}
	n := 1 + r.Intn(4)
	var p []Seg
	used := map[string]bool{}
	name := func() string {
		for {
			s := vh.Pick(r, namePool)
			if !used[s] {
				used[s] = true
				return s
			}
		}
	}
	for i := 0; i < n; i++ {
		switch k := r.Intn(10); {
		case k < 5:
			p = append(p, Seg{"lit", vh.Pick(r, litPool[:4+r.Intn(len(litPool)-3)])})
		case k < 8 || i < n-1:
			p = append(p, Seg{"var", name()})
		default:
			p = append(p, Seg{"catch", name()})
		}
	}
	if p[len(p)-1].K != "catch" && r.Chance(1, 6) {
		p = append(p, Seg{"catch", name()})
	}
	return p
}

func renamed(r *vh.RNG, p []Seg) []Seg { // same shape, other wildcard names
	q := make([]Seg, len(p))
	used := map[string]bool{}
	for i, s := range p {
		q[i] = s
		if s.K != "lit" {
			for {
				n := vh.Pick(r, namePool)
				if !used[n] {
					used[n] = true
					q[i].S = n
					break
				}
			}
		}
	}
	return q
}

// genOps: 0-3 middlewares first, then 1-6 patterns over a few methods; sometimes the same
// pattern on two methods with other wildcard names, sometimes a re-registration.
func genOps(r *vh.RNG, nmw int) []Op {
	var ops []Op
	smartAt := -1
	if r.Chance(1, 3) {
		smartAt = r.Intn(nmw + 1)
	}
	for i := 0; i < nmw; i++ {
		if i == smartAt {
			ops = append(ops, Op{Use: true, Smart: true})
		}
		ops = append(ops, Op{Use: true, MW: i})
	}
	if smartAt == nmw {
		ops = append(ops, Op{Use: true, Smart: true})
	}
	n := 1 + r.Intn(6)
	ms := []string{"GET", "GET", "POST", vh.Pick(r, methods)}
	var pats [][]Seg
	for h := 0; h < n; h++ {
		var p []Seg
		me := vh.Pick(r, ms)
		switch {
		case len(pats) > 0 && r.Chance(1, 4):
			p = renamed(r, vh.Pick(r, pats))
		case len(pats) > 0 && r.Chance(1, 5): // extend an existing pattern (overlaps)
			base := vh.Pick(r, pats)
			if base[len(base)-1].K != "catch" && !(len(base) == 1 && base[0].S == "" && base[0].K == "lit") {
				p = append(append([]Seg{}, base...), genPattern(r)...)
				seen := map[string]bool{}
				ok := true
				for _, s := range p {
					if s.K != "lit" {
						ok = ok && !seen[s.S]
						seen[s.S] = true
					}
					ok = ok && !(s.K == "lit" && s.S == "")
				}
				for i, s := range p {
					ok = ok && !(s.K == "catch" && i != len(p)-1)
				}
				if !ok {
					p = genPattern(r)
				}
			} else {
				p = genPattern(r)
			}
		default:
			p = genPattern(r)
		}
		pats = append(pats, p)
		ops = append(ops, Op{Method: me, Pat: p, H: h})
	}
	return ops
}

var valuePieces = []string{"%", "%4", "%41", "%2F", "%2f", "%zz", "%25", "%2541", "/", "/", ";", ",", "+", " ", "é", "日本", "\xff", "\xf0\x9f\x98\x80", "?", "#", ".", "..", "*", "{", "}",
	"a", "b", "c", "1", "42", "Z", "abc", "=", "&", ":", "@", "~", "\"", "\\", "\x00", "\n"}

func genValue(r *vh.RNG, allowEmpty bool) string {
	for {
		n := r.Intn(5)
		if r.Chance(1, 8) {
			n = r.Intn(12)
		}
		var b strings.Builder
		for i := 0; i < n; i++ {
			if r.Chance(1, 12) {
				b.WriteByte(byte(r.Intn(256)))
			} else {
				b.WriteString(vh.Pick(r, valuePieces))
			}
		}
		if b.Len() > 0 || allowEmpty {
			return b.String()
		}
	}
}

func neutral(v string) bool { return !strings.ContainsAny(v, "/;,") }
func stable(v string) bool {
	u, err := url.PathUnescape(v)
	return err != nil || u == v
}

func buildWire(p []Seg, vals []string) string {
	if len(p) == 1 && p[0].K == "lit" && p[0].S == "" {
		return "/"
	}
	var b strings.Builder
	k := 0
	for _, s := range p {
		b.WriteByte('/')
		if s.K == "lit" {
			b.WriteString(s.S)
		} else {
			b.WriteString(url.PathEscape(vals[k]))
			k++
		}
	}
	return b.String()
}

func hexAll(vs []string) []string {
	out := make([]string, len(vs))
	for i, v := range vs {
		out[i] = hex.EncodeToString([]byte(v))
	}
	return out
}

// builtCase instantiates one registered pattern. inside=true: values inside the hypothesis of
// vars_roundtrip_partial (some value contains / ; , or every value survives PathUnescape);
// inside=false: the double-unescape class.
func builtCase(r *vh.RNG, ops []Op, inside bool, fixed []string) *Case {
	var hs []int
	for i, op := range ops {
		if !op.Use {
			hs = append(hs, i)
		}
	}
	ci := vh.Pick(r, hs)
	p := ops[ci].Pat
	var vals []string
	var single []bool
	for _, s := range p {
		if s.K == "var" {
			vals = append(vals, genValue(r, false))
			single = append(single, true)
		} else if s.K == "catch" {
			vals = append(vals, genValue(r, true))
			single = append(single, false)
		}
	}
	if fixed != nil && len(vals) > 0 {
		vals[r.Intn(len(vals))] = vh.Pick(r, fixed)
	}
	allN, allS := true, true
	for _, v := range vals {
		allN, allS = allN && neutral(v), allS && stable(v)
	}
	if inside && allN && !allS {
		if r.Bool() {
			k := r.Intn(len(vals))
			vals[k] += vh.Pick(r, []string{"/", ";", ",", "/x", ";v=1"})
		} else {
			for k := range vals {
				if !stable(vals[k]) {
					vals[k] += vh.Pick(r, []string{"%", "%z", "%4"})
				}
			}
		}
	}
	if !inside {
		if len(vals) == 0 {
			return nil
		}
		anyUnstable := false
		for k := range vals {
			vals[k] = strings.NewReplacer("/", "_", ";", "_", ",", "_").Replace(vals[k])
			if vals[k] == "" && single[k] {
				vals[k] = "v"
			}
			anyUnstable = anyUnstable || !stable(vals[k])
		}
		if !anyUnstable {
			k := r.Intn(len(vals))
			vals[k] = strings.ReplaceAll(vals[k], "%", "") + vh.Pick(r, []string{"%41", "a%2Fb", "%25", "%2541", "%C3%A9", "100%25"})
		}
	}
	return &Case{Ops: ops, Method: ops[ci].Method, Wire: hex.EncodeToString([]byte(buildWire(p, vals))), Chosen: ci, Values: hexAll(vals), Accept: vh.Pick(r, mainAccepts)}
}

var hostileSegs = []string{"", "", "a", "b", "users", "v1", "x.y", "posts", "A", "0", "%61", "a%2Fb", "%2F", "%", "%4", "%zz", "a b", "a+b", "é", "%C3%A9", "\xff", "*", "{id}", "{*p}", ";", "a;b", ",", ".", "..", "%41", "%2541", "1", "42"}

func hostileWire(r *vh.RNG, ops []Op) string {
	if r.Chance(1, 30) {
		return ""
	}
	var hs []Op
	for _, op := range ops {
		if !op.Use {
			hs = append(hs, op)
		}
	}
	var segs []string
	if r.Chance(3, 4) { // start from a registered pattern, then disturb it
		p := vh.Pick(r, hs).Pat
		for _, s := range p {
			switch {
			case s.K == "lit":
				segs = append(segs, s.S)
			case s.K == "var":
				segs = append(segs, vh.Pick(r, hostileSegs))
			default:
				for k := r.Intn(4); k > 0; k-- {
					segs = append(segs, vh.Pick(r, hostileSegs))
				}
				if r.Bool() {
					segs = append(segs, vh.Pick(r, hostileSegs))
				}
			}
		}
		switch r.Intn(6) {
		case 0:
			if len(segs) > 0 {
				segs = segs[:len(segs)-1]
			}
		case 1:
			segs = append(segs, vh.Pick(r, hostileSegs))
		case 2:
			if len(segs) > 0 {
				segs[r.Intn(len(segs))] = vh.Pick(r, hostileSegs)
			}
		case 3:
			segs = append(segs, "")
		}
	} else {
		for k := r.Intn(5); k > 0; k-- {
			segs = append(segs, vh.Pick(r, hostileSegs))
		}
	}
	w := "/" + strings.Join(segs, "/")
	// raw '?' and '#' would start the query / fragment, control bytes are refused by url.Parse
	return w
}

// ---------------------------------------------------------------- codec stream

func cleanWire(s string) string {
	var b strings.Builder
	b.WriteByte('/')
	for i := 0; i < len(s); i++ {
		c := s[i]
		if c == '?' || c == '#' || c < 0x20 || c == 0x7f {
			continue
		}
		b.WriteByte(c)
	}
	return b.String()
}

func codecCases(r *vh.RNG, n, nRewrite int, res *vh.Result, out *strings.Builder, distinct vh.Distinct) int {
	idx := 0
	emit := func(term string) {
		fmt.Fprintf(out, "(%d%%N, %s)\n", idx, term)
		idx++
	}
	corpus := []string{"", "%41", "a%2Fb", "%", "%4", "%zz", "a b", "a+b", "é", "\xff", "%25", "*", "/", "a/b", "a;b,c", "?", "#", "%2541", "%e9", "~-_.", "!$&'()*+,;=:@[]", "\x00\x7f\x80"}
	for i := 0; i < n; i++ {
		var s string
		if i < len(corpus) {
			s = corpus[i]
		} else {
			s = genString(r, 8, true)
		}
		pe, qe := url.PathEscape(s), url.QueryEscape(s)
		pu, perr := url.PathUnescape(s)
		qu, qerr := url.QueryUnescape(s)
		if b, err := url.PathUnescape(pe); err != nil || b != s {
			res.Fail("codec-path-roundtrip", fmt.Sprintf("PathUnescape(PathEscape(%q)) = %q, %v", s, b, err), map[string]any{"string_hex": hex.EncodeToString([]byte(s))})
		}
		if b, err := url.QueryUnescape(qe); err != nil || b != s {
			res.Fail("codec-query-roundtrip", fmt.Sprintf("QueryUnescape(QueryEscape(%q)) = %q, %v", s, b, err), map[string]any{"string_hex": hex.EncodeToString([]byte(s))})
		}
		emit(fmt.Sprintf("CCodec %s %s %s %s %s", coqB(s), coqB(pe), coqB(qe), coqOB(pu, perr == nil), coqOB(qu, qerr == nil)))
		distinct.Add("c" + s)
		res.Count("codec_strings")
		if perr != nil {
			res.Count("codec_unescape_errors")
		}
		// setPath through url.Parse
		w := cleanWire(s)
		if r.Chance(1, 3) {
			w = cleanWire(url.PathEscape(s) + "/" + genString(r, 3, false))
		}
		u, err := url.Parse("http://h" + w)
		if err != nil {
			emit(fmt.Sprintf("CSetPath %s None", coqB(w)))
			res.Count("setpath_errors")
		} else {
			emit(fmt.Sprintf("CSetPath %s (Some (%s,%s,%s))", coqB(w), coqB(u.Path), coqB(u.RawPath), coqB(u.EscapedPath())))
			if u.RawPath == "" {
				res.Count("setpath_rawpath_empty")
			} else {
				res.Count("setpath_rawpath_set")
			}
			if p2, err := url.PathUnescape(u.EscapedPath()); err != nil || (p2 != u.Path) {
				res.Fail("escapedpath-does-not-decode", fmt.Sprintf("EscapedPath() of %q does not decode to Path", w), map[string]any{"wire_hex": hex.EncodeToString([]byte(w))})
			}
		}
		if i%4 == 0 {
			raw := vh.Pick(r, []string{url.PathEscape(s), strings.ToLower(url.PathEscape(s)), url.QueryEscape(s), s, genString(r, 4, true), "", (&url.URL{Path: s}).EscapedPath()})
			p := s
			if r.Chance(1, 10) {
				p = "*"
			}
			e := (&url.URL{Path: p, RawPath: raw}).EscapedPath()
			emit(fmt.Sprintf("CEscapedPath %s %s %s", coqB(p), coqB(raw), coqB(e)))
			res.Count("escapedpath_cases")
		}
	}
	rewriteCases(r, nRewrite, res, emit, distinct)
	return idx
}

// rewriteCases: Handle(GET, text) with pattern TEXTS around the wildPath grammar (names over the
// whole [a-zA-Z0-9_]+, empty names, foreign bytes in or after the name, several catch-alls,
// missing braces), then a request that reaches the handler: the pattern chi was given and what
// ResolvePattern rebuilds are compared with the model's rewrite_pattern (the real regexp runs).
func rewriteCases(r *vh.RNG, n int, res *vh.Result, emit func(string), distinct vh.Distinct) {
	lits := []string{"a", "b1", "x.y", "f"}
	vars := []string{"{x}", "{id}", "{0}", "{_}"}
	names := append(append([]string{}, namePool...), "", "a-b", "p q", "\xc3\xa9", "a}", "{b", "*", "a.b")
	corpus := []string{"/a/{*x}", "/{*0}", "/a/{*2nd_key}", "/a/{*}", "/a/{*x-y}", "/a/{*x}/b/{*y}", "/a/{x}/{*_}", "/a/{*x", "/a/{* x}", "/a/x{*p}", "/{*__}", "/a/{**}", "/a/{*p}}", "/a/{{*p}"}
	for i := 0; i < n; i++ {
		var text string
		if i < len(corpus) {
			text = corpus[i]
		} else {
			var b strings.Builder
			for k := r.Intn(4); k > 0; k-- {
				b.WriteByte('/')
				if r.Chance(1, 8) {
					b.WriteString("{*" + vh.Pick(r, names) + "}") // a catch-all that is not last: chi refuses it
				} else if r.Bool() {
					b.WriteString(vh.Pick(r, lits))
				} else {
					b.WriteString(vh.Pick(r, vars))
				}
			}
			b.WriteByte('/')
			switch r.Intn(10) {
			case 0:
				b.WriteString(vh.Pick(r, lits))
			case 1:
				b.WriteString("{*" + vh.Pick(r, names))
			case 2:
				b.WriteString(vh.Pick(r, lits) + "{*" + vh.Pick(r, names) + "}")
			default:
				b.WriteString("{*" + vh.Pick(r, names) + "}")
			}
			text = b.String()
		}
		res.Count("rewrite_texts")
		var chipat, resolved string
		reached := false
		func() {
			defer func() {
				if recover() != nil {
					res.Count("rewrite_registration_refused")
				}
			}()
			m := goahttp.NewMuxer()
			m.Handle("GET", text, func(w http.ResponseWriter, rq *http.Request) {
				reached = true
				if ps := chi.RouteContext(rq.Context()).RoutePatterns; len(ps) > 0 {
					chipat = ps[len(ps)-1]
				}
				resolved = m.ResolvePattern(rq)
			})
			// a request the registered route matches: every {...} group becomes "zz"
			var p strings.Builder
			depth := 0
			for k := 0; k < len(text); k++ {
				switch c := text[k]; {
				case c == '{':
					if depth == 0 {
						p.WriteString("zz")
					}
					depth++
				case c == '}' && depth > 0:
					depth--
				case depth == 0 && c != '*':
					p.WriteByte(c)
				}
			}
			rq, err := http.NewRequest("GET", "http://h/", nil)
			if err != nil {
				return
			}
			rq.URL.Path, rq.URL.RawPath = p.String(), ""
			m.ServeHTTP(httptest.NewRecorder(), rq)
		}()
		if !reached {
			res.Count("rewrite_not_reached")
			continue
		}
		res.Count("rewrite_observed")
		distinct.Add("w" + text)
		emit(fmt.Sprintf("CRewrite %s %s %s", coqB(text), coqB(chipat), coqB(resolved)))
	}
}

// ---------------------------------------------------------------- main

func main() {
	seed := flag.Uint64("seed", 1, "")
	tier := flag.String("tier", "quick", "")
	out := flag.String("out", ".", "")
	replay := flag.String("replay", "", "")
	flag.Parse()
	rng := vh.NewRNG(*seed)
	res := vh.NewResult()
	distinct := vh.Distinct{}
	var cases []*Case

	nCodec, nBuilt, nHostile, nWitness := 4000, 7000, 4000, 50
	nRewrite := 1500
	if *tier == "thorough" {
		nCodec, nBuilt, nHostile, nWitness = 100000, 40000, 20000, 50
		nRewrite = 30000
	}

	var codec strings.Builder
	codecN := 0
	if *replay != "" {
		b, err := os.ReadFile(*replay)
		if err != nil {
			panic(err)
		}
		var rp struct {
			Input struct {
				Case *Case `json:"case"`
			} `json:"input"`
		}
		if err := json.Unmarshal(b, &rp); err != nil || rp.Input.Case == nil {
			fmt.Println("replay file has no routing case")
			os.Exit(2)
		}
		cases = append(cases, rp.Input.Case)
	} else {
		codecN = codecCases(rng.Fork(), nCodec, nRewrite, res, &codec, distinct)

		// ---- fixed corpus: the witnesses of the recorded findings and their neighbours
		get := func(p ...Seg) []Seg { return p }
		uid := get(Seg{"lit", "u"}, Seg{"var", "id"})
		files := get(Seg{"lit", "f"}, Seg{"catch", "p"})
		mk := func(stream string, ops []Op, ci int, vals []string, accept string, pre []bool) {
			cases = append(cases, &Case{Stream: stream, Ops: ops, Method: ops[ci].Method, Wire: hex.EncodeToString([]byte(buildWire(ops[ci].Pat, vals))),
				Chosen: ci, Values: hexAll(vals), Accept: accept, Pre: pre})
		}
		for _, v := range []string{"%41", "a%2Fb", "%25", "%2541", "100%25", "a%41 "} {
			mk("witness-double-unescape", []Op{{Method: "GET", Pat: uid, H: 0}}, 0, []string{v}, "", nil)
			mk("witness-double-unescape", []Op{{Method: "GET", Pat: files, H: 0}}, 0, []string{v}, "", nil)
		}
		for _, v := range []string{"abc", "a/b", "%41/", "%", "%4", "%zz", "%41%", "a b", "a+b", "é", "\xff", "a;b", "a,b", "a?b", "a#b", "*", "..", "."} {
			mk("built", []Op{{Method: "GET", Pat: uid, H: 0}}, 0, []string{v}, "", nil)
		}
		for _, v := range []string{"", "a", "a/b", "a/b/", "/", "//", "%41/x", "a%2Fb/c", "a b/c"} {
			mk("built", []Op{{Method: "GET", Pat: files, H: 0}}, 0, []string{v}, "", nil)
		}
		// ResolvePattern from a middleware before next
		mk("built", []Op{{Use: true, MW: 0}, {Method: "GET", Pat: uid, H: 0}}, 1, []string{"1"}, "", []bool{true})
		mk("built", []Op{{Use: true, MW: 0}, {Method: "GET", Pat: files, H: 0}}, 1, []string{"a/b"}, "", []bool{true})
		mk("built", []Op{{Use: true, MW: 0}, {Method: "GET", Pat: uid, H: 0},
			{Method: "GET", Pat: get(Seg{"lit", "u"}, Seg{"var", "a"}, Seg{"var", "b"}), H: 1}}, 1, []string{"a/b"}, "", []bool{true})
		mk("built", []Op{{Use: true, MW: 0}, {Use: true, MW: 1}, {Method: "GET", Pat: uid, H: 0}}, 2, []string{"1"}, "", []bool{false, false})
		// regression cases: a URL with an empty path is routed as "/" and matched as "/" before routing
		for _, p := range [][]Seg{get(Seg{"lit", ""}), get(Seg{"catch", "p"})} {
			cases = append(cases, &Case{Stream: "hostile", Ops: []Op{{Use: true, MW: 0}, {Method: "GET", Pat: p, H: 0}}, Method: "GET", Wire: "", Chosen: -1, Pre: []bool{true}})
		}
		// goa's own SmartRedirectSlashes mounted with Use, before / after a recording middleware
		smartA := []Op{{Use: true, Smart: true}, {Use: true, MW: 0}, {Method: "GET", Pat: uid, H: 0}, {Method: "GET", Pat: files, H: 1}}
		smartB := []Op{{Use: true, MW: 0}, {Use: true, Smart: true}, {Use: true, MW: 1}, {Method: "GET", Pat: uid, H: 0}, {Method: "GET", Pat: files, H: 1}}
		for _, so := range [][]Op{smartA, smartB} {
			nu := len(so) - 2
			mk("built", so, nu, []string{"123"}, "", []bool{true, true, true})
			mk("built", so, nu+1, []string{"a/b"}, "", []bool{true, true, true})
			mk("built", so, nu+1, []string{""}, "", []bool{false, true, false})
			mk("built", so, nu, []string{"a;b"}, "", []bool{true, false, true})
			mk("built", so, nu, []string{"a/"}, "", []bool{true, true, true})
			mk("built", so, nu, []string{"x/y/"}, "", nil)
			for _, w := range []string{"/u/1/", "/u", "/u/", "/f", "/f/", "/u/1/2/", "/", "", "/u/a%2F/", "/u/%C3%A9/", "/zz/"} {
				for _, me := range []string{"GET", "POST"} {
					cases = append(cases, &Case{Stream: "hostile", Ops: so, Method: me, Wire: hex.EncodeToString([]byte(w)), Chosen: -1, Pre: []bool{true, true, true}, Real: true})
				}
			}
		}
		// Use after Handle
		mk("witness-use-after-handle", []Op{{Method: "GET", Pat: uid, H: 0}, {Use: true, MW: 0}}, 0, []string{"1"}, "", nil)
		mk("witness-use-after-handle", []Op{{Use: true, MW: 0}, {Method: "GET", Pat: uid, H: 0}, {Use: true, MW: 1}}, 1, []string{"1"}, "", nil)
		// 404 bodies
		for _, a := range append(append([]string{}, mainAccepts...), textAccepts...) {
			st := "hostile"
			if textAccept(a) {
				st = "witness-notfound-text"
			}
			cases = append(cases, &Case{Stream: st, Ops: []Op{{Use: true, MW: 0}, {Method: "GET", Pat: uid, H: 0}}, Method: "GET", Wire: hex.EncodeToString([]byte("/v/1")), Chosen: -1, Accept: a, Real: true})
		}
		// same catch-all on two methods with different names; re-registration
		two := []Op{{Method: "GET", Pat: files, H: 0}, {Method: "POST", Pat: get(Seg{"lit", "f"}, Seg{"catch", "q"}), H: 1}}
		mk("built", two, 0, []string{"a/b"}, "", nil)
		mk("built", two, 1, []string{"a/b"}, "", nil)
		rereg := []Op{{Method: "GET", Pat: get(Seg{"lit", "u"}, Seg{"var", "a"}, Seg{"catch", "p"}), H: 0}, {Method: "GET", Pat: get(Seg{"lit", "u"}, Seg{"var", "b"}, Seg{"catch", "q"}), H: 1}}
		mk("built", rereg, 1, []string{"1", "x/y"}, "", nil)
		for _, w := range []string{"", "/", "/u", "/u/", "/u//", "/u/1", "/u/1/", "/u//x", "/f", "/f/", "/f//", "/u/%zz", "/u/%", "/U/1", "/u/1/2"} {
			for _, me := range []string{"GET", "POST", "HEAD"} {
				cases = append(cases, &Case{Stream: "hostile", Ops: []Op{{Method: "GET", Pat: uid, H: 0}, {Method: "GET", Pat: files, H: 1},
					{Method: "POST", Pat: get(Seg{"lit", "u"}, Seg{"var", "id"}, Seg{"lit", "x"}), H: 2}, {Method: "GET", Pat: get(Seg{"lit", ""}), H: 3}},
					Method: me, Wire: hex.EncodeToString([]byte(w)), Chosen: -1})
			}
		}

		// ---- exhaustive small pattern sets (thorough: all sets of <= 3 of 12 routes; quick: all pairs)
		vocab := [][]Seg{get(Seg{"lit", ""}), get(Seg{"lit", "a"}), get(Seg{"lit", "a"}, Seg{"var", "x"}), get(Seg{"lit", "a"}, Seg{"var", "x"}, Seg{"lit", "b"}),
			get(Seg{"lit", "a"}, Seg{"catch", "p"}), get(Seg{"var", "x"}, Seg{"var", "y"})}
		var routes []Op
		for _, me := range []string{"GET", "POST"} {
			for _, p := range vocab {
				routes = append(routes, Op{Method: me, Pat: p})
			}
		}
		reqs := []string{"/", "/a", "/a/", "/a/b", "/a//b", "/a/b/b", "/a/b/c", "/a/b%2Fc", "/b/c", "/a/%41", "/a/%2541", "//", "/a/b/"}
		maxSet := 2
		if *tier == "thorough" {
			maxSet = 3
		}
		var sets [][]int
		var rec func(start int, cur []int)
		rec = func(start int, cur []int) {
			if len(cur) > 0 {
				sets = append(sets, append([]int{}, cur...))
			}
			if len(cur) == maxSet {
				return
			}
			for i := start; i < len(routes); i++ {
				rec(i+1, append(cur, i))
			}
		}
		rec(0, nil)
		for setIdx, set := range sets {
			ops := []Op{{Use: true, MW: 0}}
			if setIdx%2 == 1 {
				ops = []Op{{Use: true, Smart: true}, {Use: true, MW: 0}}
			}
			for h, i := range set {
				op := routes[i]
				op.H = h
				ops = append(ops, op)
			}
			for _, w := range reqs {
				for _, me := range []string{"GET", "POST"} {
					cases = append(cases, &Case{Stream: "exhaustive", Ops: ops, Method: me, Wire: hex.EncodeToString([]byte(w)), Chosen: -1, Pre: []bool{true, true}})
				}
			}
		}

		// ---- random streams
		for i := 0; i < nBuilt; {
			ops := genOps(rng, rng.Intn(4))
			for k := 0; k < 3 && i < nBuilt; k++ {
				c := builtCase(rng, ops, true, nil)
				c.Stream = "built"
				c.Pre = []bool{rng.Chance(1, 3), rng.Chance(1, 3), rng.Chance(1, 3), rng.Chance(1, 3)}
				cases = append(cases, c)
				i++
			}
		}
		for i := 0; i < nHostile; {
			ops := genOps(rng, rng.Intn(3))
			for k := 0; k < 3 && i < nHostile; k++ {
				me := vh.Pick(rng, []string{"GET", "GET", "POST", vh.Pick(rng, methods)})
				hw := hostileWire(rng, ops)
				pre := []bool{rng.Chance(1, 3), rng.Chance(1, 3), rng.Chance(1, 3)}
				cases = append(cases, &Case{Stream: "hostile", Ops: ops, Method: me, Wire: hex.EncodeToString([]byte(hw)), Chosen: -1, Accept: vh.Pick(rng, mainAccepts), Pre: pre, Real: i%16 == 0})
				i++
			}
		}
		// ---- witness streams of the recorded findings
		for i := 0; i < nWitness; i++ {
			if c := builtCase(rng, genOps(rng, rng.Intn(2)), false, []string{"%41", "a%2Fb", "%25", "%2541"}); c != nil {
				c.Stream = "witness-double-unescape"
				cases = append(cases, c)
			}
			if i < 8 { // regression: the empty URL path with an early ResolvePattern, random pattern sets containing "/" or "/{*p}"
				ops := genOps(rng, 1)
				ops = append(ops, Op{Method: "GET", Pat: vh.Pick(rng, [][]Seg{{{"lit", ""}}, {{"catch", "rest"}}}), H: 9})
				cases = append(cases, &Case{Stream: "hostile", Ops: ops, Method: "GET", Wire: "", Chosen: -1, Pre: []bool{true}})
			}
			c2 := &Case{Stream: "witness-notfound-text", Ops: genOps(rng, 1), Method: "GET", Wire: hex.EncodeToString([]byte("/nowhere/zz/zz/zz/zz/zz/zz")), Chosen: -1, Accept: vh.Pick(rng, textAccepts)}
			cases = append(cases, c2)
		}
	}

	var v, inputs strings.Builder
	for i, c := range cases {
		o := run(c)
		oracle(c, o, res)
		fmt.Fprintln(&v, coqCase(i, c, o))
		res.Count("stream=" + c.Stream)
		if o.RealSeen {
			res.Count("real_server_observations")
		}
		switch {
		case o.ParseErr != "":
			res.Count("outcome=url-refused")
		case o.Reached >= 0:
			res.Count("outcome=handled")
			if o.RawPath == "" {
				res.Count("handled_rawpath_empty")
			} else {
				res.Count("handled_rawpath_set")
			}
		default:
			res.Count(fmt.Sprintf("outcome=status-%d", o.Status))
		}
		nh := 0
		for _, op := range c.Ops {
			if !op.Use {
				nh++
			}
		}
		res.Count(fmt.Sprintf("patterns=%d", nh))
		if len(c.Values) > 0 || c.Stream == "hostile" || c.Stream == "exhaustive" {
			ob, _ := json.Marshal(c.Ops)
			distinct.Add(string(ob) + c.Method + c.Wire + c.Accept + fmt.Sprint(c.Pre))
		}
		if i%997 == 3 {
			res.Sample(map[string]any{"case": c, "observed": o}, 6)
		}
		cb, _ := json.Marshal(c)
		inputs.Write(cb)
		inputs.WriteByte('\n')
	}
	res.Evaluations = len(cases) + codecN
	res.Distinct = len(distinct)
	res.Extra["codec_cases"] = codecN
	res.Extra["route_cases"] = len(cases)
	keys := vh.SortedKeys(res.Dist)
	sort.Strings(keys)
	res.Rule = "codec: strings of 0-8 pieces from an alphabet biased to % / + space ? # ; , valid and invalid %XX, multi-byte and invalid UTF-8, any byte (url.PathEscape/QueryEscape/PathUnescape/QueryUnescape, url.Parse Path/RawPath/EscapedPath); " +
		"routing: 0-3 middlewares then 1-6 patterns (literals, {name}, trailing {*name}, renamed and extended copies, several methods) on goahttp.NewMuxer(); 'built' = one registered pattern instantiated with url.PathEscape(values) drawn inside the hypothesis of vars_roundtrip_partial; " +
		"'hostile' = disturbed and random request paths, unregistered methods, Accept variants; 'exhaustive' = every set of <= 2 (quick) / <= 3 (thorough) routes out of 6 patterns x 2 methods x 13 paths x 2 methods; middlewares ask ResolvePattern/Vars before next in a third of the cases; witness streams for the recorded findings; " +
		"non-trivial = has wildcard values or is a hostile/exhaustive request; distinct = distinct (registration sequence, method, path, Accept, pre flags) plus distinct codec strings"
	if err := os.WriteFile(filepath.Join(*out, "cases_codec.txt"), []byte(codec.String()), 0o644); err != nil {
		panic(err)
	}
	if err := os.WriteFile(filepath.Join(*out, "cases_route.txt"), []byte(v.String()), 0o644); err != nil {
		panic(err)
	}
	if err := os.WriteFile(filepath.Join(*out, "route_inputs.jsonl"), []byte(inputs.String()), 0o644); err != nil {
		panic(err)
	}
	if err := res.Write(filepath.Join(*out, "result.json")); err != nil {
		panic(err)
	}
}
