// Command dgprobe exercises designgen: acceptance rate, generator errors, build verdicts.
package main

import (
	"flag"
	"fmt"
	"os"
	"os/exec"
	"path/filepath"
	"strings"

	"verifharness/designgen"
	"verifharness/vh"
)

func main() {
	seed := flag.Uint64("seed", 1, "")
	n := flag.Int("n", 50, "")
	out := flag.String("out", "/tmp/dgprobe", "")
	build := flag.Bool("build", false, "")
	repo := flag.String("repo", "/repo", "")
	flag.Parse()
	r := vh.NewRNG(*seed)
	os.RemoveAll(*out)
	if err := designgen.WriteModule(*out, "tb", *repo, ""); err != nil {
		panic(err)
	}
	acc, rej, pan, generr := 0, 0, 0, 0
	feats := map[string]int{}
	errs := map[string]int{}
	for i := 0; i < *n; i++ {
		d := designgen.Random(r.Fork(), designgen.DefaultOptions(), i)
		o := d.Eval()
		switch {
		case o.Panic != "":
			pan++
			fmt.Println("PANIC in eval:", strings.SplitN(o.Panic, "\n", 2)[0], d.JSON())
		case !o.Accepted:
			rej++
			msg := o.Err.Error()
			if len(msg) > 160 {
				msg = msg[:160]
			}
			errs[msg]++
		default:
			acc++
			for _, f := range d.Features {
				feats[f]++
			}
			dir := filepath.Join(*out, fmt.Sprintf("d%d", i))
			os.MkdirAll(dir, 0o755)
			_, err, p := designgen.Generate(dir, "gen")
			if p != "" {
				generr++
				fmt.Println("PANIC in gen:", p)
				os.WriteFile(filepath.Join(dir, "design.json"), []byte(d.JSON()), 0o644)
			} else if err != nil {
				generr++
				fmt.Println("GEN ERROR:", err)
				os.WriteFile(filepath.Join(dir, "design.json"), []byte(d.JSON()), 0o644)
			} else {
				os.WriteFile(filepath.Join(dir, "design.json"), []byte(d.JSON()), 0o644)
			}
		}
	}
	fmt.Printf("accepted %d rejected %d panics %d generr %d\n", acc, rej, pan, generr)
	for _, k := range vh.SortedKeys(errs) {
		fmt.Printf("  %3d  %s\n", errs[k], strings.ReplaceAll(k, "\n", " | "))
	}
	fmt.Println("features:", feats)
	if *build {
		cmd := exec.Command("go", "build", "./...")
		cmd.Dir = *out
		b, err := cmd.CombinedOutput()
		fmt.Println("build:", err)
		s := string(b)
		if len(s) > 6000 {
			s = s[:6000]
		}
		fmt.Println(s)
	}
}
