package main

// grpc.EncodeError in full: errors that already are, or wrap, a gRPC status (first branch
// of EncodeError: status.FromError + WithDetails), codes 1..17 and an unnamed one, status
// errors joined with / wrapped around service errors, and the encoded error encoded again
// k times (interceptors, proxies). Writes cases_grpcfull.txt, compared with
// Errors.grpc_encode_full / reencode; the laws are evaluated directly on the results.

import (
	"fmt"
	"os"
	"path/filepath"
	"strings"

	goagrpc "goa.design/goa/v3/grpc"
	goapb "goa.design/goa/v3/grpc/pb"
	"google.golang.org/grpc/codes"
	"google.golang.org/grpc/status"
	"google.golang.org/protobuf/protoadapt"
	"google.golang.org/protobuf/types/known/wrapperspb"

	"verifharness/vh"
)

// Detail is a message attached to a gRPC status.
type Detail struct {
	Kind      string `json:"kind"` // resp (goa ErrorResponse) | other (any other message)
	Tag       string `json:"tag,omitempty"`
	Name      string `json:"name,omitempty"`
	ID        string `json:"id,omitempty"`
	Msg       string `json:"msg,omitempty"`
	Timeout   bool   `json:"timeout,omitempty"`
	Temporary bool   `json:"temporary,omitempty"`
	Fault     bool   `json:"fault,omitempty"`
}

func (d Detail) coq() string {
	if d.Kind == "resp" {
		return "(DResp " + coqBody(body{Name: d.Name, ID: d.ID, Message: d.Msg, Timeout: d.Timeout, Temporary: d.Temporary, Fault: d.Fault}) + ")"
	}
	return "(DOther " + coqText(d.Tag) + ")"
}

func buildStatus(s *Shape) error {
	st := status.New(codes.Code(s.Code), s.Msg)
	if len(s.Details) > 0 {
		var ds []protoadapt.MessageV1
		for _, d := range s.Details {
			if d.Kind == "resp" {
				ds = append(ds, &goapb.ErrorResponse{Name: d.Name, Id: d.ID, Msg: d.Msg, Timeout: d.Timeout, Temporary: d.Temporary, Fault: d.Fault})
			} else {
				ds = append(ds, wrapperspb.String(d.Tag))
			}
		}
		var err error
		if st, err = st.WithDetails(ds...); err != nil {
			panic(err)
		}
	}
	return st.Err()
}

// firstStatus: the status a reader of the chain meets first.
func (s *Shape) firstStatus() *Shape {
	switch s.Kind {
	case "status":
		return s
	case "wrap", "typewrap":
		return s.Inner.firstStatus()
	case "join":
		if f := s.L.firstStatus(); f != nil {
			return f
		}
		return s.R.firstStatus()
	}
	return nil
}

type gobs struct {
	Code    int      `json:"code"`
	Msg     string   `json:"message"`
	Details []Detail `json:"details"`
}

func observeStatus(ge error) gobs {
	st, _ := status.FromError(ge)
	o := gobs{Code: int(st.Code()), Msg: st.Message()}
	for _, d := range st.Details() {
		switch m := d.(type) {
		case *goapb.ErrorResponse:
			dd := Detail{Kind: "resp", Name: m.Name, ID: m.Id, Msg: m.Msg, Timeout: m.Timeout, Temporary: m.Temporary, Fault: m.Fault}
			if freshIDre.MatchString(dd.ID) {
				dd.ID = ""
			}
			o.Details = append(o.Details, dd)
		case *wrapperspb.StringValue:
			o.Details = append(o.Details, Detail{Kind: "other", Tag: m.Value})
		default:
			o.Details = append(o.Details, Detail{Kind: "other", Tag: fmt.Sprintf("?%T", d)})
		}
	}
	return o
}

// decoded: what goagrpc.DecodeError returns, as a Detail (false: nil).
func decoded(ge error) (Detail, bool) {
	switch m := goagrpc.DecodeError(ge).(type) {
	case nil:
		return Detail{}, false
	case *goapb.ErrorResponse:
		d := Detail{Kind: "resp", Name: m.Name, ID: m.Id, Msg: m.Msg, Timeout: m.Timeout, Temporary: m.Temporary, Fault: m.Fault}
		if freshIDre.MatchString(d.ID) {
			d.ID = ""
		}
		return d, true
	case *wrapperspb.StringValue:
		return Detail{Kind: "other", Tag: m.Value}, true
	default:
		return Detail{Kind: "other", Tag: fmt.Sprintf("?%T", m)}, true
	}
}

type gfullCase struct {
	GRPCFull *Shape `json:"grpc_full"`
	K        int    `json:"reencodings"`
}

func statusS(code int, msg string, ds ...Detail) *Shape {
	return &Shape{Kind: "status", Code: code, Msg: msg, Details: ds}
}

func randStatusShape(r *vh.RNG, depth int) *Shape {
	k := r.Intn(10)
	switch {
	case depth <= 0 || k < 2:
		switch r.Intn(4) {
		case 0:
			return plainS(vh.Pick(r, words))
		case 1:
			s := svc(vh.Pick(r, encNames), r.Intn(8), fmt.Sprintf("id%d", r.Intn(1000)))
			s.Msg = vh.Pick(r, words)
			return s
		}
		return statusS(1+r.Intn(20), vh.Pick(r, words))
	case k < 5:
		return wrapS(vh.Pick(r, wrapWords), randStatusShape(r, depth-1))
	case k < 7:
		s := randStatusShape(r, depth-1)
		for n := r.Intn(8); n > 0; n-- {
			s = typeS(vh.Pick(r, wrapWords), s)
		}
		return s
	}
	return joinS(randStatusShape(r, depth-1), randStatusShape(r, depth-1))
}

func gfullShapes(r *vh.RNG, tier string) (main, witness []*Shape) {
	for _, c := range []int{1, 2, 3, 4, 5, 6, 7, 8, 9, 10, 11, 12, 13, 14, 15, 16, 17, 77} {
		main = append(main,
			statusS(c, "m"),
			wrapS("w", statusS(c, "m")),
			typeS("t", wrapS("w", statusS(c, "desc"))),
			joinS(plainS("p"), statusS(c, "m")),
			wrapS("o", joinS(statusS(c, "first"), statusS(1+c%16, "second"))))
		for _, fl := range []int{0, 1, 2, 4, 7} {
			main = append(main,
				joinS(statusS(c, "m"), svc("custom", fl, "i1")),
				joinS(svc("custom", fl, "i1"), statusS(c, "m")),
				wrapS("w", joinS(typeS("t", svc("error", fl, "i2")), wrapS("v", statusS(c, "")))))
		}
	}
	for fl := 0; fl < 8; fl++ {
		main = append(main, svc("custom", fl, "i3"), wrapS("a", wrapS("b", svc("unsupported_media_type", fl, "i4"))), joinS(plainS("p"), svc("", fl, "i5")))
	}
	main = append(main, plainS("boom"), plainS(""), wrapS("w", plainS("x")), joinS(plainS("p1"), plainS("p2")))
	n := 100
	if tier == "thorough" {
		n = 1500
	}
	for k := 0; k < n; k++ {
		main = append(main, randStatusShape(r, 1+r.Intn(4)))
	}
	// witnesses of finding grpc-roundtrip-status-with-details: the status held already carries details
	foreign := Detail{Kind: "other", Tag: "x"}
	old := Detail{Kind: "resp", Name: "old", ID: "o1", Msg: "earlier", Temporary: true}
	witness = append(witness,
		statusS(5, "missing", foreign),
		joinS(statusS(5, "missing", foreign), svc("not_found", 0, "i1")),
		wrapS("w", statusS(9, "pre", foreign, foreign)),
		joinS(svc("custom", 1, "i2"), statusS(3, "bad", old)),
		statusS(14, "later", old, foreign))
	return
}

// runGRPCFull returns the number of evaluations.
func runGRPCFull(rng *vh.RNG, tier, out string, res *vh.Result, replay *gfullCase) int {
	var cases []gfullCase
	if replay != nil {
		cases = append(cases, *replay)
	} else {
		main, witness := gfullShapes(rng, tier)
		for _, s := range append(main, witness...) {
			cases = append(cases, gfullCase{s, 0}, gfullCase{s, 1 + rng.Intn(3)})
		}
	}
	var v strings.Builder
	for i, c := range cases {
		s := c.GRPCFull
		ge0 := goagrpc.EncodeError(s.build())
		o0 := observeStatus(ge0)
		ge := ge0
		for k := 0; k < c.K; k++ {
			ge = goagrpc.EncodeError(ge)
		}
		o := observeStatus(ge)
		fail := func(sig, what string) { res.Fail(sig, what, c) }

		fst, fs, text := s.firstStatus(), s.firstService(), s.text()
		// code and message
		if fst != nil {
			if o0.Code != fst.Code {
				fail("grpc-status-code-kept", fmt.Sprintf("an error holding a gRPC status of code %d is encoded with code %d", fst.Code, o0.Code))
			}
			wantMsg := text
			if s.Kind == "status" {
				wantMsg = s.Msg
			}
			if o0.Msg != wantMsg {
				fail("grpc-status-message", fmt.Sprintf("status message %q, expected %q", o0.Msg, wantMsg))
			}
		} else {
			wantCode := codes.Unknown
			if fs != nil {
				if fs.Fault {
					wantCode = codes.Internal
				}
				if fs.Timeout {
					wantCode = codes.DeadlineExceeded
				}
				if fs.Temporary {
					wantCode = codes.Unavailable
				}
			}
			if o0.Code != int(wantCode) {
				fail("grpc-code-table", fmt.Sprintf("%s error encoded with gRPC code %d, documented table says %d", s.class(), o0.Code, int(wantCode)))
			}
			if o0.Msg != text {
				fail("grpc-status-message", fmt.Sprintf("status message %q, expected %q", o0.Msg, text))
			}
		}
		if o0.Code == 0 {
			fail("grpc-error-encoded-as-ok", "an error was encoded as the OK status")
		}
		// round trip: DecodeError gives the ErrorResponse of the error
		want := Detail{Kind: "resp", Name: "fault", Msg: text, Fault: true}
		if fs != nil {
			want = Detail{Kind: "resp", Name: fs.Name, ID: fs.ID, Msg: fs.Msg, Timeout: fs.Timeout, Temporary: fs.Temporary, Fault: fs.Fault}
		}
		got, _ := decoded(ge0)
		if got != want {
			sig := "grpc-roundtrip"
			if fst != nil && len(fst.Details) > 0 {
				sig = "grpc-roundtrip-status-with-details"
			}
			fail(sig, fmt.Sprintf("DecodeError(EncodeError(err)) = %+v; the error's own name, id, message and flags are %+v", got, want))
		}
		// encoding again changes neither code, message nor what is decoded
		gotK, okK := decoded(ge)
		if o.Code != o0.Code || o.Msg != o0.Msg || len(o.Details) != len(o0.Details)+c.K || gotK != got {
			fail("grpc-reencode-changes", fmt.Sprintf("after %d more EncodeError: code %d message %q %d details, DecodeError gives %+v; after the first: code %d message %q %d details, DecodeError gives %+v", c.K, o.Code, o.Msg, len(o.Details), gotK, o0.Code, o0.Msg, len(o0.Details), got))
		}
		decTerm := "None"
		if okK {
			decTerm = "(Some " + gotK.coq() + ")"
		}
		ds := make([]string, len(o.Details))
		for j, d := range o.Details {
			ds[j] = d.coq()
		}
		fmt.Fprintf(&v, "(%d%%N, %s, %d, (mkg %d %s %s), %s)\n", i, s.coq(), c.K, o.Code, coqText(o.Msg), vh.CoqList(ds), decTerm)
		cl := "no-status"
		if fst != nil {
			cl = "holds-status"
			if s.Kind == "status" {
				cl = "is-status"
			}
			if len(fst.Details) > 0 {
				cl += "-with-details"
			}
		}
		res.Count("grpcfull=" + cl)
		res.Count(fmt.Sprintf("grpcfull_reencodings=%d", c.K))
		if i%211 == 9 {
			res.Sample(map[string]any{"grpc_full": c, "observed": o}, 14)
		}
	}
	if err := os.WriteFile(filepath.Join(out, "cases_grpcfull.txt"), []byte(v.String()), 0o644); err != nil {
		panic(err)
	}
	res.Extra["grpcfull_cases"] = cases
	return len(cases)
}
