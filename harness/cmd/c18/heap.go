package main

import (
	"errors"
	"fmt"
	"os"
	"path/filepath"
	"sort"
	"strings"

	goahttp "goa.design/goa/v3/http"
	goa "goa.design/goa/v3/pkg"

	"verifharness/vh"
)

// heapCase is a history of merges over error variables: vars[dst] = MergeErrors(vars[i], vars[j]).
// MergeErrors updates its first argument in place, so operands are deliberately reused.
type heapCase struct {
	Leaves []Leaf   `json:"leaves"` // initial variables (ids are ignored in this stream)
	Slots  int      `json:"slots"`  // number of variables (>= len(Leaves)); extra ones start nil
	Ops    [][3]int `json:"ops"`    // dst, i, j
}

type vobs struct {
	Kind    string // nil | plain | obj | wrapped
	Msg     string
	Cur     core
	History []core
	Causes  []int
}

func noID(c core) core { c.ID = ""; return c }

func observeVar(e error, causes map[int]error) vobs {
	if e == nil {
		return vobs{Kind: "nil"}
	}
	var se *goa.ServiceError
	o := vobs{}
	if direct, ok := e.(*goa.ServiceError); ok {
		o.Kind, se = "obj", direct
	} else if errors.As(e, &se) {
		o.Kind = "wrapped"
	} else {
		return vobs{Kind: "plain", Msg: e.Error()}
	}
	o.Cur = noID(coreOf(se))
	for _, h := range se.History() {
		o.History = append(o.History, noID(coreOf(h)))
	}
	for i, c := range causes {
		if errors.Is(se, c) {
			o.Causes = append(o.Causes, i)
		}
	}
	sort.Ints(o.Causes)
	return o
}

func coqVobs(o vobs) string {
	switch o.Kind {
	case "nil":
		return "VONil"
	case "plain":
		return "(VOPlain " + vh.CoqString(o.Msg) + ")"
	}
	hs := make([]string, len(o.History))
	for i, h := range o.History {
		hs[i] = coqCore(h)
	}
	return fmt.Sprintf("(VOObj %s %s %s %s)", vh.CoqBool(o.Kind == "wrapped"), coqCore(o.Cur), vh.CoqList(hs), vh.CoqNatList(o.Causes))
}

// heapOracle: the property's sentence on the real objects: every history entry is an
// original error with its own name, field and message; the message is the concatenation
// of the history's messages; a flag is set only if every part has it.
func heapOracle(hc heapCase, finals []vobs, res *vh.Result) {
	type key struct{ name, field, msg string }
	orig := map[key]bool{}
	fld := func(p *string) string {
		if p == nil {
			return "<nil>"
		}
		return *p
	}
	for _, l := range hc.Leaves {
		if l.Kind == "nil" {
			continue
		}
		c := leafCore(l)
		orig[key{c.Name, fld(c.Field), c.Msg}] = true
	}
	for vi, o := range finals {
		if o.Kind != "obj" && o.Kind != "wrapped" {
			continue
		}
		var msgs []string
		to, te, fa := true, true, true
		for hi, h := range o.History {
			if !orig[key{h.Name, fld(h.Field), h.Msg}] {
				res.Fail("history-entry-not-an-original", fmt.Sprintf("after the merge sequence, variable %d: history[%d] = {name %q message %q} is none of the original errors (an entry shows a merged or renamed error)", vi, hi, h.Name, h.Msg), hc)
				return
			}
			msgs = append(msgs, h.Msg)
			to, te, fa = to && h.Timeout, te && h.Temporary, fa && h.Fault
		}
		if len(o.History) > 1 {
			if o.Cur.Msg != strings.Join(msgs, "; ") {
				res.Fail("message-not-concatenation-of-history", fmt.Sprintf("variable %d: message %q, its history's messages concatenate to %q", vi, o.Cur.Msg, strings.Join(msgs, "; ")), hc)
				return
			}
			if o.Cur.Timeout != to || o.Cur.Temporary != te || o.Cur.Fault != fa {
				res.Fail("flags-not-conjunction-of-history", fmt.Sprintf("variable %d: flags differ from the conjunction over its history", vi), hc)
				return
			}
		}
	}
}

func coqInit(hc heapCase) string {
	var heap, vars []string
	for _, l := range hc.Leaves {
		switch l.Kind {
		case "nil":
			vars = append(vars, "RNil")
		case "plain":
			vars = append(vars, fmt.Sprintf("(RPlain %s %d)", vh.CoqString(l.Msg), l.Cause))
		default:
			cz := "[]"
			if l.HasCause {
				cz = fmt.Sprintf("[%d]", l.Cause)
			}
			n := len(heap)
			heap = append(heap, fmt.Sprintf("{| cur := %s; hist := []; causes := %s |}", coqCore(noID(leafCore(l))), cz))
			if l.Kind == "wrapped" {
				vars = append(vars, fmt.Sprintf("(RWrap %d)", n))
			} else {
				vars = append(vars, fmt.Sprintf("(RObj %d)", n))
			}
		}
	}
	for len(vars) < hc.Slots {
		vars = append(vars, "RNil")
	}
	return fmt.Sprintf("{| heap := %s; vars := %s |}", vh.CoqList(heap), vh.CoqList(vars))
}

func runHeapCase(hc heapCase) []vobs {
	errs, causes := build(hc.Leaves)
	for len(errs) < hc.Slots {
		errs = append(errs, nil)
	}
	for _, o := range hc.Ops {
		errs[o[0]] = goa.MergeErrors(errs[o[1]], errs[o[2]])
	}
	finals := make([]vobs, len(errs))
	for i, e := range errs {
		finals[i] = observeVar(e, causes)
	}
	return finals
}

// runHeap generates the histories, runs them on the real code, writes cases_heap.txt and
// cases_client.txt; returns the number of evaluations.
func runHeap(rng *vh.RNG, tier, out string, res *vh.Result, replay *heapCase) int {
	var cases []heapCase
	if replay != nil {
		cases = append(cases, *replay)
	} else {
		n := 400
		if tier == "thorough" {
			n = 4000
		}
		// corpus: a merged error's right operand is merged into again
		cases = append(cases, heapCase{Leaves: []Leaf{
			{Kind: "service", Name: "a", Msg: "ma"}, {Kind: "service", Name: "b", Msg: "mb"}, {Kind: "service", Name: "c", Msg: "mc"}},
			Slots: 4, Ops: [][3]int{{3, 0, 1}, {1, 1, 2}}})
		for k := 0; k < n; k++ {
			nl := 2 + rng.Intn(4)
			nc := 0
			hc := heapCase{}
			for i := 0; i < nl; i++ {
				l := genLeaf(rng, &nc)
				l.ID = ""
				hc.Leaves = append(hc.Leaves, l)
			}
			hc.Slots = nl + rng.Intn(3)
			for o := 0; o < 2+rng.Intn(6); o++ {
				hc.Ops = append(hc.Ops, [3]int{rng.Intn(hc.Slots), rng.Intn(hc.Slots), rng.Intn(hc.Slots)})
			}
			cases = append(cases, hc)
		}
	}
	var v strings.Builder
	for i, hc := range cases {
		finals := runHeapCase(hc)
		heapOracle(hc, finals, res)
		var ops, obs []string
		for _, o := range hc.Ops {
			ops = append(ops, fmt.Sprintf("OMerge %d %d %d", o[0], o[1], o[2]))
		}
		for _, f := range finals {
			obs = append(obs, coqVobs(f))
		}
		fmt.Fprintf(&v, "(%d%%N, %s, %s, %s)\n", i, coqInit(hc), vh.CoqList(ops), vh.CoqList(obs))
		res.Count(fmt.Sprintf("heap_ops=%d", len(hc.Ops)))
		if i%131 == 7 {
			res.Sample(map[string]any{"history": hc, "final_variables": finals}, 6)
		}
	}
	if err := os.WriteFile(filepath.Join(out, "cases_heap.txt"), []byte(v.String()), 0o644); err != nil {
		panic(err)
	}
	res.Extra["heap_cases"] = cases
	// client-side flag table: every status code 100..599 through the real ErrInvalidResponse
	v.Reset()
	idx := 0
	for code := 100; code < 600; code++ {
		ce, _ := goahttp.ErrInvalidResponse("s", "m", code, "").(*goahttp.ClientError)
		if ce == nil {
			res.Fail("client-error-type", "ErrInvalidResponse did not return a *ClientError", code)
			continue
		}
		fmt.Fprintf(&v, "(%d%%N, %d, %s, %s, %s)\n", idx, code, vh.CoqBool(ce.Timeout), vh.CoqBool(ce.Temporary), vh.CoqBool(ce.Fault))
		idx++
	}
	// direct oracle: the client's flags for the status of each flag vector are the ones the table encodes
	for fl := 0; fl < 8; fl++ {
		to, te, fa := fl&1 != 0, fl&2 != 0, fl&4 != 0
		st := (&goahttp.ErrorResponse{Name: "x", Timeout: to, Temporary: te, Fault: fa}).StatusCode()
		ce := goahttp.ErrInvalidResponse("s", "m", st, "").(*goahttp.ClientError)
		wto, wte, wfa := to, te, false
		if fa {
			wto, wte, wfa = false, false, true
		}
		if ce.Timeout != wto || ce.Temporary != wte || ce.Fault != wfa {
			res.Fail("client-flags-disagree-with-status-table", fmt.Sprintf("a server error with timeout=%v temporary=%v fault=%v is sent as %d; the client reports timeout=%v temporary=%v fault=%v", to, te, fa, st, ce.Timeout, ce.Temporary, ce.Fault),
				map[string]any{"timeout": to, "temporary": te, "fault": fa, "status": st})
		}
	}
	if err := os.WriteFile(filepath.Join(out, "cases_client.txt"), []byte(v.String()), 0o644); err != nil {
		panic(err)
	}
	return len(cases) + idx + 8
}
