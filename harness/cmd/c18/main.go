// Command c18 drives the real goa error code (pkg/error.go MergeErrors/History,
// http/error.go StatusCode, grpc/error.go EncodeError/DecodeError) on generated
// merge trees and flag vectors, writes what it observed as Coq terms (cases.v, to be
// compared with the Errors model inside Coq) and evaluates the property's laws
// directly on the Go results (result.json: failures found by the direct oracle).
package main

import (
	"context"
	"encoding/json"
	"errors"
	"flag"
	"fmt"
	"os"
	"path/filepath"
	"sort"
	"strings"

	goagrpc "goa.design/goa/v3/grpc"
	goapb "goa.design/goa/v3/grpc/pb"
	goahttp "goa.design/goa/v3/http"
	goa "goa.design/goa/v3/pkg"
	"google.golang.org/grpc/codes"
	"google.golang.org/grpc/status"

	"verifharness/vh"
)

type Leaf struct {
	Kind      string  `json:"kind"` // nil | service | wrapped | plain
	Name      string  `json:"name,omitempty"`
	ID        string  `json:"id,omitempty"`
	Field     *string `json:"field,omitempty"`
	Msg       string  `json:"msg,omitempty"`
	Timeout   bool    `json:"timeout,omitempty"`
	Temporary bool    `json:"temporary,omitempty"`
	Fault     bool    `json:"fault,omitempty"`
	Wrap      string  `json:"wrap,omitempty"`
	HasCause  bool    `json:"has_cause,omitempty"`
	Cause     int     `json:"cause,omitempty"` // index into the case's cause table
}

// Tree is a binary merge tree over leaf indexes: either {"leaf": i} or {"l":..., "r":...}
type Tree struct {
	Leaf *int  `json:"leaf,omitempty"`
	L    *Tree `json:"l,omitempty"`
	R    *Tree `json:"r,omitempty"`
}

type Case struct {
	Leaves []Leaf `json:"leaves"`
	Tree   *Tree  `json:"tree"`
}

type core struct {
	Name, ID, Msg             string
	Field                     *string
	Timeout, Temporary, Fault bool
}

type obs struct {
	Kind    string // nil | plain | wrapped | serv
	Msg     string // plain: message
	Wrap    string
	Cur     core
	History []core
	Causes  []int
}

var names = []string{"error", "error", "bad_request", "not_found", "fault", "unsupported_media_type", "timeout"}
var words = []string{"ma", "mb", "boom", "x", "", "a; b", "disk full", "e1", "quota \"q\""}

func genLeaf(r *vh.RNG, ncause *int) Leaf {
	switch k := r.Intn(10); {
	case k < 2:
		return Leaf{Kind: "nil"}
	case k < 4:
		c := *ncause
		*ncause++
		return Leaf{Kind: "plain", Msg: vh.Pick(r, words), Cause: c}
	default:
		l := Leaf{Kind: "service", Name: vh.Pick(r, names), ID: fmt.Sprintf("id%d", r.Intn(1000)), Msg: vh.Pick(r, words),
			Timeout: r.Bool(), Temporary: r.Bool(), Fault: r.Bool()}
		if r.Chance(1, 3) {
			f := vh.Pick(r, []string{"f", "body.x", ""})
			l.Field = &f
		}
		if r.Chance(1, 3) {
			l.HasCause = true
			l.Cause = *ncause
			*ncause++
		}
		if k >= 8 {
			l.Kind = "wrapped"
			l.Wrap = vh.Pick(r, []string{"ctx", "while doing x", "w"})
		}
		return l
	}
}

// allTrees enumerates every binary tree shape over leaves lo..hi-1 (in order).
func allTrees(lo, hi int) []*Tree {
	if hi-lo == 1 {
		i := lo
		return []*Tree{{Leaf: &i}}
	}
	var out []*Tree
	for m := lo + 1; m < hi; m++ {
		for _, l := range allTrees(lo, m) {
			for _, rr := range allTrees(m, hi) {
				out = append(out, &Tree{L: l, R: rr})
			}
		}
	}
	return out
}

func randTree(r *vh.RNG, lo, hi int) *Tree {
	if hi-lo == 1 {
		i := lo
		return &Tree{Leaf: &i}
	}
	m := lo + 1 + r.Intn(hi-lo-1)
	return &Tree{L: randTree(r, lo, m), R: randTree(r, m, hi)}
}

// build makes fresh Go errors for a case (merging mutates, so every tree gets its own).
func build(ls []Leaf) (errs []error, causes map[int]error) {
	causes = map[int]error{}
	for _, l := range ls {
		switch l.Kind {
		case "nil":
			errs = append(errs, nil)
		case "plain":
			e := errors.New(l.Msg)
			causes[l.Cause] = e
			errs = append(errs, e)
		default:
			var se *goa.ServiceError
			if l.HasCause {
				c := errors.New(l.Msg)
				causes[l.Cause] = c
				se = goa.NewServiceError(c, l.Name, l.Timeout, l.Temporary, l.Fault)
				se.ID = l.ID
			} else {
				se = &goa.ServiceError{Name: l.Name, ID: l.ID, Message: l.Msg, Timeout: l.Timeout, Temporary: l.Temporary, Fault: l.Fault}
			}
			if l.Field != nil {
				f := *l.Field
				se.Field = &f
			}
			if l.Kind == "wrapped" {
				errs = append(errs, fmt.Errorf(l.Wrap+": %w", se))
			} else {
				errs = append(errs, se)
			}
		}
	}
	return
}

func mergeTree(t *Tree, errs []error) error {
	if t.Leaf != nil {
		return errs[*t.Leaf]
	}
	return goa.MergeErrors(mergeTree(t.L, errs), mergeTree(t.R, errs))
}

func coreOf(e *goa.ServiceError) core {
	c := core{Name: e.Name, ID: e.ID, Msg: e.Message, Timeout: e.Timeout, Temporary: e.Temporary, Fault: e.Fault}
	if e.Field != nil {
		f := *e.Field
		c.Field = &f
	}
	return c
}

func observe(res error, causes map[int]error) obs {
	var o obs
	for i, c := range causes {
		if res != nil && errors.Is(res, c) {
			o.Causes = append(o.Causes, i)
		}
	}
	sort.Ints(o.Causes)
	if res == nil {
		o.Kind = "nil"
		return o
	}
	var se *goa.ServiceError
	if direct, ok := res.(*goa.ServiceError); ok {
		o.Kind = "serv"
		se = direct
	} else if errors.As(res, &se) {
		o.Kind = "wrapped"
		o.Wrap = strings.TrimSuffix(res.Error(), ": "+se.Message)
	} else {
		o.Kind = "plain"
		o.Msg = res.Error()
		return o
	}
	o.Cur = coreOf(se)
	for _, h := range se.History() {
		o.History = append(o.History, coreOf(h))
	}
	return o
}

func nonnil(ls []Leaf) []Leaf {
	var out []Leaf
	for _, l := range ls {
		if l.Kind != "nil" {
			out = append(out, l)
		}
	}
	return out
}

// blankIDs removes the identifiers NewErrorID draws at random (for plain errors).
func blankIDs(o *obs, ls []Leaf) {
	nn := nonnil(ls)
	if o.Kind == "serv" || o.Kind == "wrapped" {
		if len(nn) > 0 && nn[0].Kind == "plain" {
			o.Cur.ID = ""
		}
		if len(o.History) == len(nn) {
			for i := range nn {
				if nn[i].Kind == "plain" {
					o.History[i].ID = ""
				}
			}
		}
	}
}

// ---- direct oracle: the property's laws evaluated on the Go results ----

func leafCore(l Leaf) core {
	if l.Kind == "plain" {
		return core{Name: "error", Msg: l.Msg, Fault: true}
	}
	return core{Name: l.Name, ID: l.ID, Msg: l.Msg, Field: l.Field, Timeout: l.Timeout, Temporary: l.Temporary, Fault: l.Fault}
}

func sameField(a, b *string) bool {
	if a == nil || b == nil {
		return a == b
	}
	return *a == *b
}

func oracle(c Case, o obs, res *vh.Result) {
	nn := nonnil(c.Leaves)
	fail := func(sig, what string) { res.Fail(sig, what, c) }
	switch len(nn) {
	case 0:
		if o.Kind != "nil" {
			fail("nil-not-neutral", "merging only nil errors returned a non-nil error")
		}
		return
	case 1:
		// merging with nil changes nothing
		want := leafCore(nn[0])
		switch nn[0].Kind {
		case "plain":
			if o.Kind != "plain" || o.Msg != nn[0].Msg {
				fail("nil-not-neutral", "a plain error merged with nil changed")
			}
		default:
			if (nn[0].Kind == "service" && o.Kind != "serv") || (nn[0].Kind == "wrapped" && o.Kind != "wrapped") ||
				o.Cur.Name != want.Name || o.Cur.Msg != want.Msg || o.Cur.ID != want.ID || !sameField(o.Cur.Field, want.Field) ||
				o.Cur.Timeout != want.Timeout || o.Cur.Temporary != want.Temporary || o.Cur.Fault != want.Fault {
				fail("nil-not-neutral", "a service error merged with nil changed")
			}
		}
	default:
		if o.Kind != "serv" {
			fail("merge-not-service-error", "merging two or more errors did not return a *ServiceError")
			return
		}
		var msgs []string
		to, te, fa := true, true, true
		name := "error"
		for _, l := range nn {
			lc := leafCore(l)
			msgs = append(msgs, lc.Msg)
			to, te, fa = to && lc.Timeout, te && lc.Temporary, fa && lc.Fault
			if name == "error" && lc.Name != "error" {
				name = lc.Name
			}
		}
		if o.Cur.Msg != strings.Join(msgs, "; ") {
			fail("message-not-concatenated", fmt.Sprintf("merged message %q, expected %q", o.Cur.Msg, strings.Join(msgs, "; ")))
		}
		if o.Cur.Timeout != to || o.Cur.Temporary != te || o.Cur.Fault != fa {
			fail("flags-not-conjunction", fmt.Sprintf("flags timeout=%v temporary=%v fault=%v, expected %v %v %v", o.Cur.Timeout, o.Cur.Temporary, o.Cur.Fault, to, te, fa))
		}
		if o.Cur.Name != name {
			fail("name-not-first-specific", fmt.Sprintf("merged name %q, expected %q", o.Cur.Name, name))
		}
		if len(o.History) != len(nn) {
			fail("history-length", fmt.Sprintf("history has %d entries for %d original errors", len(o.History), len(nn)))
		} else {
			for i, l := range nn {
				lc, h := leafCore(l), o.History[i]
				if h.Name != lc.Name || h.Msg != lc.Msg || !sameField(h.Field, lc.Field) {
					fail("history-entry-changed", fmt.Sprintf("history[%d] = {name %q message %q}, the original error had {name %q message %q}", i, h.Name, h.Msg, lc.Name, lc.Msg))
					break
				}
			}
		}
	}
	// every original cause is reachable through standard unwrapping
	var wantCauses []int
	for _, l := range nn {
		if l.Kind == "plain" || l.HasCause {
			wantCauses = append(wantCauses, l.Cause)
		}
	}
	sort.Ints(wantCauses)
	if fmt.Sprint(wantCauses) != fmt.Sprint(o.Causes) && !(len(wantCauses) == 0 && len(o.Causes) == 0) {
		fail("cause-unreachable", fmt.Sprintf("causes reachable by errors.Is: %v, original causes: %v", o.Causes, wantCauses))
	}
}

// ---- Coq printing ----

func coqCore(c core) string {
	return fmt.Sprintf("(mkc %s %s %s %s %s %s %s)", vh.CoqString(c.Name), vh.CoqString(c.ID), vh.CoqOpt(c.Field, vh.CoqString),
		vh.CoqString(c.Msg), vh.CoqBool(c.Timeout), vh.CoqBool(c.Temporary), vh.CoqBool(c.Fault))
}

func coqLeaf(l Leaf) string {
	switch l.Kind {
	case "nil":
		return "LNil"
	case "plain":
		return fmt.Sprintf("(LPlain %s \"\" %d)", vh.CoqString(l.Msg), l.Cause)
	}
	cz := "None"
	if l.HasCause {
		cz = fmt.Sprintf("(Some %d)", l.Cause)
	}
	if l.Kind == "wrapped" {
		return fmt.Sprintf("(LWrapped %s %s %s)", vh.CoqString(l.Wrap), coqCore(leafCore(l)), cz)
	}
	return fmt.Sprintf("(LService %s %s)", coqCore(leafCore(l)), cz)
}

func coqTree(t *Tree, ls []Leaf) string {
	if t.Leaf != nil {
		return "(Leaf " + coqLeaf(ls[*t.Leaf]) + ")"
	}
	return "(Node " + coqTree(t.L, ls) + " " + coqTree(t.R, ls) + ")"
}

func coqObs(o obs) string {
	switch o.Kind {
	case "nil":
		return "ONil"
	case "plain":
		return fmt.Sprintf("(OPlain %s %s)", vh.CoqString(o.Msg), vh.CoqNatList(o.Causes))
	}
	hs := make([]string, len(o.History))
	for i, h := range o.History {
		hs[i] = coqCore(h)
	}
	if o.Kind == "wrapped" {
		return fmt.Sprintf("(OWrapped %s %s %s %s)", vh.CoqString(o.Wrap), coqCore(o.Cur), vh.CoqList(hs), vh.CoqNatList(o.Causes))
	}
	return fmt.Sprintf("(OServ %s %s %s)", coqCore(o.Cur), vh.CoqList(hs), vh.CoqNatList(o.Causes))
}

func grpcCodeName(c codes.Code) string {
	switch c {
	case codes.Unknown:
		return "Unknown"
	case codes.Internal:
		return "Internal"
	case codes.DeadlineExceeded:
		return "DeadlineExceeded"
	case codes.Unavailable:
		return "Unavailable"
	}
	return "Other" + fmt.Sprint(int(c))
}

func main() {
	seed := flag.Uint64("seed", 1, "")
	tier := flag.String("tier", "quick", "")
	out := flag.String("out", ".", "")
	replay := flag.String("replay", "", "")
	flag.Parse()
	rng := vh.NewRNG(*seed)
	res := vh.NewResult()
	var cases []Case
	var heapReplay *heapCase
	var encReplay *encCase
	var gfullReplay *gfullCase

	if *replay != "" {
		b, err := os.ReadFile(*replay)
		if err != nil {
			panic(err)
		}
		var rp struct {
			Input Case `json:"input"`
		}
		var hp struct {
			Input heapCase `json:"input"`
		}
		var ep struct {
			Input struct {
				encCase
				GRPCShape *Shape `json:"grpc_shape"`
			} `json:"input"`
		}
		var gp struct {
			Input gfullCase `json:"input"`
		}
		if err := json.Unmarshal(b, &gp); err == nil && gp.Input.GRPCFull != nil {
			gfullReplay = &gp.Input
		} else if err := json.Unmarshal(b, &ep); err == nil && (ep.Input.Shape != nil || ep.Input.GRPCShape != nil) {
			encReplay = &ep.Input.encCase
			if encReplay.Shape == nil {
				encReplay = &encCase{Formatter: "default", Encoding: "json", Shape: ep.Input.GRPCShape}
			}
		} else if err := json.Unmarshal(b, &hp); err == nil && len(hp.Input.Ops) > 0 {
			heapReplay = &hp.Input
		} else if err := json.Unmarshal(b, &rp); err != nil || rp.Input.Tree == nil {
			fmt.Println("replay file has no merge-tree, merge-history or error-encoder input")
			os.Exit(2)
		} else {
			cases = append(cases, rp.Input)
		}
	} else {
		maxAll, perN, extra := 5, 60, 300
		if *tier == "thorough" {
			maxAll, perN, extra = 8, 30, 3000
		}
		// fixed corpus first: the grouping witness of the history defect
		corpus := [][]Leaf{{
			{Kind: "service", Name: "error", ID: "i1", Msg: "ma", Timeout: true, Temporary: true},
			{Kind: "service", Name: "b", ID: "i2", Msg: "mb", Timeout: true},
			{Kind: "service", Name: "c", ID: "i3", Msg: "mc", Fault: true}}}
		for _, ls := range corpus {
			for _, t := range allTrees(0, len(ls)) {
				cases = append(cases, Case{ls, t})
			}
		}
		for n := 1; n <= maxAll; n++ {
			shapes := allTrees(0, n)
			for k := 0; k < perN; k++ {
				nc := 0
				ls := make([]Leaf, n)
				for i := range ls {
					ls[i] = genLeaf(rng, &nc)
				}
				for _, t := range shapes {
					cases = append(cases, Case{ls, t})
				}
			}
		}
		for k := 0; k < extra; k++ {
			n := 2 + rng.Intn(7)
			nc := 0
			ls := make([]Leaf, n)
			for i := range ls {
				ls[i] = genLeaf(rng, &nc)
			}
			// two random groupings of the same sequence
			cases = append(cases, Case{ls, randTree(rng, 0, n)}, Case{ls, randTree(rng, 0, n)})
		}
	}

	var v strings.Builder
	distinct := vh.Distinct{}
	byLeaves := map[string]string{} // leaf sequence -> first observation (grouping law, checked in Go)
	for i, c := range cases {
		errs, causes := build(c.Leaves)
		r := mergeTree(c.Tree, errs)
		o := observe(r, causes)
		oracle(c, o, res)
		blankIDs(&o, c.Leaves)
		lk, _ := json.Marshal(c.Leaves)
		ok, _ := json.Marshal(o)
		if prev, seen := byLeaves[string(lk)]; seen {
			if prev != string(ok) {
				res.Fail("grouping-changes-result", "two groupings of the same error sequence give different results", c)
			}
		} else {
			byLeaves[string(lk)] = string(ok)
		}
		nn := len(nonnil(c.Leaves))
		res.Count(fmt.Sprintf("nonnil_leaves=%d", nn))
		for _, l := range c.Leaves {
			res.Count("leaf_kind=" + l.Kind)
		}
		if nn >= 2 {
			tk, _ := json.Marshal(c.Tree)
			distinct.Add(string(lk) + string(tk))
		}
		fmt.Fprintf(&v, "(%d%%N, %s, %s)\n", i, coqTree(c.Tree, c.Leaves), coqObs(o))
		if i%97 == 5 {
			res.Sample(map[string]any{"case": c, "observed": o}, 4)
		}
	}
	if err := os.WriteFile(filepath.Join(*out, "cases_merge.txt"), []byte(v.String()), 0o644); err != nil {
		panic(err)
	}
	v.Reset()

	// status tables: all 8 flag vectors x names (exhaustive), through the real code
	idx := 0
	stNames := []string{"error", "unsupported_media_type", "custom", "fault", ""}
	for _, n := range stNames {
		for fl := 0; fl < 8; fl++ {
			for _, wrapped := range []bool{false, true} {
				se := &goa.ServiceError{Name: n, ID: "idx", Message: "m", Timeout: fl&1 != 0, Temporary: fl&2 != 0, Fault: fl&4 != 0}
				var e error = se
				valTerm := fmt.Sprintf("(VServ {| cur := %s; hist := []; causes := [] |})", coqCore(coreOf(se)))
				if wrapped {
					e = fmt.Errorf("w: %w", se)
					valTerm = fmt.Sprintf("(VWrapped \"w\" {| cur := %s; hist := []; causes := [] |})", coqCore(coreOf(se)))
				}
				st := goahttp.NewErrorResponse(context.Background(), e).StatusCode()
				ge := goagrpc.EncodeError(e)
				code := status.Code(ge)
				dec, _ := goagrpc.DecodeError(ge).(*goapb.ErrorResponse)
				var back core
				if dec != nil {
					back = coreOf(goagrpc.NewServiceError(dec))
				}
				// direct oracle: documented table
				want := 400
				switch {
				case n == "unsupported_media_type":
					want = 415
				case se.Fault:
					want = 500
				case se.Timeout && se.Temporary:
					want = 504
				case se.Timeout:
					want = 408
				case se.Temporary:
					want = 503
				}
				in := map[string]any{"name": n, "timeout": se.Timeout, "temporary": se.Temporary, "fault": se.Fault, "wrapped": wrapped}
				if st != want {
					res.Fail("http-status-table", fmt.Sprintf("StatusCode()=%d, documented table says %d", st, want), in)
				}
				wantCode := codes.Unknown
				if se.Fault {
					wantCode = codes.Internal
				}
				if se.Timeout {
					wantCode = codes.DeadlineExceeded
				}
				if se.Temporary {
					wantCode = codes.Unavailable
				}
				if code != wantCode {
					res.Fail("grpc-code-table", fmt.Sprintf("gRPC code %v, documented table says %v", code, wantCode), in)
				}
				if dec == nil || back.Name != n || back.ID != "idx" || back.Msg != "m" || back.Timeout != se.Timeout || back.Temporary != se.Temporary || back.Fault != se.Fault {
					res.Fail("grpc-roundtrip", "error encoded into a gRPC status and decoded back differs", in)
				}
				fmt.Fprintf(&v, "(%d%%N, %s, %d, %s, %s)\n", idx, valTerm, st, grpcCodeName(code), coqCore(back))
				idx++
				res.Count("status_rows")
			}
		}
	}
	// plain errors: fault, 500, Unknown
	for _, m := range []string{"boom", ""} {
		e := errors.New(m)
		resp := goahttp.NewErrorResponse(context.Background(), e)
		st := resp.StatusCode()
		er := resp.(*goahttp.ErrorResponse)
		ge := goagrpc.EncodeError(e)
		dec, _ := goagrpc.DecodeError(ge).(*goapb.ErrorResponse)
		var back core
		if dec != nil {
			back = coreOf(goagrpc.NewServiceError(dec))
			back.ID = ""
		}
		if status.Code(ge) != codes.Unknown {
			res.Fail("grpc-code-table", fmt.Sprintf("a plain Go error is encoded with gRPC code %v, the documented table says Unknown", status.Code(ge)), m)
		}
		if st != 500 || !er.Fault || er.Name != "fault" {
			res.Fail("plain-error-not-fault-500", fmt.Sprintf("plain error mapped to status %d name %q fault=%v", st, er.Name, er.Fault), m)
		}
		fmt.Fprintf(&v, "(%d%%N, (VPlain %s \"\" 0), %d, %s, %s)\n", idx, vh.CoqString(m), st, grpcCodeName(status.Code(ge)), coqCore(back))
		idx++
		res.Count("status_rows")
	}

	nheap := runHeap(rng, *tier, *out, res, heapReplay)
	nenc := runEncode(rng, *tier, *out, res, encReplay)
	ngf := runGRPCFull(rng, *tier, *out, res, gfullReplay)
	res.Evaluations = len(cases) + idx + nheap + nenc + ngf
	res.Distinct = len(distinct)
	res.Rule = "merge trees: every tree shape over 1..N leaves (N=5 quick, 8 thorough) x random leaf vectors from {nil, plain, service(all flag/name/field/cause combinations), wrapped service}, plus random shapes over 2-8 leaves; merge HISTORIES over 2-5 error variables with operands reused after they were merged into (MergeErrors updates its first argument in place); non-trivial = at least two non-nil leaves, distinct = distinct (leaf vector, shape); status: all 8 flag vectors x 5 names x {direct, wrapped} + plain errors (exhaustive); client-side flags for every status code 100-599 (exhaustive); error encoder (goahttp.ErrorEncoder on an httptest recorder, and goagrpc.EncodeError): all 8 flag vectors x 5 names x 10 ways of holding the service error (bare, wrapped once/twice by fmt.Errorf or by a type with Unwrap, joined left/right, joined under wrappers, two service errors joined) + errors holding no service error + random shapes (wrapper chains of 0-12 links, joins, depth <= 4 nestings) x {default formatter JSON, default formatter XML, two custom formatters}; gRPC EncodeError in full: status errors of codes 1-17 and 77 bare / wrapped / joined with plain, service and other status errors + random shapes with status leaves, each encoded once and re-encoded 1-3 more times; witness shapes whose status already carries details"
	for _, c := range cases {
		res.Cases = append(res.Cases, c)
	}
	if err := os.WriteFile(filepath.Join(*out, "cases_status.txt"), []byte(v.String()), 0o644); err != nil {
		panic(err)
	}
	if err := res.Write(filepath.Join(*out, "result.json")); err != nil {
		panic(err)
	}
}
