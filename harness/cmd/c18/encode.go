package main

// The path an actual server takes from the error a method returned to the status line and
// body on the wire: goahttp.ErrorEncoder(encoder, formatter)(ctx, w, err) — and, for gRPC,
// goagrpc.EncodeError(err) — driven with errors of every SHAPE (bare service error, wrapped
// any number of times by fmt.Errorf("%w") or by a type with Unwrap, joined by errors.Join,
// plain errors), every flag vector, the special names, the default formatter and custom
// ones, JSON and XML body encoders. Writes cases_encode.txt / cases_grpcshape.txt (Coq
// terms, compared with Errors.error_encoder / Errors.grpc_encode) and evaluates the
// documented table directly on what the recorder received.

import (
	"bytes"
	"context"
	"encoding/json"
	"encoding/xml"
	"errors"
	"fmt"
	"io"
	"net/http"
	"net/http/httptest"
	"os"
	"path/filepath"
	"regexp"
	"strings"

	goagrpc "goa.design/goa/v3/grpc"
	goapb "goa.design/goa/v3/grpc/pb"
	goahttp "goa.design/goa/v3/http"
	goa "goa.design/goa/v3/pkg"
	"google.golang.org/grpc/codes"
	"google.golang.org/grpc/status"

	"verifharness/vh"
)

// Shape describes an error value by construction.
type Shape struct {
	Kind      string `json:"kind"` // plain | service | wrap (fmt.Errorf %w) | typewrap (type with Unwrap) | join (errors.Join) | status (gRPC status error)
	Code      int      `json:"code,omitempty"`    // status
	Details   []Detail `json:"details,omitempty"` // status
	Msg       string `json:"msg,omitempty"`
	Name      string `json:"name,omitempty"`
	ID        string `json:"id,omitempty"`
	Timeout   bool   `json:"timeout,omitempty"`
	Temporary bool   `json:"temporary,omitempty"`
	Fault     bool   `json:"fault,omitempty"`
	HasCause  bool   `json:"has_cause,omitempty"` // service error built around a cause (NewServiceError)
	Wrap      string `json:"wrap,omitempty"`
	Inner     *Shape `json:"inner,omitempty"`
	L         *Shape `json:"l,omitempty"`
	R         *Shape `json:"r,omitempty"`
}

// encCase is one exchange through the error encoder.
type encCase struct {
	Formatter string `json:"formatter"` // default | teapot | bits
	Encoding  string `json:"encoding"`  // json | xml
	Shape     *Shape `json:"shape"`
}

// ctxErr is a hand-written wrapper type (not fmt.Errorf).
type ctxErr struct {
	ctx   string
	inner error
}

func (c *ctxErr) Error() string { return c.ctx + ": " + c.inner.Error() }
func (c *ctxErr) Unwrap() error { return c.inner }

func (s *Shape) build() error {
	switch s.Kind {
	case "plain":
		return errors.New(s.Msg)
	case "status":
		return buildStatus(s)
	case "service":
		if s.HasCause {
			se := goa.NewServiceError(errors.New(s.Msg), s.Name, s.Timeout, s.Temporary, s.Fault)
			se.ID = s.ID
			return se
		}
		return &goa.ServiceError{Name: s.Name, ID: s.ID, Message: s.Msg, Timeout: s.Timeout, Temporary: s.Temporary, Fault: s.Fault}
	case "wrap":
		return fmt.Errorf(s.Wrap+": %w", s.Inner.build())
	case "typewrap":
		return &ctxErr{s.Wrap, s.Inner.build()}
	case "join":
		return errors.Join(s.L.build(), s.R.build())
	}
	panic("bad shape kind " + s.Kind)
}

// ---- what the documentation says, computed from the construction alone ----

// firstService: the service error a reader of the error chain meets first.
func (s *Shape) firstService() *Shape {
	switch s.Kind {
	case "service":
		return s
	case "wrap", "typewrap":
		return s.Inner.firstService()
	case "join":
		if f := s.L.firstService(); f != nil {
			return f
		}
		return s.R.firstService()
	}
	return nil
}

func (s *Shape) text() string {
	switch s.Kind {
	case "wrap", "typewrap":
		return s.Wrap + ": " + s.Inner.text()
	case "join":
		return s.L.text() + "\n" + s.R.text()
	case "status":
		return fmt.Sprintf("rpc error: code = %s desc = %s", codes.Code(s.Code), s.Msg)
	}
	return s.Msg
}

func (s *Shape) depth() int {
	switch s.Kind {
	case "wrap", "typewrap":
		return 1 + s.Inner.depth()
	case "join":
		return 1 + max(s.L.depth(), s.R.depth())
	}
	return 0
}

func (s *Shape) class() string {
	fs := s.firstService()
	switch {
	case fs == nil:
		return "no-service-error"
	case s.Kind == "service":
		return "bare"
	case s.Kind == "join":
		return "joined"
	case s.Inner.Kind == "service":
		return "wrapped-once"
	case s.Inner.Kind != "join" && s.Inner.Inner.Kind == "service":
		return "wrapped-twice"
	}
	return "wrapped-deeper"
}

func tableStatus(name string, timeout, temporary, fault bool) int {
	switch {
	case name == "unsupported_media_type":
		return 415
	case fault:
		return 500
	case timeout && temporary:
		return 504
	case timeout:
		return 408
	case temporary:
		return 503
	}
	return 400
}

// body is what the harness reads back from the wire (own struct, literal field names).
type body struct {
	Name      string `json:"name" xml:"name"`
	ID        string `json:"id" xml:"id"`
	Message   string `json:"message" xml:"message"`
	Temporary bool   `json:"temporary" xml:"temporary"`
	Timeout   bool   `json:"timeout" xml:"timeout"`
	Fault     bool   `json:"fault" xml:"fault"`
}

// custom formatters
type customResp struct {
	XMLName   xml.Name `json:"-" xml:"error"`
	Name      string   `json:"name" xml:"name"`
	ID        string   `json:"id" xml:"id"`
	Message   string   `json:"message" xml:"message"`
	Temporary bool     `json:"temporary" xml:"temporary"`
	Timeout   bool     `json:"timeout" xml:"timeout"`
	Fault     bool     `json:"fault" xml:"fault"`
	code      int
}

func (c *customResp) StatusCode() int { return c.code }

func teapotFormatter(_ context.Context, err error) goahttp.Statuser {
	return &customResp{Name: "teapot", Message: "custom: " + err.Error(), code: 418}
}

func bitsFormatter(_ context.Context, err error) goahttp.Statuser {
	var se *goa.ServiceError
	if errors.As(err, &se) {
		code := 460
		if se.Timeout {
			code++
		}
		if se.Temporary {
			code += 2
		}
		if se.Fault {
			code += 4
		}
		return &customResp{Name: "x-" + se.Name, ID: se.ID, Message: se.Message, Temporary: se.Temporary, Timeout: se.Timeout, Fault: se.Fault, code: code}
	}
	return &customResp{Name: "x-none", Message: err.Error(), code: 599}
}

// tapWriter counts the WriteHeader calls and records the order of header / body writes.
type tapWriter struct {
	rec    *httptest.ResponseRecorder
	calls  int
	events []byte
}

func (t *tapWriter) Header() http.Header { return t.rec.Header() }
func (t *tapWriter) WriteHeader(c int)   { t.calls++; t.events = append(t.events, 'h'); t.rec.WriteHeader(c) }
func (t *tapWriter) Write(b []byte) (int, error) {
	t.events = append(t.events, 'w')
	return t.rec.Write(b)
}

type encObs struct {
	Status      int    `json:"status"`
	Calls       int    `json:"write_header_calls"`
	Events      string `json:"events"`
	Bodies      []body `json:"bodies"`
	ContentType string `json:"content_type"`
	EncErr      string `json:"encoder_error,omitempty"`
	DecodeErr   string `json:"decode_error,omitempty"`
	FreshID     bool   `json:"fresh_id"`
}

var freshIDre = regexp.MustCompile(`^[A-Za-z0-9_-]{8}$`)

func runEnc(c encCase) encObs {
	var f func(context.Context, error) goahttp.Statuser
	switch c.Formatter {
	case "teapot":
		f = teapotFormatter
	case "bits":
		f = bitsFormatter
	}
	ctx := context.Background()
	if c.Encoding == "xml" {
		ctx = context.WithValue(ctx, goahttp.AcceptTypeKey, "application/xml")
	}
	tw := &tapWriter{rec: httptest.NewRecorder()}
	encode := goahttp.ErrorEncoder(goahttp.ResponseEncoder, f)
	var o encObs
	if err := encode(ctx, tw, c.Shape.build()); err != nil {
		o.EncErr = err.Error()
	}
	o.Status, o.Calls, o.Events = tw.rec.Code, tw.calls, string(tw.events)
	o.ContentType = tw.rec.Header().Get("Content-Type")
	raw := tw.rec.Body.Bytes()
	if c.Encoding == "xml" {
		dec := xml.NewDecoder(bytes.NewReader(raw))
		for {
			var b body
			err := dec.Decode(&b)
			if err == io.EOF {
				break
			}
			if err != nil {
				o.DecodeErr = err.Error()
				break
			}
			o.Bodies = append(o.Bodies, b)
		}
	} else {
		dec := json.NewDecoder(bytes.NewReader(raw))
		dec.DisallowUnknownFields()
		for {
			var b body
			err := dec.Decode(&b)
			if err == io.EOF {
				break
			}
			if err != nil {
				o.DecodeErr = err.Error()
				break
			}
			o.Bodies = append(o.Bodies, b)
		}
	}
	// an identifier drawn by NewErrorID (8 base64url characters; the identifiers of the
	// generated service errors are shorter) is blanked
	for i := range o.Bodies {
		if freshIDre.MatchString(o.Bodies[i].ID) {
			o.Bodies[i].ID = ""
			o.FreshID = true
		}
	}
	return o
}

// encOracle: the documented behaviour on the wire.
func encOracle(c encCase, o encObs, res *vh.Result) {
	fail := func(sig, what string) { res.Fail(sig, what, c) }
	if o.EncErr != "" || o.DecodeErr != "" || o.Calls != 1 || len(o.Bodies) != 1 || !strings.HasPrefix(o.Events, "hw") {
		fail("encoder-write-sequence", fmt.Sprintf("the error encoder must send one status line then one body: WriteHeader calls=%d, write order=%q, bodies decoded=%d, encoder error=%q, decode error=%q", o.Calls, o.Events, len(o.Bodies), o.EncErr, o.DecodeErr))
		return
	}
	wantCT := "application/" + c.Encoding
	if o.ContentType != wantCT {
		fail("encoder-content-type", fmt.Sprintf("Content-Type %q, negotiated %q", o.ContentType, wantCT))
	}
	fs := c.Shape.firstService()
	text := c.Shape.text()
	var want body
	var wantStatus int
	switch c.Formatter {
	case "teapot":
		want, wantStatus = body{Name: "teapot", Message: "custom: " + text}, 418
	case "bits":
		if fs == nil {
			want, wantStatus = body{Name: "x-none", Message: text}, 599
		} else {
			want = body{Name: "x-" + fs.Name, ID: fs.ID, Message: fs.Msg, Timeout: fs.Timeout, Temporary: fs.Temporary, Fault: fs.Fault}
			wantStatus = 460
			if fs.Timeout {
				wantStatus++
			}
			if fs.Temporary {
				wantStatus += 2
			}
			if fs.Fault {
				wantStatus += 4
			}
		}
	default:
		if fs == nil {
			want, wantStatus = body{Name: "fault", Message: text, Fault: true}, 500
			if !o.FreshID {
				fail("encoder-body-fields", "an error holding no service error must be sent as a fault with a new identifier")
				return
			}
		} else {
			want = body{Name: fs.Name, ID: fs.ID, Message: fs.Msg, Timeout: fs.Timeout, Temporary: fs.Temporary, Fault: fs.Fault}
			wantStatus = tableStatus(fs.Name, fs.Timeout, fs.Temporary, fs.Fault)
		}
	}
	got := o.Bodies[0]
	if c.Formatter != "default" {
		if o.Status != wantStatus || got != want {
			fail("encoder-custom-formatter", fmt.Sprintf("custom formatter %s: wire has status %d body %+v, the formatter returned status %d body %+v", c.Formatter, o.Status, got, wantStatus, want))
		}
		return
	}
	if o.Status != wantStatus {
		fail("encoder-status-table", fmt.Sprintf("%s error sent with status %d; the documented table gives %d for name %q timeout=%v temporary=%v fault=%v", c.Shape.class(), o.Status, wantStatus, want.Name, want.Timeout, want.Temporary, want.Fault))
	}
	if got != want {
		fail("encoder-body-fields", fmt.Sprintf("%s error sent with body %+v; its own name, id, message and flags are %+v", c.Shape.class(), got, want))
	}
}

// ---- Coq printing ----

// coqText prints a string that may hold newlines (errors.Join) as a Coq term.
func coqText(s string) string {
	parts := strings.Split(s, "\n")
	for i := range parts {
		parts[i] = vh.CoqString(parts[i])
	}
	if len(parts) == 1 {
		return parts[0]
	}
	return "(" + strings.Join(parts, " ++ nl ++ ") + ")"
}

func (s *Shape) coq() string {
	switch s.Kind {
	case "plain":
		return "(EPlain " + vh.CoqString(s.Msg) + ")"
	case "status":
		ds := make([]string, len(s.Details))
		for i, d := range s.Details {
			ds[i] = d.coq()
		}
		return fmt.Sprintf("(EStatus %d %s %s)", s.Code, vh.CoqString(s.Msg), vh.CoqList(ds))
	case "service":
		return "(EServ " + coqCore(core{Name: s.Name, ID: s.ID, Msg: s.Msg, Timeout: s.Timeout, Temporary: s.Temporary, Fault: s.Fault}) + ")"
	case "wrap", "typewrap":
		return "(EWrap " + vh.CoqString(s.Wrap) + " " + s.Inner.coq() + ")"
	}
	return "(EJoin " + s.L.coq() + " " + s.R.coq() + ")"
}

func coqCoreT(c core) string {
	return fmt.Sprintf("(mkc %s %s None %s %s %s %s)", coqText(c.Name), coqText(c.ID), coqText(c.Msg), vh.CoqBool(c.Timeout), vh.CoqBool(c.Temporary), vh.CoqBool(c.Fault))
}

func coqBody(b body) string {
	return fmt.Sprintf("(mkr %s %s %s %s %s %s)", coqText(b.Name), coqText(b.ID), coqText(b.Message), vh.CoqBool(b.Timeout), vh.CoqBool(b.Temporary), vh.CoqBool(b.Fault))
}

func coqFormatter(f string) string {
	switch f {
	case "teapot":
		return "FTeapot"
	case "bits":
		return "FBits"
	}
	return "FDefault"
}

// ---- generation ----

func svc(name string, fl int, id string) *Shape {
	return &Shape{Kind: "service", Name: name, ID: id, Msg: "m", Timeout: fl&1 != 0, Temporary: fl&2 != 0, Fault: fl&4 != 0}
}
func wrapS(w string, s *Shape) *Shape { return &Shape{Kind: "wrap", Wrap: w, Inner: s} }
func typeS(w string, s *Shape) *Shape { return &Shape{Kind: "typewrap", Wrap: w, Inner: s} }
func joinS(l, r *Shape) *Shape        { return &Shape{Kind: "join", L: l, R: r} }
func plainS(m string) *Shape          { return &Shape{Kind: "plain", Msg: m} }

var encNames = []string{"error", "unsupported_media_type", "custom", "fault", ""}
var wrapWords = []string{"ctx", "while doing x", "w", "", "op \"o\""}

func randShape(r *vh.RNG, depth int) *Shape {
	k := r.Intn(10)
	switch {
	case depth <= 0 || k < 2:
		if r.Chance(1, 4) {
			return plainS(vh.Pick(r, words))
		}
		s := svc(vh.Pick(r, encNames), r.Intn(8), fmt.Sprintf("id%d", r.Intn(1000)))
		s.Msg = vh.Pick(r, words)
		s.HasCause = r.Chance(1, 4)
		return s
	case k < 5:
		return wrapS(vh.Pick(r, wrapWords), randShape(r, depth-1))
	case k < 7:
		return typeS(vh.Pick(r, wrapWords), randShape(r, depth-1))
	case k < 9:
		// a chain of wrappers of arbitrary length
		s := randShape(r, depth-1)
		for n := r.Intn(12); n > 0; n-- {
			if r.Bool() {
				s = wrapS(vh.Pick(r, wrapWords), s)
			} else {
				s = typeS(vh.Pick(r, wrapWords), s)
			}
		}
		return s
	}
	return joinS(randShape(r, depth-1), randShape(r, depth-1))
}

func encShapes(r *vh.RNG, tier string) []*Shape {
	var out []*Shape
	// exhaustive: every flag vector x special names x ways of reaching the service error
	for _, n := range encNames {
		for fl := 0; fl < 8; fl++ {
			id := fmt.Sprintf("i%d", fl)
			other := func() *Shape { o := svc("other", 7^fl, "o"); o.Msg = "mo"; return o }
			out = append(out,
				svc(n, fl, id),
				wrapS("w", svc(n, fl, id)),
				wrapS("outer", wrapS("inner", svc(n, fl, id))),
				typeS("t", svc(n, fl, id)),
				typeS("t", wrapS("w", typeS("u", svc(n, fl, id)))),
				joinS(plainS("boom"), svc(n, fl, id)),
				joinS(svc(n, fl, id), plainS("boom")),
				wrapS("w", joinS(plainS("p"), wrapS("v", svc(n, fl, id)))),
				joinS(svc(n, fl, id), other()),
				joinS(wrapS("w", other()), svc(n, fl, id)),
			)
		}
	}
	// errors that hold no service error
	out = append(out, plainS("boom"), plainS(""), wrapS("w", plainS("boom")), wrapS("a", wrapS("b", plainS("x"))),
		typeS("t", plainS("disk full")), joinS(plainS("p1"), plainS("p2")), wrapS("w", joinS(plainS("p1"), typeS("t", plainS("p2")))))
	n := 120
	if tier == "thorough" {
		n = 1500
	}
	for k := 0; k < n; k++ {
		out = append(out, randShape(r, 1+r.Intn(4)))
	}
	return out
}

var encCombos = [][2]string{{"default", "json"}, {"default", "xml"}, {"teapot", "json"}, {"bits", "xml"}}

// runEncode runs the stream; returns the number of evaluations.
func runEncode(rng *vh.RNG, tier, out string, res *vh.Result, replay *encCase) int {
	var cases []encCase
	var shapes []*Shape
	if replay != nil {
		cases = append(cases, *replay)
		shapes = append(shapes, replay.Shape)
	} else {
		shapes = encShapes(rng, tier)
		for _, s := range shapes {
			for _, cb := range encCombos {
				cases = append(cases, encCase{Formatter: cb[0], Encoding: cb[1], Shape: s})
			}
		}
	}
	var v strings.Builder
	for i, c := range cases {
		o := runEnc(c)
		encOracle(c, o, res)
		bs := make([]string, len(o.Bodies))
		for j, b := range o.Bodies {
			bs[j] = coqBody(b)
		}
		st := "None"
		if strings.Contains(o.Events, "h") || strings.Contains(o.Events, "w") {
			st = fmt.Sprintf("(Some %d)", o.Status)
		}
		fmt.Fprintf(&v, "(%d%%N, %s, %s, {| wstatus := %s; wbodies := %s; wcalls := %d |})\n", i, coqFormatter(c.Formatter), c.Shape.coq(), st, vh.CoqList(bs), o.Calls)
		res.Count("encode_formatter=" + c.Formatter + "/" + c.Encoding)
		res.Count("encode_shape=" + c.Shape.class())
		res.Count(fmt.Sprintf("encode_depth=%d", min(c.Shape.depth(), 8)))
		if i%401 == 3 {
			res.Sample(map[string]any{"encode": c, "observed": o}, 10)
		}
	}
	if err := os.WriteFile(filepath.Join(out, "cases_encode.txt"), []byte(v.String()), 0o644); err != nil {
		panic(err)
	}
	res.Extra["encode_cases"] = cases

	// gRPC: the same shapes through EncodeError / DecodeError
	v.Reset()
	for i, s := range shapes {
		e := s.build()
		ge := goagrpc.EncodeError(e)
		st, _ := status.FromError(ge)
		code := status.Code(ge)
		dec, _ := goagrpc.DecodeError(ge).(*goapb.ErrorResponse)
		var back core
		fresh := false
		if dec != nil {
			back = coreOf(goagrpc.NewServiceError(dec))
			if freshIDre.MatchString(back.ID) {
				back.ID, fresh = "", true
			}
		}
		fs := s.firstService()
		in := map[string]any{"grpc_shape": s}
		wantCode, want := codes.Unknown, core{Name: "fault", Msg: s.text(), Fault: true}
		if fs != nil {
			want = core{Name: fs.Name, ID: fs.ID, Msg: fs.Msg, Timeout: fs.Timeout, Temporary: fs.Temporary, Fault: fs.Fault}
			if fs.Fault {
				wantCode = codes.Internal
			}
			if fs.Timeout {
				wantCode = codes.DeadlineExceeded
			}
			if fs.Temporary {
				wantCode = codes.Unavailable
			}
		}
		if code != wantCode {
			res.Fail("grpc-code-table", fmt.Sprintf("%s error encoded with gRPC code %v, documented table says %v", s.class(), code, wantCode), in)
		}
		if dec == nil || back != want || (fs == nil && !fresh) {
			res.Fail("grpc-roundtrip", fmt.Sprintf("%s error encoded into a gRPC status and decoded back is %+v, its own name, id, message and flags are %+v", s.class(), back, want), in)
		}
		msg := ""
		if st != nil {
			msg = st.Message()
		}
		fmt.Fprintf(&v, "(%d%%N, %s, %s, %s, %s)\n", i, s.coq(), grpcCodeName(code), coqText(msg), coqCoreT(back))
		res.Count("grpc_shape_rows")
	}
	if err := os.WriteFile(filepath.Join(out, "cases_grpcshape.txt"), []byte(v.String()), 0o644); err != nil {
		panic(err)
	}
	res.Extra["grpc_shapes"] = shapes
	return len(cases) + len(shapes)
}
