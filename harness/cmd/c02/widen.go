package main

// Widening of the streams beyond what designgen.Random emits (all generic, none tied
// to one defect):
//
//   - trailing catch-all path parameters {*name}: endpoints of ONE service sharing a
//     literal prefix, differing by verb and by wildcard name; values holding "/" and
//     the empty catch-all                                  (coveringDesign, widenCatchAll)
//   - primitive alias user types as query / path parameters, optional and required,
//     with alias-level validations, unset / set / zero values      (widenAliasParams)
//   - Any-typed body attributes (top level, in arrays, as map values, nested in user
//     types) carrying every JSON-exact dynamic Go type, compared by dynamic type
//                                                     (enrichAny, toTreeX, fromTreeX)
//   - every route of an endpoint, the non-first ones through raw requests (altRouteSteps)
//   - HEAD / OPTIONS / TRACE verbs, 64-bit extremes in every location, query maps
//     with non-string element types                                 (coveringDesign)

import (
	"encoding/base64"
	"fmt"
	"math"
	"strings"

	dg "verifharness/designgen"
	"verifharness/tierb/rt"
	"verifharness/vh"
)

// ---- Any-aware conversions (designgen's ToTree / FromTree need a type at every node) ----

func elemTypeOf(d *dg.Design, t *dg.Type) *dg.Type {
	if t == nil {
		return nil
	}
	bt, _ := d.Base(t)
	if bt.Kind == "collection" {
		return &dg.Type{Kind: "user", Ref: bt.Ref}
	}
	if bt.Elem != nil {
		return &bt.Elem.T
	}
	return nil
}

func keyTypeOf(d *dg.Design, t *dg.Type) *dg.Type {
	if t == nil {
		return nil
	}
	bt, _ := d.Base(t)
	if bt.Key != nil {
		return &bt.Key.T
	}
	return nil
}

// toTreeX converts an attribute-space value into the Go-space tree; under an Any type
// (t == nil or no element type) the value's own kind decides (rt.Fill then builds
// bool / float64 / string / nil / []any / map[string]any).
func toTreeX(d *dg.Design, t *dg.Type, v *dg.Val) *rt.Tree {
	if v == nil || v.K == "null" {
		return rt.Nil
	}
	switch v.K {
	case "array":
		out := &rt.Tree{K: "array", Elems: []*rt.Tree{}}
		et := elemTypeOf(d, t)
		for _, e := range v.Elems {
			out.Elems = append(out.Elems, toTreeX(d, et, e))
		}
		return out
	case "map":
		out := &rt.Tree{K: "map", Keys: []*rt.Tree{}, Elems: []*rt.Tree{}}
		kt, et := keyTypeOf(d, t), elemTypeOf(d, t)
		for i := range v.Keys {
			out.Keys = append(out.Keys, toTreeX(d, kt, v.Keys[i]))
			out.Elems = append(out.Elems, toTreeX(d, et, v.Elems[i]))
		}
		return out
	case "object":
		out := &rt.Tree{K: "struct", Names: []string{}, Elems: []*rt.Tree{}}
		var fs []*dg.Field
		if t != nil {
			fs = d.AllFields(t)
		}
		for i, n := range v.Names {
			var ft *dg.Type
			for _, f := range fs {
				if f.Name == n {
					ft = &f.A.T
				}
			}
			out.Names = append(out.Names, dg.GoField(n))
			out.Elems = append(out.Elems, toTreeX(d, ft, v.Elems[i]))
		}
		return out
	}
	return d.ToTree(t, v) // scalars: no type needed
}

// fromTreeX is the inverse, guided by the design type where there is one.
func fromTreeX(d *dg.Design, t *dg.Type, tr *rt.Tree) *dg.Val {
	if tr == nil || tr.K == "nil" {
		return dg.Null
	}
	switch tr.K {
	case "array":
		out := &dg.Val{K: "array", Elems: []*dg.Val{}}
		et := elemTypeOf(d, t)
		for _, e := range tr.Elems {
			out.Elems = append(out.Elems, fromTreeX(d, et, e))
		}
		return out
	case "map":
		out := &dg.Val{K: "map", Keys: []*dg.Val{}, Elems: []*dg.Val{}}
		kt, et := keyTypeOf(d, t), elemTypeOf(d, t)
		for i := range tr.Keys {
			out.Keys = append(out.Keys, fromTreeX(d, kt, tr.Keys[i]))
			out.Elems = append(out.Elems, fromTreeX(d, et, tr.Elems[i]))
		}
		return out
	case "struct":
		out := &dg.Val{K: "object", Names: []string{}, Elems: []*dg.Val{}}
		var fs []*dg.Field
		if t != nil {
			fs = d.AllFields(t)
		}
		for i, gn := range tr.Names {
			if tr.Elems[i].K == "nil" {
				continue
			}
			name := gn
			var ft *dg.Type
			for _, f := range fs {
				if dg.GoField(f.Name) == gn {
					name, ft = f.Name, &f.A.T
				}
			}
			out.Names = append(out.Names, name)
			out.Elems = append(out.Elems, fromTreeX(d, ft, tr.Elems[i]))
		}
		return out
	}
	return d.FromTree(t, tr)
}

func isAnyType(d *dg.Design, t *dg.Type) bool {
	if t == nil {
		return true
	}
	bt, _ := d.Base(t)
	return bt.Kind == "prim" && bt.Prim == "Any"
}

// containsAny: the type has an Any somewhere (guard against recursive user types).
func containsAny(d *dg.Design, t *dg.Type, depth int) bool {
	if t == nil || depth > 6 {
		return false
	}
	bt, _ := d.Base(t)
	switch bt.Kind {
	case "prim":
		return bt.Prim == "Any"
	case "array", "map":
		return containsAny(d, elemTypeOf(d, t), depth+1)
	case "collection":
		return containsAny(d, &dg.Type{Kind: "user", Ref: bt.Ref}, depth+1)
	case "object":
		for _, f := range d.AllFields(t) {
			if containsAny(d, &f.A.T, depth+1) {
				return true
			}
		}
	}
	return false
}

var anyFloats = []float64{2.5, 1e21, -0.5, 0, 3, -1234567.25, 1e-7, 9007199254740993}

// genAny draws a value of a JSON-exact dynamic Go type: bool, float64, string, nil,
// []any, map[string]any (nested). No integers: an int written by the client comes back
// as float64 (recorded loss class any-integer-arrives-float64, witness stream).
func genAny(r *vh.RNG, depth int, top bool, hostile bool) *dg.Val {
	k := r.Intn(8)
	if depth >= 2 && k >= 5 {
		k = r.Intn(4)
	}
	switch k {
	case 0:
		return &dg.Val{K: "bool", B: r.Bool()}
	case 1, 2:
		return &dg.Val{K: "float", F: vh.Pick(r, anyFloats)}
	case 3:
		ws := []string{"abc", "x1", "Hello", "tok~en"}
		if hostile {
			ws = []string{"a b", "100%", "a/b", "%41", "x+y", "é→", "\"quoted\"", "tab\tin", "12", "true", "null"}
		}
		return &dg.Val{K: "string", S: vh.Pick(r, ws)}
	case 4:
		if top {
			return &dg.Val{K: "float", F: vh.Pick(r, anyFloats)}
		}
		return dg.Null
	case 5, 6:
		out := &dg.Val{K: "array", Elems: []*dg.Val{}}
		n := 1 + r.Intn(3)
		for i := 0; i < n; i++ {
			out.Elems = append(out.Elems, genAny(r, depth+1, false, hostile))
		}
		return out
	default:
		out := &dg.Val{K: "map", Keys: []*dg.Val{}, Elems: []*dg.Val{}}
		n := 1 + r.Intn(2)
		for i := 0; i < n; i++ {
			out.Keys = append(out.Keys, &dg.Val{K: "string", S: fmt.Sprintf("k%d", i)})
			out.Elems = append(out.Elems, genAny(r, depth+1, false, hostile))
		}
		return out
	}
}

// enrichAny replaces the value at every Any-typed position of v by a drawn dynamic value.
func enrichAny(d *dg.Design, r *vh.RNG, t *dg.Type, v *dg.Val, depth int, hostile bool) *dg.Val {
	return enrichAnyAt(d, r, t, v, depth, hostile, true)
}

// field: the position is an attribute (never nil: nil there means unset); elements of
// arrays and values of maps may be nil.
func enrichAnyAt(d *dg.Design, r *vh.RNG, t *dg.Type, v *dg.Val, depth int, hostile, field bool) *dg.Val {
	if v == nil || v.K == "null" || t == nil || depth > 12 {
		return v
	}
	if isAnyType(d, t) {
		return genAny(r, 0, field, hostile)
	}
	switch v.K {
	case "object":
		out := v.Clone()
		for _, f := range d.AllFields(t) {
			if cur := out.Get(f.Name); cur != nil {
				out.Set(f.Name, enrichAnyAt(d, r, &f.A.T, cur, depth+1, hostile, true))
			}
		}
		return out
	case "array", "map":
		out := v.Clone()
		et := elemTypeOf(d, t)
		for i := range out.Elems {
			out.Elems[i] = enrichAnyAt(d, r, et, out.Elems[i], depth+1, hostile, false)
		}
		return out
	}
	return v
}

// intsAsFloats: what encoding/json's default decoding makes of a value held by an `any`.
func intsAsFloats(v *dg.Val) (*dg.Val, bool) {
	if v == nil {
		return nil, false
	}
	switch v.K {
	case "int":
		return &dg.Val{K: "float", F: float64(v.I)}, true
	case "uint":
		return &dg.Val{K: "float", F: float64(v.U)}, true
	}
	c := v.Clone()
	changed := false
	for i, e := range c.Elems {
		ne, ch := intsAsFloats(e)
		if ch {
			c.Elems[i], changed = ne, true
		}
	}
	return c, changed
}

// ---- catch-all routes ----

func catchAllVar(m *dg.Method) string {
	if m.HTTP == nil {
		return ""
	}
	for _, r := range m.HTTP.Routes {
		if i := strings.Index(r.Path, "{*"); i >= 0 {
			return strings.TrimSuffix(r.Path[i+2:], "}")
		}
	}
	return ""
}

var catchSegs = []string{"abc", "x1", "v-2_3", "Zed.q", "a b", "é", "x+y", "c,d;e", "k=v"}

// catchAllValue draws a value for a trailing catch-all: one to three segments joined
// by "/", sometimes the empty string.
func catchAllValue(r *vh.RNG) *dg.Val {
	if r.Chance(1, 8) {
		return &dg.Val{K: "string", S: ""}
	}
	n := 1 + r.Intn(3)
	var segs []string
	for i := 0; i < n; i++ {
		segs = append(segs, vh.Pick(r, catchSegs))
	}
	return &dg.Val{K: "string", S: strings.Join(segs, "/")}
}

// widenCatchAll adds, to the first service of a random design, two endpoints sharing
// the literal prefix of their route, differing by verb and by the name of the wildcard.
func widenCatchAll(r *vh.RNG, d *dg.Design) {
	if len(d.Services) == 0 || !r.Chance(1, 3) {
		return
	}
	s := d.Services[0]
	obj := func(fs ...*dg.Field) *dg.Attr { a := dg.A(dg.Obj(fs...)); return &a }
	verbs := [][2]string{{"GET", "PUT"}, {"GET", "DELETE"}, {"POST", "GET"}, {"PUT", "PATCH"}}
	vp := vh.Pick(r, verbs)
	base := "/cat" + fmt.Sprint(r.Intn(3))
	s.Methods = append(s.Methods,
		&dg.Method{Name: "cfetch", Payload: obj(dg.Req("p_one", dg.Prim("String")), dg.F("q", dg.Prim("Int"))),
			HTTP: &dg.HTTPMap{Routes: []dg.Route{{Verb: vp[0], Path: base + "/{*p_one}"}}, Params: []dg.MapEntry{{Attr: "q"}}}},
		&dg.Method{Name: "cstore", Payload: obj(dg.Req("p_two", dg.Prim("String")), dg.F("hv", dg.Prim("String"))),
			HTTP: &dg.HTTPMap{Routes: []dg.Route{{Verb: vp[1], Path: base + "/{*p_two}"}}, Headers: []dg.MapEntry{{Attr: "hv", Wire: "X-Hv"}}}})
	d.Features = append(d.Features, "catch_all_pair")
}

// ---- primitive aliases as query / path parameters ----

// widenAliasParams moves some top-level payload attributes whose type is a primitive
// alias user type from the body to the query string or to the path (the two locations
// for which goa generates compilable code: C01 records the others).
func widenAliasParams(r *vh.RNG, d *dg.Design) {
	for _, s := range d.Services {
		for _, m := range s.Methods {
			if m.Payload == nil || m.Payload.T.Kind != "object" || m.HTTP == nil || len(m.HTTP.Routes) == 0 || m.HTTP.Body != nil {
				continue
			}
			if catchAllVar(m) != "" {
				continue
			}
			mapped := map[string]bool{}
			for _, e := range m.HTTP.Params {
				mapped[e.Attr] = true
			}
			for _, e := range m.HTTP.Headers {
				mapped[e.Attr] = true
			}
			for _, e := range m.HTTP.Cookies {
				mapped[e.Attr] = true
			}
			nPath := strings.Count(m.HTTP.Routes[0].Path, "{")
			for _, f := range m.Payload.T.Attrs {
				if f.A.T.Kind != "user" || f.A.Sec != nil || mapped[f.Name] || strings.Contains(m.HTTP.Routes[0].Path, "{"+f.Name+"}") {
					continue
				}
				ut := d.UserType(f.A.T.Ref)
				if ut == nil || ut.Result || ut.Base.Kind != "prim" {
					continue
				}
				switch r.Intn(4) {
				case 0, 1:
					e := dg.MapEntry{Attr: f.Name}
					if r.Chance(1, 3) {
						e.Wire = f.Name + "_aq"
					}
					m.HTTP.Params = append(m.HTTP.Params, e)
					d.Features = append(d.Features, "alias_in_query")
				case 2:
					if nPath >= 2 {
						continue
					}
					nPath++
					f.Required = true
					f.A.HasDef, f.A.Default = false, nil
					for i := range m.HTTP.Routes {
						m.HTTP.Routes[i].Path += "/{" + f.Name + "}"
					}
					d.Features = append(d.Features, "alias_in_path")
				}
			}
		}
	}
}

// ---- every route of an endpoint ----

// altRouteSteps re-sends, through each non-first route of the endpoint, the request the
// generated client produced for the first one (same query, headers, cookies, body): a
// raw request below the client, since the generated client only ever uses the first route.
func altRouteSteps(x *exchange, ob *rt.Obs, nextID func() int) []rt.Step {
	m := x.m
	if ob == nil || ob.Req == nil || ob.Invoked != 1 || m.HTTP == nil || len(m.HTTP.Routes) < 2 || x.ep == nil || len(x.ep.AllPaths) < 2 {
		return nil
	}
	first := strings.Split(x.ep.AllPaths[0], "/")
	got := strings.Split(ob.Req.Path, "/")
	if len(first) != len(got) {
		return nil
	}
	vals := map[string]string{}
	for i, seg := range first {
		if strings.HasPrefix(seg, "{") {
			vals[strings.Trim(seg, "{*}")] = got[i]
		}
	}
	var out []rt.Step
	for ri, r := range m.HTTP.Routes {
		if ri == 0 || ri >= len(x.ep.AllPaths) {
			continue
		}
		var segs []string
		ok := true
		for _, seg := range strings.Split(x.ep.AllPaths[ri], "/") {
			if strings.HasPrefix(seg, "{") {
				v, found := vals[strings.Trim(seg, "{*}")]
				ok = ok && found
				segs = append(segs, v)
			} else {
				segs = append(segs, seg)
			}
		}
		if !ok {
			continue
		}
		target := strings.Join(segs, "/")
		if ob.Req.Query != "" {
			target += "?" + ob.Req.Query
		}
		body := ob.Req.Body
		raw := &rt.RawReq{Method: r.Verb, Target: target, Headers: map[string][]string{}, Body: base64.StdEncoding.EncodeToString([]byte(body))}
		for k, vs := range ob.Req.Headers {
			raw.Headers[k] = vs
		}
		st := x.st
		st.ID = nextID()
		st.Payload = nil
		st.Raw = raw
		out = append(out, st)
	}
	return out
}

// ---- the covering design ----

// coveringDesign: a second hand-written design for the feature areas the random
// generator does not enter. One service (one mux): catch-all pairs, verb families on
// one pattern, alias-typed parameters, Any-typed body attributes, 64-bit extremes in
// every location, query maps with non-string elements, two routes.
func coveringDesign() *dg.Design {
	obj := func(fs ...*dg.Field) *dg.Attr { a := dg.A(dg.Obj(fs...)); return &a }
	anyT := dg.Prim("Any")
	i64, u64 := dg.Prim("Int64"), dg.Prim("UInt64")
	d := &dg.Design{Name: "covering", Features: []string{"covering_design"}}
	d.Types = []*dg.UserType{
		{Name: "AStr", Base: dg.Prim("String"), V: &dg.Validation{MinLen: dg.Ip(1), MaxLen: dg.Ip(12)}},
		{Name: "AInt", Base: dg.Prim("Int"), V: &dg.Validation{Min: dg.Fp(-5), Max: dg.Fp(1000)}},
		{Name: "AFlt", Base: dg.Prim("Float64")},
		{Name: "AU32", Base: dg.Prim("UInt32")},
		{Name: "Box", Base: dg.Obj(dg.F("any", anyT), dg.F("list", dg.ArrayOf(dg.A(anyT))), dg.F("n", dg.Prim("Int")))},
	}
	d.Types = append(d.Types, coveringResponseTypes()...)
	d.Types = append(d.Types, coveringViewTypes()...)
	svc := &dg.Service{Name: "cov", BasePath: "/c"}
	add := func(m *dg.Method) { svc.Methods = append(svc.Methods, m) }
	coveringResponses(add)
	coveringWave3(add)
	coveringMapParams(add)
	coveringPatterns(add)
	coveringViews(add)
	coveringWave4(add)
	rt1 := func(verb, p string) []dg.Route { return []dg.Route{{Verb: verb, Path: p}} }

	// catch-all pairs: same literal prefix, different verbs, different wildcard names
	add(&dg.Method{Name: "fget", Payload: obj(dg.Req("path", str())), Result: obj(dg.F("ok", boolT())),
		HTTP: &dg.HTTPMap{Routes: rt1("GET", "/files/{*path}")}})
	add(&dg.Method{Name: "fput", Payload: obj(dg.Req("name", str()), dg.F("note", str())),
		HTTP: &dg.HTTPMap{Routes: rt1("PUT", "/files/{*name}")}})
	add(&dg.Method{Name: "fdel", Payload: obj(dg.Req("victim", str()), dg.F("force", boolT())),
		HTTP: &dg.HTTPMap{Routes: rt1("DELETE", "/files/{*victim}"), Params: []dg.MapEntry{me("force", "")}}})
	add(&dg.Method{Name: "deep", Payload: obj(dg.Req("vol", str()), dg.Req("rest", str())),
		HTTP: &dg.HTTPMap{Routes: rt1("GET", "/vol/{vol}/tree/{*rest}")}})

	// one pattern, a family of verbs (different variable names per verb)
	add(&dg.Method{Name: "iget", Payload: obj(dg.Req("id", u64)), Result: obj(dg.F("ok", boolT())),
		HTTP: &dg.HTTPMap{Routes: rt1("GET", "/items/{id}")}})
	add(&dg.Method{Name: "iput", Payload: obj(dg.Req("key", i64), dg.F("b64", i64), dg.F("bu64", u64), dg.F("bf", dg.Prim("Float64"))),
		HTTP: &dg.HTTPMap{Routes: rt1("PUT", "/items/{key}")}})
	add(&dg.Method{Name: "idel", Payload: obj(dg.Req("item", str())),
		HTTP: &dg.HTTPMap{Routes: rt1("DELETE", "/items/{item}")}})
	add(&dg.Method{Name: "ihead", Payload: obj(dg.Req("hid", str()), dg.F("hq", u64)),
		HTTP: &dg.HTTPMap{Routes: rt1("HEAD", "/items/{hid}"), Params: []dg.MapEntry{me("hq", "")}}})
	add(&dg.Method{Name: "iopt", Payload: obj(dg.Req("oid", str()), dg.F("oh", i64)),
		HTTP: &dg.HTTPMap{Routes: rt1("OPTIONS", "/items/{oid}"), Headers: []dg.MapEntry{me("oh", "X-Oh")}}})

	// primitive aliases as query and path parameters
	add(&dg.Method{Name: "alias",
		Payload: obj(dg.Req("ps", dg.Ref("AStr")), dg.Req("pi", dg.Ref("AInt")), dg.F("os", dg.Ref("AStr")), dg.F("oi", dg.Ref("AInt")),
			dg.F("of", dg.Ref("AFlt")), dg.F("ou", dg.Ref("AU32")), dg.Req("rs", dg.Ref("AStr")), dg.F("bs", dg.Ref("AStr"))),
		Result: obj(dg.F("ok", boolT())),
		HTTP: &dg.HTTPMap{Routes: rt1("POST", "/alias/{ps}/{pi}"),
			Params: []dg.MapEntry{me("os", ""), me("oi", "Oi_q"), me("of", ""), me("ou", ""), me("rs", "")}}})

	// Any-typed body attributes
	add(&dg.Method{Name: "anyb",
		Payload: obj(dg.F("a", anyT), dg.F("arr", dg.ArrayOf(dg.A(anyT))), dg.F("m", dg.MapOf(dg.A(str()), dg.A(anyT))), dg.F("box", dg.Ref("Box")), dg.Req("id", str())),
		Result:  obj(dg.F("a", anyT), dg.F("arr", dg.ArrayOf(dg.A(anyT))), dg.F("m", dg.MapOf(dg.A(str()), dg.A(anyT))), dg.F("box", dg.Ref("Box")), dg.Req("id", str())),
		HTTP:    &dg.HTTPMap{Routes: rt1("POST", "/anyb")}})

	// 64-bit extremes in query / header / path / body; query maps with non-string elements; two routes
	add(&dg.Method{Name: "ext",
		Payload: obj(dg.Req("pu", u64), dg.F("qi", i64), dg.F("qu", u64), dg.F("hi", i64), dg.F("hu", u64), dg.F("qa", dg.ArrayOf(dg.A(u64))),
			dg.F("mi", dg.MapOf(dg.A(str()), dg.A(i64))), dg.F("mb", dg.MapOf(dg.A(str()), dg.A(boolT()))), dg.F("mu", dg.MapOf(dg.A(str()), dg.A(dg.Prim("UInt32")))),
			dg.F("bi", i64), dg.F("bu", u64), dg.F("ba", dg.ArrayOf(dg.A(i64)))),
		Result: obj(dg.F("ok", boolT()), dg.F("ri", i64), dg.F("ru", u64), dg.F("rhi", i64), dg.F("rhu", u64)),
		HTTP: &dg.HTTPMap{Routes: []dg.Route{{Verb: "POST", Path: "/ext/{pu}"}, {Verb: "POST", Path: "/second/ext/{pu}/x"}, {Verb: "PUT", Path: "/third/{pu}"}},
			Params:    []dg.MapEntry{me("qi", ""), me("qu", "Qu_q"), me("qa", ""), me("mi", "Mi_w"), me("mb", ""), me("mu", "f")},
			Headers:   []dg.MapEntry{me("hi", "X-Hi"), me("hu", "X-Hu")},
			Responses: []dg.Response{{Status: 200, Headers: []dg.MapEntry{me("rhi", "X-Rhi"), me("rhu", "X-Rhu")}}}}})

	d.Services = []*dg.Service{svc, coveringSecondService()}
	return d
}

const (
	maxI64 = math.MaxInt64
	minI64 = math.MinInt64
	maxU64 = math.MaxUint64
)

func vN() *dg.Val { return dg.Null }

// coveringFixed: exchanges on the covering design that must PASS.
func coveringFixed(prop string) []witnessCase {
	var cs []witnessCase
	p := func(m string, v *dg.Val) { cs = append(cs, witnessCase{Method: m, Payload: v}) }
	pr := func(m string, v, r *dg.Val) { cs = append(cs, witnessCase{Method: m, Payload: v, Result: r}) }
	okRes := vO("ok", vB(true))
	anyVal := func() *dg.Val {
		return vO("id", vS("i1"),
			"a", vM(vS("n"), vF(2.5), vS("big"), vF(1e21), vS("neg"), vF(-0.5), vS("s"), vS("12"), vS("t"), vB(true), vS("z"), vN(), vS("l"), vA(vF(3), vS("x"), vN(), vA(vB(false)))),
			"arr", vA(vF(1e21), vS("é"), vB(false), vN(), vM(vS("k"), vF(-0.5)), vA(vF(0))),
			"m", vM(vS("f"), vF(-1234567.25), vS("nested"), vM(vS("deep"), vA(vF(2.5), vN()))),
			"box", vO("any", vF(9007199254740993), "list", vA(vS("a"), vF(0.5)), "n", vI(7)))
	}
	if prop == "C02" {
		pr("fget", vO("path", vS("a/b/c")), okRes)
		pr("fget", vO("path", vS("one")), okRes)
		pr("fget", vO("path", vS("")), okRes)
		pr("fget", vO("path", vS("x y/é/k=v;w")), okRes)
		p("fput", vO("name", vS("dir/file.txt"), "note", vS("n")))
		p("fput", vO("name", vS("")))
		p("fdel", vO("victim", vS("a/b"), "force", vB(true)))
		p("deep", vO("vol", vS("v1"), "rest", vS("x/y/z")))
		p("deep", vO("vol", vS("v 2"), "rest", vS("")))
		pr("iget", vO("id", vU(maxU64)), okRes)
		p("iput", vO("key", vI(minI64), "b64", vI(maxI64), "bu64", vU(maxU64), "bf", vF(-0.5)))
		p("iput", vO("key", vI(maxI64), "b64", vI(minI64), "bu64", vU(0)))
		p("idel", vO("item", vS("it em")))
		p("ihead", vO("hid", vS("h1"), "hq", vU(maxU64)))
		p("iopt", vO("oid", vS("o1"), "oh", vI(minI64)))
		pr("alias", vO("ps", vS("abc"), "pi", vI(-5), "os", vS("xy"), "oi", vI(0), "of", vF(0), "ou", vU(0), "rs", vS("r"), "bs", vS("body")), okRes)
		pr("alias", vO("ps", vS("a b"), "pi", vI(1000), "rs", vS("only")), okRes)
		pr("alias", vO("ps", vS("z"), "pi", vI(0), "oi", vI(1000), "of", vF(-2.5), "ou", vU(4294967295), "rs", vS("r2")), okRes)
		pr("anyb", anyVal(), vO("id", vS("r")))
		pr("anyb", vO("id", vS("only")), vO("id", vS("r")))
		pr("ext", vO("pu", vU(maxU64), "qi", vI(minI64), "qu", vU(maxU64), "hi", vI(maxI64), "hu", vU(maxU64), "qa", vA(vU(0), vU(maxU64)),
			"mi", vM(vS("lo"), vI(minI64), vS("hi"), vI(maxI64)), "mb", vM(vS("t"), vB(true), vS("f"), vB(false)), "mu", vM(vS("m"), vU(4294967295)),
			"bi", vI(minI64), "bu", vU(maxU64), "ba", vA(vI(maxI64), vI(minI64), vI(0))), okRes)
		pr("ext", vO("pu", vU(0)), okRes)
	}
	if prop == "C03" {
		cs = append(cs, witnessCase{Method: "anyb", Payload: vO("id", vS("p")), Result: anyVal()})
		cs = append(cs, witnessCase{Method: "anyb", Payload: vO("id", vS("p")), Result: vO("id", vS("only"))})
		cs = append(cs, witnessCase{Method: "ext", Payload: vO("pu", vU(1)), Result: vO("ok", vB(true), "ri", vI(minI64), "ru", vU(maxU64), "rhi", vI(minI64), "rhu", vU(maxU64))})
		cs = append(cs, witnessCase{Method: "ext", Payload: vO("pu", vU(1)), Result: vO("ri", vI(maxI64), "rhi", vI(maxI64), "rhu", vU(0))})
	}
	cs = append(cs, coveringResponseCases(prop)...)
	cs = append(cs, wave3Cases(prop)...)
	cs = append(cs, patternCases(prop)...)
	cs = append(cs, viewCases(prop)...)
	cs = append(cs, wave4Cases(prop)...)
	return cs
}

// coveringWitness: recorded loss classes demonstrated on the covering design.
func coveringWitness(prop string) []witnessCase {
	var cs []witnessCase
	if prop == "C02" {
		cs = append(cs, witnessCase{Method: "anyb", Payload: vO("id", vS("i"), "a", vI(7)), Result: vO("id", vS("r")), Expect: "any-integer-arrives-float64"})
		cs = append(cs, witnessCase{Method: "anyb", Payload: vO("id", vS("i"), "arr", vA(vI(1), vS("x"))), Result: vO("id", vS("r")), Expect: "any-integer-arrives-float64"})
		cs = append(cs, witnessCase{Method: "anyb", Payload: vO("id", vS("i"), "m", vM(vS("k"), vA(vI(-3)))), Result: vO("id", vS("r")), Expect: "any-integer-arrives-float64"})
	}
	if prop == "C03" {
		ch := func(id int64, name string) *dg.Val { return vO("id", vI(id), "name", vS(name)) }
		cs = append(cs, witnessCase{Method: "vfold", View: "norq", Expect: "view-omits-required-nested-attribute-client-panics",
			Result: vO("summary", ch(1, "s"), "detail", ch(2, "d"), "kids", vA(ch(3, "k")), "title", vS("t"))})
		cs = append(cs, witnessCase{Method: "anyb", Payload: vO("id", vS("p")), Result: vO("id", vS("r"), "a", vI(7)), Expect: "any-integer-arrives-float64"})
	}
	return cs
}
