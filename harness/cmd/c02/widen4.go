package main

// Fourth widening (wave 3 of the independent seeded changes):
//
//   - state carried between calls inside one process: attributes with the SAME name in the
//     same location (same validation context: "body.code", "id", …) but DIFFERENT
//     Pattern() expressions, in two methods of one service and in another service,
//     exercised one after the other                (coveringPatterns, widenPatterns)
//   - parameters, headers and cookies declared ONCE at the service / API level HTTP
//     expression and inherited by every endpoint, where the methods give the inherited
//     attributes different defaults and validations (hand-written DSL design "svcp")

import (
	"regexp"

	"goa.design/goa/v3/dsl"
	"goa.design/goa/v3/expr"

	dg "verifharness/designgen"
	"verifharness/tierb"
	"verifharness/vh"
)

// dslDesign is a design built by a hand-written DSL function and described to the
// harness by a shadow design (same services, methods, attribute names; everything the
// DSL inherits or computes written out).
type dslDesign struct {
	shadow *dg.Design
	build  func()
	cases  func(prop string) []witnessCase
	what   string
	bu     *tierb.Built
}

func dslDesigns() []dslDesign {
	return []dslDesign{
		{shadow: inhShadow(), build: inhBuild, cases: inhCases, what: "inline Extend/Reference, Response(func(){ Code(...) })"},
		{shadow: svcpShadow(), build: svcpBuild, cases: svcpCases, what: "service-level and API-level Params / Headers / Cookies inherited by the endpoints"},
	}
}

// ---- same attribute names, different patterns ----

func pat(f *dg.Field, p string) *dg.Field { return f.With(dg.Validation{Pattern: p}) }

func coveringPatterns(add func(*dg.Method)) {
	obj := func(fs ...*dg.Field) *dg.Attr { a := dg.A(dg.Obj(fs...)); return &a }
	mk := func(name, path string, pc, pi, ph, pp, pk string) *dg.Method {
		return &dg.Method{Name: name,
			Payload: obj(pat(dg.Req("code", str()), pc), pat(dg.F("id", str()), pi), pat(dg.F("hx", str()), ph), pat(dg.Req("pv", str()), pp), pat(dg.F("ck", str()), pk)),
			Result:  obj(pat(dg.Req("code", str()), pc), pat(dg.F("id", str()), pi), dg.F("label", str())),
			HTTP: &dg.HTTPMap{Routes: []dg.Route{{Verb: "POST", Path: path + "/{pv}"}}, Params: []dg.MapEntry{me("id", "")},
				Headers: []dg.MapEntry{me("hx", "X-Hx")}, Cookies: []dg.MapEntry{me("ck", "ck")},
				Responses: []dg.Response{{Status: 200, Headers: []dg.MapEntry{me("id", "X-Id")}}}}}
	}
	add(mk("pata", "/pata", "^[A-Z]{2}[0-9]+$", "^[a-z]+$", "^h[0-9]+$", "^p-[a-z]+$", "^c[a-z]*$"))
	add(mk("patb", "/patb", "^[a-z0-9_]+$", "^[0-9]+$", "^H-[A-Z]+$", "^[0-9]{3}$", "^[0-9]+$"))
}

// a second service of the covering design: the same attribute names again, other patterns
func coveringSecondService() *dg.Service {
	obj := func(fs ...*dg.Field) *dg.Attr { a := dg.A(dg.Obj(fs...)); return &a }
	s := &dg.Service{Name: "cov2", BasePath: "/c2"}
	s.Methods = []*dg.Method{{Name: "patc",
		Payload: obj(pat(dg.Req("code", str()), "^k[.][a-z]+$"), pat(dg.F("id", str()), "^ID[0-9]$"), pat(dg.Req("pv", str()), "^v[0-9]+$")),
		Result:  obj(pat(dg.Req("code", str()), "^k[.][a-z]+$"), dg.F("label", str())),
		HTTP:    &dg.HTTPMap{Routes: []dg.Route{{Verb: "POST", Path: "/patc/{pv}"}}, Params: []dg.MapEntry{me("id", "")}}}}
	return s
}

func patternCases(prop string) []witnessCase {
	var cs []witnessCase
	a := vO("code", vS("AB12"), "id", vS("abc"), "hx", vS("h7"), "pv", vS("p-xy"), "ck", vS("cab"))
	b := vO("code", vS("alice_1"), "id", vS("42"), "hx", vS("H-QQ"), "pv", vS("123"), "ck", vS("77"))
	c := vO("code", vS("k.abc"), "id", vS("ID7"), "pv", vS("v12"))
	ra := vO("code", vS("ZZ9"), "id", vS("xyz"), "label", vS("l"))
	rb := vO("code", vS("bob_2"), "id", vS("007"))
	rc := vO("code", vS("k.z"))
	// one endpoint after the other, twice: whatever a first call leaves behind must not change the next
	for i := 0; i < 2; i++ {
		cs = append(cs, witnessCase{Service: "cov", Method: "pata", Payload: a, Result: ra})
		cs = append(cs, witnessCase{Service: "cov", Method: "patb", Payload: b, Result: rb})
		cs = append(cs, witnessCase{Service: "cov2", Method: "patc", Payload: c, Result: rc})
	}
	_ = prop
	return cs
}

var widenedPattern = regexp.MustCompile(`^\^(.+)\[a-z0-9\.~_-\]\*\$$`)

// widenPatterns gives some plain top-level String attributes of payloads and results a
// pattern `^<prefix>[a-z0-9.~_-]*$` with a prefix drawn per attribute occurrence: the
// attribute names come from a small pool, so the same name meets different patterns in
// different methods and services.
func widenPatterns(r *vh.RNG, d *dg.Design) {
	prefixes := []string{"m", "n", "q", "zz", "a1", "k-", "t_"}
	for _, s := range d.Services {
		for _, m := range s.Methods {
			tagged := map[string]bool{}
			if m.HTTP != nil {
				for _, rr := range m.HTTP.Responses {
					if len(rr.Tag) == 2 {
						tagged[rr.Tag[0]] = true
					}
				}
			}
			for _, a := range []*dg.Attr{m.Payload, m.Result} {
				if a == nil || a.T.Kind != "object" {
					continue
				}
				for _, f := range a.T.Attrs {
					if f.A.T.Kind != "prim" || f.A.T.Prim != "String" || f.A.V != nil || f.A.HasDef || f.A.Sec != nil || tagged[f.Name] || catchAllVar(m) == f.Name || !r.Chance(1, 3) {
						continue
					}
					f.A.V = &dg.Validation{Pattern: "^" + vh.Pick(r, prefixes) + "[a-z0-9.~_-]*$"}
					d.Features = append(d.Features, "widened_pattern")
				}
			}
		}
	}
}

// fitPatterns gives the attributes carrying a widened pattern a value that matches it.
func fitPatterns(a *dg.Attr, v *dg.Val) *dg.Val {
	if a == nil || v == nil || a.T.Kind != "object" || v.K != "object" {
		return v
	}
	out := v
	for _, f := range a.T.Attrs {
		if f.A.V == nil || f.A.V.Pattern == "" {
			continue
		}
		mm := widenedPattern.FindStringSubmatch(f.A.V.Pattern)
		cur := out.Get(f.Name)
		if mm == nil || cur == nil || cur.K != "string" {
			continue
		}
		if ok, _ := regexp.MatchString(f.A.V.Pattern, cur.S); ok {
			continue
		}
		if out == v {
			out = v.Clone()
		}
		out.Set(f.Name, &dg.Val{K: "string", S: mm[1] + "x1"})
	}
	return out
}

// ---- parameters declared at the service / API level ----

// svcpShadow: what the endpoints of the "svcp" design are after goa has merged the
// API-level header and the service-level params and cookie into each of them.
func svcpShadow() *dg.Design {
	obj := func(fs ...*dg.Field) *dg.Attr { a := dg.A(dg.Obj(fs...)); return &a }
	str1 := func() *dg.Attr { a := dg.A(str()); return &a }
	inherited := func(extra ...dg.MapEntry) *dg.HTTPMap {
		return &dg.HTTPMap{Params: append([]dg.MapEntry{me("page", ""), me("sort", "")}, extra...),
			Headers: []dg.MapEntry{me("tenant", "")}, Cookies: []dg.MapEntry{me("sess", "")}}
	}
	withRoute := func(h *dg.HTTPMap, verb, p string) *dg.HTTPMap {
		h.Routes = []dg.Route{{Verb: verb, Path: p}}
		return h
	}
	svc := &dg.Service{Name: "catalog", BasePath: "/catalog"}
	svc.Methods = []*dg.Method{
		// declares defaults and validations for the inherited attributes
		{Name: "list", Result: str1(),
			Payload: obj(dg.F("page", intT()).With(dg.Validation{Min: dg.Fp(1)}).Def(1), dg.F("sort", str()).With(dg.Validation{Enum: []any{"name", "price"}}).Def("name"),
				dg.F("tenant", str()).With(dg.Validation{Pattern: "^t[0-9]+$"}).Def("t0"), dg.F("sess", str()).With(dg.Validation{MaxLen: dg.Ip(6)}).Def("s0")),
			HTTP: withRoute(inherited(), "GET", "/items")},
		// declares nothing
		{Name: "search", Result: str1(),
			Payload: obj(dg.Req("q", str()), dg.F("page", intT()), dg.F("sort", str()), dg.F("tenant", str()), dg.F("sess", str())),
			HTTP:    withRoute(inherited(me("q", "")), "GET", "/search")},
		// declares other validations, no default
		{Name: "browse", Result: str1(),
			Payload: obj(dg.F("page", intT()).With(dg.Validation{Max: dg.Fp(0)}), dg.F("sort", str()).With(dg.Validation{Pattern: "^[A-Z]+$"}),
				dg.F("tenant", str()).With(dg.Validation{MinLen: dg.Ip(8)}), dg.F("sess", str()), dg.F("note", str())),
			HTTP: withRoute(inherited(), "POST", "/browse")},
	}
	// a second service of the same API inherits only the API-level header
	other := &dg.Service{Name: "stock"}
	other.Methods = []*dg.Method{
		{Name: "level", Result: str1(), Payload: obj(dg.F("tenant", str()), dg.F("sku", intT())),
			HTTP: &dg.HTTPMap{Routes: []dg.Route{{Verb: "GET", Path: "/level"}}, Headers: []dg.MapEntry{me("tenant", "")}, Params: []dg.MapEntry{me("sku", "")}}},
	}
	return &dg.Design{Name: "svcp", Services: []*dg.Service{svc, other}, Features: []string{"service_level_params"}}
}

func svcpBuild() {
	dsl.API("svcp", func() {
		dsl.HTTP(func() {
			dsl.Headers(func() { dsl.Header("tenant", expr.String) })
		})
	})
	dsl.Service("catalog", func() {
		dsl.HTTP(func() {
			dsl.Path("/catalog")
			dsl.Params(func() {
				dsl.Param("page", expr.Int)
				dsl.Param("sort", expr.String)
			})
			dsl.Cookie("sess", expr.String)
		})
		dsl.Method("list", func() {
			dsl.Payload(func() {
				dsl.Attribute("page", expr.Int, func() {
					dsl.Minimum(1)
					dsl.Default(1)
				})
				dsl.Attribute("sort", expr.String, func() {
					dsl.Enum("name", "price")
					dsl.Default("name")
				})
				dsl.Attribute("tenant", expr.String, func() {
					dsl.Pattern("^t[0-9]+$")
					dsl.Default("t0")
				})
				dsl.Attribute("sess", expr.String, func() {
					dsl.MaxLength(6)
					dsl.Default("s0")
				})
			})
			dsl.Result(expr.String)
			dsl.HTTP(func() { dsl.GET("/items") })
		})
		dsl.Method("search", func() {
			dsl.Payload(func() {
				dsl.Attribute("q", expr.String)
				dsl.Attribute("page", expr.Int)
				dsl.Attribute("sort", expr.String)
				dsl.Attribute("tenant", expr.String)
				dsl.Attribute("sess", expr.String)
				dsl.Required("q")
			})
			dsl.Result(expr.String)
			dsl.HTTP(func() {
				dsl.GET("/search")
				dsl.Param("q")
			})
		})
		dsl.Method("browse", func() {
			dsl.Payload(func() {
				dsl.Attribute("page", expr.Int, func() { dsl.Maximum(0) })
				dsl.Attribute("sort", expr.String, func() { dsl.Pattern("^[A-Z]+$") })
				dsl.Attribute("tenant", expr.String, func() { dsl.MinLength(8) })
				dsl.Attribute("sess", expr.String)
				dsl.Attribute("note", expr.String)
			})
			dsl.Result(expr.String)
			dsl.HTTP(func() { dsl.POST("/browse") })
		})
	})
	dsl.Service("stock", func() {
		dsl.Method("level", func() {
			dsl.Payload(func() {
				dsl.Attribute("tenant", expr.String)
				dsl.Attribute("sku", expr.Int)
			})
			dsl.Result(expr.String)
			dsl.HTTP(func() {
				dsl.GET("/level")
				dsl.Param("sku")
			})
		})
	})
}

func svcpCases(prop string) []witnessCase {
	var cs []witnessCase
	res := vS("ok")
	p := func(svc, m string, v *dg.Val) {
		cs = append(cs, witnessCase{Service: svc, Method: m, Payload: v, Result: res})
	}
	if prop == "C02" {
		// the method that declares defaults: unset attributes arrive as its defaults
		p("catalog", "list", vO("page", vI(2)))
		p("catalog", "list", vO("page", vI(3), "sort", vS("price"), "tenant", vS("t42"), "sess", vS("abc")))
		// the method that declares nothing: unset stays unset, any value is valid
		p("catalog", "search", vO("q", vS("lamp")))
		p("catalog", "search", vO("q", vS("lamp"), "page", vI(0), "sort", vS("relevance"), "tenant", vS("acme corp"), "sess", vS("a-long-session-id")))
		// the method with other validations
		p("catalog", "browse", vO("note", vS("n")))
		p("catalog", "browse", vO("page", vI(-7), "sort", vS("ZA"), "tenant", vS("tenant-nine"), "sess", vS("0123456789"), "note", vS("n")))
		p("stock", "level", vO())
		p("stock", "level", vO("tenant", vS("not a t-number"), "sku", vI(0)))
	} else {
		p("catalog", "search", vO("q", vS("lamp")))
	}
	return cs
}

// widenInlineBodies writes the body of some endpoints explicitly, in the inline form
// Body(func(){ Attribute(a); … }) over exactly the attributes that are mapped nowhere else
// (or Body("a") when there is one such attribute): the same partition, another way for
// goa to build the request body type.
func widenInlineBodies(r *vh.RNG, d *dg.Design) {
	for _, s := range d.Services {
		for _, m := range s.Methods {
			if m.Payload == nil || m.Payload.T.Kind != "object" || m.HTTP == nil || m.HTTP.Body != nil || m.HTTP.MapParams != "" || len(m.HTTP.Routes) == 0 {
				continue
			}
			mapped := map[string]bool{}
			for _, e := range append(append(append([]dg.MapEntry{}, m.HTTP.Params...), m.HTTP.Headers...), m.HTTP.Cookies...) {
				mapped[e.Attr] = true
			}
			var body []string
			sec := false
			for _, f := range m.Payload.T.Attrs {
				if f.A.Sec != nil {
					sec = true
				}
				if !mapped[f.Name] && !containsVar(m.HTTP.Routes[0].Path, f.Name) {
					body = append(body, f.Name)
				}
			}
			if sec || len(body) == 0 || len(body) == len(m.Payload.T.Attrs) || !r.Chance(1, 2) {
				continue // nothing mapped elsewhere: the inline form would be the whole payload
			}
			m.HTTP.Body = &dg.BodySpec{Attrs: body}
			d.Features = append(d.Features, "inline_request_body")
		}
	}
}

func containsVar(path, name string) bool {
	return regexp.MustCompile(`\{\*?` + regexp.QuoteMeta(name) + `\}`).MatchString(path)
}
