package main

// Sixth widening (wave 4):
//
//   - MultipartRequest endpoints with attributes in the path, the query string, headers
//     AND cookies: the driver supplies generic multipart encoder / decoder functions
//     (tierb/rt/extra.go) that carry exactly the attributes the design leaves to the body
//     (multipart_fields.json)                            (mpart, widenMultipart, writeMultipartFields)
//   - values already handed over must not change afterwards: the last results returned by
//     the client and payloads received by the service are dumped again after every later
//     exchange (rt.Obs.Recheck / RecheckGot)              (recheckEarlier)
//   - ContentType("text/plain" | "text/html") responses carrying Bytes and String results,
//     several in a row with different lengths             (txtb, txts, htmlb, widenTextResponses)
//   - results carried ONLY by response cookies             (ckonly, widenCookieOnly)

import (
	"encoding/json"
	"fmt"
	"os"
	"path/filepath"
	"strings"

	"goa.design/goa/v3/codegen"

	dg "verifharness/designgen"
	"verifharness/tierb"
	"verifharness/tierb/rt"
	"verifharness/vh"
)

func coveringWave4(add func(*dg.Method)) {
	obj := func(fs ...*dg.Field) *dg.Attr { a := dg.A(dg.Obj(fs...)); return &a }
	prim := func(p string) *dg.Attr { a := dg.A(dg.Prim(p)); return &a }
	// multipart body + every other location.  Every element outside the body carries a
	// validation: the generated multipart decoder declares one variable per element, so a
	// decoder that forgets one KIND of element still compiles exactly when the variable
	// is used by a validation - and then the loss shows as a value, not as a build
	// failure that would take the whole covering design with it.  (The random stream's
	// multipart designs keep their unvalidated elements.)
	add(&dg.Method{Name: "mpart",
		Payload: obj(dg.Req("id", str()).With(dg.Validation{MaxLen: dg.Ip(40)}), dg.F("rev", intT()).With(dg.Validation{Min: dg.Fp(0)}),
			dg.F("token", str()).With(dg.Validation{MaxLen: dg.Ip(40)}), dg.F("session", str()).With(dg.Validation{MinLen: dg.Ip(4)}),
			dg.F("sid2", str()).With(dg.Validation{MaxLen: dg.Ip(40)}), dg.Req("name", str()), dg.Req("content", str()), dg.F("tags", dg.ArrayOf(dg.A(str()))), dg.F("n", dg.Prim("Int64"))),
		Result: obj(dg.F("ok", boolT())),
		HTTP: &dg.HTTPMap{Routes: []dg.Route{{Verb: "POST", Path: "/mpart/{id}"}}, Params: []dg.MapEntry{me("rev", "")},
			Headers: []dg.MapEntry{me("token", "X-Token")}, Cookies: []dg.MapEntry{me("session", "SID"), me("sid2", "sid2")}, Multipart: true}})
	// text bodies
	add(&dg.Method{Name: "txtb", Result: prim("Bytes"), HTTP: &dg.HTTPMap{Routes: []dg.Route{{Verb: "GET", Path: "/txtb"}},
		Responses: []dg.Response{{Status: 200, ContentType: "text/plain"}}}})
	add(&dg.Method{Name: "htmlb", Result: prim("Bytes"), HTTP: &dg.HTTPMap{Routes: []dg.Route{{Verb: "GET", Path: "/htmlb"}},
		Responses: []dg.Response{{Status: 200, ContentType: "text/html"}}}})
	add(&dg.Method{Name: "txts", Result: prim("String"), HTTP: &dg.HTTPMap{Routes: []dg.Route{{Verb: "GET", Path: "/txts"}},
		Responses: []dg.Response{{Status: 200, ContentType: "text/plain"}}}})
	// a result carried only by cookies
	add(&dg.Method{Name: "ckonly", Result: obj(dg.Req("token", str()), dg.F("opt", str()), dg.F("dflt", str()).Def("dv")),
		HTTP: &dg.HTTPMap{Routes: []dg.Route{{Verb: "GET", Path: "/ckonly"}},
			Responses: []dg.Response{{Status: 200, Cookies: []dg.MapEntry{me("token", "tok_ck"), me("opt", "opt_ck"), me("dflt", "dflt_ck")}}}}})
}

func vBytes(s string) *dg.Val { return &dg.Val{K: "bytes", S: fmt.Sprintf("%x", s)} }

func wave4Cases(prop string) []witnessCase {
	var cs []witnessCase
	okRes := vO("ok", vB(true))
	if prop == "C02" {
		p := func(v *dg.Val) { cs = append(cs, witnessCase{Method: "mpart", Payload: v, Result: okRes}) }
		p(vO("id", vS("f1"), "rev", vI(3), "token", vS("tk"), "session", vS("sess-42"), "sid2", vS("s2"), "name", vS("a.txt"), "content", vS("hello world"), "tags", vA(vS("x"), vS("y z")), "n", vI(minI64)))
		p(vO("id", vS("f2"), "name", vS("b"), "content", vS("c")))
		p(vO("id", vS("f 3"), "session", vS("abcd"), "name", vS("é"), "content", vS("\"q\" %41 a/b")))
	} else {
		r := func(m string, v *dg.Val) { cs = append(cs, witnessCase{Method: m, Result: v}) }
		// long, long, shorter ... : an earlier result must still be what it was after the later ones
		r("txtb", vBytes(strings.Repeat("first-long-body.", 8)))
		r("txtb", vBytes(strings.Repeat("SECOND-LONG-BODY", 8)))
		r("htmlb", vBytes("<p>third, html</p>"))
		r("txtb", vBytes("short"))
		r("txts", vS("a string result, plain text"))
		r("txtb", vBytes("x"))
		r("txts", vS("é → ü"))
		r("ckonly", vO("token", vS("t1"), "opt", vS("o p,q"), "dflt", vS("set")))
		r("ckonly", vO("token", vS("only")))
	}
	return cs
}

// widenMultipart turns some body-carrying endpoints of a random design into multipart
// endpoints (the other locations stay as they are).
func widenMultipart(r *vh.RNG, d *dg.Design) {
	for _, s := range d.Services {
		for _, m := range s.Methods {
			if m.Payload == nil || m.Payload.T.Kind != "object" || m.HTTP == nil || m.HTTP.Body != nil || m.HTTP.MapParams != "" || len(m.HTTP.Routes) == 0 {
				continue
			}
			verb := m.HTTP.Routes[0].Verb
			if verb != "POST" && verb != "PUT" && verb != "PATCH" {
				continue
			}
			if len(bodyFieldsOf(m)) == 0 || multipartBodyHasDefaults(d, m) || !r.Chance(1, 4) {
				continue
			}
			m.HTTP.Multipart = true
			d.Features = append(d.Features, "multipart_request")
		}
	}
}

// multipartBodyHasDefaults: with MultipartRequest the body part of the payload is built by
// the USER's decoder straight into the service type, whose defaulted attributes are plain
// (non-pointer) fields: "unset" and "zero" are the same Go value there and no generated
// code fills a default.  What the service sees for such an attribute is decided by user
// code, so the stream keeps to bodies without defaults (parameters, headers and cookies -
// which the GENERATED decoder merges - keep theirs).
func multipartBodyHasDefaults(d *dg.Design, m *dg.Method) bool {
	// the same resolution of fields as the expectation (withDefaults): d.AllFields follows
	// Extend, d.Base follows alias chains
	seen := map[string]bool{}
	var deepT func(t *dg.Type) bool
	deepA := func(a *dg.Attr) bool { return a != nil && (a.HasDef || deepT(&a.T)) }
	deepT = func(t *dg.Type) bool {
		if t.Kind == "user" || t.Kind == "collection" {
			if seen[t.Ref] {
				return false
			}
			seen[t.Ref] = true
		}
		ut := t
		if t.Kind == "collection" {
			ut = &dg.Type{Kind: "user", Ref: t.Ref}
		}
		bt, _ := d.Base(ut)
		switch bt.Kind {
		case "array":
			return deepA(bt.Elem)
		case "map":
			return deepA(bt.Elem) || deepA(bt.Key)
		case "collection":
			return deepT(bt)
		case "object":
			for _, f := range d.AllFields(ut) {
				if deepA(&f.A) {
					return true
				}
			}
		}
		return false
	}
	body := map[string]bool{}
	for _, n := range bodyFieldsOf(m) {
		body[n] = true
	}
	for _, f := range d.AllFields(&m.Payload.T) {
		if body[f.Name] && deepA(&f.A) {
			return true
		}
	}
	return false
}

// bodyFieldsOf: the top-level payload attributes the design leaves to the body.
func bodyFieldsOf(m *dg.Method) []string {
	if m.Payload == nil || m.Payload.T.Kind != "object" || m.HTTP == nil {
		return nil
	}
	mapped := map[string]bool{}
	for _, e := range append(append(append([]dg.MapEntry{}, m.HTTP.Params...), m.HTTP.Headers...), m.HTTP.Cookies...) {
		mapped[e.Attr] = true
	}
	var out []string
	for _, f := range m.Payload.T.Attrs {
		if !mapped[f.Name] && !containsVar(m.HTTP.Routes[0].Path, f.Name) {
			out = append(out, f.Name)
		}
	}
	return out
}

// writeMultipartFields tells the driver's generic multipart functions which Go fields of
// each multipart payload belong to the body.
func writeMultipartFields(b *tierb.Batch) error {
	out := map[string][]string{}
	for _, bu := range b.Items {
		if bu.Dropped {
			continue
		}
		for _, sv := range bu.Services {
			parts := strings.Split(sv, "\x00")
			name, path := parts[0], parts[1]
			for _, s := range bu.Design.Services {
				if s.Name != name {
					continue
				}
				for _, m := range s.Methods {
					if m.HTTP == nil || !m.HTTP.Multipart {
						continue
					}
					var fields []string
					for _, a := range bodyFieldsOf(m) {
						fields = append(fields, dg.GoField(a))
					}
					out["tb/"+bu.Key+"/gen/"+path+"."+codegen.Goify(m.Name, true)+"Payload"] = fields
				}
			}
		}
	}
	bs, _ := json.Marshal(out)
	return os.WriteFile(filepath.Join(b.Dir, "multipart_fields.json"), bs, 0o644)
}

// widenTextResponses gives some Bytes / String primitive results a text content type.
func widenTextResponses(r *vh.RNG, d *dg.Design) {
	for _, s := range d.Services {
		for _, m := range s.Methods {
			if m.Result == nil || m.Result.T.Kind != "prim" || (m.Result.T.Prim != "Bytes" && m.Result.T.Prim != "String") || m.HTTP == nil || len(m.HTTP.Responses) > 0 || !r.Chance(1, 2) {
				continue
			}
			m.HTTP.Responses = []dg.Response{{Status: 200, ContentType: vh.Pick(r, []string{"text/plain", "text/html"})}}
			d.Features = append(d.Features, "text_response")
		}
	}
}

// widenCookieOnly adds, to a third of the random designs, a method whose result travels
// only in response cookies.
func widenCookieOnly(r *vh.RNG, d *dg.Design) {
	if len(d.Services) == 0 || !r.Chance(1, 3) {
		return
	}
	obj := func(fs ...*dg.Field) *dg.Attr { a := dg.A(dg.Obj(fs...)); return &a }
	s := d.Services[len(d.Services)-1]
	f2 := dg.F("csrf", dg.Prim("String"))
	f2.Required = r.Bool()
	s.Methods = append(s.Methods, &dg.Method{Name: "cklogin", Result: obj(dg.Req("sid", dg.Prim("String")), f2),
		HTTP: &dg.HTTPMap{Routes: []dg.Route{{Verb: "POST", Path: "/cklogin"}},
			Responses: []dg.Response{{Status: 200, Cookies: []dg.MapEntry{{Attr: "sid", Wire: "sid_rck"}, {Attr: "csrf", Wire: "csrf_rck"}}}}}})
	d.Features = append(d.Features, "result_only_in_cookies")
}

// recheckEarlier: values handed over by earlier exchanges, dumped again after this one,
// must be what they were.
func recheckEarlier(ob *rt.Obs, obs map[int]*rt.Obs) (bad int, what string) {
	eq := func(a, b *rt.Tree) bool {
		x, _ := json.Marshal(a)
		y, _ := json.Marshal(b)
		return string(x) == string(y)
	}
	for id, now := range ob.Recheck {
		if prev := obs[id]; prev != nil && prev.ClientResult != nil && !eq(prev.ClientResult, now) {
			x, _ := json.Marshal(prev.ClientResult)
			y, _ := json.Marshal(now)
			return id, fmt.Sprintf("the result the client returned in an earlier exchange (step %d) was %s; after this exchange the same value reads %s", id, trunc(string(x)), trunc(string(y)))
		}
	}
	for id, now := range ob.RecheckGot {
		if prev := obs[id]; prev != nil && prev.Got != nil && !eq(prev.Got, now) {
			x, _ := json.Marshal(prev.Got)
			y, _ := json.Marshal(now)
			return id, fmt.Sprintf("the payload the service method received in an earlier exchange (step %d) was %s; after this exchange the same value reads %s", id, trunc(string(x)), trunc(string(y)))
		}
	}
	return -1, ""
}

func trunc(s string) string {
	if len(s) > 160 {
		return s[:160] + "…"
	}
	return s
}

// renameShadowedExtendAttrs: goa's Extend lets the BASE type's attribute win when a type
// declares an attribute under a name it also inherits (expr AttributeExpr.Merge: left.Set of
// every attribute of the extended type), while the design description reads the type's own
// declaration. So that description and generated code speak of the same attributes, an own
// attribute shadowed by an inherited one gets a fresh name (the inherited one stays
// reachable under the old name, exactly as goa has it).
func renameShadowedExtendAttrs(d *dg.Design) {
	for _, ut := range d.Types {
		if ut.Extend == "" || ut.Base.Kind != "object" {
			continue
		}
		inherited := map[string]bool{}
		for _, f := range d.AllFields(&dg.Type{Kind: "user", Ref: ut.Extend}) {
			inherited[f.Name] = true
		}
		own := map[string]bool{}
		for _, f := range ut.Base.Attrs {
			own[f.Name] = true
		}
		for _, f := range ut.Base.Attrs {
			if !inherited[f.Name] {
				continue
			}
			n := f.Name + "_own"
			for inherited[n] || own[n] {
				n += "x"
			}
			own[n] = true
			f.Name = n
		}
	}
}
