package main

// Classifier: computes the signature of a failing exchange from the exchange itself
// (which attribute changed, where the design puts it, what the given value was, what
// arrived). A signature names a loss class only when the GIVEN value is in that class
// and what arrived is what that class predicts; anything else is "…-changed:<where>".

import (
	"fmt"
	"net/url"
	"strings"

	dg "verifharness/designgen"
	"verifharness/tierb/rt"
)

func isStrTy(t TyInfo) bool { return t.Kind == "prim" && t.Prim == "string" }
func isStrArr(t TyInfo) bool {
	return t.Kind == "array" && t.Prim == "string"
}

func sanitizeCookie(s string) string {
	var b strings.Builder
	for i := 0; i < len(s); i++ {
		c := s[i]
		if 0x20 <= c && c < 0x7f && c != '"' && c != ';' && c != '\\' {
			b.WriteByte(c)
		}
	}
	return b.String()
}

func trimHeader(s string) string { return strings.Trim(s, " \t") }

func hasPctTriple(s string) bool {
	for i := 0; i+2 < len(s); i++ {
		if s[i] == '%' && ishex(s[i+1]) && ishex(s[i+2]) {
			return true
		}
	}
	return false
}

func ishex(c byte) bool {
	return '0' <= c && c <= '9' || 'a' <= c && c <= 'f' || 'A' <= c && c <= 'F'
}

// pathText: the text the client writes for a path value ("" when it renders empty).
func pathText(v *dg.Val) string {
	if v == nil {
		return ""
	}
	switch v.K {
	case "string":
		return v.S
	case "array":
		var parts []string
		for _, e := range v.Elems {
			if e.K == "string" {
				parts = append(parts, url.QueryEscape(e.S))
			} else {
				parts = append(parts, e.String())
			}
		}
		return strings.Join(parts, ",")
	}
	return v.String()
}

// side describes where the attributes of a payload (request) or result (response) travel.
type side struct {
	response bool
	hasAny   func(attr string) bool // the attribute's type holds an Any somewhere (set by the caller)
	object   bool                   // the value is an object with per-attribute locations
	attrs    []AttrInfo
	locs     func(attr string) [][2]string
	whole    string // for non-object values: the single location
}

func reqSide(ep *EpInfo) side {
	s := side{object: ep.PayloadKind == "object", attrs: ep.PayloadAttrs, locs: ep.locsOf}
	if !s.object {
		switch {
		case len(ep.PathParams) > 0:
			s.whole = "path"
		case len(ep.Query) > 0:
			s.whole = "query"
		case len(ep.Headers) > 0:
			s.whole = "header"
		case len(ep.Cookies) > 0:
			s.whole = "cookie"
		default:
			s.whole = "body"
		}
	}
	return s
}

func respSide(ep *EpInfo, r *RespInfo) side {
	s := side{object: ep.ResultKind == "object", attrs: ep.ResultAttrs, response: true}
	if r != nil {
		s.locs = r.locsOf
		if !s.object {
			switch {
			case len(r.Headers) > 0:
				s.whole = "header"
			case len(r.Cookies) > 0:
				s.whole = "cookie"
			default:
				s.whole = "body"
			}
		}
	} else {
		s.locs = func(string) [][2]string { return nil }
		s.whole = "body"
	}
	return s
}

func (s side) locOf(attr string) string {
	if !s.object {
		return s.whole
	}
	l := s.locs(attr)
	if len(l) == 1 {
		return l[0][0]
	}
	if len(l) == 0 {
		return "nowhere"
	}
	return "many"
}

func (s side) info(attr string) *AttrInfo {
	for i := range s.attrs {
		if s.attrs[i].Name == attr {
			return &s.attrs[i]
		}
	}
	return nil
}

// diffAttrs lists the top-level attributes on which want and got differ.
func diffAttrs(s side, want, got *dg.Val) []string {
	if !s.object || want == nil || got == nil || want.K != "object" || got.K != "object" {
		if want.Equal(got) {
			return nil
		}
		return []string{""}
	}
	var out []string
	seen := map[string]bool{}
	for _, n := range append(append([]string{}, want.Names...), got.Names...) {
		if seen[n] {
			continue
		}
		seen[n] = true
		w, g := want.Get(n), got.Get(n)
		if (w == nil) != (g == nil) || (w != nil && !w.Equal(g)) {
			out = append(out, n)
		}
	}
	return out
}

func mapStr(v *dg.Val, f func(string) string) *dg.Val {
	if v == nil {
		return nil
	}
	c := v.Clone()
	switch c.K {
	case "string":
		c.S = f(c.S)
	case "array":
		for i, e := range c.Elems {
			c.Elems[i] = mapStr(e, f)
		}
	}
	return c
}

func anyStr(v *dg.Val, f func(string) bool) bool {
	if v == nil {
		return false
	}
	switch v.K {
	case "string":
		return f(v.S)
	case "array":
		for _, e := range v.Elems {
			if anyStr(e, f) {
				return true
			}
		}
	}
	return false
}

func isEmptyColl(v *dg.Val) bool {
	return v != nil && ((v.K == "array" && len(v.Elems) == 0) || (v.K == "map" && len(v.Keys) == 0))
}

// lossClass names the recorded loss class that explains why attribute `attr`, given as
// g, arrived as r (nil = unset) — or "" when none does.
func lossClass(s side, attr string, g, r *dg.Val, response bool) string {
	loc := s.locOf(attr)
	ai := s.info(attr)
	if !s.object && len(s.attrs) == 1 {
		ai = &s.attrs[0]
	}
	var ty TyInfo
	var def *dg.Val
	if ai != nil {
		ty = ai.Ty
		if ai.HasDef {
			def = defValInfo(ai)
		}
	}
	param := loc == "query" || loc == "header" || loc == "cookie"
	if s.hasAny != nil && s.hasAny(attr) && loc == "body" && g != nil && r != nil {
		if gf, changed := intsAsFloats(g); changed && gf.Equal(r) {
			return "any-integer-arrives-float64"
		}
	}
	switch {
	case def != nil && g != nil && isZero(g) && r != nil && r.Equal(def) && !g.Equal(def):
		return "default-overrides-zero"
	case def != nil && g == nil && param && !response && ty.Kind == "prim" && r != nil && isZero(r) && !r.Equal(def):
		return "unset-defaulted-param-sent-as-zero"
	case def != nil && g == nil && (loc == "header" || loc == "cookie") && response && ty.Kind == "prim" && r != nil && isZero(r) && !r.Equal(def):
		return "default-in-response-header-sent-as-zero"
	case param && ty.Kind == "map" && g != nil && r != nil && anyKey(g, func(x string) bool { return strings.Contains(x, "]") }):
		return "query-map-key-bracket-truncated"
	case param && isStrTy(ty) && g != nil && g.K == "string" && g.S == "" && r == nil && def == nil:
		return "empty-string-arrives-unset"
	case isEmptyColl(g) && r == nil:
		return "empty-collection-arrives-nil"
	case loc == "path" && ty.Kind == "array" && g != nil && r != nil && anyStr(g, func(x string) bool { return strings.Contains(x, ",") }) && len(r.Elems) > len(g.Elems):
		return "path-array-comma-splits"
	case loc == "path" && isStrArr(ty) && g != nil && r != nil && anyStr(g, func(x string) bool { return strings.Contains(x, " ") }) &&
		r.Equal(mapStr(g, func(x string) string { return strings.ReplaceAll(x, " ", "+") })):
		return "path-array-space-becomes-plus"
	case loc == "path" && isStrTy(ty) && g != nil && r != nil && hasPctTriple(g.S):
		if u, err := url.PathUnescape(g.S); err == nil && r.K == "string" && r.S == u {
			return "path-percent-decoded-twice"
		}
	case loc == "header" && !response && (isStrTy(ty) || isStrArr(ty)) && g != nil && r != nil && r.Equal(mapStr(g, trimHeader)):
		return "header-value-trimmed"
	case loc == "header" && response && isStrTy(ty) && g != nil && r != nil && r.Equal(mapStr(g, trimHeader)):
		return "header-value-trimmed"
	case loc == "cookie" && isStrTy(ty) && g != nil && r != nil && r.Equal(mapStr(g, sanitizeCookie)):
		return "cookie-value-sanitised"
	case loc == "header" && response && ty.Kind == "array" && g != nil && len(g.Elems) > 1 && (r == nil || len(r.Elems) < len(g.Elems)):
		return "response-header-array-joined"
	}
	return ""
}

func defValInfo(ai *AttrInfo) *dg.Val {
	t := dg.Prim(goaPrimToDesign(ai.Ty.Prim))
	return defVal(normDefault(ai.Default), &t)
}

func normDefault(x any) any {
	switch v := x.(type) {
	case uint8:
		return int(v)
	case int8:
		return int(v)
	case int64:
		return int(v)
	case int32:
		return int(v)
	case uint:
		return int(v)
	case uint32:
		return int(v)
	case uint64:
		return int(v)
	case float32:
		return float64(v)
	}
	return x
}

func goaPrimToDesign(p string) string {
	switch p {
	case "boolean":
		return "Boolean"
	case "int":
		return "Int"
	case "int32":
		return "Int32"
	case "int64":
		return "Int64"
	case "uint":
		return "UInt"
	case "uint32":
		return "UInt32"
	case "uint64":
		return "UInt64"
	case "float32":
		return "Float32"
	case "float64":
		return "Float64"
	case "string":
		return "String"
	case "bytes":
		return "Bytes"
	}
	return "Any"
}

// classifyRequest: signature of a C02 failure.
func classifyRequest(ep *EpInfo, given, want, got *dg.Val, ob *rt.Obs, hasAny func(string) bool) string {
	s := reqSide(ep)
	s.hasAny = hasAny
	if ob.Invoked != 1 {
		st := statusOf(ob)
		fields := func(pred func(loc string, ai *AttrInfo, v *dg.Val) bool) bool {
			if !s.object {
				return len(s.attrs) == 1 && pred(s.whole, &s.attrs[0], given)
			}
			for i := range s.attrs {
				if pred(s.locOf(s.attrs[i].Name), &s.attrs[i], given.Get(s.attrs[i].Name)) {
					return true
				}
			}
			return false
		}
		body := ""
		if ob.Resp != nil {
			body = ob.Resp.Body
		}
		switch {
		case st == 400 && strings.Contains(body, "missing_field") && fields(func(loc string, ai *AttrInfo, v *dg.Val) bool {
			return (loc == "query" || loc == "header" || loc == "cookie") && ai.Required && isStrTy(ai.Ty) && v != nil && v.K == "string" && v.S == ""
		}):
			return "required-empty-string-rejected"
		case st == 404 && fields(func(loc string, ai *AttrInfo, v *dg.Val) bool {
			return loc == "path" && v != nil && pathText(v) == ""
		}):
			return "empty-path-value-not-routed"
		case st == 404 && fields(func(loc string, ai *AttrInfo, v *dg.Val) bool {
			return loc == "path" && v != nil && v.K == "string" && strings.Contains(v.S, "/")
		}):
			return "path-slash-not-escaped"
		}
		return fmt.Sprintf("valid-request-not-delivered:%d", st)
	}
	return classifyDiff(s, given, want, got, false, "payload")
}

func classifyDiff(s side, given, want, got *dg.Val, response bool, what string) string {
	ds := diffAttrs(s, want, got)
	if len(ds) == 0 {
		return what + "-changed:none"
	}
	if len(ds) > 1 {
		return what + "-changed:several-attributes"
	}
	a := ds[0]
	var g, r *dg.Val
	if s.object {
		g, r = given.Get(a), got.Get(a)
	} else {
		g, r = given, got
		if r != nil && r.K == "null" {
			r = nil
		}
	}
	if c := lossClass(s, a, g, r, response); c != "" {
		return c
	}
	cls := "value"
	switch {
	case g == nil && r != nil:
		cls = "unset-arrived-set"
	case g != nil && r == nil:
		cls = "set-arrived-unset"
	case g != nil && r != nil && g.K != r.K:
		cls = "kind"
	case g != nil && g.K == "array" && len(g.Elems) != len(r.Elems):
		cls = "array-length"
	case g != nil && g.K == "map" && len(g.Keys) != len(r.Keys):
		cls = "map-size"
	}
	return what + "-changed:" + s.locOf(a) + ":" + cls
}

// classifyResponse: signature of a C03 failure.
func classifyResponse(ep *EpInfo, sel *RespInfo, given, want, got *dg.Val, ob *rt.Obs, hasAny func(string) bool) string {
	s := respSide(ep, sel)
	s.hasAny = hasAny
	if ob.ClientErr != nil {
		// no response at all (the server closed the connection): a tagged response whose
		// header attribute is a nil pointer is dereferenced by the generated encoder
		if ob.Resp == nil && s.object && sel != nil && len(sel.Tag) == 2 {
			for i := range s.attrs {
				ai := &s.attrs[i]
				if s.locOf(ai.Name) == "header" && !ai.Required && !ai.HasDef && given.Get(ai.Name) == nil {
					return "tagged-response-unset-header-panics"
				}
			}
		}
		// the client refused the response
		if s.object && sel != nil {
			for i := range s.attrs {
				ai := &s.attrs[i]
				loc := s.locOf(ai.Name)
				if ai.HasDef && (loc == "header" || loc == "cookie") && given.Get(ai.Name) == nil {
					return "default-in-response-header-sent-as-zero"
				}
			}
			for i := range s.attrs {
				ai := &s.attrs[i]
				if s.locOf(ai.Name) == "header" && ai.Ty.Kind == "array" && ai.Ty.Prim != "string" && given.Get(ai.Name) != nil && len(given.Get(ai.Name).Elems) > 1 {
					return "response-header-array-joined"
				}
			}
		}
		return "valid-result-not-delivered:" + ob.ClientErr.Name
	}
	return classifyDiff(s, given, want, got, true, "result")
}

func isZero(v *dg.Val) bool {
	if v == nil {
		return false
	}
	switch v.K {
	case "bool":
		return !v.B
	case "int":
		return v.I == 0
	case "uint":
		return v.U == 0
	case "float":
		return v.F == 0
	case "string":
		return v.S == ""
	}
	return false
}

func anyKey(v *dg.Val, f func(string) bool) bool {
	if v == nil || v.K != "map" {
		return false
	}
	for _, k := range v.Keys {
		if k.K == "string" && f(k.S) {
			return true
		}
	}
	return false
}
