package main

// Second widening (response side):
//
//   - two to four success responses per method with the tagless one at EVERY position
//     (first, middle, last) or absent, tags on one or on several attributes; every tag
//     value and a non-matching value are exercised          (widenResponses, steerTags)
//   - inline Result / Payload with Extend(Base) / Reference(Base) whose inherited
//     attributes are mapped to headers, cookies and parameters: designgen's interpreter
//     has no inline form, so the "inh" design is built by a hand-written DSL function
//     and described to the harness by a flattened shadow design  (inhShadow, inhBuild,
//     regenWithDSL)
//   - the wire-location clause on responses: no body member, header or cookie that the
//     design does not put there                                (strayOnResponse)

import (
	"encoding/json"
	"fmt"
	"net/textproto"
	"os"
	"path/filepath"
	"strings"

	"goa.design/goa/v3/dsl"
	"goa.design/goa/v3/eval"
	"goa.design/goa/v3/expr"

	dg "verifharness/designgen"
	"verifharness/tierb"
	"verifharness/tierb/rt"
	"verifharness/vh"
)

// ---- several success responses ----

var tagStatuses = []int{200, 201, 202, 203}

// widenResponses gives some methods of a random design two to four success responses.
func widenResponses(r *vh.RNG, d *dg.Design) {
	for _, s := range d.Services {
		for _, m := range s.Methods {
			if m.Result == nil || m.Result.T.Kind != "object" || m.HTTP == nil || m.HTTP.SkipResp || len(m.HTTP.Responses) > 1 || !r.Chance(1, 2) {
				continue
			}
			var base dg.Response
			if len(m.HTTP.Responses) == 1 {
				base = m.HTTP.Responses[0]
				if len(base.Tag) > 0 || base.Body != nil {
					continue
				}
			}
			placed := map[string]bool{}
			for _, e := range append(append([]dg.MapEntry{}, base.Headers...), base.Cookies...) {
				placed[e.Attr] = true
			}
			var cands []*dg.Field
			for _, f := range m.Result.T.Attrs {
				if f.A.T.Kind == "prim" && f.A.T.Prim == "String" && f.A.V == nil && !f.A.HasDef && f.A.Sec == nil && !placed[f.Name] {
					cands = append(cands, f)
				}
			}
			// the random results seldom hold a plain String attribute: add tag attributes
			names := map[string]bool{}
			for _, f := range m.Result.T.Attrs {
				names[f.Name] = true
			}
			for _, n := range []string{"stage", "phase"} {
				if len(cands) < 2 && !names[n] && (len(cands) == 0 || r.Bool()) {
					f := dg.F(n, dg.Prim("String"))
					f.Required = r.Chance(1, 3)
					m.Result.T.Attrs = append(m.Result.T.Attrs, f)
					cands = append(cands, f)
				}
			}
			if len(cands) == 0 {
				continue
			}
			nTag := 1 + r.Intn(3)
			pos := r.Intn(nTag + 1) // where the tagless response goes
			noTagless := false      // goa rejects designs whose responses all define a Tag
			perm := []int{0, 1, 2, 3}
			for i := 3; i > 0; i-- {
				j := r.Intn(i + 1)
				perm[i], perm[j] = perm[j], perm[i]
			}
			sameAttr := r.Bool()
			var resps []dg.Response
			ti := 0
			for i := 0; i <= nTag; i++ {
				rr := dg.Response{Status: tagStatuses[perm[i]], Headers: base.Headers, Cookies: base.Cookies}
				if i == pos {
					if noTagless {
						continue
					}
					resps = append(resps, rr)
					continue
				}
				f := cands[0]
				if !sameAttr {
					f = cands[ti%len(cands)]
				}
				rr.Tag = []string{f.Name, fmt.Sprintf("tv%d", ti)}
				ti++
				resps = append(resps, rr)
			}
			m.HTTP.Responses = resps
			d.Features = append(d.Features, fmt.Sprintf("responses_%d_tagless_at_%d", len(resps), map[bool]int{true: -1, false: pos}[noTagless]))
		}
	}
}

// steerTags makes the result select, in turn, each tagged response and none of them.
func steerTags(m *dg.Method, rv *dg.Val, k int) *dg.Val {
	if m.HTTP == nil || rv == nil || rv.K != "object" {
		return rv
	}
	var tagged []dg.Response
	tagless := false
	for _, r := range m.HTTP.Responses {
		if len(r.Tag) == 2 {
			tagged = append(tagged, r)
		} else {
			tagless = true
		}
	}
	if len(tagged) == 0 {
		return rv
	}
	n := len(tagged)
	if tagless {
		n++
	}
	target := k % n // == len(tagged): none matches
	out := rv.Clone()
	for i, r := range tagged {
		if i != target {
			if v := out.Get(r.Tag[0]); v != nil && v.K == "string" && v.S == r.Tag[1] {
				out.Set(r.Tag[0], &dg.Val{K: "string", S: "zz"})
			}
		}
	}
	if target < len(tagged) {
		out.Set(tagged[target].Tag[0], &dg.Val{K: "string", S: tagged[target].Tag[1]})
		// another response tagged on the same attribute cannot match any more; one on another attribute must not
		for i, r := range tagged {
			if i != target && r.Tag[0] != tagged[target].Tag[0] {
				if v := out.Get(r.Tag[0]); v != nil && v.K == "string" && v.S == r.Tag[1] {
					out.Set(r.Tag[0], &dg.Val{K: "string", S: "zz"})
				}
			}
		}
	}
	return out
}

// fillTaggedHeaders keeps the main streams outside the recorded loss class
// tagged-response-unset-header-panics: when the result selects a TAGGED response, every
// attribute that response carries in a header is given a value.
func fillTaggedHeaders(d *dg.Design, r *vh.RNG, m *dg.Method, rv *dg.Val) *dg.Val {
	if m.HTTP == nil || m.Result == nil || rv == nil || rv.K != "object" {
		return rv
	}
	var sel *dg.Response
	for i := range m.HTTP.Responses {
		rr := &m.HTTP.Responses[i]
		if len(rr.Tag) == 2 {
			if v := rv.Get(rr.Tag[0]); v != nil && v.K == "string" && v.S == rr.Tag[1] {
				sel = rr
				break
			}
		}
	}
	if sel == nil {
		return rv
	}
	out := rv
	for _, e := range sel.Headers {
		if out.Get(e.Attr) != nil {
			continue
		}
		for _, f := range d.AllFields(&m.Result.T) {
			if f.Name != e.Attr {
				continue
			}
			var nv *dg.Val
			for tries := 0; tries < 8; tries++ {
				nv = d.GenVal(r, &f.A, dg.ValOpts{Depth: 1, SafeString: true, NoEmpty: true})
				if nv.K == "array" && len(nv.Elems) > 1 {
					nv.Elems = nv.Elems[:1]
				}
				if locSafe("header", nv, false) && !(f.A.HasDef && isZero(nv)) {
					break
				}
			}
			if out == rv {
				out = rv.Clone()
			}
			out.Set(f.Name, nv)
		}
	}
	return out
}

// coveringResponses: methods of the covering design with several success responses.
func coveringResponses(add func(*dg.Method)) {
	obj := func(fs ...*dg.Field) *dg.Attr { a := dg.A(dg.Obj(fs...)); return &a }
	get := func(p string) []dg.Route { return []dg.Route{{Verb: "GET", Path: p}} }
	res := func() *dg.Attr {
		return obj(dg.F("outcome", str()), dg.Req("kind", str()), dg.F("n", intT()), dg.Req("name", str()))
	}
	hn := []dg.MapEntry{me("n", "X-N")}
	// tagless in the MIDDLE of three
	add(&dg.Method{Name: "trmid", Result: res(), HTTP: &dg.HTTPMap{Routes: get("/trmid"), Responses: []dg.Response{
		{Status: 201, Tag: []string{"outcome", "created"}, Headers: hn}, {Status: 200, Headers: hn}, {Status: 202, Tag: []string{"outcome", "accepted"}, Headers: hn}}}})
	// tagless FIRST of four, tags on two attributes (one required, one optional)
	add(&dg.Method{Name: "trfirst", Result: res(), HTTP: &dg.HTTPMap{Routes: get("/trfirst"), Responses: []dg.Response{
		{Status: 200}, {Status: 201, Tag: []string{"kind", "k1"}}, {Status: 202, Tag: []string{"outcome", "o2"}}, {Status: 203, Tag: []string{"kind", "k2"}}}}})
	// tagless LAST of three
	add(&dg.Method{Name: "trlast", Result: res(), HTTP: &dg.HTTPMap{Routes: get("/trlast"), Responses: []dg.Response{
		{Status: 202, Tag: []string{"kind", "k1"}}, {Status: 201, Tag: []string{"kind", "k2"}}, {Status: 200}}}})
	// tagless second of four
	add(&dg.Method{Name: "trsec", Result: res(), HTTP: &dg.HTTPMap{Routes: get("/trsec"), Responses: []dg.Response{
		{Status: 203, Tag: []string{"outcome", "a"}}, {Status: 200}, {Status: 201, Tag: []string{"outcome", "b"}}, {Status: 202, Tag: []string{"outcome", "c"}}}}})
	// (goa rejects a method whose responses all define a Tag: no such layout)

	// a user type extending another one, inherited attributes mapped on both sides
	add(&dg.Method{Name: "uext", Payload: func() *dg.Attr { a := dg.A(dg.Ref("Derived")); return &a }(), Result: func() *dg.Attr { a := dg.A(dg.Ref("Derived")); return &a }(),
		HTTP: &dg.HTTPMap{Routes: []dg.Route{{Verb: "POST", Path: "/uext"}},
			Headers: []dg.MapEntry{me("bh", "X-Bh")}, Cookies: []dg.MapEntry{me("bc", "bc_ck")}, Params: []dg.MapEntry{me("bq", "")},
			Responses: []dg.Response{{Status: 200, Headers: []dg.MapEntry{me("bh", "X-Rbh")}, Cookies: []dg.MapEntry{me("bc", "bc_rck")}}}}})
}

func coveringResponseTypes() []*dg.UserType {
	return []*dg.UserType{
		{Name: "BaseT", Base: dg.Obj(dg.F("bh", str()), dg.F("bc", str()), dg.F("bq", intT()), dg.F("bb", str()))},
		{Name: "Derived", Extend: "BaseT", Base: dg.Obj(dg.Req("own", str()))},
	}
}

func coveringResponseCases(prop string) []witnessCase {
	var cs []witnessCase
	r := func(m string, v *dg.Val) { cs = append(cs, witnessCase{Method: m, Result: v}) }
	derived := func() *dg.Val {
		return vO("bh", vS("hv"), "bc", vS("cv"), "bq", vI(-3), "bb", vS("body"), "own", vS("o"))
	}
	if prop == "C03" {
		for _, oc := range []string{"created", "accepted", "other"} {
			r("trmid", vO("outcome", vS(oc), "kind", vS("k"), "n", vI(3), "name", vS("nm")))
		}
		r("trmid", vO("kind", vS("k"), "name", vS("nm")))
		for _, kd := range []string{"k1", "k2", "zz"} {
			r("trfirst", vO("kind", vS(kd), "name", vS("nm"), "outcome", vS("none")))
			r("trlast", vO("kind", vS(kd), "name", vS("nm")))
		}
		r("trfirst", vO("kind", vS("zz"), "outcome", vS("o2"), "name", vS("nm")))
		for _, oc := range []string{"a", "b", "c", "d"} {
			r("trsec", vO("outcome", vS(oc), "kind", vS("k"), "name", vS("nm")))
		}
		cs = append(cs, witnessCase{Method: "uext", Payload: derived(), Result: derived()})
		cs = append(cs, witnessCase{Method: "uext", Payload: vO("own", vS("o")), Result: vO("own", vS("only"))})
	} else {
		cs = append(cs, witnessCase{Method: "uext", Payload: derived(), Result: vO("own", vS("r"))})
		cs = append(cs, witnessCase{Method: "uext", Payload: vO("own", vS("only")), Result: vO("own", vS("r"))})
	}
	return cs
}

// ---- inline Extend / Reference (hand-written DSL + flattened shadow) ----

// inhShadow describes the "inh" design to the harness with the inherited attributes
// written out; inhBuild is the real design, built through goa's DSL with inline
// Extend(Base) / Reference(RefBase) in Result and Payload.
func inhShadow() *dg.Design {
	obj := func(fs ...*dg.Field) *dg.Attr { a := dg.A(dg.Obj(fs...)); return &a }
	rh := dg.F("rh", str()).With(dg.Validation{MaxLen: dg.Ip(20)})
	svc := &dg.Service{Name: "inh"}
	svc.Methods = []*dg.Method{
		{Name: "rext", Result: obj(dg.F("bh", str()), dg.F("bc", str()), dg.F("bb", intT()), dg.F("bq", str()), dg.Req("own", str())),
			HTTP: &dg.HTTPMap{Routes: []dg.Route{{Verb: "GET", Path: "/rext"}},
				Responses: []dg.Response{{Status: 200, Headers: []dg.MapEntry{me("bh", "X-Bh")}, Cookies: []dg.MapEntry{me("bc", "bc_ck")}}}}},
		{Name: "rref", Result: obj(rh, dg.F("rb", str()), dg.F("own2", intT())),
			HTTP: &dg.HTTPMap{Routes: []dg.Route{{Verb: "GET", Path: "/rref"}},
				Responses: []dg.Response{{Status: 200, Headers: []dg.MapEntry{me("rh", "X-Rh")}}}}},
		{Name: "pext", Payload: obj(dg.F("bh", str()), dg.F("bc", str()), dg.F("bb", intT()), dg.F("bq", str()), dg.F("pown", str())),
			Result: obj(dg.F("ok", boolT())),
			HTTP: &dg.HTTPMap{Routes: []dg.Route{{Verb: "POST", Path: "/pext"}},
				Headers: []dg.MapEntry{me("bh", "X-Bh")}, Cookies: []dg.MapEntry{me("bc", "bc_ck")}, Params: []dg.MapEntry{me("bq", "")}}},
		{Name: "pref", Payload: obj(dg.F("rh", str()).With(dg.Validation{MaxLen: dg.Ip(20)}), dg.F("rb", str())),
			Result: obj(dg.F("ok", boolT())),
			HTTP:   &dg.HTTPMap{Routes: []dg.Route{{Verb: "POST", Path: "/pref"}}, Headers: []dg.MapEntry{me("rh", "X-Rh")}}},
	}
	// the status set INSIDE the response function: Response(func(){ Code(StatusCreated) })
	svc.Methods = append(svc.Methods,
		&dg.Method{Name: "rcode", Result: obj(dg.Req("name", str())),
			HTTP: &dg.HTTPMap{Routes: []dg.Route{{Verb: "GET", Path: "/rcode"}}, Responses: []dg.Response{{Status: 201}}}},
		&dg.Method{Name: "rcodet", Result: obj(dg.Req("name", str()), dg.F("kind", str())),
			HTTP: &dg.HTTPMap{Routes: []dg.Route{{Verb: "GET", Path: "/rcodet"}},
				Responses: []dg.Response{{Status: 202, Tag: []string{"kind", "acc"}}, {Status: 203}}}})
	return &dg.Design{Name: "inh", Services: []*dg.Service{svc}, Features: []string{"inline_extend_reference", "response_code_in_function"}}
}

func inhBuild() {
	dsl.API("inh", func() {})
	base := dsl.Type("Base", func() {
		dsl.Attribute("bh", expr.String)
		dsl.Attribute("bc", expr.String)
		dsl.Attribute("bb", expr.Int)
		dsl.Attribute("bq", expr.String)
	})
	refb := dsl.Type("RefBase", func() {
		dsl.Attribute("rh", expr.String, func() { dsl.MaxLength(20) })
		dsl.Attribute("rb", expr.String)
	})
	dsl.Service("inh", func() {
		dsl.Method("rext", func() {
			dsl.Result(func() {
				dsl.Extend(base)
				dsl.Attribute("own", expr.String)
				dsl.Required("own")
			})
			dsl.HTTP(func() {
				dsl.GET("/rext")
				dsl.Response(dsl.StatusOK, func() {
					dsl.Header("bh:X-Bh")
					dsl.Cookie("bc:bc_ck")
				})
			})
		})
		dsl.Method("rref", func() {
			dsl.Result(func() {
				dsl.Reference(refb)
				dsl.Attribute("rh")
				dsl.Attribute("rb")
				dsl.Attribute("own2", expr.Int)
			})
			dsl.HTTP(func() {
				dsl.GET("/rref")
				dsl.Response(dsl.StatusOK, func() { dsl.Header("rh:X-Rh") })
			})
		})
		dsl.Method("pext", func() {
			dsl.Payload(func() {
				dsl.Extend(base)
				dsl.Attribute("pown", expr.String)
			})
			dsl.Result(func() { dsl.Attribute("ok", expr.Boolean) })
			dsl.HTTP(func() {
				dsl.POST("/pext")
				dsl.Header("bh:X-Bh")
				dsl.Cookie("bc:bc_ck")
				dsl.Param("bq")
			})
		})
		dsl.Method("rcode", func() {
			dsl.Result(func() {
				dsl.Attribute("name", expr.String)
				dsl.Required("name")
			})
			dsl.HTTP(func() {
				dsl.GET("/rcode")
				dsl.Response(func() { dsl.Code(dsl.StatusCreated) })
			})
		})
		dsl.Method("rcodet", func() {
			dsl.Result(func() {
				dsl.Attribute("name", expr.String)
				dsl.Attribute("kind", expr.String)
				dsl.Required("name")
			})
			dsl.HTTP(func() {
				dsl.GET("/rcodet")
				dsl.Response(dsl.StatusAccepted, func() { dsl.Tag("kind", "acc") })
				dsl.Response(func() { dsl.Code(dsl.StatusNonAuthoritativeInfo) })
			})
		})
		dsl.Method("pref", func() {
			dsl.Payload(func() {
				dsl.Reference(refb)
				dsl.Attribute("rh")
				dsl.Attribute("rb")
			})
			dsl.Result(func() { dsl.Attribute("ok", expr.Boolean) })
			dsl.HTTP(func() {
				dsl.POST("/pref")
				dsl.Header("rh:X-Rh")
			})
		})
	})
}

func inhCases(prop string) []witnessCase {
	var cs []witnessCase
	okRes := vO("ok", vB(true))
	if prop == "C03" {
		cs = append(cs, witnessCase{Method: "rext", Result: vO("bh", vS("hv"), "bc", vS("cv"), "bb", vI(4), "bq", vS("q"), "own", vS("o"))})
		cs = append(cs, witnessCase{Method: "rext", Result: vO("own", vS("only"))})
		cs = append(cs, witnessCase{Method: "rref", Result: vO("rh", vS("hv"), "rb", vS("b"), "own2", vI(2))})
		cs = append(cs, witnessCase{Method: "rref", Result: vO("rb", vS("b"))})
		cs = append(cs, witnessCase{Method: "rcode", Result: vO("name", vS("nm"))})
		cs = append(cs, witnessCase{Method: "rcodet", Result: vO("name", vS("nm"), "kind", vS("acc"))})
		cs = append(cs, witnessCase{Method: "rcodet", Result: vO("name", vS("nm"), "kind", vS("zz"))})
		cs = append(cs, witnessCase{Method: "rcodet", Result: vO("name", vS("nm"))})
	} else {
		cs = append(cs, witnessCase{Method: "pext", Payload: vO("bh", vS("hv"), "bc", vS("cv"), "bb", vI(4), "bq", vS("q"), "pown", vS("o")), Result: okRes})
		cs = append(cs, witnessCase{Method: "pext", Payload: vO("pown", vS("only")), Result: okRes})
		cs = append(cs, witnessCase{Method: "pref", Payload: vO("rh", vS("hv"), "rb", vS("b")), Result: okRes})
		cs = append(cs, witnessCase{Method: "pref", Payload: vO("rb", vS("b")), Result: okRes})
	}
	return cs
}

// regenWithDSL replaces the generated code of a batch item (built from the shadow
// description, which also produced the service stubs) by the code goa generates for the
// design that `build` declares through the real DSL. The two designs have the same
// services, methods and attribute names, so the stubs fit.
func regenWithDSL(b *tierb.Batch, bu *tierb.Built, build func(), extract func(*expr.RootExpr, *tierb.Built)) error {
	dir := filepath.Join(b.Dir, bu.Key)
	stubs, _ := filepath.Glob(filepath.Join(dir, "gen", "*", "zz_verif_stub.go"))
	saved := map[string][]byte{}
	for _, p := range stubs {
		bs, err := os.ReadFile(p)
		if err != nil {
			return err
		}
		saved[p] = bs
	}
	if err := os.RemoveAll(filepath.Join(dir, "gen")); err != nil {
		return err
	}
	dg.ResetGoa()
	if !eval.Execute(build, nil) {
		return fmt.Errorf("DSL errors: %v", eval.Context.Errors)
	}
	if err := eval.RunDSL(); err != nil {
		return fmt.Errorf("design rejected: %v", err)
	}
	if _, err, pan := dg.Generate(dir, "gen"); err != nil || pan != "" {
		return fmt.Errorf("generation failed: %v %s", err, pan)
	}
	for p, bs := range saved {
		if err := os.WriteFile(p, bs, 0o644); err != nil {
			return err
		}
	}
	if extract != nil {
		extract(expr.Root, bu)
	}
	return nil
}

// ---- the wire-location clause on responses ----

var standardRespHeaders = map[string]bool{"Content-Type": true, "Content-Length": true, "Date": true, "Set-Cookie": true, "Goa-View": true,
	"Goa-Error": true, "Transfer-Encoding": true, "Connection": true, "Vary": true}

// strayOnResponse: the tapped response carries a body member, a header or a cookie that
// the design does not put in the response that was used (computed from the design
// description alone).
func strayOnResponse(d *dg.Design, m *dg.Method, w *rt.Wire) (string, string) {
	if m.HTTP == nil || m.Result == nil || w == nil || isViewed(d, m) || m.HTTP.SkipResp {
		return "", ""
	}
	bt, _ := d.Base(&m.Result.T)
	resps := m.HTTP.Responses
	if len(resps) == 0 {
		resps = []dg.Response{{Status: 200}}
	}
	var used *dg.Response
	for i := range resps {
		if resps[i].Status == w.Status {
			used = &resps[i]
			break
		}
	}
	if used == nil || used.Body != nil {
		return "", ""
	}
	hdr, ck := map[string]bool{}, map[string]bool{}
	placed := map[string]bool{}
	for _, e := range used.Headers {
		hdr[textproto.CanonicalMIMEHeaderKey(wireOf(e))] = true
		placed[e.Attr] = true
	}
	for _, e := range used.Cookies {
		ck[wireOf(e)] = true
		placed[e.Attr] = true
	}
	for k := range w.Headers {
		if !standardRespHeaders[k] && !hdr[k] {
			return "attribute-outside-designed-location:response-header", fmt.Sprintf("the response carries header %s; the design puts only %v in the headers of the %d response", k, used.Headers, used.Status)
		}
	}
	for _, p := range responseCookiePairs(w.Headers) {
		if !ck[p[0]] {
			return "attribute-outside-designed-location:response-cookie", fmt.Sprintf("the response sets cookie %s; the design puts only %v in the cookies of the %d response", p[0], used.Cookies, used.Status)
		}
	}
	if bt.Kind == "object" && strings.TrimSpace(w.Body) != "" {
		var obj map[string]json.RawMessage
		if json.Unmarshal([]byte(w.Body), &obj) == nil {
			allowed := map[string]bool{}
			var designed []string
			for _, f := range d.AllFields(&m.Result.T) {
				if !placed[f.Name] {
					allowed[f.Name] = true
					designed = append(designed, f.Name)
				}
			}
			for _, k := range vh.SortedKeys(obj) {
				if !allowed[k] {
					return "attribute-outside-designed-location:response-body", fmt.Sprintf("the response body carries member %q; the design puts only %v in the body of the %d response", k, designed, used.Status)
				}
			}
		}
	}
	return "", ""
}

var standardReqHeaders = map[string]bool{"Content-Type": true, "Cookie": true, "Accept": true, "Authorization": true, "Content-Length": true}

// strayRequestHeaders: headers / cookies the generated client sets that the design does not name.
func strayRequestHeaders(m *dg.Method, w *rt.Wire) (string, string) {
	if m.HTTP == nil || w == nil || m.HTTP.Multipart {
		return "", ""
	}
	hdr, ck := map[string]bool{}, map[string]bool{}
	for _, e := range m.HTTP.Headers {
		hdr[textproto.CanonicalMIMEHeaderKey(wireOf(e))] = true
	}
	for _, e := range m.HTTP.Cookies {
		ck[wireOf(e)] = true
	}
	for k := range w.Headers {
		if !standardReqHeaders[k] && !hdr[k] {
			return "attribute-outside-designed-location:header", fmt.Sprintf("the request carries header %s; the design has headers %v", k, m.HTTP.Headers)
		}
	}
	for _, p := range requestCookiePairs(w.Headers) {
		if !ck[p[0]] {
			return "attribute-outside-designed-location:cookie", fmt.Sprintf("the request carries cookie %s; the design has cookies %v", p[0], m.HTTP.Cookies)
		}
	}
	return "", ""
}
