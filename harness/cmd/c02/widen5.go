package main

// Fifth widening (wave 3, response side):
//
//   - results of result types WITH VIEWS are judged too: the client must return the
//     projection of the service's result under the view the service selected, nested
//     result types rendered with their own view (attribute-level View, view-level
//     override, "default" otherwise); parents that render the SAME nested result type
//     with DIFFERENT views in one projection          (projectView, coveringViews, widenViews)
//   - String attributes with a Default mapped to a response header or cookie and left
//     unset by the service                        (dhs, widenDefaultedRespHeaders)

import (
	dg "verifharness/designgen"
	"verifharness/vh"
)

func resultTypeOf(d *dg.Design, t *dg.Type) *dg.UserType {
	if t == nil || (t.Kind != "user" && t.Kind != "collection") {
		return nil
	}
	ut := d.UserType(t.Ref)
	if ut == nil || !ut.Result || len(ut.Views) == 0 {
		return nil
	}
	return ut
}

// projectView: the value a client must obtain for a result of a result type rendered
// with the given view.
func projectView(d *dg.Design, t *dg.Type, v *dg.Val, view string) *dg.Val {
	if v == nil || t == nil {
		return v
	}
	ut := resultTypeOf(d, t)
	if ut == nil {
		return v
	}
	if t.Kind == "collection" {
		if v.K != "array" {
			return v
		}
		out := &dg.Val{K: "array", Elems: []*dg.Val{}}
		for _, e := range v.Elems {
			out.Elems = append(out.Elems, projectView(d, &dg.Type{Kind: "user", Ref: t.Ref}, e, view))
		}
		return out
	}
	if v.K != "object" {
		return v
	}
	var vw *dg.View
	for i := range ut.Views {
		if ut.Views[i].Name == view {
			vw = &ut.Views[i]
		}
	}
	if vw == nil {
		return v
	}
	out := &dg.Val{K: "object", Names: []string{}, Elems: []*dg.Val{}}
	for _, vf := range vw.Attrs {
		x := v.Get(vf.Name)
		if x == nil {
			continue
		}
		var fld *dg.Field
		for _, f := range d.AllFields(t) {
			if f.Name == vf.Name {
				fld = f
			}
		}
		if fld != nil && resultTypeOf(d, &fld.A.T) != nil {
			nv := vf.View
			if nv == "" {
				nv = fld.A.View
			}
			if nv == "" {
				nv = "default"
			}
			x = projectView(d, &fld.A.T, x, nv)
		}
		out.Names = append(out.Names, vf.Name)
		out.Elems = append(out.Elems, x)
	}
	return out
}

// viewOmitsRequiredNested: the view leaves out a required attribute whose type is a user type.
func viewOmitsRequiredNested(d *dg.Design, t *dg.Type, view string) bool {
	ut := resultTypeOf(d, t)
	if ut == nil {
		return false
	}
	for _, vw := range ut.Views {
		if vw.Name != view {
			continue
		}
		in := map[string]bool{}
		for _, vf := range vw.Attrs {
			in[vf.Name] = true
		}
		for _, f := range d.AllFields(&dg.Type{Kind: "user", Ref: ut.Name}) {
			if f.Required && !in[f.Name] && (f.A.T.Kind == "user" || f.A.T.Kind == "collection") {
				return true
			}
		}
	}
	return false
}

// viewNames: the views the service may select for the method's result.
func viewNames(d *dg.Design, m *dg.Method) []string {
	if m.Result == nil {
		return nil
	}
	ut := resultTypeOf(d, &m.Result.T)
	if ut == nil {
		return nil
	}
	var out []string
	for _, v := range ut.Views {
		if !viewOmitsRequiredNested(d, &m.Result.T, v.Name) {
			out = append(out, v.Name)
		}
	}
	return out
}

func coveringViewTypes() []*dg.UserType {
	child := &dg.UserType{Name: "Child", Result: true, Base: dg.Obj(dg.Req("id", intT()), dg.Req("name", str()), dg.F("note", str()))}
	child.Views = []dg.View{
		{Name: "default", Attrs: []dg.ViewField{{Name: "id"}, {Name: "name"}, {Name: "note"}}},
		{Name: "tiny", Attrs: []dg.ViewField{{Name: "id"}}}}
	// summary carries its view on the attribute, brief gets it from the parent's view
	summary := dg.Req("summary", dg.Ref("Child"))
	summary.A.View = "tiny"
	folder := &dg.UserType{Name: "Folder", Result: true,
		Base: dg.Obj(summary, dg.Req("detail", dg.Ref("Child")), dg.F("brief", dg.Ref("Child")), dg.F("kids", dg.Type{Kind: "collection", Ref: "Child"}), dg.F("title", str()))}
	folder.Views = []dg.View{
		{Name: "default", Attrs: []dg.ViewField{{Name: "summary"}, {Name: "detail"}, {Name: "title"}}},
		{Name: "mixed", Attrs: []dg.ViewField{{Name: "detail"}, {Name: "brief", View: "tiny"}, {Name: "kids", View: "tiny"}, {Name: "summary"}}},
		{Name: "rev", Attrs: []dg.ViewField{{Name: "kids"}, {Name: "brief", View: "tiny"}, {Name: "title"}, {Name: "detail"}, {Name: "summary"}}},
		// omits the required nested attributes summary and detail (witness of view-omits-required-nested-attribute-client-panics)
		{Name: "norq", Attrs: []dg.ViewField{{Name: "kids"}, {Name: "title"}}}}
	return []*dg.UserType{child, folder}
}

func coveringViews(add func(*dg.Method)) {
	ref := func(n string) *dg.Attr { a := dg.A(dg.Ref(n)); return &a }
	add(&dg.Method{Name: "vfold", Result: ref("Folder"), HTTP: &dg.HTTPMap{Routes: []dg.Route{{Verb: "GET", Path: "/vfold"}}}})
	add(&dg.Method{Name: "vfolds", Result: func() *dg.Attr { a := dg.A(dg.Type{Kind: "collection", Ref: "Folder"}); return &a }(),
		HTTP: &dg.HTTPMap{Routes: []dg.Route{{Verb: "GET", Path: "/vfolds"}}}})
	add(&dg.Method{Name: "vfixed", Result: ref("Folder"), ResultView: "mixed", HTTP: &dg.HTTPMap{Routes: []dg.Route{{Verb: "GET", Path: "/vfixed"}}}})
	// String defaults carried by a response header and a cookie
	obj := func(fs ...*dg.Field) *dg.Attr { a := dg.A(dg.Obj(fs...)); return &a }
	add(&dg.Method{Name: "dhs", Result: obj(dg.F("dh", str()).Def("hdflt"), dg.F("dc", str()).Def("cdflt"), dg.F("de", str()).With(dg.Validation{Enum: []any{"a", "b c"}}).Def("b c"), dg.Req("name", str())),
		HTTP: &dg.HTTPMap{Routes: []dg.Route{{Verb: "GET", Path: "/dhs"}}, Responses: []dg.Response{{Status: 200,
			Headers: []dg.MapEntry{me("dh", "X-Dhs"), me("de", "X-De")}, Cookies: []dg.MapEntry{me("dc", "dc_ck")}}}}})
}

func viewCases(prop string) []witnessCase {
	var cs []witnessCase
	if prop != "C03" {
		return cs
	}
	ch := func(id int64, name string) *dg.Val { return vO("id", vI(id), "name", vS(name), "note", vS("n"+name)) }
	folder := func() *dg.Val {
		return vO("summary", ch(1, "s"), "detail", ch(2, "d"), "brief", ch(3, "b"), "kids", vA(ch(4, "k1"), ch(5, "k2")), "title", vS("t"))
	}
	for _, view := range []string{"default", "mixed", "rev"} {
		cs = append(cs, witnessCase{Method: "vfold", Result: folder(), View: view})
		cs = append(cs, witnessCase{Method: "vfolds", Result: vA(folder(), vO("summary", ch(7, "s7"), "detail", ch(8, "d8"))), View: view})
	}
	cs = append(cs, witnessCase{Method: "vfixed", Result: folder()})
	cs = append(cs, witnessCase{Method: "dhs", Result: vO("name", vS("nm"))})
	cs = append(cs, witnessCase{Method: "dhs", Result: vO("name", vS("nm"), "dh", vS("hv"), "dc", vS("cv"), "de", vS("a"))})
	return cs
}

// widenViews adds, to the Outer result type of a random design, a view that renders
// the nested Inner type twice with different views in one projection.
func widenViews(r *vh.RNG, d *dg.Design) {
	for _, ut := range d.Types {
		if ut.Name != "Outer" || !ut.Result {
			continue
		}
		ut.Views = append(ut.Views,
			dg.View{Name: "both", Attrs: []dg.ViewField{{Name: "a"}, {Name: "inner", View: "tiny"}, {Name: "list"}}},
			dg.View{Name: "both2", Attrs: []dg.ViewField{{Name: "list", View: "tiny"}, {Name: "inner"}, {Name: "b"}}})
		d.Features = append(d.Features, "view_renders_nested_type_twice")
	}
	_ = r
}

// widenDefaultedRespHeaders maps some String result attributes that declare a default to
// a header of every success response (the non-String ones are the recorded loss class
// default-in-response-header-sent-as-zero and stay in the body).
func widenDefaultedRespHeaders(r *vh.RNG, d *dg.Design) {
	for _, s := range d.Services {
		for _, m := range s.Methods {
			if m.Result == nil || m.Result.T.Kind != "object" || m.HTTP == nil || len(m.HTTP.Responses) == 0 {
				continue
			}
			placed := map[string]bool{}
			skip := false
			for _, rr := range m.HTTP.Responses {
				for _, e := range append(append([]dg.MapEntry{}, rr.Headers...), rr.Cookies...) {
					placed[e.Attr] = true
				}
				if len(rr.Tag) == 2 {
					placed[rr.Tag[0]] = true
				}
				if rr.Body != nil {
					skip = true
				}
			}
			if skip {
				continue
			}
			for _, f := range m.Result.T.Attrs {
				if !f.A.HasDef || f.A.T.Kind != "prim" || f.A.T.Prim != "String" || placed[f.Name] || !r.Chance(1, 2) {
					continue
				}
				for k := range m.HTTP.Responses {
					m.HTTP.Responses[k].Headers = append(append([]dg.MapEntry{}, m.HTTP.Responses[k].Headers...), dg.MapEntry{Attr: f.Name, Wire: "X-D-" + f.Name})
				}
				d.Features = append(d.Features, "defaulted_string_response_header")
			}
		}
	}
}
