package main

// Third widening:
//
//   - tagged responses whose explicit body OMITS the tag attribute (Body(func(){…}),
//     Body("attr")): the client must restore the tag attribute            (tbody, tbattr)
//   - two or more result attributes mapped to cookies of one response     (ck2, widenCookies)
//   - Response(func(){ Code(…) }) — the status set inside the response function — in
//     the hand-written DSL design, judged against the shadow description   (rcode, rcodet)
//   - defaulted arrays of non-string primitives in query / header left unset, explicit
//     zero values for defaulted scalar parameters, map parameters under an explicit wire
//     name                                             (defs, widenArrayDefaults, ext)

import (
	"reflect"

	dg "verifharness/designgen"
	"verifharness/vh"
)

func coveringWave3(add func(*dg.Method)) {
	obj := func(fs ...*dg.Field) *dg.Attr { a := dg.A(dg.Obj(fs...)); return &a }
	get := func(p string) []dg.Route { return []dg.Route{{Verb: "GET", Path: p}} }
	res := func() *dg.Attr {
		return obj(dg.F("kind", str()), dg.Req("name", str()), dg.F("note", str()), dg.F("n", intT()))
	}
	// tagged response with an inline body that omits the tag attribute
	add(&dg.Method{Name: "tbody", Result: res(), HTTP: &dg.HTTPMap{Routes: get("/tbody"), Responses: []dg.Response{
		{Status: 202, Tag: []string{"kind", "acc"}, Body: &dg.BodySpec{Attrs: []string{"name", "n"}}}, {Status: 200}}}})
	// tagged response whose body is one attribute (not the tag)
	add(&dg.Method{Name: "tbattr", Result: res(), HTTP: &dg.HTTPMap{Routes: get("/tbattr"), Responses: []dg.Response{
		{Status: 201, Tag: []string{"kind", "k1"}, Body: &dg.BodySpec{Attr: "name"}}, {Status: 200}}}})
	// three cookies (optional, optional, required) and a header in one response
	add(&dg.Method{Name: "ck2", Result: obj(dg.F("c1", str()), dg.F("c2", str()), dg.Req("c3", str()), dg.F("hh", str()), dg.F("name", str())),
		HTTP: &dg.HTTPMap{Routes: get("/ck2"), Responses: []dg.Response{{Status: 200,
			Cookies: []dg.MapEntry{me("c1", "c1_ck"), me("c2", "c2_ck"), me("c3", "c3_ck")}, Headers: []dg.MapEntry{me("hh", "X-Hh")}}}}})
	// defaults on parameters: scalars (explicit zero must stay zero), arrays of non-string primitives left unset
	add(&dg.Method{Name: "defs",
		Payload: obj(dg.Req("rs", str()), dg.F("qi", intT()).Def(5), dg.F("qb", boolT()).Def(true), dg.F("qf", dg.Prim("Float64")).Def(2.5),
			dg.F("hi", intT()).Def(5), dg.F("hb", boolT()).Def(true),
			dg.F("ia", dg.ArrayOf(dg.A(intT()))).Def([]any{1, 2}), dg.F("ha", dg.ArrayOf(dg.A(dg.Prim("Int64")))).Def([]any{3}),
			dg.F("sa", dg.ArrayOf(dg.A(str()))).Def([]any{"x", "y"}), dg.F("fa", dg.ArrayOf(dg.A(dg.Prim("Float64")))).Def([]any{0.5}),
			dg.F("ba", dg.ArrayOf(dg.A(boolT()))).Def([]any{true, false})),
		Result: obj(dg.F("ok", boolT())),
		HTTP: &dg.HTTPMap{Routes: get("/defs"),
			Params:  []dg.MapEntry{me("rs", ""), me("qi", "Qi_w"), me("qb", ""), me("qf", ""), me("ia", ""), me("sa", "Sa_w"), me("ba", "")},
			Headers: []dg.MapEntry{me("hi", "X-Hi2"), me("hb", "X-Hb2"), me("ha", "X-Ha2"), me("fa", "X-Fa2")}}})
}

func coveringMapParams(add func(*dg.Method)) {
	obj := func(fs ...*dg.Field) *dg.Attr { a := dg.A(dg.Obj(fs...)); return &a }
	// map-typed query parameters with and without explicit wire names; string, array-of-string and
	// array-of-int elements
	add(&dg.Method{Name: "mq",
		Payload: obj(dg.F("filters", dg.MapOf(dg.A(str()), dg.A(str()))), dg.F("plain", dg.MapOf(dg.A(str()), dg.A(intT()))),
			dg.F("ms", dg.MapOf(dg.A(str()), dg.A(dg.ArrayOf(dg.A(str()))))), dg.F("mia", dg.MapOf(dg.A(str()), dg.A(dg.ArrayOf(dg.A(intT()))))),
			dg.F("flags", dg.MapOf(dg.A(str()), dg.A(boolT())))),
		Result: obj(dg.F("ok", boolT())),
		HTTP: &dg.HTTPMap{Routes: []dg.Route{{Verb: "GET", Path: "/mq"}},
			Params: []dg.MapEntry{me("filters", "f"), me("plain", ""), me("ms", "s"), me("mia", ""), me("flags", "Fl_w")}}})
}

func wave3Cases(prop string) []witnessCase {
	var cs []witnessCase
	okRes := vO("ok", vB(true))
	if prop == "C03" {
		r := func(m string, v *dg.Val) { cs = append(cs, witnessCase{Method: m, Result: v}) }
		r("tbody", vO("kind", vS("acc"), "name", vS("nm"), "note", vS("x"), "n", vI(3)))
		r("tbody", vO("kind", vS("acc"), "name", vS("nm")))
		r("tbody", vO("kind", vS("other"), "name", vS("nm"), "note", vS("x"), "n", vI(3)))
		r("tbody", vO("name", vS("nm")))
		r("tbattr", vO("kind", vS("k1"), "name", vS("nm"), "note", vS("x")))
		r("tbattr", vO("kind", vS("zz"), "name", vS("nm"), "n", vI(1)))
		r("ck2", vO("c1", vS("one"), "c2", vS("two"), "c3", vS("three"), "hh", vS("h"), "name", vS("nm")))
		r("ck2", vO("c1", vS("one"), "c3", vS("three")))
		r("ck2", vO("c2", vS("t w,o"), "c3", vS("3")))
		r("ck2", vO("c3", vS("only")))
	} else {
		p := func(v *dg.Val) { cs = append(cs, witnessCase{Method: "defs", Payload: v, Result: okRes}) }
		// explicit zeros for defaulted scalars; defaulted arrays unset
		p(vO("rs", vS("r"), "qi", vI(0), "qb", vB(false), "qf", vF(0), "hi", vI(0), "hb", vB(false)))
		// everything set, away from the defaults
		p(vO("rs", vS("r"), "qi", vI(9), "qb", vB(false), "qf", vF(-1.5), "hi", vI(-4), "hb", vB(false),
			"ia", vA(vI(7)), "ha", vA(vI(8), vI(-9)), "sa", vA(vS("p q")), "fa", vA(vF(2.5), vF(-0.5)), "ba", vA(vB(false))))
		// scalars at their defaults, arrays partly set
		p(vO("rs", vS("r"), "qi", vI(5), "qb", vB(true), "qf", vF(2.5), "hi", vI(5), "hb", vB(true), "ia", vA(vI(0)), "fa", vA(vF(0))))
		mq := func(v *dg.Val) { cs = append(cs, witnessCase{Method: "mq", Payload: v, Result: okRes}) }
		mq(vO("filters", vM(vS("a"), vS("x y"), vS("b"), vS("z")), "plain", vM(vS("n"), vI(-3)), "ms", vM(vS("k"), vA(vS("p"), vS("q r"))),
			"mia", vM(vS("k1"), vA(vI(1), vI(-2)), vS("k2"), vA(vI(0))), "flags", vM(vS("t"), vB(true), vS("f"), vB(false))))
		mq(vO("filters", vM(vS("only"), vS("v"))))
		mq(vO("ms", vM(vS("k"), vA(vS("one")))))
	}
	return cs
}

// widenCookies maps two or three extra String attributes of some object results to
// cookies of every success response.
func widenCookies(r *vh.RNG, d *dg.Design) {
	for _, s := range d.Services {
		for _, m := range s.Methods {
			if m.Result == nil || m.Result.T.Kind != "object" || m.HTTP == nil || m.HTTP.SkipResp || len(m.HTTP.Responses) == 0 || !r.Chance(1, 3) {
				continue
			}
			skip := false
			names := map[string]bool{}
			for _, f := range m.Result.T.Attrs {
				names[f.Name] = true
			}
			for _, rr := range m.HTTP.Responses {
				if rr.Body != nil {
					skip = true
				}
			}
			if skip || names["ck_a"] {
				continue
			}
			n := 2 + r.Intn(2)
			for i := 0; i < n; i++ {
				name := []string{"ck_a", "ck_b", "ck_c"}[i]
				f := dg.F(name, dg.Prim("String"))
				f.Required = r.Chance(1, 3)
				m.Result.T.Attrs = append(m.Result.T.Attrs, f)
				for k := range m.HTTP.Responses {
					m.HTTP.Responses[k].Cookies = append(append([]dg.MapEntry{}, m.HTTP.Responses[k].Cookies...), dg.MapEntry{Attr: name, Wire: name + "_rck"})
				}
			}
			d.Features = append(d.Features, "several_response_cookies")
		}
	}
}

// widenArrayDefaults gives some unvalidated arrays of primitives carried in the query
// string or a header a default value.
func widenArrayDefaults(r *vh.RNG, d *dg.Design) {
	for _, s := range d.Services {
		for _, m := range s.Methods {
			if m.Payload == nil || m.Payload.T.Kind != "object" || m.HTTP == nil {
				continue
			}
			mapped := map[string]bool{}
			for _, e := range append(append([]dg.MapEntry{}, m.HTTP.Params...), m.HTTP.Headers...) {
				mapped[e.Attr] = true
			}
			for _, f := range m.Payload.T.Attrs {
				if !mapped[f.Name] || f.A.T.Kind != "array" || f.A.V != nil || f.A.HasDef || f.Required || f.A.T.Elem == nil || f.A.T.Elem.V != nil || f.A.T.Elem.T.Kind != "prim" || !r.Chance(1, 2) {
					continue
				}
				var def []any
				switch f.A.T.Elem.T.Prim {
				case "Int", "Int32", "Int64", "UInt", "UInt32", "UInt64":
					def = []any{1, 2}
				case "Float32", "Float64":
					def = []any{0.5, 3.0}
				case "Boolean":
					def = []any{true}
				case "String":
					def = []any{"dx", "dy"}
				default:
					continue
				}
				f.A.Default, f.A.HasDef = def, true
				d.Features = append(d.Features, "array_param_default")
			}
		}
	}
}

// retypeArrayDefaults turns array defaults written as []any (the JSON form, also what a
// replay file holds) into typed Go slices: goa prints the default with %#v into the
// generated decoder, and `[]interface {}{1, 2}` assigned to a []int does not compile.
func retypeArrayDefaults(d *dg.Design) {
	var fix func(a *dg.Attr)
	fix = func(a *dg.Attr) {
		if a == nil {
			return
		}
		if a.T.Kind == "array" && a.HasDef && a.T.Elem != nil && a.T.Elem.T.Kind == "prim" {
			if xs, ok := anySlice(a.Default); ok {
				switch a.T.Elem.T.Prim {
				case "Int":
					out := []int{}
					for _, x := range xs {
						out = append(out, int(toF(x)))
					}
					a.Default = out
				case "Int32":
					out := []int32{}
					for _, x := range xs {
						out = append(out, int32(toF(x)))
					}
					a.Default = out
				case "Int64":
					out := []int64{}
					for _, x := range xs {
						out = append(out, int64(toF(x)))
					}
					a.Default = out
				case "UInt":
					out := []uint{}
					for _, x := range xs {
						out = append(out, uint(toF(x)))
					}
					a.Default = out
				case "UInt32":
					out := []uint32{}
					for _, x := range xs {
						out = append(out, uint32(toF(x)))
					}
					a.Default = out
				case "UInt64":
					out := []uint64{}
					for _, x := range xs {
						out = append(out, uint64(toF(x)))
					}
					a.Default = out
				case "Float32":
					out := []float32{}
					for _, x := range xs {
						out = append(out, float32(toF(x)))
					}
					a.Default = out
				case "Float64":
					out := []float64{}
					for _, x := range xs {
						out = append(out, toF(x))
					}
					a.Default = out
				case "Boolean":
					out := []bool{}
					for _, x := range xs {
						b, _ := x.(bool)
						out = append(out, b)
					}
					a.Default = out
				case "String":
					out := []string{}
					for _, x := range xs {
						s, _ := x.(string)
						out = append(out, s)
					}
					a.Default = out
				}
			}
		}
		for _, f := range a.T.Attrs {
			fix(&f.A)
		}
		fix(a.T.Elem)
	}
	for _, ut := range d.Types {
		for _, f := range ut.Base.Attrs {
			fix(&f.A)
		}
	}
	for _, s := range d.Services {
		for _, m := range s.Methods {
			fix(m.Payload)
			fix(m.Result)
		}
	}
}

func toF(x any) float64 {
	switch v := x.(type) {
	case int:
		return float64(v)
	case int64:
		return float64(v)
	case float64:
		return v
	}
	return 0
}

// anySlice views any Go slice as []any.
func anySlice(x any) ([]any, bool) {
	if x == nil {
		return nil, false
	}
	if xs, ok := x.([]any); ok {
		return xs, true
	}
	v := reflect.ValueOf(x)
	if v.Kind() != reflect.Slice {
		return nil, false
	}
	out := make([]any, v.Len())
	for i := range out {
		out[i] = v.Index(i).Interface()
	}
	return out, true
}

// widenMapParams moves some string-keyed map attributes of an inline payload (primitive
// or array-of-primitive elements) to the query string, half of them under an explicit
// wire name.
func widenMapParams(r *vh.RNG, d *dg.Design) {
	okPrim := func(t *dg.Type) bool {
		return t.Kind == "prim" && t.Prim != "Bytes" && t.Prim != "Any"
	}
	for _, s := range d.Services {
		for _, m := range s.Methods {
			if m.Payload == nil || m.Payload.T.Kind != "object" || m.HTTP == nil || m.HTTP.Body != nil || m.HTTP.MapParams != "" {
				continue
			}
			mapped := map[string]bool{}
			for _, e := range append(append(append([]dg.MapEntry{}, m.HTTP.Params...), m.HTTP.Headers...), m.HTTP.Cookies...) {
				mapped[e.Attr] = true
			}
			for _, f := range m.Payload.T.Attrs {
				t := &f.A.T
				if mapped[f.Name] || t.Kind != "map" || t.Key == nil || t.Elem == nil || t.Key.T.Kind != "prim" || t.Key.T.Prim != "String" || f.A.HasDef || f.A.Sec != nil {
					continue
				}
				el := &t.Elem.T
				if !(okPrim(el) || (el.Kind == "array" && el.Elem != nil && okPrim(&el.Elem.T))) || !r.Chance(1, 2) {
					continue
				}
				e := dg.MapEntry{Attr: f.Name}
				if r.Bool() {
					e.Wire = "w" + f.Name
				}
				m.HTTP.Params = append(m.HTTP.Params, e)
				d.Features = append(d.Features, "map_query_param_"+el.Kind)
			}
		}
	}
}
