// Command c02 drives generated HTTP clients against generated HTTP servers (tier B)
// for properties C02 (requests deliver the payload intact) and C03 (responses
// deliver the result intact). It builds a batch of designs through the real DSL,
// generates and compiles their code with a stub service, runs scripted exchanges,
// evaluates the properties directly on what the real code did (the direct oracle),
// and writes the finalised endpoints, the exchanges and the tapped wire as Coq terms
// for the Transport model (cases_*.txt).
//
// Streams:
//
//	fixed    seed-independent exchanges on the hand-written witness design, inside wire_safe (must pass)
//	main     random designs x values from boundary classes, transport-safe strings (must pass)
//	hostile  same designs, hostile strings (spaces % / + unicode quotes …) in BODY attributes and
//	         QUERY parameters, where the full property is expected to hold (must pass)
//	witness  one minimal exchange per recorded loss class (must fail with exactly its signature)
package main

import (
	"encoding/json"
	"flag"
	"fmt"
	"net/url"
	"os"
	"path/filepath"
	"strings"

	"goa.design/goa/v3/expr"

	"verifharness/designgen"
	"verifharness/tierb"
	"verifharness/tierb/rt"
	"verifharness/vh"
)

type caseInfo struct {
	Prop    string            `json:"prop"`
	Stream  string            `json:"stream"`
	Design  *designgen.Design `json:"design"`
	Service string            `json:"service"`
	Method  string            `json:"method"`
	Payload *designgen.Val    `json:"payload,omitempty"`
	Result  *designgen.Val    `json:"result,omitempty"`
	View    string            `json:"view,omitempty"`
	Expect  string            `json:"expect,omitempty"`
	// a finding that needs two exchanges in sequence: the earlier one (Design nil = same design)
	Earlier *caseInfo `json:"earlier_exchange,omitempty"`
}

type exchange struct {
	st rt.Step
	ci caseInfo
	bu *tierb.Built
	ep *EpInfo
	m  *designgen.Method
}

type replayFile struct {
	Input caseInfo `json:"input"`
}

func main() {
	seed := flag.Uint64("seed", 1, "")
	tier := flag.String("tier", "quick", "")
	out := flag.String("out", ".", "")
	repo := flag.String("repo", "/repo", "")
	harness := flag.String("harness", "/verif/harness", "")
	prop := flag.String("prop", "C02", "")
	replay := flag.String("replay", "", "")
	verbose := flag.Bool("v", false, "")
	flag.Parse()
	rng := vh.NewRNG(*seed)
	res := vh.NewResult()

	nDesigns, nVals, nHostile := 8, 12, 6
	if *tier == "thorough" {
		nDesigns, nVals, nHostile = 80, 30, 12
	}
	var rp *replayFile
	if *replay != "" {
		bs, err := os.ReadFile(*replay)
		if err != nil {
			panic(err)
		}
		rp = &replayFile{}
		if err := json.Unmarshal(bs, rp); err != nil || rp.Input.Design == nil {
			panic(fmt.Sprintf("replay file %s holds no exchange (design missing): %v", *replay, err))
		}
		nDesigns = 0
	}

	b, err := tierb.NewBatch(filepath.Join(*out, "tb"), *repo, *harness)
	if err != nil {
		panic(err)
	}
	b.Env = os.Environ()
	eps := map[string]map[string]*EpInfo{}
	extract := func(root *expr.RootExpr, bu *tierb.Built) { eps[bu.Key] = extractEps(root) }

	// design 0: the hand-written witness design (fixed corpus + witness streams)
	wopts := designgen.DefaultOptions()
	_ = wopts
	var wit *tierb.Built
	if rp == nil {
		wit, _ = b.Add(witnessDesign(), extract)
		if wit == nil || wit.GenErr != "" {
			panic("the witness design was not accepted / generated: " + fmt.Sprint(wit))
		}
	} else {
		retypeArrayDefaults(rp.Input.Design)
		renameShadowedExtendAttrs(rp.Input.Design)
		bu, oc := b.Add(rp.Input.Design, extract)
		if bu == nil {
			panic(fmt.Sprintf("replay design rejected: %v %s", oc.Err, oc.Panic))
		}
		if e := rp.Input.Earlier; e != nil && e.Design != nil {
			retypeArrayDefaults(e.Design)
			if bu, oc := b.Add(e.Design, extract); bu == nil {
				panic(fmt.Sprintf("replay design (earlier exchange) rejected: %v %s", oc.Err, oc.Panic))
			}
		}
	}
	// design 1: the hand-written covering design (catch-alls, verb families, aliases as parameters, Any, extremes)
	var cov *tierb.Built
	if rp == nil {
		var oc designgen.Outcome
		cd := coveringDesign()
		retypeArrayDefaults(cd)
		cov, oc = b.Add(cd, extract)
		if cov == nil || cov.GenErr != "" {
			panic(fmt.Sprintf("the covering design was not accepted / generated: %v %v %s", cov, oc.Err, oc.Panic))
		}
	}
	// designs 2..: hand-written DSL functions described to the harness by shadow designs
	dslds := dslDesigns()
	if rp == nil {
		for i := range dslds {
			dd := &dslds[i]
			retypeArrayDefaults(dd.shadow)
			dd.bu, _ = b.Add(dd.shadow, nil)
			if dd.bu == nil || dd.bu.GenErr != "" {
				panic("the shadow of the hand-written DSL design " + dd.shadow.Name + " was not accepted / generated: " + fmt.Sprint(dd.bu))
			}
			if err := regenWithDSL(b, dd.bu, dd.build, extract); err != nil {
				// accepted and generated on the unchanged tree: a change made goa refuse it
				res.Fail("fixed/hand-written-design-refused", "the hand-written DSL design "+dd.shadow.Name+" ("+dd.what+") is accepted and generated by the unchanged goa and is now refused: "+err.Error(), map[string]any{"design": dd.shadow})
				dd.bu.Dropped = true
				dd.bu.BuildErr = err.Error()
				os.RemoveAll(filepath.Join(b.Dir, dd.bu.Key))
			}
		}
	}
	nFixedDesigns := 2 + len(dslds)
	opts := designgen.DefaultOptions()
	opts.Security = false // credentials are C06's business
	opts.ExoticVerbs = true
	for i := 0; len(b.Items) < nDesigns+nFixedDesigns && i < nDesigns*3; i++ {
		d := designgen.Random(rng.Fork(), opts, i)
		renameShadowedExtendAttrs(d)
		wr := rng.Fork()
		widenAliasParams(wr, d)
		widenCatchAll(wr, d)
		widenResponses(wr, d)
		widenCookies(wr, d)
		widenMapParams(wr, d)
		widenArrayDefaults(wr, d)
		widenPatterns(wr, d)
		widenInlineBodies(wr, d)
		widenMultipart(wr, d)
		widenTextResponses(wr, d)
		widenCookieOnly(wr, d)
		widenViews(wr, d)
		widenDefaultedRespHeaders(wr, d)
		retypeArrayDefaults(d)
		bu, _ := b.Add(d, extract)
		if bu == nil {
			res.Count("design_rejected")
			continue
		}
		if bu.GenErr != "" {
			res.Count("design_generate_failed")
		}
	}
	if err := b.Build(); err != nil {
		panic(err)
	}

	var xs []*exchange
	nextView := "" // view the service selects in the next exchange added (viewed results)
	add := func(bu *tierb.Built, s *designgen.Service, m *designgen.Method, stream string, payload, result *designgen.Val, expect string) {
		d := bu.Design
		x := &exchange{bu: bu, m: m, ep: eps[bu.Key][s.Name+"/"+m.Name]}
		x.st = rt.Step{ID: len(xs), Design: bu.Key, Service: s.Name, Method: m.Name}
		x.ci = caseInfo{Prop: *prop, Stream: stream, Design: d, Service: s.Name, Method: m.Name, Payload: payload, Result: result, Expect: expect}
		if m.Payload != nil && payload != nil {
			x.st.Payload = toTreeX(d, &m.Payload.T, payload)
		}
		if m.Result != nil && result != nil {
			x.st.Result = toTreeX(d, &m.Result.T, result)
			if isViewed(d, m) && m.ResultView == "" {
				x.st.View = "default"
				if nextView != "" {
					x.st.View = nextView
				}
			}
			nextView = ""
			x.ci.View = x.st.View
		}
		xs = append(xs, x)
	}
	findMethod := func(d *designgen.Design, svc, name string) (*designgen.Service, *designgen.Method) {
		for _, s := range d.Services {
			if s.Name != svc && svc != "" {
				continue
			}
			for _, m := range s.Methods {
				if m.Name == name {
					return s, m
				}
			}
		}
		return nil, nil
	}

	if rp != nil {
		bu := b.Items[0]
		if bu.Dropped {
			panic("replay design does not build: " + bu.BuildErr + bu.GenErr)
		}
		if e := rp.Input.Earlier; e != nil {
			// a sequence: the earlier exchange first, in the same process
			ebu := bu
			if e.Design != nil {
				ebu = b.Items[1]
				if ebu.Dropped {
					panic("replay design (earlier exchange) does not build: " + ebu.BuildErr + ebu.GenErr)
				}
			}
			es, em := findMethod(ebu.Design, e.Service, e.Method)
			if em == nil {
				panic("replay: no such method (earlier exchange)")
			}
			nextView = e.View
			add(ebu, es, em, e.Stream, e.Payload, e.Result, e.Expect)
		}
		s, m := findMethod(bu.Design, rp.Input.Service, rp.Input.Method)
		if m == nil {
			panic("replay: no such method")
		}
		if rp.Input.Earlier != nil {
			// which pooled / shared object a later exchange picks up depends on scheduling:
			// the later exchange is repeated, every repetition re-reads the earlier values
			for i := 0; i < 15; i++ {
				nextView = rp.Input.View
				add(bu, s, m, rp.Input.Stream, rp.Input.Payload, rp.Input.Result, rp.Input.Expect)
			}
		}
		nextView = rp.Input.View
		add(bu, s, m, rp.Input.Stream, rp.Input.Payload, rp.Input.Result, rp.Input.Expect)
	} else {
		if wit.Dropped {
			panic("the witness design does not compile: " + wit.BuildErr)
		}
		for _, wc := range fixedCases() {
			s, m := findMethod(wit.Design, "", wc.Method)
			if (*prop == "C02") == (wc.Payload != nil) {
				add(wit, s, m, "fixed", wc.Payload, wc.Result, "")
			}
		}
		for _, wc := range witnessCases(*prop) {
			s, m := findMethod(wit.Design, "", wc.Method)
			add(wit, s, m, "witness", wc.Payload, wc.Result, wc.Expect)
		}
		if cov.Dropped {
			// C01's business in general, but the covering design compiles on the baseline: a change broke it
			res.Fail("fixed/covering-design-does-not-compile", "the generated code of the hand-written covering design does not compile: "+cov.BuildErr, map[string]any{"design": cov.Design})
		} else {
			for _, wc := range coveringFixed(*prop) {
				s, m := findMethod(cov.Design, wc.Service, wc.Method)
				nextView = wc.View
				add(cov, s, m, "fixed", wc.Payload, wc.Result, "")
			}
			for _, wc := range coveringWitness(*prop) {
				s, m := findMethod(cov.Design, "", wc.Method)
				nextView = wc.View
				add(cov, s, m, "witness", wc.Payload, wc.Result, wc.Expect)
			}
		}
		for i := range dslds {
			dd := &dslds[i]
			if dd.bu.Dropped {
				if !strings.Contains(dd.bu.BuildErr, "design rejected") && !strings.Contains(dd.bu.BuildErr, "DSL errors") && !strings.Contains(dd.bu.BuildErr, "generation failed") {
					res.Fail("fixed/hand-written-design-does-not-compile", "the generated code of the hand-written DSL design "+dd.shadow.Name+" does not compile: "+dd.bu.BuildErr, map[string]any{"design": dd.shadow})
				}
				continue
			}
			for _, wc := range dd.cases(*prop) {
				s, m := findMethod(dd.bu.Design, wc.Service, wc.Method)
				add(dd.bu, s, m, "fixed", wc.Payload, wc.Result, "")
			}
		}
		for _, bu := range b.Items[nFixedDesigns:] {
			if bu.Dropped {
				res.Count("design_dropped_build")
				res.Extra["last_build_error"] = bu.BuildErr
				continue
			}
			d := bu.Design
			for _, f := range d.Features {
				res.Count("feature=" + f)
			}
			for _, s := range d.Services {
				for _, m := range s.Methods {
					ep := eps[bu.Key][s.Name+"/"+m.Name]
					for k := 0; k < nVals+nHostile; k++ {
						vo := designgen.ValOpts{SafeString: true, NoEmpty: true}
						switch k % 4 {
						case 1:
							vo.AllFields = true
						case 2:
							vo.NoOptional = true
						}
						stream := "main"
						if k >= nVals {
							stream = "hostile"
						}
						var pv, rv *designgen.Val
						if m.Payload != nil {
							pv = d.GenVal(rng, m.Payload, vo)
							if stream == "hostile" && ep != nil {
								pv = hostileIn(d, rng, m.Payload, pv, reqSide(ep), vo)
							}
						}
						if m.Result != nil {
							rv = d.GenVal(rng, m.Result, vo)
							if stream == "hostile" && ep != nil {
								rv = hostileIn(d, rng, m.Result, rv, respSide(ep, selectResp(ep, rv)), vo)
							}
						}
						if ep != nil {
							pv = fillDefaultedParams(d, rng, m.Payload, pv, reqSide(ep), vo)
							if rv != nil {
								rv = fillDefaultedParams(d, rng, m.Result, rv, respSide(ep, selectResp(ep, rv)), vo)
							}
							var okp, okr bool
							pv, okp = keepWireSafe(d, rng, m.Payload, pv, reqSide(ep), false, res)
							rv, okr = keepWireSafe(d, rng, m.Result, rv, respSide(ep, selectResp(ep, rv)), true, res)
							if !okp || !okr {
								res.Count("exchange_skipped_value_outside_wire_safe")
								continue
							}
						}
						if m.Payload != nil && pv != nil {
							pv = enrichAny(d, rng, &m.Payload.T, pv, 0, stream == "hostile")
							if cv := catchAllVar(m); cv != "" && pv.K == "object" {
								pv.Set(cv, catchAllValue(rng))
							}
						}
						if m.Result != nil && rv != nil {
							rv = enrichAny(d, rng, &m.Result.T, rv, 0, stream == "hostile")
							rv = steerTags(m, rv, k)
							rv = fillTaggedHeaders(d, rng, m, rv)
						}
						pv, rv = fitPatterns(m.Payload, pv), fitPatterns(m.Result, rv)
						if vs := viewNames(d, m); len(vs) > 0 {
							nextView = vs[k%len(vs)]
						}
						add(bu, s, m, stream, pv, rv, "")
					}
				}
			}
		}
	}

	steps := make([]rt.Step, len(xs))
	for i, x := range xs {
		steps[i] = x.st
	}
	if err := writeMultipartFields(b); err != nil {
		panic(err)
	}
	obs, err := b.Run(steps)
	if err != nil {
		panic(err)
	}
	if bs, e := os.ReadFile(filepath.Join(b.Dir, "steps.jsonl")); e == nil {
		_ = os.WriteFile(filepath.Join(b.Dir, "steps_first.jsonl"), bs, 0o644) // kept for debugging (the alt-route run rewrites steps.jsonl)
	}
	distinct := vh.Distinct{}
	mc := newModelCases(*prop)
	for _, x := range xs {
		ob := obs[x.st.ID]
		ci := x.ci
		res.Count("stream=" + ci.Stream)
		if ob == nil {
			res.Fail("driver-no-observation", "the driver produced no observation for a step", ci)
			continue
		}
		if ob.SetupErr != "" {
			res.Count("setup_err")
			res.Extra["last_setup_err"] = ob.SetupErr
			continue
		}
		res.Evaluations++
		sig, what, extra := evaluate(*prop, x, ob)
		if sig == "" {
			// a value handed over earlier must not change while later exchanges are processed
			if id, w := recheckEarlier(ob, obs); id >= 0 {
				sig, what = "earlier-value-changed-by-later-exchange", w
				extra["earlier_step"] = id
				for _, e := range xs {
					if e.st.ID == id {
						ec := e.ci
						if e.bu == x.bu {
							ec.Design = nil
						}
						extra["earlier_exchange"] = ec
					}
				}
			}
		}
		if ob.Invoked == 1 {
			kb, _ := json.Marshal([]any{x.bu.Key, ci.Payload, ci.Result, ci.Method})
			distinct.Add(string(kb))
		}
		if *verbose {
			fmt.Printf("%-8s %-4s %-6s sig=%q expect=%q invoked=%d status=%d\n", ci.Stream, x.bu.Key, ci.Method, sig, ci.Expect, ob.Invoked, statusOf(ob))
			if sig != "" {
				fmt.Printf("         %s\n", what)
			}
		}
		in := map[string]any{"prop": ci.Prop, "stream": ci.Stream, "design": ci.Design, "service": ci.Service, "method": ci.Method,
			"payload": ci.Payload, "result": ci.Result, "expect": ci.Expect, "wire_request": ob.Req, "wire_response": ob.Resp}
		if ci.View != "" {
			in["view"] = ci.View
		}
		for k, v := range extra {
			in[k] = v
		}
		switch {
		case sig == "" && ci.Stream == "witness":
			res.Count("witness_not_reproduced=" + ci.Expect)
		case sig == "":
		case ci.Stream == "witness":
			// a witness exchange must fail with exactly the signature of its loss class
			if sig != ci.Expect {
				sig = "witness-changed:" + ci.Expect + "->" + sig
			}
			res.Fail(sig, what, in)
		default:
			// inside wire_safe the full property is expected: never matched against known findings
			res.Fail(ci.Stream+"/"+sig, what, in)
		}
		if sig == "" || ci.Stream == "witness" {
			mc.add(x, ob, res)
		}
		if ci.Stream != "witness" {
			if *prop == "C02" {
				res.Sample(map[string]any{"method": ci.Method, "payload": ci.Payload, "wire": ob.Req}, 3)
			} else {
				res.Sample(map[string]any{"method": ci.Method, "result": ci.Result, "wire": ob.Resp}, 3)
			}
		}
	}
	// every non-first route of an endpoint, through raw requests carrying what the generated client produced
	if *prop == "C02" {
		var alt []rt.Step
		altOf := map[int]*exchange{}
		next := len(steps)
		for _, x := range xs {
			if x.ci.Stream == "witness" {
				continue
			}
			for _, st := range altRouteSteps(x, obs[x.st.ID], func() int { next++; return next - 1 }) {
				alt = append(alt, st)
				altOf[st.ID] = x
			}
		}
		if len(alt) > 0 {
			aobs, err := b.Run(alt)
			if err != nil {
				panic(err)
			}
			for _, st := range alt {
				x, ob := altOf[st.ID], aobs[st.ID]
				if ob == nil || ob.SetupErr != "" {
					res.Count("alt_route_setup_err")
					continue
				}
				res.Count("alt_route_exchanges")
				res.Evaluations++
				d, mm := x.ci.Design, x.m
				in := map[string]any{"prop": x.ci.Prop, "stream": x.ci.Stream, "design": d, "service": x.ci.Service, "method": x.ci.Method,
					"payload": x.ci.Payload, "raw_request": st.Raw, "wire_response": ob.Resp}
				if ob.Invoked != 1 {
					res.Fail(fmt.Sprintf("%s/alt-route-not-delivered:%d", x.ci.Stream, statusOf(ob)),
						fmt.Sprintf("the request the generated client builds, sent to route %s %s of the same endpoint, did not reach the service method (status %d)", st.Raw.Method, st.Raw.Target, statusOf(ob)), in)
					continue
				}
				if mm.Payload != nil {
					got := fromTreeX(d, &mm.Payload.T, ob.Got)
					want := withDefaults(d, &mm.Payload.T, x.ci.Payload)
					if !got.Equal(want) {
						in["received"], in["expected"] = got, want
						res.Fail(x.ci.Stream+"/alt-route-payload-changed", fmt.Sprintf("through route %s %s the service method received %s, the client was given %s", st.Raw.Method, st.Raw.Target, got, want), in)
					}
				}
			}
		}
	}
	// tier A: partition of every endpoint of every accepted design (goa's finalisation vs the model's)
	for _, bu := range b.Items {
		if bu.GenErr != "" && eps[bu.Key] == nil {
			continue
		}
		for _, s := range bu.Design.Services {
			for _, m := range s.Methods {
				mc.addPartition(bu, s, m, eps[bu.Key][s.Name+"/"+m.Name], res)
			}
		}
	}
	if rp == nil {
		// content types: goa's encoder / decoder selection probed directly (content.go)
		nProbe := 400
		if *tier == "thorough" {
			nProbe = 4000
		}
		lines, info, err := contentProbe(b, rng, nProbe, res)
		if err != nil {
			res.Fail("fixed/content-type-probe-broken", err.Error(), map[string]any{"design": nil})
		}
		mc.codec, mc.codecInfo = lines, info
	}
	if err := mc.write(*out, res); err != nil {
		panic(err)
	}
	res.Distinct = len(distinct)
	res.Rule = "designs: hand-written witness design + designgen.Random (HTTP envelope, compile-clean options, Security off); per method: values from boundary classes (all optional set / none set / mixed), transport-safe strings in the main stream, hostile strings in body attributes and query parameters in the hostile stream, one minimal exchange per recorded loss class in the witness stream; evaluation = one client->server exchange judged by the direct oracle; non-trivial = exchange that reached the service method; distinct = distinct (design, method, payload, result)"
	if err := res.Write(filepath.Join(*out, "result.json")); err != nil {
		panic(err)
	}
}

// hostileIn redraws, with hostile strings, the attributes that travel in the body or
// in the query string (the locations where the full property is expected to hold for
// every string); everything else keeps its transport-safe value.
func hostileIn(d *designgen.Design, rng *vh.RNG, a *designgen.Attr, v *designgen.Val, s side, vo designgen.ValOpts) *designgen.Val {
	hv := vo
	hv.SafeString = false
	okLoc := func(l string) bool { return l == "body" || l == "query" }
	if !s.object || v == nil || v.K != "object" {
		if okLoc(s.whole) || (s.object && v != nil && v.K != "object") {
			return d.GenVal(rng, a, hv)
		}
		if s.object {
			// user-type payload/result: per-attribute locations known from the extracted endpoint
			return v
		}
		return v
	}
	out := v.Clone()
	for _, f := range d.AllFields(&a.T) {
		if out.Get(f.Name) == nil || !okLoc(s.locOf(f.Name)) {
			continue
		}
		nv := d.GenVal(rng, &f.A, designgen.ValOpts{Depth: 1, SafeString: false, NoEmpty: true, AllFields: vo.AllFields, NoOptional: vo.NoOptional})
		if f.A.HasDef && isZero(nv) {
			continue
		}
		out.Set(f.Name, nv)
	}
	return out
}

// fillDefaultedParams keeps the main streams outside the recorded loss class
// "unset defaulted non-string parameter is sent as its zero value": such an attribute
// (query / header / cookie, any primitive but String) is always given a value.
func fillDefaultedParams(d *designgen.Design, rng *vh.RNG, a *designgen.Attr, v *designgen.Val, s side, vo designgen.ValOpts) *designgen.Val {
	if a == nil || v == nil || !s.object || v.K != "object" {
		return v
	}
	out := v
	for _, f := range d.AllFields(&a.T) {
		loc := s.locOf(f.Name)
		if !f.A.HasDef || out.Get(f.Name) != nil || !(loc == "query" || loc == "header" || loc == "cookie") {
			continue
		}
		bt, _ := d.Base(&f.A.T)
		if bt.Kind != "prim" || bt.Prim == "String" {
			continue
		}
		if out == v {
			out = v.Clone()
		}
		var nv *designgen.Val
		for tries := 0; tries < 8; tries++ {
			nv = d.GenVal(rng, &f.A, designgen.ValOpts{Depth: 1, SafeString: true, NoEmpty: true})
			if !isZero(nv) {
				break
			}
		}
		if isZero(nv) {
			nv = defVal(normDefault(f.A.Default), &f.A.T)
		}
		if !s.response && rng.Chance(1, 3) {
			// an explicit zero given by the caller must arrive as zero, not as the default
			if z := zeroLike(nv); z != nil && satisfies(d, &f.A, z) {
				nv = z
			}
		}
		out.Set(f.Name, nv)
	}
	return out
}

// locSafe: the Go-side mirror of Transport.safe_str / safe_elem for one location.
func locSafe(loc string, v *designgen.Val, elem bool) bool {
	if v == nil {
		return true
	}
	switch v.K {
	case "array":
		if len(v.Elems) == 0 {
			return false
		}
		for _, e := range v.Elems {
			if !locSafe(loc, e, true) {
				return false
			}
		}
		return loc != "path" || pathText(v) != ""
	case "string":
		s := v.S
		switch loc {
		case "path":
			if elem {
				return !strings.ContainsAny(s, " ,")
			}
			return s != "" && !strings.Contains(s, "/") && !hasPctTriple(s)
		case "query":
			return elem || s != ""
		case "header":
			ok := trimHeader(s) == s
			for i := 0; i < len(s); i++ {
				if (s[i] < 0x20 && s[i] != '\t') || s[i] == 0x7f {
					ok = false
				}
			}
			return ok && (elem || s != "")
		case "cookie":
			return sanitizeCookie(s) == s && s != ""
		}
	}
	return true
}

// keepWireSafe keeps the main streams inside wire_safe when a validation (Enum, Format,
// Pattern samples) forces a string that a location cannot carry (for instance the enum
// value "é" in a cookie, a uri in a path segment): the attribute is redrawn, left unset
// when optional, or the exchange is skipped. Response header arrays keep one element.
func keepWireSafe(d *designgen.Design, rng *vh.RNG, a *designgen.Attr, v *designgen.Val, s side, response bool, res *vh.Result) (*designgen.Val, bool) {
	if a == nil || v == nil {
		return v, true
	}
	if !s.object || v.K != "object" {
		if s.whole == "body" || locSafe(s.whole, v, false) {
			return v, true
		}
		for tries := 0; tries < 8; tries++ {
			nv := d.GenVal(rng, a, designgen.ValOpts{SafeString: true, NoEmpty: true})
			if locSafe(s.whole, nv, false) {
				res.Count("value_redrawn_for_wire_safety")
				return nv, true
			}
		}
		return v, false
	}
	out := v
	for _, f := range d.AllFields(&a.T) {
		loc := s.locOf(f.Name)
		cur := out.Get(f.Name)
		if cur == nil || loc == "body" {
			continue
		}
		fix := func(nv *designgen.Val) {
			if out == v {
				out = v.Clone()
			}
			if nv == nil {
				out.Unset(f.Name)
			} else {
				out.Set(f.Name, nv)
			}
		}
		if response && loc == "header" && cur.K == "array" && len(cur.Elems) > 1 {
			nv := cur.Clone()
			nv.Elems = nv.Elems[:1]
			fix(nv)
			cur = nv
			res.Count("response_header_array_cut_to_one_element")
		}
		if locSafe(loc, cur, false) {
			continue
		}
		done := false
		for tries := 0; tries < 8 && !done; tries++ {
			nv := d.GenVal(rng, &f.A, designgen.ValOpts{Depth: 1, SafeString: true, NoEmpty: true})
			if response && loc == "header" && nv.K == "array" && len(nv.Elems) > 1 {
				nv.Elems = nv.Elems[:1]
			}
			if locSafe(loc, nv, false) && !(f.A.HasDef && isZero(nv)) {
				fix(nv)
				done = true
				res.Count("value_redrawn_for_wire_safety")
			}
		}
		if !done {
			if f.Required {
				return v, false
			}
			fix(nil)
			res.Count("value_unset_for_wire_safety")
		}
	}
	return out, true
}

func zeroLike(v *designgen.Val) *designgen.Val {
	switch v.K {
	case "int", "uint", "float", "bool":
		return &designgen.Val{K: v.K}
	}
	return nil
}

// satisfies: zero is inside the numeric bounds / enum of the attribute.
func satisfies(d *designgen.Design, a *designgen.Attr, z *designgen.Val) bool {
	_, vs := d.Base(&a.T)
	for _, v := range append(append([]*designgen.Validation{}, vs...), a.V) {
		if v == nil {
			continue
		}
		if len(v.Enum) > 0 || (v.Min != nil && *v.Min > 0) || (v.ExclMin != nil && *v.ExclMin >= 0) || (v.Max != nil && *v.Max < 0) || (v.ExclMax != nil && *v.ExclMax <= 0) {
			return false
		}
	}
	return z != nil
}

// designedResponse: the success response the design description selects for this result.
func designedResponse(m *designgen.Method, res *designgen.Val) *designgen.Response {
	if m.HTTP == nil {
		return nil
	}
	for i := range m.HTTP.Responses {
		r := &m.HTTP.Responses[i]
		if len(r.Tag) == 2 {
			if v := res.Get(r.Tag[0]); v != nil && v.K == "string" && v.S == r.Tag[1] {
				return r
			}
		}
	}
	for i := range m.HTTP.Responses {
		if len(m.HTTP.Responses[i].Tag) == 0 {
			return &m.HTTP.Responses[i]
		}
	}
	return nil
}

func projectVal(v *designgen.Val, keep map[string]bool) *designgen.Val {
	out := &designgen.Val{K: "object", Names: []string{}, Elems: []*designgen.Val{}}
	for i, n := range v.Names {
		if keep[n] {
			out.Names = append(out.Names, n)
			out.Elems = append(out.Elems, v.Elems[i])
		}
	}
	return out
}

// selectResp: the success response the design selects for this result (tag match first, then the untagged one).
func selectResp(ep *EpInfo, res *designgen.Val) *RespInfo {
	if ep == nil {
		return nil
	}
	for i := range ep.Responses {
		r := &ep.Responses[i]
		if len(r.Tag) == 2 {
			if v := res.Get(r.Tag[0]); v != nil && v.K == "string" && v.S == r.Tag[1] {
				return r
			}
		}
	}
	for i := range ep.Responses {
		if len(ep.Responses[i].Tag) == 0 {
			return &ep.Responses[i]
		}
	}
	return nil
}

// evaluate is the direct oracle: the property's own statement on what the real code did.
func evaluate(prop string, x *exchange, ob *rt.Obs) (sig, what string, extra map[string]any) {
	ci, d, m := x.ci, x.ci.Design, x.m
	extra = map[string]any{}
	if ob.Panic != "" {
		extra["panic"] = ob.Panic
		if prop == "C03" && m.Result != nil && ob.Invoked >= 1 {
			view := ci.View
			if m.ResultView != "" {
				view = m.ResultView
			}
			if view != "" && viewOmitsRequiredNested(d, &m.Result.T, view) && strings.Contains(ob.Panic, "nil pointer") {
				return "view-omits-required-nested-attribute-client-panics", "the generated client panics while decoding the response: " + strings.SplitN(ob.Panic, "\n", 2)[0], extra
			}
		}
		return "driver-panic", "panic while running the exchange: " + strings.SplitN(ob.Panic, "\n", 2)[0], extra
	}
	if prop == "C02" {
		if ob.Invoked != 1 {
			extra["client_error"] = ob.ClientErr
			s := fmt.Sprintf("valid-request-not-delivered:%d", statusOf(ob))
			if x.ep != nil && m.Payload != nil {
				s = classifyRequest(x.ep, ci.Payload, nil, nil, ob, nil)
			}
			return s, fmt.Sprintf("a payload satisfying the design did not reach the service method (invoked %d times, status %d): %s", ob.Invoked, statusOf(ob), ci.Payload), extra
		}
		if m.Payload != nil {
			got := fromTreeX(d, &m.Payload.T, ob.Got)
			want := withDefaults(d, &m.Payload.T, ci.Payload)
			if !got.Equal(want) {
				extra["received"], extra["expected"] = got, want
				s := "payload-changed:" + diffClass(d, &m.Payload.T, want, got)
				if x.ep != nil {
					s = classifyRequest(x.ep, ci.Payload, want, got, ob, anyIn(d, m.Payload))
				}
				return s, fmt.Sprintf("service method received %s, the client was given %s", got, want), extra
			}
		}
		// every attribute travels in exactly the location the design assigns it: nothing else on the wire
		if x.ep != nil && ob.Req != nil {
			if s, w := strayOnWire(x.ep, m, ob.Req); s != "" {
				return s, w, extra
			}
			if s, w := strayRequestHeaders(m, ob.Req); s != "" {
				return s, w, extra
			}
		}
		return "", "", extra
	}
	// C03
	if ob.Invoked < 1 {
		return "", "", extra // the request side is C02's business
	}
	sel := selectResp(x.ep, ci.Result)
	if ob.ClientErr != nil {
		extra["client_error"] = ob.ClientErr
		s := "valid-result-not-delivered:" + ob.ClientErr.Name
		if x.ep != nil && m.Result != nil {
			s = classifyResponse(x.ep, sel, ci.Result, nil, nil, ob, nil)
		}
		return s, fmt.Sprintf("client returned error %s: %s for a result satisfying the design: %s", ob.ClientErr.Name, ob.ClientErr.Message, ci.Result), extra
	}
	if m.Result != nil {
		got := fromTreeX(d, &m.Result.T, ob.ClientResult)
		want := withDefaults(d, &m.Result.T, ci.Result)
		if ci.View != "" || m.ResultView != "" {
			// a result type with views: the client must return the projection of the service's
			// result under the selected view (which attributes each view exposes is C08's
			// statement; that the exposed ones arrive intact is this one's)
			view := ci.View
			if m.ResultView != "" {
				view = m.ResultView
			}
			want, got = projectView(d, &m.Result.T, want, view), projectView(d, &m.Result.T, got, view)
			if !got.Equal(want) {
				extra["received"], extra["expected"], extra["view"] = got, want, view
				return "result-changed:view:" + diffClass(d, &m.Result.T, want, got), fmt.Sprintf("under view %q the client returned %s, the service returned %s", view, got, want), extra
			}
			return "", "", extra
		}
		if dr := designedResponse(m, ci.Result); dr != nil && dr.Body != nil && want != nil && want.K == "object" {
			// an explicit response body: only the attributes the response carries (body, headers,
			// cookies) and the tag attribute (restored by the client) can arrive
			carried := map[string]bool{}
			for _, a := range dr.Body.Attrs {
				carried[a] = true
			}
			if dr.Body.Attr != "" {
				carried[dr.Body.Attr] = true
			}
			for _, e := range append(append([]designgen.MapEntry{}, dr.Headers...), dr.Cookies...) {
				carried[e.Attr] = true
			}
			if len(dr.Tag) == 2 {
				carried[dr.Tag[0]] = true
			}
			want, got = projectVal(want, carried), projectVal(got, carried)
		}
		if !got.Equal(want) {
			extra["received"], extra["expected"] = got, want
			s := "result-changed:" + diffClass(d, &m.Result.T, want, got)
			if x.ep != nil {
				s = classifyResponse(x.ep, sel, ci.Result, want, got, ob, anyIn(d, m.Result))
			}
			return s, fmt.Sprintf("client returned %s, the service returned %s", got, want), extra
		}
		if want := designedStatus(m, ci.Result); want != 0 && ob.Resp != nil && ob.Resp.Status != want {
			return "status-not-designed", fmt.Sprintf("response status %d, design assigns %d", ob.Resp.Status, want), extra
		}
		// each attribute carried in its designed location: nothing else on the response
		if s, w := strayOnResponse(d, m, ob.Resp); s != "" {
			return s, w, extra
		}
	} else if ob.Resp != nil {
		if want := designedStatus(m, nil); want != 0 && ob.Resp.Status != want {
			return "status-not-designed", fmt.Sprintf("response status %d, design assigns %d", ob.Resp.Status, want), extra
		}
	}
	return "", "", extra
}

// anyIn tells, per top-level attribute of a payload / result, whether its type holds an Any.
func anyIn(d *designgen.Design, a *designgen.Attr) func(string) bool {
	return func(name string) bool {
		if a == nil {
			return false
		}
		if name == "" {
			return containsAny(d, &a.T, 0)
		}
		for _, f := range d.AllFields(&a.T) {
			if f.Name == name {
				return containsAny(d, &f.A.T, 0)
			}
		}
		return false
	}
}

func statusOf(ob *rt.Obs) int {
	if ob.Resp != nil {
		return ob.Resp.Status
	}
	return 0
}

func isViewed(d *designgen.Design, m *designgen.Method) bool {
	if m.Result == nil {
		return false
	}
	t := m.Result.T
	if t.Kind == "user" || t.Kind == "collection" {
		if ut := d.UserType(t.Ref); ut != nil && ut.Result && len(ut.Views) > 0 {
			return true
		}
	}
	return false
}

// designedStatus: the status the design assigns to the success response selected for this result.
func designedStatus(m *designgen.Method, res *designgen.Val) int {
	if m.HTTP == nil {
		return 0
	}
	if len(m.HTTP.Responses) == 0 {
		if m.Result == nil {
			return 204
		}
		return 200
	}
	for _, r := range m.HTTP.Responses {
		if len(r.Tag) == 2 {
			if v := res.Get(r.Tag[0]); v != nil && v.K == "string" && v.S == r.Tag[1] {
				return r.Status
			}
		}
	}
	for _, r := range m.HTTP.Responses {
		if len(r.Tag) == 0 {
			return r.Status
		}
	}
	return 0
}

// withDefaults returns v with the declared defaults filled in for unset attributes, recursively.
func withDefaults(d *designgen.Design, t *designgen.Type, v *designgen.Val) *designgen.Val {
	if v == nil || v.K == "null" {
		return v
	}
	bt, _ := d.Base(t)
	switch v.K {
	case "object":
		out := v.Clone()
		for _, f := range d.AllFields(t) {
			cur := out.Get(f.Name)
			if cur == nil {
				if f.A.HasDef {
					out.Set(f.Name, defVal(f.A.Default, &f.A.T))
				}
				continue
			}
			out.Set(f.Name, withDefaults(d, &f.A.T, cur))
		}
		return out
	case "array":
		out := v.Clone()
		var et *designgen.Type
		if bt.Kind == "collection" {
			et = &designgen.Type{Kind: "user", Ref: bt.Ref}
		} else if bt.Elem != nil {
			et = &bt.Elem.T
		}
		if et != nil {
			for i := range out.Elems {
				out.Elems[i] = withDefaults(d, et, out.Elems[i])
			}
		}
		return out
	case "map":
		out := v.Clone()
		if bt.Elem != nil {
			for i := range out.Elems {
				out.Elems[i] = withDefaults(d, &bt.Elem.T, out.Elems[i])
			}
		}
		return out
	}
	return v
}

func defVal(x any, t *designgen.Type) *designgen.Val {
	if xs, ok := anySlice(x); ok {
		out := &designgen.Val{K: "array", Elems: []*designgen.Val{}}
		et := t
		if t.Kind == "array" && t.Elem != nil {
			et = &t.Elem.T
		}
		for _, e := range xs {
			out.Elems = append(out.Elems, defVal(normDefault(e), et))
		}
		return out
	}
	switch v := x.(type) {
	case bool:
		return &designgen.Val{K: "bool", B: v}
	case string:
		return &designgen.Val{K: "string", S: v}
	case int:
		if strings.HasPrefix(t.Prim, "UInt") {
			return &designgen.Val{K: "uint", U: uint64(v)}
		}
		if strings.HasPrefix(t.Prim, "Float") {
			return &designgen.Val{K: "float", F: float64(v)}
		}
		return &designgen.Val{K: "int", I: int64(v)}
	case float64:
		if strings.HasPrefix(t.Prim, "UInt") {
			return &designgen.Val{K: "uint", U: uint64(v)}
		}
		if strings.HasPrefix(t.Prim, "Int") {
			return &designgen.Val{K: "int", I: int64(v)}
		}
		return &designgen.Val{K: "float", F: v}
	}
	return designgen.Null
}

// diffClass names the first differing attribute's situation (fallback classifier when
// the finalised endpoint is not available).
func diffClass(d *designgen.Design, t *designgen.Type, want, got *designgen.Val) string {
	if want == nil || got == nil || want.K != got.K {
		return "kind"
	}
	if want.K == "object" {
		for _, f := range d.AllFields(t) {
			w, g := want.Get(f.Name), got.Get(f.Name)
			switch {
			case w == nil && g == nil:
			case w == nil:
				return "unset-arrived-set"
			case g == nil:
				return "set-arrived-unset"
			case !w.Equal(g):
				if w.K == "object" || w.K == "array" || w.K == "map" {
					return diffClass(d, &f.A.T, w, g)
				}
				return "value"
			}
		}
	}
	if want.K == "array" && len(want.Elems) != len(got.Elems) {
		return "array-length"
	}
	if want.K == "map" && len(want.Keys) != len(got.Keys) {
		return "map-size"
	}
	return "value"
}

// strayOnWire: the tapped request carries a body member or a query key that the design
// does not put there (an attribute duplicated outside its designed location).
func strayOnWire(ep *EpInfo, m *designgen.Method, w *rt.Wire) (string, string) {
	if ep.PayloadKind == "object" && !ep.Multipart && strings.TrimSpace(w.Body) != "" && (ep.BodyKind == "object" || ep.BodyKind == "empty") {
		var obj map[string]json.RawMessage
		if json.Unmarshal([]byte(w.Body), &obj) == nil {
			// the designed body members, from the design description alone (not from goa's
			// finalisation, so that a finalisation defect shows here): payload minus mapped
			allowed := map[string]bool{}
			designed := []string{}
			if m.HTTP != nil && m.HTTP.Body != nil {
				designed = append(designed, m.HTTP.Body.Attrs...)
				if m.HTTP.Body.Attr != "" {
					designed = nil
					for _, a := range ep.BodyAttrs {
						designed = append(designed, a)
					}
				}
			} else if m.HTTP != nil {
				mapped := map[string]bool{}
				for _, e := range m.HTTP.Params {
					mapped[e.Attr] = true
				}
				for _, e := range m.HTTP.Headers {
					mapped[e.Attr] = true
				}
				for _, e := range m.HTTP.Cookies {
					mapped[e.Attr] = true
				}
				for _, r := range m.HTTP.Routes {
					for _, seg := range strings.Split(r.Path, "/") {
						if strings.HasPrefix(seg, "{") {
							mapped[strings.Trim(seg, "{*}")] = true
						}
					}
				}
				for _, a := range ep.PayloadAttrs {
					if !mapped[a.Name] {
						designed = append(designed, a.Name)
					}
				}
			}
			for _, a := range designed {
				allowed[a] = true
			}
			var stray []string
			for _, k := range vh.SortedKeys(obj) {
				if !allowed[k] {
					stray = append(stray, k)
				}
			}
			if len(stray) > 0 {
				sig := "attribute-outside-designed-location:body"
				return sig, fmt.Sprintf("the request body carries members %v; the design puts only %v in the body", stray, designed)
			}
		}
	}
	if ep.PayloadKind == "object" && !ep.MapQuery && w.Query != "" {
		for _, piece := range strings.Split(w.Query, "&") {
			k, _, _ := strings.Cut(piece, "=")
			if uk, err := url.QueryUnescape(k); err == nil {
				k = uk
			}
			ok := false
			for _, q := range ep.Query {
				if k == q.Wire || strings.HasPrefix(k, q.Wire+"[") {
					ok = true
				}
			}
			if !ok {
				return "attribute-outside-designed-location:query", fmt.Sprintf("the query string carries key %q; the design has query parameters %v", k, ep.Query)
			}
		}
	}
	return "", ""
}
