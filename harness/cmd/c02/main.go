// Command c02 drives generated HTTP clients against generated HTTP servers (tier B)
// for properties C02 (requests deliver the payload intact) and C03 (responses
// deliver the result intact). It builds a batch of designs through the real DSL,
// generates and compiles their code with a stub service, runs scripted exchanges,
// evaluates the properties directly on what the real code did, and writes the
// exchanges as Coq terms for the Transport model.
package main

import (
	"encoding/json"
	"flag"
	"fmt"
	"os"
	"path/filepath"
	"strings"

	"goa.design/goa/v3/expr"

	"verifharness/designgen"
	"verifharness/tierb"
	"verifharness/tierb/rt"
	"verifharness/vh"
)

type caseInfo struct {
	Prop    string            `json:"prop"`
	Design  *designgen.Design `json:"design"`
	Service string            `json:"service"`
	Method  string            `json:"method"`
	Payload *designgen.Val    `json:"payload,omitempty"`
	Result  *designgen.Val    `json:"result,omitempty"`
	View    string            `json:"view,omitempty"`
	Stream  string            `json:"stream"`
}

func main() {
	seed := flag.Uint64("seed", 1, "")
	tier := flag.String("tier", "quick", "")
	out := flag.String("out", ".", "")
	repo := flag.String("repo", "/repo", "")
	harness := flag.String("harness", "/verif/harness", "")
	prop := flag.String("prop", "C02", "")
	flag.Parse()
	rng := vh.NewRNG(*seed)
	res := vh.NewResult()

	nDesigns, nVals := 8, 12
	if *tier == "thorough" {
		nDesigns, nVals = 80, 30
	}
	b, err := tierb.NewBatch(filepath.Join(*out, "tb"), *repo, *harness)
	if err != nil {
		panic(err)
	}
	b.Env = os.Environ()
	opts := designgen.DefaultOptions()
	opts.Security = false // credentials are C06's business
	for i := 0; len(b.Items) < nDesigns && i < nDesigns*3; i++ {
		d := designgen.Random(rng.Fork(), opts, i)
		bu, oc := b.Add(d, func(root *expr.RootExpr, bu *tierb.Built) {})
		if bu == nil {
			res.Count("design_rejected")
			_ = oc
			continue
		}
		if bu.GenErr != "" {
			res.Count("design_generate_failed")
		}
	}
	if err := b.Build(); err != nil {
		panic(err)
	}
	var steps []rt.Step
	var infos []caseInfo
	for _, bu := range b.Items {
		if bu.Dropped {
			res.Count("design_dropped_build")
			continue
		}
		d := bu.Design
		for _, f := range d.Features {
			res.Count("feature=" + f)
		}
		for _, s := range d.Services {
			for _, m := range s.Methods {
				for k := 0; k < nVals; k++ {
					st := rt.Step{ID: len(steps), Design: bu.Key, Service: s.Name, Method: m.Name}
					ci := caseInfo{Prop: *prop, Design: d, Service: s.Name, Method: m.Name, Stream: "main"}
					vo := designgen.ValOpts{SafeString: true, NoEmpty: true}
					switch k % 4 {
					case 1:
						vo.AllFields = true
					case 2:
						vo.NoOptional = true
					}
					if m.Payload != nil {
						ci.Payload = d.GenVal(rng, m.Payload, vo)
						st.Payload = d.ToTree(&m.Payload.T, ci.Payload)
					}
					if m.Result != nil {
						ci.Result = d.GenVal(rng, m.Result, vo)
						st.Result = d.ToTree(&m.Result.T, ci.Result)
						if isViewed(d, m) && m.ResultView == "" {
							st.View = "default"
						}
						ci.View = st.View
					}
					steps = append(steps, st)
					infos = append(infos, ci)
				}
			}
		}
	}
	obs, err := b.Run(steps)
	if err != nil {
		panic(err)
	}
	distinct := vh.Distinct{}
	for i, st := range steps {
		ob := obs[st.ID]
		ci := infos[i]
		if ob == nil {
			res.Fail("driver-no-observation", "the driver produced no observation for a step", ci)
			continue
		}
		if ob.SetupErr != "" {
			res.Count("setup_err")
			res.Extra["last_setup_err"] = ob.SetupErr
			continue
		}
		res.Evaluations++
		kb, _ := json.Marshal([]any{ci.Payload, ci.Result, ci.Method})
		distinct.Add(string(kb))
		d := ci.Design
		var m *designgen.Method
		for _, s := range d.Services {
			if s.Name == ci.Service {
				for _, mm := range s.Methods {
					if mm.Name == ci.Method {
						m = mm
					}
				}
			}
		}
		in := map[string]any{"design": d, "service": ci.Service, "method": ci.Method, "payload": ci.Payload, "result": ci.Result,
			"wire_request": ob.Req, "wire_response": ob.Resp}
		if ob.Panic != "" {
			res.Fail("driver-panic", "panic while running the exchange: "+strings.SplitN(ob.Panic, "\n", 2)[0], in)
			continue
		}
		// C02: the payload arrives intact
		if *prop == "C02" {
			if ob.Invoked != 1 {
				in["client_error"] = ob.ClientErr
				res.Fail("valid-request-not-delivered", fmt.Sprintf("a payload satisfying the design did not reach the service method (invoked %d times, status %d)", ob.Invoked, statusOf(ob)), in)
				continue
			}
			if m.Payload != nil {
				got := d.FromTree(&m.Payload.T, ob.Got)
				want := withDefaults(d, &m.Payload.T, ci.Payload)
				if !got.Equal(want) {
					in["received"] = got
					in["expected"] = want
					res.Fail("payload-changed:"+diffClass(d, &m.Payload.T, want, got), fmt.Sprintf("service method received %s, the client was given %s", got, want), in)
				}
			}
			res.Sample(map[string]any{"method": ci.Method, "payload": ci.Payload, "wire": ob.Req}, 3)
		}
		if *prop == "C03" {
			if ob.Invoked != 1 {
				continue
			}
			if ob.ClientErr != nil {
				in["client_error"] = ob.ClientErr
				res.Fail("valid-result-not-delivered", fmt.Sprintf("client returned error %s: %s for a result satisfying the design", ob.ClientErr.Name, ob.ClientErr.Message), in)
				continue
			}
			if m.Result != nil {
				got := d.FromTree(&m.Result.T, ob.ClientResult)
				want := withDefaults(d, &m.Result.T, ci.Result)
				if ci.View != "" || m.ResultView != "" {
					continue // views are C08's business
				}
				if !got.Equal(want) {
					in["received"] = got
					in["expected"] = want
					res.Fail("result-changed:"+diffClass(d, &m.Result.T, want, got), fmt.Sprintf("client returned %s, the service returned %s", got, want), in)
				}
				if want := designedStatus(m, ci.Result); want != 0 && ob.Resp != nil && ob.Resp.Status != want {
					res.Fail("status-not-designed", fmt.Sprintf("response status %d, design assigns %d", ob.Resp.Status, want), in)
				}
			}
			res.Sample(map[string]any{"method": ci.Method, "result": ci.Result, "wire": ob.Resp}, 3)
		}
	}
	res.Distinct = len(distinct)
	res.Rule = "designs: designgen.Random (HTTP envelope, compile-clean options); per method values from boundary classes (all optional set / none set / mixed; transport-safe strings in the main stream); non-trivial = exchange that reached the service method; distinct = distinct (method, payload, result)"
	if err := res.Write(filepath.Join(*out, "result.json")); err != nil {
		panic(err)
	}
}

func statusOf(ob *rt.Obs) int {
	if ob.Resp != nil {
		return ob.Resp.Status
	}
	return 0
}

func isViewed(d *designgen.Design, m *designgen.Method) bool {
	if m.Result == nil {
		return false
	}
	t := m.Result.T
	if t.Kind == "user" || t.Kind == "collection" {
		if ut := d.UserType(t.Ref); ut != nil && ut.Result && len(ut.Views) > 0 {
			return true
		}
	}
	return false
}

// designedStatus: the status the design assigns to the success response selected for this result.
func designedStatus(m *designgen.Method, res *designgen.Val) int {
	if m.HTTP == nil {
		return 0
	}
	if len(m.HTTP.Responses) == 0 {
		if m.Result == nil {
			return 204
		}
		return 200
	}
	for _, r := range m.HTTP.Responses {
		if len(r.Tag) == 2 {
			if v := res.Get(r.Tag[0]); v != nil && v.K == "string" && v.S == r.Tag[1] {
				return r.Status
			}
		}
	}
	for _, r := range m.HTTP.Responses {
		if len(r.Tag) == 0 {
			return r.Status
		}
	}
	return 0
}

// withDefaults returns v with the declared defaults filled in for unset attributes, recursively.
func withDefaults(d *designgen.Design, t *designgen.Type, v *designgen.Val) *designgen.Val {
	if v == nil || v.K == "null" {
		return v
	}
	bt, _ := d.Base(t)
	switch v.K {
	case "object":
		out := v.Clone()
		for _, f := range d.AllFields(t) {
			cur := out.Get(f.Name)
			if cur == nil {
				if f.A.HasDef {
					out.Set(f.Name, defVal(f.A.Default, &f.A.T))
				}
				continue
			}
			out.Set(f.Name, withDefaults(d, &f.A.T, cur))
		}
		return out
	case "array":
		out := v.Clone()
		var et *designgen.Type
		if bt.Kind == "collection" {
			et = &designgen.Type{Kind: "user", Ref: bt.Ref}
		} else if bt.Elem != nil {
			et = &bt.Elem.T
		}
		if et != nil {
			for i := range out.Elems {
				out.Elems[i] = withDefaults(d, et, out.Elems[i])
			}
		}
		return out
	case "map":
		out := v.Clone()
		if bt.Elem != nil {
			for i := range out.Elems {
				out.Elems[i] = withDefaults(d, &bt.Elem.T, out.Elems[i])
			}
		}
		return out
	}
	return v
}

func defVal(x any, t *designgen.Type) *designgen.Val {
	switch v := x.(type) {
	case bool:
		return &designgen.Val{K: "bool", B: v}
	case string:
		return &designgen.Val{K: "string", S: v}
	case int:
		if strings.HasPrefix(t.Prim, "UInt") {
			return &designgen.Val{K: "uint", U: uint64(v)}
		}
		if strings.HasPrefix(t.Prim, "Float") {
			return &designgen.Val{K: "float", F: float64(v)}
		}
		return &designgen.Val{K: "int", I: int64(v)}
	case float64:
		if strings.HasPrefix(t.Prim, "UInt") {
			return &designgen.Val{K: "uint", U: uint64(v)}
		}
		if strings.HasPrefix(t.Prim, "Int") {
			return &designgen.Val{K: "int", I: int64(v)}
		}
		return &designgen.Val{K: "float", F: v}
	}
	return designgen.Null
}

// diffClass names the first differing attribute's situation (classifier for findings).
func diffClass(d *designgen.Design, t *designgen.Type, want, got *designgen.Val) string {
	if want == nil || got == nil || want.K != got.K {
		return "kind"
	}
	if want.K == "object" {
		for _, f := range d.AllFields(t) {
			w, g := want.Get(f.Name), got.Get(f.Name)
			switch {
			case w == nil && g == nil:
			case w == nil:
				return "unset-arrived-set"
			case g == nil:
				return "set-arrived-unset"
			case !w.Equal(g):
				if w.K == "object" || w.K == "array" || w.K == "map" {
					return diffClass(d, &f.A.T, w, g)
				}
				return "value"
			}
		}
	}
	if want.K == "array" && len(want.Elems) != len(got.Elems) {
		return "array-length"
	}
	if want.K == "map" && len(want.Keys) != len(got.Keys) {
		return "map-size"
	}
	return "value"
}
