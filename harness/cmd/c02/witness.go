package main

// Hand-written witness design and exchanges: one small design whose methods put
// attributes of every kind in every location, and for each recorded loss class
// (known_findings.json, property C02 / C03) the minimal exchanges that
// re-demonstrate it on every run. Each exchange changes exactly one attribute away
// from a transport-safe base value.

import (
	dg "verifharness/designgen"
)

func str() dg.Type   { return dg.Prim("String") }
func intT() dg.Type  { return dg.Prim("Int") }
func boolT() dg.Type { return dg.Prim("Boolean") }

func me(attr, wire string) dg.MapEntry { return dg.MapEntry{Attr: attr, Wire: wire} }

// witnessDesign builds the design used by the witness streams (and by the fixed,
// seed-independent part of the main streams: every location x type class pair occurs).
func witnessDesign() *dg.Design {
	obj := func(fs ...*dg.Field) *dg.Attr { a := dg.A(dg.Obj(fs...)); return &a }
	get := func(p string) []dg.Route { return []dg.Route{{Verb: "GET", Path: p}} }
	ok := obj(dg.F("ok", boolT()))
	svc := &dg.Service{Name: "wit", BasePath: "/w"}
	add := func(m *dg.Method) { svc.Methods = append(svc.Methods, m) }

	add(&dg.Method{Name: "qry",
		Payload: obj(dg.F("os", str()), dg.Req("rs", str()), dg.F("ds", str()).Def("dflt"),
			dg.F("oi", intT()), dg.F("di", intT()).Def(5), dg.F("db", boolT()).Def(true),
			dg.F("sa", dg.ArrayOf(dg.A(str()))), dg.F("ia", dg.ArrayOf(dg.A(dg.Prim("Int64")))),
			dg.F("m", dg.MapOf(dg.A(str()), dg.A(str()))), dg.F("of", dg.Prim("Float64")), dg.F("ou", dg.Prim("UInt32")),
			dg.F("fa", dg.ArrayOf(dg.A(dg.Prim("Float64")))), dg.F("ba", dg.ArrayOf(dg.A(boolT()))), dg.F("mf", dg.MapOf(dg.A(str()), dg.A(dg.Prim("Float32"))))),
		Result: ok,
		HTTP: &dg.HTTPMap{Routes: get("/q"), Params: []dg.MapEntry{me("os", "Os_q"), me("rs", ""), me("ds", ""), me("oi", ""), me("di", "Di_q"),
			me("db", ""), me("sa", ""), me("ia", "Ia_q"), me("m", ""), me("of", ""), me("ou", ""), me("fa", ""), me("ba", "Ba_q"), me("mf", "")}}})

	add(&dg.Method{Name: "hdr",
		Payload: obj(dg.F("oh", str()), dg.Req("rh", str()), dg.F("dh", str()).Def("dflt"), dg.F("ah", dg.ArrayOf(dg.A(str()))),
			dg.F("ih", dg.Prim("Int32")), dg.F("bh", boolT()), dg.F("fh", dg.Prim("Float32")), dg.F("uh", dg.ArrayOf(dg.A(dg.Prim("UInt64"))))),
		Result: ok,
		HTTP: &dg.HTTPMap{Routes: get("/h"), Headers: []dg.MapEntry{me("oh", "X-Oh"), me("rh", "X-Rh"), me("dh", "X-Dh"), me("ah", "X-Ah"),
			me("ih", "x-ih"), me("bh", "X-Bh"), me("fh", "X-Fh"), me("uh", "X-Uh")}}})

	add(&dg.Method{Name: "cky",
		Payload: obj(dg.F("oc", str()), dg.Req("rc", str()), dg.F("dc", str()).Def("dflt")),
		Result:  ok,
		HTTP:    &dg.HTTPMap{Routes: get("/c"), Cookies: []dg.MapEntry{me("oc", "oc_ck"), me("rc", "rc_ck"), me("dc", "dc_ck")}}})

	add(&dg.Method{Name: "pth",
		Payload: obj(dg.Req("ps", str()), dg.Req("pn", dg.Prim("Int64")), dg.F("note", str())),
		Result:  ok,
		HTTP:    &dg.HTTPMap{Routes: get("/p/{ps}/n/{pn}"), Params: []dg.MapEntry{me("note", "")}}})

	add(&dg.Method{Name: "parr",
		Payload: obj(dg.Req("pa", dg.ArrayOf(dg.A(str())))),
		Result:  ok,
		HTTP:    &dg.HTTPMap{Routes: get("/pa/{pa}")}})

	add(&dg.Method{Name: "pint",
		Payload: obj(dg.Req("pia", dg.ArrayOf(dg.A(intT())))),
		Result:  ok,
		HTTP:    &dg.HTTPMap{Routes: get("/pi/{pia}")}})

	add(&dg.Method{Name: "bdy",
		Payload: obj(dg.F("dbi", intT()).Def(5), dg.F("dbs", str()).Def("dflt"), dg.F("dbb", boolT()).Def(true),
			dg.F("oa", dg.ArrayOf(dg.A(str()))), dg.Req("ra", dg.ArrayOf(dg.A(intT()))), dg.F("note", str()), dg.F("om", dg.MapOf(dg.A(str()), dg.A(intT())))),
		Result: ok,
		HTTP:   &dg.HTTPMap{Routes: []dg.Route{{Verb: "POST", Path: "/b"}}}})

	// explicit inline body over primitive attributes (repaired by d880aed: part of the fixed corpus)
	add(&dg.Method{Name: "inl",
		Payload: obj(dg.Req("tok", str()), dg.F("note", str()), dg.F("hq", str()), dg.F("qq", intT())),
		Result:  ok,
		HTTP: &dg.HTTPMap{Routes: []dg.Route{{Verb: "POST", Path: "/inl"}}, Headers: []dg.MapEntry{me("hq", "X-Hq")}, Params: []dg.MapEntry{me("qq", "")},
			Body: &dg.BodySpec{Attrs: []string{"tok", "note"}}}})

	add(&dg.Method{Name: "res",
		Payload: nil,
		Result: obj(dg.F("hs", str()), dg.F("cs", str()), dg.F("dz", intT()).Def(5), dg.F("dzs", str()).Def("dflt"),
			dg.F("arr", dg.ArrayOf(dg.A(str()))), dg.F("ah", dg.ArrayOf(dg.A(str()))), dg.F("ih", dg.Prim("Int64")), dg.Req("name", str()), dg.F("kind", str())),
		HTTP: &dg.HTTPMap{Routes: get("/r"), Responses: []dg.Response{
			{Status: 202, Tag: []string{"kind", "acc"}, Headers: []dg.MapEntry{me("hs", "X-Hs"), me("ah", "X-Ah"), me("ih", "X-Ih")}, Cookies: []dg.MapEntry{me("cs", "cs_rck")}},
			{Status: 200, Headers: []dg.MapEntry{me("hs", "X-Hs"), me("ah", "X-Ah"), me("ih", "X-Ih")}, Cookies: []dg.MapEntry{me("cs", "cs_rck")}}}}})

	// tag on a required (by-value) attribute, both responses without headers
	add(&dg.Method{Name: "rst",
		Payload: nil,
		Result:  obj(dg.Req("kind", str()), dg.F("n", intT())),
		HTTP: &dg.HTTPMap{Routes: get("/rst"), Responses: []dg.Response{
			{Status: 200}, {Status: 201, Tag: []string{"kind", "acc"}}}}})

	add(&dg.Method{Name: "resd",
		Payload: nil,
		Result:  obj(dg.F("dh", intT()).Def(5), dg.Req("name", str())),
		HTTP:    &dg.HTTPMap{Routes: get("/rd"), Responses: []dg.Response{{Status: 200, Headers: []dg.MapEntry{me("dh", "X-Dh")}}}}})

	return &dg.Design{Name: "witness", Services: []*dg.Service{svc}, Features: []string{"witness_design"}}
}

// ---- value helpers ----

func vS(s string) *dg.Val  { return &dg.Val{K: "string", S: s} }
func vI(i int64) *dg.Val   { return &dg.Val{K: "int", I: i} }
func vU(u uint64) *dg.Val  { return &dg.Val{K: "uint", U: u} }
func vB(b bool) *dg.Val    { return &dg.Val{K: "bool", B: b} }
func vF(f float64) *dg.Val { return &dg.Val{K: "float", F: f} }
func vA(es ...*dg.Val) *dg.Val {
	return &dg.Val{K: "array", Elems: append([]*dg.Val{}, es...)}
}
func vM(kv ...*dg.Val) *dg.Val {
	m := &dg.Val{K: "map", Keys: []*dg.Val{}, Elems: []*dg.Val{}}
	for i := 0; i+1 < len(kv); i += 2 {
		m.Keys = append(m.Keys, kv[i])
		m.Elems = append(m.Elems, kv[i+1])
	}
	return m
}
func vO(kv ...any) *dg.Val {
	o := &dg.Val{K: "object", Names: []string{}, Elems: []*dg.Val{}}
	for i := 0; i+1 < len(kv); i += 2 {
		o.Names = append(o.Names, kv[i].(string))
		o.Elems = append(o.Elems, kv[i+1].(*dg.Val))
	}
	return o
}

// witnessCase is one exchange of a witness (or fixed) stream.
type witnessCase struct {
	Service string // "" = any service of the design
	Method  string
	Payload *dg.Val
	Result  *dg.Val
	View    string // view the service selects for a viewed result ("" = default)
	Expect  string // signature the exchange must fail with ("" = must pass: fixed corpus of the main stream)
}

// safe base values per method (every attribute set, all inside wire_safe)
func baseQ() *dg.Val {
	return vO("os", vS("abc"), "rs", vS("x1"), "ds", vS("Hello"), "oi", vI(-7), "di", vI(9), "db", vB(false),
		"sa", vA(vS("a"), vS("b c")), "ia", vA(vI(1), vI(-2)), "m", vM(vS("k1"), vS("v 1"), vS("k2"), vS("v&2")), "of", vF(2.5), "ou", vU(7),
		"fa", vA(vF(-0.5), vF(3), vF(1000.5)), "ba", vA(vB(true), vB(false)), "mf", vM(vS("x"), vF(1.5)))
}
func baseH() *dg.Val {
	return vO("oh", vS("abc"), "rh", vS("x1"), "dh", vS("Hello"), "ah", vA(vS("a"), vS("b c")), "ih", vI(-3), "bh", vB(true), "fh", vF(-2.5), "uh", vA(vU(18446744073709551615), vU(0)))
}
func baseC() *dg.Val { return vO("oc", vS("abc"), "rc", vS("x1"), "dc", vS("Hello")) }
func baseP() *dg.Val { return vO("ps", vS("abc"), "pn", vI(-12), "note", vS("n")) }
func baseB() *dg.Val {
	return vO("dbi", vI(9), "dbs", vS("Hello"), "dbb", vB(true), "oa", vA(vS("a")), "ra", vA(vI(1)), "note", vS("n"), "om", vM(vS("k"), vI(1)))
}
func baseR() *dg.Val {
	return vO("hs", vS("abc"), "cs", vS("x1"), "dz", vI(9), "dzs", vS("Hello"), "arr", vA(vS("a")), "ah", vA(vS("a")), "ih", vI(-5), "name", vS("nm"), "kind", vS("plain"))
}

func with(v *dg.Val, name string, x *dg.Val) *dg.Val {
	c := v.Clone()
	if x == nil {
		c.Unset(name)
	} else {
		c.Set(name, x)
	}
	return c
}

// fixedCases: seed-independent exchanges that must PASS (part of the main stream):
// every location x type class of the witness design with safe values, optional
// attributes set and unset, boundary integers.
func fixedCases() []witnessCase {
	okRes := vO("ok", vB(true))
	var cs []witnessCase
	p := func(m string, v *dg.Val) { cs = append(cs, witnessCase{Method: m, Payload: v, Result: okRes}) }
	p("qry", baseQ())
	p("qry", vO("rs", vS("only"), "di", vI(3), "db", vB(false)))
	p("qry", with(with(baseQ(), "oi", vI(9223372036854775807)), "ia", vA(vI(-9223372036854775808), vI(9223372036854775807))))
	p("qry", with(with(baseQ(), "os", vS("100% a/b?x=1&y=2#f+g é")), "sa", vA(vS("é→"), vS("q?k=v&z"), vS("x+y"))))
	p("qry", with(with(baseQ(), "m", vM(vS("a b"), vS("%41"), vS("k;2"), vS("semi;colon"))), "ou", vU(4294967295)))
	p("hdr", baseH())
	p("hdr", vO("rh", vS("only")))
	p("hdr", with(with(baseH(), "oh", vS("in ner  space, comma; é")), "ih", vI(-2147483648)))
	p("cky", baseC())
	p("cky", vO("rc", vS("only")))
	p("cky", with(baseC(), "oc", vS("sp ace,comma")))
	p("pth", baseP())
	p("pth", with(with(baseP(), "ps", vS("a b+c;d,e:é@$&=")), "pn", vI(-9223372036854775808)))
	p("parr", vO("pa", vA(vS("a"), vS("b"))))
	p("parr", vO("pa", vA(vS("é"), vS("x+y"), vS("%41"), vS("a/b"))))
	p("pint", vO("pia", vA(vI(1), vI(-2), vI(3))))
	p("inl", vO("tok", vS("t1"), "note", vS("n1"), "hq", vS("h1"), "qq", vI(4)))
	p("inl", vO("tok", vS("only")))
	p("inl", vO("tok", vS("a b%41/\"q\""), "note", vS("é→"), "qq", vI(-9)))
	p("bdy", baseB())
	p("bdy", vO("ra", vA(vI(0))))
	p("bdy", with(with(baseB(), "note", vS("")), "oa", vA(vS(""), vS(" lead"), vS("\"quoted\"\\"))))
	r := func(m string, v *dg.Val) { cs = append(cs, witnessCase{Method: m, Result: v}) }
	r("res", baseR())
	r("res", vO("name", vS("only")))
	r("res", with(baseR(), "kind", vS("acc")))
	r("res", with(with(baseR(), "hs", vS("in ner, é")), "cs", vS("sp ace,comma")))
	r("resd", vO("dh", vI(7), "name", vS("nm")))
	r("rst", vO("kind", vS("acc"), "n", vI(1)))
	r("rst", vO("kind", vS("other")))
	r("rst", vO("kind", vS("ACC"), "n", vI(0)))
	return cs
}

// witnessCases: the exchanges that re-demonstrate the recorded findings.
func witnessCases(prop string) []witnessCase {
	okRes := vO("ok", vB(true))
	var cs []witnessCase
	p := func(m string, v *dg.Val, sig string) {
		cs = append(cs, witnessCase{Method: m, Payload: v, Result: okRes, Expect: sig})
	}
	r := func(m string, v *dg.Val, sig string) { cs = append(cs, witnessCase{Method: m, Result: v, Expect: sig}) }
	if prop == "C02" {
		p("qry", with(baseQ(), "os", vS("")), "empty-string-arrives-unset")
		p("hdr", with(baseH(), "oh", vS("")), "empty-string-arrives-unset")
		p("cky", with(baseC(), "oc", vS("")), "empty-string-arrives-unset")
		p("qry", with(baseQ(), "rs", vS("")), "required-empty-string-rejected")
		p("hdr", with(baseH(), "rh", vS("")), "required-empty-string-rejected")
		p("qry", with(baseQ(), "ds", vS("")), "default-overrides-zero")
		p("hdr", with(baseH(), "dh", vS("")), "default-overrides-zero")
		p("cky", with(baseC(), "dc", vS("")), "default-overrides-zero")
		p("bdy", with(baseB(), "dbi", vI(0)), "default-overrides-zero")
		p("bdy", with(baseB(), "dbs", vS("")), "default-overrides-zero")
		p("bdy", with(baseB(), "dbb", vB(false)), "default-overrides-zero")
		p("parr", vO("pa", vA(vS("a,b"), vS("c"))), "path-array-comma-splits")
		p("parr", vO("pa", vA(vS("a b"))), "path-array-space-becomes-plus")
		p("pth", with(baseP(), "ps", vS("a/b")), "path-slash-not-escaped")
		p("pth", with(baseP(), "ps", vS("%41")), "path-percent-decoded-twice")
		p("pth", with(baseP(), "ps", vS("a%2Fb")), "path-percent-decoded-twice")
		p("hdr", with(baseH(), "oh", vS("  pad  ")), "header-value-trimmed")
		p("hdr", with(baseH(), "ah", vA(vS(" lead"), vS("trail\t"))), "header-value-trimmed")
		p("cky", with(baseC(), "oc", vS("a;b c,d\"é")), "cookie-value-sanitised")
		p("qry", with(baseQ(), "sa", vA()), "empty-collection-arrives-nil")
		p("hdr", with(baseH(), "ah", vA()), "empty-collection-arrives-nil")
		p("bdy", with(baseB(), "oa", vA()), "empty-collection-arrives-nil")
		p("qry", with(baseQ(), "m", vM()), "empty-collection-arrives-nil")
		p("qry", vO("rs", vS("x1"), "db", vB(false)), "unset-defaulted-param-sent-as-zero")
		p("qry", vO("rs", vS("x1"), "di", vI(3)), "unset-defaulted-param-sent-as-zero")
		p("qry", with(baseQ(), "m", vM(vS("a]b"), vS("v"))), "query-map-key-bracket-truncated")
		p("parr", vO("pa", vA()), "empty-path-value-not-routed")
		p("parr", vO("pa", vA(vS(""))), "empty-path-value-not-routed")
	}
	if prop == "C03" {
		r("res", with(baseR(), "hs", vS("  pad  ")), "header-value-trimmed")
		r("res", with(baseR(), "cs", vS("a;b c,d\"é")), "cookie-value-sanitised")
		r("res", with(baseR(), "hs", vS("")), "empty-string-arrives-unset")
		r("res", with(baseR(), "cs", vS("")), "empty-string-arrives-unset")
		r("res", with(baseR(), "dz", vI(0)), "default-overrides-zero")
		r("res", with(baseR(), "dzs", vS("")), "default-overrides-zero")
		r("res", with(baseR(), "ah", vA(vS("a"), vS("b"))), "response-header-array-joined")
		r("res", with(baseR(), "arr", vA()), "empty-collection-arrives-nil")
		r("resd", vO("name", vS("nm")), "default-in-response-header-sent-as-zero")
		r("res", vO("name", vS("nm"), "kind", vS("acc")), "tagged-response-unset-header-panics")
	}
	return cs
}
