// content.go - the "codec" correspondence stream: goa's http/encoding.go functions
// (ResponseEncoder with SetContentType, ResponseDecoder, RequestEncoder, RequestDecoder,
// the text codec) and mime.ParseMediaType's media type are PROBED directly, in a small
// program compiled against the repository under test, on generated content-type strings;
// the answers are compared inside Coq with resp_encoder / resp_decoder / req_encoder /
// req_decoder / media_type_part / text_encode / text_decode (Run.v codec_mismatches).
package main

import (
	"encoding/json"
	"fmt"
	"os"
	"os/exec"
	"path/filepath"
	"strings"

	"verifharness/tierb"
	"verifharness/vh"
)

type probeIn struct {
	Kind   string `json:"kind"` // respenc respdec reqenc reqdec parse textenc textdec
	Ct     string `json:"ct,omitempty"`
	Accept string `json:"accept,omitempty"`
	H      string `json:"h,omitempty"`
	S      string `json:"s,omitempty"`
	Tv     string `json:"tv,omitempty"` // str bytes other
}

type probeOut struct {
	Codec       string `json:"codec"` // json xml gob text nil unsupported
	Header      string `json:"header"`
	Unsupported string `json:"unsupported"`
	CtOk        bool   `json:"ct_ok"`
	CtMt        string `json:"ct_mt"` // media type ParseMediaType returned for ct (also with an error)
	AOk         bool   `json:"a_ok"`
	HOk         bool   `json:"h_ok"`
	SOk         bool   `json:"s_ok"`
	SMt         string `json:"s_mt"`
	Err         bool   `json:"err"`
	Val         string `json:"val"`
	Panic       string `json:"panic,omitempty"`
}

const probeSrc = `package main

import (
	"context"
	"encoding/json"
	"fmt"
	"io"
	"mime"
	"net/http"
	"net/http/httptest"
	"os"
	"reflect"
	"strings"

	goahttp "goa.design/goa/v3/http"
)

type In struct {
	Kind, Ct, Accept, H, S, Tv string
}
type Out struct {
	Codec       string ` + "`json:\"codec\"`" + `
	Header      string ` + "`json:\"header\"`" + `
	Unsupported string ` + "`json:\"unsupported\"`" + `
	CtOk        bool   ` + "`json:\"ct_ok\"`" + `
	CtMt        string ` + "`json:\"ct_mt\"`" + `
	AOk         bool   ` + "`json:\"a_ok\"`" + `
	HOk         bool   ` + "`json:\"h_ok\"`" + `
	SOk         bool   ` + "`json:\"s_ok\"`" + `
	SMt         string ` + "`json:\"s_mt\"`" + `
	Err         bool   ` + "`json:\"err\"`" + `
	Val         string ` + "`json:\"val\"`" + `
	Panic       string ` + "`json:\"panic,omitempty\"`" + `
}

func name(v any) (string, string) {
	if v == nil || (reflect.ValueOf(v).Kind() == reflect.Ptr && reflect.ValueOf(v).IsNil()) {
		return "nil", ""
	}
	t := fmt.Sprintf("%T", v)
	switch {
	case strings.HasPrefix(t, "*json."):
		return "json", ""
	case strings.HasPrefix(t, "*xml."):
		return "xml", ""
	case strings.HasPrefix(t, "*gob."):
		return "gob", ""
	case strings.HasSuffix(t, ".textEncoder"), strings.HasSuffix(t, ".textDecoder"):
		return "text", ""
	case strings.HasSuffix(t, ".unsupportedDecoder"):
		return "unsupported", reflect.ValueOf(v).Elem().FieldByName("ct").String()
	}
	return t, ""
}

func ok(s string) bool { _, _, err := mime.ParseMediaType(s); return err == nil }

func one(in In) (o Out) {
	defer func() {
		if r := recover(); r != nil {
			o.Panic = fmt.Sprint(r)
		}
	}()
	switch in.Kind {
	case "respenc":
		ctx := context.WithValue(context.Background(), goahttp.AcceptTypeKey, in.Accept)
		if in.Ct != "" {
			ctx = context.WithValue(ctx, goahttp.ContentTypeKey, in.Ct)
		}
		w := httptest.NewRecorder()
		if in.H != "" {
			w.Header().Set("Content-Type", in.H)
		}
		enc := goahttp.ResponseEncoder(ctx, w)
		o.Codec, _ = name(enc)
		o.Header = w.Header().Get("Content-Type")
		mt, _, err := mime.ParseMediaType(in.Ct)
		o.CtOk, o.CtMt, o.AOk = err == nil, mt, ok(in.Accept)
	case "respdec":
		resp := &http.Response{Header: http.Header{}, Body: io.NopCloser(strings.NewReader(""))}
		if in.H != "" {
			resp.Header.Set("Content-Type", in.H)
		}
		o.Codec, _ = name(goahttp.ResponseDecoder(resp))
		o.HOk = ok(in.H)
	case "reqenc":
		r, _ := http.NewRequest("POST", "http://localhost/x", nil)
		if in.H != "" {
			r.Header.Set("Content-Type", in.H)
		}
		o.Codec, _ = name(goahttp.RequestEncoder(r))
		o.Header = r.Header.Get("Content-Type")
	case "reqdec":
		r, _ := http.NewRequest("POST", "http://localhost/x", strings.NewReader(""))
		if in.H != "" {
			r.Header.Set("Content-Type", in.H)
		}
		o.Codec, o.Unsupported = name(goahttp.RequestDecoder(r))
		o.HOk = ok(in.H)
	case "parse":
		mt, _, err := mime.ParseMediaType(in.S)
		o.SOk, o.SMt = err == nil, mt
	case "textenc":
		ctx := context.WithValue(context.Background(), goahttp.ContentTypeKey, "text/plain")
		w := httptest.NewRecorder()
		enc := goahttp.ResponseEncoder(ctx, w)
		var v any
		switch in.Tv {
		case "str":
			v = in.S
		case "bytes":
			v = []byte(in.S)
		default:
			v = 42
		}
		o.Err = enc.Encode(v) != nil
		o.Val = w.Body.String()
	case "textdec":
		resp := &http.Response{Header: http.Header{"Content-Type": []string{"text/plain"}}, Body: io.NopCloser(strings.NewReader(in.S))}
		dec := goahttp.ResponseDecoder(resp)
		switch in.Tv {
		case "str":
			var s string
			o.Err = dec.Decode(&s) != nil
			o.Val = s
		case "bytes":
			var s []byte
			o.Err = dec.Decode(&s) != nil
			o.Val = string(s)
		default:
			var n int
			o.Err = dec.Decode(&n) != nil
		}
	}
	return o
}

func main() {
	bs, err := os.ReadFile(os.Args[1])
	if err != nil {
		panic(err)
	}
	var ins []In
	if err := json.Unmarshal(bs, &ins); err != nil {
		panic(err)
	}
	outs := make([]Out, len(ins))
	for i, in := range ins {
		outs[i] = one(in)
	}
	ob, _ := json.Marshal(outs)
	if err := os.WriteFile(os.Args[2], ob, 0o644); err != nil {
		panic(err)
	}
}
`

// content-type strings: the names goa knows, structured-syntax suffixes, vendor types, upper
// case, parameters (well and badly formed), blanks, and ASCII noise (the model's ToLower /
// TrimSpace are the ASCII ones: generated strings stay below 0x7f)
func genContentType(r *vh.RNG) string {
	bases := []string{"application/json", "application/xml", "application/gob", "text/html", "text/plain", "",
		"application/vnd.goa.thing", "application/vnd.api+json", "application/merge-patch+json", "application/atom+xml", "image/svg+xml",
		"application/x+gob", "application/vnd.note+txt", "application/xhtml+html", "text/plain+json", "text/csv", "*/*", "json", "text/",
		"application/problem+json+xml", "+json", "+txt", "application/JSON", "Text/Plain", "APPLICATION/VND.X+XML", "a+b+c", "application/json+", "x/y+"}
	params := []string{"", "", "", "; charset=utf-8", ";charset=utf-8", " ; q=0.9", "; a=b; c=\"d e\"", ";", "; bad", "; =x", " ;", ";;", "; charset", "\t; v=1"}
	pads := []string{"", "", "", " ", "\t", "  "}
	s := pads[r.Intn(len(pads))] + bases[r.Intn(len(bases))] + pads[r.Intn(len(pads))] + params[r.Intn(len(params))]
	if r.Chance(1, 6) {
		const alpha = "ab/+;= \tJxmltjsongb-.\"*,"
		n := 1 + r.Intn(10)
		var sb strings.Builder
		for i := 0; i < n; i++ {
			sb.WriteByte(alpha[r.Intn(len(alpha))])
		}
		if r.Chance(1, 2) {
			s = sb.String()
		} else {
			s += sb.String()
		}
	}
	return s
}

func coqB(s string) string {
	ns := make([]string, len(s))
	for i := 0; i < len(s); i++ {
		ns[i] = fmt.Sprint(s[i])
	}
	return "(b [" + strings.Join(ns, ";") + "])"
}

func coqCodec(c string) (string, bool) {
	switch c {
	case "json":
		return "CJson", true
	case "xml":
		return "CXml", true
	case "gob":
		return "CGob", true
	case "text":
		return "CText", true
	}
	return "", false
}

// contentProbe builds and runs the probe in the batch directory (its go.mod points at the
// repository under test) and returns the Coq cases with their descriptions.
func contentProbe(b *tierb.Batch, rng *vh.RNG, n int, res *vh.Result) (lines []string, info []any, err error) {
	var ins []probeIn
	tvs := []string{"str", "bytes", "other"}
	texts := []string{"", "hello", " lead and trail \t", "a;b,c \"q\" %41", "line1\nline2\r\n", "\x00\x01\x7f", "{\"json\":1}"}
	for i := 0; i < n; i++ {
		switch i % 8 {
		case 0, 1:
			in := probeIn{Kind: "respenc", Accept: genContentType(rng)}
			if rng.Chance(1, 2) {
				in.Ct, in.Accept = genContentType(rng), ""
				if rng.Chance(1, 3) {
					in.Accept = genContentType(rng)
				}
			}
			if rng.Chance(1, 3) {
				in.H = genContentType(rng)
			}
			ins = append(ins, in)
		case 2:
			ins = append(ins, probeIn{Kind: "respdec", H: genContentType(rng)})
		case 3:
			ins = append(ins, probeIn{Kind: "reqdec", H: genContentType(rng)})
		case 4:
			ins = append(ins, probeIn{Kind: "reqenc", H: genContentType(rng)})
		case 5:
			ins = append(ins, probeIn{Kind: "parse", S: genContentType(rng)})
		case 6:
			ins = append(ins, probeIn{Kind: "textenc", Tv: tvs[rng.Intn(3)], S: texts[rng.Intn(len(texts))]})
		case 7:
			ins = append(ins, probeIn{Kind: "textdec", Tv: tvs[rng.Intn(3)], S: texts[rng.Intn(len(texts))]})
		}
	}
	dir := filepath.Join(b.Dir, "codecprobe")
	if err := os.MkdirAll(dir, 0o755); err != nil {
		return nil, nil, err
	}
	if err := os.WriteFile(filepath.Join(dir, "main.go"), []byte(probeSrc), 0o644); err != nil {
		return nil, nil, err
	}
	// the probe's field names are the Go ones (Kind, Ct, ...): encode accordingly
	type goIn struct{ Kind, Ct, Accept, H, S, Tv string }
	gins := make([]goIn, len(ins))
	for i, in := range ins {
		gins[i] = goIn{in.Kind, in.Ct, in.Accept, in.H, in.S, in.Tv}
	}
	ib, _ := json.Marshal(gins)
	inPath, outPath := filepath.Join(b.Dir, "codec_in.json"), filepath.Join(b.Dir, "codec_out.json")
	if err := os.WriteFile(inPath, ib, 0o644); err != nil {
		return nil, nil, err
	}
	bin := filepath.Join(b.Dir, "codecprobe.bin")
	cmd := exec.Command("go", "build", "-o", bin, "./codecprobe")
	cmd.Dir, cmd.Env = b.Dir, b.Env
	if out, err := cmd.CombinedOutput(); err != nil {
		return nil, nil, fmt.Errorf("the content-type probe does not build against the repository: %v\n%s", err, out)
	}
	cmd = exec.Command(bin, inPath, outPath)
	cmd.Dir, cmd.Env = b.Dir, b.Env
	if out, err := cmd.CombinedOutput(); err != nil {
		return nil, nil, fmt.Errorf("the content-type probe failed: %v\n%s", err, out)
	}
	ob, err := os.ReadFile(outPath)
	if err != nil {
		return nil, nil, err
	}
	var outs []probeOut
	if err := json.Unmarshal(ob, &outs); err != nil || len(outs) != len(ins) {
		return nil, nil, fmt.Errorf("the content-type probe wrote %d answers for %d questions: %v", len(outs), len(ins), err)
	}
	add := func(term string, in probeIn, o probeOut) {
		lines = append(lines, fmt.Sprintf("(%d%%N, %s)", len(lines), term))
		info = append(info, map[string]any{"question": in, "answer": o})
		res.Count("codec_cases")
		res.Count("codec_kind=" + in.Kind)
	}
	for i, in := range ins {
		o := outs[i]
		if o.Panic != "" {
			res.Fail("content-type-function-panics", fmt.Sprintf("%s panicked on %+v: %s", in.Kind, in, o.Panic), map[string]any{"probe": in})
			continue
		}
		switch in.Kind {
		case "respenc":
			oc := "None"
			if c, ok := coqCodec(o.Codec); ok {
				oc = "(Some " + c + ")"
			} else if o.Codec != "nil" {
				res.Fail("content-type-unknown-codec", fmt.Sprintf("ResponseEncoder returned a %s", o.Codec), map[string]any{"probe": in})
				continue
			}
			pv := "POk"
			if !o.CtOk {
				pv = "(PErr " + coqB(o.CtMt) + ")"
			}
			add(fmt.Sprintf("CRespEnc %s %s %s %s %s %s %s", coqB(in.Ct), pv, coqB(in.Accept), vh.CoqBool(o.AOk), coqB(in.H), oc, coqB(o.Header)), in, o)
		case "respdec":
			if c, ok := coqCodec(o.Codec); ok {
				add(fmt.Sprintf("CRespDec %s %s %s", coqB(in.H), vh.CoqBool(o.HOk), c), in, o)
			}
		case "reqenc":
			if c, ok := coqCodec(o.Codec); ok {
				add(fmt.Sprintf("CReqEnc %s %s %s", coqB(in.H), c, coqB(o.Header)), in, o)
			}
		case "reqdec":
			if c, ok := coqCodec(o.Codec); ok {
				add(fmt.Sprintf("CReqDec %s %s (RDec %s)", coqB(in.H), vh.CoqBool(o.HOk), c), in, o)
			} else if o.Codec == "unsupported" {
				add(fmt.Sprintf("CReqDec %s %s (RUnsupported %s)", coqB(in.H), vh.CoqBool(o.HOk), coqB(o.Unsupported)), in, o)
			}
		case "parse":
			if o.SOk {
				add(fmt.Sprintf("CParse %s %s", coqB(in.S), coqB(o.SMt)), in, o)
			}
		case "textenc":
			tv := map[string]string{"str": "(TvStr " + coqB(in.S) + ")", "bytes": "(TvBytes " + coqB(in.S) + ")", "other": "TvOther"}[in.Tv]
			obs := "None"
			if !o.Err {
				obs = "(Some " + coqB(o.Val) + ")"
			}
			add(fmt.Sprintf("CTextEnc %s %s", tv, obs), in, o)
		case "textdec":
			tg := map[string]string{"str": "TgStr", "bytes": "TgBytes", "other": "TgOther"}[in.Tv]
			obs := "None"
			if !o.Err {
				obs = map[string]string{"str": "(Some (TvStr " + coqB(o.Val) + "))", "bytes": "(Some (TvBytes " + coqB(o.Val) + "))"}[in.Tv]
			}
			add(fmt.Sprintf("CTextDec %s %s %s", tg, coqB(in.S), obs), in, o)
		}
	}
	return lines, info, nil
}
