package main

// Printing of the correspondence cases as Coq terms for coq/Transport/Run.v:
//
//	cases_partition.txt   N * pcase   raw mapping (designgen) + goa's finalised partition (expr.Root)
//	cases_rpartition.txt  N * rpcase  same per success response
//	cases_request.txt     N * xcase   raw endpoint, payload given, tapped wire, what happened   (C02)
//	cases_response.txt    N * rcase   raw responses, result returned, tapped wire, what the client got (C03)
//
// The raw side is computed from the design description alone (designgen types), the
// observed side from goa (expr) and from the running generated code (tap, dumps).

import (
	"encoding/base64"
	"encoding/hex"
	"encoding/json"
	"fmt"
	"math"
	"net/textproto"
	"os"
	"path"
	"path/filepath"
	"sort"
	"strings"

	dg "verifharness/designgen"
	"verifharness/tierb"
	"verifharness/tierb/rt"
	"verifharness/vh"
)

type modelCases struct {
	prop       string
	partition  []string
	rpartition []string
	request    []string
	response   []string
	reqInfo    []any
	respInfo   []any
	partInfo   []any
	rpartInfo  []any
	codec      []string
	codecInfo  []any
	seenPart   map[string]bool
}

func newModelCases(prop string) *modelCases {
	return &modelCases{prop: prop, seenPart: map[string]bool{}}
}

func cb(s string) string { return vh.CoqBytes(s) }

var paramPrim = map[string]string{
	"Boolean": "TBool", "Int": "(TInt 64)", "Int32": "(TInt 32)", "Int64": "(TInt 64)",
	"UInt": "(TUInt 64)", "UInt32": "(TUInt 32)", "UInt64": "(TUInt 64)",
	"Float32": "TFloat", "Float64": "TFloat", "String": "TStr",
}

// paramTy: the model's type class of an attribute that travels outside the body ("" = outside the fragment).
func paramTy(t *dg.Type) string {
	switch t.Kind {
	case "prim":
		if p, ok := paramPrim[t.Prim]; ok {
			return "(TyPrim " + p + ")"
		}
	case "array":
		if t.Elem != nil && t.Elem.T.Kind == "prim" {
			if p, ok := paramPrim[t.Elem.T.Prim]; ok {
				return "(TyArr " + p + ")"
			}
		}
	case "map":
		if t.Key != nil && t.Elem != nil && t.Key.T.Kind == "prim" && t.Key.T.Prim == "String" && t.Elem.T.Kind == "prim" {
			if p, ok := paramPrim[t.Elem.T.Prim]; ok {
				return "(TyMap " + p + ")"
			}
		}
	}
	return ""
}

func coqZ(i int64) string {
	if i < 0 {
		return fmt.Sprintf("(%d)%%Z", i)
	}
	return fmt.Sprintf("%d%%Z", i)
}

// halfOf returns 2*f when f is a half-integer in the model's range.
func halfOf(f float64) (int64, bool) {
	k := f * 2
	if k != math.Trunc(k) || math.Abs(k) >= 2000000 {
		return 0, false
	}
	return int64(k), true
}

func pvalTerm(v *dg.Val) (string, bool) {
	switch v.K {
	case "bool":
		return "(VBool " + vh.CoqBool(v.B) + ")", true
	case "int":
		return "(VInt " + coqZ(v.I) + ")", true
	case "uint":
		if v.U > math.MaxInt64 {
			return fmt.Sprintf("(VInt %d%%Z)", v.U), true
		}
		return "(VInt " + coqZ(int64(v.U)) + ")", true
	case "float":
		k, ok := halfOf(v.F)
		return "(VFloat " + coqZ(k) + ")", ok
	case "string":
		return "(S " + cb(v.S) + ")", true
	}
	return "", false
}

// paramVal: value of a parameter-like attribute as an aval term.
func paramVal(v *dg.Val) (string, bool) {
	switch v.K {
	case "array":
		var es []string
		for _, e := range v.Elems {
			t, ok := pvalTerm(e)
			if !ok {
				return "", false
			}
			es = append(es, t)
		}
		return "(AArr " + vh.CoqList(es) + ")", true
	case "map":
		var es []string
		for i := range v.Keys {
			if v.Keys[i].K != "string" {
				return "", false
			}
			t, ok := pvalTerm(v.Elems[i])
			if !ok {
				return "", false
			}
			es = append(es, "ME "+cb(v.Keys[i].S)+" "+t)
		}
		return "(AMap " + vh.CoqList(es) + ")", true
	}
	t, ok := pvalTerm(v)
	return "(APrim " + t + ")", ok
}

// ---- JSON value trees ----

type jv struct {
	k    string // null bool num str arr obj
	b    bool
	s    string
	elem []*jv
	keys []string
}

func (j *jv) term() string {
	switch j.k {
	case "null":
		return "JNull"
	case "bool":
		return "(JBool " + vh.CoqBool(j.b) + ")"
	case "num":
		return "(JN " + cb(j.s) + ")"
	case "str":
		return "(JS " + cb(j.s) + ")"
	case "arr":
		var es []string
		for _, e := range j.elem {
			es = append(es, e.term())
		}
		return "(JArr " + vh.CoqList(es) + ")"
	case "obj":
		var es []string
		for i, e := range j.elem {
			es = append(es, "JF "+cb(j.keys[i])+" "+e.term())
		}
		return "(JObj " + vh.CoqList(es) + ")"
	}
	return "JNull"
}

func (j *jv) sortKeys() {
	if j.k == "obj" {
		idx := make([]int, len(j.keys))
		for i := range idx {
			idx[i] = i
		}
		sort.SliceStable(idx, func(a, b int) bool { return j.keys[idx[a]] < j.keys[idx[b]] })
		ks, es := make([]string, len(idx)), make([]*jv, len(idx))
		for i, x := range idx {
			ks[i], es[i] = j.keys[x], j.elem[x]
		}
		j.keys, j.elem = ks, es
	}
	for _, e := range j.elem {
		e.sortKeys()
	}
}

func numText(x any) string {
	bs, _ := json.Marshal(x)
	return string(bs)
}

// toJ: the JSON value tree of a typed value (what encoding/json writes for the
// generated body types: attribute names as keys, unset omitted, bytes as base64).
func toJ(d *dg.Design, t *dg.Type, v *dg.Val) *jv {
	if v == nil || v.K == "null" {
		return &jv{k: "null"}
	}
	var bt *dg.Type
	if t != nil {
		bt, _ = d.Base(t)
	}
	switch v.K {
	case "bool":
		return &jv{k: "bool", b: v.B}
	case "int":
		return &jv{k: "num", s: fmt.Sprint(v.I)}
	case "uint":
		return &jv{k: "num", s: fmt.Sprint(v.U)}
	case "float":
		if bt != nil && bt.Prim == "Float32" {
			return &jv{k: "num", s: numText(float32(v.F))}
		}
		return &jv{k: "num", s: numText(v.F)}
	case "string":
		return &jv{k: "str", s: v.S}
	case "bytes":
		raw, _ := hex.DecodeString(v.S)
		return &jv{k: "str", s: base64.StdEncoding.EncodeToString(raw)}
	case "array":
		out := &jv{k: "arr"}
		var et *dg.Type
		if bt != nil {
			if bt.Kind == "collection" {
				et = &dg.Type{Kind: "user", Ref: bt.Ref}
			} else if bt.Elem != nil {
				et = &bt.Elem.T
			}
		}
		for _, e := range v.Elems {
			out.elem = append(out.elem, toJ(d, et, e))
		}
		return out
	case "map":
		out := &jv{k: "obj"}
		var et *dg.Type
		if bt != nil && bt.Elem != nil {
			et = &bt.Elem.T
		}
		for i := range v.Keys {
			k := v.Keys[i]
			ks := k.S
			switch k.K {
			case "int":
				ks = fmt.Sprint(k.I)
			case "uint":
				ks = fmt.Sprint(k.U)
			case "float":
				ks = rt.FloatStr(k.F, 64)
			case "bool":
				ks = fmt.Sprint(k.B)
			}
			out.keys = append(out.keys, ks)
			out.elem = append(out.elem, toJ(d, et, v.Elems[i]))
		}
		out.sortKeys()
		return out
	case "object":
		out := &jv{k: "obj"}
		var fs []*dg.Field
		if t != nil {
			fs = d.AllFields(t)
		}
		for i, n := range v.Names {
			var ft *dg.Type
			for _, f := range fs {
				if f.Name == n {
					ft = &f.A.T
				}
			}
			out.keys = append(out.keys, n)
			out.elem = append(out.elem, toJ(d, ft, v.Elems[i]))
		}
		out.sortKeys()
		return out
	}
	return &jv{k: "null"}
}

func fromJSON(x any) *jv {
	switch v := x.(type) {
	case nil:
		return &jv{k: "null"}
	case bool:
		return &jv{k: "bool", b: v}
	case json.Number:
		return &jv{k: "num", s: v.String()}
	case string:
		return &jv{k: "str", s: v}
	case []any:
		out := &jv{k: "arr"}
		for _, e := range v {
			out.elem = append(out.elem, fromJSON(e))
		}
		return out
	case map[string]any:
		out := &jv{k: "obj"}
		for _, k := range vh.SortedKeys(v) {
			out.keys = append(out.keys, k)
			out.elem = append(out.elem, fromJSON(v[k]))
		}
		return out
	}
	return &jv{k: "null"}
}

// wireBody parses a tapped body into a jbody term.
func wireBody(body string, whole bool) (string, bool) {
	if strings.TrimSpace(body) == "" {
		return "BNone", true
	}
	dec := json.NewDecoder(strings.NewReader(body))
	dec.UseNumber()
	var x any
	if err := dec.Decode(&x); err != nil {
		return "", false
	}
	j := fromJSON(x)
	if whole {
		return "(BWhole " + j.term() + ")", true
	}
	if j.k != "obj" {
		return "", false
	}
	var es []string
	for i, e := range j.elem {
		es = append(es, "JF "+cb(j.keys[i])+" "+e.term())
	}
	return "(BObj " + vh.CoqList(es) + ")", true
}

// ---- the raw endpoint (from the design description alone) ----

type rawAttr struct {
	f     *dg.Field
	where string // path query header cookie body (as written in the design)
	wire  string
}

type rawSide struct {
	whole bool
	attrs []rawAttr
	skip  string // reason the endpoint is outside the model's fragment
}

func fullPath(d *dg.Design, s *dg.Service, p string) string {
	fp := path.Join("/", d.BasePath, s.BasePath, p)
	if p != "/" && strings.HasSuffix(p, "/") && fp != "/" {
		fp += "/"
	}
	return fp
}

func routeSegs(fp string) (terms []string, vars []string) {
	for _, seg := range strings.Split(strings.TrimPrefix(fp, "/"), "/") {
		if strings.HasPrefix(seg, "{") && strings.HasSuffix(seg, "}") {
			n := strings.TrimSuffix(strings.TrimPrefix(seg, "{"), "}")
			n = strings.TrimPrefix(n, "*")
			terms = append(terms, "Var "+cb(n))
			vars = append(vars, n)
		} else {
			terms = append(terms, "Lit "+cb(seg))
		}
	}
	return
}

func wireOf(e dg.MapEntry) string {
	if e.Wire == "" {
		return e.Attr
	}
	return e.Wire
}

// inlineBodyIsDefault: the explicit body is the inline form Body(func(){ Attribute… }) listing
// exactly the payload attributes that are mapped nowhere else — the body the model computes.
func inlineBodyIsDefault(d *dg.Design, m *dg.Method, vars []string) bool {
	h := m.HTTP
	if h.Body == nil || h.Body.Attr != "" || h.Body.Empty || m.Payload == nil {
		return false
	}
	if bt, _ := d.Base(&m.Payload.T); bt.Kind != "object" {
		return false
	}
	mapped := map[string]bool{}
	for _, v := range vars {
		mapped[v] = true
	}
	for _, e := range append(append(append([]dg.MapEntry{}, h.Params...), h.Headers...), h.Cookies...) {
		mapped[e.Attr] = true
	}
	listed := map[string]bool{}
	for _, a := range h.Body.Attrs {
		listed[a] = true
	}
	n := 0
	for _, f := range d.AllFields(&m.Payload.T) {
		if !mapped[f.Name] {
			n++
			if !listed[f.Name] {
				return false
			}
		}
	}
	return n == len(h.Body.Attrs)
}

// rawRequest derives the raw request side of a method from designgen data only.
func rawRequest(d *dg.Design, m *dg.Method, vars []string) rawSide {
	var rs rawSide
	h := m.HTTP
	if h == nil {
		rs.skip = "no-http"
		return rs
	}
	if h.MapParams != "" || h.Multipart || h.SkipReq || (h.Body != nil && !inlineBodyIsDefault(d, m, vars)) {
		rs.skip = "mapparams/multipart/skip/body-override"
		return rs
	}
	if m.Payload == nil {
		return rs
	}
	where := map[string][2]string{}
	for _, v := range vars {
		where[v] = [2]string{"path", v}
	}
	for _, e := range h.Params {
		if _, isPath := where[e.Attr]; !isPath {
			where[e.Attr] = [2]string{"query", wireOf(e)}
		}
	}
	for _, e := range h.Headers {
		where[e.Attr] = [2]string{"header", wireOf(e)}
	}
	for _, e := range h.Cookies {
		where[e.Attr] = [2]string{"cookie", wireOf(e)}
	}
	bt, _ := d.Base(&m.Payload.T)
	if bt.Kind != "object" {
		rs.whole = true
		name := ""
		loc := [2]string{"body", ""}
		for n, w := range where {
			name, loc = n, w
		}
		if len(where) > 1 {
			rs.skip = "non-object payload with several mappings"
		}
		f := &dg.Field{Name: name, A: *m.Payload, Required: true}
		rs.attrs = []rawAttr{{f: f, where: loc[0], wire: loc[1]}}
		return rs
	}
	for _, f := range d.AllFields(&m.Payload.T) {
		if f.A.Sec != nil {
			rs.skip = "security attribute"
		}
		ra := rawAttr{f: f, where: "body", wire: f.Name}
		if w, ok := where[f.Name]; ok {
			ra.where, ra.wire = w[0], w[1]
		}
		rs.attrs = append(rs.attrs, ra)
	}
	return rs
}

func defTerm(d *dg.Design, ra rawAttr) (string, bool) {
	if !ra.f.A.HasDef {
		return "None", true
	}
	dv := defVal(normDefault(ra.f.A.Default), &ra.f.A.T)
	if dv == nil || dv.K == "null" {
		return "", false
	}
	if ra.where == "body" {
		return "(Some (AJson " + toJ(d, &ra.f.A.T, dv).term() + "))", true
	}
	t, ok := paramVal(dv)
	return "(Some " + t + ")", ok
}

func rattrTerm(d *dg.Design, ra rawAttr) (string, bool) {
	ty := "TyJson"
	if bt, _ := d.Base(&ra.f.A.T); ra.where == "body" && (bt.Kind == "array" || bt.Kind == "map" || bt.Kind == "collection") {
		ty = "TyJsonColl"
	}
	if ra.where != "body" {
		bt, _ := d.Base(&ra.f.A.T)
		ty = paramTy(bt) // a primitive alias user type travels as its base primitive
		if ty == "" || (strings.HasPrefix(ty, "(TyMap") && ra.where != "query") {
			return "", false
		}
	}
	dt, ok := defTerm(d, ra)
	if !ok {
		return "", false
	}
	return fmt.Sprintf("RA %s %s %s %s", cb(ra.f.Name), ty, vh.CoqBool(ra.f.Required), dt), true
}

func mappedTerms(attrs []rawAttr, where string) string {
	var es []string
	for _, a := range attrs {
		if a.where == where {
			es = append(es, "M "+cb(a.f.Name)+" "+cb(a.wire))
		}
	}
	return vh.CoqList(es)
}

// mappedDeclared lists the mapping entries as declared (order of the design), restricted to one location.
func declared(es []dg.MapEntry, skip map[string]bool) string {
	var out []string
	for _, e := range es {
		if skip[e.Attr] {
			continue
		}
		out = append(out, "M "+cb(e.Attr)+" "+cb(wireOf(e)))
	}
	return vh.CoqList(out)
}

func rawEpTerm(d *dg.Design, s *dg.Service, m *dg.Method) (string, rawSide, bool) {
	fp := fullPath(d, s, m.HTTP.Routes[0].Path)
	segs, vars := routeSegs(fp)
	if strings.Contains(fp, "{*") {
		return "", rawSide{skip: "catch-all route"}, false
	}
	rs := rawRequest(d, m, vars)
	if rs.skip != "" {
		return "", rs, false
	}
	var attrs []string
	for _, a := range rs.attrs {
		t, ok := rattrTerm(d, a)
		if !ok {
			rs.skip = "attribute type outside the fragment: " + a.f.Name
			return "", rs, false
		}
		attrs = append(attrs, t)
	}
	isVar := map[string]bool{}
	for _, v := range vars {
		isVar[v] = true
	}
	term := fmt.Sprintf("(RawEp %s %s %s %s %s %s)", vh.CoqList(attrs), vh.CoqBool(rs.whole), vh.CoqList(segs),
		declared(m.HTTP.Params, isVar), declared(m.HTTP.Headers, nil), declared(m.HTTP.Cookies, nil))
	return term, rs, true
}

func mappedCoq(ms []Mapped) string {
	var es []string
	for _, m := range ms {
		es = append(es, "M "+cb(m.Attr)+" "+cb(m.Wire))
	}
	return vh.CoqList(es)
}

func namesCoq(ns []string) string {
	var es []string
	for _, n := range ns {
		es = append(es, cb(n))
	}
	return vh.CoqList(es)
}

// addPartition emits the tier-A case of one endpoint: raw mapping vs goa's finalisation.
func (mc *modelCases) addPartition(bu *tierb.Built, s *dg.Service, m *dg.Method, ep *EpInfo, res *vh.Result) {
	if ep == nil || m.HTTP == nil || len(m.HTTP.Routes) == 0 {
		return
	}
	d := bu.Design
	raw, rs, ok := rawEpTerm(d, s, m)
	if !ok {
		res.Count("partition_skipped=" + strings.SplitN(rs.skip, ":", 2)[0])
	} else {
		body := ep.BodyAttrs
		if ep.BodyKind == "whole" {
			body = []string{""}
		}
		fin := fmt.Sprintf("(FinEp %s %s %s %s %s)", mappedCoq(ep.PathParams), mappedCoq(ep.Query), mappedCoq(ep.Headers), mappedCoq(ep.Cookies), namesCoq(body))
		mc.partition = append(mc.partition, fmt.Sprintf("(%d%%N, (%s, %s))", len(mc.partition), raw, fin))
		mc.partInfo = append(mc.partInfo, map[string]any{"design": d.Name, "service": s.Name, "method": m.Name, "http": m.HTTP, "goa": ep})
		res.Count("partition_cases")
	}
	// responses
	rr, skip := rawResponses(d, m)
	if skip != "" {
		res.Count("rpartition_skipped=" + skip)
		return
	}
	for i, r := range rr.resps {
		var g *RespInfo
		for k := range ep.Responses {
			if ep.Responses[k].Status == r.Status && fmt.Sprint(ep.Responses[k].Tag) == fmt.Sprint(r.Tag) {
				g = &ep.Responses[k]
			}
		}
		if g == nil {
			continue
		}
		body := g.BodyAttrs
		if g.BodyKind == "whole" {
			body = []string{""}
		}
		fin := fmt.Sprintf("(FinEp [] [] %s %s %s)", mappedCoq(g.Headers), mappedCoq(g.Cookies), namesCoq(body))
		mc.rpartition = append(mc.rpartition, fmt.Sprintf("(%d%%N, (%s, %s, %s))", len(mc.rpartition), vh.CoqList(rr.attrTerms), rr.respTerms[i], fin))
		mc.rpartInfo = append(mc.rpartInfo, map[string]any{"design": d.Name, "service": s.Name, "method": m.Name, "response": r, "goa": g})
		res.Count("rpartition_cases")
	}
}

// ---- responses ----

type rawResps struct {
	whole     bool
	attrs     []rawAttr // location per response differs; where/wire unused here
	attrTerms []string
	resps     []dg.Response
	respTerms []string
}

func rawResponses(d *dg.Design, m *dg.Method) (*rawResps, string) {
	if m.HTTP == nil || m.HTTP.SkipResp {
		return nil, "no-http/skip"
	}
	rr := &rawResps{}
	resps := m.HTTP.Responses
	if len(resps) == 0 {
		st := 200
		if m.Result == nil {
			st = 204
		}
		resps = []dg.Response{{Status: st}}
	}
	var fields []*dg.Field
	if m.Result != nil {
		if isViewed(d, m) {
			return nil, "viewed-result"
		}
		bt, _ := d.Base(&m.Result.T)
		if bt.Kind != "object" {
			rr.whole = true
			fields = []*dg.Field{{Name: "", A: *m.Result, Required: true}}
		} else {
			fields = d.AllFields(&m.Result.T)
		}
	}
	inHeader := map[string]bool{}
	for _, r := range resps {
		if r.Body != nil || r.ContentType != "" {
			return nil, "body-override/content-type"
		}
		for _, e := range append(append([]dg.MapEntry{}, r.Headers...), r.Cookies...) {
			inHeader[e.Attr] = true
		}
	}
	for _, f := range fields {
		ra := rawAttr{f: f, where: "body", wire: f.Name}
		if inHeader[f.Name] {
			ra.where = "header"
		}
		t, ok := rattrTerm(d, ra)
		if !ok {
			return nil, "attribute type outside the fragment"
		}
		if inHeader[f.Name] {
			// an attribute that is a header in one response and body in another would need two type classes
			for _, r := range resps {
				found := false
				for _, e := range append(append([]dg.MapEntry{}, r.Headers...), r.Cookies...) {
					if e.Attr == f.Name {
						found = true
					}
				}
				if !found {
					return nil, "attribute in header of one response and body of another"
				}
			}
		}
		rr.attrs = append(rr.attrs, ra)
		rr.attrTerms = append(rr.attrTerms, t)
	}
	for _, r := range resps {
		tag := "None"
		if len(r.Tag) == 2 {
			tag = "(Some (M " + cb(r.Tag[0]) + " " + cb(r.Tag[1]) + "))"
		}
		rr.respTerms = append(rr.respTerms, fmt.Sprintf("(RawResp %d%%N %s %s %s)", r.Status, tag, declared(r.Headers, nil), declared(r.Cookies, nil)))
	}
	rr.resps = resps
	return rr, ""
}

// ---- exchanges ----

// valTerms renders an attribute-space object value as a list of PV terms (design attribute order).
func valTerms(d *dg.Design, attrs []rawAttr, whole bool, v *dg.Val, fill bool) ([]string, bool) {
	var out []string
	if v == nil {
		return out, true
	}
	for _, a := range attrs {
		var x *dg.Val
		if whole {
			x = v
			if x.K == "null" {
				x = nil
			}
		} else {
			x = v.Get(a.f.Name)
		}
		if x == nil {
			continue
		}
		if a.where == "body" {
			if fill {
				x = withDefaults(d, &a.f.A.T, x)
			}
			out = append(out, "PV "+cb(a.f.Name)+" (AJson "+toJ(d, &a.f.A.T, x).term()+")")
			continue
		}
		t, ok := paramVal(x)
		if !ok {
			return nil, false
		}
		out = append(out, "PV "+cb(a.f.Name)+" "+t)
	}
	return out, true
}

func rejectTerm(ob *rt.Obs) string {
	if ob.Resp == nil {
		return "(Rejected NotSent)"
	}
	switch {
	case ob.Resp.Status == 404:
		return "(Rejected NotRouted)"
	case strings.Contains(ob.Resp.Body, "missing_field"):
		return "(Rejected Missing)"
	}
	return "(Rejected Invalid)"
}

func headerKVs(attrs []rawAttr, hdr map[string][]string) string {
	var es []string
	for _, a := range attrs {
		if a.where != "header" {
			continue
		}
		cn := textproto.CanonicalMIMEHeaderKey(a.wire)
		for _, v := range hdr[cn] {
			es = append(es, "KV "+cb(cn)+" "+cb(v))
		}
	}
	return vh.CoqList(es)
}

func cookieKVs(attrs []rawAttr, pairs [][2]string) string {
	var es []string
	for _, a := range attrs {
		if a.where != "cookie" {
			continue
		}
		for _, p := range pairs {
			if p[0] == a.wire {
				es = append(es, "KV "+cb(p[0])+" "+cb(p[1]))
			}
		}
	}
	return vh.CoqList(es)
}

func requestCookiePairs(hdr map[string][]string) [][2]string {
	var out [][2]string
	for _, line := range hdr["Cookie"] {
		for _, part := range strings.Split(line, "; ") {
			n, v, _ := strings.Cut(part, "=")
			out = append(out, [2]string{n, v})
		}
	}
	return out
}

func responseCookiePairs(hdr map[string][]string) [][2]string {
	var out [][2]string
	for _, line := range hdr["Set-Cookie"] {
		first, _, _ := strings.Cut(line, ";")
		n, v, _ := strings.Cut(first, "=")
		out = append(out, [2]string{n, v})
	}
	return out
}

// add emits the tier-B case of one exchange.
func (mc *modelCases) add(x *exchange, ob *rt.Obs, res *vh.Result) {
	d, m := x.ci.Design, x.m
	if m.HTTP == nil || len(m.HTTP.Routes) == 0 {
		return
	}
	var s *dg.Service
	for _, sv := range d.Services {
		if sv.Name == x.ci.Service {
			s = sv
		}
	}
	if mc.prop == "C02" {
		mc.addRequest(d, s, m, x, ob, res)
	} else {
		mc.addResponse(d, s, m, x, ob, res)
	}
}

func (mc *modelCases) addRequest(d *dg.Design, s *dg.Service, m *dg.Method, x *exchange, ob *rt.Obs, res *vh.Result) {
	skip := func(why string) { res.Count("request_case_skipped=" + why) }
	raw, rs, ok := rawEpTerm(d, s, m)
	if !ok {
		skip(strings.SplitN(rs.skip, ":", 2)[0])
		return
	}
	if m.Payload != nil && x.ci.Payload == nil {
		skip("no payload given")
		return
	}
	given, ok := valTerms(d, rs.attrs, rs.whole, x.ci.Payload, true)
	if !ok {
		skip("value outside the fragment")
		return
	}
	out := rejectTerm(ob)
	if ob.Invoked == 1 {
		var got *dg.Val
		if m.Payload != nil {
			got = fromTreeX(d, &m.Payload.T, ob.Got)
		}
		gt, ok := valTerms(d, rs.attrs, rs.whole, got, false)
		if !ok {
			skip("delivered value outside the fragment")
			return
		}
		out = "(Delivered " + vh.CoqList(gt) + ")"
	}
	pathW, queryW, hdrs, cks, body := "[]", "[]", "[]", "[]", "BNone"
	if ob.Req != nil {
		pathW, queryW = cb(ob.Req.Path), cb(ob.Req.Query)
		hdrs = headerKVs(rs.attrs, ob.Req.Headers)
		cks = cookieKVs(rs.attrs, requestCookiePairs(ob.Req.Headers))
		bodyWhole := rs.whole
		var okb bool
		body, okb = wireBody(ob.Req.Body, bodyWhole)
		if !okb {
			skip("request body is not JSON")
			return
		}
	}
	term := fmt.Sprintf("(%d%%N, (%s, %s, XObs %s %s %s %s %s %s))", len(mc.request), raw, vh.CoqList(given), pathW, queryW, hdrs, cks, body, out)
	mc.request = append(mc.request, term)
	mc.reqInfo = append(mc.reqInfo, map[string]any{"stream": x.ci.Stream, "design": d.Name, "service": x.ci.Service, "method": m.Name, "http": m.HTTP,
		"payload": x.ci.Payload, "wire_request": ob.Req, "invoked": ob.Invoked, "received": ob.Got})
	res.Count("request_cases")
}

func (mc *modelCases) addResponse(d *dg.Design, s *dg.Service, m *dg.Method, x *exchange, ob *rt.Obs, res *vh.Result) {
	skip := func(why string) { res.Count("response_case_skipped=" + why) }
	if ob.Invoked != 1 || ob.Resp == nil {
		skip("request not delivered")
		return
	}
	rr, why := rawResponses(d, m)
	if why != "" {
		skip(why)
		return
	}
	if m.Result != nil && x.ci.Result == nil {
		skip("no result scripted")
		return
	}
	// locations of the response that was used (by observed status)
	attrs := append([]rawAttr{}, rr.attrs...)
	var used *dg.Response
	for i := range rr.resps {
		if rr.resps[i].Status == ob.Resp.Status {
			used = &rr.resps[i]
			break
		}
	}
	if used == nil {
		skip("observed status not among the designed ones")
		return
	}
	for i := range attrs {
		attrs[i].where, attrs[i].wire = "body", attrs[i].f.Name
		for _, e := range used.Headers {
			if e.Attr == attrs[i].f.Name {
				attrs[i].where, attrs[i].wire = "header", wireOf(e)
			}
		}
		for _, e := range used.Cookies {
			if e.Attr == attrs[i].f.Name {
				attrs[i].where, attrs[i].wire = "cookie", wireOf(e)
			}
		}
	}
	given, ok := valTerms(d, attrs, rr.whole, x.ci.Result, true)
	if !ok {
		skip("value outside the fragment")
		return
	}
	var out string
	switch {
	case ob.ClientErr != nil && strings.Contains(ob.ClientErr.Message, "missing"):
		out = "(ClientError Missing)"
	case ob.ClientErr != nil:
		out = "(ClientError Invalid)"
	default:
		var got *dg.Val
		if m.Result != nil {
			got = fromTreeX(d, &m.Result.T, ob.ClientResult)
		}
		gt, ok := valTerms(d, attrs, rr.whole, got, false)
		if !ok {
			skip("returned value outside the fragment")
			return
		}
		out = fmt.Sprintf("(Returned %d%%N %s)", ob.Resp.Status, vh.CoqList(gt))
	}
	body, okb := wireBody(ob.Resp.Body, rr.whole)
	if !okb {
		skip("response body is not JSON")
		return
	}
	term := fmt.Sprintf("(%d%%N, (RawRep %s %s %s, %s, RObs %d%%N %s %s %s %s))", len(mc.response), vh.CoqList(rr.attrTerms), vh.CoqBool(rr.whole),
		vh.CoqList(rr.respTerms), vh.CoqList(given), ob.Resp.Status, headerKVs(attrs, ob.Resp.Headers), cookieKVs(attrs, responseCookiePairs(ob.Resp.Headers)), body, out)
	mc.response = append(mc.response, term)
	mc.respInfo = append(mc.respInfo, map[string]any{"stream": x.ci.Stream, "design": d.Name, "service": x.ci.Service, "method": m.Name, "http": m.HTTP,
		"result": x.ci.Result, "wire_response": ob.Resp, "client_result": ob.ClientResult, "client_error": ob.ClientErr})
	res.Count("response_cases")
}

func (mc *modelCases) write(out string, res *vh.Result) error {
	w := func(name string, lines []string) error {
		return os.WriteFile(filepath.Join(out, name), []byte(strings.Join(lines, "\n")+"\n"), 0o644)
	}
	if err := w("cases_partition.txt", mc.partition); err != nil {
		return err
	}
	if err := w("cases_rpartition.txt", mc.rpartition); err != nil {
		return err
	}
	if err := w("cases_request.txt", mc.request); err != nil {
		return err
	}
	if err := w("cases_response.txt", mc.response); err != nil {
		return err
	}
	if err := w("cases_codec.txt", mc.codec); err != nil {
		return err
	}
	bs, _ := json.Marshal(map[string]any{"partition": mc.partInfo, "rpartition": mc.rpartInfo, "request": mc.reqInfo, "response": mc.respInfo, "codec": mc.codecInfo})
	return os.WriteFile(filepath.Join(out, "cases_info.json"), bs, 0o644)
}
