package main

// Extraction of the FINALISED endpoint description from goa's expr.Root (what goa
// itself computed: attribute name <-> wire name tables per location, body attribute
// set, responses) while the design is live inside Batch.Add. This is view (ii) of
// DESIGN.md §2.4; view (i), the raw mapping, comes from designgen.Method.HTTP and is
// finalised by the Coq model on its own (Transport.finalize).

import (
	"sort"
	"strings"

	"goa.design/goa/v3/expr"
)

// Mapped is one attribute name <-> wire (transport element) name pair.
type Mapped struct {
	Attr string `json:"attr"`
	Wire string `json:"wire"`
}

// TyInfo is the type class of a parameter-like attribute as goa sees it.
type TyInfo struct {
	Kind string `json:"kind"`           // prim | array | map | other
	Prim string `json:"prim,omitempty"` // goa primitive name (boolean int int32 ... string bytes any) of the value / element
	Key  string `json:"key,omitempty"`  // map key primitive name
	User bool   `json:"user,omitempty"` // the attribute (or element) type is a user type (alias)
}

// AttrInfo describes one payload/result attribute after finalisation.
type AttrInfo struct {
	Name     string `json:"name"`
	Ty       TyInfo `json:"ty"`
	Required bool   `json:"required,omitempty"`
	HasDef   bool   `json:"has_default,omitempty"`
	Default  any    `json:"default,omitempty"`
}

// RespInfo is one success response after finalisation.
type RespInfo struct {
	Status    int      `json:"status"`
	Tag       []string `json:"tag,omitempty"`
	Headers   []Mapped `json:"headers,omitempty"`
	Cookies   []Mapped `json:"cookies,omitempty"`
	BodyKind  string   `json:"body_kind"` // empty | object | whole | attr
	BodyAttrs []string `json:"body_attrs,omitempty"`
}

// EpInfo is the finalised endpoint as goa computed it.
type EpInfo struct {
	Service, Method string
	Verb            string   `json:"verb"`
	Path            string   `json:"path"` // first full path of the first route (what the generated client uses)
	AllPaths        []string `json:"all_paths,omitempty"`
	PayloadKind     string   `json:"payload_kind"` // none | object | other
	PayloadAttrs    []AttrInfo
	PathParams      []Mapped
	Query           []Mapped
	Headers         []Mapped
	Cookies         []Mapped
	BodyKind        string // empty | object | whole
	BodyAttrs       []string
	MapQuery        bool
	Multipart       bool
	ResultKind      string // none | object | other
	ResultAttrs     []AttrInfo
	Responses       []RespInfo
}

func tyInfo(a *expr.AttributeExpr) TyInfo {
	if a == nil || a.Type == nil {
		return TyInfo{Kind: "other"}
	}
	_, user := a.Type.(expr.UserType)
	switch {
	case expr.IsPrimitive(a.Type):
		return TyInfo{Kind: "prim", Prim: primName(a.Type), User: user}
	case expr.IsArray(a.Type):
		et := expr.AsArray(a.Type).ElemType
		if expr.IsPrimitive(et.Type) {
			_, eu := et.Type.(expr.UserType)
			return TyInfo{Kind: "array", Prim: primName(et.Type), User: user || eu}
		}
	case expr.IsMap(a.Type):
		m := expr.AsMap(a.Type)
		if expr.IsPrimitive(m.KeyType.Type) && expr.IsPrimitive(m.ElemType.Type) {
			_, eu := m.ElemType.Type.(expr.UserType)
			_, ku := m.KeyType.Type.(expr.UserType)
			return TyInfo{Kind: "map", Prim: primName(m.ElemType.Type), Key: primName(m.KeyType.Type), User: user || eu || ku}
		}
	}
	return TyInfo{Kind: "other"}
}

func primName(t expr.DataType) string {
	for i := 0; i < 16; i++ {
		ut, ok := t.(expr.UserType)
		if !ok {
			break
		}
		t = ut.Attribute().Type
	}
	return t.Name()
}

func attrInfos(a *expr.AttributeExpr) (string, []AttrInfo) {
	if a == nil || a.Type == nil || a.Type == expr.Empty {
		return "none", nil
	}
	if !expr.IsObject(a.Type) {
		return "other", nil
	}
	var out []AttrInfo
	for _, nat := range *expr.AsObject(a.Type) {
		ai := AttrInfo{Name: nat.Name, Ty: tyInfo(nat.Attribute), Required: a.IsRequired(nat.Name)}
		if nat.Attribute.DefaultValue != nil {
			ai.HasDef, ai.Default = true, nat.Attribute.DefaultValue
		}
		out = append(out, ai)
	}
	return "object", out
}

func mappedList(ma *expr.MappedAttributeExpr) []Mapped {
	var out []Mapped
	if ma == nil {
		return nil
	}
	_ = expr.WalkMappedAttr(ma, func(name, elem string, _ *expr.AttributeExpr) error {
		out = append(out, Mapped{Attr: name, Wire: elem})
		return nil
	})
	return out
}

// bodyShape classifies a body attribute against the service attribute it is cut from.
func bodyShape(body, svc *expr.AttributeExpr) (string, []string) {
	if body == nil || body.Type == nil || body.Type == expr.Empty {
		return "empty", nil
	}
	if svc != nil && !expr.IsObject(svc.Type) {
		return "whole", nil
	}
	if !expr.IsObject(body.Type) {
		// Body("attr"): the body is the value of one attribute
		if o, ok := body.Meta["origin:attribute"]; ok && len(o) > 0 {
			return "attr", []string{o[0]}
		}
		return "whole", nil
	}
	var names []string
	for _, nat := range *expr.AsObject(body.Type) {
		names = append(names, strings.Split(nat.Name, ":")[0])
	}
	return "object", names
}

// extractEps reads every HTTP endpoint of the live design.
func extractEps(root *expr.RootExpr) map[string]*EpInfo {
	out := map[string]*EpInfo{}
	if root == nil || root.API == nil || root.API.HTTP == nil {
		return out
	}
	for _, hs := range root.API.HTTP.Services {
		for _, e := range hs.HTTPEndpoints {
			ep := &EpInfo{Service: hs.Name(), Method: e.Name()}
			if len(e.Routes) > 0 {
				ep.Verb = e.Routes[0].Method
				fp := e.Routes[0].FullPaths()
				if len(fp) > 0 {
					ep.Path = fp[0]
				}
				for _, r := range e.Routes {
					ep.AllPaths = append(ep.AllPaths, r.FullPaths()...)
				}
			}
			ep.PayloadKind, ep.PayloadAttrs = attrInfos(e.MethodExpr.Payload)
			ep.PathParams = mappedList(e.PathParams())
			ep.Query = mappedList(e.QueryParams())
			ep.Headers = mappedList(e.Headers)
			ep.Cookies = mappedList(e.Cookies)
			ep.BodyKind, ep.BodyAttrs = bodyShape(e.Body, e.MethodExpr.Payload)
			ep.MapQuery = e.MapQueryParams != nil
			ep.Multipart = e.MultipartRequest
			// for a non-object payload carried by a single parameter, record its type
			if ep.PayloadKind == "other" {
				ai := AttrInfo{Name: "", Ty: tyInfo(e.MethodExpr.Payload), Required: true}
				ep.PayloadAttrs = []AttrInfo{ai}
			}
			ep.ResultKind, ep.ResultAttrs = attrInfos(e.MethodExpr.Result)
			if ep.ResultKind == "other" {
				ep.ResultAttrs = []AttrInfo{{Name: "", Ty: tyInfo(e.MethodExpr.Result), Required: true}}
			}
			for _, r := range e.Responses {
				ri := RespInfo{Status: r.StatusCode, Headers: mappedList(r.Headers), Cookies: mappedList(r.Cookies)}
				if r.Tag[0] != "" {
					ri.Tag = []string{r.Tag[0], r.Tag[1]}
				}
				ri.BodyKind, ri.BodyAttrs = bodyShape(r.Body, e.MethodExpr.Result)
				ep.Responses = append(ep.Responses, ri)
			}
			out[hs.Name()+"/"+e.Name()] = ep
		}
	}
	return out
}

func sortedMapped(ms []Mapped) []Mapped {
	out := append([]Mapped(nil), ms...)
	sort.Slice(out, func(i, j int) bool { return out[i].Attr < out[j].Attr })
	return out
}

func (ep *EpInfo) attr(name string) *AttrInfo {
	for i := range ep.PayloadAttrs {
		if ep.PayloadAttrs[i].Name == name {
			return &ep.PayloadAttrs[i]
		}
	}
	return nil
}

func (ep *EpInfo) rattr(name string) *AttrInfo {
	for i := range ep.ResultAttrs {
		if ep.ResultAttrs[i].Name == name {
			return &ep.ResultAttrs[i]
		}
	}
	return nil
}

func findMapped(ms []Mapped, attr string) (string, bool) {
	for _, m := range ms {
		if m.Attr == attr {
			return m.Wire, true
		}
	}
	return "", false
}

// locOf returns the request location goa assigned to a payload attribute, and the wire name.
// All locations in which the attribute appears are returned (the partition check wants exactly one).
func (ep *EpInfo) locsOf(attr string) [][2]string {
	var out [][2]string
	if w, ok := findMapped(ep.PathParams, attr); ok {
		out = append(out, [2]string{"path", w})
	}
	if w, ok := findMapped(ep.Query, attr); ok {
		out = append(out, [2]string{"query", w})
	}
	if w, ok := findMapped(ep.Headers, attr); ok {
		out = append(out, [2]string{"header", w})
	}
	if w, ok := findMapped(ep.Cookies, attr); ok {
		out = append(out, [2]string{"cookie", w})
	}
	for _, b := range ep.BodyAttrs {
		if b == attr {
			out = append(out, [2]string{"body", attr})
		}
	}
	return out
}

// respLocsOf: same for a response.
func (r *RespInfo) locsOf(attr string) [][2]string {
	var out [][2]string
	if w, ok := findMapped(r.Headers, attr); ok {
		out = append(out, [2]string{"header", w})
	}
	if w, ok := findMapped(r.Cookies, attr); ok {
		out = append(out, [2]string{"cookie", w})
	}
	for _, b := range r.BodyAttrs {
		if b == attr {
			out = append(out, [2]string{"body", attr})
		}
	}
	return out
}
