package main

import (
	"bytes"
	"fmt"
	"os"
	"runtime/debug"

	"goa.design/goa/v3/codegen"
	"goa.design/goa/v3/codegen/service"

	. "goa.design/goa/v3/dsl"
	"goa.design/goa/v3/eval"
	"goa.design/goa/v3/expr"
	grpccodegen "goa.design/goa/v3/grpc/codegen"

	"verifharness/designgen"
)

func render() (out string, panicked string) {
	defer func() {
		if r := recover(); r != nil {
			panicked = fmt.Sprintf("%v\n%s", r, debug.Stack())
		}
	}()
	var buf bytes.Buffer
	for _, f := range grpccodegen.ProtoFiles("tb/gen", expr.Root) {
		buf.WriteString("## " + f.Path + "\n")
		for _, s := range f.SectionTemplates {
			if s.Name == "proto-header" {
				continue
			}
			if err := s.Write(&buf); err != nil {
				panic(err)
			}
		}
	}
	return buf.String(), ""
}

func try(name string, fn func()) {
	designgen.ResetGoa()
	fmt.Println("=====", name)
	if !eval.Execute(fn, nil) {
		fmt.Println("EXEC ERR", eval.Context.Errors)
		return
	}
	if err := eval.RunDSL(); err != nil {
		fmt.Println("RUNDSL ERR", err)
		return
	}
	out, p := render()
	if p != "" {
		fmt.Println("PANIC", p)
		return
	}
	fmt.Println(out)
}

func main() {
	designgen.ResetGoa()
	ok := eval.Execute(func() {
		API("a", func() {})
		var T = Type("T", func() {
			Field(1, "x", Int)
			Field(2, "ys", ArrayOf(String))
			Required("x")
		})
		var Al = Type("Al", String, func() { MinLength(1) })
		Service("svc", func() {
			Method("m1", func() {
				Payload(func() {
					Field(1, "a", Int)
					Field(2, "b", String)
					Field(3, "t", T)
					Field(4, "al", Al)
					Field(5, "fooBar", UInt, func() { Maximum(10) })
					Field(6, "arr", ArrayOf(T))
					Field(7, "mm", MapOf(String, T))
					Field(8, "aa", ArrayOf(ArrayOf(Int)))
					Field(9, "by", Bytes)
					OneOf("choice", func() {
						Field(10, "s", String)
						Field(11, "tt", T)
					})
					Field(12, "key", String)
					Field(13, "a1b", Float64)
					Required("a", "key")
				})
				Result(T)
				GRPC(func() {
					Metadata(func() { Attribute("key"); Attribute("a") })
				})
			})
			Method("m2", func() {
				Payload(String)
				Result(ArrayOf(Int))
				GRPC(func() {})
			})
		})
	}, nil)
	if !ok { panic(eval.Context.Errors) }
	if err := eval.RunDSL(); err != nil { panic(err) }
	dir := os.Args[1]
	var files []*codegen.File
	for _, s := range expr.Root.Services { files = append(files, service.Files("tb/d0/gen", s, nil)...) }
	files = append(files, grpccodegen.ServerTypeFiles("tb/d0/gen", expr.Root)...)
	files = append(files, grpccodegen.ClientTypeFiles("tb/d0/gen", expr.Root)...)
	files = append(files, grpccodegen.ServerFiles("tb/d0/gen", expr.Root)...)
	files = append(files, grpccodegen.ClientFiles("tb/d0/gen", expr.Root)...)
	for _, f := range files {
		p, err := f.Render(dir)
		fmt.Println(p, err)
	}
	out, _ := render()
	fmt.Println(out)
}
