package main

import (
	"bytes"
	"fmt"
	"runtime/debug"

	. "goa.design/goa/v3/dsl"
	"goa.design/goa/v3/eval"
	"goa.design/goa/v3/expr"
	grpccodegen "goa.design/goa/v3/grpc/codegen"

	"verifharness/designgen"
)

func render() (out string, panicked string) {
	defer func() {
		if r := recover(); r != nil {
			panicked = fmt.Sprintf("%v\n%s", r, debug.Stack())
		}
	}()
	var buf bytes.Buffer
	for _, f := range grpccodegen.ProtoFiles("tb/gen", expr.Root) {
		buf.WriteString("## " + f.Path + "\n")
		for _, s := range f.SectionTemplates {
			if s.Name == "proto-header" {
				continue
			}
			if err := s.Write(&buf); err != nil {
				panic(err)
			}
		}
	}
	return buf.String(), ""
}

func try(name string, fn func()) {
	designgen.ResetGoa()
	fmt.Println("=====", name)
	if !eval.Execute(fn, nil) {
		fmt.Println("EXEC ERR", eval.Context.Errors)
		return
	}
	if err := eval.RunDSL(); err != nil {
		fmt.Println("RUNDSL ERR", err)
		return
	}
	out, p := render()
	if p != "" {
		fmt.Println("PANIC", p)
		return
	}
	fmt.Println(out)
}

func main() {
	try("types", func() {
		API("a", func() {})
		var T = Type("T", func() {
			Field(1, "x", Int)
		})
		var Ints = Type("Ints", ArrayOf(Int))
		var SM = Type("SM", MapOf(String, Int))
		var Al2 = Type("Al2", Int32, func() { Minimum(3) })
		Service("my_svc", func() {
			Method("get_item", func() {
				Payload(func() {
					Field(1, "mf", MapOf(Float64, String))
					Field(3, "mt", MapOf(T, String))
					Field(4, "mi", MapOf(Int, ArrayOf(Int)))
					Field(5, "am", ArrayOf(MapOf(String, Int)))
					Field(6, "mmm", MapOf(String, MapOf(String, Int)))
					Field(7, "ints", Ints)
					Field(8, "sm", SM)
					Field(9, "al2", Al2)
					Field(11, "d", Int, func() { Default(5) })
					Field(12, "aal", ArrayOf(Al2))
					Field(13, "mbool", MapOf(Boolean, Boolean))
					OneOf("un", func() {
						Field(15, "ub", Boolean)
						Field(16, "ual", Al2)
					})
				})
				Result(Ints)
				GRPC(func() {})
			})
			Method("m2", func() {
				Payload(SM)
				Result(Al2)
				GRPC(func() {})
			})
			Method("m3", func() {
				Payload(T)
				Result(func() {
					OneOf("only", func() {
						Field(1, "a", Int)
					})
				})
				GRPC(func() {})
			})
		})
	})
}
