// Command c12 drives goa's real DSL evaluation (dsl, eval, expr) on
//
//	witness    fixed designs / programs re-demonstrating every recorded finding,
//	grid       every DSL function called with benign arguments in every context kind,
//	nearvalid  random accepted designs with one mutation (dangling names, undeclared
//	           errors, unregistered schemes, undefined views, duplicates, contradictory
//	           validations, recursive types ...),
//	malformed  random function x context x argument-shape programs,
//
// each evaluated in a child process under recover() and a watchdog. It writes what
// it observed as Coq terms (cases_ref.txt, cases_grid.txt, cases_ctx.txt, compared
// with the DSL model inside Coq) and evaluates the property directly on the
// observations (result.json): a panic, a fatal error, a timeout, an empty error
// list, or an accepted design with a dangling reference is a failing input.
package main

import (
	"encoding/json"
	"flag"
	"fmt"
	"os"
	"path/filepath"
	"regexp"
	"sort"
	"strings"
	"time"

	dg "verifharness/designgen"
	"verifharness/vh"
)

var incompatRe = regexp.MustCompile(`^invalid use of (\w+)(.*)$`)

func obsToGobs(p *ProbeObs) string {
	switch {
	case p.Panicked:
		return "GPanic"
	case p.Incompat && p.OtherErr:
		return "GBoth"
	case p.Incompat:
		return "GIncompat"
	case p.OtherErr:
		return "GOther"
	}
	return "GNone"
}

func expectSig(m *Mutation) string {
	k := strings.ReplaceAll(m.Kind, "_", "-")
	if strings.HasPrefix(k, "dangling-") {
		return k + "-accepted"
	}
	return k + "-accepted"
}

type runner struct {
	self, work, genroot string
	workers             int
	limit               time.Duration
	res                 *vh.Result
	harnessBugs         []string
	sigCount            map[string]int
	maxEvalMs, maxGenMs int64
}

// oracle evaluates the property on one observation.
func (rn *runner) oracle(it *Item, r Res) {
	o := r.Obs
	input := map[string]any{"item": it, "observed": o}
	fail := func(sig, what string) {
		// the result file keeps the first three inputs of every signature and the count
		rn.sigCount[sig]++
		if rn.sigCount[sig] <= 3 {
			rn.res.Fail(sig, what, input)
		}
	}
	if strings.HasPrefix(o.Sig, "harness-bug:") {
		rn.harnessBugs = append(rn.harnessBugs, fmt.Sprintf("item %d (%s): %s\n%s", it.ID, it.Stream, o.Sig, o.Detail))
		return
	}
	switch o.Outcome {
	case "panic":
		fail(o.Sig, "evaluating the program panicked: "+firstLine(o.Detail))
		return
	case "fatal":
		fail(o.Sig, "evaluating the program killed the process: "+firstLine(o.Detail))
		return
	case "timeout":
		if o.Sig == "generate-timeout" {
			fail(o.Sig, "the design was accepted and the code generators did not finish: "+o.Detail)
		} else {
			fail("timeout", "evaluating the program did not terminate within the time limit: "+o.Detail)
		}
		return
	case "rejected":
		if o.NErr == 0 {
			fail("rejected-without-error", "the program was not accepted but no error was reported")
		} else if o.EmptyMsg {
			fail("empty-error-message", "an error with an empty message was reported")
		}
	case "accepted":
		if it.Mut != nil && it.Mut.Expect == "reject" {
			what := fmt.Sprintf("a design with a dangling reference was accepted (%s %q at %s)", it.Mut.Kind, it.Mut.Name, it.Mut.Where)
			fail(expectSig(it.Mut), what)
		}
		switch o.Gen {
		case "panic":
			fail(o.GenSig, "the design was accepted and the code generators panicked: "+firstLine(o.GenMsg))
		case "error":
			if !strings.Contains(o.GenSig, "protoc") {
				fail(o.GenSig, "the design was accepted and the code generators failed: "+firstLine(o.GenMsg))
			}
		}
	}
	if it.Stream == "grid" && o.Probe != nil && o.Probe.Panicked && o.Outcome != "panic" {
		fail("probe-panic-swallowed", "the probed call panicked but the evaluation went on")
	}
}

func firstLine(s string) string {
	if i := strings.Index(s, "\n"); i >= 0 {
		return s[:i]
	}
	return s
}

func (rn *runner) run(tag string, items []*Item) []Res {
	if len(items) == 0 {
		return nil
	}
	return runItems(rn.self, rn.work, tag, items, rn.workers, rn.genroot, rn.limit)
}

// shrink removes calls from a failing malformed program while the failure keeps its
// signature (delete-one, every candidate of a round evaluated in one batch).
func (rn *runner) shrink(it *Item, sig string) *Item {
	cur := it
	for round := 0; round < 40; round++ {
		var cands []*Item
		base := cloneProgram(cur.Prog)
		nb := len(bodies(base))
		for bi := 0; bi < nb; bi++ {
			n := len(*bodies(base)[bi])
			for ci := 0; ci < n; ci++ {
				c := cloneProgram(cur.Prog)
				b := bodies(c)[bi]
				*b = append(append([]*Call{}, (*b)[:ci]...), (*b)[ci+1:]...)
				cands = append(cands, &Item{ID: len(cands), Stream: cur.Stream, Prog: c})
			}
		}
		if len(cands) == 0 || len(cands) > 400 {
			break
		}
		rs := rn.run(fmt.Sprintf("shrink%d", round), cands)
		next := -1
		for i, r := range rs {
			if r.Obs.Sig == sig {
				next = i
				break
			}
		}
		if next < 0 {
			break
		}
		cur = cands[next]
	}
	cur.ID = it.ID
	return cur
}

func main() {
	seed := flag.Uint64("seed", 1, "")
	tier := flag.String("tier", "quick", "")
	out := flag.String("out", ".", "")
	replay := flag.String("replay", "", "")
	repo := flag.String("repo", "/repo", "goa working tree (for the module that generated code is written into)")
	worker := flag.Bool("worker", false, "")
	in := flag.String("in", "", "")
	resf := flag.String("res", "", "")
	from := flag.Int("from", 0, "")
	genroot := flag.String("genroot", "", "")
	limit := flag.Duration("limit", 30*time.Second, "")
	listFns := flag.Bool("list-functions", false, "")
	nNear := flag.Int("nearvalid", -1, "")
	nMal := flag.Int("malformed", -1, "")
	flag.Parse()

	if *listFns {
		b, _ := json.Marshal(registryNames())
		fmt.Println(string(b))
		return
	}
	if *worker {
		workerMain(*in, *resf, *from, *genroot, *limit)
		return
	}

	self, err := os.Executable()
	if err != nil {
		panic(err)
	}
	rn := &runner{self: self, work: *out, workers: 16, limit: *limit, res: vh.NewResult(), sigCount: map[string]int{}}
	rn.genroot = filepath.Join(*out, "gen")
	os.RemoveAll(rn.genroot)
	if err := dg.WriteModule(rn.genroot, "tb", *repo, ""); err != nil {
		panic(err)
	}
	res := rn.res
	names := registryNames()
	rng := vh.NewRNG(*seed)

	// work is produced and evaluated in rounds so that neither this process nor the
	// workers hold more than a few thousand programs at a time
	near, mal := 1500, 1500
	if *tier == "thorough" {
		near, mal = 25000, 80000
	}
	if *nNear >= 0 {
		near = *nNear
	}
	if *nMal >= 0 {
		mal = *nMal
	}
	nr, mr := rng.Fork(), rng.Fork()
	nearDone, malDone, round := 0, 0, 0
	const perRound = 6000
	next := func() []*Item {
		var items []*Item
		if *replay != "" {
			if round > 0 {
				return nil
			}
			b, err := os.ReadFile(*replay)
			if err != nil {
				panic(err)
			}
			var rp struct {
				Input struct {
					Item *Item `json:"item"`
				} `json:"input"`
			}
			if err := json.Unmarshal(b, &rp); err != nil || rp.Input.Item == nil {
				fmt.Println("replay file has no item")
				os.Exit(2)
			}
			fixJSON(rp.Input.Item.Design)
			return []*Item{rp.Input.Item}
		}
		if round == 0 {
			items = append(items, witnessItems()...)
			items = append(items, gridItems(names)...)
		}
		for k := 0; k < perRound/2 && nearDone < near; k++ {
			d, m := nearValid(nr, nearDone)
			it := &Item{Stream: "nearvalid", Design: d, Mut: m}
			// accepted designs go through the generators: every mutated one, a sample of the
			// others (thorough: one mutated design in three)
			it.Gen = (m.Kind != "none" && (*tier != "thorough" || nearDone%3 == 0)) || nearDone%10 == 0
			items = append(items, it)
			nearDone++
		}
		for k := 0; k < perRound/2 && malDone < mal; k++ {
			items = append(items, &Item{Stream: "malformed", Prog: malformedProgram(mr, names)})
			malDone++
		}
		return items
	}

	var ref, grid, ctxl strings.Builder
	suffixIndex := map[string]int{}
	var suffixes []string
	ctxSeen := map[string]bool{}
	distinct := vh.Distinct{}
	gridUnreached := 0
	firstFail := map[string]bool{}
	total := 0
	retried := 0
	var index []any
	t0 := time.Now()
	for {
		items := next()
		if len(items) == 0 {
			break
		}
		for i, it := range items {
			it.ID = total + i
		}
		tag := fmt.Sprintf("r%02d", round)
		results := rn.run(tag, items)
		// a timeout is confirmed by evaluating the item once more, alone, with four times
		// the limit (the machine may be heavily loaded); the second observation counts
		var again []*Item
		var where []int
		for i, r := range results {
			if r.Obs.Outcome == "timeout" {
				c := *items[i]
				again = append(again, &c)
				where = append(where, i)
			}
		}
		if len(again) > 0 {
			saved := rn.limit
			rn.limit = 4 * saved
			rs := rn.run(tag+"retry", again)
			rn.limit = saved
			for k, i := range where {
				results[i] = rs[k]
			}
			retried += len(again)
		}
		for i, it := range items {
			r := results[i]
			o := r.Obs
			id := it.ID
			res.Count("stream=" + it.Stream)
			res.Count(it.Stream + ":outcome=" + o.Outcome)
			if it.Mut != nil {
				res.Count("mutation=" + it.Mut.Kind)
				res.Count("mutation=" + it.Mut.Kind + ":" + o.Outcome)
			}
			if o.Gen != "" {
				res.Count("generate=" + o.Gen)
			}
			if it.Stream != "witness" {
				j, _ := json.Marshal(struct {
					P *Program
					D *dg.Design
					M *Mutation
				}{it.Prog, it.Design, it.Mut})
				distinct.Add(string(j))
			}
			// shrink the first malformed failure of each signature before reporting it
			if it.Stream == "malformed" && (o.Outcome == "panic" || o.Outcome == "fatal" || o.Outcome == "timeout") && !firstFail[o.Sig] && !strings.HasPrefix(o.Sig, "harness-bug") {
				firstFail[o.Sig] = true
				small := rn.shrink(it, o.Sig)
				small.ID = id
				rs := rn.run("shrunk", []*Item{small})
				if rs[0].Obs.Sig == o.Sig {
					it, r = small, rs[0]
					o = r.Obs
				}
			}
			rn.oracle(it, r)
			if o.EvalMs > rn.maxEvalMs {
				rn.maxEvalMs = o.EvalMs
			}
			if o.GenMs > rn.maxGenMs {
				rn.maxGenMs = o.GenMs
			}
			switch it.Stream {
			case "grid":
				if o.Probe == nil {
					gridUnreached++
					res.Count("grid_probe_not_reached=" + it.Ctx)
					continue
				}
				msg := "None"
				if o.Probe.IncompatMsg != "" {
					if mm := incompatRe.FindStringSubmatch(o.Probe.IncompatMsg); mm != nil {
						fi := 99999
						for k, n := range names {
							if n == mm[1] {
								fi = k
							}
						}
						si, seen := suffixIndex[mm[2]]
						if !seen {
							si = len(suffixes)
							suffixIndex[mm[2]] = si
							suffixes = append(suffixes, mm[2])
						}
						msg = fmt.Sprintf("(Some (%d, %d))", fi, si)
					} else {
						msg = "(Some (99999, 99999))"
					}
				}
				fmt.Fprintf(&grid, "(%d%%N, %d, %s, %s, %s)\n", id, it.FnIndex, it.Ctx, obsToGobs(o.Probe), msg)
				res.Count("grid:" + obsToGobs(o.Probe))
				if !ctxSeen[it.Ctx] {
					ctxSeen[it.Ctx] = true
					ts := []string{}
					if t, ok := etypeOf[o.Probe.Current]; ok {
						ts = append(ts, t)
					} else {
						res.Count("unknown_current_type=" + o.Probe.Current)
					}
					if o.Probe.Composite {
						ts = append(ts, "TComposite")
					}
					if o.Probe.UserType {
						ts = append(ts, "TUserType")
					}
					dt := "None"
					if o.Probe.DType != "" {
						dt = "(Some " + o.Probe.DType + ")"
					}
					fmt.Fprintf(&ctxl, "(%d%%N, %s, [%s], %s)\n", id, it.Ctx, strings.Join(ts, "; "), dt)
				}
			case "nearvalid":
				if o.Outcome != "accepted" && o.Outcome != "rejected" {
					break
				}
				p := newProj(it.Design, it.Mut.extraReq())
				term, _ := p.coqDesign()
				covered := it.Mut.Covered
				if it.Mut.Expect == "accept" && o.Outcome == "rejected" {
					// a random design meant to be valid that goa rejects: the generator left its envelope.
					// If none of the reported errors is of a modelled kind the case says nothing
					// about the model (counted; checks/c12.py refuses more than a handful).
					res.Count("base_design_rejected")
					if len(r.Parsed) == 0 {
						covered = false
						res.Count("base_design_rejected_unmodelled_kind")
					}
				}
				fmt.Fprintf(&ref, "(%d%%N, %s, %s, %s, %s)\n", id, term, vh.CoqBool(covered), vh.CoqBool(o.Outcome == "accepted"), p.coqErrs(r.Parsed))
			}
			if id%331 == 7 {
				res.Sample(map[string]any{"item": it, "observed": o}, 6)
			}
			// index of the cases the Coq comparisons can point at (and of everything that failed)
			if it.Stream == "grid" || it.Stream == "nearvalid" || o.Sig != "" {
				index = append(index, map[string]any{"id": id, "stream": it.Stream, "ctx": it.Ctx, "fn": it.Fn, "mut": it.Mut, "outcome": o.Outcome, "sig": o.Sig, "errors": o.Errors, "parsed": r.Parsed})
			}
		}
		total += len(items)
		round++
		// the inputs of a finished round are not needed any more
		if matches, _ := filepath.Glob(filepath.Join(*out, tag+"*_in_*.jsonl")); *replay == "" {
			for _, m := range matches {
				os.Remove(m)
			}
		}
		if matches, _ := filepath.Glob(filepath.Join(*out, tag+"*_out_*.jsonl")); *replay == "" {
			for _, m := range matches {
				os.Remove(m)
			}
		}
	}
	res.Extra["run_seconds"] = time.Since(t0).Seconds()
	res.Extra["timeouts_retried"] = retried
	res.Extra["rounds"] = round
	// keep result.json small: the full items are in main_in_*.jsonl
	{
		b, _ := json.Marshal(index)
		os.WriteFile(filepath.Join(*out, "cases_index.json"), b, 0o644)
	}
	res.Evaluations = total
	res.Distinct = len(distinct)
	res.Extra["grid_unreached"] = gridUnreached
	res.Extra["signature_counts"] = rn.sigCount
	res.Extra["max_eval_ms"] = rn.maxEvalMs
	res.Extra["max_generate_ms"] = rn.maxGenMs
	res.Extra["functions"] = names
	res.Extra["contexts"] = len(contexts)
	res.Rule = "witness: one fixed design/program per recorded finding; grid: every exported dsl function (123) x every context kind reachable through the public DSL (37: expression kind x data type of the attribute), benign arguments; nearvalid: designgen.Random accepted designs with at most one mutation out of " + fmt.Sprint(len(mutators)) + " kinds; malformed: random programs (empty / context template / valid base + 1-5 random insertions, repeats, swaps; arguments benign or drawn per parameter type, any value where the parameter is `any`, nil functions, empty names). non-trivial = every program except the witnesses; distinct = distinct (program | design, mutation)"
	sort.Strings(rn.harnessBugs)
	if len(rn.harnessBugs) > 0 {
		fmt.Println("c12 harness error (not a finding):")
		for i, b := range rn.harnessBugs {
			if i < 5 {
				fmt.Println(b)
			}
		}
		os.Exit(2)
	}
	must(os.WriteFile(filepath.Join(*out, "cases_ref.txt"), []byte(ref.String()), 0o644))
	must(os.WriteFile(filepath.Join(*out, "cases_grid.txt"), []byte(grid.String()), 0o644))
	{
		ss := make([]string, len(suffixes))
		for i, x := range suffixes {
			ss[i] = vh.CoqString(x)
		}
		must(os.WriteFile(filepath.Join(*out, "grid_suffixes.txt"), []byte(vh.CoqList(ss)), 0o644))
	}
	must(os.WriteFile(filepath.Join(*out, "cases_ctx.txt"), []byte(ctxl.String()), 0o644))
	must(res.Write(filepath.Join(*out, "result.json")))
	os.RemoveAll(rn.genroot)
}

func must(err error) {
	if err != nil {
		panic(err)
	}
}
