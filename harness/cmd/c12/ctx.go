package main

// Context templates for the correspondence grid: for every context a design
// function can be in (as reachable through the public DSL), a program with a hole
// where one DSL function is called with benign arguments.

import "sort"

type ctxDef struct {
	Name  string // constructor of Model.ctx
	Build func(probe *Call) *Program
}

func sch(n string) *Arg { return &Arg{K: "sch", S: n} }

// scaffold builds: a scheme, a user type, a result type, API(apiBody), Service(svcBody + Method(methodBody)).
func scaffold(top, apiBody, svcBody, methodBody []*Call) *Program {
	p := &Program{}
	p.Top = append(p.Top,
		C("BasicAuthSecurity", S("basic_g")),
		C("Type", S("GT"), Fn(C("Attribute", S("ga"), P("String")))),
		C("ResultType", S("application/vnd.grt"), Fn(
			C("Attributes", Fn(C("Attribute", S("ra"), P("String")))),
			C("View", S("default"), Fn(C("Attribute", S("ra")))))),
	)
	p.Top = append(p.Top, top...)
	p.Top = append(p.Top, C("API", S("gridapi"), Fn(apiBody...)))
	svc := append([]*Call{}, svcBody...)
	svc = append(svc, C("Method", S("gm"), Fn(methodBody...)))
	p.Top = append(p.Top, C("Service", S("gs"), Fn(svc...)))
	return p
}

func ep(httpBody ...*Call) []*Call {
	return []*Call{
		C("Payload", Fn(C("Attribute", S("p1"), P("String")))),
		C("Result", Fn(C("Attribute", S("r1"), P("String")))),
		C("Error", S("e1")),
		C("HTTP", Fn(append([]*Call{C("GET", S("/"))}, httpBody...)...)),
	}
}

var contexts = []ctxDef{
	{"CTop", func(p *Call) *Program { return scaffold([]*Call{p}, nil, nil, nil) }},
	{"CAPI", func(p *Call) *Program { return scaffold(nil, []*Call{p}, nil, nil) }},
	{"CServer", func(p *Call) *Program { return scaffold(nil, []*Call{C("Server", S("srv"), Fn(p))}, nil, nil) }},
	{"CHost", func(p *Call) *Program {
		return scaffold(nil, []*Call{C("Server", S("srv"), Fn(C("Host", S("h"), Fn(p))))}, nil, nil)
	}},
	{"CService", func(p *Call) *Program { return scaffold(nil, nil, []*Call{p}, nil) }},
	{"CMethod", func(p *Call) *Program { return scaffold(nil, nil, nil, []*Call{p}) }},
	{"CPayloadObj", func(p *Call) *Program { return scaffold(nil, nil, nil, []*Call{C("Payload", Fn(p))}) }},
	{"CAttrString", func(p *Call) *Program {
		return scaffold(nil, nil, nil, []*Call{C("Payload", Fn(C("Attribute", S("x"), P("String"), Fn(p))))})
	}},
	{"CAttrMap", func(p *Call) *Program {
		return scaffold(nil, nil, nil, []*Call{C("Payload", Fn(C("Attribute", S("x"), &Arg{K: "map", A: []*Arg{P("String"), P("String")}}, Fn(p))))})
	}},
	// attribute contexts by DATA TYPE of the attribute
	{"CAttrArray", func(p *Call) *Program {
		return scaffold(nil, nil, nil, []*Call{C("Payload", Fn(C("Attribute", S("x"), &Arg{K: "arr", A: []*Arg{P("String")}}, Fn(p))))})
	}},
	{"CAttrAny", func(p *Call) *Program {
		return scaffold(nil, nil, nil, []*Call{C("Payload", Fn(C("Attribute", S("x"), P("Any"), Fn(p))))})
	}},
	{"CAttrUnion", func(p *Call) *Program {
		return scaffold(nil, nil, nil, []*Call{C("Payload", Fn(C("OneOf", S("u"), Fn(C("Attribute", S("ua"), P("String")), p))))})
	}},
	{"CAttrUser", func(p *Call) *Program {
		return scaffold(nil, nil, nil, []*Call{C("Payload", Fn(C("Attribute", S("x"), UT("GT"), Fn(p))))})
	}},
	{"CAttrResultType", func(p *Call) *Program {
		return scaffold(nil, nil, nil, []*Call{C("Payload", Fn(C("Attribute", S("x"), UT("application/vnd.grt"), Fn(p))))})
	}},
	{"CAttrCollection", func(p *Call) *Program {
		return scaffold(nil, nil, nil, []*Call{C("Payload", Fn(C("Attribute", S("x"), &Arg{K: "coll", A: []*Arg{UT("application/vnd.grt")}}, Fn(p))))})
	}},
	{"CResultUser", func(p *Call) *Program { return scaffold(nil, nil, nil, []*Call{C("Result", UT("GT"), Fn(p))}) }},
	{"CBodyUser", func(p *Call) *Program { return scaffold(nil, nil, nil, ep(C("Body", UT("GT"), Fn(p)))) }},
	{"CTypeBody", func(p *Call) *Program { return scaffold([]*Call{C("Type", S("T1"), Fn(p))}, nil, nil, nil) }},
	{"CResultType", func(p *Call) *Program {
		return scaffold([]*Call{C("ResultType", S("application/vnd.probe"), Fn(p))}, nil, nil, nil)
	}},
	{"CViewBody", func(p *Call) *Program {
		return scaffold([]*Call{C("ResultType", S("application/vnd.probe"), Fn(
			C("Attributes", Fn(C("Attribute", S("a"), P("String")))),
			C("View", S("default"), Fn(p))))}, nil, nil, nil)
	}},
	{"CAPIHTTP", func(p *Call) *Program { return scaffold(nil, []*Call{C("HTTP", Fn(p))}, nil, nil) }},
	{"CHTTPService", func(p *Call) *Program { return scaffold(nil, nil, []*Call{C("HTTP", Fn(p))}, ep()) }},
	{"CHTTPEndpoint", func(p *Call) *Program { return scaffold(nil, nil, nil, ep(p)) }},
	{"CHTTPResponse", func(p *Call) *Program { return scaffold(nil, nil, nil, ep(C("Response", I(200), Fn(p)))) }},
	{"CHTTPErrResponse", func(p *Call) *Program {
		return scaffold(nil, nil, nil, ep(C("Response", S("e1"), I(400), Fn(p))))
	}},
	{"CParams", func(p *Call) *Program { return scaffold(nil, nil, nil, ep(C("Params", Fn(p)))) }},
	{"CFileServer", func(p *Call) *Program {
		return scaffold(nil, nil, []*Call{C("Files", S("/f"), S("f.json"), Fn(p))}, ep())
	}},
	{"CAPIGRPC", func(p *Call) *Program { return scaffold(nil, []*Call{C("GRPC", Fn(p))}, nil, nil) }},
	{"CGRPCService", func(p *Call) *Program { return scaffold(nil, nil, []*Call{C("GRPC", Fn(p))}, nil) }},
	{"CGRPCEndpoint", func(p *Call) *Program { return scaffold(nil, nil, nil, []*Call{C("GRPC", Fn(p))}) }},
	{"CGRPCResponse", func(p *Call) *Program {
		return scaffold(nil, nil, nil, []*Call{C("GRPC", Fn(C("Response", I(0), Fn(p))))})
	}},
	{"CScheme", func(p *Call) *Program { return scaffold([]*Call{C("OAuth2Security", S("o2"), Fn(p))}, nil, nil, nil) }},
	{"CSecurity", func(p *Call) *Program {
		return scaffold(nil, nil, []*Call{C("Security", sch("basic_g"), Fn(p))}, nil)
	}},
	{"CContact", func(p *Call) *Program { return scaffold(nil, []*Call{C("Contact", Fn(p))}, nil, nil) }},
	{"CLicense", func(p *Call) *Program { return scaffold(nil, []*Call{C("License", Fn(p))}, nil, nil) }},
	{"CDocs", func(p *Call) *Program { return scaffold(nil, []*Call{C("Docs", Fn(p))}, nil, nil) }},
	{"CExample", func(p *Call) *Program {
		return scaffold(nil, nil, nil, []*Call{C("Payload", Fn(C("Attribute", S("x"), P("String"), Fn(C("Example", S("sum"), Fn(p))))))})
	}},
}

// benign gives, for every DSL function, arguments of the documented types that the
// function's own argument checks accept.
var benign = map[string][]*Arg{
	"API": {S("probeapi"), Fn()}, "Title": {S("t")}, "Version": {S("1.0")}, "Contact": {Fn()}, "License": {Fn()},
	"Randomizer": {{K: "rand"}}, "Docs": {Fn()}, "TermsOfService": {S("tos")}, "Name": {S("n")}, "Email": {S("e@x.io")},
	"URL": {S("http://x.io")},
	"Attribute": {S("pa1"), P("String")}, "Field": {I(7), S("pf1"), P("String")},
	"OneOf": {S("pu1"), Fn(C("Attribute", S("ua"), P("String")))}, "Default": {S("d")}, "Example": {S("ex")},
	"ConvertTo": {S("x")}, "CreateFrom": {S("x")}, "Description": {S("d")},
	"Error": {S("perr")}, "ErrorName": {S("pen"), P("String")}, "Temporary": {}, "Timeout": {}, "Fault": {},
	"GRPC": {Fn()}, "Package": {S("pkg")}, "Message": {Fn(C("Attribute", S("p1"), P("String")))}, "Metadata": {Fn(C("Attribute", S("p1"), P("String")))},
	"Trailers": {Fn(C("Attribute", S("r1"), P("String")))}, "Headers": {Fn(C("Attribute", S("p1"), P("String")))},
	"HTTP": {Fn()}, "Consumes": {S("application/json")}, "Produces": {S("application/json")}, "Path": {S("/pp")},
	"GET": {S("/pg")}, "HEAD": {S("/pg")}, "POST": {S("/pg")}, "PUT": {S("/pg")}, "DELETE": {S("/pg")}, "OPTIONS": {S("/pg")},
	"TRACE": {S("/pg")}, "CONNECT": {S("/pg")}, "PATCH": {S("/pg")},
	"Header": {S("ph")}, "Cookie": {S("pc")}, "CookieMaxAge": {I(3)}, "CookieDomain": {S("d.io")}, "CookiePath": {S("/")},
	"CookieSecure": {}, "CookieHTTPOnly": {}, "CookieSameSite": {S("lax")}, "Params": {Fn(C("Attribute", S("p1"), P("String")))}, "Param": {S("pq")},
	"MapParams": {}, "MultipartRequest": {}, "SkipRequestBodyEncodeDecode": {}, "SkipResponseBodyEncodeDecode": {},
	"Body": {S("p1")}, "Parent": {S("par")}, "CanonicalMethod": {S("gm")}, "Tag": {S("t"), S("v")}, "ContentType": {S("application/json")},
	"Files": {S("/pf"), S("f.json")}, "Redirect": {S("/r"), I(301)}, "Meta": {S("k"), S("v")}, "Method": {S("pm2"), Fn()},
	"Deprecated": {}, "Payload": {P("String")}, "StreamingPayload": {P("String")}, "Response": {I(200)}, "Code": {I(200)},
	"Result": {P("String")}, "StreamingResult": {P("String")},
	"ResultType": {S("application/vnd.gridprobe"), Fn()}, "TypeName": {S("PTN")}, "View": {S("default")},
	"CollectionOf": {UT("application/vnd.grt")}, "Reference": {UT("GT")}, "Extend": {UT("GT")}, "Attributes": {Fn()},
	"BasicAuthSecurity": {S("p_basic")}, "APIKeySecurity": {S("p_key")}, "OAuth2Security": {S("p_o2")}, "JWTSecurity": {S("p_jwt")},
	"Security": {sch("basic_g")}, "NoSecurity": {},
	"Username": {S("pu"), P("String")}, "UsernameField": {I(8), S("puf"), P("String")},
	"Password": {S("pw"), P("String")}, "PasswordField": {I(9), S("pwf"), P("String")},
	"APIKey": {S("p_key"), S("pk"), P("String")}, "APIKeyField": {I(10), S("p_key"), S("pkf"), P("String")},
	"AccessToken": {S("pat"), P("String")}, "AccessTokenField": {I(11), S("patf"), P("String")},
	"Token": {S("ptk"), P("String")}, "TokenField": {I(12), S("ptkf"), P("String")},
	"Scope": {S("api:read")},
	"AuthorizationCodeFlow": {S("http://a.io/auth"), S("http://a.io/token"), S("http://a.io/refresh")},
	"ImplicitFlow": {S("http://a.io/auth"), S("http://a.io/refresh")},
	"PasswordFlow": {S("http://a.io/token"), S("http://a.io/refresh")},
	"ClientCredentialsFlow": {S("http://a.io/token"), S("http://a.io/refresh")},
	"Server": {S("psrv")}, "Services": {S("gs")}, "Host": {S("phost"), Fn()}, "URI": {S("http://localhost:80")},
	"Variable": {S("pv"), P("String")}, "Service": {S("ps2"), Fn()}, "Type": {S("PT2"), P("String")},
	"ArrayOf": {P("String")}, "MapOf": {P("String"), P("String")}, "Key": {Fn()}, "Elem": {Fn()},
	"Enum": {S("a")}, "Format": {S("date")}, "Pattern": {S("^a")}, "ExclusiveMinimum": {I(1)}, "Minimum": {I(1)},
	"ExclusiveMaximum": {I(9)}, "Maximum": {I(9)}, "MinLength": {I(1)}, "MaxLength": {I(9)}, "Required": {S("ga")}, "Value": {S("v")},
}

// goType -> constructor of Model.etype (same table as translate/c12)
var etypeOf = map[string]string{
	"eval.TopExpr": "TTop", "*expr.APIExpr": "TAPI", "*expr.ServerExpr": "TServer", "*expr.HostExpr": "THost",
	"*expr.ServiceExpr": "TService", "*expr.MethodExpr": "TMethod", "*expr.AttributeExpr": "TAttribute",
	"*expr.ResultTypeExpr": "TResultType", "*expr.RootExpr": "TRoot", "*expr.HTTPExpr": "THTTP",
	"*expr.HTTPServiceExpr": "THTTPService", "*expr.HTTPEndpointExpr": "THTTPEndpoint", "*expr.HTTPResponseExpr": "THTTPResponse",
	"*expr.HTTPErrorExpr": "THTTPError", "*expr.HTTPFileServerExpr": "THTTPFileServer", "*expr.RouteExpr": "TRoute",
	"*expr.MappedAttributeExpr": "TMapped", "*expr.GRPCExpr": "TGRPC", "*expr.GRPCServiceExpr": "TGRPCService",
	"*expr.GRPCEndpointExpr": "TGRPCEndpoint", "*expr.GRPCResponseExpr": "TGRPCResponse", "*expr.GRPCErrorExpr": "TGRPCError",
	"*expr.SchemeExpr": "TScheme", "*expr.SecurityExpr": "TSecurity", "*expr.ContactExpr": "TContact",
	"*expr.LicenseExpr": "TLicense", "*expr.DocsExpr": "TDocs", "*expr.ExampleExpr": "TExample",
}

// gridItems builds one program per (function, context).
func gridItems(names []string) []*Item {
	var items []*Item
	sorted := append([]string{}, names...)
	sort.Strings(sorted)
	for fi, fn := range sorted {
		args, ok := benign[fn]
		if !ok {
			continue
		}
		for _, cx := range contexts {
			probe := cloneCalls([]*Call{{Fn: fn, Args: args, Probe: true}})[0]
			items = append(items, &Item{Stream: "grid", Prog: cx.Build(probe), Ctx: cx.Name, Fn: fn, FnIndex: fi})
		}
	}
	return items
}
