package main

// Projection of a design description onto the terms of coq/DSL/Model.v (design,
// attribute graph) and of goa's error messages onto Model.err.

import (
	"fmt"
	"regexp"
	"sort"
	"strings"

	dg "verifharness/designgen"
)

type gnode struct {
	kind   string // prim arr map obj
	elem   int
	key    int
	fields [][2]int // name id, node id
	user   int      // -1: none
	req    []int
	inh    []int
	// checked on the attribute itself
	view     string
	rtviews  []string // view names when the attribute's type is a result type
	isRT     bool
	badrange bool
}

type proj struct {
	d        *dg.Design
	names    map[string]int
	nodes    []*gnode
	utNode   map[string]int
	collNode map[string]int
	extraReq map[string][]string // user type -> Required names added by the mutation hook
}

func newProj(d *dg.Design, extraReq map[string][]string) *proj {
	p := &proj{d: d, names: map[string]int{"default": 0}, utNode: map[string]int{}, collNode: map[string]int{}, extraReq: extraReq}
	for i, ut := range d.Types {
		if _, dup := p.utNode[ut.Name]; !dup {
			p.utNode[ut.Name] = i
		}
		p.nodes = append(p.nodes, &gnode{kind: "prim", user: -1})
	}
	for i, ut := range d.Types {
		p.fillType(i, ut)
	}
	p.resolveUsers()
	return p
}

func (p *proj) intern(s string) int {
	if i := strings.Index(s, ":"); i >= 0 {
		s = s[:i]
	}
	if id, ok := p.names[s]; ok {
		return id
	}
	id := len(p.names)
	p.names[s] = id
	return id
}

func (p *proj) ut(name string) *dg.UserType {
	for _, t := range p.d.Types {
		if t.Name == name {
			return t
		}
	}
	return nil
}

func (p *proj) newNode(n *gnode) int {
	p.nodes = append(p.nodes, n)
	return len(p.nodes) - 1
}

func (p *proj) objFields(fs []*dg.Field) (fields [][2]int, req []int) {
	for _, f := range fs {
		id := p.intern(f.Name)
		nd := p.attrNode(&f.A)
		// Attribute called twice with the same name: obj.Set replaces
		replaced := false
		for i := range fields {
			if fields[i][0] == id {
				fields[i][1] = nd
				replaced = true
			}
		}
		if !replaced {
			fields = append(fields, [2]int{id, nd})
		}
		if f.Required {
			req = append(req, id)
		}
	}
	return
}

func (p *proj) fillType(i int, ut *dg.UserType) {
	n := p.nodes[i]
	switch ut.Base.Kind {
	case "object":
		n.kind = "obj"
		for _, ra := range ut.RefAttrs {
			n.fields = append(n.fields, [2]int{p.intern(ra), p.newNode(&gnode{kind: "prim", user: -1})})
		}
		fs, req := p.objFields(ut.Base.Attrs)
		n.fields = append(n.fields, fs...)
		n.req = req
	case "array":
		n.kind = "arr"
		n.elem = p.attrNode(ut.Base.Elem)
	case "map":
		n.kind = "map"
		n.key = p.attrNode(ut.Base.Key)
		n.elem = p.attrNode(ut.Base.Elem)
	case "user":
		if t, ok := p.utNode[ut.Base.Ref]; ok {
			n.user = t
		}
	default:
		n.kind = "prim"
	}
	for _, x := range p.extraReq[ut.Name] {
		n.req = append(n.req, p.intern(x))
	}
	for _, b := range []string{ut.Extend, ut.Reference} {
		if b != "" {
			if t, ok := p.utNode[b]; ok {
				n.inh = append(n.inh, t)
			}
		}
	}
}

func badRange(v *dg.Validation) bool {
	if v == nil {
		return false
	}
	switch {
	case v.Min != nil && v.Max != nil && *v.Min > *v.Max,
		v.Min != nil && v.ExclMax != nil && *v.Min >= *v.ExclMax,
		v.ExclMin != nil && v.Max != nil && *v.ExclMin >= *v.Max,
		v.ExclMin != nil && v.ExclMax != nil && *v.ExclMin > *v.ExclMax,
		v.MinLen != nil && v.MaxLen != nil && *v.MinLen > *v.MaxLen:
		return true
	}
	return false
}

func (p *proj) attrNode(a *dg.Attr) int {
	id := p.attrNode1(a)
	if a != nil {
		n := p.nodes[id]
		n.view = a.View
		n.badrange = badRange(a.V)
		if a.T.Kind == "user" || a.T.Kind == "collection" {
			if ut := p.ut(a.T.Ref); ut != nil && ut.Result {
				n.isRT = true
				for _, v := range ut.Views {
					n.rtviews = append(n.rtviews, v.Name)
				}
			}
		}
	}
	return id
}

func (p *proj) attrNode1(a *dg.Attr) int {
	if a == nil {
		return p.newNode(&gnode{kind: "prim", user: -1})
	}
	switch a.T.Kind {
	case "array":
		id := p.newNode(&gnode{kind: "arr", user: -1})
		p.nodes[id].elem = p.attrNode(a.T.Elem)
		return id
	case "map":
		id := p.newNode(&gnode{kind: "map", user: -1})
		p.nodes[id].key = p.attrNode(a.T.Key)
		p.nodes[id].elem = p.attrNode(a.T.Elem)
		return id
	case "object":
		id := p.newNode(&gnode{kind: "obj", user: -1})
		fs, req := p.objFields(a.T.Attrs)
		p.nodes[id].fields, p.nodes[id].req = fs, req
		return id
	case "user":
		if t, ok := p.utNode[a.T.Ref]; ok {
			return p.newNode(&gnode{kind: "pending", user: t})
		}
	case "collection":
		if t, ok := p.utNode[a.T.Ref]; ok {
			c, seen := p.collNode[a.T.Ref]
			if !seen {
				e := p.newNode(&gnode{kind: "pending", user: t})
				c = p.newNode(&gnode{kind: "arr", elem: e, user: -1})
				p.collNode[a.T.Ref] = c
			}
			return p.newNode(&gnode{kind: "pending", user: c})
		}
	}
	return p.newNode(&gnode{kind: "prim", user: -1})
}

// resolveUsers copies, into every attribute whose type is a user type, the kind and
// the required names of the user type (expr.AsObject/AsArray/AsMap and AllRequired
// unwrap user types).
func (p *proj) resolveUsers() {
	for _, n := range p.nodes {
		if n.user < 0 {
			continue
		}
		t := p.nodes[n.user]
		for hops := 0; t.user >= 0 && hops < len(p.nodes); hops++ {
			t = p.nodes[t.user]
		}
		if t.kind == "pending" {
			n.kind = "prim"
			continue
		}
		n.kind, n.elem, n.key, n.fields, n.req = t.kind, t.elem, t.key, t.fields, t.req
	}
}

// reach returns the nodes AttributeExpr.Validate visits from the roots (object
// fields, array elements, map keys and elements).
func (p *proj) reach(roots []int) map[int]bool {
	seen := map[int]bool{}
	var walk func(n int)
	walk = func(n int) {
		if seen[n] {
			return
		}
		seen[n] = true
		nd := p.nodes[n]
		switch nd.kind {
		case "obj":
			for _, f := range nd.fields {
				walk(f[1])
			}
		case "arr":
			walk(nd.elem)
		case "map":
			walk(nd.key)
			walk(nd.elem)
		}
	}
	for _, r := range roots {
		walk(r)
	}
	return seen
}

func nat(xs []int) string {
	ss := make([]string, len(xs))
	for i, x := range xs {
		ss[i] = fmt.Sprint(x)
	}
	return "[" + strings.Join(ss, ";") + "]"
}

func (p *proj) names1(xs []string) string {
	ids := make([]int, len(xs))
	for i, x := range xs {
		ids[i] = p.intern(x)
	}
	return nat(ids)
}

func (p *proj) coqGraph() string {
	var b strings.Builder
	b.WriteString("[")
	for i, n := range p.nodes {
		if i > 0 {
			b.WriteString(";")
		}
		k := "KPrim"
		switch n.kind {
		case "arr":
			k = fmt.Sprintf("(KArr %d)", n.elem)
		case "map":
			k = fmt.Sprintf("(KMap %d %d)", n.key, n.elem)
		case "obj":
			fs := make([]string, len(n.fields))
			for j, f := range n.fields {
				fs[j] = fmt.Sprintf("(%d,%d)", f[0], f[1])
			}
			k = "(KObj [" + strings.Join(fs, ";") + "])"
		}
		u := "None"
		if n.user >= 0 {
			u = fmt.Sprintf("(Some %d)", n.user)
		}
		fmt.Fprintf(&b, "mkN %s %s %s %s", k, u, nat(n.req), nat(n.inh))
	}
	b.WriteString("]")
	return b.String()
}

func (p *proj) coqAttrs() string {
	ss := make([]string, len(p.nodes))
	for i, n := range p.nodes {
		v := "None"
		if n.view != "" {
			v = fmt.Sprintf("(Some %d)", p.intern(n.view))
		}
		rt := "None"
		if n.isRT {
			rt = "(Some " + p.names1(n.rtviews) + ")"
		}
		ss[i] = fmt.Sprintf("mkA %s %s %s", v, rt, vhBool(n.badrange))
	}
	return "[" + strings.Join(ss, ";") + "]"
}

func vhBool(b bool) string {
	if b {
		return "true"
	}
	return "false"
}

// visible lists the attribute names AttributeExpr.Find can reach in a user type: its
// own fields, then its bases and references, recursively.
func (p *proj) visible(name string, seen map[string]bool) []string {
	if seen[name] {
		return nil
	}
	seen[name] = true
	ut := p.ut(name)
	if ut == nil || ut.Base.Kind != "object" {
		return nil
	}
	var ns []string
	ns = append(ns, ut.RefAttrs...)
	for _, f := range ut.Base.Attrs {
		ns = append(ns, f.Name)
	}
	for _, b := range []string{ut.Extend, ut.Reference} {
		if b != "" {
			ns = append(ns, p.visible(b, seen)...)
		}
	}
	return ns
}

func (p *proj) shape(a *dg.Attr) string {
	if a == nil {
		return "SEmpty"
	}
	switch a.T.Kind {
	case "object":
		if len(a.T.Attrs) == 0 {
			return "SEmpty"
		}
		var ns []string
		for _, f := range a.T.Attrs {
			ns = append(ns, f.Name)
		}
		return "(SObj " + p.names1(ns) + ")"
	case "user":
		ut := p.ut(a.T.Ref)
		if ut == nil {
			return "SOther"
		}
		if ut.Base.Kind == "object" {
			return "(SObj " + p.names1(p.visible(a.T.Ref, map[string]bool{})) + ")"
		}
		return "SUserNonObj"
	case "collection":
		return "SUserNonObj"
	}
	return "SOther"
}

// creds lists the credential attributes MethodExpr.Validate finds in a payload
// (hasTag: the attributes of the object, through the user type and its bases).
func (p *proj) creds(a *dg.Attr) string {
	var fs []*dg.Field
	var collect func(name string, seen map[string]bool)
	collect = func(name string, seen map[string]bool) {
		if seen[name] {
			return
		}
		seen[name] = true
		if ut := p.ut(name); ut != nil && ut.Base.Kind == "object" {
			fs = append(fs, ut.Base.Attrs...)
			if ut.Extend != "" {
				collect(ut.Extend, seen)
			}
		}
	}
	if a != nil {
		switch a.T.Kind {
		case "object":
			fs = a.T.Attrs
		case "user":
			collect(a.T.Ref, map[string]bool{})
		}
	}
	var cs []string
	for _, f := range fs {
		if f.A.Sec == nil {
			continue
		}
		switch f.A.Sec.Fn {
		case "Username":
			cs = append(cs, "CUser")
		case "Password":
			cs = append(cs, "CPass")
		case "APIKey":
			cs = append(cs, fmt.Sprintf("CKey %d", p.intern(f.A.Sec.Scheme)))
		case "Token":
			cs = append(cs, "CToken")
		case "AccessToken":
			cs = append(cs, "CAccess")
		}
	}
	return "[" + strings.Join(cs, ";") + "]"
}

var skindOf = map[string]string{"basic": "SBasic", "apikey": "SAPIKey", "jwt": "SJWT", "oauth2": "SOAuth2"}

func (p *proj) views(vs []dg.View) string {
	ss := make([]string, len(vs))
	for i, v := range vs {
		var ns []string
		for _, a := range v.Attrs {
			ns = append(ns, a.Name)
		}
		ss[i] = fmt.Sprintf("mkV %d %s", p.intern(v.Name), p.names1(ns))
	}
	return "[" + strings.Join(ss, ";") + "]"
}

func (p *proj) result(m *dg.Method) string {
	a := m.Result
	if a == nil {
		a = m.StreamingResult
	}
	vs := "None"
	if a != nil && (a.T.Kind == "user" || a.T.Kind == "collection") {
		if ut := p.ut(a.T.Ref); ut != nil && ut.Result {
			vs = "(Some " + p.views(ut.Views) + ")"
		}
	}
	fx := "None"
	if m.ResultView != "" {
		fx = fmt.Sprintf("(Some %d)", p.intern(m.ResultView))
	}
	return fmt.Sprintf("(mkR %s %s %s)", p.shape(a), vs, fx)
}

var errorResultAttrs = []string{"name", "id", "message", "temporary", "timeout", "fault"}

func (p *proj) errdefs(es []dg.ErrorDef) string {
	ss := make([]string, len(es))
	for i, e := range es {
		sh := "(SObj " + p.names1(errorResultAttrs) + ")"
		if e.T != nil {
			sh = p.shape(&dg.Attr{T: *e.T})
		}
		ss[i] = fmt.Sprintf("mkE %d %s", p.intern(e.Name), sh)
	}
	return "[" + strings.Join(ss, ";") + "]"
}

func attrsOf(ms []dg.MapEntry) []string {
	ns := make([]string, len(ms))
	for i, m := range ms {
		ns[i] = m.Attr
	}
	return ns
}

func (p *proj) body(b *dg.BodySpec) string {
	switch {
	case b == nil:
		return "BDefault"
	case b.Empty:
		return "BEmptyBody"
	case b.Attr != "":
		return fmt.Sprintf("(BName %d)", p.intern(b.Attr))
	}
	return "(BNames " + p.names1(b.Attrs) + ")"
}

func (p *proj) eresponses(es []dg.ErrResponse) string {
	ss := make([]string, len(es))
	for i, e := range es {
		ss[i] = fmt.Sprintf("mkEr %d %s", p.intern(e.Name), p.names1(attrsOf(e.R.Headers)))
	}
	return "[" + strings.Join(ss, ";") + "]"
}

func (p *proj) reqs(rs []dg.Requirement, nosec bool) string {
	var ss []string
	if nosec {
		ss = append(ss, "mkQ [] []")
	}
	for _, r := range rs {
		ss = append(ss, fmt.Sprintf("mkQ %s %s", p.names1(r.Schemes), p.names1(r.Scopes)))
	}
	return "[" + strings.Join(ss, ";") + "]"
}

var wildcardRe = regexp.MustCompile(`/{\*?([a-zA-Z0-9_:]+)}`)

func wildcards(paths ...string) []string {
	var ws []string
	seen := map[string]bool{}
	for _, path := range paths {
		for _, m := range wildcardRe.FindAllStringSubmatch(path, -1) {
			if !seen[m[1]] {
				seen[m[1]] = true
				ws = append(ws, m[1])
			}
		}
	}
	return ws
}

func (p *proj) http(s *dg.Service, h *dg.HTTPMap) string {
	var paths []string
	for _, r := range h.Routes {
		paths = append(paths, r.Path)
		if !strings.HasPrefix(r.Path, "//") {
			paths = append(paths, s.BasePath, p.d.BasePath)
		}
	}
	mp := "None"
	switch h.MapParams {
	case "":
	case "*":
		mp = "(Some None)"
	default:
		mp = fmt.Sprintf("(Some (Some %d))", p.intern(h.MapParams))
	}
	rs := make([]string, len(h.Responses))
	for i, r := range h.Responses {
		tag := "None"
		if len(r.Tag) == 2 {
			tag = fmt.Sprintf("(Some %d)", p.intern(r.Tag[0]))
		}
		rs[i] = fmt.Sprintf("mkRs %s %s %s %s", tag, p.names1(attrsOf(r.Headers)), p.names1(attrsOf(r.Cookies)), p.body(r.Body))
	}
	return fmt.Sprintf("(mkH %s %s %s %s %s %s [%s] %s)", p.names1(wildcards(paths...)), p.names1(attrsOf(h.Params)),
		p.names1(attrsOf(h.Headers)), p.names1(attrsOf(h.Cookies)), p.body(h.Body), mp, strings.Join(rs, ";"), p.eresponses(h.Errors))
}

// coqDesign prints the design as a Model.design term; roots are the attribute nodes
// MethodExpr.Validate starts from.
func (p *proj) coqDesign() (term string, roots []int) {
	d := p.d
	var svcs []string
	for _, s := range d.Services {
		var ms []string
		for _, m := range s.Methods {
			for k, a := range []*dg.Attr{m.Payload, m.StreamingPayload, m.Result, m.StreamingResult} {
				if a != nil && !(a.T.Kind == "object" && len(a.T.Attrs) == 0) {
					id := p.attrNode(a)
					if k == 2 && m.ResultView != "" {
						p.nodes[id].view = m.ResultView // Result(T, func() { View(v) })
					}
					roots = append(roots, id)
				}
			}
			h := "None"
			if m.HTTP != nil {
				h = "(Some " + p.http(s, m.HTTP) + ")"
			}
			ms = append(ms, fmt.Sprintf("mkM %s %s %s %s %s %s", p.shape(m.Payload), p.creds(m.Payload), p.result(m), p.errdefs(m.Errors), p.reqs(m.Security, m.NoSecurity), h))
		}
		svcs = append(svcs, fmt.Sprintf("mkS %s %s %s [%s]", p.errdefs(s.Errors), p.reqs(s.Security, false), p.eresponses(s.HTTPErrs), strings.Join(ms, ";")))
	}
	p.resolveUsers()
	var schemes, rts []string
	for _, sc := range d.Schemes {
		schemes = append(schemes, fmt.Sprintf("mkSc %d %s %s", p.intern(sc.Name), skindOf[sc.Kind], p.names1(sc.Scopes)))
	}
	for _, ut := range d.Types {
		if ut.Result {
			attrs := append(p.visible(ut.Name, map[string]bool{}), "links")
			rts = append(rts, fmt.Sprintf("mkRT %s %s", p.names1(attrs), p.views(ut.Views)))
		}
	}
	term = fmt.Sprintf("(mkD %s %s %s [%s] [%s] [%s] %s %s %s)", p.errdefs(d.Errors), p.reqs(d.Security, false), p.eresponses(d.HTTPErrs),
		strings.Join(schemes, ";"), strings.Join(rts, ";"), strings.Join(svcs, ";"), p.coqGraph(), nat(roots), p.coqAttrs())
	return term, roots
}

// ---- goa's messages -> Model.err ----

type errPat struct {
	re   *regexp.Regexp
	ctor string // "" : constructor without a name
}

var errPats = []errPat{
	{regexp.MustCompile(`Route param "([^"]+)" not found in method payload`), "EPathParam"},
	{regexp.MustCompile(`Path parameter "([^"]+)" not found in payload`), "EPathParam"},
	{regexp.MustCompile(`Query string parameter "([^"]+)" not found in payload`), "EQueryParam"},
	{regexp.MustCompile(`header "([^"]+)" not found in payload`), "EHeader"},
	{regexp.MustCompile(`cookie "([^"]+)" not found in payload`), "ECookie"},
	{regexp.MustCompile(`Body "([^"]+)" is not found in Payload`), "EBody"},
	{regexp.MustCompile(`Request type does not have an attribute named "([^"]+)"`), "EBody"},
	{regexp.MustCompile(`Response type does not have an attribute named "([^"]+)"`), "ERespBody"},
	{regexp.MustCompile(`payload has no attribute with type map and name (\S+)`), "EMapParams"},
	{regexp.MustCompile(`(Params|Headers) are set but Payload is not defined`), "ENoPayload"},
	{regexp.MustCompile(`header "([^"]+)" has no equivalent attribute in( all views of)? result type`), "ERespHeader"},
	{regexp.MustCompile(`cookie "([^"]+)" has no equivalent attribute in( all views of)? result type`), "ERespCookie"},
	{regexp.MustCompile(`body "([^"]+)" has no equivalent attribute in`), "ERespBody"},
	{regexp.MustCompile(`response defines (headers|cookies) but result is empty`), "ERespNoResult"},
	{regexp.MustCompile(`Tag attribute "([^"]+)" not found in result`), "ETag"},
	{regexp.MustCompile(`(Some responses define a Tag) but the method Result type is not an object`), "ETagNotObject"},
	{regexp.MustCompile(`Error "([^"]+)" does not match an error defined in the`), "EErrResponse"},
	{regexp.MustCompile(`header "([^"]+)" has no equivalent attribute in error type`), "EErrHeader"},
	{regexp.MustCompile(`security scheme "([^"]+)" not found`), "EScheme"},
	{regexp.MustCompile(`security scope "([^"]+)" not found in any of the security schemes`), "EScope"},
	{regexp.MustCompile(`does not define view "([^"]+)"`), "EView"},
	{regexp.MustCompile(`unknown attribute "([^"]+)"`), "EViewAttr"},
	{regexp.MustCompile(`uses view "([^"]+)" but`), "EViewNotRT"},
	{regexp.MustCompile(`(minimum is greater than|min length is greater than|is greater than or equal to exclusive|exclusive minimum is greater than)`), "EBadRange"},
	{regexp.MustCompile(`required field "([^"]+)" does not exist in type`), "ERequired"},
	{regexp.MustCompile(`does not define a (username) attribute`), "ENoUsername"},
	{regexp.MustCompile(`does not define a (password) attribute`), "ENoPassword"},
	{regexp.MustCompile(`does not define an (API key) attribute`), "ENoAPIKey"},
	{regexp.MustCompile(`does not define a (JWT) attribute`), "ENoToken"},
	{regexp.MustCompile(`does not define a (OAuth2 access token) attribute`), "ENoAccessToken"},
	{regexp.MustCompile(`defines a (username) attribute, but no`), "EStrayUsername"},
	{regexp.MustCompile(`defines a (password) attribute, but no`), "EStrayPassword"},
	{regexp.MustCompile(`defines an (API key) attribute, but no`), "EStrayAPIKey"},
	{regexp.MustCompile(`defines a (JWT token) attribute, but no`), "EStrayToken"},
	{regexp.MustCompile(`defines a (OAuth2 access token) attribute, but no`), "EStrayAccessToken"},
}

var nameless = map[string]bool{"ETagNotObject": true, "ENoPayload": true, "ERespNoResult": true, "EBadRange": true,
	"ENoUsername": true, "ENoPassword": true, "ENoAPIKey": true, "ENoToken": true, "ENoAccessToken": true,
	"EStrayUsername": true, "EStrayPassword": true, "EStrayAPIKey": true, "EStrayToken": true, "EStrayAccessToken": true}

// parseErrors maps the messages goa reported onto constructors of Model.err
// ("EHeader zzz"); messages of kinds the model does not cover are dropped.
func parseErrors(msgs []string) []string {
	set := map[string]bool{}
	for _, m := range msgs {
		for _, line := range strings.Split(m, "\n") {
			for _, ep := range errPats {
				mm := ep.re.FindStringSubmatch(line)
				if mm == nil {
					continue
				}
				if nameless[ep.ctor] {
					set[ep.ctor] = true
				} else {
					set[ep.ctor+" "+mm[1]] = true
				}
				break
			}
		}
	}
	out := make([]string, 0, len(set))
	for k := range set {
		out = append(out, k)
	}
	sort.Strings(out)
	return out
}

func (p *proj) coqErrs(parsed []string) string {
	ss := make([]string, len(parsed))
	for i, e := range parsed {
		parts := strings.SplitN(e, " ", 2)
		if len(parts) == 1 {
			ss[i] = parts[0]
		} else {
			ss[i] = fmt.Sprintf("%s %d", parts[0], p.intern(parts[1]))
		}
	}
	return "[" + strings.Join(ss, ";") + "]"
}
