package main

import dg "verifharness/designgen"

// Items travel to the workers as JSON: integer enum values come back as float64.
// fixJSON restores them (Enum(1.0) is not compatible with an Int attribute).

func isIntPrim(p string) bool {
	switch p {
	case "Int", "Int32", "Int64", "UInt", "UInt32", "UInt64":
		return true
	}
	return false
}

func fixValidation(v *dg.Validation, t *dg.Type) {
	if v == nil || t == nil || t.Kind != "prim" || !isIntPrim(t.Prim) {
		return
	}
	for i, x := range v.Enum {
		if f, ok := x.(float64); ok {
			v.Enum[i] = int(f)
		}
	}
}

func fixType(t *dg.Type) {
	if t == nil {
		return
	}
	fixAttr(t.Elem)
	fixAttr(t.Key)
	for _, f := range t.Attrs {
		fixAttr(&f.A)
	}
}

func fixAttr(a *dg.Attr) {
	if a == nil {
		return
	}
	fixValidation(a.V, &a.T)
	fixType(&a.T)
}

func fixJSON(d *dg.Design) {
	if d == nil {
		return
	}
	fixErrs := func(es []dg.ErrorDef) {
		for i := range es {
			fixType(es[i].T)
		}
	}
	fixErrs(d.Errors)
	for _, ut := range d.Types {
		fixValidation(ut.V, &ut.Base)
		fixType(&ut.Base)
	}
	for _, s := range d.Services {
		fixErrs(s.Errors)
		for _, m := range s.Methods {
			fixAttr(m.Payload)
			fixAttr(m.Result)
			fixAttr(m.StreamingPayload)
			fixAttr(m.StreamingResult)
			fixErrs(m.Errors)
		}
	}
}
