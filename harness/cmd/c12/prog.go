package main

// Programs of DSL calls as data, and an interpreter that executes them against
// goa's real dsl package through reflection. A program can express calls in any
// nesting, any order and multiplicity, nil function arguments, empty names and
// arguments of the wrong Go type wherever the signature says `any`.

import (
	"fmt"
	"reflect"
	"regexp"
	"runtime/debug"
	"sort"
	"strconv"
	"strings"

	dsl "goa.design/goa/v3/dsl"
	"goa.design/goa/v3/eval"
	"goa.design/goa/v3/expr"

	"verifharness/designgen"
)

// registry lists every exported function of goa's dsl package (checked against the
// translator's table by checks/c12.py: a function missing here is reported).
var registry = map[string]any{
	"API": dsl.API, "APIKey": dsl.APIKey, "APIKeyField": dsl.APIKeyField, "APIKeySecurity": dsl.APIKeySecurity,
	"AccessToken": dsl.AccessToken, "AccessTokenField": dsl.AccessTokenField, "ArrayOf": dsl.ArrayOf,
	"Attribute": dsl.Attribute, "Attributes": dsl.Attributes, "AuthorizationCodeFlow": dsl.AuthorizationCodeFlow,
	"BasicAuthSecurity": dsl.BasicAuthSecurity, "Body": dsl.Body, "CONNECT": dsl.CONNECT, "CanonicalMethod": dsl.CanonicalMethod,
	"ClientCredentialsFlow": dsl.ClientCredentialsFlow, "Code": dsl.Code, "CollectionOf": dsl.CollectionOf, "Consumes": dsl.Consumes,
	"Contact": dsl.Contact, "ContentType": dsl.ContentType, "ConvertTo": dsl.ConvertTo, "Cookie": dsl.Cookie,
	"CookieDomain": dsl.CookieDomain, "CookieHTTPOnly": dsl.CookieHTTPOnly, "CookieMaxAge": dsl.CookieMaxAge, "CookiePath": dsl.CookiePath,
	"CookieSameSite": dsl.CookieSameSite, "CookieSecure": dsl.CookieSecure, "CreateFrom": dsl.CreateFrom, "DELETE": dsl.DELETE,
	"Default": dsl.Default, "Deprecated": dsl.Deprecated, "Description": dsl.Description, "Docs": dsl.Docs, "Elem": dsl.Elem,
	"Email": dsl.Email, "Enum": dsl.Enum, "Error": dsl.Error, "ErrorName": dsl.ErrorName, "Example": dsl.Example,
	"ExclusiveMaximum": dsl.ExclusiveMaximum, "ExclusiveMinimum": dsl.ExclusiveMinimum, "Extend": dsl.Extend, "Fault": dsl.Fault,
	"Field": dsl.Field, "Files": dsl.Files, "Format": dsl.Format, "GET": dsl.GET, "GRPC": dsl.GRPC, "HEAD": dsl.HEAD, "HTTP": dsl.HTTP,
	"Header": dsl.Header, "Headers": dsl.Headers, "Host": dsl.Host, "ImplicitFlow": dsl.ImplicitFlow, "JWTSecurity": dsl.JWTSecurity,
	"Key": dsl.Key, "License": dsl.License, "MapOf": dsl.MapOf, "MapParams": dsl.MapParams, "MaxLength": dsl.MaxLength,
	"Maximum": dsl.Maximum, "Message": dsl.Message, "Meta": dsl.Meta, "Metadata": dsl.Metadata, "Method": dsl.Method,
	"MinLength": dsl.MinLength, "Minimum": dsl.Minimum, "MultipartRequest": dsl.MultipartRequest, "Name": dsl.Name,
	"NoSecurity": dsl.NoSecurity, "OAuth2Security": dsl.OAuth2Security, "OPTIONS": dsl.OPTIONS, "OneOf": dsl.OneOf, "PATCH": dsl.PATCH,
	"POST": dsl.POST, "PUT": dsl.PUT, "Package": dsl.Package, "Param": dsl.Param, "Params": dsl.Params, "Parent": dsl.Parent,
	"Password": dsl.Password, "PasswordField": dsl.PasswordField, "PasswordFlow": dsl.PasswordFlow, "Path": dsl.Path, "Pattern": dsl.Pattern,
	"Payload": dsl.Payload, "Produces": dsl.Produces, "Randomizer": dsl.Randomizer, "Redirect": dsl.Redirect, "Reference": dsl.Reference,
	"Required": dsl.Required, "Response": dsl.Response, "Result": dsl.Result, "ResultType": dsl.ResultType, "Scope": dsl.Scope,
	"Security": dsl.Security, "Server": dsl.Server, "Service": dsl.Service, "Services": dsl.Services,
	"SkipRequestBodyEncodeDecode": dsl.SkipRequestBodyEncodeDecode, "SkipResponseBodyEncodeDecode": dsl.SkipResponseBodyEncodeDecode,
	"StreamingPayload": dsl.StreamingPayload, "StreamingResult": dsl.StreamingResult, "TRACE": dsl.TRACE, "Tag": dsl.Tag,
	"Temporary": dsl.Temporary, "TermsOfService": dsl.TermsOfService, "Timeout": dsl.Timeout, "Title": dsl.Title, "Token": dsl.Token,
	"TokenField": dsl.TokenField, "Trailers": dsl.Trailers, "Type": dsl.Type, "TypeName": dsl.TypeName, "URI": dsl.URI, "URL": dsl.URL,
	"Username": dsl.Username, "UsernameField": dsl.UsernameField, "Value": dsl.Value, "Variable": dsl.Variable, "Version": dsl.Version,
	"View": dsl.View,
}

func registryNames() []string {
	ns := make([]string, 0, len(registry))
	for n := range registry {
		ns = append(ns, n)
	}
	sort.Strings(ns)
	return ns
}

// Arg describes one argument of a call.
//
//	s i f b      string / int / float64 / bool literal
//	nil          untyped nil
//	prim         goa primitive type named S (String, Int, ...)
//	ut           the value returned by the earlier Type/ResultType call that declared S (the string S if none)
//	sch          the value returned by the earlier *Security call that declared S (the string S if none)
//	arr map coll dsl.ArrayOf(A0[, fn]) / dsl.MapOf(A0, A1[, fn]) / dsl.CollectionOf(A0[, fn])  (evaluated where the argument is)
//	fn           func() running Body;  nilfn: a nil func()
//	badfn        func(int){} (a function of the wrong type)
//	strs         []string{S}
//	val          dsl.Val{S: I}
//	empty errres expr.Empty / expr.ErrorResult
type Arg struct {
	K     string  `json:"k"`
	S     string  `json:"s,omitempty"`
	I     int     `json:"i,omitempty"`
	F     float64 `json:"f,omitempty"`
	B     bool    `json:"b,omitempty"`
	A     []*Arg  `json:"a,omitempty"`
	Body  []*Call `json:"body,omitempty"`
	HasFn bool    `json:"has_fn,omitempty"` // arr/map/coll: pass Body as trailing func()
}

// Call is one DSL call.
type Call struct {
	Fn    string `json:"fn"`
	Args  []*Arg `json:"args,omitempty"`
	Probe bool   `json:"probe,omitempty"` // grid: the call whose local effect is observed
}

// Program is a top-level design function.
type Program struct {
	Top []*Call `json:"top"`
}

func S(s string) *Arg           { return &Arg{K: "s", S: s} }
func I(i int) *Arg              { return &Arg{K: "i", I: i} }
func P(p string) *Arg           { return &Arg{K: "prim", S: p} }
func UT(n string) *Arg          { return &Arg{K: "ut", S: n} }
func Fn(body ...*Call) *Arg     { return &Arg{K: "fn", Body: body} }
func C(fn string, args ...*Arg) *Call { return &Call{Fn: fn, Args: args} }

// ProbeObs is what the probed call did, locally.
type ProbeObs struct {
	Current   string   `json:"current"`    // %T of eval.Current() at the call
	Composite bool     `json:"composite"`  // eval.Current() implements expr.CompositeExpr
	UserType  bool     `json:"user_type"`  // eval.Current() implements expr.UserType
	DType     string   `json:"dtype"`      // data type of the attribute eval.Current() is / wraps (Model.dkind), "" if none
	Incompat  bool     `json:"incompat"`   // an "invalid use of" error was recorded during the call
	OtherErr  bool     `json:"other_err"`  // some other error was recorded during the call
	Panicked  bool     `json:"panicked"`   // the call panicked
	Errors    []string `json:"errors,omitempty"`
	// first "invalid use of" message, without its [file:line] prefix
	IncompatMsg string `json:"incompat_msg,omitempty"`
}

// Obs is the outcome of evaluating one program (or design).
type Obs struct {
	Outcome  string    `json:"outcome"` // accepted | rejected | panic | timeout | fatal
	NErr     int       `json:"nerr"`
	EmptyMsg bool      `json:"empty_msg,omitempty"` // some reported error has an empty message
	Errors   []string  `json:"errors,omitempty"`    // first messages (truncated)
	Sig      string    `json:"sig,omitempty"`       // panic:<func>:<class> | harness-bug:...
	Detail   string    `json:"detail,omitempty"`    // panic value + stack excerpt
	Probe    *ProbeObs `json:"probe,omitempty"`
	Gen      string    `json:"gen,omitempty"`     // "", ok, error, panic
	GenSig   string    `json:"gen_sig,omitempty"` // generate-panic:<func>:<class> | generate-error:<class>
	GenMsg   string    `json:"gen_msg,omitempty"`
	EvalMs   int64     `json:"eval_ms,omitempty"`
	GenMs    int64     `json:"gen_ms,omitempty"`
}

type interp struct {
	types   map[string]any
	schemes map[string]any
	probe   *ProbeObs
	inProbe bool
}

var prims = map[string]expr.DataType{
	"Boolean": expr.Boolean, "Int": expr.Int, "Int32": expr.Int32, "Int64": expr.Int64,
	"UInt": expr.UInt, "UInt32": expr.UInt32, "UInt64": expr.UInt64,
	"Float32": expr.Float32, "Float64": expr.Float64, "String": expr.String, "Bytes": expr.Bytes, "Any": expr.Any,
}

func (in *interp) fn(body []*Call) func() {
	return func() {
		for _, c := range body {
			in.call(c)
		}
	}
}

// value builds the Go value an argument stands for.
func (in *interp) value(a *Arg) any {
	if a == nil {
		return nil
	}
	switch a.K {
	case "s":
		return a.S
	case "i":
		return a.I
	case "f":
		return a.F
	case "b":
		return a.B
	case "nil":
		return nil
	case "prim":
		if p, ok := prims[a.S]; ok {
			return p
		}
		return a.S
	case "ut":
		if t, ok := in.types[a.S]; ok && t != nil {
			return t
		}
		return a.S
	case "sch":
		if t, ok := in.schemes[a.S]; ok && t != nil {
			return t
		}
		return a.S
	case "arr":
		var e any
		if len(a.A) > 0 {
			e = in.value(a.A[0])
		}
		if a.HasFn {
			return dsl.ArrayOf(e, in.fn(a.Body))
		}
		return dsl.ArrayOf(e)
	case "map":
		var k, e any
		if len(a.A) > 0 {
			k = in.value(a.A[0])
		}
		if len(a.A) > 1 {
			e = in.value(a.A[1])
		}
		if a.HasFn {
			return dsl.MapOf(k, e, in.fn(a.Body))
		}
		return dsl.MapOf(k, e)
	case "coll":
		var e any
		if len(a.A) > 0 {
			e = in.value(a.A[0])
		}
		if a.HasFn {
			return dsl.CollectionOf(e, in.fn(a.Body))
		}
		return dsl.CollectionOf(e)
	case "fn":
		return in.fn(a.Body)
	case "nilfn":
		return (func())(nil)
	case "badfn":
		return func(int) {}
	case "strs":
		return []string{a.S}
	case "val":
		return dsl.Val{a.S: a.I}
	case "rand":
		return expr.NewDeterministicRandomizer()
	case "empty":
		return expr.Empty
	case "errres":
		return expr.ErrorResult
	}
	return nil
}

var anyType = reflect.TypeOf((*any)(nil)).Elem()

// coerce turns an argument into a value of the parameter's static type. Where the
// parameter is `any` the argument goes through unchanged; where it is a concrete
// type the literal is converted (a program cannot pass an int for a string
// parameter: the Go compiler would refuse it).
func (in *interp) coerce(a *Arg, t reflect.Type) reflect.Value {
	switch t.Kind() {
	case reflect.String:
		s := ""
		if a != nil {
			switch a.K {
			case "i":
				s = strconv.Itoa(a.I)
			default:
				s = a.S
			}
		}
		return reflect.ValueOf(s).Convert(t)
	case reflect.Int:
		i := 0
		if a != nil {
			i = a.I
		}
		return reflect.ValueOf(i).Convert(t)
	case reflect.Func:
		if a != nil && a.K == "fn" {
			return reflect.ValueOf(in.fn(a.Body))
		}
		return reflect.Zero(t)
	case reflect.Interface:
		v := in.value(a)
		if v == nil {
			return reflect.Zero(t)
		}
		rv := reflect.ValueOf(v)
		if rv.Type().AssignableTo(t) {
			if t == anyType {
				return rv
			}
			return rv.Convert(t)
		}
		return reflect.Zero(t)
	}
	return reflect.Zero(t)
}

func (in *interp) call(c *Call) {
	f, ok := registry[c.Fn]
	if !ok {
		panic("c12 harness: unknown DSL function " + c.Fn)
	}
	fv := reflect.ValueOf(f)
	ft := fv.Type()
	var args []reflect.Value
	np := ft.NumIn()
	for i := 0; i < np; i++ {
		if ft.IsVariadic() && i == np-1 {
			et := ft.In(i).Elem()
			for j := i; j < len(c.Args); j++ {
				args = append(args, in.coerce(c.Args[j], et))
			}
			break
		}
		var a *Arg
		if i < len(c.Args) {
			a = c.Args[i]
		}
		args = append(args, in.coerce(a, ft.In(i)))
	}
	var n0 int
	if c.Probe {
		cur := eval.Current()
		_, comp := cur.(expr.CompositeExpr)
		_, ut := cur.(expr.UserType)
		in.probe = &ProbeObs{Current: fmt.Sprintf("%T", cur), Composite: comp, UserType: ut, DType: dkindOf(cur), Panicked: true}
		n0 = len(eval.Context.Errors)
		in.inProbe = true
	}
	out := fv.Call(args)
	if c.Probe {
		in.inProbe = false
		in.probe.Panicked = false
		for _, e := range eval.Context.Errors[n0:] {
			m := e.Error()
			if strings.Contains(m, "invalid use of") {
				if !in.probe.Incompat {
					im := strings.SplitN(m, "\n", 2)[0]
					if i := strings.Index(im, "invalid use of"); i >= 0 {
						im = im[i:]
					}
					in.probe.IncompatMsg = im
				}
				in.probe.Incompat = true
			} else {
				in.probe.OtherErr = true
			}
			if len(in.probe.Errors) < 3 {
				in.probe.Errors = append(in.probe.Errors, trunc(m, 200))
			}
		}
	}
	// remember declared types and schemes so that later arguments can refer to them
	if len(out) == 1 && len(c.Args) > 0 && !out[0].IsNil() {
		name := c.Args[0].S
		switch c.Fn {
		case "Type", "ResultType":
			if _, seen := in.types[name]; !seen {
				in.types[name] = out[0].Interface()
			}
		case "BasicAuthSecurity", "APIKeySecurity", "OAuth2Security", "JWTSecurity":
			if _, seen := in.schemes[name]; !seen {
				in.schemes[name] = out[0].Interface()
			}
		}
	}
}

// dkindOf names the data type of the attribute a context stands for.
func dkindOf(cur eval.Expression) string {
	var a *expr.AttributeExpr
	switch e := cur.(type) {
	case *expr.AttributeExpr:
		a = e
	case expr.CompositeExpr:
		a = e.Attribute()
	default:
		return ""
	}
	if a == nil {
		return ""
	}
	switch t := a.Type.(type) {
	case nil:
		return "DNil"
	case expr.Primitive:
		if t == expr.Any {
			return "DAny"
		}
		return "DPrim"
	case *expr.Array:
		return "DArray"
	case *expr.Map:
		return "DMap"
	case *expr.Object:
		return "DObject"
	case *expr.Union:
		return "DUnion"
	case *expr.ResultTypeExpr:
		if expr.IsArray(t) {
			return "DCollection"
		}
		return "DResultType"
	case expr.UserType:
		return "DUser"
	}
	return "DOther"
}

func trunc(s string, n int) string {
	if len(s) > n {
		return s[:n] + "..."
	}
	return s
}

// observeErrors fills the error part of an observation from what RunDSL returned.
func observeErrors(o *Obs, err error) {
	var msgs []string
	switch e := err.(type) {
	case eval.MultiError:
		for _, x := range e {
			msgs = append(msgs, x.Error())
		}
	default:
		msgs = append(msgs, err.Error())
	}
	o.NErr = len(msgs)
	for _, m := range msgs {
		if strings.TrimSpace(m) == "" {
			o.EmptyMsg = true
		}
		if len(o.Errors) < 12 {
			o.Errors = append(o.Errors, trunc(m, 400))
		}
	}
}

// Run evaluates a program as the goa tool would: the top-level calls run first
// (package initialisation of a design package), then eval.RunDSL.
func (p *Program) Run() (o Obs) {
	in := &interp{types: map[string]any{}, schemes: map[string]any{}}
	defer func() {
		if r := recover(); r != nil {
			st := string(debug.Stack())
			o = Obs{Outcome: "panic", Sig: panicSig("panic", fmt.Sprint(r), st), Detail: trunc(fmt.Sprint(r), 300) + "\n" + stackExcerpt(st), Probe: in.probe}
		}
	}()
	designgen.ResetGoa()
	eval.Execute(in.fn(p.Top), nil)
	err := eval.RunDSL()
	o.Probe = in.probe
	if err != nil {
		o.Outcome = "rejected"
		observeErrors(&o, err)
		return o
	}
	if eval.Context.Errors != nil {
		// cannot happen: RunDSL returns Context.Errors
		o.Outcome = "rejected"
		observeErrors(&o, eval.Context.Errors)
		return o
	}
	o.Outcome = "accepted"
	return o
}

// ---- panic signatures ----

// frames returns the function names of a debug.Stack() dump, innermost first,
// starting after the runtime's panic frames.
func frames(stack string) []string {
	lines := strings.Split(stack, "\n")
	var fs []string
	seenPanic := false
	for _, l := range lines {
		if l == "" || l[0] == '\t' || strings.HasPrefix(l, "goroutine ") {
			continue
		}
		name := l
		if i := strings.LastIndex(name, "("); i > 0 {
			name = name[:i]
		}
		if !seenPanic {
			if strings.HasPrefix(name, "panic") {
				seenPanic = true
			}
			continue
		}
		fs = append(fs, name)
	}
	return fs
}

// frameKind: goa | harness | other (standard library, third party)
func frameKind(fn string) string {
	if strings.HasPrefix(fn, goaPrefix) {
		return "goa"
	}
	first := fn
	if i := strings.Index(first, "/"); i >= 0 {
		first = first[:i]
	} else if i := strings.Index(first, "."); i >= 0 {
		first = first[:i]
	}
	if first == "main" || first == "verifharness" {
		return "harness"
	}
	return "other"
}

func panicClass(msg string) string {
	switch {
	case strings.Contains(msg, "nil pointer dereference"):
		return "nil-deref"
	case strings.Contains(msg, "index out of range"), strings.Contains(msg, "slice bounds out of range"):
		return "index"
	case strings.Contains(msg, "interface conversion"):
		return "type-assertion"
	case strings.Contains(msg, "reflect") && strings.Contains(msg, "not assignable"):
		return "reflect-not-assignable"
	case strings.Contains(msg, "reflect") && strings.Contains(msg, "zero Value"):
		return "reflect-zero-value"
	case strings.Contains(msg, "reflect"):
		return "reflect"
	case strings.Contains(msg, "nil map"):
		return "nil-map"
	}
	return "explicit"
}

const goaPrefix = "goa.design/goa/v3/"

// panicSig names the failure class of a recovered panic: the innermost goa frame
// and the kind of runtime error. A panic raised by the harness itself (a frame of
// verifharness/main before any goa frame) is flagged as such and never counted as
// a finding.
func panicSig(prefix, msg, stack string) string {
	for _, f := range frames(stack) {
		switch frameKind(f) {
		case "goa":
			fn := strings.TrimPrefix(f, goaPrefix)
			if i := strings.Index(fn, "["); i > 0 {
				fn = fn[:i]
			}
			return prefix + ":" + normFrame(fn) + ":" + panicClass(msg)
		case "harness":
			return "harness-bug:" + f
		}
	}
	return prefix + ":unknown:" + panicClass(msg)
}

var inlinedRe = regexp.MustCompile(`^dsl\.[A-Z][A-Za-z0-9]*\.([a-z][A-Za-z0-9]*)\.`)

// normFrame names a closure of an unexported dsl helper by the helper, not by the
// exported function it was inlined into (dsl.Username.useDSL.func2 -> dsl.useDSL.func2).
func normFrame(fn string) string { return inlinedRe.ReplaceAllString(fn, "dsl.$1.") }

func stackExcerpt(stack string) string {
	lines := strings.Split(stack, "\n")
	var out []string
	for _, l := range lines {
		if strings.Contains(l, "goa.design/goa/v3") || strings.HasPrefix(l, "panic") {
			out = append(out, l)
		}
		if len(out) >= 16 {
			break
		}
	}
	return strings.Join(out, "\n")
}
