package main

// The malformed stream: random function x context x argument-shape programs built
// directly on goa's dsl package - wrong nesting, repeated calls, nil functions,
// empty names, values of the wrong Go type where the signature says `any`.

import (
	"reflect"

	"verifharness/vh"
)

var strPool = []string{"", "a", "zzz", "p1", "r1", "e1", "ga", "GT", "gs", "gm", "basic_g", "default", "x y", "/", "/p/{id}", "/{*rest}",
	"//abs", "application/json", "application/vnd.grt", "text/plain; q", "id:ID", "a:b:c", "1abc", "日本", "api:read", "http://a.io/t", "%zz", "[", "date", "lax"}
var intPool = []int{0, 1, -1, 2, 7, 200, 204, 404, 99999, -2147483648}
var primPool = []string{"Boolean", "Int", "Int32", "Int64", "UInt", "UInt32", "UInt64", "Float32", "Float64", "String", "Bytes", "Any"}
var utPool = []string{"GT", "application/vnd.grt", "Nope", "T1", "MT1", "MT2"}

type mgen struct {
	r     *vh.RNG
	names []string
}

func (g *mgen) anyArg(depth int) *Arg {
	r := g.r
	switch r.Intn(20) {
	case 0, 1, 2:
		return S(vh.Pick(r, strPool))
	case 3:
		return I(vh.Pick(r, intPool))
	case 4:
		return &Arg{K: "f", F: vh.Pick(r, []float64{0, 1.5, -3, 1e308})}
	case 5:
		return &Arg{K: "b", B: r.Bool()}
	case 6:
		return &Arg{K: "nil"}
	case 7, 8, 9:
		return P(vh.Pick(r, primPool))
	case 10, 11:
		return UT(vh.Pick(r, utPool))
	case 12:
		if depth > 0 {
			return &Arg{K: "arr", A: []*Arg{g.anyArg(depth - 1)}, HasFn: r.Chance(1, 3), Body: g.body(depth-1, 2)}
		}
		return P("String")
	case 13:
		if depth > 0 {
			return &Arg{K: "map", A: []*Arg{g.anyArg(depth - 1), g.anyArg(depth - 1)}, HasFn: r.Chance(1, 3), Body: g.body(depth-1, 2)}
		}
		return P("Int")
	case 14:
		return &Arg{K: "coll", A: []*Arg{UT(vh.Pick(r, utPool))}}
	case 15, 16:
		return Fn(g.body(depth-1, 3)...)
	case 17:
		return &Arg{K: "nilfn"}
	case 18:
		return vh.Pick(r, []*Arg{{K: "badfn"}, {K: "strs", S: "a"}, {K: "val", S: "k", I: 1}, {K: "empty"}, {K: "errres"}, {K: "sch", S: "basic_g"}, {K: "sch", S: "ghost"}})
	}
	return S(vh.Pick(r, strPool))
}

func (g *mgen) body(depth, max int) []*Call {
	if depth < 0 {
		return nil
	}
	n := g.r.Intn(max + 1)
	var cs []*Call
	for i := 0; i < n; i++ {
		cs = append(cs, g.call(depth))
	}
	return cs
}

// typedArg draws an argument for a parameter of static type t.
func (g *mgen) typedArg(t reflect.Type, depth int) *Arg {
	r := g.r
	switch t.Kind() {
	case reflect.String:
		return S(vh.Pick(r, strPool))
	case reflect.Int:
		return I(vh.Pick(r, intPool))
	case reflect.Func:
		if r.Chance(1, 6) {
			return &Arg{K: "nilfn"}
		}
		return Fn(g.body(depth-1, 3)...)
	case reflect.Interface:
		if t != anyType {
			// expr.DataType / expr.Randomizer: a value of the type, sometimes nil
			if r.Chance(1, 6) {
				return &Arg{K: "nil"}
			}
			if t.Name() == "Randomizer" {
				return &Arg{K: "rand"}
			}
			switch r.Intn(4) {
			case 0:
				return P(vh.Pick(r, primPool))
			case 1:
				return &Arg{K: "arr", A: []*Arg{P("String")}}
			default:
				return UT(vh.Pick(r, utPool))
			}
		}
		return g.anyArg(depth)
	}
	return &Arg{K: "nil"}
}

// call draws one call: a random function with benign arguments, or with arguments
// drawn per parameter type (any value where the parameter is `any`).
func (g *mgen) call(depth int) *Call {
	r := g.r
	fn := g.names[r.Intn(len(g.names))]
	if r.Chance(2, 5) {
		// benign arguments, but nested bodies are random
		args := benign[fn]
		out := make([]*Arg, len(args))
		for i, a := range args {
			if a.K == "fn" && len(a.Body) == 0 {
				out[i] = Fn(g.body(depth-1, 3)...)
			} else {
				out[i] = cloneArg(a)
			}
		}
		return &Call{Fn: fn, Args: out}
	}
	ft := reflect.TypeOf(registry[fn])
	var args []*Arg
	for i := 0; i < ft.NumIn(); i++ {
		if ft.IsVariadic() && i == ft.NumIn()-1 {
			n := r.Intn(4)
			for j := 0; j < n; j++ {
				args = append(args, g.typedArg(ft.In(i).Elem(), depth))
			}
			break
		}
		args = append(args, g.typedArg(ft.In(i), depth))
	}
	return &Call{Fn: fn, Args: args}
}

// bodies returns pointers to every call list of a program (top level and every
// function literal argument), so that calls can be inserted anywhere.
func bodies(p *Program) []*[]*Call {
	out := []*[]*Call{&p.Top}
	var visitArg func(a *Arg)
	var visitCalls func(cs []*Call)
	visitArg = func(a *Arg) {
		if a == nil {
			return
		}
		if a.K == "fn" {
			out = append(out, &a.Body)
			visitCalls(a.Body)
		}
		for _, x := range a.A {
			visitArg(x)
		}
	}
	visitCalls = func(cs []*Call) {
		for _, c := range cs {
			for _, a := range c.Args {
				visitArg(a)
			}
		}
	}
	visitCalls(p.Top)
	return out
}

func cloneArg(a *Arg) *Arg {
	if a == nil {
		return nil
	}
	b := *a
	b.A = nil
	for _, x := range a.A {
		b.A = append(b.A, cloneArg(x))
	}
	b.Body = cloneCalls(a.Body)
	return &b
}

func cloneCalls(cs []*Call) []*Call {
	var out []*Call
	for _, c := range cs {
		d := &Call{Fn: c.Fn, Probe: c.Probe}
		for _, a := range c.Args {
			d.Args = append(d.Args, cloneArg(a))
		}
		out = append(out, d)
	}
	return out
}

func cloneProgram(p *Program) *Program { return &Program{Top: cloneCalls(p.Top)} }

// a small valid design used as one of the starting points
func validBase() *Program {
	return &Program{Top: []*Call{
		C("BasicAuthSecurity", S("basic_g")),
		C("Type", S("GT"), Fn(C("Attribute", S("ga"), P("String")), C("Attribute", S("gn"), P("Int")), C("Required", S("ga")))),
		C("Type", S("MT1"), Fn(C("Attribute", S("peer"), UT("MT2")), C("Attribute", S("self"), &Arg{K: "arr", A: []*Arg{UT("MT1")}}))),
		C("Type", S("MT2"), Fn(C("Attribute", S("peer"), UT("MT1")))),
		C("ResultType", S("application/vnd.grt"), Fn(
			C("Attributes", Fn(C("Attribute", S("ra"), P("String")), C("Attribute", S("rb"), P("Int")))),
			C("View", S("default"), Fn(C("Attribute", S("ra")), C("Attribute", S("rb")))),
			C("View", S("tiny"), Fn(C("Attribute", S("ra")))))),
		C("API", S("mapi"), Fn(C("Title", S("t")), C("Error", S("api_err")), C("HTTP", Fn(C("Response", S("api_err"), I(500)))))),
		C("Service", S("gs"), Fn(
			C("Error", S("svc_err")),
			C("HTTP", Fn(C("Path", S("/gs")), C("Response", S("svc_err"), I(503)))),
			C("Method", S("gm"), Fn(
				C("Payload", Fn(C("Attribute", S("p1"), P("String")), C("Attribute", S("p2"), UT("GT")), C("Attribute", S("id"), P("Int")), C("Required", S("id")))),
				C("Result", UT("application/vnd.grt")),
				C("Error", S("e1")),
				C("HTTP", Fn(C("POST", S("/m/{id}")), C("Header", S("p1:X-P1")), C("Response", I(200)), C("Response", S("e1"), I(404)))))),
			C("Method", S("gm2"), Fn(
				C("Payload", UT("MT1")),
				C("Result", &Arg{K: "arr", A: []*Arg{P("String")}}),
				C("HTTP", Fn(C("PUT", S("/m2")))))),
		)),
	}}
}

// malformedProgram draws one program: a starting point (empty, a context template
// with a random call in the hole, or the valid base) plus random insertions,
// duplications and swaps.
func malformedProgram(r *vh.RNG, names []string) *Program {
	g := &mgen{r: r, names: names}
	var p *Program
	switch r.Intn(10) {
	case 0:
		p = &Program{}
	case 1, 2, 3, 4:
		cx := contexts[r.Intn(len(contexts))]
		p = cx.Build(g.call(2))
	default:
		p = validBase()
	}
	p = cloneProgram(p)
	n := 1 + r.Intn(5)
	for i := 0; i < n; i++ {
		bs := bodies(p)
		b := bs[r.Intn(len(bs))]
		switch r.Intn(6) {
		case 0: // repeat an existing call
			if len(*b) > 0 {
				c := (*b)[r.Intn(len(*b))]
				*b = append(*b, c)
				continue
			}
			fallthrough
		case 1: // swap two calls
			if len(*b) > 1 {
				i, j := r.Intn(len(*b)), r.Intn(len(*b))
				(*b)[i], (*b)[j] = (*b)[j], (*b)[i]
				continue
			}
			fallthrough
		default:
			c := g.call(2)
			pos := r.Intn(len(*b) + 1)
			nb := append([]*Call{}, (*b)[:pos]...)
			nb = append(nb, c)
			nb = append(nb, (*b)[pos:]...)
			*b = nb
		}
	}
	return cloneProgram(p)
}
