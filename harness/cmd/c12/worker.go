package main

// Items are evaluated in child processes (the harness binary re-executed with
// -worker) so that a program that does not terminate, or that kills the process
// (Go's stack overflow is fatal, not a panic), is reported and not waited for.

import (
	"bufio"
	"bytes"
	"encoding/json"
	"fmt"
	"os"
	"os/exec"
	"path/filepath"
	"runtime/debug"
	"strings"
	"sync"
	"sync/atomic"
	"time"

	dg "verifharness/designgen"
)

// Item is one unit of work.
type Item struct {
	ID      int        `json:"id"`
	Stream  string     `json:"stream"` // witness | grid | nearvalid | malformed
	Prog    *Program   `json:"prog,omitempty"`
	Design  *dg.Design `json:"design,omitempty"`
	Mut     *Mutation  `json:"mut,omitempty"`
	Ctx     string     `json:"ctx,omitempty"`
	Fn      string     `json:"fn,omitempty"`
	FnIndex int        `json:"fn_index,omitempty"`
	Gen     bool       `json:"gen,omitempty"`     // run goa's generators when the design is accepted
	Witness string     `json:"witness,omitempty"` // signature this item is expected to reproduce
}

// Res is what a worker reports for one item.
type Res struct {
	ID     int      `json:"id"`
	Obs    Obs      `json:"obs"`
	Parsed []string `json:"parsed,omitempty"` // goa's messages mapped onto Model.err
}

// phase is what the worker is doing for the current item (read by the watchdog)
var phase atomic.Value

func evalItem(it *Item, genroot string) Res {
	res := Res{ID: it.ID}
	phase.Store("eval")
	t0 := time.Now()
	defer func() {}()
	if it.Prog != nil {
		res.Obs = it.Prog.Run()
		res.Obs.EvalMs = time.Since(t0).Milliseconds()
		return res
	}
	out := it.Design.EvalHooked(it.Mut.hook())
	res.Obs.EvalMs = time.Since(t0).Milliseconds()
	evalMs := res.Obs.EvalMs
	defer func() { res.Obs.EvalMs = evalMs }()
	switch {
	case out.Panic != "":
		parts := strings.SplitN(out.Panic, "\n", 2)
		st := ""
		if len(parts) > 1 {
			st = parts[1]
		}
		res.Obs = Obs{Outcome: "panic", Sig: panicSig("panic", parts[0], st), Detail: trunc(parts[0], 300) + "\n" + stackExcerpt(st)}
	case !out.Accepted:
		res.Obs.Outcome = "rejected"
		observeErrors(&res.Obs, out.Err)
		res.Parsed = parseErrors([]string{out.Err.Error()})
	default:
		res.Obs.Outcome = "accepted"
		if it.Gen && genroot != "" {
			dir := filepath.Join(genroot, fmt.Sprintf("d%d", it.ID))
			os.RemoveAll(dir)
			if err := os.MkdirAll(dir, 0o755); err != nil {
				panic(err)
			}
			phase.Store("generate")
			t1 := time.Now()
			_, err, pan := dg.Generate(dir, "gen")
			res.Obs.GenMs = time.Since(t1).Milliseconds()
			switch {
			case pan != "":
				parts := strings.SplitN(pan, "\n", 2)
				st := ""
				if len(parts) > 1 {
					st = parts[1]
				}
				res.Obs.Gen, res.Obs.GenSig = "panic", panicSig("generate-panic", parts[0], st)
				res.Obs.GenMsg = trunc(parts[0], 300) + "\n" + stackExcerpt(st)
			case err != nil:
				res.Obs.Gen, res.Obs.GenSig, res.Obs.GenMsg = "error", "generate-error:"+genErrClass(err.Error()), trunc(err.Error(), 600)
			default:
				res.Obs.Gen = "ok"
			}
			os.RemoveAll(dir)
		}
	}
	return res
}

func genErrClass(msg string) string {
	switch {
	case strings.Contains(msg, "expected") && strings.Contains(msg, "found"):
		return "generated-code-does-not-parse"
	case strings.Contains(msg, "protoc"):
		return "protoc"
	}
	f := strings.Fields(msg)
	if len(f) > 4 {
		f = f[:4]
	}
	return strings.Join(f, "-")
}

func readItems(path string) []*Item {
	f, err := os.Open(path)
	if err != nil {
		panic(err)
	}
	defer f.Close()
	var items []*Item
	sc := bufio.NewScanner(f)
	sc.Buffer(make([]byte, 1<<20), 64<<20)
	for sc.Scan() {
		var it Item
		if err := json.Unmarshal(sc.Bytes(), &it); err != nil {
			panic(err)
		}
		fixJSON(it.Design)
		items = append(items, &it)
	}
	return items
}

// workerMain evaluates the items of a batch file from index `from`, one result line
// per item. A watchdog ends the process (exit 3) when one item exceeds the time
// limit, after writing a timeout result for it.
// A worker evaluates at most maxPerWorker items and then exits (0); the parent starts
// a fresh one: goa keeps every validated attribute alive in a package-level map
// (expr.validated), so a long-lived process grows without bound.
const maxPerWorker = 400

func workerMain(in, out string, from int, genroot string, limit time.Duration) {
	debug.SetMaxStack(48 << 20)
	items := readItems(in)
	if len(items) > from+maxPerWorker {
		items = items[:from+maxPerWorker]
	}
	f, err := os.OpenFile(out, os.O_APPEND|os.O_CREATE|os.O_WRONLY, 0o644)
	if err != nil {
		panic(err)
	}
	var mu sync.Mutex
	write := func(r Res) {
		b, _ := json.Marshal(r)
		mu.Lock()
		f.Write(append(b, '\n'))
		mu.Unlock()
	}
	for i := from; i < len(items); i++ {
		it := items[i]
		done := make(chan struct{})
		// the evaluation itself must finish within `limit`; the code generators (run on
		// accepted designs only) get 15 times that
		var timer, timer2 *time.Timer
		expire := func(sig, what string) {
			select {
			case <-done:
				return
			default:
			}
			write(Res{ID: it.ID, Obs: Obs{Outcome: "timeout", Sig: sig, Detail: what}})
			os.Exit(3)
		}
		timer = time.AfterFunc(limit, func() {
			if phase.Load() == "generate" {
				return
			}
			expire("timeout", fmt.Sprintf("eval.RunDSL did not return within %s", limit))
		})
		timer2 = time.AfterFunc(15*limit, func() {
			expire("generate-timeout", fmt.Sprintf("accepted, but the code generators did not return within %s", 15*limit))
		})
		r := evalItem(it, genroot)
		close(done)
		timer.Stop()
		timer2.Stop()
		write(r)
	}
	f.Close()
}

// fatalSig names a fatal runtime error of a child from its stderr.
func fatalSig(stderr string) (string, string) {
	class := "unknown"
	switch {
	case strings.Contains(stderr, "stack overflow") || strings.Contains(stderr, "goroutine stack exceeds"):
		class = "stack-overflow"
	case strings.Contains(stderr, "concurrent map"):
		class = "concurrent-map"
	case strings.Contains(stderr, "out of memory"):
		class = "out-of-memory"
	}
	// the recursing function: the goa frame that occurs most often in the dump (the
	// innermost frame is whatever leaf happened to hit the limit)
	fn := "unknown"
	count := map[string]int{}
	var order []string
	for _, l := range strings.Split(stderr, "\n") {
		if !strings.HasPrefix(l, goaPrefix) {
			continue
		}
		f := strings.TrimPrefix(l, goaPrefix)
		if i := strings.LastIndex(f, "("); i > 0 {
			f = f[:i]
		}
		for {
			k := strings.LastIndex(f, ".func")
			if k < 0 {
				break
			}
			f = f[:k]
		}
		if count[f] == 0 {
			order = append(order, f)
		}
		count[f]++
	}
	best := 0
	for _, f := range order {
		if count[f] > best {
			best, fn = count[f], f
		}
	}
	lines := strings.Split(stderr, "\n")
	if len(lines) > 14 {
		lines = lines[:14]
	}
	return "fatal:" + class + ":" + fn, strings.Join(lines, "\n")
}

// runItems evaluates the items in `workers` child processes and returns one result
// per item (indexed by position).
func runItems(self, work, tag string, items []*Item, workers int, genroot string, limit time.Duration) []Res {
	if workers > len(items) {
		workers = len(items)
	}
	if workers < 1 {
		workers = 1
	}
	results := make([]Res, len(items))
	var wg sync.WaitGroup
	for w := 0; w < workers; w++ {
		var mine []int
		for i := w; i < len(items); i += workers {
			mine = append(mine, i)
		}
		wg.Add(1)
		go func(w int, mine []int) {
			defer wg.Done()
			in := filepath.Join(work, fmt.Sprintf("%s_in_%02d.jsonl", tag, w))
			out := filepath.Join(work, fmt.Sprintf("%s_out_%02d.jsonl", tag, w))
			var b bytes.Buffer
			for _, i := range mine {
				j, err := json.Marshal(items[i])
				if err != nil {
					panic(err)
				}
				b.Write(j)
				b.WriteByte('\n')
			}
			if err := os.WriteFile(in, b.Bytes(), 0o644); err != nil {
				panic(err)
			}
			os.Remove(out)
			gr := ""
			if genroot != "" {
				gr = filepath.Join(genroot, fmt.Sprintf("w%02d", w))
			}
			countLines := func() int {
				data, _ := os.ReadFile(out)
				return bytes.Count(data, []byte("\n"))
			}
			from := 0
			for from < len(mine) {
				cmd := exec.Command(self, "-worker", "-in", in, "-res", out, "-from", fmt.Sprint(from), "-genroot", gr, "-limit", limit.String())
				var stderr bytes.Buffer
				cmd.Stderr = &limitedWriter{buf: &stderr, max: 64 << 10}
				cmd.Stdout = nil
				done := make(chan error, 1)
				if err := cmd.Start(); err != nil {
					panic(err)
				}
				go func() { done <- cmd.Wait() }()
				// hard limit for the whole child, in case its own watchdog cannot fire
				hard := time.Duration(len(mine)-from)*limit*16 + 30*time.Second
				var werr error
				select {
				case werr = <-done:
				case <-time.After(hard):
					cmd.Process.Kill()
					werr = <-done
				}
				n := countLines()
				if n >= len(mine) {
					break
				}
				if werr == nil {
					if n <= from {
						panic(fmt.Sprintf("worker exited 0 without progress (%d of %d results)", n, len(mine)))
					}
					from = n // it did its share (maxPerWorker items)
					continue
				}
				if n <= from && from > 0 && n < from {
					panic("worker lost results")
				}
				if ee, ok := werr.(*exec.ExitError); ok && ee.ExitCode() == 3 {
					from = n // the timeout result has been written by the child
					continue
				}
				// the child died while evaluating item n
				sig, detail := fatalSig(stderr.String())
				if strings.Contains(stderr.String(), "c12 harness:") || (!strings.Contains(stderr.String(), "fatal error") && !strings.Contains(stderr.String(), "signal")) {
					sig = "harness-bug:worker-died"
					detail = trunc(stderr.String(), 3000)
				}
				r := Res{ID: items[mine[n]].ID, Obs: Obs{Outcome: "fatal", Sig: sig, Detail: detail}}
				j, _ := json.Marshal(r)
				f, _ := os.OpenFile(out, os.O_APPEND|os.O_CREATE|os.O_WRONLY, 0o644)
				f.Write(append(j, '\n'))
				f.Close()
				from = n + 1
			}
			data, _ := os.ReadFile(out)
			k := 0
			sc := bufio.NewScanner(bytes.NewReader(data))
			sc.Buffer(make([]byte, 1<<20), 64<<20)
			for sc.Scan() && k < len(mine) {
				var r Res
				if err := json.Unmarshal(sc.Bytes(), &r); err != nil {
					panic(err)
				}
				results[mine[k]] = r
				k++
			}
			if k != len(mine) {
				panic(fmt.Sprintf("worker %d: %d results for %d items", w, k, len(mine)))
			}
			os.Remove(in)
			os.Remove(out)
		}(w, mine)
	}
	wg.Wait()
	return results
}

type limitedWriter struct {
	buf *bytes.Buffer
	max int
}

func (l *limitedWriter) Write(p []byte) (int, error) {
	if l.buf.Len() < l.max {
		room := l.max - l.buf.Len()
		if room > len(p) {
			room = len(p)
		}
		l.buf.Write(p[:room])
	}
	return len(p), nil
}
