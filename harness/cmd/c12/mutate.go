package main

// Single mutations of an accepted design description (the near-valid stream) and
// what the property requires of each: a dangling reference must be rejected; any
// other mutation may be accepted or rejected but must not crash.

import (
	"fmt"

	dsl "goa.design/goa/v3/dsl"

	dg "verifharness/designgen"
	"verifharness/vh"
)

// Mutation describes the one change applied to the base design. The description in
// the item is already mutated; Hook* fields describe what the evaluation hook adds.
type Mutation struct {
	Kind     string `json:"kind"`
	Where    string `json:"where,omitempty"`
	Name     string `json:"name,omitempty"`
	HookType string `json:"hook_type,omitempty"` // required_missing / type_twice: the user type concerned
	Covered  bool   `json:"covered"`             // the model predicts accept / reject and the errors
	Expect   string `json:"expect"`              // reject | any
}

// hook returns the function to run at the end of the top-level design function.
func (m *Mutation) hook() func() {
	if m == nil {
		return nil
	}
	switch m.Kind {
	case "required_missing", "dangling_required_under_map":
		t, n := m.HookType, m.Name
		return func() { dg.AppendTypeDSL(t, func() { dsl.Required(n) }) }
	case "type_twice":
		t := m.HookType
		return func() { dsl.Type(t, func() { dsl.Attribute("dup", dsl.String) }) }
	}
	return nil
}

func (m *Mutation) extraReq() map[string][]string {
	if m != nil && (m.Kind == "required_missing" || m.Kind == "dangling_required_under_map") {
		return map[string][]string{m.HookType: {m.Name}}
	}
	return nil
}

type mref struct {
	si, mi int
	s      *dg.Service
	m      *dg.Method
}

func methods(d *dg.Design, pred func(*dg.Service, *dg.Method) bool) []mref {
	var out []mref
	for si, s := range d.Services {
		for mi, m := range s.Methods {
			if pred(s, m) {
				out = append(out, mref{si, mi, s, m})
			}
		}
	}
	return out
}

func utOf(d *dg.Design, name string) *dg.UserType {
	for _, t := range d.Types {
		if t.Name == name {
			return t
		}
	}
	return nil
}

func isObjAttr(d *dg.Design, a *dg.Attr) bool {
	if a == nil {
		return false
	}
	if a.T.Kind == "object" {
		return len(a.T.Attrs) > 0
	}
	if a.T.Kind == "user" {
		ut := utOf(d, a.T.Ref)
		return ut != nil && ut.Base.Kind == "object"
	}
	return false
}

func isResultTypeAttr(d *dg.Design, a *dg.Attr) bool {
	if a == nil || (a.T.Kind != "user" && a.T.Kind != "collection") {
		return false
	}
	ut := utOf(d, a.T.Ref)
	return ut != nil && ut.Result
}

func where(r mref) string { return fmt.Sprintf("%s.%s", r.s.Name, r.m.Name) }

type mutator func(d *dg.Design, r *vh.RNG) *Mutation

const ghost = "zzz"

func httpObjPayload(d *dg.Design) []mref {
	return methods(d, func(_ *dg.Service, m *dg.Method) bool { return m.HTTP != nil && isObjAttr(d, m.Payload) })
}

// methods whose result is an object looked up by name (with or without a fixed view)
func httpObjResult(d *dg.Design) []mref {
	return methods(d, func(_ *dg.Service, m *dg.Method) bool {
		return m.HTTP != nil && isObjAttr(d, m.Result)
	})
}

func multiRef(d *dg.Design, r *vh.RNG, what string) *Mutation {
	if utOf(d, "MRes") != nil {
		return nil
	}
	x, ok := pickM(r, methods(d, func(_ *dg.Service, m *dg.Method) bool {
		return m.HTTP != nil && m.Payload != nil && m.Payload.T.Kind == "object" && len(m.Payload.T.Attrs) > 0
	}))
	if !ok {
		return nil
	}
	mres := &dg.UserType{Name: "MRes", Result: true, Base: dg.Obj(dg.Req("a", dg.Prim("String")), dg.F("b", dg.Prim("Int")))}
	mres.Views = []dg.View{{Name: "default", Attrs: []dg.ViewField{{Name: "a"}, {Name: "b"}}}, {Name: "tiny", Attrs: []dg.ViewField{{Name: "a"}}}}
	target := "MRes"
	n := 3 + r.Intn(2)
	pos := []int{0, n / 2, n - 1}[r.Intn(3)]
	posName := []string{"first", "middle", "last"}[map[bool]int{true: 0, false: 1}[pos == 0]]
	if pos == n-1 {
		posName = "last"
	}
	var fields []*dg.Field
	shapes := ""
	for i := 0; i < n; i++ {
		leaf := dg.A(dg.Ref(target))
		if i == pos {
			switch what {
			case "view":
				leaf.View = "nope"
			case "valid":
				leaf.View = "tiny"
			}
		}
		f := &dg.Field{Name: fmt.Sprintf("ref%d", i)}
		if what == "range" {
			// user-typed attributes take no validation of their own: the contradiction sits on
			// an array-of-MRes attribute (min length > max length)
			f.A = dg.A(dg.ArrayOf(leaf))
			if i == pos {
				f.A.V = &dg.Validation{MinLen: dg.Ip(5), MaxLen: dg.Ip(2)}
			}
			shapes += "a"
			fields = append(fields, f)
			continue
		}
		switch r.Intn(4) {
		case 0: // nested in an inline object (only inside a user type: designgen keeps inline objects at the top)
			f.A = leaf
			shapes += "p"
		case 1:
			f.A = dg.A(dg.ArrayOf(leaf))
			shapes += "a"
		default:
			f.A = leaf
			shapes += "p"
		}
		fields = append(fields, f)
	}
	parent := &dg.UserType{Name: "MParent", Base: dg.Obj(fields...)}
	d.Types = append(d.Types, mres, parent)
	whereUsed := "payload"
	if r.Bool() && what != "range" {
		res := dg.A(dg.Ref("MParent"))
		x.m.Result, x.m.ResultView = &res, ""
		x.m.HTTP.Responses = nil
		whereUsed = "result"
	} else {
		x.m.Payload.T.Attrs = append(x.m.Payload.T.Attrs, dg.F("mp", dg.Ref("MParent")))
	}
	mu := &Mutation{Kind: "multi_ref_" + what, Where: where(x) + " " + whereUsed, Name: fmt.Sprintf("%s of %d (%s)", posName, n, shapes), Covered: true, Expect: "reject"}
	if what == "valid" {
		mu.Expect = "accept"
	}
	if what == "range" {
		mu.Expect = "any" // a contradiction, not a reference: the model predicts the rejection
	}
	return mu
}

// methods with an inline object payload carrying credential attributes
func securedInline(d *dg.Design) []mref {
	return methods(d, func(_ *dg.Service, m *dg.Method) bool {
		if m.Payload == nil || m.Payload.T.Kind != "object" || m.NoSecurity {
			return false
		}
		for _, f := range m.Payload.T.Attrs {
			if f.A.Sec != nil {
				return true
			}
		}
		return false
	})
}

// ensureSecured gives one method (inline object payload, HTTP) a requirement on a
// fresh scheme of a random kind, with the credential attributes it needs.
func ensureSecured(d *dg.Design, r *vh.RNG) (mref, bool) {
	x, ok := pickM(r, methods(d, func(_ *dg.Service, m *dg.Method) bool {
		return m.HTTP != nil && m.Payload != nil && m.Payload.T.Kind == "object" && len(m.Payload.T.Attrs) > 0
	}))
	if !ok {
		return x, false
	}
	for _, s := range d.Schemes {
		if s.Name == "es_sch" {
			return x, false
		}
	}
	kind := vh.Pick(r, []string{"basic", "jwt", "oauth2", "apikey"})
	sc := dg.Scheme{Kind: kind, Name: "es_sch"}
	if kind == "jwt" || kind == "oauth2" {
		sc.Scopes = []string{"api:read"}
	}
	d.Schemes = append(d.Schemes, sc)
	var keep []*dg.Field
	for _, f := range x.m.Payload.T.Attrs {
		if f.A.Sec == nil {
			keep = append(keep, f)
		}
	}
	add := func(name, fn string) {
		sec := &dg.SecAttrKind{Fn: fn}
		if fn == "APIKey" {
			sec.Scheme = "es_sch"
		}
		keep = append(keep, &dg.Field{Name: name, A: dg.Attr{T: dg.Prim("String"), Sec: sec}})
	}
	switch kind {
	case "basic":
		add("es_user", "Username")
		add("es_pass", "Password")
	case "jwt":
		add("es_token", "Token")
	case "oauth2":
		add("es_access", "AccessToken")
	case "apikey":
		add("es_key", "APIKey")
	}
	x.m.Payload.T.Attrs = keep
	x.m.Security = []dg.Requirement{{Schemes: []string{"es_sch"}}}
	x.m.NoSecurity = false
	return x, true
}

// twoAPIKeys prepares a method (inline object payload, HTTP) for the API key
// mutations: two API key schemes ak_a / ak_b registered, the method's own credential
// attributes removed.
func twoAPIKeys(d *dg.Design, r *vh.RNG) (mref, bool) {
	x, ok := pickM(r, methods(d, func(_ *dg.Service, m *dg.Method) bool {
		return m.HTTP != nil && m.Payload != nil && m.Payload.T.Kind == "object" && len(m.Payload.T.Attrs) > 0
	}))
	if !ok {
		return x, false
	}
	for _, s := range d.Schemes {
		if s.Name == "ak_a" {
			return x, false
		}
	}
	d.Schemes = append(d.Schemes, dg.Scheme{Kind: "apikey", Name: "ak_a"}, dg.Scheme{Kind: "apikey", Name: "ak_b"})
	var keep []*dg.Field
	for _, f := range x.m.Payload.T.Attrs {
		if f.A.Sec == nil {
			keep = append(keep, f)
		}
	}
	if len(keep) == 0 {
		keep = append(keep, dg.F("plain", dg.Prim("String")))
	}
	x.m.Payload.T.Attrs = keep
	x.m.NoSecurity = false
	return x, true
}

func fieldsOf(a *dg.Attr) []*dg.Field {
	if a == nil || a.T.Kind != "object" {
		return nil
	}
	return a.T.Attrs
}

func firstResponse(h *dg.HTTPMap) *dg.Response {
	if len(h.Responses) == 0 {
		h.Responses = append(h.Responses, dg.Response{Status: 200})
	}
	// the untagged one if any
	for i := range h.Responses {
		if len(h.Responses[i].Tag) == 0 {
			return &h.Responses[i]
		}
	}
	return &h.Responses[0]
}

func pickM(r *vh.RNG, ms []mref) (mref, bool) {
	if len(ms) == 0 {
		return mref{}, false
	}
	return ms[r.Intn(len(ms))], true
}

var mutators = map[string]mutator{
	"dangling_query": func(d *dg.Design, r *vh.RNG) *Mutation {
		x, ok := pickM(r, httpObjPayload(d))
		if !ok {
			return nil
		}
		x.m.HTTP.Params = append(x.m.HTTP.Params, dg.MapEntry{Attr: ghost})
		return &Mutation{Kind: "dangling_query", Where: where(x), Name: ghost, Covered: true, Expect: "reject"}
	},
	"dangling_header": func(d *dg.Design, r *vh.RNG) *Mutation {
		x, ok := pickM(r, httpObjPayload(d))
		if !ok {
			return nil
		}
		x.m.HTTP.Headers = append(x.m.HTTP.Headers, dg.MapEntry{Attr: ghost, Wire: "X-Zzz"})
		return &Mutation{Kind: "dangling_header", Where: where(x), Name: ghost, Covered: true, Expect: "reject"}
	},
	"dangling_cookie": func(d *dg.Design, r *vh.RNG) *Mutation {
		x, ok := pickM(r, httpObjPayload(d))
		if !ok {
			return nil
		}
		x.m.HTTP.Cookies = append(x.m.HTTP.Cookies, dg.MapEntry{Attr: ghost, Wire: "zzz_ck"})
		return &Mutation{Kind: "dangling_cookie", Where: where(x), Name: ghost, Covered: true, Expect: "reject"}
	},
	"dangling_path": func(d *dg.Design, r *vh.RNG) *Mutation {
		x, ok := pickM(r, httpObjPayload(d))
		if !ok {
			return nil
		}
		for i := range x.m.HTTP.Routes {
			x.m.HTTP.Routes[i].Path += "/{" + ghost + "}"
		}
		return &Mutation{Kind: "dangling_path", Where: where(x), Name: ghost, Covered: true, Expect: "reject"}
	},
	// a wildcard in the SERVICE or API base path that the payloads do not have
	"dangling_base_path": func(d *dg.Design, r *vh.RNG) *Mutation {
		usable := func(s *dg.Service) bool {
			n := 0
			for _, m := range s.Methods {
				if m.HTTP == nil {
					continue
				}
				if m.Payload != nil && !isObjAttr(d, m.Payload) {
					return false // primitive payloads take one path parameter as the payload itself
				}
				for _, rt := range m.HTTP.Routes {
					if len(rt.Path) > 1 && rt.Path[:2] == "//" {
						return false
					}
				}
				if isObjAttr(d, m.Payload) {
					n++
				}
			}
			return n > 0
		}
		if r.Chance(1, 3) {
			for _, s := range d.Services {
				if !usable(s) {
					return nil
				}
			}
			d.BasePath += "/{" + ghost + "}"
			return &Mutation{Kind: "dangling_base_path", Where: "api", Name: ghost, Covered: true, Expect: "reject"}
		}
		var ss []*dg.Service
		for _, s := range d.Services {
			if usable(s) {
				ss = append(ss, s)
			}
		}
		if len(ss) == 0 {
			return nil
		}
		s := ss[r.Intn(len(ss))]
		s.BasePath += "/{" + ghost + "}"
		return &Mutation{Kind: "dangling_base_path", Where: "service " + s.Name, Name: ghost, Covered: true, Expect: "reject"}
	},
	// ... and the valid counterpart: every payload of the service has the attribute
	"base_path_param_valid": func(d *dg.Design, r *vh.RNG) *Mutation {
		var ss []*dg.Service
		for _, s := range d.Services {
			ok := len(s.Files) == 0
			n := 0
			for _, m := range s.Methods {
				if m.HTTP == nil {
					continue
				}
				n++
				if m.Payload == nil || m.Payload.T.Kind != "object" || len(m.Payload.T.Attrs) == 0 {
					ok = false
				}
				for _, f := range fieldsOf(m.Payload) {
					if f.Name == "tenant" {
						ok = false
					}
				}
			}
			if ok && n > 0 {
				ss = append(ss, s)
			}
		}
		if len(ss) == 0 {
			return nil
		}
		s := ss[r.Intn(len(ss))]
		s.BasePath += "/t/{tenant}"
		for _, m := range s.Methods {
			if m.HTTP != nil {
				m.Payload.T.Attrs = append(m.Payload.T.Attrs, dg.Req("tenant", dg.Prim("String")))
			}
		}
		return &Mutation{Kind: "base_path_param_valid", Where: "service " + s.Name, Name: "tenant", Covered: true, Expect: "accept"}
	},
	"dangling_body_name": func(d *dg.Design, r *vh.RNG) *Mutation {
		x, ok := pickM(r, httpObjPayload(d))
		if !ok {
			return nil
		}
		x.m.HTTP.Body = &dg.BodySpec{Attr: ghost}
		return &Mutation{Kind: "dangling_body_name", Where: where(x), Name: ghost, Covered: true, Expect: "reject"}
	},
	"dangling_body_attrs": func(d *dg.Design, r *vh.RNG) *Mutation {
		x, ok := pickM(r, httpObjPayload(d))
		if !ok {
			return nil
		}
		x.m.HTTP.Body = &dg.BodySpec{Attrs: []string{ghost}}
		return &Mutation{Kind: "dangling_body_attrs", Where: where(x), Name: ghost, Covered: true, Expect: "reject"}
	},
	"dangling_mapparams": func(d *dg.Design, r *vh.RNG) *Mutation {
		x, ok := pickM(r, httpObjPayload(d))
		if !ok || x.m.HTTP.MapParams != "" {
			return nil
		}
		x.m.HTTP.MapParams = ghost
		return &Mutation{Kind: "dangling_mapparams", Where: where(x), Name: ghost, Covered: true, Expect: "reject"}
	},
	"dangling_resp_header": func(d *dg.Design, r *vh.RNG) *Mutation {
		x, ok := pickM(r, httpObjResult(d))
		if !ok {
			return nil
		}
		name := ghost
		if isResultTypeAttr(d, x.m.Result) && r.Bool() {
			name = "b" // in the type and its default view, not in view tiny
		}
		rs := firstResponse(x.m.HTTP)
		rs.Headers = append(rs.Headers, dg.MapEntry{Attr: name, Wire: "X-Zzz"})
		return &Mutation{Kind: "dangling_resp_header", Where: where(x), Name: name, Covered: true, Expect: "reject"}
	},
	"dangling_resp_cookie": func(d *dg.Design, r *vh.RNG) *Mutation {
		x, ok := pickM(r, httpObjResult(d))
		if !ok {
			return nil
		}
		rs := firstResponse(x.m.HTTP)
		rs.Cookies = append(rs.Cookies, dg.MapEntry{Attr: ghost, Wire: "zzz_rck"})
		return &Mutation{Kind: "dangling_resp_cookie", Where: where(x), Name: ghost, Covered: true, Expect: "reject"}
	},
	"dangling_resp_body": func(d *dg.Design, r *vh.RNG) *Mutation {
		x, ok := pickM(r, httpObjResult(d))
		if !ok {
			return nil
		}
		rs := firstResponse(x.m.HTTP)
		if r.Bool() {
			rs.Body = &dg.BodySpec{Attr: ghost}
		} else {
			rs.Body = &dg.BodySpec{Attrs: []string{ghost}}
		}
		return &Mutation{Kind: "dangling_resp_body", Where: where(x), Name: ghost, Covered: true, Expect: "reject"}
	},
	// Tag("zzz", "v") on a response of a method whose result does not have zzz
	"dangling_tag": func(d *dg.Design, r *vh.RNG) *Mutation {
		x, ok := pickM(r, methods(d, func(_ *dg.Service, m *dg.Method) bool {
			return m.HTTP != nil && m.Result != nil && m.StreamingResult == nil
		}))
		if !ok {
			return nil
		}
		h := x.m.HTTP
		if len(h.Responses) == 0 {
			h.Responses = append(h.Responses, dg.Response{Status: 200})
		}
		for _, rs := range h.Responses {
			if rs.Status == 203 {
				return nil
			}
		}
		h.Responses = append([]dg.Response{{Status: 203, Tag: []string{ghost, "v"}}}, h.Responses...)
		return &Mutation{Kind: "dangling_tag", Where: where(x), Name: ghost, Covered: true, Expect: "reject"}
	},
	"undeclared_error": func(d *dg.Design, r *vh.RNG) *Mutation {
		er := dg.ErrResponse{Name: "nope", R: dg.Response{Status: 418}}
		if r.Bool() {
			// with a header: the header checks are skipped for an unknown error
			er.R.Headers = []dg.MapEntry{{Attr: "x", Wire: "X-X"}}
		}
		switch r.Intn(4) {
		case 0:
			d.HTTPErrs = append(d.HTTPErrs, er)
			return &Mutation{Kind: "undeclared_error", Where: "api", Name: "nope", Covered: true, Expect: "reject"}
		case 1:
			s := d.Services[r.Intn(len(d.Services))]
			httpSvc := false
			for _, m := range s.Methods {
				httpSvc = httpSvc || m.HTTP != nil
			}
			if !httpSvc {
				return nil
			}
			s.HTTPErrs = append(s.HTTPErrs, er)
			return &Mutation{Kind: "undeclared_error", Where: "service " + s.Name, Name: "nope", Covered: true, Expect: "reject"}
		}
		x, ok := pickM(r, methods(d, func(_ *dg.Service, m *dg.Method) bool { return m.HTTP != nil }))
		if !ok {
			return nil
		}
		x.m.HTTP.Errors = append(x.m.HTTP.Errors, er)
		return &Mutation{Kind: "undeclared_error", Where: where(x), Name: "nope", Covered: true, Expect: "reject"}
	},
	// an error response for a name that IS declared, but in a scope the response does not see:
	// service-level (API-level) Response for an error only a method (service) declares, with
	// or without the method's own response for it; method-level Response for an error only a
	// sibling method declares
	"error_wrong_scope": func(d *dg.Design, r *vh.RNG) *Mutation {
		x, ok := pickM(r, methods(d, func(_ *dg.Service, m *dg.Method) bool { return m.HTTP != nil }))
		if !ok {
			return nil
		}
		declared := func(es []dg.ErrorDef, n string) bool {
			for _, e := range es {
				if e.Name == n {
					return true
				}
			}
			return false
		}
		// an error only this method declares
		name := ""
		for _, e := range x.m.Errors {
			if !declared(x.s.Errors, e.Name) && !declared(d.Errors, e.Name) && e.T == nil {
				name = e.Name
			}
		}
		if name == "" {
			name = "only_here"
			x.m.Errors = append(x.m.Errors, dg.ErrorDef{Name: name})
			x.m.HTTP.Errors = append(x.m.HTTP.Errors, dg.ErrResponse{Name: name, R: dg.Response{Status: 422}})
		}
		dropOwn := func() string {
			if !r.Bool() {
				return ""
			}
			var keep []dg.ErrResponse
			for _, er := range x.m.HTTP.Errors {
				if er.Name != name {
					keep = append(keep, er)
				}
			}
			x.m.HTTP.Errors = keep
			return ", the method has no response of its own for it"
		}
		er := dg.ErrResponse{Name: name, R: dg.Response{Status: 418}}
		switch r.Intn(4) {
		case 0, 1:
			x.s.HTTPErrs = append(x.s.HTTPErrs, er)
			return &Mutation{Kind: "error_wrong_scope", Where: "service " + x.s.Name, Name: name + " (declared by method " + x.m.Name + " only" + dropOwn() + ")", Covered: true, Expect: "reject"}
		case 2:
			d.HTTPErrs = append(d.HTTPErrs, er)
			return &Mutation{Kind: "error_wrong_scope", Where: "api", Name: name + " (declared by method " + x.m.Name + " only" + dropOwn() + ")", Covered: true, Expect: "reject"}
		}
		// a sibling method (same or other service) answers with it
		y, ok := pickM(r, methods(d, func(_ *dg.Service, m *dg.Method) bool {
			return m.HTTP != nil && m != x.m && !declared(m.Errors, name)
		}))
		if !ok {
			d.HTTPErrs = append(d.HTTPErrs, er)
			return &Mutation{Kind: "error_wrong_scope", Where: "api", Name: name + " (declared by method " + x.m.Name + " only)", Covered: true, Expect: "reject"}
		}
		y.m.HTTP.Errors = append(y.m.HTTP.Errors, er)
		return &Mutation{Kind: "error_wrong_scope", Where: where(y), Name: name + " (declared by method " + x.m.Name + " only)", Covered: true, Expect: "reject"}
	},
	"dangling_err_header": func(d *dg.Design, r *vh.RNG) *Mutation {
		x, ok := pickM(r, methods(d, func(_ *dg.Service, m *dg.Method) bool {
			if m.HTTP == nil {
				return false
			}
			for _, e := range m.HTTP.Errors {
				if e.Name == "conflict" {
					return true
				}
			}
			return false
		}))
		if !ok {
			return nil
		}
		for i := range x.m.HTTP.Errors {
			if x.m.HTTP.Errors[i].Name == "conflict" {
				x.m.HTTP.Errors[i].R.Headers = append(x.m.HTTP.Errors[i].R.Headers, dg.MapEntry{Attr: ghost, Wire: "X-Zzz"})
			}
		}
		return &Mutation{Kind: "dangling_err_header", Where: where(x), Name: ghost, Covered: true, Expect: "reject"}
	},
	"unregistered_scheme": func(d *dg.Design, r *vh.RNG) *Mutation {
		rq := dg.Requirement{Schemes: []string{"ghost_sch"}}
		switch r.Intn(3) {
		case 0:
			d.Security = append(d.Security, rq)
			return &Mutation{Kind: "unregistered_scheme", Where: "api", Name: "ghost_sch", Covered: true, Expect: "reject"}
		case 1:
			s := d.Services[r.Intn(len(d.Services))]
			s.Security = append(s.Security, rq)
			return &Mutation{Kind: "unregistered_scheme", Where: "service " + s.Name, Name: "ghost_sch", Covered: true, Expect: "reject"}
		}
		x, _ := pickM(r, methods(d, func(*dg.Service, *dg.Method) bool { return true }))
		x.m.Security = append(x.m.Security, rq)
		return &Mutation{Kind: "unregistered_scheme", Where: where(x), Name: "ghost_sch", Covered: true, Expect: "reject"}
	},
	"unknown_scope": func(d *dg.Design, r *vh.RNG) *Mutation {
		x, ok := pickM(r, methods(d, func(_ *dg.Service, m *dg.Method) bool { return len(m.Security) > 0 && !m.NoSecurity }))
		if !ok {
			if x, ok = ensureSecured(d, r); !ok {
				return nil
			}
		}
		x.m.Security[0].Scopes = append(x.m.Security[0].Scopes, "ghost:scope")
		return &Mutation{Kind: "unknown_scope", Where: where(x), Name: "ghost:scope", Covered: true, Expect: "reject"}
	},
	"undefined_view": func(d *dg.Design, r *vh.RNG) *Mutation {
		x, ok := pickM(r, methods(d, func(_ *dg.Service, m *dg.Method) bool { return isResultTypeAttr(d, m.Result) }))
		if !ok {
			// give one method a viewed result
			x, ok = pickM(r, methods(d, func(_ *dg.Service, m *dg.Method) bool { return m.HTTP != nil }))
			if !ok || utOf(d, "Outer") != nil || utOf(d, "Inner") != nil {
				return nil
			}
			d.Types = append(d.Types, viewTypes()...)
			res := dg.A(dg.Ref("Outer"))
			x.m.Result = &res
			x.m.HTTP.Responses = nil
		}
		x.m.ResultView = "nope"
		return &Mutation{Kind: "undefined_view", Where: where(x), Name: "nope", Covered: true, Expect: "reject"}
	},
	"view_missing_attr": func(d *dg.Design, r *vh.RNG) *Mutation {
		var rts []*dg.UserType
		for _, t := range d.Types {
			if t.Result && len(t.Views) > 0 {
				rts = append(rts, t)
			}
		}
		if len(rts) == 0 {
			if utOf(d, "Outer") != nil || utOf(d, "Inner") != nil {
				return nil
			}
			rts = viewTypes()
			d.Types = append(d.Types, rts...)
		}
		t := rts[r.Intn(len(rts))]
		i := r.Intn(len(t.Views))
		t.Views[i].Attrs = append(t.Views[i].Attrs, dg.ViewField{Name: ghost})
		return &Mutation{Kind: "view_missing_attr", Where: t.Name + "." + t.Views[i].Name, Name: ghost, Covered: true, Expect: "reject"}
	},
	"required_missing": func(d *dg.Design, r *vh.RNG) *Mutation {
		// a user type object that AttributeExpr.Validate reaches from some method payload / result
		p := newProj(d, nil)
		_, roots := p.coqDesign()
		seen := p.reach(roots)
		var cands []string
		for name, id := range p.utNode {
			ut := utOf(d, name)
			if ut == nil || ut.Base.Kind != "object" {
				continue
			}
			// reached through an attribute whose type is this user type
			for n := range seen {
				if p.nodes[n].user == id {
					cands = append(cands, name)
					break
				}
			}
		}
		if len(cands) == 0 {
			return nil
		}
		sortStrings(cands)
		t := cands[r.Intn(len(cands))]
		return &Mutation{Kind: "required_missing", Where: t, Name: ghost, HookType: t, Covered: true, Expect: "reject"}
	},
	// ---- several references to one type: the dangling one is the first, a middle or the last ----
	// a parent type with sibling attributes (plain, nested in an inline object, array
	// element) all of the same result type / alias type, used as a method result or inside
	// a payload; one of them carries View("nope") (resp. minimum > maximum). The valid
	// counterpart uses a view the type defines.
	"multi_ref_view": func(d *dg.Design, r *vh.RNG) *Mutation { return multiRef(d, r, "view") },
	"multi_ref_range": func(d *dg.Design, r *vh.RNG) *Mutation { return multiRef(d, r, "range") },
	"multi_ref_valid": func(d *dg.Design, r *vh.RNG) *Mutation { return multiRef(d, r, "valid") },
	// ---- security: every scheme of an effective requirement needs its credential attribute(s) ----
	"cred_missing": func(d *dg.Design, r *vh.RNG) *Mutation {
		x, ok := pickM(r, securedInline(d))
		if !ok {
			if x, ok = ensureSecured(d, r); !ok {
				return nil
			}
		}
		var idx []int
		for i, f := range x.m.Payload.T.Attrs {
			if f.A.Sec != nil {
				idx = append(idx, i)
			}
		}
		i := idx[r.Intn(len(idx))]
		gone := x.m.Payload.T.Attrs[i]
		x.m.Payload.T.Attrs = append(append([]*dg.Field{}, x.m.Payload.T.Attrs[:i]...), x.m.Payload.T.Attrs[i+1:]...)
		return &Mutation{Kind: "cred_missing", Where: where(x), Name: gone.A.Sec.Fn, Covered: true, Expect: "reject"}
	},
	"cred_wrong_function": func(d *dg.Design, r *vh.RNG) *Mutation {
		x, ok := pickM(r, securedInline(d))
		if !ok {
			if x, ok = ensureSecured(d, r); !ok {
				return nil
			}
		}
		swap := map[string]string{"Token": "AccessToken", "AccessToken": "Token", "Username": "Password", "Password": "Username"}
		for _, f := range x.m.Payload.T.Attrs {
			if f.A.Sec != nil && swap[f.A.Sec.Fn] != "" {
				was := f.A.Sec.Fn
				f.A.Sec = &dg.SecAttrKind{Fn: swap[was]}
				return &Mutation{Kind: "cred_wrong_function", Where: where(x), Name: was + "->" + swap[was], Covered: true, Expect: "reject"}
			}
		}
		return nil
	},
	"cred_stray": func(d *dg.Design, r *vh.RNG) *Mutation {
		x, ok := pickM(r, methods(d, func(s *dg.Service, m *dg.Method) bool {
			if m.Payload == nil || m.Payload.T.Kind != "object" || len(m.Payload.T.Attrs) == 0 {
				return false
			}
			for _, f := range m.Payload.T.Attrs {
				if f.A.Sec != nil {
					return false
				}
			}
			return m.NoSecurity || (len(m.Security) == 0 && len(s.Security) == 0 && len(d.Security) == 0)
		}))
		if !ok {
			return nil
		}
		fn := vh.Pick(r, []string{"Token", "AccessToken", "Username", "Password", "APIKey"})
		sec := &dg.SecAttrKind{Fn: fn}
		if fn == "APIKey" {
			sec.Scheme = "whatever_sch"
		}
		x.m.Payload.T.Attrs = append(x.m.Payload.T.Attrs, &dg.Field{Name: "stray_cred", A: dg.Attr{T: dg.Prim("String"), Sec: sec}})
		return &Mutation{Kind: "cred_stray", Where: where(x), Name: fn, Covered: true, Expect: "reject"}
	},
	// two API key schemes: the method requires ak_a, the payload only carries the key of ak_b
	"apikey_other_scheme": func(d *dg.Design, r *vh.RNG) *Mutation {
		x, ok := twoAPIKeys(d, r)
		if !ok {
			return nil
		}
		x.m.Security = []dg.Requirement{{Schemes: []string{"ak_a"}}}
		x.m.Payload.T.Attrs = append(x.m.Payload.T.Attrs, &dg.Field{Name: "key_b", A: dg.Attr{T: dg.Prim("String"), Sec: &dg.SecAttrKind{Fn: "APIKey", Scheme: "ak_b"}}})
		x.m.HTTP.Headers = append(x.m.HTTP.Headers, dg.MapEntry{Attr: "key_b", Wire: "X-Key-B"})
		return &Mutation{Kind: "apikey_other_scheme", Where: where(x), Name: "ak_a", Covered: true, Expect: "reject"}
	},
	// both schemes are required (one Security(a, b) or two Security calls) and the payload
	// only carries the key of the first, or only of the second
	"apikey_one_of_two_missing": func(d *dg.Design, r *vh.RNG) *Mutation {
		x, ok := twoAPIKeys(d, r)
		if !ok {
			return nil
		}
		if r.Bool() {
			x.m.Security = []dg.Requirement{{Schemes: []string{"ak_a", "ak_b"}}}
		} else {
			x.m.Security = []dg.Requirement{{Schemes: []string{"ak_a"}}, {Schemes: []string{"ak_b"}}}
		}
		have := vh.Pick(r, []string{"ak_a", "ak_b"})
		f := "key_" + have[3:]
		x.m.Payload.T.Attrs = append(x.m.Payload.T.Attrs, &dg.Field{Name: f, A: dg.Attr{T: dg.Prim("String"), Sec: &dg.SecAttrKind{Fn: "APIKey", Scheme: have}}})
		x.m.HTTP.Headers = append(x.m.HTTP.Headers, dg.MapEntry{Attr: f, Wire: "X-Key-" + have[3:]})
		return &Mutation{Kind: "apikey_one_of_two_missing", Where: where(x), Name: "only the key of " + have, Covered: true, Expect: "reject"}
	},
	// ... and the valid counterparts: one or both keys, each for its own scheme
	"apikey_two_schemes_valid": func(d *dg.Design, r *vh.RNG) *Mutation {
		x, ok := twoAPIKeys(d, r)
		if !ok {
			return nil
		}
		names := []string{"ak_a", "ak_b"}
		if r.Bool() {
			names = []string{vh.Pick(r, names)}
		}
		if r.Bool() && len(names) == 2 {
			x.m.Security = []dg.Requirement{{Schemes: []string{"ak_a"}}, {Schemes: []string{"ak_b"}}}
		} else {
			x.m.Security = []dg.Requirement{{Schemes: names}}
		}
		for _, n := range names {
			f := "key_" + n[3:]
			x.m.Payload.T.Attrs = append(x.m.Payload.T.Attrs, &dg.Field{Name: f, A: dg.Attr{T: dg.Prim("String"), Sec: &dg.SecAttrKind{Fn: "APIKey", Scheme: n}}})
			x.m.HTTP.Headers = append(x.m.HTTP.Headers, dg.MapEntry{Attr: f, Wire: "X-Key-" + n[3:]})
		}
		return &Mutation{Kind: "apikey_two_schemes_valid", Where: where(x), Covered: true, Expect: "accept"}
	},
	// ---- valid designs: Reference / Extend combined with recursive attributes of the same
	// names on both sides (AttributeExpr.Inherit / Merge / Find / hash / Dup / examples) ----
	"ref_recursive": func(d *dg.Design, r *vh.RNG) *Mutation {
		x, ok := pickM(r, methods(d, func(_ *dg.Service, m *dg.Method) bool {
			return m.Payload != nil && m.Payload.T.Kind == "object" && len(m.Payload.T.Attrs) > 0
		}))
		if !ok || utOf(d, "RR1") != nil {
			return nil
		}
		wrap := func(name string) dg.Type {
			switch r.Intn(3) {
			case 0:
				return dg.ArrayOf(dg.A(dg.Ref(name)))
			case 1:
				return dg.MapOf(dg.A(dg.Prim("String")), dg.A(dg.Ref(name)))
			}
			return dg.Ref(name)
		}
		mutual := r.Bool()
		extend := r.Chance(1, 3)
		link := func(t *dg.UserType, to string) {
			if extend {
				t.Extend = to
			} else {
				t.Reference = to
				t.RefAttrs = []string{"val"}
			}
		}
		desc := "Reference"
		if extend {
			desc = "Extend"
		}
		var types []*dg.UserType
		if !mutual {
			rr := &dg.UserType{Name: "RR1", Base: dg.Obj(dg.F("next", wrap("RR1")), dg.Req("val", dg.Prim("String")), dg.F("deep", dg.Obj(dg.F("next", dg.Ref("RR1")))))}
			tt := &dg.UserType{Name: "TT1", Base: dg.Obj(dg.F("next", wrap("TT1")), dg.F("deep", dg.Obj(dg.F("next", dg.Ref("TT1")))))}
			link(tt, "RR1")
			types = []*dg.UserType{rr, tt}
			desc += " self"
		} else {
			r1 := &dg.UserType{Name: "RR1", Base: dg.Obj(dg.F("next", wrap("RR2")), dg.F("val", dg.Prim("String")))}
			r2 := &dg.UserType{Name: "RR2", Base: dg.Obj(dg.F("next", wrap("RR1")), dg.F("val", dg.Prim("String")))}
			t1 := &dg.UserType{Name: "TT1", Base: dg.Obj(dg.F("next", wrap("TT2")))}
			t2 := &dg.UserType{Name: "TT2", Base: dg.Obj(dg.F("next", wrap("TT1")))}
			link(t1, "RR1")
			link(t2, "RR2")
			types = []*dg.UserType{r1, r2, t1, t2}
			desc += " mutual"
		}
		if r.Chance(1, 3) {
			// the referencing type is a result type, returned by the method
			tt := types[len(types)-1]
			if mutual {
				tt = types[2]
			}
			_ = tt
			rt := &dg.UserType{Name: "TTRes", Result: true, Base: dg.Obj(dg.F("next", dg.Ref("TTRes")), dg.F("tt", dg.Ref("TT1")))}
			link(rt, "RR1")
			vs := []dg.ViewField{{Name: "next"}, {Name: "tt"}}
			if !extend {
				vs = append(vs, dg.ViewField{Name: "val"})
			}
			rt.Views = []dg.View{{Name: "default", Attrs: vs}}
			types = append(types, rt)
			if x.m.Result == nil || x.m.Result.T.Kind == "object" {
				res := dg.A(dg.Ref("TTRes"))
				x.m.Result, x.m.ResultView = &res, ""
				if x.m.HTTP != nil {
					x.m.HTTP.Responses = nil
				}
			}
			desc += " result-type"
		}
		d.Types = append(d.Types, types...)
		f := dg.F("rr", dg.Ref("TT1"))
		if r.Chance(1, 3) {
			f.A.Default, f.A.HasDef = map[string]any{"val": "x", "next": map[string]any{"val": "y"}}, true
			desc += " default"
		}
		x.m.Payload.T.Attrs = append(x.m.Payload.T.Attrs, f)
		if r.Chance(1, 4) {
			x.m.GRPC = &dg.GRPCMap{}
			desc += " grpc"
		}
		return &Mutation{Kind: "ref_recursive", Where: where(x), Name: desc, Expect: "any"}
	},
	// ---- mutations the model does not predict: any outcome but a crash ----
	"type_twice": func(d *dg.Design, r *vh.RNG) *Mutation {
		t := d.Types[r.Intn(len(d.Types))]
		if t.Result {
			return nil
		}
		return &Mutation{Kind: "type_twice", Where: t.Name, HookType: t.Name, Expect: "reject"}
	},
	"dup_method": func(d *dg.Design, r *vh.RNG) *Mutation {
		for _, s := range d.Services {
			if len(s.Methods) >= 2 {
				s.Methods[1].Name = s.Methods[0].Name
				if s.Methods[1].HTTP != nil {
					for i := range s.Methods[1].HTTP.Routes {
						s.Methods[1].HTTP.Routes[i].Path += "/second"
					}
				}
				return &Mutation{Kind: "dup_method", Where: s.Name, Name: s.Methods[0].Name, Expect: "any"}
			}
		}
		return nil
	},
	"dup_attr": func(d *dg.Design, r *vh.RNG) *Mutation {
		for _, t := range d.Types {
			if t.Base.Kind == "object" && len(t.Base.Attrs) > 0 {
				f := *t.Base.Attrs[0]
				f.A = dg.A(dg.Prim("Int"))
				t.Base.Attrs = append(t.Base.Attrs, &f)
				return &Mutation{Kind: "dup_attr", Where: t.Name, Name: f.Name, Expect: "any"}
			}
		}
		return nil
	},
	"dup_service": func(d *dg.Design, r *vh.RNG) *Mutation {
		if len(d.Services) < 2 {
			return nil
		}
		d.Services[1].Name = d.Services[0].Name
		return &Mutation{Kind: "dup_service", Name: d.Services[0].Name, Expect: "any"}
	},
	"contradictory_validation": func(d *dg.Design, r *vh.RNG) *Mutation {
		for _, t := range d.Types {
			if t.Base.Kind != "object" {
				continue
			}
			for _, f := range t.Base.Attrs {
				if f.A.T.Kind != "prim" {
					continue
				}
				switch f.A.T.Prim {
				case "String":
					switch r.Intn(3) {
					case 0:
						f.A.V = &dg.Validation{MinLen: dg.Ip(9), MaxLen: dg.Ip(2)}
					case 1:
						f.A.V = &dg.Validation{Enum: []any{"a", "b"}, Pattern: "^[0-9]+$"}
					default:
						f.A.V = &dg.Validation{Enum: []any{"a"}, MinLen: dg.Ip(5)}
						f.A.Default, f.A.HasDef = "zz", true
					}
					return &Mutation{Kind: "contradictory_validation", Where: t.Name + "." + f.Name, Expect: "any"}
				case "Int", "Int64", "Float64":
					f.A.V = &dg.Validation{Min: dg.Fp(10), Max: dg.Fp(1)}
					if r.Bool() {
						f.A.Default, f.A.HasDef = 100, true
					}
					return &Mutation{Kind: "contradictory_validation", Where: t.Name + "." + f.Name, Expect: "any"}
				}
			}
		}
		return nil
	},
	"required_twice": func(d *dg.Design, r *vh.RNG) *Mutation {
		for _, t := range d.Types {
			if t.Base.Kind == "object" && len(t.Base.Attrs) > 0 {
				f := *t.Base.Attrs[0]
				f.Required = true
				t.Base.Attrs[0].Required = true
				t.Base.Attrs = append(t.Base.Attrs, &f)
				return &Mutation{Kind: "required_twice", Where: t.Name, Name: f.Name, Expect: "any"}
			}
		}
		return nil
	},
	"recursive_array": func(d *dg.Design, r *vh.RNG) *Mutation {
		t := firstObjType(d)
		if t == nil {
			return nil
		}
		t.Base.Attrs = append(t.Base.Attrs, dg.F("kids", dg.ArrayOf(dg.A(dg.Ref(t.Name)))))
		return &Mutation{Kind: "recursive_array", Where: t.Name + useRecursive(d, r, t.Name), Expect: "any"}
	},
	"recursive_map": func(d *dg.Design, r *vh.RNG) *Mutation {
		t := firstObjType(d)
		if t == nil {
			return nil
		}
		t.Base.Attrs = append(t.Base.Attrs, dg.F("by_name", dg.MapOf(dg.A(dg.Prim("String")), dg.A(dg.Ref(t.Name)))))
		return &Mutation{Kind: "recursive_map", Where: t.Name + useRecursive(d, r, t.Name), Expect: "any"}
	},
	// recursion THROUGH A MAP KEY: T { by_key: MapOf(T, Int) }, a key that is an array of T,
	// A keyed by B while B refers to A
	"recursive_map_key": func(d *dg.Design, r *vh.RNG) *Mutation {
		var objs []*dg.UserType
		for _, t := range d.Types {
			if t.Base.Kind == "object" && !t.Result {
				objs = append(objs, t)
			}
		}
		if len(objs) == 0 {
			return nil
		}
		a := objs[r.Intn(len(objs))]
		desc := ""
		switch r.Intn(3) {
		case 0:
			a.Base.Attrs = append(a.Base.Attrs, dg.F("by_key", dg.MapOf(dg.A(dg.Ref(a.Name)), dg.A(dg.Prim("Int")))))
			desc = a.Name + " keyed by itself"
		case 1:
			a.Base.Attrs = append(a.Base.Attrs, dg.F("by_key", dg.MapOf(dg.A(dg.ArrayOf(dg.A(dg.Ref(a.Name)))), dg.A(dg.Prim("String")))))
			desc = a.Name + " keyed by an array of itself"
		default:
			b := objs[r.Intn(len(objs))]
			a.Base.Attrs = append(a.Base.Attrs, dg.F("by_key", dg.MapOf(dg.A(dg.Ref(b.Name)), dg.A(dg.Prim("String")))))
			if b != a {
				b.Base.Attrs = append(b.Base.Attrs, dg.F("back", dg.Ref(a.Name)))
			}
			desc = a.Name + " keyed by " + b.Name + " which refers back"
		}
		return &Mutation{Kind: "recursive_map_key", Where: desc + useRecursive(d, r, a.Name), Expect: "any"}
	},
	"mutual_recursion": func(d *dg.Design, r *vh.RNG) *Mutation {
		var objs []*dg.UserType
		for _, t := range d.Types {
			if t.Base.Kind == "object" && !t.Result {
				objs = append(objs, t)
			}
		}
		if len(objs) < 2 {
			return nil
		}
		a, b := objs[0], objs[1]
		a.Base.Attrs = append(a.Base.Attrs, dg.Req("peer_b", dg.Ref(b.Name)))
		b.Base.Attrs = append(b.Base.Attrs, dg.F("peer_a", dg.ArrayOf(dg.A(dg.Ref(a.Name)))))
		return &Mutation{Kind: "mutual_recursion", Where: a.Name + "," + b.Name + useRecursive(d, r, a.Name), Expect: "any"}
	},
	"reference_cycle": func(d *dg.Design, r *vh.RNG) *Mutation {
		var objs []*dg.UserType
		for _, t := range d.Types {
			if t.Base.Kind == "object" && !t.Result && t.Extend == "" {
				objs = append(objs, t)
			}
		}
		if len(objs) < 2 {
			return nil
		}
		a, b := objs[0], objs[1]
		a.Reference, b.Reference = b.Name, a.Name
		return &Mutation{Kind: "reference_cycle", Where: a.Name + "," + b.Name, Expect: "any"}
	},
	// ---- valid features whose generators used to crash (repaired): accepted designs, sent
	// through generator.Generate like every accepted design of this stream ----
	// a map keyed by an array, MapOf(ArrayOf(String), T), in a payload / result / user type
	"feature_map_array_key": func(d *dg.Design, r *vh.RNG) *Mutation {
		x, ok := pickM(r, methods(d, func(_ *dg.Service, m *dg.Method) bool {
			return m.HTTP != nil && m.Payload != nil && m.Payload.T.Kind == "object" && len(m.Payload.T.Attrs) > 0
		}))
		if !ok {
			return nil
		}
		key := dg.A(dg.ArrayOf(dg.A(dg.Prim(vh.Pick(r, []string{"String", "Int", "Boolean"})))))
		val := dg.A(dg.Prim(vh.Pick(r, []string{"String", "Int", "Float64"})))
		f := dg.F("by_list", dg.MapOf(key, val))
		where2 := "payload"
		switch r.Intn(3) {
		case 0:
			x.m.Payload.T.Attrs = append(x.m.Payload.T.Attrs, f)
		case 1:
			if x.m.Result != nil && x.m.Result.T.Kind == "object" {
				x.m.Result.T.Attrs = append(x.m.Result.T.Attrs, f)
				where2 = "result"
			} else {
				x.m.Payload.T.Attrs = append(x.m.Payload.T.Attrs, f)
			}
		default:
			t := firstObjType(d)
			if t == nil {
				return nil
			}
			t.Base.Attrs = append(t.Base.Attrs, f)
			x.m.Payload.T.Attrs = append(x.m.Payload.T.Attrs, dg.F("holder", dg.Ref(t.Name)))
			where2 = "type " + t.Name
		}
		return &Mutation{Kind: "feature_map_array_key", Where: where(x) + " " + where2, Covered: true, Expect: "accept"}
	},
	// Enum(1, 2, 3) on the elements of an array of Int32 / Int64 / UInt / UInt32 / UInt64
	"feature_sized_int_enum": func(d *dg.Design, r *vh.RNG) *Mutation {
		x, ok := pickM(r, methods(d, func(_ *dg.Service, m *dg.Method) bool {
			return m.HTTP != nil && m.Payload != nil && m.Payload.T.Kind == "object" && len(m.Payload.T.Attrs) > 0
		}))
		if !ok {
			return nil
		}
		el := dg.A(dg.Prim(vh.Pick(r, []string{"Int32", "Int64", "UInt", "UInt32", "UInt64"})))
		el.V = &dg.Validation{Enum: []any{1, 2, 3}}
		f := dg.F("levels", dg.ArrayOf(el))
		if r.Bool() && x.m.Result != nil && x.m.Result.T.Kind == "object" {
			x.m.Result.T.Attrs = append(x.m.Result.T.Attrs, f)
		} else {
			x.m.Payload.T.Attrs = append(x.m.Payload.T.Attrs, f)
		}
		return &Mutation{Kind: "feature_sized_int_enum", Where: where(x), Name: el.T.Prim, Covered: true, Expect: "accept"}
	},
	// types that extend themselves / each other (used as payload, result or error type):
	// every traversal over bases carries a visited set
	"extend_cycle": func(d *dg.Design, r *vh.RNG) *Mutation {
		var objs []*dg.UserType
		for _, t := range d.Types {
			if t.Base.Kind == "object" && t.Reference == "" {
				objs = append(objs, t)
			}
		}
		if len(objs) == 0 {
			return nil
		}
		a := objs[r.Intn(len(objs))]
		desc := "self " + a.Name
		if len(objs) > 1 && r.Bool() {
			b := objs[r.Intn(len(objs))]
			if b != a {
				a.Extend, b.Extend = b.Name, a.Name
				desc = "mutual " + a.Name + "," + b.Name
			} else {
				a.Extend = a.Name
			}
		} else {
			a.Extend = a.Name
		}
		// make sure some method uses it
		if x, ok := pickM(r, methods(d, func(_ *dg.Service, m *dg.Method) bool {
			return m.Payload != nil && m.Payload.T.Kind == "object" && len(m.Payload.T.Attrs) > 0
		})); ok && !a.Result {
			switch r.Intn(3) {
			case 0:
				x.m.Payload.T.Attrs = append(x.m.Payload.T.Attrs, dg.F("cyc", dg.Ref(a.Name)))
				desc += " in payload"
			case 1:
				t := dg.Ref(a.Name)
				x.m.Errors = append(x.m.Errors, dg.ErrorDef{Name: "cyc_err", T: &t})
				if x.m.HTTP != nil {
					x.m.HTTP.Errors = append(x.m.HTTP.Errors, dg.ErrResponse{Name: "cyc_err", R: dg.Response{Status: 409}})
				}
				desc += " as error type"
			}
		}
		if r.Chance(1, 4) {
			if x, ok := pickM(r, methods(d, func(_ *dg.Service, m *dg.Method) bool { return m.Payload != nil })); ok {
				x.m.GRPC = &dg.GRPCMap{}
				desc += " (gRPC on " + where(x) + ")"
			}
		}
		return &Mutation{Kind: "extend_cycle", Where: desc, Expect: "any"}
	},
	"self_reference": func(d *dg.Design, r *vh.RNG) *Mutation {
		t := firstObjType(d)
		if t == nil || t.Extend != "" {
			return nil
		}
		t.Reference = t.Name
		return &Mutation{Kind: "self_reference", Where: t.Name, Expect: "any"}
	},
	"empty_names": func(d *dg.Design, r *vh.RNG) *Mutation {
		switch r.Intn(3) {
		case 0:
			d.Services[0].Methods[0].Name = ""
			return &Mutation{Kind: "empty_names", Where: "method", Expect: "any"}
		case 1:
			d.Services[0].Name = ""
			return &Mutation{Kind: "empty_names", Where: "service", Expect: "any"}
		}
		t := firstObjType(d)
		if t == nil || len(t.Base.Attrs) == 0 {
			return nil
		}
		t.Base.Attrs[0].Name = ""
		return &Mutation{Kind: "empty_names", Where: "attribute of " + t.Name, Expect: "any"}
	},
}

// mutations that always run into a recorded finding (empty service names): drawn less often
var rare = map[string]bool{"empty_names": true}

// useRecursive makes sure some method works on the (recursive) type: a payload attribute,
// the result, a streaming payload or an error of that type; one time in three the method
// also gets a gRPC mapping (gRPC validation has its own traversals of the types).
func useRecursive(d *dg.Design, r *vh.RNG, name string) string {
	x, ok := pickM(r, methods(d, func(_ *dg.Service, m *dg.Method) bool {
		return m.Payload != nil && m.Payload.T.Kind == "object" && len(m.Payload.T.Attrs) > 0
	}))
	if !ok {
		return ""
	}
	desc := ""
	switch r.Intn(4) {
	case 0:
		if x.m.Result == nil || x.m.Result.T.Kind == "object" {
			res := dg.A(dg.Ref(name))
			x.m.Result, x.m.ResultView = &res, ""
			if x.m.HTTP != nil {
				x.m.HTTP.Responses = nil
			}
			desc = ", result of " + where(x)
			break
		}
		fallthrough
	case 1:
		t := dg.Ref(name)
		x.m.Errors = append(x.m.Errors, dg.ErrorDef{Name: "rec_err", T: &t})
		if x.m.HTTP != nil {
			x.m.HTTP.Errors = append(x.m.HTTP.Errors, dg.ErrResponse{Name: "rec_err", R: dg.Response{Status: 409}})
		}
		desc = ", error type of " + where(x)
	default:
		x.m.Payload.T.Attrs = append(x.m.Payload.T.Attrs, dg.F("rec_use", dg.Ref(name)))
		desc = ", in the payload of " + where(x)
	}
	if r.Chance(1, 3) {
		x.m.GRPC = &dg.GRPCMap{}
		desc += " (gRPC)"
	}
	return desc
}

func firstObjType(d *dg.Design) *dg.UserType {
	for _, t := range d.Types {
		if t.Base.Kind == "object" && !t.Result {
			return t
		}
	}
	return nil
}

func sortStrings(s []string) {
	for i := 1; i < len(s); i++ {
		for j := i; j > 0 && s[j] < s[j-1]; j-- {
			s[j], s[j-1] = s[j-1], s[j]
		}
	}
}

func mutatorNames() []string {
	ns := make([]string, 0, len(mutators))
	for n := range mutators {
		ns = append(ns, n)
	}
	sortStrings(ns)
	return ns
}

// nearValid draws one design and applies one mutation (or none).
func nearValid(r *vh.RNG, idx int) (*dg.Design, *Mutation) {
	opts := dg.DefaultOptions()
	// Enum(1, 2, 3) on elements of sized / unsigned integer arrays used to panic in example
	// generation (repaired): part of the ordinary envelope of this stream
	opts.UintEnums = true
	if r.Chance(2, 3) {
		// single mutations do not need big designs; small ones keep the Coq terms small
		opts.MaxServices, opts.MaxMethods = 1, 2
	}
	d := dg.Random(r.Fork(), opts, idx)
	if r.Chance(1, 8) {
		return d, &Mutation{Kind: "none", Covered: true, Expect: "accept"}
	}
	names := mutatorNames()
	for try := 0; try < 6; try++ {
		// every kind takes its turn (so that each is met in every quick run), then random
		k := names[idx%len(names)]
		if try > 0 {
			k = names[r.Intn(len(names))]
		}
		if rare[k] && !r.Chance(1, 6) {
			continue
		}
		c := d.Clone()
		if m := mutators[k](c, r); m != nil {
			return c, m
		}
	}
	return d, &Mutation{Kind: "none", Covered: true, Expect: "accept"}
}
