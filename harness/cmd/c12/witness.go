package main

// The witness stream: one fixed design / program per recorded finding of C12 (and of
// C01 as far as C12 forwards accepted designs to the generators). Each must keep
// failing with exactly its signature; the main streams are drawn outside these
// classes where the class can be avoided by construction.

import (
	_ "embed"
	"encoding/json"

	dg "verifharness/designgen"
)

// witnesses.json holds further witnesses found by the malformed / near-valid search
// (shrunk programs and designs, one per recorded signature): {signature, item}.
//
//go:embed witnesses.json
var witnessesJSON []byte

type storedWitness struct {
	Signature string `json:"signature"`
	Item      *Item  `json:"item"`
}

func svc1(m *dg.Method) []*dg.Service {
	return []*dg.Service{{Name: "ws", Methods: []*dg.Method{m}}}
}

func get(path string) *dg.HTTPMap { return &dg.HTTPMap{Routes: []dg.Route{{Verb: "GET", Path: path}}} }
func post(path string) *dg.HTTPMap { return &dg.HTTPMap{Routes: []dg.Route{{Verb: "POST", Path: path}}} }

func viewTypes() []*dg.UserType {
	inner := &dg.UserType{Name: "Inner", Result: true, Base: dg.Obj(dg.Req("i1", dg.Prim("String")), dg.F("i2", dg.Prim("Int")))}
	inner.Views = []dg.View{{Name: "default", Attrs: []dg.ViewField{{Name: "i1"}, {Name: "i2"}}}, {Name: "tiny", Attrs: []dg.ViewField{{Name: "i1"}}}}
	outer := &dg.UserType{Name: "Outer", Result: true, Base: dg.Obj(dg.Req("a", dg.Prim("String")), dg.F("b", dg.Prim("Int")), dg.F("inner", dg.Ref("Inner")))}
	outer.Views = []dg.View{
		{Name: "default", Attrs: []dg.ViewField{{Name: "a"}, {Name: "b"}, {Name: "inner"}}},
		{Name: "tiny", Attrs: []dg.ViewField{{Name: "a"}}}}
	return []*dg.UserType{inner, outer}
}

// repaired lists the signatures of findings that goa has since repaired (fix: commits
// of the C12 round). Their witnesses stay in every run as an ordinary regression corpus
// (stream "corpus"): they must now end in an accepted design or reported errors, and a
// crash / an accepted dangling reference is a fresh VIOLATION with this replay.
var repaired = map[string]bool{
	"generate-panic:codegen/cli.jsonExample:index":             true,
	"generate-panic:expr.(*Array).MakeSlice:reflect-not-assignable":           true,
	"dangling-tag-accepted":                                   true,
	"dangling-required-under-map-accepted":                    true,
	"panic:expr.(*HTTPResponseExpr).Validate.func1:nil-deref": true,
	"panic:expr.(*HTTPErrorExpr).Validate:nil-deref":          true,
	"fatal:stack-overflow:expr.(*AttributeExpr).Find":         true,
	"panic:dsl.Server:nil-deref":                              true,
	"panic:dsl.Security:index":                                true,
	"panic:dsl.cookieAttribute:nil-deref":                     true,
	"panic:dsl.Reference:nil-deref":                           true,
	"panic:dsl.Extend:nil-deref":                              true,
	"panic:dsl.useDSL.func2:nil-deref":                        true,
	"panic:dsl.Field.func2:nil-deref":                         true,
	"fatal:stack-overflow:expr.hasTag":                        true,
	"fatal:stack-overflow:expr.walkAttribute":                 true,
}

func streamOf(sig string) (string, string) {
	if repaired[sig] {
		return "corpus", ""
	}
	return "witness", sig
}

func witnessItems() []*Item {
	var items []*Item
	addD := func(sig string, d *dg.Design, m *Mutation, gen bool) {
		st, w := streamOf(sig)
		items = append(items, &Item{Stream: st, Design: d, Mut: m, Gen: gen, Witness: w})
	}
	addP := func(sig string, top ...*Call) {
		st, w := streamOf(sig)
		items = append(items, &Item{Stream: st, Prog: &Program{Top: top}, Witness: w})
	}
	str := dg.A(dg.Prim("String"))
	objA := dg.A(dg.Obj(dg.F("a", dg.Prim("String"))))

	// Tag("zzz","v") on a result without zzz
	{
		h := get("/t")
		h.Responses = []dg.Response{{Status: 202, Tag: []string{"zzz", "v"}}, {Status: 200}}
		res := objA
		addD("dangling-tag-accepted", &dg.Design{Name: "wtag", Services: svc1(&dg.Method{Name: "m", Result: &res, HTTP: h})},
			&Mutation{Kind: "dangling_tag", Where: "ws.m", Name: "zzz", Covered: true, Expect: "reject"}, false)
	}
	// Required("zzz") in a type only reached through a map
	{
		o := &dg.UserType{Name: "O", Base: dg.Obj(dg.F("x", dg.Prim("String")))}
		pl := dg.A(dg.Obj(dg.F("mm", dg.MapOf(str, dg.A(dg.Ref("O"))))))
		addD("dangling-required-under-map-accepted", &dg.Design{Name: "wreqmap", Types: []*dg.UserType{o}, Services: svc1(&dg.Method{Name: "m", Payload: &pl, HTTP: post("/r")})},
			&Mutation{Kind: "dangling_required_under_map", Where: "O", Name: "zzz", HookType: "O", Covered: true, Expect: "reject"}, false)
	}
	// Result(Outer, View("tiny")) + response header naming an attribute outside the view
	{
		h := get("/v")
		h.Responses = []dg.Response{{Status: 200, Headers: []dg.MapEntry{{Attr: "b", Wire: "X-B"}}}}
		res := dg.A(dg.Ref("Outer"))
		addD("panic:expr.(*HTTPResponseExpr).Validate.func1:nil-deref", &dg.Design{Name: "wview", Types: viewTypes(),
			Services: svc1(&dg.Method{Name: "m", Result: &res, ResultView: "tiny", HTTP: h})},
			&Mutation{Kind: "dangling_resp_header_fixed_view", Where: "ws.m", Name: "b", Expect: "reject"}, false)
	}
	// error response for an undeclared error, with a header
	{
		h := get("/e")
		h.Errors = []dg.ErrResponse{{Name: "nope", R: dg.Response{Status: 418, Headers: []dg.MapEntry{{Attr: "x", Wire: "X-X"}}}}}
		res := objA
		addD("panic:expr.(*HTTPErrorExpr).Validate:nil-deref", &dg.Design{Name: "werr", Services: svc1(&dg.Method{Name: "m", Result: &res, HTTP: h})},
			&Mutation{Kind: "undeclared_error_with_header", Where: "ws.m", Name: "nope", Expect: "reject"}, false)
	}
	// a type that extends itself, two types that extend each other
	{
		a := &dg.UserType{Name: "A", Base: dg.Obj(dg.F("a", dg.Prim("String"))), Extend: "A"}
		pl := dg.A(dg.Ref("A"))
		addD("fatal:stack-overflow:expr.hasTag", &dg.Design{Name: "wselfext", Types: []*dg.UserType{a}, Services: svc1(&dg.Method{Name: "m", Payload: &pl, HTTP: post("/x")})},
			&Mutation{Kind: "self_extend", Where: "A", Expect: "any"}, false)
		a2 := &dg.UserType{Name: "A", Base: dg.Obj(dg.F("a", dg.Prim("String"))), Extend: "B"}
		b2 := &dg.UserType{Name: "B", Base: dg.Obj(dg.F("b", dg.Prim("String"))), Extend: "A"}
		pl2 := dg.A(dg.Ref("A"))
		addD("fatal:stack-overflow:expr.hasTag", &dg.Design{Name: "wmutext", Types: []*dg.UserType{a2, b2}, Services: svc1(&dg.Method{Name: "m", Payload: &pl2, HTTP: post("/x")})},
			&Mutation{Kind: "mutual_extend", Where: "A,B", Expect: "any"}, false)
	}
	// accepted, then the generators panic
	{
		pl := dg.A(dg.Obj(dg.F("m", dg.MapOf(dg.A(dg.ArrayOf(str)), str))))
		addD("generate-panic:codegen/cli.jsonExample:index", &dg.Design{Name: "wmapkey", Services: svc1(&dg.Method{Name: "m", Payload: &pl, HTTP: post("/k")})},
			&Mutation{Kind: "map_keyed_by_array", Expect: "any"}, true)
		el := dg.A(dg.Prim("UInt32"))
		el.V = &dg.Validation{Enum: []any{1, 2, 3}}
		pl2 := dg.A(dg.Obj(dg.F("xs", dg.ArrayOf(el))))
		addD("generate-panic:expr.(*Array).MakeSlice:reflect-not-assignable", &dg.Design{Name: "wenum", Services: svc1(&dg.Method{Name: "m", Payload: &pl2, HTTP: post("/u")})},
			&Mutation{Kind: "int_enum_on_sized_int_array", Expect: "any"}, true)
	}
	// accepted with an empty / repeated / contradictory declaration, then a crash later
	{
		o := &dg.UserType{Name: "O", Base: dg.Obj(dg.F("", dg.Prim("String")), dg.F("x", dg.Prim("Int")))}
		pl := dg.A(dg.Ref("O"))
		addD("generate-error:generated-code-does-not-parse", &dg.Design{Name: "wemptyattr", Types: []*dg.UserType{o}, Services: svc1(&dg.Method{Name: "m", Payload: &pl, HTTP: post("/ea")})},
			&Mutation{Kind: "empty_names", Where: "attribute of O", Expect: "any"}, true)
		res := objA
		addD("panic:expr.concat.func2:index", &dg.Design{Name: "wemptysvc", Services: []*dg.Service{{Name: "", Methods: []*dg.Method{{Name: "m", Result: &res, HTTP: get("/es")}}}}},
			&Mutation{Kind: "empty_names", Where: "service", Expect: "any"}, false)
		addD("generate-panic:codegen.KebabCase:index", &dg.Design{Name: "wemptysvc2", Services: []*dg.Service{{Name: "", Methods: []*dg.Method{{Name: "m", HTTP: get("/es2")}}}}},
			&Mutation{Kind: "empty_names", Where: "service", Expect: "any"}, true)
		f := dg.F("s", dg.Prim("String")).With(dg.Validation{MinLen: dg.Ip(9), MaxLen: dg.Ip(2)})
		om := &dg.UserType{Name: "OM", Base: dg.Obj(f)}
		pl2 := dg.A(dg.Obj(dg.F("mm", dg.MapOf(str, dg.A(dg.Ref("OM"))))))
		// below a map: rejected since Validate descends into maps (regression corpus)
		addD("dangling-required-under-map-accepted", &dg.Design{Name: "wminmaxmap", Types: []*dg.UserType{om}, Services: svc1(&dg.Method{Name: "m", Payload: &pl2, HTTP: post("/mmm")})},
			&Mutation{Kind: "contradictory_validation", Where: "OM.s below a map", Expect: "any"}, true)
		// in a base type only reached through Extend: the bases are merged by Finalize, after validation
		ob := &dg.UserType{Name: "OBase", Base: dg.Obj(dg.F("s", dg.Prim("String")).With(dg.Validation{MinLen: dg.Ip(9), MaxLen: dg.Ip(2)}))}
		oc := &dg.UserType{Name: "OChild", Base: dg.Obj(dg.F("x", dg.Prim("Int"))), Extend: "OBase"}
		pl2 = dg.A(dg.Ref("OChild"))
		addD("generate-panic:expr.NewLength:explicit", &dg.Design{Name: "wminmax", Types: []*dg.UserType{ob, oc}, Services: svc1(&dg.Method{Name: "m", Payload: &pl2, HTTP: post("/mm")})},
			&Mutation{Kind: "contradictory_validation", Where: "OBase.s (only reached through Extend: not validated)", Expect: "any"}, true)
		f1 := dg.F("x", dg.Prim("String")).With(dg.Validation{MinLen: dg.Ip(1)})
		o2 := &dg.UserType{Name: "O", Base: dg.Obj(f1, dg.F("x", dg.Prim("Int")))}
		pl3 := dg.A(dg.Ref("O"))
		addD("generate-panic:expr.byLength:explicit", &dg.Design{Name: "wdupattr", Types: []*dg.UserType{o2}, Services: svc1(&dg.Method{Name: "m", Payload: &pl3, HTTP: post("/da")})},
			&Mutation{Kind: "dup_attr", Where: "O", Name: "x", Expect: "any"}, true)
	}
	// accepted, then the generators crash (met by the final thorough sweep once Extend cycles
	// stopped killing the process; neither needs a cycle)
	{
		// a recursive type whose array of itself has a minimum length: the example of the nested
		// element is nil at the recursion limit and MakeSlice appends an invalid reflect.Value
		ak := dg.F("kids", dg.ArrayOf(dg.A(dg.Ref("A")))).With(dg.Validation{MinLen: dg.Ip(1)})
		a := &dg.UserType{Name: "A", Base: dg.Obj(dg.F("s", dg.Prim("String")), ak)}
		pl := dg.A(dg.Ref("A"))
		addD("generate-panic:expr.(*Array).MakeSlice:reflect-zero-value", &dg.Design{Name: "wrecminlen", Types: []*dg.UserType{a}, Services: svc1(&dg.Method{Name: "m", Payload: &pl, HTTP: post("/rm")})},
			&Mutation{Kind: "recursive_array_min_length", Where: "A.kids", Expect: "any"}, true)
		// gRPC result whose element type inherits an Any attribute through Extend: gRPC validation
		// (hasAnyType) runs before Finalize merges the base, the proto generator then meets Any
		b := &dg.UserType{Name: "B", Base: dg.Obj(dg.F("x", dg.Prim("Any")))}
		t := &dg.UserType{Name: "T", Base: dg.Obj(dg.F("a", dg.Prim("String"))), Extend: "B"}
		pls := dg.A(dg.Prim("String"))
		res := dg.A(dg.ArrayOf(dg.A(dg.Ref("T"))))
		addD("generate-panic:grpc/codegen.protoNativeType:explicit", &dg.Design{Name: "wgrpcany", Types: []*dg.UserType{b, t}, Services: svc1(&dg.Method{Name: "m", Payload: &pls, Result: &res, HTTP: post("/ga"), GRPC: &dg.GRPCMap{}})},
			&Mutation{Kind: "grpc_any_in_extended_base", Where: "T extends B", Expect: "any"}, true)
	}
	// DSL functions that crash instead of reporting
	addP("panic:dsl.Server:nil-deref", C("Server", S("x")))
	addP("panic:dsl.Security:index", C("Service", S("s"), Fn(C("Security"))))
	addP("panic:dsl.cookieAttribute:nil-deref", C("Service", S("s"), Fn(C("Method", S("m"), Fn(
		C("Result", Fn(C("Attribute", S("a"), P("String")))),
		C("HTTP", Fn(C("GET", S("/")), C("Response", I(200), Fn(C("CookieMaxAge", I(3)))))))))))
	addP("panic:expr.(*dupper).DupType:explicit", C("Service", S("s"), Fn(C("Method", S("m"), Fn(
		C("Payload", Fn(C("Attribute", S("a"), P("String")))),
		C("HTTP", Fn(C("POST", S("/")), C("Body", Fn()))))))))
	var stored []storedWitness
	if err := json.Unmarshal(witnessesJSON, &stored); err != nil {
		panic("c12 harness: witnesses.json: " + err.Error())
	}
	for _, w := range stored {
		it := w.Item
		fixJSON(it.Design)
		it.Stream, it.Witness = streamOf(w.Signature)
		items = append(items, it)
	}
	// Reference cycles (self and mutual) used to overflow the stack in Find: now ordinary designs
	{
		a := &dg.UserType{Name: "A", Base: dg.Obj(dg.F("a", dg.Prim("String"))), Reference: "A"}
		pl := dg.A(dg.Ref("A"))
		addD("fatal:stack-overflow:expr.(*AttributeExpr).Find", &dg.Design{Name: "wselfref", Types: []*dg.UserType{a}, Services: svc1(&dg.Method{Name: "m", Payload: &pl, HTTP: post("/x")})},
			&Mutation{Kind: "self_reference", Where: "A", Expect: "any"}, false)
		a2 := &dg.UserType{Name: "A", Base: dg.Obj(dg.F("a", dg.Prim("String"))), Reference: "B"}
		b2 := &dg.UserType{Name: "B", Base: dg.Obj(dg.F("b", dg.Prim("String"))), Reference: "A"}
		pl2 := dg.A(dg.Ref("A"))
		h := post("/x")
		h.Headers = []dg.MapEntry{{Attr: "nope", Wire: "X-Nope"}}
		addD("fatal:stack-overflow:expr.(*AttributeExpr).Find", &dg.Design{Name: "wmutref", Types: []*dg.UserType{a2, b2}, Services: svc1(&dg.Method{Name: "m", Payload: &pl2, HTTP: h})},
			&Mutation{Kind: "dangling_header", Where: "ws.m (payload type in a Reference cycle)", Name: "nope", Expect: "reject"}, false)
	}
	return items
}
