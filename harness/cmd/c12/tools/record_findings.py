#!/usr/bin/env python3
"""One-off helper (not used by bin/check): take the failures of a c12 exploration run
(result.json) and, for every signature not yet recorded, add a witness to
harness/cmd/c12/witnesses.json and an entry to known_findings.json.

usage: record_findings.py <result.json> [--write]
Every entry was looked at by hand (WHAT below); unknown signatures are listed and
nothing is written for them until a description is added here."""
import json, re, sys, os

VERIF = "/verif"
WHAT = {
 "dangling-tag-accepted": "Response(..., func(){ Tag(\"zzz\", \"v\") }) naming an attribute the result does not have is accepted by eval.RunDSL (no check of the Tag attribute anywhere in expr/); the generated encoder then refers to res.Zzz and does not compile (also C01)",
 "dangling-required-under-map-accepted": "Required(\"zzz\") naming a missing attribute is accepted when the type is only reached through a map element (AttributeExpr.Validate descends into objects and arrays, not into maps; Finalize does), and in a type no method uses",
 "fatal:stack-overflow:expr.(*AttributeExpr).Find": "a type that extends or references itself (Extend(A) inside A, A/B extending or referencing each other) makes AttributeExpr.Find recurse without bound: fatal stack overflow, the goa process dies without reporting anything",
 "panic:expr.(*HTTPResponseExpr).Validate.func1:nil-deref": "Result(T, func(){ View(\"tiny\") }) plus a response Header/Cookie/Body naming an attribute that is not in that view: resultAttributeType dereferences v.AttributeExpr.Find(name) == nil and RunDSL panics instead of reporting the dangling name",
 "panic:expr.(*HTTPErrorExpr).Validate:nil-deref": "an HTTP error Response for an error name that is not declared, with a Header: HTTPErrorExpr.Validate reports the unknown error and then dereferences the nil error expression; RunDSL panics",
 "panic:dsl.Server:nil-deref": "Server(...) outside API(...): eval.IncompatibleDSL is recorded but the function does not return and appends to a nil *APIExpr: panic",
 "panic:dsl.Security:index": "Security() without arguments indexes args[len(args)-1]: panic instead of a too-few-arguments error",
 "panic:dsl.cookieAttribute:nil-deref": "CookieMaxAge/CookieDomain/CookiePath/CookieSecure/CookieHTTPOnly/CookieSameSite in a Response that declares no Cookie: the response's Cookies is nil and AddMeta panics",
 "panic:dsl.Reference:nil-deref": "Reference(nil) (a nil expr.DataType, e.g. a package variable used before it is assigned): expr.IsObject(nil) is false and the error message calls t.Name() on nil: panic",
 "panic:dsl.Extend:nil-deref": "Extend(nil) (a nil expr.DataType): the error message calls t.Name() on nil: panic",
 "panic:dsl.useDSL.func2:nil-deref": "Username/Password/APIKey/AccessToken/Token(Field)(name, ..., nilFunc) with a nil func() as last argument: useDSL wraps it and calls it: panic",
 "panic:dsl.Field.func2:nil-deref": "Field(tag, name, ..., nilFunc) with a nil func() as last argument: the wrapper closure calls it: panic",
 "panic:expr.(*Object).IsCompatible:nil-deref": "Default(nil) (or Example(nil)-like untyped nil) on an object attribute: Object.IsCompatible reflects on a nil value: panic",
 "panic:dsl.ErrorName.func1:nil-deref": "ErrorName(name, ..., nilFunc) with a nil func() as last argument: the wrapper closure calls it: panic",
 "panic:expr.(*Map).IsCompatible:nil-deref": "Default(nil) on a map attribute: Map.IsCompatible reflects on a nil value: panic",
 "panic:dsl.Service.func1:nil-deref": "Service(\"a\", nil) declared twice: the second call merges the DSLs into a closure that calls the nil function: panic when the service DSL runs",
 "panic:expr.NewMappedAttributeExpr:explicit": "Headers/Trailers/Metadata(func(){}) with a function that declares no attribute (gRPC): NewMappedAttributeExpr panics on the non-object attribute instead of reporting",
 "panic:expr.(*dupper).DupType:explicit": "Body(func(){}) with a function that declares no attribute on an endpoint whose payload is set: the body attribute has a nil type and Validate panics in DupAtt (unknown type <nil>)",
 "panic:expr.concat.func2:index": "Service(\"\", ...) with HTTP endpoints is accepted by validation and HTTPEndpointExpr.Finalize panics building the response body type name (expr.concat on an empty string)",
 "generate-panic:codegen/cli.jsonExample:index": "a map keyed by an array type, MapOf(ArrayOf(String), String), is accepted and the CLI generator panics in codegen/cli.jsonExample (also C01)",
 "generate-panic:expr.(*Array).MakeSlice:reflect": "Enum(1, 2, 3) on array elements of a sized integer type (Int32/Int64/UInt/UInt32/UInt64) is accepted and example generation panics in expr.(*Array).MakeSlice (reflect.Set: int not assignable) (also C01)",
 "generate-panic:expr.byLength:explicit": "an attribute declared twice with different types (Attribute(\"x\", String, MinLength...) then Attribute(\"x\", Int)) keeps the first validation: accepted, and example generation panics in expr.byLength (invalid type for length validation)",
 "generate-panic:expr.NewLength:explicit": "MinLength greater than MaxLength on one attribute is accepted and example generation panics in expr.NewLength (Validation: MinLength > MaxLength)",
 "generate-panic:codegen.KebabCase:index": "an empty service / method name that passes validation makes the CLI generator panic in codegen.KebabCase",
 "generate-error:generated-code-does-not-parse": "an attribute with an empty name (Attribute(\"\", ...)) or an empty method name is accepted and the generated Go code does not parse (also C01)",
}


def norm(sig):
    return re.sub(r"^(panic|generate-panic):dsl\.[A-Z][A-Za-z0-9]*\.([a-z][A-Za-z0-9]*)\.", r"\1:dsl.\2.", sig)


def main():
    res = json.load(open(sys.argv[1]))
    write = "--write" in sys.argv
    kf_path = os.path.join(VERIF, "known_findings.json")
    w_path = os.path.join(VERIF, "harness/cmd/c12/witnesses.json")
    kf = json.load(open(kf_path))
    ws = json.load(open(w_path))
    have_f = {f["signature"] for f in kf["findings"] if f["property"] == "C12"}
    have_w = {w["signature"] for w in ws}
    first = {}
    for f in res["failures"]:
        s = norm(f["signature"])
        it = f["input"]["item"]
        # prefer a witness-stream exemplar (hand written), then the smallest
        size = len(json.dumps(it))
        if s not in first or (it["stream"] != "witness" and first[s][0] > size and first[s][1]["stream"] != "witness"):
            first[s] = (size, it, f)
    for s, (_, it, f) in sorted(first.items()):
        if s not in WHAT:
            print("NO DESCRIPTION:", s, "|", f["what"][:120])
            continue
        if s not in have_f:
            ex = {k: it[k] for k in ("prog", "design", "mut") if it.get(k)}
            kf["findings"].append({"property": "C12", "signature": s, "what": WHAT[s], "exemplar": ex})
            print("finding +", s)
        if it["stream"] != "witness" and s not in have_w:
            item = {k: it[k] for k in ("prog", "design", "mut", "gen") if it.get(k)}
            ws.append({"signature": s, "item": item})
            have_w.add(s)
            print("witness +", s)
    if write:
        json.dump(kf, open(kf_path, "w"), indent=1, ensure_ascii=False)
        open(kf_path, "a").write("\n")
        json.dump(ws, open(w_path, "w"), indent=1, ensure_ascii=False)
        open(w_path, "a").write("\n")


main()
