// Command c05 drives generated HTTP servers and clients (tier B) for property C05:
// a declared error returned by a service method reaches the client as the same error
// with the designed status / headers / body; undeclared errors take the default
// mapping (plain error -> 500 fault, service error -> status by its flags); request
// decoding failures are reported with the standard names; exactly one response is
// written in every case. It evaluates these laws directly on what the real generated
// code did (direct oracle, from the design description only) and writes every
// exchange as a Coq term for the ErrTransport model (error table extracted from
// goa's finalised expressions).
package main

import (
	"encoding/json"
	"flag"
	"fmt"
	"os"
	"path/filepath"
	"sort"
	"strings"

	"goa.design/goa/v3/expr"

	dg "verifharness/designgen"
	"verifharness/tierb"
	"verifharness/tierb/rt"
	"verifharness/vh"
)

// caseInfo is the replayable description of one exchange.
type caseInfo struct {
	Stream  string      `json:"stream"` // main | witness
	Class   string      `json:"class"`  // declared | custom | plain | wrapped_plain | service_undeclared | wrapped_declared | other_method_name | other_method_custom | decode:<kind> | ...
	Design  *dg.Design  `json:"design"`
	Key     string      `json:"key"`
	Service string      `json:"service"`
	Method  string      `json:"method"`
	ErrName string      `json:"error_name,omitempty"`
	Err     *rt.ErrSpec `json:"scripted_error,omitempty"`
	Sent    *dg.Val     `json:"sent_value,omitempty"`
	Raw     *rt.RawReq  `json:"raw_request,omitempty"`
	Payload *dg.Val     `json:"payload,omitempty"`
	Accept  string      `json:"accept,omitempty"`
}

type built struct {
	bu     *tierb.Built
	stream string
	eps    map[string]*EpExtract
}

func main() {
	seed := flag.Uint64("seed", 1, "")
	tier := flag.String("tier", "quick", "")
	out := flag.String("out", ".", "")
	repo := flag.String("repo", "/repo", "")
	harness := flag.String("harness", "/verif/harness", "")
	replay := flag.String("replay", "", "")
	dump := flag.Bool("dump", false, "print every observation (debugging)")
	latprobe := flag.Bool("latprobe", false, "debugging: every lattice combination in a design of its own")
	flag.Parse()
	rng := vh.NewRNG(*seed)
	res := vh.NewResult()

	nRandom := 10
	if *tier == "thorough" {
		nRandom = 150
	}
	b, err := tierb.NewBatch(filepath.Join(*out, "tb"), *repo, *harness)
	if err != nil {
		panic(err)
	}
	b.Env = os.Environ()
	var items []*built
	add := func(d *dg.Design, stream string) {
		var eps map[string]*EpExtract
		bu, oc := b.Add(d, func(root *expr.RootExpr, bu *tierb.Built) { eps = extractAll(root) })
		if bu == nil {
			res.Count("design_rejected_" + stream)
			res.Extra["rejected:"+d.Name] = fmt.Sprint(oc.Err, " ", oc.Panic)
			return
		}
		if bu.GenErr != "" {
			res.Count("design_generate_failed")
			res.Extra["last_generate_error"] = bu.GenErr
		}
		items = append(items, &built{bu: bu, stream: stream, eps: eps})
	}
	if *replay != "" {
		replayMode = true
		rb, err := os.ReadFile(*replay)
		if err != nil {
			panic(err)
		}
		var rf struct {
			Input caseInfo `json:"input"`
		}
		if err := json.Unmarshal(rb, &rf); err != nil || rf.Input.Design == nil {
			fmt.Println("replay file has no design input")
			os.Exit(2)
		}
		st := rf.Input.Stream
		if st == "" {
			st = "main"
		}
		add(rf.Input.Design, st)
	} else if *latprobe {
		n := 0
		for v := 0; v < 3; v++ {
			for _, c := range latCombos(v) {
				add(latticeDesign(fmt.Sprintf("latp_v%d_%s", v, c), []latCombo{c}, n), "main")
				n++
			}
		}
	} else {
		for _, d := range covering() {
			add(d, "main")
		}
		for _, d := range witnessDesigns() {
			add(d, "witness")
		}
		opts := dg.DefaultOptions()
		opts.Security = false // credentials are C06's business
		opts.Files = false
		got := 0
		for i := 0; got < nRandom && i < nRandom*6; i++ {
			d := dg.Random(rng.Fork(), opts, i)
			if !hasErrors(d) && i%5 != 0 {
				continue // prefer designs that declare errors; every fifth design is kept anyway
			}
			n := len(items)
			if i%2 == 0 { // every other random design gets service/API twins of its method errors
				add(decorate(rng.Fork(), d), "main")
			}
			if len(items) == n {
				add(d, "main")
			}
			if len(items) > n {
				got++
			}
		}
	}
	if err := b.Build(); err != nil {
		panic(err)
	}

	// ---- phase 1: one valid exchange per method, to learn the request on the wire
	var steps []rt.Step
	type pkey struct{ key, svc, m string }
	valid := map[pkey]*dg.Val{}
	var p1 []pkey
	for _, it := range items {
		if it.bu.Dropped {
			res.Count("design_dropped_build")
			res.Extra["last_build_error"] = it.bu.BuildErr
			continue
		}
		d := it.bu.Design
		for _, f := range d.Features {
			res.Count("feature=" + f)
		}
		for _, s := range d.Services {
			if !serviceBuilt(it.bu, s.Name) {
				continue
			}
			for _, m := range s.Methods {
				k := pkey{it.bu.Key, s.Name, m.Name}
				st := rt.Step{ID: len(steps), Design: it.bu.Key, Service: s.Name, Method: m.Name}
				if m.Payload != nil {
					v := d.GenVal(rng, m.Payload, dg.ValOpts{SafeString: true, NoEmpty: true, AllFields: true})
					valid[k] = v
					st.Payload = d.ToTree(&m.Payload.T, v)
				}
				if m.Result != nil {
					rv := d.GenVal(rng, m.Result, dg.ValOpts{SafeString: true, NoEmpty: true, AllFields: true})
					st.Result = d.ToTree(&m.Result.T, rv)
					if isViewed(d, m) && m.ResultView == "" {
						st.View = "default"
					}
				}
				steps = append(steps, st)
				p1 = append(p1, k)
			}
		}
	}
	obs1, err := b.Run(steps)
	if err != nil {
		panic(err)
	}
	wire := map[pkey]*rt.Wire{}
	for i, k := range p1 {
		ob := obs1[i]
		if ob == nil || ob.SetupErr != "" || ob.Invoked != 1 || ob.Req == nil {
			res.Count("method_unreachable_with_valid_payload")
			continue
		}
		wire[k] = ob.Req
		// the success path is part of "exactly one response"
		res.Evaluations++
		if ob.WriteHeaders != 1 {
			res.Fail("write-header-count:success", fmt.Sprintf("success response: WriteHeader ran %d times", ob.WriteHeaders),
				caseInfo{Stream: "main", Class: "success", Design: designOf(items, k.key), Key: k.key, Service: k.svc, Method: k.m, Payload: valid[k]})
		}
		res.Count("class=success")
	}

	// ---- phase 2: scripted errors and malformed requests
	steps = nil
	var infos []caseInfo
	for _, it := range items {
		if it.bu.Dropped {
			continue
		}
		d := it.bu.Design
		for _, s := range d.Services {
			if !serviceBuilt(it.bu, s.Name) {
				continue
			}
			for _, m := range s.Methods {
				k := pkey{it.bu.Key, s.Name, m.Name}
				if wire[k] == nil {
					continue
				}
				base := caseInfo{Stream: it.stream, Design: d, Key: it.bu.Key, Service: s.Name, Method: m.Name, Payload: valid[k]}
				for _, c := range script(rng, d, s, m, it, wire[k]) {
					ci := base
					ci.Class, ci.ErrName, ci.Err, ci.Sent, ci.Raw, ci.Accept = c.Class, c.ErrName, c.Err, c.Sent, c.Raw, c.Accept
					if c.Stream != "" {
						ci.Stream = c.Stream
					}
					st := rt.Step{ID: len(steps), Design: it.bu.Key, Service: s.Name, Method: m.Name, Err: c.Err, Raw: c.Raw, Accept: c.Accept}
					if c.Raw == nil && m.Payload != nil {
						st.Payload = d.ToTree(&m.Payload.T, valid[k])
					}
					steps = append(steps, st)
					infos = append(infos, ci)
				}
			}
		}
	}
	obs, err := b.Run(steps)
	if err != nil {
		res.Extra["driver_error"] = err.Error()
	}
	distinct := vh.Distinct{}
	var encLines, decLines []string
	for i := range steps {
		ci := infos[i]
		ob := obs[i]
		eps := epsOf(items, ci.Key)
		ex := eps[ci.Service+"/"+ci.Method]
		if *dump {
			jb, _ := json.Marshal(map[string]any{"class": ci.Class, "err": ci.Err, "sent": ci.Sent, "raw": ci.Raw, "obs": ob, "method": ci.Method, "key": ci.Key})
			fmt.Println(string(jb))
		}
		slim := ci
		slim.Design = nil // designs are listed once under extra.designs (by key)
		res.Cases = append(res.Cases, slim)
		if ob == nil {
			res.Fail("driver-no-observation", "the driver produced no observation for a step (it crashed)", ci)
			continue
		}
		if ob.SetupErr != "" && !strings.HasPrefix(ob.SetupErr, "raw roundtrip:") {
			// the harness could not run the exchange: never silently dropped
			res.Count("setup_err")
			res.Extra["last_setup_err"] = ob.SetupErr
			res.Fail("exchange-not-run", "the harness could not run a scripted exchange: "+ob.SetupErr, ci)
			continue
		}
		// ("raw roundtrip: EOF" = the server closed the connection without a response: judged by the oracle)
		res.Evaluations++
		res.Count("class=" + strings.SplitN(ci.Class, ":", 2)[0])
		if strings.HasPrefix(ci.Class, "decode:") {
			res.Count(ci.Class)
		}
		kb, _ := json.Marshal([]any{ci.Design.Name, ci.Service, ci.Method, ci.Class, ci.Err, ci.Sent, ci.Raw, ci.Accept})
		distinct.Add(string(kb))
		oracle(res, &ci, ob)
		if ex != nil {
			if l := coqCase(i, &ci, ex, ob, eps); l != "" {
				if strings.HasPrefix(ci.Class, "decode:") {
					decLines = append(decLines, l)
				} else {
					encLines = append(encLines, l)
				}
			}
		}
		res.Sample(map[string]any{"class": ci.Class, "method": ci.Method, "scripted_error": ci.Err, "wire_response": ob.Resp, "client_error": ob.ClientErr}, 4)
	}
	// the error tables goa computed vs the design description (inheritance method ∪ service ∪ API)
	for _, it := range items {
		if it.bu.Dropped || it.stream != "main" {
			continue
		}
		compareTables(res, it)
	}
	designs := map[string]*dg.Design{}
	for _, it := range items {
		designs[it.bu.Key] = it.bu.Design
	}
	res.Extra["designs"] = designs
	res.Distinct = len(distinct)
	res.Rule = "designs: 2 hand-written covering designs + designgen.Random (HTTP envelope, compile-clean options, no security); per method: every declared error x 3 values, 12+ undeclared shapes, 6 request-decoding failures (where the payload shape allows); non-trivial = exchange that produced an observation; distinct = distinct (design, method, class, scripted error / raw request)"
	os.WriteFile(filepath.Join(*out, "cases_encode.txt"), []byte(strings.Join(encLines, "\n")+"\n"), 0o644)
	os.WriteFile(filepath.Join(*out, "cases_decode.txt"), []byte(strings.Join(decLines, "\n")+"\n"), 0o644)
	var tabLines []string
	for _, it := range items {
		if !it.bu.Dropped {
			tabLines = append(tabLines, coqTables(len(res.Cases)+len(tabLines), it)...)
		}
	}
	os.WriteFile(filepath.Join(*out, "cases_table.txt"), []byte(strings.Join(tabLines, "\n")+"\n"), 0o644)
	var finLines []string
	for _, it := range items {
		if !it.bu.Dropped && it.stream == "main" {
			finLines = append(finLines, coqFinalize(len(res.Cases)+len(tabLines)+len(finLines), it)...)
		}
	}
	os.WriteFile(filepath.Join(*out, "cases_finalize.txt"), []byte(strings.Join(finLines, "\n")+"\n"), 0o644)
	if err := res.Write(filepath.Join(*out, "result.json")); err != nil {
		panic(err)
	}
}

func hasErrors(d *dg.Design) bool {
	for _, s := range d.Services {
		if len(s.Errors) > 0 {
			return true
		}
		for _, m := range s.Methods {
			if len(m.Errors) > 0 {
				return true
			}
		}
	}
	return false
}

func serviceBuilt(bu *tierb.Built, name string) bool {
	for _, s := range bu.Services {
		if strings.HasPrefix(s, name+"\x00") {
			return true
		}
	}
	return false
}

func designOf(items []*built, key string) *dg.Design {
	for _, it := range items {
		if it.bu.Key == key {
			return it.bu.Design
		}
	}
	return nil
}

func epsOf(items []*built, key string) map[string]*EpExtract {
	for _, it := range items {
		if it.bu.Key == key {
			return it.eps
		}
	}
	return nil
}

func isViewed(d *dg.Design, m *dg.Method) bool {
	if m.Result == nil {
		return false
	}
	t := m.Result.T
	if t.Kind == "user" || t.Kind == "collection" {
		if ut := d.UserType(t.Ref); ut != nil && ut.Result && len(ut.Views) > 0 {
			return true
		}
	}
	return false
}

// ---- the design description's own view of an endpoint's errors (direct oracle side)

type effErr struct {
	Def   dg.ErrorDef
	Resp  *dg.Response
	Level string // method | service
}

func findResp(rs []dg.ErrResponse, name string) *dg.Response {
	for i := range rs {
		if rs[i].Name == name {
			return &rs[i].R
		}
	}
	return nil
}

// effective: the errors a method may return (its own and the service's) with the
// response the design assigns (method mapping, else service mapping, else API mapping).
func effective(d *dg.Design, s *dg.Service, m *dg.Method) []effErr {
	var out []effErr
	seen := map[string]bool{}
	look := func(name string, method bool) *dg.Response {
		if method && m.HTTP != nil {
			if r := findResp(m.HTTP.Errors, name); r != nil {
				return r
			}
		}
		if r := findResp(s.HTTPErrs, name); r != nil {
			return r
		}
		return findResp(d.HTTPErrs, name)
	}
	for _, e := range m.Errors {
		seen[e.Name] = true
		out = append(out, effErr{Def: e, Resp: look(e.Name, true), Level: "method"})
	}
	for _, e := range s.Errors {
		if !seen[e.Name] {
			seen[e.Name] = true
			out = append(out, effErr{Def: e, Resp: look(e.Name, false), Level: "service"})
		}
	}
	return out
}

func nameAttrOf(d *dg.Design, t *dg.Type) string {
	for _, f := range d.AllFields(t) {
		for _, m := range f.A.Meta {
			if len(m) > 0 && m[0] == "struct:error:name" {
				return f.Name
			}
		}
	}
	return ""
}

func compareTables(res *vh.Result, it *built) {
	d := it.bu.Design
	for _, s := range d.Services {
		for _, m := range s.Methods {
			ex := it.eps[s.Name+"/"+m.Name]
			if ex == nil {
				continue
			}
			want := map[string]int{}
			for _, e := range effective(d, s, m) {
				if e.Resp != nil {
					want[e.Def.Name] = e.Resp.Status
				}
			}
			got := map[string]int{}
			for _, e := range ex.Errors {
				got[e.Name] = e.Status
			}
			wk, gk := vh.SortedKeys(want), vh.SortedKeys(got)
			same := len(wk) == len(gk)
			for _, k := range wk {
				if got[k] != want[k] {
					same = false
				}
			}
			res.Evaluations++
			res.Count("class=table")
			if !same {
				res.Fail("error-table-inheritance", fmt.Sprintf("endpoint %s/%s: goa's error table %v differs from method ∪ service ∪ API errors of the design %v", s.Name, m.Name, got, want),
					caseInfo{Stream: "main", Class: "table", Design: d, Key: it.bu.Key, Service: s.Name, Method: m.Name})
			}
		}
	}
}

func sortedFields(fs [][2]string) [][2]string {
	sort.Slice(fs, func(i, j int) bool { return fs[i][0] < fs[j][0] })
	return fs
}
