package main

import (
	"encoding/base64"
	"encoding/json"
	"net/url"
	"strings"

	dg "verifharness/designgen"
	"verifharness/tierb/rt"
	"verifharness/vh"
)

type scase struct {
	Stream  string
	Class   string
	ErrName string
	Err     *rt.ErrSpec
	Sent    *dg.Val
	Raw     *rt.RawReq
	Accept  string
}

var messages = []string{"résumé \"quoted\" \\ ☃ done", "", "line1\nline2\t<&> 'x'", "plain ascii message", "日本語 ünï", "a; b; c"}
var safeMessages = []string{"résumé \"quoted\" \\ ☃ done", "plain ascii message", "日本語 ünï", "a; b; c"}
var ids = []string{"id-1", "", "abc/123 +x", "ZXhhbXBsZQ", "x"}

const undeclaredName = "zz_not_declared"

// Accept values under which error responses are requested ("" = the client's default: none)
var acceptPool = []string{"application/json", "application/xml", "text/xml", "*/*",
	"application/vnd.goa.error+json", "application/vnd.goa.error+xml", "application/json; charset=utf-8", "application/xml;q=0.9", "garbage;;"}

var wrapKinds = []string{"wrapped", "wrapped2", "joined", "multiw", "joined-wrapped"}

// replayMode: a replayed design runs its whole script, including the inputs the main
// stream leaves to the witness stream.
var replayMode bool

// hubKey: tierb registers the custom error types of a service under the name of the
// generated constructor ("Make" + Goified error name), not under the error name.
func hubKey(errName string) string { return "Make" + dg.GoField(errName) }

// script lists the exchanges run against one method.
func script(rng *vh.RNG, d *dg.Design, s *dg.Service, m *dg.Method, it *built, wire *rt.Wire) []scase {
	var out []scase
	eff := effective(d, s, m)
	declared := map[string]effErr{}
	for _, e := range eff {
		declared[e.Def.Name] = e
	}
	witness := it.stream == "witness"

	// -- declared errors x 3 values
	var firstDefault string
	for _, e := range eff {
		if e.Resp == nil {
			continue
		}
		if e.Def.T == nil {
			if firstDefault == "" {
				firstDefault = e.Def.Name
			}
			inHeaders := e.Resp.Body != nil || len(e.Resp.Headers) > 0 // attributes travel in headers: stay inside wire_safe_err
			for k := 0; k < 3; k++ {
				sp := &rt.ErrSpec{Kind: "declared", Name: e.Def.Name}
				if inHeaders {
					sp.Message, sp.ID = vh.Pick(rng, safeMessages), vh.Pick(rng, []string{"id-1", "abc/123 +x", "x"})
					if k > 0 {
						sp.Timeout, sp.Temporary, sp.Fault = rng.Bool(), rng.Bool(), rng.Bool()
					}
					if e.Resp.Body != nil && e.Resp.Body.Attr == "message" && k > 0 {
						sp.Message = messages[k] // the body attribute itself is not header-carried: empty, line breaks
					}
					out = append(out, scase{Class: "declared", ErrName: e.Def.Name, Err: sp})
					continue
				}
				switch k {
				case 0: // as the generated MakeXxx constructor would build it
					sp.Message, sp.ID = messages[0], ids[0]
					sp.Timeout, sp.Temporary, sp.Fault = e.Def.Timeout, e.Def.Temporary, e.Def.Fault
				case 1:
					sp.Message, sp.ID = messages[1], ids[1]
				default:
					sp.Message, sp.ID = vh.Pick(rng, messages[2:]), vh.Pick(rng, ids[2:])
					sp.Timeout, sp.Temporary, sp.Fault = rng.Bool(), rng.Bool(), rng.Bool()
				}
				out = append(out, scase{Class: "declared", ErrName: e.Def.Name, Err: sp})
			}
			continue
		}
		na := nameAttrOf(d, e.Def.T)
		for k := 0; k < 3; k++ {
			vo := dg.ValOpts{SafeString: true, NoEmpty: true}
			switch k {
			case 0:
				vo.AllFields = true
			case 1:
				vo.NoOptional = true
			}
			v := d.GenVal(rng, &dg.Attr{T: *e.Def.T}, vo)
			if na != "" && v.K == "object" {
				v.Set(na, &dg.Val{K: "string", S: e.Def.Name})
			}
			v = withDefaults(d, e.Def.T, noZeroDefaults(d, e.Def.T, v)) // a Go struct cannot leave a defaulted attribute unset
			out = append(out, scase{Class: "custom", ErrName: e.Def.Name, Sent: v,
				Err: &rt.ErrSpec{Kind: "custom", Name: hubKey(e.Def.Name), Value: d.ToTree(e.Def.T, v)}})
		}
	}
	// -- a slice of the exchanges under a varied Accept header: the first declared error
	// of each kind and one undeclared service error, each under every Accept of the pool
	if !witness {
		var firstD, firstC *scase
		for i := range out {
			if out[i].Class == "declared" && firstD == nil {
				firstD = &out[i]
			}
			if out[i].Class == "custom" && firstC == nil {
				firstC = &out[i]
			}
		}
		var acc []scase
		for _, a := range acceptPool {
			if firstD != nil {
				c := *firstD
				c.Accept = a
				acc = append(acc, c)
			}
			if firstC != nil {
				c := *firstC
				c.Accept = a
				acc = append(acc, c)
			}
			acc = append(acc, scase{Class: "service_undeclared", ErrName: undeclaredName, Accept: a, Err: &rt.ErrSpec{Kind: "service", Name: undeclaredName,
				Message: "accept " + a, ID: "a1", Temporary: true}})
		}
		// gob drops zero-valued fields (finding gob-zero-values-missing): the main stream sends
		// values without any
		if firstD != nil {
			c := *firstD
			sp := *c.Err
			sp.Message, sp.ID, sp.Timeout, sp.Temporary, sp.Fault = "gob message", "g1", true, true, true
			c.Err, c.Accept = &sp, "application/gob"
			acc = append(acc, c)
		}
		acc = append(acc, scase{Class: "service_undeclared", ErrName: undeclaredName, Accept: "application/gob", Err: &rt.ErrSpec{Kind: "service", Name: undeclaredName,
			Message: "gob undeclared", ID: "g2", Temporary: true, Timeout: true, Fault: true}})
		out = append(out, acc...)
	}
	if witness {
		out = append(out, witnessScript(d, s, m, eff)...)
		if d.Name == "witness2" {
			out = append(out, decodeFailures(it.eps[s.Name+"/"+m.Name], wire, true)...)
		}
		return out
	}

	// -- undeclared shapes
	out = append(out, scase{Class: "plain", Err: &rt.ErrSpec{Kind: "plain", Message: "boom: disk \"full\" é"}})
	out = append(out, scase{Class: "wrapped_plain", Err: &rt.ErrSpec{Kind: "plain", Message: "while saving: inner failure"}})
	for fv := 0; fv < 8; fv++ {
		out = append(out, scase{Class: "service_undeclared", ErrName: undeclaredName, Err: &rt.ErrSpec{Kind: "service", Name: undeclaredName,
			Message: vh.Pick(rng, messages), ID: vh.Pick(rng, ids), Timeout: fv&1 != 0, Temporary: fv&2 != 0, Fault: fv&4 != 0}})
	}
	// every wrapper tree the runtime can build (single %w, two levels, errors.Join, multi-%w,
	// wrapped Join), around an undeclared and around a declared service error
	for i, wk := range wrapKinds {
		out = append(out, scase{Class: "service_undeclared_wrapped", ErrName: undeclaredName, Err: &rt.ErrSpec{Kind: wk, Name: undeclaredName,
			Message: "inner", ID: "w1", Temporary: i%2 == 0, Timeout: i%3 == 0}})
	}
	if firstDefault != "" {
		e := declared[firstDefault]
		for _, wk := range wrapKinds {
			out = append(out, scase{Class: "wrapped_declared", ErrName: firstDefault, Err: &rt.ErrSpec{Kind: wk, Name: firstDefault,
				Message: "inner message \"q\"", ID: "w-id", Timeout: e.Def.Timeout, Temporary: e.Def.Temporary, Fault: e.Def.Fault}})
		}
	}
	// a name declared by ANOTHER method of the service only
	other, otherCustom := "", ""
	var otherCustomT *dg.Type
	for _, om := range s.Methods {
		if om == m {
			continue
		}
		for _, e := range om.Errors {
			if _, here := declared[e.Name]; here {
				continue
			}
			if e.T == nil && other == "" {
				other = e.Name
			}
			if e.T != nil && otherCustom == "" && e.T.Kind == "object" && nameAttrOf(d, e.T) == "" {
				otherCustom, otherCustomT = e.Name, e.T
			}
		}
	}
	if other == "" {
		other = "declared_nowhere"
	}
	out = append(out, scase{Class: "other_method_name", ErrName: other, Err: &rt.ErrSpec{Kind: "service", Name: other, Message: "not mine", ID: "o1", Timeout: true}})
	if otherCustom != "" {
		v := d.GenVal(rng, &dg.Attr{T: *otherCustomT}, dg.ValOpts{SafeString: true, NoEmpty: true, AllFields: true})
		out = append(out, scase{Class: "other_method_custom", ErrName: otherCustom, Sent: v,
			Err: &rt.ErrSpec{Kind: "custom", Name: hubKey(otherCustom), Value: d.ToTree(otherCustomT, v)}})
	}

	// -- request decoding failures
	out = append(out, decodeFailures(it.eps[s.Name+"/"+m.Name], wire, replayMode)...)
	return out
}

// noZeroDefaults keeps the value out of the recorded loss class "a defaulted
// attribute holding its zero value arrives as the default" (C03 finding).
func noZeroDefaults(d *dg.Design, t *dg.Type, v *dg.Val) *dg.Val {
	if v == nil || v.K != "object" {
		return v
	}
	for _, f := range d.AllFields(t) {
		if !f.A.HasDef {
			continue
		}
		cur := v.Get(f.Name)
		if cur == nil {
			continue
		}
		switch cur.K {
		case "int":
			if cur.I == 0 {
				v.Set(f.Name, &dg.Val{K: "int", I: 7})
			}
		case "uint":
			if cur.U == 0 {
				v.Set(f.Name, &dg.Val{K: "uint", U: 7})
			}
		case "float":
			if cur.F == 0 {
				v.Set(f.Name, &dg.Val{K: "float", F: 1.5})
			}
		case "string":
			if cur.S == "" {
				v.Set(f.Name, &dg.Val{K: "string", S: "nz"})
			}
		case "bool":
			if !cur.B {
				v.Set(f.Name, &dg.Val{K: "bool", B: true})
			}
		}
	}
	return v
}

// witnessScript re-demonstrates the recorded findings on the witness designs.
func witnessScript(d *dg.Design, s *dg.Service, m *dg.Method, eff []effErr) []scase {
	var out []scase
	for _, e := range eff {
		switch {
		case d.Name == "witness1" && e.Def.Name == "conflict":
			// a goa service error carrying the name of an error declared with a custom type
			out = append(out, scase{Class: "service_named_like_custom", ErrName: "conflict", Err: &rt.ErrSpec{Kind: "service", Name: "conflict", Message: "wrong type", ID: "m1"}})
			// content negotiation classes (recorded findings): text encoders refuse error bodies,
			// gob drops zero-valued fields
			zv := &dg.Val{K: "object"}
			zv.Set("name", &dg.Val{K: "string", S: "n1"})
			zv.Set("code", &dg.Val{K: "int", I: 0})
			for _, a := range []string{"text/html", "text/plain"} {
				out = append(out, scase{Class: "custom", ErrName: "conflict", Accept: a, Sent: zv, Err: &rt.ErrSpec{Kind: "custom", Name: hubKey("conflict"), Value: d.ToTree(e.Def.T, zv)}})
				out = append(out, scase{Class: "service_undeclared", ErrName: undeclaredName, Accept: a, Err: &rt.ErrSpec{Kind: "service", Name: undeclaredName, Message: "m", ID: "t1", Temporary: true}})
			}
			out = append(out, scase{Class: "service_undeclared", ErrName: undeclaredName, Accept: "application/gob", Err: &rt.ErrSpec{Kind: "service", Name: undeclaredName, Message: "m", ID: "g3", Temporary: true}})
			out = append(out, scase{Class: "custom", ErrName: "conflict", Accept: "application/gob", Sent: zv, Err: &rt.ErrSpec{Kind: "custom", Name: hubKey("conflict"), Value: d.ToTree(e.Def.T, zv)}})
			for _, det := range []string{" lead", "trail ", "", "two\nlines"} {
				v := &dg.Val{K: "object"}
				v.Set("name", &dg.Val{K: "string", S: "n1"})
				v.Set("detail", &dg.Val{K: "string", S: det})
				out = append(out, scase{Class: "custom", ErrName: "conflict", Sent: v, Err: &rt.ErrSpec{Kind: "custom", Name: hubKey("conflict"), Value: d.ToTree(e.Def.T, v)}})
			}
		case d.Name == "witness1" && e.Def.Name == "no_body":
			out = append(out, scase{Class: "declared", ErrName: "no_body", Err: &rt.ErrSpec{Kind: "declared", Name: "no_body", Message: "", ID: "i1"}})
			out = append(out, scase{Class: "declared", ErrName: "no_body", Err: &rt.ErrSpec{Kind: "declared", Name: "no_body", Message: "two\nlines", ID: "i2"}})
		}
	}
	return out
}

func cloneHeaders(w *rt.Wire) map[string][]string {
	h := map[string][]string{}
	for k, v := range w.Headers {
		switch k {
		case "Content-Length", "Accept-Encoding", "User-Agent":
			continue
		}
		h[k] = append([]string{}, v...)
	}
	return h
}

func target(w *rt.Wire, query string) string {
	if query == "" {
		return w.Path
	}
	return w.Path + "?" + query
}

func rawBody(w *rt.Wire) []byte {
	if strings.HasPrefix(w.Body, "base64:") {
		b, _ := base64.StdEncoding.DecodeString(strings.TrimPrefix(w.Body, "base64:"))
		return b
	}
	return []byte(w.Body)
}

// decodeFailures derives malformed requests from the request the generated client
// sent for a valid payload.
// Parameter failures on an endpoint that reads a required cookie belong to the recorded
// finding param-error-lost-by-required-cookie: only the witness stream sends them.
func decodeFailures(ex *EpExtract, w *rt.Wire, witness bool) []scase {
	var out []scase
	if ex == nil || w == nil {
		return nil
	}
	mk := func(kind string, query string, hdr map[string][]string, body []byte) {
		out = append(out, scase{Class: "decode:" + kind, Raw: &rt.RawReq{Method: w.Method, Target: target(w, query), Headers: hdr, Body: base64.StdEncoding.EncodeToString(body)}})
	}
	body := rawBody(w)
	if ex.HasServerBody && ex.MustHaveBody && len(body) > 0 {
		mk("missing_payload", w.Query, cloneHeaders(w), nil)
	}
	if ex.HasServerBody && len(body) > 0 {
		mk("malformed_json", w.Query, cloneHeaders(w), []byte(`{"a": `))
		var parsed interface{}
		if json.Unmarshal(body, &parsed) == nil && ex.BodyStruct {
			if _, isObj := parsed.(map[string]interface{}); isObj {
				mk("wrong_json_type", w.Query, cloneHeaders(w), []byte(`[1,2]`))
			}
		}
		h := cloneHeaders(w)
		h["Content-Type"] = []string{"application/x-unknown"}
		mk("unsupported_media_type", w.Query, h, body)
	}
	q, err := url.ParseQuery(w.Query)
	if err == nil && (witness || !ex.RequiredCookie) {
		for _, p := range ex.Query {
			if p.Required && q.Has(p.Wire) {
				q2 := cloneQuery(q)
				q2.Del(p.Wire)
				mk("missing_query_param", q2.Encode(), cloneHeaders(w), body)
				break
			}
		}
		for _, p := range ex.Query {
			if (p.Kind == "int" || p.Kind == "int32" || p.Kind == "int64" || p.Kind == "uint" || p.Kind == "uint32" || p.Kind == "uint64") && q.Has(p.Wire) {
				q2 := cloneQuery(q)
				q2.Set(p.Wire, "notanint")
				mk("unparsable_int_param", q2.Encode(), cloneHeaders(w), body)
				break
			}
		}
	}
	return out
}

func cloneQuery(q url.Values) url.Values {
	o := url.Values{}
	for k, v := range q {
		o[k] = append([]string{}, v...)
	}
	return o
}
