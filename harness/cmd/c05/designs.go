package main

import dg "verifharness/designgen"

// covering returns the hand-written, seed-independent designs every run starts with.
// Together they contain: three errors on one status code, an error with the
// Temporary+Timeout flags, a custom object error with required / optional / defaulted
// attributes and a header-mapped attribute, an error of a primitive custom type, one
// user type shared by two errors (told apart by the attribute carrying the error
// name), an ErrorResult error whose body is overridden by Body("message") (the remaining
// attributes travel in goa-attribute-* headers), an ErrorResult error with an empty body, service-level and
// API-level errors inherited by the methods, and payload shapes on which each of the
// six request-decoding failures can be provoked.
func covering() []*dg.Design {
	str, integer, boolean := dg.Prim("String"), dg.Prim("Int"), dg.Prim("Boolean")

	// ---- design 0: statuses shared, flags, custom object error, inheritance
	conflict := dg.Obj(dg.Req("name", str), dg.F("code", integer), dg.F("detail", str),
		dg.F("level", integer).Def(3), dg.Req("retry", boolean), dg.F("tags", dg.ArrayOf(dg.A(str))))
	pay := dg.A(dg.Obj(dg.Req("title", str), dg.Req("n", integer), dg.F("q", str), dg.F("weight", dg.Prim("Float64"))))
	res := dg.A(dg.Obj(dg.Req("ok", boolean)))
	m1 := &dg.Method{Name: "m_one", Payload: &pay, Result: &res,
		Errors: []dg.ErrorDef{{Name: "not_found"}, {Name: "gone", Fault: true}, {Name: "missing"},
			{Name: "busy", Temporary: true, Timeout: true}, {Name: "conflict", T: &conflict}},
		HTTP: &dg.HTTPMap{Routes: []dg.Route{{Verb: "POST", Path: "/one"}},
			Params: []dg.MapEntry{{Attr: "n"}, {Attr: "q", Wire: "Q_q"}},
			Errors: []dg.ErrResponse{
				{Name: "not_found", R: dg.Response{Status: 404}},
				{Name: "gone", R: dg.Response{Status: 404}},
				{Name: "missing", R: dg.Response{Status: 404}},
				{Name: "busy", R: dg.Response{Status: 429}},
				{Name: "conflict", R: dg.Response{Status: 409, Headers: []dg.MapEntry{{Attr: "detail", Wire: "X-Detail"}, {Attr: "code", Wire: "X-Code"}}}},
			}}}
	pay2 := dg.A(dg.Obj(dg.Req("id", integer), dg.F("flag", boolean)))
	m2 := &dg.Method{Name: "m_two", Payload: &pay2,
		Errors: []dg.ErrorDef{{Name: "forbidden"}, {Name: "api_err"}},
		HTTP: &dg.HTTPMap{Routes: []dg.Route{{Verb: "GET", Path: "/two/{id}"}},
			Params: []dg.MapEntry{{Attr: "flag"}},
			Errors: []dg.ErrResponse{{Name: "forbidden", R: dg.Response{Status: 403}}}}}
	d0 := &dg.Design{Name: "cover0",
		Errors:   []dg.ErrorDef{{Name: "api_err", Timeout: true}},
		HTTPErrs: []dg.ErrResponse{{Name: "api_err", R: dg.Response{Status: 504}}},
		Services: []*dg.Service{{Name: "alpha", BasePath: "/alpha",
			Errors:   []dg.ErrorDef{{Name: "svc_err", Temporary: true}},
			HTTPErrs: []dg.ErrResponse{{Name: "svc_err", R: dg.Response{Status: 503}}},
			Methods:  []*dg.Method{m1, m2}}},
		Features: []string{"cover:three_errors_one_status", "cover:temporary_timeout_flags", "cover:custom_required_optional_default", "cover:error_header", "cover:service_error", "cover:api_error_inherited"}}

	// ---- design 1: primitive custom type, shared user type, overridden / empty body
	problem := &dg.UserType{Name: "Problem", Base: dg.Obj(
		&dg.Field{Name: "kind", A: dg.Attr{T: str, Meta: [][]string{{"struct:error:name"}}}, Required: true},
		dg.F("info", str), dg.F("count", integer))}
	pay3 := dg.A(dg.Obj(dg.Req("body_a", str), dg.F("body_b", integer)))
	reason := str
	probT := dg.Ref("Problem")
	m3 := &dg.Method{Name: "shared", Payload: &pay3,
		Errors: []dg.ErrorDef{{Name: "reason", T: &reason}, {Name: "prob_a", T: &probT}, {Name: "prob_b", T: &probT}, {Name: "prob_c", T: &probT}, {Name: "bad_input"}},
		HTTP: &dg.HTTPMap{Routes: []dg.Route{{Verb: "PUT", Path: "/shared"}},
			Errors: []dg.ErrResponse{
				{Name: "reason", R: dg.Response{Status: 422}},
				{Name: "prob_a", R: dg.Response{Status: 400}},
				{Name: "prob_b", R: dg.Response{Status: 400}},
				{Name: "bad_input", R: dg.Response{Status: 400}}, // a default-typed error on the status two custom errors share
				{Name: "prob_c", R: dg.Response{Status: 418, Headers: []dg.MapEntry{{Attr: "info", Wire: "X-Info"}}}},
			}}}
	// (inside an error Response, Body("message") is resolved by the DSL against the method
	// RESULT type, so the result needs a string attribute of that name)
	res4 := dg.A(dg.Obj(dg.Req("message", str), dg.F("extra", integer)))
	m4 := &dg.Method{Name: "bodies", Result: &res4,
		Errors: []dg.ErrorDef{{Name: "msg_only"}, {Name: "no_body", Temporary: true}, {Name: "plain_one"}},
		HTTP: &dg.HTTPMap{Routes: []dg.Route{{Verb: "GET", Path: "/bodies"}},
			Errors: []dg.ErrResponse{
				{Name: "msg_only", R: dg.Response{Status: 400, Body: &dg.BodySpec{Attr: "message"}}},
				{Name: "no_body", R: dg.Response{Status: 503, Body: &dg.BodySpec{Empty: true}}},
				{Name: "plain_one", R: dg.Response{Status: 401}},
			}}}
	d1 := &dg.Design{Name: "cover1", Types: []*dg.UserType{problem},
		Services: []*dg.Service{{Name: "beta", Methods: []*dg.Method{m3, m4}}},
		Features: []string{"cover:primitive_error_type", "cover:shared_user_type", "cover:body_overridden", "cover:body_empty"}}
	// the inheritance / override lattice: the same error name declared and mapped at API,
	// service and method level in every combination (default type everywhere; the same
	// custom type everywhere)
	// pairs of errors sharing a status code: {same type, different type} x {same mapping,
	// a header-mapped attribute on one, Body(Empty) on one, different header mappings};
	// designed Content-Types on error responses
	p2 := &dg.UserType{Name: "Problem2", Base: dg.Obj(
		&dg.Field{Name: "kind", A: dg.Attr{T: str, Meta: [][]string{{"struct:error:name"}}}, Required: true},
		dg.F("info", str), dg.F("count", integer))}
	p2t := dg.Ref("Problem2")
	hd := func(attr, wire string) []dg.MapEntry { return []dg.MapEntry{{Attr: attr, Wire: wire}} }
	empty := &dg.BodySpec{Empty: true}
	mp := &dg.Method{Name: "pairs",
		Errors: []dg.ErrorDef{{Name: "da"}, {Name: "db"}, {Name: "dc"}, {Name: "dd"}, {Name: "pa", T: &p2t}, {Name: "pb", T: &p2t},
			{Name: "pc", T: &p2t}, {Name: "pd", T: &p2t}, {Name: "de"}, {Name: "pe", T: &p2t}, {Name: "df"}, {Name: "pf", T: &p2t},
			{Name: "dg", Timeout: true}, {Name: "pg", T: &p2t}, {Name: "xa"}, {Name: "xb"}, {Name: "xc"}, {Name: "xd", T: &p2t}},
		HTTP: &dg.HTTPMap{Routes: []dg.Route{{Verb: "GET", Path: "/pairs"}},
			Errors: []dg.ErrResponse{
				{Name: "da", R: dg.Response{Status: 400}},
				{Name: "db", R: dg.Response{Status: 400, Headers: hd("message", "X-Message")}},
				{Name: "dc", R: dg.Response{Status: 401}},
				{Name: "dd", R: dg.Response{Status: 401, Body: empty}},
				{Name: "pa", R: dg.Response{Status: 402}},
				{Name: "pb", R: dg.Response{Status: 402, Headers: hd("info", "X-Info")}},
				{Name: "pc", R: dg.Response{Status: 403, Headers: hd("count", "X-Count")}},
				{Name: "pd", R: dg.Response{Status: 403, Headers: hd("info", "X-Info")}},
				{Name: "de", R: dg.Response{Status: 404}},
				{Name: "pe", R: dg.Response{Status: 404}},
				{Name: "df", R: dg.Response{Status: 409}},
				{Name: "pf", R: dg.Response{Status: 409, Headers: hd("info", "X-Info")}},
				{Name: "dg", R: dg.Response{Status: 410, Body: empty}},
				{Name: "pg", R: dg.Response{Status: 410}},
				{Name: "xa", R: dg.Response{Status: 415, ContentType: "application/xml"}},
				{Name: "xb", R: dg.Response{Status: 416, ContentType: "text/xml"}},
				{Name: "xc", R: dg.Response{Status: 417, ContentType: "application/vnd.goa.error+json"}},
				{Name: "xd", R: dg.Response{Status: 417, ContentType: "application/vnd.goa.error+xml"}},
			}}}
	d2 := &dg.Design{Name: "cover2", Types: []*dg.UserType{p2},
		Services: []*dg.Service{{Name: "pairs", Methods: []*dg.Method{mp}}},
		Features: []string{"cover:same_status_pairs", "cover:error_content_type"}}
	lat0 := latticeDesign("lattice0", latCombos(0), 0)
	lat3 := latticeDesign("lattice3", latCombos(3), 100)
	// one user type, without an ErrorName attribute, used by errors of two different methods:
	// goa rejects the design (the validation of one method's errors extended to the service);
	// if it were accepted again the second method's error would have to be dispatched
	shared := &dg.UserType{Name: "Failure", Base: dg.Obj(dg.Req("why", str), dg.F("n", integer))}
	ft := dg.Ref("Failure")
	ma := &dg.Method{Name: "first", Errors: []dg.ErrorDef{{Name: "fail_a", T: &ft}},
		HTTP: &dg.HTTPMap{Routes: []dg.Route{{Verb: "GET", Path: "/first"}}, Errors: []dg.ErrResponse{{Name: "fail_a", R: dg.Response{Status: 400}}}}}
	mb := &dg.Method{Name: "second", Errors: []dg.ErrorDef{{Name: "fail_b", T: &ft}},
		HTTP: &dg.HTTPMap{Routes: []dg.Route{{Verb: "GET", Path: "/second"}}, Errors: []dg.ErrResponse{{Name: "fail_b", R: dg.Response{Status: 409}}}}}
	d3 := &dg.Design{Name: "cover3_must_reject", Types: []*dg.UserType{shared},
		Services: []*dg.Service{{Name: "gamma", Methods: []*dg.Method{ma, mb}}},
		Features: []string{"cover:type_shared_across_methods"}}
	return []*dg.Design{d0, d1, d2, d3, lat0, lat3}
}

// witnessDesigns hold the inputs that re-demonstrate the recorded findings.
func witnessDesigns() []*dg.Design {
	str, integer := dg.Prim("String"), dg.Prim("Int")
	// header-mapped attributes, an overridden body, an empty body
	conflict := dg.Obj(dg.Req("name", str), dg.F("detail", str), dg.F("code", integer))
	resw := dg.A(dg.Obj(dg.Req("message", str)))
	mw := &dg.Method{Name: "hdrs", Result: &resw,
		Errors: []dg.ErrorDef{{Name: "conflict", T: &conflict}, {Name: "no_body"}},
		HTTP: &dg.HTTPMap{Routes: []dg.Route{{Verb: "GET", Path: "/hdrs"}},
			Errors: []dg.ErrResponse{
				{Name: "conflict", R: dg.Response{Status: 409, Headers: []dg.MapEntry{{Attr: "detail", Wire: "X-Detail"}}}},
				{Name: "no_body", R: dg.Response{Status: 503, Body: &dg.BodySpec{Empty: true}}},
			}}}
	w1 := &dg.Design{Name: "witness1", Services: []*dg.Service{{Name: "delta", Methods: []*dg.Method{mw}}},
		Features: []string{"witness:header_attributes"}}
	// a required cookie read after the query parameters
	payc := dg.A(dg.Obj(dg.Req("n", integer), dg.Req("session", str), dg.F("q", str)))
	mc := &dg.Method{Name: "cookie", Payload: &payc,
		HTTP: &dg.HTTPMap{Routes: []dg.Route{{Verb: "GET", Path: "/cookie"}},
			Params: []dg.MapEntry{{Attr: "n"}, {Attr: "q"}}, Cookies: []dg.MapEntry{{Attr: "session", Wire: "sid"}}}}
	w2 := &dg.Design{Name: "witness2", Services: []*dg.Service{{Name: "epsilon", Methods: []*dg.Method{mc}}},
		Features: []string{"witness:required_cookie"}}
	// an API-level mapping (default error type) inherited by a method that redeclares the
	// error with a custom type
	w3 := latticeDesign("witness3", []latCombo{{A: latMap, M: latDecl, TM: "LatM"}, {S: latMap, M: latDecl, TM: "LatM"}}, 200)
	w3.Features = []string{"witness:error_type_differs_between_levels"}
	// a custom error type with Body(Empty): goa carries left-out attributes for ErrorResult only
	lost := dg.Obj(dg.Req("name", str), dg.F("code", integer))
	ml := &dg.Method{Name: "lost", Errors: []dg.ErrorDef{{Name: "conflict", T: &lost}},
		HTTP: &dg.HTTPMap{Routes: []dg.Route{{Verb: "GET", Path: "/lost"}},
			Errors: []dg.ErrResponse{{Name: "conflict", R: dg.Response{Status: 409, Body: &dg.BodySpec{Empty: true}}}}}}
	w4 := &dg.Design{Name: "witness4", Services: []*dg.Service{{Name: "zeta", Methods: []*dg.Method{ml}}},
		Features: []string{"witness:custom_error_body_empty"}}
	return []*dg.Design{w1, w2, w3, w4}
}
