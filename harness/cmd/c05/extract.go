package main

// Extraction of the per-endpoint error table from goa's finalised expressions
// (expr.Root while the design is live inside Batch.Add): the table the Coq model's
// encode_error / decode_error are evaluated on. The direct oracle does NOT use it; it
// reads the design description.

import (
	"net/http"
	"sort"

	"goa.design/goa/v3/expr"
	httpcodegen "goa.design/goa/v3/http/codegen"
)

// ErrEntry is one row of an endpoint's error table after inheritance.
type ErrEntry struct {
	Name      string      `json:"name"`
	Status    int         `json:"status"`
	Custom    bool        `json:"custom"`      // error type is not the built-in ErrorResult
	TypeName  string      `json:"type_name"`   // identity of the Go error type (ServiceError for ErrorResult)
	NameAttr  string      `json:"name_attr"`   // attribute holding the error name (struct:error:name), "" if none
	Static    string      `json:"static_name"` // what GoaErrorName() of the generated type returns when NameAttr == ""
	Object    bool        `json:"object"`
	Attrs     []string    `json:"attrs"`
	Headers   [][2]string `json:"headers"`   // attribute, canonical header name
	HdrReq    []bool      `json:"headers_required"`
	BodyKind  string      `json:"body_kind"` // empty | object | attr | value
	BodyAttrs []string    `json:"body_attrs,omitempty"`
	BodyAttr  string      `json:"body_attr,omitempty"`
}

// QParam is one query string parameter of the endpoint.
type QParam struct {
	Attr, Wire string
	Required   bool
	Kind       string // goa type name: int, string, boolean, array, ...
}

// EpExtract is what is read from expr per endpoint.
type EpExtract struct {
	Service, Method string
	Errors          []ErrEntry
	Query           []QParam
	MustHaveBody    bool
	HasServerBody   bool
	BodyStruct      bool // the request body is decoded into a struct
	RequiredCookie  bool // the endpoint reads a required cookie (after its parameters and headers)
}

func extractAll(root *expr.RootExpr) map[string]*EpExtract {
	out := map[string]*EpExtract{}
	if root.API == nil || root.API.HTTP == nil {
		return out
	}
	for _, hs := range root.API.HTTP.Services {
		sd := httpcodegen.HTTPServices.Get(hs.Name())
		for _, e := range hs.HTTPEndpoints {
			x := &EpExtract{Service: hs.Name(), Method: e.Name()}
			for _, he := range e.HTTPErrors {
				x.Errors = append(x.Errors, extractErr(he))
			}
			qp := e.QueryParams()
			if qp != nil && qp.Type != nil && expr.AsObject(qp.Type) != nil {
				_ = expr.WalkMappedAttr(qp, func(name, elem string, a *expr.AttributeExpr) error {
					x.Query = append(x.Query, QParam{Attr: name, Wire: elem, Required: qp.IsRequired(name), Kind: a.Type.Name()})
					return nil
				})
			}
			if sd != nil {
				if ed := sd.Endpoint(e.Name()); ed != nil && ed.Payload != nil && ed.Payload.Request != nil {
					x.MustHaveBody = ed.Payload.Request.MustHaveBody
					x.HasServerBody = ed.Payload.Request.ServerBody != nil
				}
			}
			if ck := e.Cookies; ck != nil && ck.Type != nil && expr.AsObject(ck.Type) != nil {
				for _, nat := range *expr.AsObject(ck.Type) {
					if ck.IsRequired(nat.Name) {
						x.RequiredCookie = true
					}
				}
			}
			if e.Body != nil && e.Body.Type != expr.Empty {
				x.BodyStruct = expr.IsObject(e.Body.Type)
			}
			out[x.Service+"/"+x.Method] = x
		}
	}
	return out
}

func extractErr(he *expr.HTTPErrorExpr) ErrEntry {
	en := ErrEntry{Name: he.Name, Status: he.Response.StatusCode}
	ee := he.ErrorExpr
	if ee == nil || ee.AttributeExpr == nil {
		en.TypeName = "?"
		return en
	}
	t := ee.Type
	if t == expr.ErrorResult {
		en.TypeName = "ServiceError"
		en.Static = "" // dynamic: the Name field
		en.NameAttr = "name"
	} else {
		en.Custom = true
		en.TypeName = t.Name()
		// the rule of codegen/service errorName()
		if obj := expr.AsObject(t); obj != nil {
			for _, nat := range *obj {
				if _, ok := nat.Attribute.Meta["struct:error:name"]; ok {
					en.NameAttr = nat.Name
					break
				}
			}
		}
		if en.NameAttr == "" {
			if ut, ok := t.(expr.UserType); ok {
				if v, ok := ut.Attribute().Meta["struct:error:name"]; ok && len(v) > 0 {
					en.Static = v[0]
				} else {
					en.Static = ut.Name()
				}
			}
		}
	}
	if obj := expr.AsObject(t); obj != nil {
		en.Object = true
		for _, nat := range *obj {
			en.Attrs = append(en.Attrs, nat.Name)
		}
	}
	if h := he.Response.Headers; h != nil && h.Type != nil && expr.AsObject(h.Type) != nil {
		_ = expr.WalkMappedAttr(h, func(name, elem string, a *expr.AttributeExpr) error {
			en.Headers = append(en.Headers, [2]string{name, http.CanonicalHeaderKey(elem)})
			en.HdrReq = append(en.HdrReq, h.IsRequired(name))
			return nil
		})
	}
	b := he.Response.Body
	switch {
	case b == nil || b.Type == expr.Empty:
		en.BodyKind = "empty"
	default:
		if o, ok := b.Meta["origin:attribute"]; ok && len(o) > 0 {
			en.BodyKind, en.BodyAttr = "attr", o[0]
		} else if obj := expr.AsObject(b.Type); obj != nil && en.Object {
			en.BodyKind = "object"
			for _, nat := range *obj {
				en.BodyAttrs = append(en.BodyAttrs, nat.Name)
			}
			sort.Strings(en.BodyAttrs)
		} else {
			en.BodyKind = "value"
		}
	}
	return en
}
