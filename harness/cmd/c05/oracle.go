package main

// The direct oracle: the statements of property C05 evaluated on what the real
// generated server and client did, using only the design description (not the model,
// not goa's finalised tables).

import (
	"bytes"
	"encoding/base64"
	"encoding/gob"
	"encoding/hex"
	"encoding/json"
	"encoding/xml"
	"fmt"
	"io"
	"math/big"
	"mime"
	"net/http"
	"sort"
	"strconv"
	"strings"

	dg "verifharness/designgen"
	"verifharness/tierb/rt"
	"verifharness/vh"
)

func findMethod(d *dg.Design, svc, name string) (*dg.Service, *dg.Method) {
	for _, s := range d.Services {
		if s.Name == svc {
			for _, m := range s.Methods {
				if m.Name == name {
					return s, m
				}
			}
		}
	}
	return nil, nil
}

// statusByFlags is the default mapping the property names: "a goa service error gets
// the status implied by its timeout, temporary and fault flags".
func statusByFlags(name string, timeout, temporary, fault bool) int {
	switch {
	case name == "unsupported_media_type":
		return 415
	case fault:
		return 500
	case timeout && temporary:
		return 504
	case timeout:
		return 408
	case temporary:
		return 503
	}
	return 400
}

var standardNames = map[string]string{
	"missing_payload":        "missing_payload",
	"malformed_json":         "decode_payload",
	"wrong_json_type":        "decode_payload",
	"missing_query_param":    "missing_field",
	"unparsable_int_param":   "invalid_field_type",
	"unsupported_media_type": "unsupported_media_type",
}

func hdr(w *rt.Wire, name string) (string, bool) {
	if w == nil {
		return "", false
	}
	v, ok := w.Headers[http.CanonicalHeaderKey(name)]
	if !ok || len(v) == 0 {
		return "", false
	}
	return v[0], true
}

// parseBody returns the decoded JSON body (numbers kept as literals), whether there
// is a body at all, and whether it is well formed.
func parseBody(w *rt.Wire) (val any, present, wellFormed bool) {
	if w == nil {
		return nil, false, false
	}
	b := []byte(w.Body)
	if strings.HasPrefix(w.Body, "base64:") {
		b, _ = base64.StdEncoding.DecodeString(strings.TrimPrefix(w.Body, "base64:"))
	}
	if len(bytes.TrimSpace(b)) == 0 {
		return nil, false, true
	}
	dec := json.NewDecoder(bytes.NewReader(b))
	dec.UseNumber()
	if err := dec.Decode(&val); err != nil {
		return nil, true, false
	}
	if dec.More() {
		return val, true, false
	}
	return val, true, true
}

// wireBody reads the response body in the format its Content-Type announces and
// flattens it to (attribute, canonical text) pairs. opaque: the body is well formed but
// is not flattened (gob of a custom type, XML with nested / repeated elements).
func wireBody(w *rt.Wire) (fs [][2]string, present, wellFormed, opaque bool) {
	if w == nil {
		return nil, false, false, false
	}
	ct, _ := hdr(w, "Content-Type")
	mt := ct
	if m, _, err := mime.ParseMediaType(ct); err == nil {
		mt = m
	}
	raw := []byte(w.Body)
	if strings.HasPrefix(w.Body, "base64:") {
		raw, _ = base64.StdEncoding.DecodeString(strings.TrimPrefix(w.Body, "base64:"))
	}
	sniffXML := mt == "text/xml" && bytes.HasPrefix(bytes.TrimSpace(raw), []byte("<")) // text/xml: whichever of the two the server chose
	switch {
	case mt == "application/xml" || strings.HasSuffix(mt, "+xml") || sniffXML:
		if len(bytes.TrimSpace(raw)) == 0 {
			return nil, false, true, false
		}
		return xmlFields(raw)
	case mt == "application/gob" || strings.HasSuffix(mt, "+gob"):
		if len(raw) == 0 {
			return nil, false, true, false
		}
		var six struct {
			Name, ID, Message         string
			Temporary, Timeout, Fault bool
		}
		if err := gob.NewDecoder(bytes.NewReader(raw)).Decode(&six); err != nil {
			return nil, true, true, true
		}
		return serviceFields(six.Name, six.ID, six.Message, six.Timeout, six.Temporary, six.Fault), true, true, false
	case mt == "text/html" || mt == "text/plain":
		if len(raw) == 0 {
			return nil, false, true, false
		}
		return [][2]string{{"", string(raw)}}, true, true, false
	}
	val, present, ok := parseBody(w)
	return fieldsOfBody(val, present), present, ok, false
}

func xmlFields(raw []byte) (fs [][2]string, present, wellFormed, opaque bool) {
	dec := xml.NewDecoder(bytes.NewReader(raw))
	depth := 0
	var name string
	var text, rootText strings.Builder
	seen := map[string]bool{}
	for {
		tok, err := dec.Token()
		if err == io.EOF {
			break
		}
		if err != nil {
			return nil, true, false, false
		}
		switch t := tok.(type) {
		case xml.StartElement:
			depth++
			if depth == 2 {
				name = t.Name.Local
				text.Reset()
			}
			if depth > 2 {
				opaque = true
			}
		case xml.CharData:
			if depth == 2 {
				text.Write(t)
			}
			if depth == 1 {
				rootText.Write(t)
			}
		case xml.EndElement:
			if depth == 2 {
				if seen[name] {
					opaque = true
				}
				seen[name] = true
				fs = append(fs, [2]string{name, text.String()})
			}
			depth--
		}
	}
	if depth != 0 {
		return nil, true, false, false
	}
	if opaque {
		return nil, true, true, true
	}
	if len(fs) == 0 && rootText.Len() > 0 { // a non-object value: <Type>text</Type>
		return [][2]string{{"", rootText.String()}}, true, true, false
	}
	return sortedFields(fs), true, true, false
}

// ---- canonical text of attribute values (both sides of every comparison)

func canonNumber(s string) string {
	if i, ok := new(big.Int).SetString(s, 10); ok {
		return i.String()
	}
	if f, err := strconv.ParseFloat(s, 64); err == nil {
		return strconv.FormatFloat(f, 'g', -1, 64)
	}
	return s
}

// canonAny renders a decoded JSON value; top-level strings are rendered raw.
func canonAny(x any, top bool) string {
	switch v := x.(type) {
	case nil:
		return "null"
	case bool:
		return strconv.FormatBool(v)
	case json.Number:
		return canonNumber(v.String())
	case string:
		if top {
			return v
		}
		b, _ := json.Marshal(v)
		return string(b)
	case []any:
		parts := make([]string, len(v))
		for i, e := range v {
			parts[i] = canonAny(e, false)
		}
		return "[" + strings.Join(parts, ",") + "]"
	case map[string]any:
		ks := make([]string, 0, len(v))
		for k := range v {
			ks = append(ks, k)
		}
		sort.Strings(ks)
		parts := make([]string, len(ks))
		for i, k := range ks {
			kb, _ := json.Marshal(k)
			parts[i] = string(kb) + ":" + canonAny(v[k], false)
		}
		return "{" + strings.Join(parts, ",") + "}"
	}
	return fmt.Sprint(x)
}

// canonVal renders an attribute-space value the same way.
func canonVal(v *dg.Val, top bool) string {
	if v == nil {
		return "null"
	}
	switch v.K {
	case "null":
		return "null"
	case "bool":
		return strconv.FormatBool(v.B)
	case "int":
		return strconv.FormatInt(v.I, 10)
	case "uint":
		return strconv.FormatUint(v.U, 10)
	case "float":
		return canonNumber(strconv.FormatFloat(v.F, 'g', -1, 64))
	case "string":
		if top {
			return v.S
		}
		b, _ := json.Marshal(v.S)
		return string(b)
	case "bytes":
		raw, _ := hex.DecodeString(v.S)
		s := base64.StdEncoding.EncodeToString(raw)
		if top {
			return s
		}
		return `"` + s + `"`
	case "array":
		parts := make([]string, len(v.Elems))
		for i, e := range v.Elems {
			parts[i] = canonVal(e, false)
		}
		return "[" + strings.Join(parts, ",") + "]"
	case "map":
		type kv struct{ k, v string }
		var kvs []kv
		for i := range v.Keys {
			kb, _ := json.Marshal(canonVal(v.Keys[i], true))
			kvs = append(kvs, kv{string(kb), canonVal(v.Elems[i], false)})
		}
		sort.Slice(kvs, func(i, j int) bool { return kvs[i].k < kvs[j].k })
		parts := make([]string, len(kvs))
		for i, e := range kvs {
			parts[i] = e.k + ":" + e.v
		}
		return "{" + strings.Join(parts, ",") + "}"
	case "object":
		type kv struct{ k, v string }
		var kvs []kv
		for i, n := range v.Names {
			kb, _ := json.Marshal(n)
			kvs = append(kvs, kv{string(kb), canonVal(v.Elems[i], false)})
		}
		sort.Slice(kvs, func(i, j int) bool { return kvs[i].k < kvs[j].k })
		parts := make([]string, len(kvs))
		for i, e := range kvs {
			parts[i] = e.k + ":" + e.v
		}
		return "{" + strings.Join(parts, ",") + "}"
	}
	return "?"
}

// fieldsOfVal lists the set attributes of an error value as (attribute, canonical text);
// a non-object value is the single pseudo attribute "".
func fieldsOfVal(v *dg.Val) [][2]string {
	if v == nil || v.K == "null" {
		return nil
	}
	if v.K != "object" {
		return [][2]string{{"", canonVal(v, true)}}
	}
	var out [][2]string
	for i, n := range v.Names {
		if v.Elems[i] == nil || v.Elems[i].K == "null" {
			continue
		}
		out = append(out, [2]string{n, canonVal(v.Elems[i], true)})
	}
	return sortedFields(out)
}

// fieldsOfBody flattens a decoded JSON body the same way.
func fieldsOfBody(x any, present bool) [][2]string {
	if !present {
		return nil
	}
	if m, ok := x.(map[string]any); ok {
		var out [][2]string
		for k, v := range m {
			if v == nil {
				continue
			}
			out = append(out, [2]string{k, canonAny(v, true)})
		}
		return sortedFields(out)
	}
	return [][2]string{{"", canonAny(x, true)}}
}

func serviceFields(name, id, msg string, timeout, temporary, fault bool) [][2]string {
	return sortedFields([][2]string{{"name", name}, {"id", id}, {"message", msg},
		{"temporary", strconv.FormatBool(temporary)}, {"timeout", strconv.FormatBool(timeout)}, {"fault", strconv.FormatBool(fault)}})
}

func sameFields(a, b [][2]string) bool {
	if len(a) != len(b) {
		return false
	}
	for i := range a {
		if a[i] != b[i] {
			return false
		}
	}
	return true
}

func lookupField(fs [][2]string, k string) (string, bool) {
	for _, f := range fs {
		if f[0] == k {
			return f[1], true
		}
	}
	return "", false
}

// withDefaults fills declared defaults into unset attributes (top level of an error value).
func withDefaults(d *dg.Design, t *dg.Type, v *dg.Val) *dg.Val {
	if v == nil || v.K != "object" {
		return v
	}
	out := v.Clone()
	for _, f := range d.AllFields(t) {
		if out.Get(f.Name) == nil && f.A.HasDef {
			switch x := f.A.Default.(type) {
			case bool:
				out.Set(f.Name, &dg.Val{K: "bool", B: x})
			case string:
				out.Set(f.Name, &dg.Val{K: "string", S: x})
			case int:
				if strings.HasPrefix(f.A.T.Prim, "UInt") {
					out.Set(f.Name, &dg.Val{K: "uint", U: uint64(x)})
				} else if strings.HasPrefix(f.A.T.Prim, "Float") {
					out.Set(f.Name, &dg.Val{K: "float", F: float64(x)})
				} else {
					out.Set(f.Name, &dg.Val{K: "int", I: int64(x)})
				}
			case float64:
				if strings.HasPrefix(f.A.T.Prim, "UInt") {
					out.Set(f.Name, &dg.Val{K: "uint", U: uint64(x)})
				} else if strings.HasPrefix(f.A.T.Prim, "Int") {
					out.Set(f.Name, &dg.Val{K: "int", I: int64(x)})
				} else {
					out.Set(f.Name, &dg.Val{K: "float", F: x})
				}
			}
		}
	}
	return out
}

// findingClass names the recorded finding whose hypothesis the input violates ("" when
// the input lies inside every _partial hypothesis, where the full property is expected).
func findingClass(ci *caseInfo) string {
	d := ci.Design
	s, m := findMethod(d, ci.Service, ci.Method)
	if s == nil || m == nil {
		return ""
	}
	if ci.Class == "decode:missing_query_param" || ci.Class == "decode:unparsable_int_param" {
		if m.HTTP != nil {
			for _, c := range m.HTTP.Cookies {
				for _, f := range d.AllFields(&m.Payload.T) {
					if f.Name == c.Attr && f.Required {
						return "param-error-lost-by-required-cookie"
					}
				}
			}
		}
		return ""
	}
	if fc := acceptClass(ci); fc != "" {
		return fc
	}
	if ci.Class == "service_named_like_custom" {
		if e, ok := declaredIn(d, s, m, ci.ErrName); ok && e.Def.T != nil {
			return "typed-as-nil-dereference"
		}
		return ""
	}
	if ci.Class != "declared" && ci.Class != "custom" && ci.Class != "wrapped_declared" {
		return ""
	}
	e, ok := declaredIn(d, s, m, ci.ErrName)
	if !ok || e.Resp == nil {
		return ""
	}
	// the level that supplies the mapping declares the error with another type
	if lt, ok := mappingLevelType(d, s, m, ci.ErrName); ok {
		a, _ := json.Marshal(lt)
		b, _ := json.Marshal(e.Def.T)
		if string(a) != string(b) {
			return "error-type-differs-between-levels"
		}
	}
	// a custom error type whose response overrides the body: unmapped attributes are not carried
	if e.Def.T != nil && e.Resp.Body != nil && (e.Resp.Body.Empty || e.Resp.Body.Attr != "") {
		return "custom-error-body-override-drops-attributes"
	}
	// string attributes that travel in headers
	var hv []string
	if e.Def.T == nil {
		if e.Resp.Body != nil && e.Resp.Body.Empty && ci.Err != nil {
			hv = append(hv, ci.Err.ID, ci.Err.Message)
		}
		if e.Resp.Body != nil && e.Resp.Body.Attr != "" && ci.Err != nil { // the other attributes: goa-attribute-* headers
			if e.Resp.Body.Attr != "id" {
				hv = append(hv, ci.Err.ID)
			}
			if e.Resp.Body.Attr != "message" {
				hv = append(hv, ci.Err.Message)
			}
		}
		for _, h := range e.Resp.Headers {
			if ci.Err != nil {
				switch h.Attr {
				case "message":
					hv = append(hv, ci.Err.Message)
				case "id":
					hv = append(hv, ci.Err.ID)
				}
			}
		}
	} else if ci.Sent != nil {
		for _, h := range e.Resp.Headers {
			if v := ci.Sent.Get(h.Attr); v != nil && v.K == "string" {
				hv = append(hv, v.S)
			}
		}
	}
	for _, v := range hv {
		if v == "" {
			return "header-attribute-empty"
		}
	}
	for _, v := range hv {
		if strings.TrimSpace(v) != v || strings.ContainsAny(v, "\n\r\x00") {
			return "header-attribute-rewritten"
		}
	}
	return ""
}

// xmlAmbiguous: an XML body does not tell a one-element array from a scalar; bodies of
// custom error types with non-primitive attributes are not flattened when sent as XML.
func xmlAmbiguous(ci *caseInfo, w *rt.Wire) bool {
	if ci.Sent == nil || w == nil {
		return false
	}
	ct, _ := hdr(w, "Content-Type")
	if !strings.Contains(ct, "xml") {
		return false
	}
	for _, e := range ci.Sent.Elems {
		if e != nil && (e.K == "array" || e.K == "map" || e.K == "object") {
			return true
		}
	}
	return ci.Sent.K == "array" || ci.Sent.K == "map"
}

// acceptClass: the content-negotiation findings (the codecs are C15's subject; here they
// decide whether an error reaches the client).
func acceptClass(ci *caseInfo) string {
	mt := ci.Accept
	if m, _, err := mime.ParseMediaType(ci.Accept); err == nil {
		mt = m
	}
	switch mt {
	case "text/html", "text/plain":
		return "text-accept-empty-error-body"
	case "application/gob":
		zero := false
		if ci.Err != nil && ci.Err.Kind != "custom" && ci.Err.Kind != "plain" {
			zero = !ci.Err.Timeout || !ci.Err.Temporary || !ci.Err.Fault || ci.Err.ID == "" || ci.Err.Message == ""
		}
		if ci.Sent != nil {
			for _, e := range ci.Sent.Elems {
				if e != nil && isZero(e) {
					zero = true
				}
			}
		}
		if zero {
			return "gob-zero-values-missing"
		}
	}
	return ""
}

func isZero(v *dg.Val) bool {
	switch v.K {
	case "bool":
		return !v.B
	case "int":
		return v.I == 0
	case "uint":
		return v.U == 0
	case "float":
		return v.F == 0
	case "string":
		return v.S == ""
	}
	return false
}

// mappingLevelType returns the type the error has at the level whose HTTP mapping the
// endpoint uses (method, else service, else API).
func mappingLevelType(d *dg.Design, s *dg.Service, m *dg.Method, name string) (*dg.Type, bool) {
	if m.HTTP != nil && findResp(m.HTTP.Errors, name) != nil {
		return nil, false // the method's own mapping: its own (effective) error
	}
	find := func(es []dg.ErrorDef) (*dg.Type, bool) {
		for _, e := range es {
			if e.Name == name {
				return e.T, true
			}
		}
		return nil, false
	}
	if findResp(s.HTTPErrs, name) != nil {
		return find(s.Errors)
	}
	if findResp(d.HTTPErrs, name) != nil {
		return find(d.Errors)
	}
	return nil, false
}

// oracle evaluates the property on one exchange.
func oracle(res *vh.Result, ci *caseInfo, ob *rt.Obs) {
	type fl struct{ sig, what string }
	var fails []fl
	fail := func(sig, what string) { fails = append(fails, fl{sig, what}) }
	defer func() {
		if len(fails) == 0 {
			return
		}
		in := map[string]any{"stream": ci.Stream, "class": ci.Class, "design": ci.Design, "key": ci.Key, "service": ci.Service, "method": ci.Method,
			"error_name": ci.ErrName, "scripted_error": ci.Err, "sent_value": ci.Sent, "raw_request": ci.Raw, "payload": ci.Payload,
			"accept": ci.Accept, "wire_response": ob.Resp, "client_error": ob.ClientErr, "write_headers": ob.WriteHeaders, "invoked": ob.Invoked}
		if ob.Panic != "" {
			in["panic"] = strings.SplitN(ob.Panic, "\n", 2)[0]
		}
		if fc := findingClass(ci); fc != "" {
			var ws []string
			for _, f := range fails {
				ws = append(ws, f.what)
			}
			res.Fail(fc, strings.Join(ws, "; "), in)
			return
		}
		for _, f := range fails {
			res.Fail(f.sig, f.what, in)
		}
	}()
	d := ci.Design
	s, m := findMethod(d, ci.Service, ci.Method)
	cls := ci.Class
	if ob.Panic != "" {
		fail("driver-panic:"+cls, "panic while running the exchange: "+strings.SplitN(ob.Panic, "\n", 2)[0])
		return
	}
	isDecode := strings.HasPrefix(cls, "decode:")
	if !isDecode && ob.Invoked == 0 {
		res.Count("endpoint_not_reached")
		return // the request did not reach the method: not this property's business
	}
	if isDecode && ob.Invoked != 0 {
		fail("decode-failure-invoked:"+strings.TrimPrefix(cls, "decode:"), fmt.Sprintf("the service method ran %d time(s) although the request cannot be decoded (%s)", ob.Invoked, strings.TrimPrefix(cls, "decode:")))
		return
	}
	// ---- exactly one well-formed response, in every case
	if ob.Resp == nil {
		fail("no-response:"+cls, fmt.Sprintf("no HTTP response was produced (WriteHeader ran %d times; client: %s)", ob.WriteHeaders, clientText(ob)))
		return
	}
	if ob.WriteHeaders != 1 {
		fail("write-header-count:"+cls, fmt.Sprintf("WriteHeader ran %d times, exactly one response header must be written", ob.WriteHeaders))
	}
	bf, _, ok, opaque := wireBody(ob.Resp)
	opaque = opaque || xmlAmbiguous(ci, ob.Resp)
	if !ok {
		ct, _ := hdr(ob.Resp, "Content-Type")
		fail("malformed-body:"+cls, "the response body is not one well-formed document of the announced Content-Type "+ct+": "+ob.Resp.Body)
		return
	}
	goaErr, hasGoaErr := hdr(ob.Resp, "goa-error")

	switch {
	case isDecode:
		kind := strings.TrimPrefix(cls, "decode:")
		want := standardNames[kind]
		if ob.Invoked != 0 {
			fail("decode-failure-invoked:"+kind, fmt.Sprintf("the service method ran although the request cannot be decoded (%s)", kind))
			return
		}
		// a design may itself declare the standard name and assign it a status
		if e, ok := declaredIn(d, s, m, want); ok && e.Resp != nil {
			if ob.Resp.Status != e.Resp.Status {
				fail("decode-failure-status:"+kind, fmt.Sprintf("status %d, the design assigns %d to %q", ob.Resp.Status, e.Resp.Status, want))
			}
			return
		}
		wantStatus := 400
		if kind == "unsupported_media_type" {
			wantStatus = 415
		}
		if ob.Resp.Status != wantStatus {
			fail("decode-failure-status:"+kind, fmt.Sprintf("status %d for a request that cannot be decoded (%s), expected the client error %d", ob.Resp.Status, kind, wantStatus))
		}
		if n, _ := lookupField(bf, "name"); n != want {
			fail("decode-failure-name:"+kind, fmt.Sprintf("error name %q, the standard name is %q", n, want))
		}
		if f, _ := lookupField(bf, "fault"); f != "false" {
			fail("decode-failure-fault:"+kind, "a request decoding failure is reported as a server fault")
		}

	case cls == "declared" || cls == "wrapped_declared":
		e, _ := declaredIn(d, s, m, ci.ErrName)
		sp := ci.Err
		if ob.Resp.Status != e.Resp.Status {
			fail("declared-status", fmt.Sprintf("error %q: status %d, the design assigns %d", ci.ErrName, ob.Resp.Status, e.Resp.Status))
		}
		if !hasGoaErr || goaErr != ci.ErrName {
			fail("declared-goa-error-header", fmt.Sprintf("error %q: goa-error header is %q", ci.ErrName, goaErr))
		}
		want := serviceFields(sp.Name, sp.ID, sp.Message, sp.Timeout, sp.Temporary, sp.Fault)
		gotWire := wireFields(ob.Resp, e.Resp, bf, []string{"name", "id", "message", "temporary", "timeout", "fault"})
		if !opaque && !sameFields(gotWire, want) {
			fail("declared-wire-attributes", fmt.Sprintf("error %q: attributes on the wire %v, the service returned %v", ci.ErrName, gotWire, want))
		}
		ce := ob.ClientErr
		switch {
		case ce == nil:
			fail("declared-client-no-error", fmt.Sprintf("error %q: the client returned no error", ci.ErrName))
		case ce.Type != "ServiceError":
			fail("declared-client-type", fmt.Sprintf("error %q: the client returned %s (%s: %s)", ci.ErrName, ce.Type, ce.Name, ce.Message))
		case ce.Name != sp.Name:
			fail("declared-client-name", fmt.Sprintf("the client returned error %q, the service returned %q", ce.Name, sp.Name))
		case ce.ID != sp.ID || ce.Message != sp.Message || ce.Timeout != sp.Timeout || ce.Temporary != sp.Temporary || ce.Fault != sp.Fault:
			fail("declared-client-attributes", fmt.Sprintf("error %q: client got id=%q message=%q timeout=%v temporary=%v fault=%v, service returned id=%q message=%q timeout=%v temporary=%v fault=%v",
				ci.ErrName, ce.ID, ce.Message, ce.Timeout, ce.Temporary, ce.Fault, sp.ID, sp.Message, sp.Timeout, sp.Temporary, sp.Fault))
		}

	case cls == "custom":
		e, _ := declaredIn(d, s, m, ci.ErrName)
		if ob.Resp.Status != e.Resp.Status {
			fail("declared-status", fmt.Sprintf("error %q: status %d, the design assigns %d", ci.ErrName, ob.Resp.Status, e.Resp.Status))
		}
		if !hasGoaErr || goaErr != ci.ErrName {
			fail("declared-goa-error-header", fmt.Sprintf("error %q: goa-error header is %q", ci.ErrName, goaErr))
		}
		wantV := withDefaults(d, e.Def.T, ci.Sent)
		want := fieldsOfVal(wantV)
		var names []string
		for _, f := range d.AllFields(e.Def.T) {
			names = append(names, f.Name)
		}
		gotWire := wireFields(ob.Resp, e.Resp, bf, names)
		if !opaque && !sameFields(gotWire, want) {
			fail("declared-wire-attributes", fmt.Sprintf("error %q: attributes on the wire %v, the service returned %v", ci.ErrName, gotWire, want))
		}
		ce := ob.ClientErr
		switch {
		case ce == nil:
			fail("declared-client-no-error", fmt.Sprintf("error %q: the client returned no error", ci.ErrName))
		case !strings.HasPrefix(ce.Type, "custom:"):
			fail("declared-client-type", fmt.Sprintf("error %q: the client returned %s (%s: %s)", ci.ErrName, ce.Type, ce.Name, ce.Message))
		case ce.Name != ci.ErrName:
			fail("declared-client-name", fmt.Sprintf("the client returned error %q, the service returned %q", ce.Name, ci.ErrName))
		default:
			got := d.FromTree(e.Def.T, ce.Value)
			if !got.Equal(wantV) {
				fail("declared-client-attributes", fmt.Sprintf("error %q: the client returned %s, the service returned %s", ci.ErrName, got, wantV))
			}
		}

	case cls == "plain" || cls == "wrapped_plain" || cls == "other_method_custom":
		if ob.Resp.Status != 500 {
			fail("undeclared-plain-status", fmt.Sprintf("status %d for an undeclared non-goa error, expected 500", ob.Resp.Status))
		}
		if f, _ := lookupField(bf, "fault"); f != "true" {
			fail("undeclared-plain-fault", "the fault flag is not set for an undeclared non-goa error")
		}
		if cls != "other_method_custom" {
			if msg, _ := lookupField(bf, "message"); msg != ci.Err.Message {
				fail("undeclared-plain-message", fmt.Sprintf("message %q, the error text is %q", msg, ci.Err.Message))
			}
		}
		if hasGoaErr {
			fail("undeclared-goa-error-header", fmt.Sprintf("goa-error header %q on an undeclared error", goaErr))
		}

	case cls == "service_undeclared" || cls == "service_undeclared_wrapped" || cls == "other_method_name" || cls == "service_named_like_custom":
		sp := ci.Err
		want := statusByFlags(sp.Name, sp.Timeout, sp.Temporary, sp.Fault)
		if ob.Resp.Status != want {
			fail("undeclared-service-status", fmt.Sprintf("status %d for an undeclared service error with timeout=%v temporary=%v fault=%v, the flags imply %d", ob.Resp.Status, sp.Timeout, sp.Temporary, sp.Fault, want))
		}
		wf := serviceFields(sp.Name, sp.ID, sp.Message, sp.Timeout, sp.Temporary, sp.Fault)
		if !opaque && !sameFields(bf, wf) {
			fail("undeclared-service-body", fmt.Sprintf("body %v, the service returned %v", bf, wf))
		}
		if hasGoaErr {
			fail("undeclared-goa-error-header", fmt.Sprintf("goa-error header %q on an undeclared error", goaErr))
		}
	}
}

func clientText(ob *rt.Obs) string {
	if ob.ClientErr == nil {
		return "no error"
	}
	return ob.ClientErr.Type + " " + ob.ClientErr.Name + ": " + ob.ClientErr.Message
}

func declaredIn(d *dg.Design, s *dg.Service, m *dg.Method, name string) (effErr, bool) {
	for _, e := range effective(d, s, m) {
		if e.Def.Name == name {
			return e, true
		}
	}
	return effErr{}, false
}

// wireFields collects the attribute values found on the wire for a declared error:
// attributes the design maps to headers are read from those headers, attributes of
// the default error type that an overridden body leaves out are read from the
// goa-attribute-<name> headers, the rest from the body.
func wireFields(w *rt.Wire, r *dg.Response, bf [][2]string, attrs []string) [][2]string {
	var out [][2]string
	mapped := map[string]string{}
	for _, h := range r.Headers {
		wn := h.Wire
		if wn == "" {
			wn = h.Attr
		}
		mapped[h.Attr] = wn
	}
	bodyAttr := ""
	if r.Body != nil {
		bodyAttr = r.Body.Attr
	}
	if len(attrs) == 0 { // non-object error type
		return bf
	}
	for _, a := range attrs {
		if hn, ok := mapped[a]; ok {
			if v, ok := hdr(w, hn); ok {
				out = append(out, [2]string{a, v})
			}
			continue
		}
		if bodyAttr != "" {
			if a == bodyAttr {
				if v, ok := lookupField(bf, ""); ok {
					out = append(out, [2]string{a, v})
				}
				continue
			}
			if v, ok := hdr(w, "goa-attribute-"+a); ok {
				out = append(out, [2]string{a, v})
			}
			continue
		}
		if r.Body != nil && r.Body.Empty {
			if v, ok := hdr(w, "goa-attribute-"+a); ok {
				out = append(out, [2]string{a, v})
			}
			continue
		}
		if v, ok := lookupField(bf, a); ok {
			out = append(out, [2]string{a, v})
		}
	}
	return sortedFields(out)
}
