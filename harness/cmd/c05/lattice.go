package main

// The inheritance / override lattice of error declarations and HTTP error mappings:
// the SAME error name declared (Error) and mapped (Response) at API, service and
// method level in every combination, with a different status per level and, in the
// typed variants, a different error type per level.

import (
	"fmt"
	"strings"

	dg "verifharness/designgen"
	"verifharness/vh"
)

const (
	latNone = 0 // not declared at the level
	latDecl = 1 // Error(name) only
	latMap  = 2 // Error(name) and HTTP Response(name, status)
)

var latStatus = map[string]int{"api": 412, "service": 409, "method": 406}

type latCombo struct {
	A, S, M    int
	TA, TS, TM string // custom error type at the level (LatA / LatS / LatM), "" = ErrorResult
}

func (c latCombo) String() string {
	t := func(b string) string {
		if b != "" {
			return strings.ToLower(b[3:])
		}
		return "d"
	}
	return fmt.Sprintf("a%d%s_s%d%s_m%d%s", c.A, t(c.TA), c.S, t(c.TS), c.M, t(c.TM))
}

// latCombos enumerates the combinations in which the method can return the error
// (declared by the method or its service) and some level maps it.
// variant 0: ErrorResult everywhere; 1: the level the method's error comes from is
// custom, the others default; 2: every declaring level has its own custom type;
// 3: every declaring level uses the SAME custom type (at least two levels declare).
func latCombos(variant int) []latCombo {
	var out []latCombo
	for a := 0; a < 3; a++ {
		for s := 0; s < 3; s++ {
			for m := 0; m < 3; m++ {
				if s == latNone && m == latNone {
					continue
				}
				if a != latMap && s != latMap && m != latMap {
					continue
				}
				c := latCombo{A: a, S: s, M: m}
				nDecl := 0
				for _, x := range []int{a, s, m} {
					if x != latNone {
						nDecl++
					}
				}
				switch variant {
				case 1:
					if nDecl < 2 {
						continue
					}
					if m != latNone {
						c.TM = "LatM"
					} else {
						c.TS = "LatS"
					}
				case 2:
					if a != latNone {
						c.TA = "LatA"
					}
					if s != latNone {
						c.TS = "LatS"
					}
					if m != latNone {
						c.TM = "LatM"
					}
				case 3:
					if nDecl < 2 {
						continue
					}
					if a != latNone {
						c.TA = "LatS"
					}
					if s != latNone {
						c.TS = "LatS"
					}
					if m != latNone {
						c.TM = "LatS"
					}
				}
				out = append(out, c)
			}
		}
	}
	return out
}

func latTypes() []*dg.UserType {
	str, integer := dg.Prim("String"), dg.Prim("Int")
	mk := func(name, attr string) *dg.UserType {
		return &dg.UserType{Name: name, Base: dg.Obj(
			&dg.Field{Name: "kind", A: dg.Attr{T: str, Meta: [][]string{{"struct:error:name"}}}, Required: true},
			dg.F(attr, str), dg.F("n", integer))}
	}
	return []*dg.UserType{mk("LatA", "a_info"), mk("LatS", "s_info"), mk("LatM", "m_info")}
}

// latticeDesign builds one design holding the given combinations, one service (with one
// method) and one error name per combination.
func latticeDesign(name string, combos []latCombo, first int) *dg.Design {
	d := &dg.Design{Name: name, Types: latTypes(), Features: []string{"cover:inheritance_lattice"}}
	def := func(n string, ty string) dg.ErrorDef {
		e := dg.ErrorDef{Name: n}
		if ty != "" {
			t := dg.Ref(ty)
			e.T = &t
		}
		return e
	}
	for i, c := range combos {
		en := fmt.Sprintf("lat%02d", first+i)
		if c.A != latNone {
			d.Errors = append(d.Errors, def(en, c.TA))
		}
		if c.A == latMap {
			d.HTTPErrs = append(d.HTTPErrs, dg.ErrResponse{Name: en, R: dg.Response{Status: latStatus["api"]}})
		}
		s := &dg.Service{Name: fmt.Sprintf("l%02d_%s", first+i, c)}
		if c.S != latNone {
			s.Errors = append(s.Errors, def(en, c.TS))
		}
		if c.S == latMap {
			s.HTTPErrs = append(s.HTTPErrs, dg.ErrResponse{Name: en, R: dg.Response{Status: latStatus["service"]}})
		}
		m := &dg.Method{Name: "run", HTTP: &dg.HTTPMap{Routes: []dg.Route{{Verb: "GET", Path: fmt.Sprintf("/l%02d", first+i)}}}}
		if c.M != latNone {
			m.Errors = append(m.Errors, def(en, c.TM))
		}
		if c.M == latMap {
			m.HTTP.Errors = append(m.HTTP.Errors, dg.ErrResponse{Name: en, R: dg.Response{Status: latStatus["method"]}})
		}
		s.Methods = []*dg.Method{m}
		d.Services = append(d.Services, s)
	}
	return d
}

// decorate adds to a random design the service- and API-level twins of errors its
// methods declare, with other statuses, so that the override order is exercised on the
// random stream too. The design stays valid if goa accepts the twins; the caller falls
// back to the undecorated design otherwise.
func decorate(rng *vh.RNG, d *dg.Design) *dg.Design {
	c := d.Clone()
	for _, s := range c.Services {
		seen := map[string]bool{}
		for _, e := range s.Errors {
			seen[e.Name] = true
		}
		for _, m := range s.Methods {
			for _, e := range m.Errors {
				if e.T != nil || seen[e.Name] {
					continue
				}
				seen[e.Name] = true
				switch rng.Intn(4) {
				case 0: // service twin, mapped
					s.Errors = append(s.Errors, dg.ErrorDef{Name: e.Name})
					s.HTTPErrs = append(s.HTTPErrs, dg.ErrResponse{Name: e.Name, R: dg.Response{Status: 421}})
				case 1: // API twin, mapped
					if findResp(c.HTTPErrs, e.Name) == nil {
						c.Errors = append(c.Errors, dg.ErrorDef{Name: e.Name})
						c.HTTPErrs = append(c.HTTPErrs, dg.ErrResponse{Name: e.Name, R: dg.Response{Status: 423}})
					}
				case 2: // both
					s.Errors = append(s.Errors, dg.ErrorDef{Name: e.Name})
					s.HTTPErrs = append(s.HTTPErrs, dg.ErrResponse{Name: e.Name, R: dg.Response{Status: 421}})
					if findResp(c.HTTPErrs, e.Name) == nil {
						c.Errors = append(c.Errors, dg.ErrorDef{Name: e.Name})
						c.HTTPErrs = append(c.HTTPErrs, dg.ErrResponse{Name: e.Name, R: dg.Response{Status: 423}})
					}
				}
				// sometimes drop the method-level mapping so that the inherited one is used
				if m.HTTP != nil && rng.Chance(1, 2) && (findResp(s.HTTPErrs, e.Name) != nil || findResp(c.HTTPErrs, e.Name) != nil) {
					var keep []dg.ErrResponse
					for _, er := range m.HTTP.Errors {
						if er.Name != e.Name {
							keep = append(keep, er)
						}
					}
					m.HTTP.Errors = keep
				}
			}
		}
	}
	// errors sharing a status code get different mappings: a header-mapped attribute or an
	// empty body on the second one
	for _, s := range c.Services {
		for _, m := range s.Methods {
			if m.HTTP == nil {
				continue
			}
			nf, gone := findResp(m.HTTP.Errors, "not_found"), findResp(m.HTTP.Errors, "gone")
			if nf == nil || gone == nil || nf.Status != gone.Status {
				continue
			}
			switch rng.Intn(3) {
			case 1:
				gone.Headers = []dg.MapEntry{{Attr: "message", Wire: "X-Gone-Message"}}
			case 2:
				gone.Body = &dg.BodySpec{Empty: true}
			}
		}
	}
	c.Features = append(c.Features, "decorated:error_twins")
	return c
}
