package main

// Printing of exchanges as Coq terms for the ErrTransport model (types of
// coq/ErrTransport/Model.v and Run.v).

import (
	"encoding/json"
	"fmt"
	"net/http"
	"sort"
	"strconv"
	"strings"

	dg "verifharness/designgen"
	"verifharness/tierb/rt"
	"verifharness/vh"
)

// asc maps an arbitrary string injectively, character by character, into printable
// ASCII (the model treats attribute values as opaque tokens).
func asc(s string) string {
	q := strconv.QuoteToASCII(s)
	return q[1 : len(q)-1]
}

func cs(s string) string { return vh.CoqString(asc(s)) }

func coqFields(fs [][2]string) string {
	items := make([]string, len(fs))
	for i, f := range fs {
		items[i] = "(" + cs(f[0]) + ", " + cs(f[1]) + ")"
	}
	return vh.CoqList(items)
}

func coqCore(name, id, msg string, timeout, temporary, fault bool) string {
	return fmt.Sprintf("(mkcore %s %s %s %s %s %s)", cs(name), cs(id), cs(msg), vh.CoqBool(timeout), vh.CoqBool(temporary), vh.CoqBool(fault))
}

func coqNameRule(e *ErrEntry) string {
	if e.NameAttr != "" {
		return "(NField " + cs(e.NameAttr) + ")"
	}
	return "(NStatic " + cs(e.Static) + ")"
}

// coqTenv lists the generated error types of the service with their GoaErrorName rule.
func coqTenv(eps map[string]*EpExtract, svc string, ci *caseInfo) string {
	seen := map[string]bool{}
	var keys, items []string
	for k := range eps {
		keys = append(keys, k)
	}
	sort.Strings(keys)
	for _, k := range keys {
		if !strings.HasPrefix(k, svc+"/") {
			continue
		}
		for i := range eps[k].Errors {
			e := &eps[k].Errors[i]
			if e.Custom && !seen[e.TypeName] {
				seen[e.TypeName] = true
				items = append(items, "("+cs(e.TypeName)+", "+coqNameRule(e)+")")
			}
		}
	}
	// the Go type of a scripted custom error that no row of the service mentions (an upper
	// level's mapping carries another type): its rule comes from the design description
	if ty, rule, ok := scriptedType(ci); ok && !seen[ty] {
		items = append(items, "("+cs(ty)+", "+rule+")")
	}
	return vh.CoqList(items)
}

// scriptedType: design-level Go type name and GoaErrorName rule of a scripted custom error.
func scriptedType(ci *caseInfo) (string, string, bool) {
	if ci == nil || ci.Err == nil || ci.Err.Kind != "custom" {
		return "", "", false
	}
	for _, s := range ci.Design.Services {
		if s.Name != ci.Service {
			continue
		}
		for _, m := range s.Methods {
			for _, e := range append(append([]dg.ErrorDef{}, m.Errors...), s.Errors...) {
				if e.Name == ci.ErrName && e.T != nil {
					ty := e.Name
					if e.T.Kind == "user" {
						ty = e.T.Ref
					}
					if na := nameAttrOf(ci.Design, e.T); na != "" {
						return ty, "(NField " + cs(na) + ")", true
					}
					return ty, "(NStatic " + cs(e.Name) + ")", true
				}
			}
		}
	}
	return "", "", false
}

func coqDecl(e *ErrEntry) string {
	kind := "KDefault"
	if e.Custom {
		kind = "(KCustom " + cs(e.TypeName) + ")"
	}
	hs := make([]string, len(e.Headers))
	for i, h := range e.Headers {
		hs[i] = "mkh " + cs(h[0]) + " " + cs(h[1]) + " " + vh.CoqBool(i < len(e.HdrReq) && e.HdrReq[i])
	}
	var body string
	switch e.BodyKind {
	case "empty":
		body = "BEmpty"
	case "attr":
		body = "(BAttr " + cs(e.BodyAttr) + ")"
	case "object":
		as := make([]string, len(e.BodyAttrs))
		for i, a := range e.BodyAttrs {
			as[i] = cs(a)
		}
		body = "(BObject " + vh.CoqList(as) + ")"
	default:
		body = "BValue"
	}
	return fmt.Sprintf("mkdecl %s %d %s %s %s", cs(e.Name), e.Status, kind, vh.CoqList(hs), body)
}

func coqTable(ex *EpExtract) string {
	items := make([]string, len(ex.Errors))
	for i := range ex.Errors {
		items[i] = coqDecl(&ex.Errors[i])
	}
	return vh.CoqList(items)
}

// entryFor finds the table row that declares the error type registered under `name`
// in the service (any endpoint): the hub builds custom errors per service and name.
func entryFor(eps map[string]*EpExtract, svc, name string) *ErrEntry {
	var keys []string
	for k := range eps {
		keys = append(keys, k)
	}
	sort.Strings(keys)
	for _, k := range keys {
		if !strings.HasPrefix(k, svc+"/") {
			continue
		}
		for i := range eps[k].Errors {
			if eps[k].Errors[i].Name == name {
				return &eps[k].Errors[i]
			}
		}
	}
	return nil
}

func coqErr(ci *caseInfo, eps map[string]*EpExtract) string {
	sp := ci.Err
	switch sp.Kind {
	case "plain":
		return "(EPlain " + cs(sp.Message) + ")"
	case "custom":
		ty, _, ok := scriptedType(ci)
		if en := entryFor(eps, ci.Service, ci.ErrName); en != nil && (!ok || en.Custom) {
			ty = en.TypeName
		} else if !ok {
			return ""
		}
		return fmt.Sprintf("(ECustom %s %s)", cs(ty), coqFields(fieldsOfVal(ci.Sent)))
	case "wrapped", "wrapped2", "joined", "multiw", "joined-wrapped":
		se := "(EService " + coqCore(sp.Name, sp.ID, sp.Message, sp.Timeout, sp.Temporary, sp.Fault) + ")"
		switch sp.Kind { // the trees tierb/rt builds around the scripted ServiceError
		case "wrapped":
			return "(EWrap \"wrapped\" " + se + ")"
		case "wrapped2":
			return "(EWrap \"outer\" (EWrap \"inner\" " + se + "))"
		case "joined":
			return "(EJoin " + cs("\n") + " [EPlain \"unrelated\"; " + se + "])"
		case "multiw":
			return "(EJoin \": \" [EPlain \"context\"; " + se + "])"
		default:
			return "(EWrap \"while doing x\" (EJoin " + cs("\n") + " [" + se + "; EPlain \"unrelated\"]))"
		}
	default:
		return "(EService " + coqCore(sp.Name, sp.ID, sp.Message, sp.Timeout, sp.Temporary, sp.Fault) + ")"
	}
}

func obsHeaders(ex *EpExtract, w *rt.Wire) [][2]string {
	want := map[string]bool{}
	for _, e := range ex.Errors {
		for _, h := range e.Headers {
			want[h[1]] = true
		}
	}
	var out [][2]string
	for k, v := range w.Headers {
		ck := http.CanonicalHeaderKey(k)
		if (want[ck] || strings.HasPrefix(ck, "Goa-Attribute")) && len(v) > 0 {
			out = append(out, [2]string{ck, v[0]})
		}
	}
	return sortedFields(out)
}

var decodeCtor = map[string]string{
	"missing_payload": "DMissingPayload", "malformed_json": "DDecodePayload", "wrong_json_type": "DDecodePayload",
	"missing_query_param": "DMissingField", "unparsable_int_param": "DInvalidFieldType", "unsupported_media_type": "DUnsupportedMedia",
}

// coqCase prints one exchange; "" when it cannot be expressed (no response).
func coqCase(idx int, ci *caseInfo, ex *EpExtract, ob *rt.Obs, eps map[string]*EpExtract) string {
	if ob == nil || ob.Panic != "" {
		return ""
	}
	if acceptClass(ci) != "" {
		return "" // content negotiation is not modelled: the recorded codec findings are judged by the direct oracle only
	}
	te := coqTenv(eps, ci.Service, ci)
	if strings.HasPrefix(ci.Class, "decode:") {
		kind := strings.TrimPrefix(ci.Class, "decode:")
		var steps string
		switch kind {
		case "missing_query_param", "unparsable_int_param":
			steps = "[SAccum (Some " + decodeCtor[kind] + ")"
			if ex.RequiredCookie {
				steps += "; SAssign None" // the valid request carries the cookie
			}
			steps += "]"
		default:
			steps = "[SCheck (Some " + decodeCtor[kind] + ")]"
		}
		if ob.Invoked != 0 {
			return fmt.Sprintf("(%d%%N, %s, %s, %s, DInvoked)", idx, te, coqTable(ex), steps)
		}
		if ob.Resp == nil {
			return ""
		}
		dbf, _, ok, opq := wireBody(ob.Resp)
		if !ok || opq {
			return ""
		}
		name, _ := lookupField(dbf, "name")
		return fmt.Sprintf("(%d%%N, %s, %s, %s, DReported %d %s)", idx, te, coqTable(ex), steps, ob.Resp.Status, cs(name))
	}
	if ob.Resp == nil {
		if ci.Err == nil || ob.Invoked == 0 {
			return ""
		}
		if e := coqErr(ci, eps); e != "" {
			return fmt.Sprintf("(%d%%N, %s, %s, %s, ONone)", idx, te, coqTable(ex), e)
		}
		return ""
	}
	bf, _, ok, opaque := wireBody(ob.Resp)
	if !ok {
		return ""
	}
	opaque = opaque || xmlAmbiguous(ci, ob.Resp)
	if ob.Invoked == 0 || ci.Err == nil {
		return ""
	}
	e := coqErr(ci, eps)
	if e == "" {
		return ""
	}
	_, dispatched := hdr(ob.Resp, "goa-error")
	fresh := !dispatched && (ci.Err.Kind == "plain" || ci.Err.Kind == "custom") // the default encoder built a Fault
	if fresh {
		for i := range bf {
			if bf[i][0] == "id" && bf[i][1] != "" {
				bf[i][1] = "<fresh>"
			}
			if bf[i][0] == "message" && ci.Err.Kind == "custom" {
				bf[i][1] = "<error-text>" // Error() of a generated error type is its design description
			}
		}
	}
	goa := "None"
	if g, ok := hdr(ob.Resp, "goa-error"); ok {
		goa = "(Some " + cs(g) + ")"
	}
	client := "CSkip"
	cls := ci.Class
	if findingClass(ci) == "custom-error-body-override-drops-attributes" {
		cls = "" // a Go struct cannot show a dropped required attribute as unset: server side only
	}
	switch cls {
	case "declared", "custom", "wrapped_declared", "service_named_like_custom":
		ce := ob.ClientErr
		switch {
		case ce == nil:
			client = "(CObs CNoError)"
		case ce.Type == "ServiceError":
			client = "(CObs (CService " + coqCore(ce.Name, ce.ID, ce.Message, ce.Timeout, ce.Temporary, ce.Fault) + "))"
		case ce.Type == "ClientError":
			client = "(CObs CClientErr)"
		case strings.HasPrefix(ce.Type, "custom:"):
			var t *dg.Type
			if _, m := findMethod(ci.Design, ci.Service, ci.Method); m != nil {
				s, _ := findMethod(ci.Design, ci.Service, ci.Method)
				if d, ok := declaredIn(ci.Design, s, m, ce.Name); ok {
					t = d.Def.T
				}
			}
			if t == nil {
				client = "COther"
			} else {
				client = "(CObs (CCustom " + cs(ce.Name) + " " + coqFields(fieldsOfVal(ci.Design.FromTree(t, ce.Value))) + "))"
			}
		default:
			client = "COther"
		}
	}
	bodyObs := "(Some " + coqFields(bf) + ")"
	if opaque {
		bodyObs = "None" // well formed in its format, not flattened: the body is not compared
	}
	return fmt.Sprintf("(%d%%N, %s, %s, %s, mkobs %d %s %s %s %d %s)", idx, te, coqTable(ex), e, ob.Resp.Status, goa, bodyObs, coqFields(obsHeaders(ex, ob.Resp)), ob.WriteHeaders, client)
}

func coqKindOfDef(e dg.ErrorDef) string {
	if e.T == nil {
		return "KDefault"
	}
	if e.T.Kind == "user" {
		return "(KCustom " + cs(e.T.Ref) + ")"
	}
	return "(KCustom " + cs(e.Name) + ")" // inline and primitive error types are named after the error
}

func coqDecls(es []dg.ErrorDef) string {
	items := make([]string, len(es))
	for i, e := range es {
		items[i] = "(" + cs(e.Name) + ", " + coqKindOfDef(e) + ")"
	}
	return vh.CoqList(items)
}

func coqMaps(rs []dg.ErrResponse) string {
	items := make([]string, len(rs))
	for i, r := range rs {
		items[i] = fmt.Sprintf("(%s, %d)", cs(r.Name), r.R.Status)
	}
	return vh.CoqList(items)
}

// coqTables prints, per endpoint, the declarations and mappings of the three levels as
// the design description states them, and the table goa computed.
func coqTables(first int, it *built) []string {
	var out []string
	d := it.bu.Design
	for _, s := range d.Services {
		for _, m := range s.Methods {
			ex := it.eps[s.Name+"/"+m.Name]
			if ex == nil {
				continue
			}
			var mm []dg.ErrResponse
			if m.HTTP != nil {
				mm = m.HTTP.Errors
			}
			rows := make([]string, len(ex.Errors))
			for i, e := range ex.Errors {
				k := "KDefault"
				if e.Custom {
					k = "(KCustom " + cs(e.TypeName) + ")"
				}
				rows[i] = fmt.Sprintf("(%s, %d, %s)", cs(e.Name), e.Status, k)
			}
			out = append(out, fmt.Sprintf("(%d%%N, mklevels %s %s %s %s %s %s, %s)", first+len(out),
				coqDecls(m.Errors), coqMaps(mm), coqDecls(s.Errors), coqMaps(s.HTTPErrs), coqDecls(d.Errors), coqMaps(d.HTTPErrs), vh.CoqList(rows)))
		}
	}
	return out
}

// coqFinalize prints, per declared error of the main-stream endpoints, the error type
// and the response mapping as the design description states them, and the headers
// (with required flags) and body goa computed for the row.
func coqFinalize(first int, it *built) []string {
	var out []string
	d := it.bu.Design
	for _, s := range d.Services {
		for _, m := range s.Methods {
			ex := it.eps[s.Name+"/"+m.Name]
			if ex == nil {
				continue
			}
			for _, e := range effective(d, s, m) {
				if e.Resp == nil || len(e.Resp.Cookies) > 0 || (e.Resp.Body != nil && len(e.Resp.Body.Attrs) > 0) {
					continue
				}
				if lt, ok := mappingLevelType(d, s, m, e.Def.Name); ok { // the mapping's level declares another type: finding
					a, _ := json.Marshal(lt)
					b, _ := json.Marshal(e.Def.T)
					if string(a) != string(b) {
						continue
					}
				}
				var row *ErrEntry
				for i := range ex.Errors {
					if ex.Errors[i].Name == e.Def.Name {
						row = &ex.Errors[i]
					}
				}
				if row == nil {
					continue
				}
				ty := "error_result"
				if e.Def.T != nil {
					if bt, _ := d.Base(e.Def.T); bt.Kind == "object" {
						var as []string
						for _, f := range d.AllFields(e.Def.T) {
							as = append(as, "("+cs(f.Name)+", "+vh.CoqBool(f.Required)+")")
						}
						ty = "(mketype false true " + vh.CoqList(as) + ")"
					} else {
						ty = "(mketype false false [(\"\", true)])"
					}
				}
				hs := make([]string, len(e.Resp.Headers))
				for i, h := range e.Resp.Headers {
					w := h.Wire
					if w == "" {
						w = h.Attr
					}
					hs[i] = "(" + cs(h.Attr) + ", " + cs(http.CanonicalHeaderKey(w)) + ")"
				}
				body := "DDefault"
				if e.Resp.Body != nil {
					if e.Resp.Body.Empty {
						body = "DEmpty"
					} else if e.Resp.Body.Attr != "" {
						body = "(DAttr " + cs(e.Resp.Body.Attr) + ")"
					}
				}
				decl := coqDecl(row) // mkdecl name status kind hdrs body
				i1 := strings.Index(decl, " [")
				if i1 < 0 {
					continue
				}
				out = append(out, fmt.Sprintf("(%d%%N, %s, mkraw %s %s, %s)", first+len(out), ty, vh.CoqList(hs), body, splitHdrsBody(decl[i1+1:])))
			}
		}
	}
	return out
}

// splitHdrsBody turns "[hdrs] body" (the tail of a mkdecl term) into "[hdrs], body".
func splitHdrsBody(tail string) string {
	depth := 0
	for i, c := range tail {
		switch c {
		case '[':
			depth++
		case ']':
			depth--
			if depth == 0 {
				return tail[:i+1] + ", " + strings.TrimSpace(tail[i+1:])
			}
		}
	}
	return tail
}
