// Command c08 checks property C08 (result views expose exactly the attributes of the
// selected view) on the real goa code:
//
//	tier A  expr.Project on result-type pools built through the real DSL (child process),
//	        compared with the independent specTree (direct oracle) and, inside Coq, with
//	        the memo model Views.iproject;
//	tier B  generated clients against generated servers: wire keys, goa-view header, fields
//	        set on the client value, client error for undefined view names; compared with
//	        restrictValue (direct oracle) and with Views.server_respond / client_decode.
package main

import (
	"encoding/json"
	"flag"
	"fmt"
	"os"
	"path/filepath"
	"strings"

	"verifharness/vh"
)

func main() {
	seed := flag.Uint64("seed", 1, "")
	tier := flag.String("tier", "quick", "")
	out := flag.String("out", ".", "")
	repo := flag.String("repo", "/repo", "")
	harnessDir := flag.String("harness", "/verif/harness", "")
	replay := flag.String("replay", "", "")
	child := flag.String("child", "", "internal: tiera")
	poolsFile := flag.String("pools", "", "internal")
	childOut := flag.String("childout", "", "internal")
	from := flag.Int("from", 0, "internal")
	genDir := flag.String("gendir", "", "internal: also run the code generators (tier-B screening)")
	na := flag.Int("na", 0, "override: number of tier-A pools")
	nb := flag.Int("nb", 0, "override: number of tier-B designs")
	flag.Parse()

	if *child == "tiera" {
		childTierA(*poolsFile, *childOut, *from, *genDir, *repo)
		return
	}
	self, err := os.Executable()
	if err != nil {
		panic(err)
	}
	rng := vh.NewRNG(*seed)
	res := vh.NewResult()

	nPoolsA, nDesignsB, nVals := 260, 15, 20
	if *tier == "thorough" {
		nPoolsA, nDesignsB, nVals = 6200, 100, 20
	}
	if *na > 0 {
		nPoolsA = *na
	}
	if *nb > 0 {
		nDesignsB = *nb
	}
	var poolsA []*Pool
	runB := true
	if *replay != "" {
		b, err := os.ReadFile(*replay)
		if err != nil {
			panic(err)
		}
		var rp struct {
			Input struct {
				Stream string `json:"stream"`
				Pool   *Pool  `json:"pool"`
			} `json:"input"`
			First struct {
				Pool *Pool `json:"pool"`
			} `json:"first_disagreeing_case"`
		}
		if err := json.Unmarshal(b, &rp); err != nil {
			fmt.Println("cannot read replay file:", err)
			os.Exit(2)
		}
		p := rp.Input.Pool
		if p == nil {
			p = rp.First.Pool
		}
		if p == nil {
			fmt.Println("replay file holds no design")
			os.Exit(2)
		}
		poolsA = []*Pool{p}
		replayPool = p
		nDesignsB = 1
	} else {
		poolsA = tierAPools(rng.Fork(), nPoolsA)
	}

	casesA, infoA := runTierA(self, *out, poolsA, rng.Fork(), res)
	var casesB []string
	var infoB []any
	if runB {
		var err error
		casesB, infoB, err = runTierB(self, *out, *repo, *harnessDir, rng.Fork(), nDesignsB, nVals, res)
		if err != nil {
			panic(err)
		}
	}

	must(os.WriteFile(filepath.Join(*out, "header.v"), []byte(coqHeader()), 0o644))
	must(os.WriteFile(filepath.Join(*out, "cases_proj.txt"), []byte(strings.Join(casesA, "\n")+nl(casesA)), 0o644))
	must(os.WriteFile(filepath.Join(*out, "cases_exch.txt"), []byte(strings.Join(casesB, "\n")+nl(casesB)), 0o644))
	must(os.WriteFile(filepath.Join(*out, "cases_ctor.txt"), []byte(strings.Join(ctorCases, "\n")+nl(ctorCases)), 0o644))
	ci, _ := json.Marshal(map[string]any{"proj": infoA, "exch": infoB, "ctor": ctorInfo})
	must(os.WriteFile(filepath.Join(*out, "case_index.json"), ci, 0o644))

	da, _ := res.Extra["tierA_distinct"].(int)
	db, _ := res.Extra["tierB_distinct"].(int)
	res.Distinct = da + db
	res.Rule = fmt.Sprintf("tier A: fixed corpus (incl. the designs of the two repaired expr.Project memo defects) then random result-type pools "+
		"(1-4 result types, 1-3 views each in random attribute order, nested result types with per-attribute view overrides and attribute-level view meta, "+
		"collections, self and mutual recursion, views lacking required attributes, implicit default view); per pool every type under every defined view, one undefined name, "+
		"one collection; projected graphs unfolded to depth %d; non-trivial = projection under a defined view, distinct = distinct (pool, type, view). "+
		"tier B: fixed corpus (incl. the adjacent-result-attribute design of the repaired constructor defect) then random pools of <= 3 types; per design one method per type "+
		"(view chosen at run time), one collection, one or two fixed-view methods; every defined view + \"\" x %d result values (all optional set / mixed / none), "+
		"undefined and defined view names injected below the client, and a witness stream in which the service returns an undefined view name; "+
		"distinct = distinct (design, method, view, value)", projDepth, nVals)
	must(res.Write(filepath.Join(*out, "result.json")))
}

var replayPool *Pool

func nl(xs []string) string {
	if len(xs) == 0 {
		return ""
	}
	return "\n"
}

func must(err error) {
	if err != nil {
		panic(err)
	}
}

// failSig records a direct-oracle failure; at most 3 inputs are kept per signature (all
// are counted) so that one failure class cannot crowd the others out of the result file.
var sigSeen = map[string]int{}

func failSig(res *vh.Result, sig, what string, input any) {
	sigSeen[sig]++
	res.Count("failures:" + sig)
	if sigSeen[sig] <= 3 {
		res.Fail(sig, what, input)
	}
}
