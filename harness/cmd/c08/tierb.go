package main

// Tier B: generated clients against generated servers for methods whose results are
// result types with views. Observed: JSON keys of the response body at every depth, the
// goa-view header, the fields set on the value the client returns, the client error for
// undefined view names injected below the client.

import (
	"bufio"
	"bytes"
	"context"
	"encoding/json"
	"fmt"
	"net/http"
	"os"
	"os/exec"
	"path/filepath"
	"sort"
	"strconv"
	"strings"

	"goa.design/goa/v3/expr"

	dg "verifharness/designgen"
	"verifharness/tierb"
	"verifharness/tierb/rt"
	"verifharness/vh"
)

// ---- values (generic JSON-like: map[string]any, []any, string, int64) ----

var words = []string{"abc", "x1", "Hello", "v-2_3", "Zed.q", "tok~en", "a b", "é→", "100%"}

// genValue draws a value of result type t: required attributes always, optional ones by
// mode (0 mixed, 1 all, 2 none), nested result types thinning out with depth. Leaves never
// hold the zero value (so that "unset" and "set" differ on non-pointer fields).
func genValue(p *Pool, t string, depth, mode int, r *vh.RNG) map[string]any {
	ty := p.typ(t)
	out := map[string]any{}
	for _, a := range ty.Attrs {
		set := a.Req || mode == 1 || (mode == 0 && r.Chance(2, 3))
		if a.pointsTo() {
			switch {
			case depth >= 3:
				set = false
			case depth == 2:
				set = set && r.Chance(1, 2)
			}
		}
		if !set {
			continue
		}
		switch a.Kind {
		case "str":
			out[a.Name] = vh.Pick(r, words)
		case "int":
			out[a.Name] = int64(1 + r.Intn(999))
		case "arr":
			n := 1 + r.Intn(3)
			xs := make([]any, n)
			for i := range xs {
				xs[i] = vh.Pick(r, words)
			}
			out[a.Name] = xs
		case "res", "user":
			out[a.Name] = genValue(p, a.Ref, depth+1, mode, r)
		case "coll", "arrres":
			n := 1 + r.Intn(2)
			xs := make([]any, n)
			for i := range xs {
				xs[i] = genValue(p, a.Ref, depth+1, mode, r)
			}
			out[a.Name] = xs
		case "mapres":
			n := 1 + r.Intn(2)
			m := map[string]any{}
			for i := 0; i < n; i++ {
				m[fmt.Sprintf("k%d", i)] = genValue(p, a.Ref, depth+1, mode, r)
			}
			out[a.Name] = m
		}
	}
	return out
}

// toDG converts a generic value of type t to a designgen value.
func toDG(p *Pool, t string, x map[string]any) *dg.Val {
	ty := p.typ(t)
	out := &dg.Val{K: "object", Names: []string{}, Elems: []*dg.Val{}}
	for _, a := range ty.Attrs {
		v, ok := x[a.Name]
		if !ok {
			continue
		}
		var e *dg.Val
		switch a.Kind {
		case "str":
			e = &dg.Val{K: "string", S: v.(string)}
		case "int":
			e = &dg.Val{K: "int", I: v.(int64)}
		case "arr":
			e = &dg.Val{K: "array", Elems: []*dg.Val{}}
			for _, s := range v.([]any) {
				e.Elems = append(e.Elems, &dg.Val{K: "string", S: s.(string)})
			}
		case "res", "user":
			e = toDG(p, a.Ref, v.(map[string]any))
		case "coll", "arrres":
			e = &dg.Val{K: "array", Elems: []*dg.Val{}}
			for _, s := range v.([]any) {
				e.Elems = append(e.Elems, toDG(p, a.Ref, s.(map[string]any)))
			}
		case "mapres":
			e = &dg.Val{K: "map", Keys: []*dg.Val{}, Elems: []*dg.Val{}}
			m := v.(map[string]any)
			for _, k := range vh.SortedKeys(m) {
				e.Keys = append(e.Keys, &dg.Val{K: "string", S: k})
				e.Elems = append(e.Elems, toDG(p, a.Ref, m[k].(map[string]any)))
			}
		}
		out.Names = append(out.Names, a.Name)
		out.Elems = append(out.Elems, e)
	}
	return out
}

// fromTree converts the dump of a generated Go value of type t into a generic value:
// nil fields are unset; a non-pointer field holding the zero value counts as unset (the
// generator never produces zero leaves).
func fromTree(p *Pool, t string, tr *rt.Tree) any {
	if tr == nil || tr.K == "nil" {
		return nil
	}
	if tr.K == "array" {
		xs := []any{}
		for _, e := range tr.Elems {
			xs = append(xs, fromTree(p, t, e))
		}
		return xs
	}
	if tr.K != "struct" {
		return fmt.Sprintf("<%s>", tr.K)
	}
	ty := p.typ(t)
	out := map[string]any{}
	for i, gn := range tr.Names {
		e := tr.Elems[i]
		if e.K == "nil" {
			continue
		}
		var a *PAttr
		if ty != nil {
			for j := range ty.Attrs {
				if dg.GoField(ty.Attrs[j].Name) == gn {
					a = &ty.Attrs[j]
				}
			}
		}
		if a == nil {
			out["?"+gn] = e.K
			continue
		}
		switch a.Kind {
		case "str":
			if e.K == "string" && e.S != "" {
				out[a.Name] = e.S
			} else if e.K != "string" {
				out[a.Name] = "<" + e.K + ">"
			}
		case "int":
			if e.K == "int" && e.I != 0 {
				out[a.Name] = e.I
			} else if e.K != "int" {
				out[a.Name] = "<" + e.K + ">"
			}
		case "arr":
			xs := []any{}
			for _, s := range e.Elems {
				xs = append(xs, s.S)
			}
			if len(xs) > 0 { // an allocated but empty array is the zero value (generated arrays are never empty)
				out[a.Name] = xs
			}
		case "res", "user", "coll", "arrres":
			out[a.Name] = fromTree(p, a.Ref, e)
		case "mapres":
			m := map[string]any{}
			if e.K == "map" {
				for i, k := range e.Keys {
					m[k.S] = fromTree(p, a.Ref, e.Elems[i])
				}
			}
			out[a.Name] = m
		}
	}
	return out
}

// fromJSON normalises a decoded JSON body (numbers to int64).
func fromJSON(x any) any {
	switch v := x.(type) {
	case map[string]any:
		out := map[string]any{}
		for k, e := range v {
			out[k] = fromJSON(e)
		}
		return out
	case []any:
		out := make([]any, len(v))
		for i, e := range v {
			out[i] = fromJSON(e)
		}
		return out
	case json.Number:
		if n, err := v.Int64(); err == nil {
			return n
		}
		return v.String()
	}
	return x
}

// restrictValue is the direct oracle's own statement of the property: the attributes of
// the selected view; nested result types — direct, in collections, arrays, maps, inside plain
// user types — under their own view; plain user types in full.
func restrictValue(p *Pool, t, v string, x any) any {
	if xs, ok := x.([]any); ok {
		out := make([]any, len(xs))
		for i, e := range xs {
			out[i] = restrictValue(p, t, v, e)
		}
		return out
	}
	m, ok := x.(map[string]any)
	if !ok {
		return x
	}
	out := map[string]any{}
	ty, es, ok := p.entriesOf(t, v)
	if !ok {
		return out
	}
	for _, e := range es {
		a := ty.attr(e.Attr)
		val, set := m[e.Attr]
		if a == nil || !set {
			continue
		}
		switch {
		case a.Kind == "mapres":
			ct, cv := childNode(v, &e, a)
			mm := map[string]any{}
			for k, ev := range val.(map[string]any) {
				mm[k] = restrictValue(p, ct, cv, ev)
			}
			out[e.Attr] = mm
		case a.pointsTo():
			ct, cv := childNode(v, &e, a)
			out[e.Attr] = restrictValue(p, ct, cv, val)
		default:
			out[e.Attr] = val
		}
	}
	return out
}

// tripsViewBlindClient: below an array, a map or a plain user type the generated client
// validates with default-view validators and rebuilds with the generic transform (known
// finding). True when the rendered value holds, below such a container, an object that lacks a
// required attribute of its type: only then can the finding show.
func tripsViewBlindClient(p *Pool, t string, x any, below bool) bool {
	switch v := x.(type) {
	case []any:
		for _, e := range v {
			if tripsViewBlindClient(p, t, e, below) {
				return true
			}
		}
	case map[string]any:
		ty := p.typ(t)
		if ty == nil {
			return false
		}
		if below && !ty.Plain {
			for _, a := range ty.Attrs {
				if _, ok := v[a.Name]; a.Req && !ok {
					return true
				}
			}
		}
		for _, a := range ty.Attrs {
			val, ok := v[a.Name]
			if !ok || !a.pointsTo() {
				continue
			}
			nb := below || a.container() || ty.Plain
			if a.Kind == "mapres" {
				for _, ev := range val.(map[string]any) {
					if tripsViewBlindClient(p, a.Ref, ev, nb) {
						return true
					}
				}
				continue
			}
			if tripsViewBlindClient(p, a.Ref, val, nb) {
				return true
			}
		}
	}
	return false
}

// diff reports the first difference between what was observed and what the view allows:
// class is one of attr-outside-view, attr-missing, value-changed, shape. The walk follows the
// design: objects of type t, lists of them, maps of them.
func diff(p *Pool, t string, want, got any, path string) (class, where string) {
	switch w := want.(type) {
	case map[string]any:
		g, ok := got.(map[string]any)
		if !ok {
			return "shape", path
		}
		var keys []string
		for k := range g {
			keys = append(keys, k)
		}
		sort.Strings(keys)
		for _, k := range keys {
			if _, ok := w[k]; !ok {
				return "attr-outside-view", path + "." + k
			}
		}
		keys = keys[:0]
		for k := range w {
			keys = append(keys, k)
		}
		sort.Strings(keys)
		ty := p.typ(t)
		for _, k := range keys {
			if _, ok := g[k]; !ok {
				return "attr-missing", path + "." + k
			}
			var a *PAttr
			if ty != nil {
				a = ty.attr(k)
			}
			switch {
			case a != nil && a.Kind == "mapres":
				wm, _ := w[k].(map[string]any)
				gm, ok := g[k].(map[string]any)
				if !ok || len(gm) != len(wm) {
					return "shape", path + "." + k
				}
				for _, mk := range vh.SortedKeys(wm) {
					if _, ok := gm[mk]; !ok {
						return "shape", path + "." + k
					}
					if c, wh := diff(p, a.Ref, wm[mk], gm[mk], path+"."+k+"["+mk+"]"); c != "" {
						return c, wh
					}
				}
			case a != nil && a.pointsTo():
				if c, wh := diff(p, a.Ref, w[k], g[k], path+"."+k); c != "" {
					return c, wh
				}
			default:
				if c, wh := diff(p, "", w[k], g[k], path+"."+k); c != "" {
					return c, wh
				}
			}
		}
		return "", ""
	case []any:
		g, ok := got.([]any)
		if !ok || len(g) != len(w) {
			return "shape", path
		}
		for i := range w {
			if c, wh := diff(p, t, w[i], g[i], fmt.Sprintf("%s[%d]", path, i)); c != "" {
				return c, wh
			}
		}
		return "", ""
	}
	if fmt.Sprint(want) != fmt.Sprint(got) {
		return "value-changed", path
	}
	return "", ""
}

// ---- Coq printing of values ----

type leafTab map[string]int

func (lt leafTab) id(x any) int {
	b, _ := json.Marshal(x)
	k := string(b)
	if i, ok := lt[k]; ok {
		return i
	}
	lt[k] = len(lt)
	return lt[k]
}

// coqVal prints a generic value of type t as a Views.Model.val: fields in the order of
// the type's attributes, unknown keys last (under a name no design uses).
func coqVal(p *Pool, t string, x any, lt leafTab) string {
	switch v := x.(type) {
	case []any:
		s := "VLNil"
		for i := len(v) - 1; i >= 0; i-- {
			s = fmt.Sprintf("(VLCons %s %s)", coqVal(p, t, v[i], lt), s)
		}
		return "(VList " + s + ")"
	case map[string]any:
		ty := p.typ(t)
		type kv struct {
			name, term string
		}
		var fs []kv
		seen := map[string]bool{}
		if ty != nil {
			for _, a := range ty.Attrs {
				val, ok := v[a.Name]
				if !ok {
					continue
				}
				seen[a.Name] = true
				if a.Kind == "mapres" {
					// a map is printed as the list of its values in key order
					var xs []any
					if m, ok := val.(map[string]any); ok {
						for _, k := range vh.SortedKeys(m) {
							xs = append(xs, m[k])
						}
					}
					fs = append(fs, kv{coqA(a.Name), coqVal(p, a.Ref, xs, lt)})
				} else if a.pointsTo() {
					fs = append(fs, kv{coqA(a.Name), coqVal(p, a.Ref, val, lt)})
				} else {
					fs = append(fs, kv{coqA(a.Name), fmt.Sprintf("(VLeaf %d)", lt.id(val))})
				}
			}
		}
		var extra []string
		for k := range v {
			if !seen[k] {
				extra = append(extra, k)
			}
		}
		sort.Strings(extra)
		for range extra {
			fs = append(fs, kv{"(A 9999)", "(VLeaf 9999)"})
		}
		s := "VFNil"
		for i := len(fs) - 1; i >= 0; i-- {
			s = fmt.Sprintf("(VFCons %s %s %s)", fs[i].name, fs[i].term, s)
		}
		return "(VObj " + s + ")"
	}
	return fmt.Sprintf("(VLeaf %d)", lt.id(x))
}

// ---- designs ----

// withMethods adds the methods of a tier-B design: every type under a view chosen at run
// time, one collection, one view fixed in the design.
func withMethods(p *Pool, r *vh.RNG) *Pool {
	q := *p
	if len(p.Methods) > 0 {
		return &q // corpus / replayed designs bring their own methods
	}
	q.Methods = nil
	// goa's generated code does not compile when a method returns a result type that
	// reaches itself (the projected body type takes the method's name and is declared twice:
	// C01's business), so methods return only types that do not; recursive types are reached
	// through them. A wrapper is added when every type of the pool is recursive.
	var roots []*PType
	for _, t := range p.Types {
		if !t.Plain && !p.reaches(t.Name, t.Name, map[string]bool{}) {
			roots = append(roots, t)
		}
	}
	if len(roots) == 0 {
		var rts []*PType
		for _, t := range p.Types {
			if !t.Plain {
				rts = append(rts, t)
			}
		}
		inner := rts[r.Intn(len(rts))]
		iv := inner.Views[r.Intn(len(inner.Views))].Name
		w := &PType{Name: "Wrap", Attrs: []PAttr{{Name: "wid", Kind: "int", Req: true}, {Name: "wn", Kind: "res", Ref: inner.Name}, {Name: "wtag", Kind: "str"}, {Name: "wns", Kind: "coll", Ref: inner.Name}},
			Views: []PView{{Name: "default", Attrs: []PEntry{{Attr: "wid"}, {Attr: "wn"}, {Attr: "wtag"}, {Attr: "wns"}}},
				{Name: "tiny", Attrs: []PEntry{{Attr: "wn", View: iv}, {Attr: "wid"}}}}}
		q.Types = append(append([]*PType{}, p.Types...), w)
		roots = []*PType{w}
	}
	for i, t := range roots {
		m := PMethod{Name: fmt.Sprintf("get%d", i), Type: t.Name}
		q.Methods = append(q.Methods, m)
		// the same result with some plain attributes carried by response headers / a cookie: the
		// response body type (and its views) is then computed per response
		if r.Chance(2, 3) {
			hm := PMethod{Name: fmt.Sprintf("geth%d", i), Type: t.Name}
			for _, a := range t.Attrs {
				inAll := true // goa accepts the mapping only for attributes every view lists
				for vi := range t.Views {
					if t.Views[vi].entry(a.Name) == nil {
						inAll = false
					}
				}
				switch {
				case !inAll:
				case a.Kind == "str" && len(hm.Cookies) == 0 && r.Chance(1, 5):
					hm.Cookies = append(hm.Cookies, a.Name)
				case (a.Kind == "str" || a.Kind == "int") && r.Chance(1, 2):
					hm.Headers = append(hm.Headers, a.Name)
				}
			}
			if len(hm.Headers)+len(hm.Cookies) > 0 {
				q.Methods = append(q.Methods, hm)
			}
		}
	}
	ct := roots[r.Intn(len(roots))]
	q.Methods = append(q.Methods, PMethod{Name: "list", Type: ct.Name, Coll: true})
	ft := roots[r.Intn(len(roots))]
	for _, t := range roots { // prefer a type with several views
		if len(t.Views) > len(ft.Views) {
			ft = t
		}
	}
	fv := ft.Views[len(ft.Views)-1].Name
	q.Methods = append(q.Methods, PMethod{Name: "fixed", Type: ft.Name, Fixed: fv})
	if r.Chance(1, 2) {
		q.Methods = append(q.Methods, PMethod{Name: "fixedlist", Type: ft.Name, Coll: true, Fixed: ft.Views[r.Intn(len(ft.Views))].Name})
	}
	return &q
}

// effectiveFixed: the view fixed for a method ("" = chosen at run time). goa fixes
// "default" when the type has a single view.
func effectiveFixed(p *Pool, m PMethod) string {
	if m.Fixed != "" {
		return m.Fixed
	}
	if len(p.typ(m.Type).Views) <= 1 {
		return "default"
	}
	return ""
}

// tierBCorpus: fixed designs run first, among them the design with two adjacent
// result-type attributes under a nested view lacking a required attribute (0dcc9ee) and the
// designs on which expr.Project consulted its memo under the parent's view (59cb719).
func tierBCorpus() []*Pool {
	e := func(a string, v ...string) PEntry {
		x := PEntry{Attr: a}
		if len(v) > 0 {
			x.View = v[0]
		}
		return x
	}
	cp := corpusPools()
	var out []*Pool
	for _, p := range cp {
		switch p.Tag {
		case "corpus:outer-inner":
			p.Methods = []PMethod{{Name: "get", Type: "Outer"}, {Name: "leaf", Type: "Inner"}, {Name: "list", Type: "Outer", Coll: true}, {Name: "fixed", Type: "Outer", Fixed: "tiny"}, {Name: "fixedlist", Type: "Outer", Coll: true, Fixed: "mid"},
				{Name: "geth", Type: "Outer", Headers: []string{"a"}}, {Name: "fixedh", Type: "Outer", Fixed: "tiny", Cookies: []string{"a"}}}
			out = append(out, p)
		case "corpus:memo-sibling-tiny":
			p.Methods = []PMethod{{Name: "get", Type: "Outer"}, {Name: "list", Type: "Outer", Coll: true}, {Name: "fixed", Type: "Outer", Fixed: "tiny"}}
			out = append(out, p)
		}
	}
	out = append(out, &Pool{Tag: "corpus:adjacent-result-attrs", Types: []*PType{
		{Name: "Inner", Attrs: []PAttr{{Name: "i1", Kind: "str", Req: true}, {Name: "i2", Kind: "int"}, {Name: "i3", Kind: "arr"}},
			Views: []PView{{Name: "default", Attrs: []PEntry{e("i1"), e("i2"), e("i3")}}, {Name: "tiny", Attrs: []PEntry{e("i2")}}}},
		{Name: "Outer", Attrs: []PAttr{{Name: "a", Kind: "str", Req: true}, {Name: "b", Kind: "int"}, {Name: "inner", Kind: "res", Ref: "Inner"}, {Name: "inner2", Kind: "res", Ref: "Inner"}, {Name: "list", Kind: "coll", Ref: "Inner"}},
			Views: []PView{{Name: "default", Attrs: []PEntry{e("a"), e("b"), e("inner"), e("inner2"), e("list")}},
				{Name: "tiny", Attrs: []PEntry{e("a"), e("inner", "tiny"), e("inner2")}},
				{Name: "ext", Attrs: []PEntry{e("a"), e("inner", "tiny"), e("inner2", "tiny"), e("list", "tiny")}}}}},
		Methods: []PMethod{{Name: "get", Type: "Outer"}, {Name: "list", Type: "Outer", Coll: true}, {Name: "fixed", Type: "Outer", Fixed: "tiny"}}})
	for _, p := range cp {
		switch p.Tag {
		case "corpus:meta-override-combos":
			p.Methods = []PMethod{{Name: "get", Type: "Outer"}, {Name: "list", Type: "Outer", Coll: true}, {Name: "fixed", Type: "Outer", Fixed: "ext"},
				{Name: "geth", Type: "Outer", Headers: []string{"a"}}}
			out = append(out, p)
		case "corpus:map-values":
			p.Methods = []PMethod{{Name: "get", Type: "Outer"}, {Name: "list", Type: "Outer", Coll: true}}
			out = append(out, p)
		case "corpus:containers":
			p.Methods = []PMethod{{Name: "get", Type: "Outer"}, {Name: "list", Type: "Outer", Coll: true}, {Name: "fixed", Type: "Outer", Fixed: "tiny"},
				{Name: "geth", Type: "Outer", Headers: []string{"a"}}}
			out = append(out, p)
		}
	}
	// witness of the known finding container-result-type-validated-under-default-view: an
	// array (map, plain user type) of a result type rendered under a view that lacks a
	// required attribute: the client validates the elements with the default-view validator
	out = append(out, &Pool{Tag: "corpus:witness-container-view", Witness: "container-result-type-validated-under-default-view", Types: []*PType{
		{Name: "Inner", Attrs: []PAttr{{Name: "i1", Kind: "str", Req: true}, {Name: "i2", Kind: "int"}},
			Views: []PView{{Name: "default", Attrs: []PEntry{e("i1"), e("i2")}}, {Name: "tiny", Attrs: []PEntry{e("i2")}}}},
		{Name: "Outer", Attrs: []PAttr{{Name: "a", Kind: "str", Req: true}, {Name: "items", Kind: "arrres", Ref: "Inner"}, {Name: "byKey", Kind: "mapres", Ref: "Inner"}},
			Views: []PView{{Name: "default", Attrs: []PEntry{e("a"), e("items"), e("byKey")}},
				{Name: "tiny", Attrs: []PEntry{e("a"), e("items", "tiny"), e("byKey", "tiny")}}}}},
		Methods: []PMethod{{Name: "get", Type: "Outer"}}})
	// regression of the repaired constructor defect: a result type that reaches itself through a map
	out = append(out, &Pool{Tag: "corpus:self-reaching", Types: []*PType{
		{Name: "R0", Attrs: []PAttr{{Name: "f00", Kind: "str", Req: true}}, Views: []PView{{Name: "default", Attrs: []PEntry{e("f00")}}}},
		{Name: "R1", Attrs: []PAttr{{Name: "f10", Kind: "int"}, {Name: "f11", Kind: "mapres", Ref: "R1"}, {Name: "f14", Kind: "res", Ref: "R0"}},
			Views: []PView{{Name: "default", Attrs: []PEntry{e("f10"), e("f11"), e("f14")}}, {Name: "tiny", Attrs: []PEntry{e("f10"), e("f14")}}}},
		{Name: "Top", Attrs: []PAttr{{Name: "id", Kind: "int", Req: true}, {Name: "r", Kind: "res", Ref: "R1"}},
			Views: []PView{{Name: "default", Attrs: []PEntry{e("id"), e("r")}}, {Name: "tiny", Attrs: []PEntry{e("id")}}}}},
		Methods: []PMethod{{Name: "get", Type: "Top"}}})
	// witness of the known finding undefined-view-accepted:bodyless-response: every attribute of the
	// result is carried by a header or a cookie, the response has no body
	out = append(out, &Pool{Tag: "corpus:witness-bodyless", Witness: "undefined-view-accepted:bodyless-response", Types: []*PType{
		{Name: "Pair", Attrs: []PAttr{{Name: "k", Kind: "str", Req: true}, {Name: "n", Kind: "str", Req: true}},
			Views: []PView{{Name: "default", Attrs: []PEntry{e("n"), e("k")}}, {Name: "mid", Attrs: []PEntry{e("k"), e("n")}}}}},
		Methods: []PMethod{{Name: "get", Type: "Pair"}, {Name: "geth", Type: "Pair", Headers: []string{"n"}, Cookies: []string{"k"}}}})
	out = append(out, &Pool{Tag: "corpus:recursive-below-root", Types: []*PType{
		{Name: "Node", Attrs: []PAttr{{Name: "val", Kind: "str", Req: true}, {Name: "child", Kind: "res", Ref: "Node"}, {Name: "kids", Kind: "coll", Ref: "Node"}},
			Views: []PView{{Name: "default", Attrs: []PEntry{e("val"), e("child"), e("kids", "tiny")}},
				{Name: "tiny", Attrs: []PEntry{e("val"), e("child", "tiny")}}}},
		{Name: "Tree", Attrs: []PAttr{{Name: "id", Kind: "int", Req: true}, {Name: "root", Kind: "res", Ref: "Node"}, {Name: "label", Kind: "str"}},
			Views: []PView{{Name: "default", Attrs: []PEntry{e("id"), e("root"), e("label")}},
				{Name: "tiny", Attrs: []PEntry{e("root", "tiny"), e("id")}}}}},
		Methods: []PMethod{{Name: "get", Type: "Tree"}, {Name: "list", Type: "Tree", Coll: true}, {Name: "fixed", Type: "Tree", Fixed: "tiny"}}})
	return out
}

// tierBRandomPool: smaller pools than tier A (compile time), always at least one type
// with several views.
func tierBRandomPool(r *vh.RNG) *Pool {
	for {
		p := randomPool(r)
		if len(p.Types) > 3 {
			continue
		}
		multi := false
		for _, t := range p.Types {
			if len(t.Views) > 1 {
				multi = true
			}
		}
		if multi {
			p.makeViewBlindSafe()
			return p
		}
	}
}

// ---- the run ----

type stepInfo struct {
	Stream   string         `json:"stream"` // main | tamper | witness
	Design   int            `json:"design"`
	Method   PMethod        `json:"method"`
	View     string         `json:"view"`
	Inject   string         `json:"inject,omitempty"`
	Value    any            `json:"value"`
	pool     *Pool
	fixed    string
	injected bool
}

// constructor plans read from the generated code, as Coq cases (filled by runTierB)
var (
	ctorCases []string
	ctorInfo  []any
)

var undefinedNames = []string{"nope", "Default", "tiny ", " default", "DEFAULT", "defaul", "default,tiny", "*"}

func runTierB(self, out, repo, harnessDir string, rng *vh.RNG, nDesigns, nVals int, res *vh.Result) (cases []string, caseInfo []any, err error) {
	b, err := tierb.NewBatch(filepath.Join(out, "tb"), repo, harnessDir)
	if err != nil {
		return nil, nil, err
	}
	b.Env = os.Environ()
	var pools []*Pool
	cand := tierBCorpus()
	if replayPool != nil {
		cand = []*Pool{replayPool}
	}
	over := nDesigns + nDesigns/2 + 2 // some designs are dropped by the compiler (C01's findings)
	if replayPool != nil {
		over = 1
	}
	for len(cand) < over+nDesigns && replayPool == nil {
		cand = append(cand, tierBRandomPool(rng))
	}
	for i := range cand {
		cand[i] = withMethods(cand[i], rng)
	}
	// a projection that does not terminate is a fatal error: generating code for such a design
	// would kill this process, so every candidate is projected in a child process first
	alive, died := screenPools(self, filepath.Join(out, "screen"), repo, cand)
	for i, p := range cand {
		if len(pools) >= over {
			break
		}
		if !alive[i] {
			if strings.HasPrefix(died[i], "<generate>") {
				// a code generator (not expr.Project) died on the design: not C08's business
				// (OpenAPI / service generators on recursive types); the design is left out
				res.Count("tierB_design_skipped_generator_fatal_error")
				bs, _ := json.Marshal(p)
				res.Extra["tierB_generator_fatal_error_design"] = string(bs)
				if strings.HasPrefix(p.Tag, "corpus") {
					failSig(res, "corpus-design-kills-generator", "goa's code generators die on a corpus design", map[string]any{"stream": "tierB/screen", "pool": p})
				}
				continue
			}
			res.Count("tierB_design_skipped_projection_does_not_terminate")
			failSig(res, "project-nonterminating", "expr.Project("+died[i]+") does not terminate on this accepted design; it was left out of tier B", map[string]any{"stream": "tierB/screen", "pool": p})
			continue
		}
		d := p.design(fmt.Sprintf("v%d", i))
		bu, oc := b.Add(d, func(root *expr.RootExpr, bu *tierb.Built) {})
		if bu == nil {
			res.Count("tierB_design_rejected")
			msg := ""
			if oc.Err != nil {
				msg = oc.Err.Error()
			}
			if oc.Panic != "" {
				msg = "panic: " + strings.SplitN(oc.Panic, "\n", 2)[0]
			}
			res.Extra["tierB_last_rejection"] = msg
			if strings.HasPrefix(p.Tag, "corpus") {
				failSig(res, "corpus-design-rejected", "a corpus design is no longer accepted by the DSL: "+msg, map[string]any{"stream": "tierB", "pool": p})
			}
			continue
		}
		if bu.GenErr != "" {
			failSig(res, "viewed-design-generation-failed", "goa could not generate code for an accepted design with viewed results: "+strings.SplitN(bu.GenErr, "\n", 2)[0],
				map[string]any{"stream": "tierB", "pool": p})
			b.Items = b.Items[:len(b.Items)-1]
			continue
		}
		pools = append(pools, p)
	}
	if err := b.Build(); err != nil {
		return nil, nil, err
	}
	var steps []rt.Step
	var infos []stepInfo
	add := func(di int, bu *tierb.Built, p *Pool, m PMethod, stream, view, inject string, val map[string]any, coll bool, collVal []any) {
		d := bu.Design
		var mt dg.Type
		var dv *dg.Val
		var gv any
		if coll {
			mt = dg.Type{Kind: "collection", Ref: m.Type}
			dv = &dg.Val{K: "array", Elems: []*dg.Val{}}
			for _, e := range collVal {
				dv.Elems = append(dv.Elems, toDG(p, m.Type, e.(map[string]any)))
			}
			gv = collVal
		} else {
			mt = dg.Ref(m.Type)
			dv = toDG(p, m.Type, val)
			gv = val
		}
		st := rt.Step{ID: len(steps), Design: bu.Key, Service: "svc", Method: m.Name, Result: d.ToTree(&mt, dv), View: view}
		if inject != "" {
			st.SetRespHeader = map[string]string{"goa-view": inject}
		}
		steps = append(steps, st)
		infos = append(infos, stepInfo{Stream: stream, Design: di, Method: m, View: view, Inject: inject, Value: gv, pool: p, fixed: effectiveFixed(p, m), injected: inject != ""})
	}
	used := 0
	for di, bu := range b.Items {
		if bu.Dropped {
			// generated code that does not compile is property C01's business; here the design is
			// only left out (corpus designs are regression cases and must keep compiling)
			res.Count("tierB_design_dropped_does_not_compile")
			res.Count("tierB_drop_reason=" + dropClass(bu.BuildErr))
			if strings.HasPrefix(pools[di].Tag, "corpus") {
				failSig(res, "corpus-design-does-not-compile", "generated code of a corpus design no longer compiles: "+firstLine(bu.BuildErr), map[string]any{"stream": "tierB", "pool": pools[di]})
			}
			continue
		}
		if used >= nDesigns {
			continue
		}
		used++
		if items := checkConstructors(pools[di], filepath.Join(b.Dir, bu.Key, "gen", "svc", "service.go"), res); len(items) > 0 {
			ctorCases = append(ctorCases, fmt.Sprintf("(%d%%N, %s, %s)", len(ctorCases), pools[di].coqEnv(), vh.CoqList(items)))
			ctorInfo = append(ctorInfo, map[string]any{"stream": "tierB/constructors", "pool": pools[di]})
		}
		p := pools[di]
		res.Count("tierB_designs")
		for _, ft := range p.features() {
			res.Count("tierB_feature=" + ft)
		}
		for _, m := range p.Methods {
			ty := p.typ(m.Type)
			fixed := effectiveFixed(p, m)
			var views []string
			if fixed != "" {
				views = []string{"default"} // ignored by the stub: the view is fixed
			} else {
				for _, v := range ty.Views {
					views = append(views, v.Name)
				}
				views = append(views, "")
			}
			gen := func(k int) (map[string]any, []any) {
				if m.Coll {
					n := 1 + rng.Intn(2)
					xs := make([]any, n)
					for i := range xs {
						xs[i] = genValue(p, m.Type, 0, k%3, rng)
					}
					return nil, xs
				}
				val := genValue(p, m.Type, 0, k%3, rng)
				// header / cookie transport of arbitrary strings is property C02/C03's business:
				// attributes that travel there get transport-safe values
				for _, a := range append(append([]string{}, m.Headers...), m.Cookies...) {
					if s, ok := val[a].(string); ok && s != "" {
						val[a] = words[rng.Intn(6)]
					}
				}
				return val, nil
			}
			for _, v := range views {
				for k := 0; k < nVals; k++ {
					val, cv := gen(k)
					add(di, bu, p, m, "main", v, "", val, m.Coll, cv)
				}
			}
			// undefined view names injected below the client
			for k, name := range undefinedNames {
				if k >= 3 && nVals < 20 && (k+di)%3 != 0 {
					continue
				}
				val, cv := gen(k)
				add(di, bu, p, m, "tamper", views[k%len(views)], name, val, m.Coll, cv)
			}
			// defined names injected below the client: the client follows the header
			if fixed == "" && len(ty.Views) > 1 {
				for k := 0; k < 2; k++ {
					val, cv := gen(1)
					add(di, bu, p, m, "tamper", ty.Views[k%len(ty.Views)].Name, ty.Views[(k+1)%len(ty.Views)].Name, val, m.Coll, cv)
				}
			}
			// witness: the service itself returns a view name the type does not define
			if fixed == "" {
				for k := 0; k < 2; k++ {
					val, cv := gen(k)
					add(di, bu, p, m, "witness", undefinedNames[k], "", val, m.Coll, cv)
				}
			}
		}
	}
	obs, runErr := b.Run(steps)
	if runErr != nil && len(obs) == 0 {
		return nil, nil, runErr
	}
	distinct := vh.Distinct{}
	perDesign := map[int][]string{}
	for i, st := range steps {
		in := infos[i]
		ob := obs[st.ID]
		p := in.pool
		input := map[string]any{"stream": "tierB/" + in.Stream, "pool": p, "method": in.Method, "view": in.View, "inject": in.Inject, "value": in.Value}
		if ob == nil {
			failSig(res, "driver-no-observation", "the driver produced no observation for a step", input)
			continue
		}
		if ob.SetupErr != "" {
			res.Count("tierB_setup_err")
			res.Extra["tierB_last_setup_err"] = ob.SetupErr
			continue
		}
		res.Evaluations++
		res.Count("tierB_steps_" + in.Stream)
		t := in.Method.Type
		sel := in.fixed
		if sel == "" {
			sel = normView(in.View)
		}
		defined := p.typ(t).view(sel) != nil
		if ob.Resp != nil {
			input["wire"] = map[string]any{"status": ob.Resp.Status, "goa-view": ob.Resp.Headers["Goa-View"], "body": ob.Resp.Body}
		}
		if ob.ClientErr != nil {
			input["client_error"] = ob.ClientErr
		}
		// ---- what was observed, in generic form
		var wire any
		var bodyOnly any             // the body as sent (wire = body + carried attributes)
		carried := map[string]any{} // attributes read back from response headers / cookies
		wireOK := false
		if ob.Resp != nil && ob.Resp.Status == 200 {
			dec := json.NewDecoder(bytes.NewReader([]byte(ob.Resp.Body)))
			dec.UseNumber()
			var raw any
			if err := dec.Decode(&raw); err == nil {
				wire, wireOK = fromJSON(raw), true
			} else if strings.TrimSpace(ob.Resp.Body) == "" && len(in.Method.Headers)+len(in.Method.Cookies) > 0 {
				wire, wireOK = map[string]any{}, true // every attribute of the view travels outside the body
			}
			// the attributes the response carries in headers / cookies are part of what crosses the
			// wire: they are read back from there (what the property constrains is WHICH attributes
			// reach the client, wherever the response puts them)
			if m, ok := wire.(map[string]any); ok && wireOK {
				ty := p.typ(t)
				bo := map[string]any{}
				for k, v := range m {
					bo[k] = v
				}
				bodyOnly, carried = bo, map[string]any{}
				put := func(a, raw string) {
					defer func() { carried[a] = m[a] }()
					if _, dup := m[a]; dup {
						m["?both-body-and-header:"+a] = raw
						return
					}
					if at := ty.attr(a); at != nil && at.Kind == "int" {
						if n, err := strconv.ParseInt(raw, 10, 64); err == nil {
							m[a] = n
							return
						}
					}
					m[a] = raw
				}
				for _, a := range in.Method.Headers {
					if hs, ok := ob.Resp.Headers[http.CanonicalHeaderKey(hdrName(a))]; ok && len(hs) > 0 {
						put(a, hs[0])
					}
				}
				for _, a := range in.Method.Cookies {
					for _, sc := range ob.Resp.Headers["Set-Cookie"] {
						if strings.HasPrefix(sc, ckName(a)+"=") {
							v := strings.SplitN(strings.TrimPrefix(sc, ckName(a)+"="), ";", 2)[0]
							put(a, strings.Trim(v, "\""))
						}
					}
				}
			}
		}
		if bodyOnly == nil {
			bodyOnly = wire
		}
		var hdr *string
		if ob.Resp != nil {
			if hs, ok := ob.Resp.Headers["Goa-View"]; ok && len(hs) > 0 {
				hdr = &hs[0]
			}
		}
		var client any
		if ob.ClientErr == nil && ob.Panic == "" && ob.HasResult {
			client = fromTree(p, t, ob.ClientResult)
		}

		// ---- direct oracle
		switch in.Stream {
		case "witness":
			// the service itself returns a view name the type does not define: the generated
			// endpoint must refuse it (a fault), render nothing, and the client must get an error
			switch {
			case ob.Resp == nil:
				failSig(res, "server-undefined-view-no-response", fmt.Sprintf("the service returned view %q, which %s does not define: the generated server sent no response (handler panic, connection closed): %s", in.View, t, clientFailure(ob)), input)
			case ob.Resp.Status < 400 || ob.ClientErr == nil:
				failSig(res, "server-undefined-view-answered", fmt.Sprintf("the service returned view %q, which %s does not define: the generated server answered %d with goa-view %q and the client got %s", in.View, t, ob.Resp.Status, deref(hdr), clientOutcome(ob)), input)
			case ob.Resp.Status != 500:
				failSig(res, "server-undefined-view-not-a-fault", fmt.Sprintf("an undefined view returned by the service is reported with status %d (%s), not as a server fault (500)", ob.Resp.Status, ob.ClientErr.Name), input)
			default:
				res.Count("tierB_undefined_view_refused_by_server")
			}
		case "main":
			distinct.Add(fmt.Sprintf("%d/%s/%s/%v", in.Design, in.Method.Name, in.View, in.Value))
			if !defined {
				break
			}
			want := restrictValue(p, t, sel, in.Value)
			switch {
			case ob.Panic != "" && !tripsViewBlindClient(p, t, want, false):
				failSig(res, "client-panic", "the generated client panicked on a response to a valid result: "+firstLine(ob.Panic), input)
			case ob.Invoked != 1:
				failSig(res, "service-invoked-"+fmt.Sprint(ob.Invoked)+"-times", "the service method did not run exactly once", input)
			case ob.Resp == nil || ob.Resp.Status != 200 || !wireOK:
				failSig(res, "server-no-response-for-defined-view", fmt.Sprintf("no 200 response for a valid result under the defined view %q", sel), input)
			default:
				if c, wh := diff(p, t, want, wire, "body"); c != "" {
					input["expected_body"] = want
					failSig(res, "wire-"+c, fmt.Sprintf("response body under view %q: %s at %s", sel, c, wh), input)
				}
				if in.fixed == "" {
					if hdr == nil || *hdr != sel {
						failSig(res, "goa-view-header-wrong", fmt.Sprintf("goa-view is %q, the selected view is %q", deref(hdr), sel), input)
					}
				} else if hdr != nil {
					failSig(res, "goa-view-header-on-fixed-view", fmt.Sprintf("goa-view %q sent although the view is fixed in the design", *hdr), input)
				}
				if (ob.ClientErr != nil || ob.Panic != "") && tripsViewBlindClient(p, t, want, false) {
					// known finding: only possible when, below an array / map / plain user type, a rendered
					// object lacks a required attribute of its type (never inside the main envelope)
					failSig(res, "container-result-type-validated-under-default-view", fmt.Sprintf("valid result under view %q refused by the generated client (%s): below an array / map / plain user type the client validates with the default-view validator and rebuilds with the generic transform", sel, clientFailure(ob)), input)
				} else if ob.ClientErr != nil {
					failSig(res, "client-error-on-valid-response", fmt.Sprintf("client returned %s: %s for a valid result under view %q", ob.ClientErr.Name, ob.ClientErr.Message, sel), input)
				} else if c, wh := diff(p, t, want, client, "result"); c != "" {
					input["expected_result"], input["client_result"] = want, client
					failSig(res, "client-"+c, fmt.Sprintf("client result under view %q: %s at %s", sel, c, wh), input)
				}
			}
			res.Sample(map[string]any{"method": in.Method, "view": in.View, "value": in.Value, "wire": input["wire"], "client": client}, 4)
		case "tamper":
			injDefined := p.typ(t).view(normView(in.Inject)) != nil
			switch {
			case ob.Panic != "":
				failSig(res, "client-panic", "the generated client panicked on a response labelled with another view: "+firstLine(ob.Panic), input)
			case in.fixed != "":
				// no header choice is offered: the fixed view is applied whatever the header says
				want := restrictValue(p, t, sel, in.Value)
				if ob.ClientErr != nil {
					failSig(res, "fixed-view-not-applied", "client of a method whose view is fixed in the design failed when a goa-view header was present: "+ob.ClientErr.Message, input)
				} else if c, wh := diff(p, t, want, client, "result"); c != "" {
					failSig(res, "fixed-view-not-applied", fmt.Sprintf("client result of a method whose view is fixed in the design is not the restriction to that view (goa-view %q was injected): %s at %s", in.Inject, c, wh), input)
				}
			case !injDefined:
				if ob.ClientErr == nil && ob.Resp != nil && strings.TrimSpace(ob.Resp.Body) == "" && nilResult(ob) {
					// known finding: every attribute of the result travels in headers / cookies, the response
					// has no body type and the generated decoder validates the view only next to a body
					failSig(res, "undefined-view-accepted:bodyless-response", fmt.Sprintf("response without a body (every attribute carried by headers / cookies) labelled goa-view %q, which %s does not define: the generated client skips the validation and returns a nil result and no error", in.Inject, t), input)
				} else if ob.ClientErr == nil {
					input["client_result"] = client
					failSig(res, "undefined-view-accepted", fmt.Sprintf("client returned a result for a response labelled goa-view %q, which %s does not define", in.Inject, t), input)
				} else if ob.ClientErr.Name != "validation_error" {
					failSig(res, "undefined-view-not-a-validation-error", fmt.Sprintf("client error for an undefined view is %q, not a validation error", ob.ClientErr.Name), input)
				}
			}
		}

		// ---- correspondence case
		lt := leafTab{}
		xval := coqVal(p, t, in.Value, lt)
		fixedTerm := "None"
		if in.fixed != "" {
			fixedTerm = "(Some " + coqV(in.fixed) + ")"
		}
		resp := "None"
		if wireOK {
			h := "None"
			if hdr != nil {
				h = "(Some " + coqV(*hdr) + ")"
			}
			resp = fmt.Sprintf("(Some (%s, %s))", h, coqVal(p, t, bodyOnly, lt))
		}
		cl := "ONoResp"
		switch {
		case ob.Panic != "":
			cl = "OPanic"
		case ob.ClientErr != nil && ob.Resp != nil:
			cl = "OErr"
		case ob.ClientErr == nil && ob.Resp != nil && nilResult(ob):
			cl = "ONil"
		case ob.ClientErr == nil && ob.HasResult:
			cl = "(OOk " + coqVal(p, t, client, lt) + ")"
		}
		var mapped []string
		for _, a := range append(append([]string{}, in.Method.Headers...), in.Method.Cookies...) {
			mapped = append(mapped, coqA(a))
		}
		carriedTerm := "VFNil"
		if ty := p.typ(t); ty != nil {
			for i := len(ty.Attrs) - 1; i >= 0; i-- {
				if v, ok := carried[ty.Attrs[i].Name]; ok {
					carriedTerm = fmt.Sprintf("(VFCons %s (VLeaf %d) %s)", coqA(ty.Attrs[i].Name), lt.id(v), carriedTerm)
				}
			}
		}
		perDesign[in.Design] = append(perDesign[in.Design], fmt.Sprintf("mkExch %s %s %s %s %s %s %s %s %s %s",
			vh.CoqBool(in.Method.Coll), coqT(t), fixedTerm, coqV(in.View), xval, vh.CoqList(mapped), carriedTerm, vh.CoqBool(in.injected), resp, cl))
	}
	var dis []int
	for di := range perDesign {
		dis = append(dis, di)
	}
	sort.Ints(dis)
	for _, di := range dis {
		xs := perDesign[di]
		env := pools[di].coqEnv()
		for off := 0; off < len(xs); off += 40 {
			end := off + 40
			if end > len(xs) {
				end = len(xs)
			}
			cases = append(cases, fmt.Sprintf("(%d%%N, %s, %s)", len(cases), env, vh.CoqList(xs[off:end])))
			caseInfo = append(caseInfo, map[string]any{"stream": "tierB", "pool": pools[di], "exchanges": fmt.Sprintf("%d..%d", off, end-1)})
		}
	}
	res.Extra["tierB_distinct"] = len(distinct)
	return cases, caseInfo, nil
}

func deref(s *string) string {
	if s == nil {
		return "<absent>"
	}
	return *s
}

func firstLine(s string) string {
	s = strings.TrimSpace(s)
	if i := strings.Index(s, "\n"); i >= 0 {
		s = s[:i]
	}
	if len(s) > 300 {
		s = s[:300]
	}
	return s
}

// dropClass names the kind of compile error (distribution only).
func dropClass(buildErr string) string {
	for _, l := range strings.Split(buildErr, "\n") {
		if strings.HasPrefix(l, "#") || strings.TrimSpace(l) == "" {
			continue
		}
		switch {
		case strings.Contains(l, "redeclared"):
			return "type-redeclared"
		case strings.Contains(l, "undefined: Validate"):
			return "undefined-validate-func"
		case strings.Contains(l, "undefined:"):
			return "undefined-other"
		case strings.Contains(l, "cannot use"):
			return "type-mismatch"
		}
		return "other"
	}
	return "unknown"
}

func clientFailure(ob *rt.Obs) string {
	if ob.Panic != "" {
		return "panic: " + firstLine(ob.Panic)
	}
	if ob.ClientErr != nil {
		return ob.ClientErr.Name + ": " + ob.ClientErr.Message
	}
	return ""
}

// screenPools projects every result type of every pool under every view in a child process
// and reports the pools on which all projections came back.
func screenPools(self, dir, repo string, pools []*Pool) (alive []bool, died map[int]string) {
	os.MkdirAll(dir, 0o755)
	plan := make([][]ProjObs, len(pools))
	for i, p := range pools {
		p.coqEnv()
		for _, t := range p.Types {
			if t.Plain {
				continue
			}
			for _, v := range t.Views {
				plan[i] = append(plan[i], ProjObs{Type: t.Name, View: v.Name})
			}
		}
	}
	pf := filepath.Join(dir, "pools.json")
	bs, _ := json.Marshal(pools)
	os.WriteFile(pf, bs, 0o644)
	bs, _ = json.Marshal(plan)
	os.WriteFile(pf+".plan", bs, 0o644)
	nb, _ := json.Marshal(map[string][]string{"T": tNames, "V": vNames, "A": aNames})
	os.WriteFile(pf+".names", nb, 0o644)
	of := filepath.Join(dir, "obs.jsonl")
	os.Remove(of)
	alive = make([]bool, len(pools))
	died = map[int]string{}
	gen := filepath.Join(dir, "gen")
	if err := dg.WriteModule(gen, "tb", repo, ""); err != nil {
		gen = ""
	}
	from := 0
	for tries := 0; from < len(pools) && tries < len(pools)+2; tries++ {
		ctx, cancel := context.WithTimeout(context.Background(), childBudget(len(pools)-from))
		cmd := exec.CommandContext(ctx, self, "-child", "tiera", "-pools", pf, "-childout", of, "-from", fmt.Sprint(from), "-gendir", gen, "-repo", repo)
		cmd.Env = os.Environ()
		err := cmd.Run()
		cancel()
		last, done := from-1, map[int]bool{}
		lastBegin := ""
		if f, e := os.Open(of); e == nil {
			sc := bufio.NewScanner(f)
			sc.Buffer(make([]byte, 1<<20), 1<<26)
			for sc.Scan() {
				var l childLine
				if json.Unmarshal(sc.Bytes(), &l) != nil {
					continue
				}
				if l.Pool > last {
					last = l.Pool
				}
				if l.Kind == "begin" {
					lastBegin = l.Type + "/" + l.View
				}
				if l.Kind == "pool" || l.Kind == "rejected" { // rejected by the DSL: b.Add reports it
					done[l.Pool] = true
				}
			}
			f.Close()
		}
		for i := range alive {
			if done[i] {
				alive[i] = true
			}
		}
		if err == nil {
			break
		}
		if last >= 0 && last < len(pools) && !done[last] {
			died[last] = lastBegin
		}
		from = last + 1 // the pool that was running when the child died stays dead
	}
	return alive, died
}

func clientOutcome(ob *rt.Obs) string {
	if f := clientFailure(ob); f != "" {
		return f
	}
	return "a result"
}

// nilResult: the client returned no error and a nil result (possibly a typed nil pointer).
func nilResult(ob *rt.Obs) bool {
	return !ob.HasResult || ob.ClientResult == nil || ob.ClientResult.K == "nil"
}
