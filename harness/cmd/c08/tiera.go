package main

// Tier A: expr.Project on result-type pools built through the real DSL.
//
// The projections run in a CHILD process (same binary, -child tiera): a projection that
// recursed without bound (the defect fixed by 59cb719) ends in `fatal error: stack
// overflow`, which no recover() can catch. The parent restarts the child after the pool
// that killed it and reports the projection that was running.

import (
	"bufio"
	"context"
	"encoding/json"
	"fmt"
	"mime"
	"os"
	"os/exec"
	"path/filepath"
	"runtime/debug"
	"strings"
	"time"

	"goa.design/goa/v3/expr"

	dg "verifharness/designgen"
	"verifharness/vh"
)

const projDepth = 4 // depth to which projected graphs are unfolded for comparison

// ProjObs is one projection as observed on the real code.
type ProjObs struct {
	Pool int    `json:"pool"`
	Type string `json:"type"`
	Coll bool   `json:"coll,omitempty"`
	View string `json:"view"`
	Tree string `json:"tree,omitempty"` // Coq ptree term; empty when Project returned an error
	Err  string `json:"err,omitempty"`
}

// childLine is what the child writes, one JSON object per line.
type childLine struct {
	Kind     string   `json:"kind"` // begin | proj | pool | rejected
	Pool     int      `json:"pool"`
	Type     string   `json:"type,omitempty"`
	View     string   `json:"view,omitempty"`
	Proj     *ProjObs `json:"proj,omitempty"`
	Rejected string   `json:"rejected,omitempty"`
}

// tierAPools builds the pool list of a run: corpus, then random.
func tierAPools(rng *vh.RNG, n int) []*Pool {
	ps := corpusPools()
	for len(ps) < n {
		ps = append(ps, randomPool(rng))
	}
	return ps
}

// projections lists what is projected for a pool: every type under every view it defines,
// under one name it does not define, and a collection of the type under one of its views.
func projections(p *Pool, r *vh.RNG) (out []ProjObs) {
	for _, t := range p.Types {
		if t.Plain {
			continue
		}
		for _, v := range t.Views {
			out = append(out, ProjObs{Type: t.Name, View: v.Name})
		}
		out = append(out, ProjObs{Type: t.Name, View: vh.Pick(r, []string{"nope", "Default", "tiny ", "defaul"})})
		out = append(out, ProjObs{Type: t.Name, Coll: true, View: t.Views[r.Intn(len(t.Views))].Name})
	}
	return
}

// dumpProjected renders a projected result type to depth k in Views.Model.ptree syntax.
// Node labels (original type, view) are read back from the projected identifier; plain user
// types are labelled with their type name.
func dumpProjected(rt *expr.ResultTypeExpr, k int, byID map[string]string) string {
	if k == 0 {
		return "PCut"
	}
	base, params, err := mime.ParseMediaType(rt.Identifier)
	if err != nil {
		return "PErr"
	}
	tn, ok := byID[base]
	if !ok {
		return "PErr"
	}
	obj := expr.AsObject(rt.Type)
	if obj == nil || expr.IsArray(rt.Type) {
		return "PErr"
	}
	var req []string
	if rt.Validation != nil {
		for _, n := range rt.Validation.Required {
			req = append(req, coqA(n))
		}
	}
	return fmt.Sprintf("(PObj %s %s %s %s)", coqT(tn), coqV(params["view"]), dumpFields(obj, k, byID), vh.CoqList(req))
}

func dumpFields(obj *expr.Object, k int, byID map[string]string) string {
	fs := "PNil"
	for i := len(*obj) - 1; i >= 0; i-- {
		nat := (*obj)[i]
		fs = fmt.Sprintf("(PCons %s %s %s)", coqA(nat.Name), dumpType(nat.Attribute.Type, k-1, byID), fs)
	}
	return fs
}

// dumpType renders what an attribute points to: a node behind its wrapper, or a leaf.
func dumpType(dt expr.DataType, k int, byID map[string]string) string {
	switch t := dt.(type) {
	case *expr.ResultTypeExpr:
		if arr, isArr := t.Type.(*expr.Array); isArr {
			if ert, ok := arr.ElemType.Type.(*expr.ResultTypeExpr); ok {
				return "(PColl " + dumpProjected(ert, k, byID) + ")"
			}
			return "PErr"
		}
		return dumpProjected(t, k, byID)
	case *expr.UserTypeExpr:
		if k == 0 {
			return "PCut"
		}
		obj := expr.AsObject(t.Type)
		if obj == nil {
			return "PLeaf"
		}
		return fmt.Sprintf("(PUser %s %s)", coqT(t.TypeName), dumpFields(obj, k, byID))
	case *expr.Array:
		if ert, ok := t.ElemType.Type.(*expr.ResultTypeExpr); ok {
			return "(PArr " + dumpProjected(ert, k, byID) + ")"
		}
	case *expr.Map:
		if ert, ok := t.ElemType.Type.(*expr.ResultTypeExpr); ok {
			return "(PMap " + dumpProjected(ert, k, byID) + ")"
		}
	}
	return "PLeaf"
}

// childTierA is the body of the child process.
func childTierA(poolsFile, outFile string, from int, genDir, repo string) {
	debug.SetMaxStack(8 << 20) // a runaway recursion dies quickly
	var pools []*Pool
	b, err := os.ReadFile(poolsFile)
	if err != nil {
		panic(err)
	}
	if err := json.Unmarshal(b, &pools); err != nil {
		panic(err)
	}
	var plan [][]ProjObs
	b, err = os.ReadFile(poolsFile + ".plan")
	if err != nil {
		panic(err)
	}
	if err := json.Unmarshal(b, &plan); err != nil {
		panic(err)
	}
	loadNames(poolsFile + ".names")
	f, err := os.OpenFile(outFile, os.O_APPEND|os.O_CREATE|os.O_WRONLY, 0o644)
	if err != nil {
		panic(err)
	}
	w := bufio.NewWriter(f)
	emit := func(l childLine) {
		bs, _ := json.Marshal(l)
		w.Write(bs)
		w.WriteByte('\n')
		w.Flush()
	}
	for pi := from; pi < len(pools); pi++ {
		p := pools[pi]
		d := p.design(fmt.Sprintf("p%d", pi))
		// a method per type keeps collections reachable through a real CollectionOf
		oc := d.Eval()
		if !oc.Accepted {
			msg := "rejected"
			if oc.Err != nil {
				msg = oc.Err.Error()
			}
			if oc.Panic != "" {
				msg = "panic: " + strings.SplitN(oc.Panic, "\n", 2)[0]
			}
			emit(childLine{Kind: "rejected", Pool: pi, Rejected: msg})
			continue
		}
		byID := map[string]string{}
		rts := map[string]*expr.ResultTypeExpr{}
		for _, t := range p.Types {
			if t.Plain {
				continue
			}
			ut := expr.Root.UserType(t.Name)
			rt, ok := ut.(*expr.ResultTypeExpr)
			if !ok {
				continue
			}
			rts[t.Name] = rt
			base, _, _ := mime.ParseMediaType(rt.Identifier)
			byID[base] = t.Name
		}
		for _, pr := range plan[pi] {
			rt := rts[pr.Type]
			if rt == nil {
				continue
			}
			emit(childLine{Kind: "begin", Pool: pi, Type: pr.Type, View: pr.View})
			ob := pr
			ob.Pool = pi
			func() {
				defer func() {
					if r := recover(); r != nil {
						ob.Err = fmt.Sprintf("panic: %v", r)
					}
				}()
				target := rt
				if pr.Coll {
					target = collectionOf(rt)
				}
				proj, err := expr.Project(target, pr.View)
				if err != nil {
					ob.Err = err.Error()
					return
				}
				if pr.Coll {
					arr, ok := proj.Type.(*expr.Array)
					if !ok {
						ob.Err = "projected collection is not an array"
						return
					}
					ert, ok := arr.ElemType.Type.(*expr.ResultTypeExpr)
					if !ok {
						ob.Err = "projected collection element is not a result type"
						return
					}
					ob.Tree = "(PColl " + dumpProjected(ert, projDepth, byID) + ")"
					return
				}
				ob.Tree = dumpProjected(proj, projDepth, byID)
			}()
			emit(childLine{Kind: "proj", Pool: pi, Proj: &ob})
		}
		if genDir != "" {
			// tier-B screening: the code generators must survive the design too (they walk the
			// same recursive types; a fatal error there would kill the parent)
			emit(childLine{Kind: "begin", Pool: pi, Type: "<generate>"})
			gd := filepath.Join(genDir, fmt.Sprintf("g%d", pi))
			if err := os.MkdirAll(gd, 0o755); err == nil {
				dg.Generate(gd, "gen") // errors and recovered panics are reported by the parent's own run
			}
			os.RemoveAll(gd)
		}
		emit(childLine{Kind: "pool", Pool: pi})
	}
	f.Close()
}

// collectionOf builds CollectionOf(rt) the way the DSL does (a result type whose type is
// an array of rt, sharing rt's views).
func collectionOf(rt *expr.ResultTypeExpr) *expr.ResultTypeExpr {
	base, params, _ := mime.ParseMediaType(rt.Identifier)
	if params == nil {
		params = map[string]string{}
	}
	params["type"] = "collection"
	id := mime.FormatMediaType(base, params)
	c := expr.NewResultTypeExpr(rt.TypeName+"Collection", id, func() {})
	c.AttributeExpr = &expr.AttributeExpr{Type: &expr.Array{ElemType: &expr.AttributeExpr{Type: rt}}, DSLFunc: func() {}}
	c.Views = rt.Views
	return c
}

// runTierA drives the child and evaluates the direct oracle.
func runTierA(self, out string, pools []*Pool, rng *vh.RNG, res *vh.Result) (cases []string, caseInfo []any) {
	plan := make([][]ProjObs, len(pools))
	for i, p := range pools {
		plan[i] = projections(p, rng)
	}
	// Names must be interned identically in parent and child: intern everything up front.
	for _, p := range pools {
		p.coqEnv()
	}
	for i := range plan {
		for _, pr := range plan[i] {
			coqV(pr.View)
		}
	}
	pf := filepath.Join(out, "tiera_pools.json")
	bs, _ := json.Marshal(pools)
	os.WriteFile(pf, bs, 0o644)
	bs, _ = json.Marshal(plan)
	os.WriteFile(pf+".plan", bs, 0o644)
	nb, _ := json.Marshal(map[string][]string{"T": tNames, "V": vNames, "A": aNames})
	os.WriteFile(pf+".names", nb, 0o644)
	of := filepath.Join(out, "tiera_obs.jsonl")
	os.Remove(of)

	from, restarts := 0, 0
	type crash struct {
		pool       int
		typ, view  string
		stderrHead string
	}
	var crashes []crash
	for from < len(pools) && restarts < 25 {
		// a projection may also run (almost) forever without overflowing the stack: bound the child
		ctx, cancel := context.WithTimeout(context.Background(), childBudget(len(pools)-from))
		cmd := exec.CommandContext(ctx, self, "-child", "tiera", "-pools", pf, "-childout", of, "-from", fmt.Sprint(from))
		var stderr strings.Builder
		cmd.Stderr = &stderr
		err := cmd.Run()
		timedOut := ctx.Err() != nil
		cancel()
		if err == nil {
			break
		}
		if timedOut {
			stderr.WriteString("stack overflow not reached: projection still running when the time budget ended")
		}
		restarts++
		// find the last begin without a matching proj
		last := childLine{Pool: from}
		if f, e := os.Open(of); e == nil {
			sc := bufio.NewScanner(f)
			sc.Buffer(make([]byte, 1<<20), 1<<26)
			for sc.Scan() {
				var l childLine
				if json.Unmarshal(sc.Bytes(), &l) == nil && l.Kind == "begin" {
					last = l
				}
			}
			f.Close()
		}
		head := stderr.String()
		if i := strings.Index(head, "\n\n"); i > 0 {
			head = head[:i]
		}
		if len(head) > 300 {
			head = head[:300]
		}
		crashes = append(crashes, crash{last.Pool, last.Type, last.View, head})
		from = last.Pool + 1
	}
	for _, c := range crashes {
		sig := "project-crash"
		if strings.Contains(c.stderrHead, "stack overflow") || strings.Contains(c.stderrHead, "stack exceeds") || strings.Contains(c.stderrHead, "still running") {
			sig = "project-nonterminating"
		}
		failSig(res, sig, fmt.Sprintf("expr.Project(%s, %q) killed the process: %s", c.typ, c.view, strings.ReplaceAll(c.stderrHead, "\n", " | ")),
			map[string]any{"stream": "tierA", "pool": pools[c.pool], "type": c.typ, "view": c.view})
	}

	// read observations
	obs := map[string]*ProjObs{}
	rejected := map[int]string{}
	if f, e := os.Open(of); e == nil {
		sc := bufio.NewScanner(f)
		sc.Buffer(make([]byte, 1<<20), 1<<26)
		for sc.Scan() {
			var l childLine
			if json.Unmarshal(sc.Bytes(), &l) != nil {
				continue
			}
			switch l.Kind {
			case "proj":
				obs[fmt.Sprintf("%d/%s/%v/%s", l.Pool, l.Proj.Type, l.Proj.Coll, l.Proj.View)] = l.Proj
			case "rejected":
				rejected[l.Pool] = l.Rejected
			}
		}
		f.Close()
	}
	distinct := vh.Distinct{}
	for pi, p := range pools {
		if msg, rej := rejected[pi]; rej {
			res.Count("tierA_pool_rejected_by_dsl")
			res.Extra["last_rejection"] = msg
			if strings.HasPrefix(p.Tag, "corpus") {
				failSig(res, "corpus-design-rejected", "a corpus design is no longer accepted by the DSL: "+msg, map[string]any{"stream": "tierA", "pool": p})
			}
			continue
		}
		res.Count("tierA_pools")
		for _, ft := range p.features() {
			res.Count("tierA_feature=" + ft)
		}
		env := p.coqEnv()
		var items []string
		for _, pr := range plan[pi] {
			ob := obs[fmt.Sprintf("%d/%s/%v/%s", pi, pr.Type, pr.Coll, pr.View)]
			if ob == nil {
				continue // the child died on (or before) this projection: reported above
			}
			res.Evaluations++
			defined := p.typ(pr.Type).view(pr.View) != nil
			in := map[string]any{"stream": "tierA", "pool": p, "type": pr.Type, "coll": pr.Coll, "view": pr.View}
			want := p.specTree(pr.Type, pr.View, projDepth)
			if pr.Coll {
				want = "(PColl " + want + ")"
			}
			switch {
			case !defined:
				res.Count("tierA_undefined_view")
				if ob.Err == "" {
					in["projected"] = ob.Tree
					failSig(res, "project-accepts-undefined-view", fmt.Sprintf("expr.Project(%s, %q) returned a type although the view is not defined", pr.Type, pr.View), in)
				}
			case ob.Err != "":
				in["error"] = ob.Err
				failSig(res, "project-fails-on-defined-view", fmt.Sprintf("expr.Project(%s, %q) failed: %s", pr.Type, pr.View, ob.Err), in)
			case ob.Tree != want:
				in["projected"], in["expected"] = ob.Tree, want
				failSig(res, "project-attrs-differ", fmt.Sprintf("expr.Project(%s, %q) does not expose exactly the attributes of the view (recursively, depth %d)", pr.Type, pr.View, projDepth), in)
			}
			if defined {
				distinct.Add(p.key() + "#" + pr.Type + "#" + pr.View + fmt.Sprint(pr.Coll))
				res.Count("tierA_projections")
			}
			o := "None"
			if ob.Err == "" {
				o = "(Some " + ob.Tree + ")"
			}
			items = append(items, fmt.Sprintf("(%s, %s, %s, %s)", vh.CoqBool(pr.Coll), coqT(pr.Type), coqV(pr.View), o))
		}
		if len(items) > 0 {
			cases = append(cases, fmt.Sprintf("(%d%%N, %s, %d, %s)", len(cases), env, projDepth, vh.CoqList(items)))
			caseInfo = append(caseInfo, map[string]any{"stream": "tierA", "pool": p})
		}
		if pi%41 == 3 {
			res.Sample(map[string]any{"pool": p, "projections": len(items)}, 3)
		}
	}
	res.Extra["tierA_distinct"] = len(distinct)
	res.Extra["tierA_child_restarts"] = restarts
	return
}

// childBudget bounds one child run: generous for the honest case (a pool takes a few
// milliseconds), short enough that a projection that neither ends nor overflows is reported.
func childBudget(pools int) time.Duration {
	return 40*time.Second + time.Duration(pools)*60*time.Millisecond
}
