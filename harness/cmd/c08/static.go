package main

// Static observation of the generated views constructors (gen/<svc>/service.go):
// new<T>View<V>(res) builds the projected value the server renders under view V. On the
// wire a stray attribute would be masked by the projected response body type, so the set of
// fields each constructor touches is read from the generated source and compared with the
// attributes of the view (direct oracle: "attributes outside the view are not copied").

import (
	"fmt"
	"go/ast"
	"go/parser"
	"go/token"
	"sort"
	"strings"

	"goa.design/goa/v3/codegen"

	"verifharness/vh"
)

// touchedFields returns, per function name, the fields assigned on the returned value
// (composite literal keys of the first statement and `x.F = ...` assignments).
func touchedFields(path string) (map[string][]string, error) {
	t, _, err := touchedFieldsAndCalls(path)
	return t, err
}

// touchedFieldsAndCalls also returns, per function and field, the constructor called to
// build the field (x.F = newInnerViewTiny(...)).
func touchedFieldsAndCalls(path string) (map[string][]string, map[string]map[string]string, error) {
	fset := token.NewFileSet()
	f, err := parser.ParseFile(fset, path, nil, 0)
	if err != nil {
		return nil, nil, err
	}
	out := map[string][]string{}
	calls := map[string]map[string]string{}
	for _, d := range f.Decls {
		fd, ok := d.(*ast.FuncDecl)
		if !ok || fd.Recv != nil || fd.Body == nil || !strings.HasPrefix(fd.Name.Name, "new") {
			continue
		}
		set := map[string]bool{}
		target := ""
		ast.Inspect(fd.Body, func(n ast.Node) bool {
			switch x := n.(type) {
			case *ast.AssignStmt:
				for i, lhs := range x.Lhs {
					if id, ok := lhs.(*ast.Ident); ok && target == "" && x.Tok == token.DEFINE && i < len(x.Rhs) {
						// vres := &T{...}  /  res := &T{...}
						if u, ok := x.Rhs[i].(*ast.UnaryExpr); ok {
							if cl, ok := u.X.(*ast.CompositeLit); ok {
								target = id.Name
								for _, el := range cl.Elts {
									if kv, ok := el.(*ast.KeyValueExpr); ok {
										if k, ok := kv.Key.(*ast.Ident); ok {
											set[k.Name] = true
										}
									}
								}
							}
						}
					}
					if sel, ok := lhs.(*ast.SelectorExpr); ok {
						if id, ok := sel.X.(*ast.Ident); ok && id.Name == target && target != "" {
							set[sel.Sel.Name] = true
							if i < len(x.Rhs) {
								if ce, ok := x.Rhs[i].(*ast.CallExpr); ok {
									if fn, ok := ce.Fun.(*ast.Ident); ok {
										if calls[fd.Name.Name] == nil {
											calls[fd.Name.Name] = map[string]string{}
										}
										calls[fd.Name.Name][sel.Sel.Name] = fn.Name
									}
								}
							}
						}
					}
				}
			}
			return true
		})
		var fs []string
		for k := range set {
			fs = append(fs, k)
		}
		sort.Strings(fs)
		out[fd.Name.Name] = fs
	}
	return out, calls, nil
}

// checkConstructors evaluates the static oracle on one generated service package.
func checkConstructors(p *Pool, serviceGo string, res *vh.Result) (items []string) {
	touched, calls, err := touchedFieldsAndCalls(serviceGo)
	if err != nil {
		failSig(res, "generated-service-unparsable", "cannot parse generated "+serviceGo+": "+err.Error(), map[string]any{"stream": "tierB/static", "pool": p})
		return nil
	}
	// the plan of a constructor as a Coq term: fields in the order of the type, with the nested
	// constructor called for the field read back as (collection?, type, view)
	planTerm := func(t *PType, fn string) string {
		var es []string
		known := map[string]bool{}
		for _, a := range t.Attrs {
			gf := codegen.Goify(a.Name, true)
			known[gf] = true
			if !containsStr(touched[fn], gf) {
				continue
			}
			call := "None"
			if c, ok := calls[fn][gf]; ok && a.isRes() {
				call = "(Some (false, (T 9999), (V 9999)))" // a constructor of no view of the attribute's type
				if rt := p.typ(a.Ref); rt != nil {
					for _, u := range rt.Views {
						suf := ""
						if u.Name != "default" {
							suf = codegen.Goify(u.Name, true)
						}
						for _, coll := range []bool{false, true} {
							base := a.Ref
							if coll {
								base += "Collection"
							}
							if c == "new"+base+"View"+suf || c == "new"+base+suf {
								call = fmt.Sprintf("(Some (%s, %s, %s))", vh.CoqBool(coll), coqT(a.Ref), coqV(u.Name))
							}
						}
					}
				}
			}
			es = append(es, fmt.Sprintf("(%s, %s)", coqA(a.Name), call))
		}
		for _, g := range touched[fn] {
			if !known[g] {
				es = append(es, "((A 9999), None)")
			}
		}
		return vh.CoqList(es)
	}
	for _, t := range p.Types {
		if t.Plain {
			continue
		}
		for _, v := range t.Views {
			suffix := ""
			if v.Name != "default" {
				suffix = codegen.Goify(v.Name, true)
			}
			// server side: service type -> projected type
			name := "new" + t.Name + "View" + suffix
			got, ok := touched[name]
			if !ok {
				continue // type not reachable from a method of this design
			}
			res.Count("tierB_static_constructors")
			items = append(items, fmt.Sprintf("(%s, %s, %s, %s)", coqT(t.Name), coqV(v.Name), planTerm(t, name), planTerm(t, "new"+t.Name+suffix)))
			var want []string
			for _, e := range v.Attrs {
				if t.attr(e.Attr) != nil {
					want = append(want, codegen.Goify(e.Attr, true))
				}
			}
			sort.Strings(want)
			in := map[string]any{"stream": "tierB/static", "pool": p, "type": t.Name, "view": v.Name, "constructor": name, "fields_touched": got, "view_fields": want}
			for _, g := range got {
				if !containsStr(want, g) {
					failSig(res, "viewed-init-copies-attr-outside-view", fmt.Sprintf("%s (projection of %s under view %q) copies field %s, which the view does not list", name, t.Name, v.Name, g), in)
					break
				}
			}
			for _, w := range want {
				if !containsStr(got, w) {
					failSig(res, "viewed-init-misses-view-attr", fmt.Sprintf("%s (projection of %s under view %q) does not copy field %s, which the view lists", name, t.Name, v.Name, w), in)
					break
				}
			}
			// nested result types are built by the constructor of their own view, on both sides
			for _, e := range v.Attrs {
				a := t.attr(e.Attr)
				if a == nil || !a.isRes() {
					continue
				}
				nsuf := ""
				if nv := nestedView(&e, a); nv != "default" {
					nsuf = codegen.Goify(nv, true)
				}
				base := a.Ref
				if a.Kind == "coll" {
					base += "Collection"
				}
				gf := codegen.Goify(e.Attr, true)
				for _, side := range []struct{ fn, want string }{{name, "new" + base + "View" + nsuf}, {"new" + t.Name + suffix, "new" + base + nsuf}} {
					if c, ok := calls[side.fn][gf]; ok && c != side.want {
						in["constructor"], in["field"], in["calls"], in["expected_call"] = side.fn, gf, c, side.want
						failSig(res, "nested-constructor-of-another-view", fmt.Sprintf("%s builds field %s (nested view %q) with %s instead of %s", side.fn, gf, nestedView(&e, a), c, side.want), in)
					}
				}
			}
			// client side: projected type -> service type; plain attributes must be those of the view
			cname := "new" + t.Name + suffix
			cgot, ok := touched[cname]
			if !ok {
				continue
			}
			for _, g := range cgot {
				for _, a := range t.Attrs {
					if codegen.Goify(a.Name, true) == g && !a.isRes() && v.entry(a.Name) == nil {
						in["constructor"], in["fields_touched"] = cname, cgot
						failSig(res, "result-init-copies-attr-outside-view", fmt.Sprintf("%s (rebuild of %s under view %q) copies field %s, which the view does not list", cname, t.Name, v.Name, g), in)
					}
				}
			}
			for _, w := range want {
				if !containsStr(cgot, w) {
					in["constructor"], in["fields_touched"] = cname, cgot
					failSig(res, "result-init-misses-view-attr", fmt.Sprintf("%s (rebuild of %s under view %q) does not copy field %s, which the view lists", cname, t.Name, v.Name, w), in)
					break
				}
			}
		}
	}
	return items
}

func containsStr(xs []string, s string) bool {
	for _, x := range xs {
		if x == s {
			return true
		}
	}
	return false
}
