package main

// Result-type pools: the design fragment property C08 quantifies over. A pool is a set
// of result types (1-3 views each, nested result types with per-attribute view
// overrides, collections, self / mutual recursion). The same description is
//   - built through goa's real DSL (via designgen) for the implementation side,
//   - interpreted by the independent Go functions below (the direct oracle: which
//     attributes a view exposes, recursively),
//   - printed as a Coq term for the Views model.

import (
	"encoding/json"
	"fmt"
	"os"
	"sort"
	"strings"

	dg "verifharness/designgen"
	"verifharness/vh"
)

// PAttr is an attribute of a result type.
type PAttr struct {
	Name string `json:"name"`
	Kind string `json:"kind"`           // str | int | arr (array of strings) | res | coll | arrres (ArrayOf(result type)) | mapres (MapOf(String, result type)) | user (plain user type)
	Ref  string `json:"ref,omitempty"`  // res / coll / arrres / mapres: result type name; user: plain type name
	Meta string `json:"meta,omitempty"` // View("x") written on the attribute in the type definition
	Req  bool   `json:"req,omitempty"`
}

// PEntry is one attribute listed in a view.
type PEntry struct {
	Attr string `json:"attr"`
	View string `json:"view,omitempty"` // View("x") written on the attribute inside the view
}

// PView is a view.
type PView struct {
	Name  string   `json:"name"`
	Attrs []PEntry `json:"attrs"`
}

// PType is a result type. NoDefault: the design does not write a "default" view (goa
// then builds one listing every attribute); Views always holds it for the oracle.
type PType struct {
	Name      string  `json:"name"`
	Attrs     []PAttr `json:"attrs"`
	Views     []PView `json:"views"`
	NoDefault bool    `json:"no_default,omitempty"`
	Plain     bool    `json:"plain,omitempty"` // plain user type (Type, not ResultType): no views
}

// PMethod returns a result type (or a collection of it), with the view chosen by the
// service method at run time or fixed in the design.
type PMethod struct {
	Name  string `json:"name"`
	Type  string `json:"type"`
	Coll  bool   `json:"coll,omitempty"`
	Fixed string `json:"fixed,omitempty"`
	// result attributes (plain ones, of a single result) that the HTTP response carries in a
	// header / a cookie instead of the body: the body type is then computed per response
	Headers []string `json:"headers,omitempty"`
	Cookies []string `json:"cookies,omitempty"`
}

func hdrName(a string) string { return "X-R-" + a }
func ckName(a string) string  { return a + "_rck" }

// Pool is a whole design fragment.
type Pool struct {
	Types   []*PType  `json:"types"`
	Methods []PMethod `json:"methods,omitempty"`
	Tag     string    `json:"tag,omitempty"` // corpus / random
	Witness string    `json:"witness,omitempty"` // signature of the known finding this corpus design re-demonstrates
}

func (p *Pool) typ(n string) *PType {
	for _, t := range p.Types {
		if t.Name == n {
			return t
		}
	}
	return nil
}

func (t *PType) attr(n string) *PAttr {
	for i := range t.Attrs {
		if t.Attrs[i].Name == n {
			return &t.Attrs[i]
		}
	}
	return nil
}

func (t *PType) view(n string) *PView {
	for i := range t.Views {
		if t.Views[i].Name == n {
			return &t.Views[i]
		}
	}
	return nil
}

func (v *PView) entry(a string) *PEntry {
	for i := range v.Attrs {
		if v.Attrs[i].Attr == a {
			return &v.Attrs[i]
		}
	}
	return nil
}

// isRes: the attribute's type is itself a result type (direct or CollectionOf).
func (a *PAttr) isRes() bool { return a.Kind == "res" || a.Kind == "coll" }

// pointsTo: the attribute leads to another type of the pool.
func (a *PAttr) pointsTo() bool { return a.Ref != "" }

// container: array / map of result types, plain user type.
func (a *PAttr) container() bool { return a.Kind == "arrres" || a.Kind == "mapres" || a.Kind == "user" }

// node is what an attribute points to: a result type under a view, or a plain user type.
// childNode gives the node behind attribute a of a node whose view is v, under entry e.
func childNode(v string, e *PEntry, a *PAttr) (t, view string) {
	if a.Kind == "user" {
		return a.Ref, v
	}
	return a.Ref, nestedView(e, a)
}

// entriesOf lists the entries of a node: the view's attributes, or every attribute of a plain type.
func (p *Pool) entriesOf(t, v string) (*PType, []PEntry, bool) {
	ty := p.typ(t)
	if ty == nil {
		return nil, nil, false
	}
	if ty.Plain {
		var es []PEntry
		for _, a := range ty.Attrs {
			es = append(es, PEntry{Attr: a.Name})
		}
		return ty, es, true
	}
	vw := ty.view(v)
	if vw == nil {
		return ty, nil, false
	}
	return ty, vw.Attrs, true
}

// nestedView: the view a nested result-type attribute is rendered with.
func nestedView(e *PEntry, a *PAttr) string {
	if e != nil && e.View != "" {
		return e.View
	}
	if a.Meta != "" {
		return a.Meta
	}
	return "default"
}

func normView(v string) string {
	if v == "" {
		return "default"
	}
	return v
}

// ---------------------------------------------------------------- to designgen

func (p *Pool) design(name string) *dg.Design {
	d := &dg.Design{Name: name}
	for _, t := range p.Types {
		ut := &dg.UserType{Name: t.Name, Result: !t.Plain}
		var fs []*dg.Field
		for _, a := range t.Attrs {
			f := &dg.Field{Name: a.Name, Required: a.Req}
			switch a.Kind {
			case "str":
				f.A.T = dg.Prim("String")
			case "int":
				f.A.T = dg.Prim("Int")
			case "arr":
				f.A.T = dg.ArrayOf(dg.A(dg.Prim("String")))
			case "res":
				f.A.T = dg.Ref(a.Ref)
			case "coll":
				f.A.T = dg.Type{Kind: "collection", Ref: a.Ref}
			case "arrres":
				f.A.T = dg.ArrayOf(dg.A(dg.Ref(a.Ref)))
			case "mapres":
				f.A.T = dg.MapOf(dg.A(dg.Prim("String")), dg.A(dg.Ref(a.Ref)))
			case "user":
				f.A.T = dg.Ref(a.Ref)
			}
			f.A.View = a.Meta
			fs = append(fs, f)
		}
		ut.Base = dg.Obj(fs...)
		for _, v := range t.Views {
			if v.Name == "default" && t.NoDefault {
				continue
			}
			dv := dg.View{Name: v.Name}
			for _, e := range v.Attrs {
				dv.Attrs = append(dv.Attrs, dg.ViewField{Name: e.Attr, View: e.View})
			}
			ut.Views = append(ut.Views, dv)
		}
		d.Types = append(d.Types, ut)
	}
	if len(p.Methods) > 0 {
		s := &dg.Service{Name: "svc"}
		for _, m := range p.Methods {
			res := dg.A(dg.Ref(m.Type))
			if m.Coll {
				res = dg.A(dg.Type{Kind: "collection", Ref: m.Type})
			}
			h := &dg.HTTPMap{Routes: []dg.Route{{Verb: "GET", Path: "/" + m.Name}}}
			if len(m.Headers)+len(m.Cookies) > 0 {
				r := dg.Response{Status: 200}
				for _, a := range m.Headers {
					r.Headers = append(r.Headers, dg.MapEntry{Attr: a, Wire: hdrName(a)})
				}
				for _, a := range m.Cookies {
					r.Cookies = append(r.Cookies, dg.MapEntry{Attr: a, Wire: ckName(a)})
				}
				h.Responses = append(h.Responses, r)
			}
			s.Methods = append(s.Methods, &dg.Method{Name: m.Name, Result: &res, ResultView: m.Fixed, HTTP: h})
		}
		d.Services = append(d.Services, s)
	}
	return d
}

// ------------------------------------------------------ direct oracle: projections

// specTree is the projection the property asks for, unfolded to depth k, printed in the
// syntax of Views.Model.ptree (independent of goa and of the Coq model). A node is a result
// type under a view or a plain user type (v = the view of the enclosing result type).
func (p *Pool) specTree(t, v string, k int) string {
	if k == 0 {
		return "PCut"
	}
	ty, es, ok := p.entriesOf(t, v)
	if !ok {
		return "PErr"
	}
	fs := "PNil"
	for i := len(es) - 1; i >= 0; i-- {
		e := es[i]
		a := ty.attr(e.Attr)
		if a == nil {
			continue
		}
		sub := "PLeaf"
		if a.pointsTo() {
			ct, cv := childNode(v, &e, a)
			sub = p.specTree(ct, cv, k-1)
			switch a.Kind {
			case "coll":
				sub = "(PColl " + sub + ")"
			case "arrres":
				sub = "(PArr " + sub + ")"
			case "mapres":
				sub = "(PMap " + sub + ")"
			}
		}
		fs = fmt.Sprintf("(PCons %s %s %s)", coqA(e.Attr), sub, fs)
	}
	if ty.Plain {
		return fmt.Sprintf("(PUser %s %s)", coqT(t), fs)
	}
	var req []string
	vw := ty.view(v)
	for _, a := range ty.Attrs {
		if a.Req && vw.entry(a.Name) != nil {
			req = append(req, coqA(a.Name))
		}
	}
	return fmt.Sprintf("(PObj %s %s %s %s)", coqT(t), coqV(v), fs, vh.CoqList(req))
}

// ------------------------------------------------------------- Coq term printers

// Names are printed through the small tables of Views.Run (T i, V i, A i) so that case
// files hold no string literals. The tables are generated into the header.
var (
	tNames = []string{}
	vNames = []string{"default", ""}
	aNames = []string{}
	tIdx   = map[string]int{}
	vIdx   = map[string]int{"default": 0, "": 1}
	aIdx   = map[string]int{}
)

// frozen: the tables were loaded from the parent process; a name they do not hold is
// printed as an index outside the table (it then differs from every expected name).
var frozen bool

func loadNames(path string) {
	b, err := os.ReadFile(path)
	if err != nil {
		panic(err)
	}
	var m map[string][]string
	if err := json.Unmarshal(b, &m); err != nil {
		panic(err)
	}
	tNames, vNames, aNames = m["T"], m["V"], m["A"]
	tIdx, vIdx, aIdx = map[string]int{}, map[string]int{}, map[string]int{}
	for i, s := range tNames {
		tIdx[s] = i
	}
	for i, s := range vNames {
		vIdx[s] = i
	}
	for i, s := range aNames {
		aIdx[s] = i
	}
	frozen = true
}

func intern(tab *[]string, idx map[string]int, s string) int {
	if i, ok := idx[s]; ok {
		return i
	}
	if frozen {
		return 9999
	}
	idx[s] = len(*tab)
	*tab = append(*tab, s)
	return idx[s]
}

func coqT(s string) string { return fmt.Sprintf("(T %d)", intern(&tNames, tIdx, s)) }
func coqV(s string) string { return fmt.Sprintf("(V %d)", intern(&vNames, vIdx, s)) }
func coqA(s string) string { return fmt.Sprintf("(A %d)", intern(&aNames, aIdx, s)) }

func coqOptV(s string) string {
	if s == "" {
		return "None"
	}
	return "(Some " + coqV(s) + ")"
}

func coqTable(name string, tab []string) string {
	items := make([]string, len(tab))
	for i, s := range tab {
		items[i] = vh.CoqString(s)
	}
	return fmt.Sprintf("Definition %s_tab : list string := %s.\nDefinition %s (n : nat) : string := nth n %s_tab \"?\"%%string.\n", name, vh.CoqList(items), name, name)
}

// header defines the name tables used by the case files of this run.
func coqHeader() string {
	return "From Coq Require Import NArith.\nFrom Views Require Import Model Run.\nOpen Scope string_scope.\n" +
		coqTable("T", tNames) + coqTable("V", vNames) + coqTable("A", aNames)
}

func (p *Pool) coqEnv() string {
	var ts []string
	for _, t := range p.Types {
		var as, vs []string
		for _, a := range t.Attrs {
			var ty string
			switch a.Kind {
			case "res":
				ty = "(TRes " + coqT(a.Ref) + ")"
			case "coll":
				ty = "(TColl " + coqT(a.Ref) + ")"
			case "arrres":
				ty = "(TArr " + coqT(a.Ref) + ")"
			case "mapres":
				ty = "(TMap " + coqT(a.Ref) + ")"
			case "user":
				ty = "(TUser " + coqT(a.Ref) + ")"
			case "arr":
				ty = "(TLeaf false)"
			default:
				ty = "(TLeaf true)"
			}
			as = append(as, fmt.Sprintf("mkAttr %s %s %s %s", coqA(a.Name), ty, coqOptV(a.Meta), vh.CoqBool(a.Req)))
		}
		for _, v := range t.Views {
			if t.Plain {
				break
			}
			var es []string
			for _, e := range v.Attrs {
				es = append(es, fmt.Sprintf("(%s, %s)", coqA(e.Attr), coqOptV(e.View)))
			}
			vs = append(vs, fmt.Sprintf("mkView %s %s", coqV(v.Name), vh.CoqList(es)))
		}
		ts = append(ts, fmt.Sprintf("(%s, mkRT %s %s)", coqT(t.Name), vh.CoqList(as), vh.CoqList(vs)))
	}
	return vh.CoqList(ts)
}

// ------------------------------------------------------------------ generation

var viewNames = []string{"tiny", "mid", "ext"}

// randomPool draws a pool: 1-4 result types and 0-2 plain user types. Recursion, overrides,
// type-level view metas (also combined with overrides of the same attribute) and containers
// (arrays / maps of result types, plain user types holding result types) are frequent on purpose.
func randomPool(r *vh.RNG) *Pool {
	p := &Pool{Tag: "random"}
	n := 1 + r.Intn(4)
	// view names first (overrides must name views of the target type)
	for i := 0; i < n; i++ {
		t := &PType{Name: fmt.Sprintf("R%d", i)}
		t.Views = append(t.Views, PView{Name: "default"})
		nv := r.Intn(3)
		perm := []int{0, 1, 2}
		for j := 2; j > 0; j-- {
			k := r.Intn(j + 1)
			perm[j], perm[k] = perm[k], perm[j]
		}
		for j := 0; j < nv; j++ {
			t.Views = append(t.Views, PView{Name: viewNames[perm[j]]})
		}
		p.Types = append(p.Types, t)
	}
	np := 0
	if r.Chance(1, 2) {
		np = 1 + r.Intn(2)
	}
	for i := 0; i < np; i++ {
		p.Types = append(p.Types, &PType{Name: fmt.Sprintf("U%d", i), Plain: true})
	}
	var rts, plains []*PType
	for _, t := range p.Types {
		if t.Plain {
			plains = append(plains, t)
		} else {
			rts = append(rts, t)
		}
	}
	for i, t := range p.Types {
		na := 2 + r.Intn(4)
		prefix := "f"
		if t.Plain {
			prefix = "g"
			i -= n
		}
		for j := 0; j < na; j++ {
			a := PAttr{Name: fmt.Sprintf("%s%d%d", prefix, i, j)}
			switch k := r.Intn(14); {
			case k < 3:
				a.Kind = "str"
				a.Req = r.Chance(1, 2)
			case k < 5:
				a.Kind = "int"
				a.Req = r.Chance(1, 3)
			case k < 6:
				a.Kind = "arr"
				a.Req = r.Chance(1, 4)
			case k < 9:
				a.Kind = "res"
			case k < 10:
				a.Kind = "coll"
			case k < 11:
				a.Kind = "arrres"
			case k < 12:
				a.Kind = "mapres"
			default:
				if len(plains) > 0 {
					a.Kind = "user"
				} else {
					a.Kind = "res"
				}
			}
			switch a.Kind {
			case "res", "coll", "arrres", "mapres":
				a.Ref = rts[r.Intn(len(rts))].Name
			case "user":
				a.Ref = plains[r.Intn(len(plains))].Name
			}
			if t.Plain {
				a.Req = false // required-ness of plain types is not C08's business
			}
			if j == 0 && a.pointsTo() { // keep at least one plain attribute per type
				a.Kind, a.Ref, a.Req = "str", "", !t.Plain
			}
			if a.isRes() && r.Chance(1, 3) { // View(...) in the type definition (rejected on arrays / maps / user types)
				tv := p.typ(a.Ref).Views
				a.Meta = tv[r.Intn(len(tv))].Name
			}
			t.Attrs = append(t.Attrs, a)
		}
		if t.Plain {
			continue
		}
		for vi := range t.Views {
			v := &t.Views[vi]
			// a non-empty subset of the attributes, in a random order
			var names []string
			for _, a := range t.Attrs {
				if v.Name == "default" && r.Chance(4, 5) || r.Chance(1, 2) {
					names = append(names, a.Name)
				}
			}
			if len(names) == 0 {
				names = append(names, t.Attrs[r.Intn(len(t.Attrs))].Name)
			}
			if r.Chance(1, 3) {
				for j := len(names) - 1; j > 0; j-- {
					k := r.Intn(j + 1)
					names[j], names[k] = names[k], names[j]
				}
			}
			for _, nm := range names {
				e := PEntry{Attr: nm}
				a := t.attr(nm)
				if a.pointsTo() && a.Kind != "user" && r.Chance(1, 2) {
					tv := p.typ(a.Ref).Views
					e.View = tv[r.Intn(len(tv))].Name
				}
				v.Attrs = append(v.Attrs, e)
			}
		}
		if len(t.Views) == 1 && r.Chance(1, 3) {
			// no view written in the design: goa builds the default view from all attributes
			t.NoDefault = true
			t.Views[0].Attrs = nil
			for _, a := range t.Attrs {
				t.Views[0].Attrs = append(t.Views[0].Attrs, PEntry{Attr: a.Name})
			}
		}
	}
	return p
}

// selfReachesThroughContainer: result type t reaches itself along a path with at least one
// container edge (array / map of result types, plain user type).
func (p *Pool) selfReachesThroughContainer(t string) bool {
	type st struct {
		name string
		c    bool
	}
	seen := map[st]bool{}
	var walk func(n string, c bool) bool
	walk = func(n string, c bool) bool {
		ty := p.typ(n)
		if ty == nil {
			return false
		}
		for _, a := range ty.Attrs {
			if !a.pointsTo() {
				continue
			}
			nc := c || a.container()
			if a.Ref == t && nc {
				return true
			}
			k := st{a.Ref, nc}
			if seen[k] {
				continue
			}
			seen[k] = true
			if walk(a.Ref, nc) {
				return true
			}
		}
		return false
	}
	return walk(t, false)
}

// containerCycle: some type of the pool reaches itself through a container edge.
func (p *Pool) containerCycle() bool {
	for _, t := range p.Types {
		if p.selfReachesThroughContainer(t.Name) {
			return true
		}
	}
	return false
}

// metaOverrideMismatch: some attribute carries a type-level view that a view entry overrides
// with another view (the memoised attribute then carries a view meta that is not its view).
func (p *Pool) metaOverrideMismatch() bool {
	for _, t := range p.Types {
		for _, v := range t.Views {
			for _, e := range v.Attrs {
				if a := t.attr(e.Attr); a != nil && a.Meta != "" && e.View != "" && e.View != a.Meta {
					return true
				}
			}
		}
	}
	return false
}

// hasContainers: some attribute is an array / map of result types or a plain user type.
func (p *Pool) hasContainers() bool {
	for _, t := range p.Types {
		for _, a := range t.Attrs {
			if a.container() {
				return true
			}
		}
	}
	return false
}

// makeViewBlindSafe puts the pool inside the envelope in which the view-blind validation
// below containers cannot be observed (known finding): if the pool has containers, every view
// lists the required attributes of its type.
func (p *Pool) makeViewBlindSafe() {
	if !p.hasContainers() {
		return
	}
	for _, t := range p.Types {
		if t.Plain {
			continue
		}
		for vi := range t.Views {
			for _, a := range t.Attrs {
				if a.Req && t.Views[vi].entry(a.Name) == nil {
					t.Views[vi].Attrs = append(t.Views[vi].Attrs, PEntry{Attr: a.Name})
				}
			}
		}
	}
}

// corpusPools: fixed, seed-independent designs run first. They include the designs on
// which expr.Project consulted its memo under the parent's view (fixed: 59cb719): a second
// attribute of the same result type (wrong view) and mutually recursive views with
// alternating overrides (stack overflow).
func corpusPools() []*Pool {
	e := func(a string, v ...string) PEntry {
		x := PEntry{Attr: a}
		if len(v) > 0 {
			x.View = v[0]
		}
		return x
	}
	inner := func() *PType {
		return &PType{Name: "Inner", Attrs: []PAttr{{Name: "i1", Kind: "str", Req: true}, {Name: "i2", Kind: "int"}, {Name: "i3", Kind: "arr"}},
			Views: []PView{{Name: "default", Attrs: []PEntry{e("i1"), e("i2"), e("i3")}}, {Name: "tiny", Attrs: []PEntry{e("i1")}}}}
	}
	var ps []*Pool
	// the design observed end to end in the design round
	ps = append(ps, &Pool{Tag: "corpus:outer-inner", Types: []*PType{inner(),
		{Name: "Outer", Attrs: []PAttr{{Name: "a", Kind: "str", Req: true}, {Name: "b", Kind: "int"}, {Name: "inner", Kind: "res", Ref: "Inner"}, {Name: "list", Kind: "coll", Ref: "Inner"}},
			Views: []PView{{Name: "default", Attrs: []PEntry{e("a"), e("b"), e("inner"), e("list")}},
				{Name: "tiny", Attrs: []PEntry{e("a"), e("inner", "tiny")}},
				{Name: "mid", Attrs: []PEntry{e("a"), e("b"), e("list", "tiny")}}}}}})
	// memo regression 1: second attribute of the same result type, override = parent's view name
	ps = append(ps, &Pool{Tag: "corpus:memo-sibling-tiny", Types: []*PType{inner(),
		{Name: "Outer", Attrs: []PAttr{{Name: "a", Kind: "str", Req: true}, {Name: "inner", Kind: "res", Ref: "Inner"}, {Name: "b", Kind: "int"}, {Name: "inner2", Kind: "res", Ref: "Inner"}},
			Views: []PView{{Name: "default", Attrs: []PEntry{e("a"), e("b"), e("inner"), e("inner2")}},
				{Name: "tiny", Attrs: []PEntry{e("a"), e("inner", "tiny"), e("inner2")}}}}}})
	// memo regression 2: default view, first attribute default, second overridden
	ps = append(ps, &Pool{Tag: "corpus:memo-sibling-default", Types: []*PType{inner(),
		{Name: "Outer", Attrs: []PAttr{{Name: "a", Kind: "str", Req: true}, {Name: "inner", Kind: "res", Ref: "Inner"}, {Name: "b", Kind: "int"}, {Name: "inner2", Kind: "res", Ref: "Inner"}},
			Views: []PView{{Name: "default", Attrs: []PEntry{e("a"), e("inner"), e("inner2", "tiny")}},
				{Name: "tiny", Attrs: []PEntry{e("a")}}}}}})
	// memo regression 3: mutually recursive views with alternating overrides (non-termination)
	ps = append(ps, &Pool{Tag: "corpus:memo-alternating", Types: []*PType{
		{Name: "T", Attrs: []PAttr{{Name: "x", Kind: "str"}, {Name: "u", Kind: "res", Ref: "U"}},
			Views: []PView{{Name: "default", Attrs: []PEntry{e("x")}}, {Name: "a", Attrs: []PEntry{e("x"), e("u", "b")}}, {Name: "b", Attrs: []PEntry{e("x")}}}},
		{Name: "U", Attrs: []PAttr{{Name: "y", Kind: "str"}, {Name: "t", Kind: "res", Ref: "T"}},
			Views: []PView{{Name: "default", Attrs: []PEntry{e("y")}}, {Name: "a", Attrs: []PEntry{e("y")}}, {Name: "b", Attrs: []PEntry{e("y"), e("t", "a")}}}}}})
	// self recursion under one view, and with a view that alternates with itself
	ps = append(ps, &Pool{Tag: "corpus:self-recursive", Types: []*PType{
		{Name: "Node", Attrs: []PAttr{{Name: "val", Kind: "str", Req: true}, {Name: "child", Kind: "res", Ref: "Node"}, {Name: "kids", Kind: "coll", Ref: "Node"}},
			Views: []PView{{Name: "default", Attrs: []PEntry{e("val"), e("child"), e("kids", "tiny")}},
				{Name: "tiny", Attrs: []PEntry{e("val"), e("child", "tiny")}},
				{Name: "ext", Attrs: []PEntry{e("kids", "ext"), e("val"), e("child", "default")}}}}}})
	// view lacking a required attribute; attribute-level view meta; no explicit default view
	ps = append(ps, &Pool{Tag: "corpus:meta-and-required", Types: []*PType{
		{Name: "Leaf", Attrs: []PAttr{{Name: "k", Kind: "str", Req: true}, {Name: "n", Kind: "int", Req: true}, {Name: "w", Kind: "arr", Req: true}},
			Views: []PView{{Name: "default", Attrs: []PEntry{e("k"), e("n"), e("w")}}, {Name: "tiny", Attrs: []PEntry{e("n")}}}},
		{Name: "Plain", NoDefault: true, Attrs: []PAttr{{Name: "p", Kind: "str"}, {Name: "leaf", Kind: "res", Ref: "Leaf", Meta: "tiny"}},
			Views: []PView{{Name: "default", Attrs: []PEntry{e("p"), e("leaf")}}}},
		{Name: "Top", Attrs: []PAttr{{Name: "id", Kind: "int", Req: true}, {Name: "leaf", Kind: "res", Ref: "Leaf", Meta: "tiny"}, {Name: "s", Kind: "str"}, {Name: "plain", Kind: "res", Ref: "Plain"}, {Name: "leaves", Kind: "coll", Ref: "Leaf"}},
			Views: []PView{{Name: "default", Attrs: []PEntry{e("id"), e("leaf"), e("plain"), e("leaves")}},
				{Name: "ext", Attrs: []PEntry{e("leaves", "tiny"), e("leaf", "default"), e("id"), e("s")}}}}}})
	// user-type memo key regression (1b755e8): a recursive plain user type that holds, before its
	// self reference, a result type whose projection reaches the user type again
	ps = append(ps, &Pool{Tag: "corpus:recursive-plain-type", Types: []*PType{
		{Name: "R1", Attrs: []PAttr{{Name: "f10", Kind: "int"}, {Name: "f12", Kind: "user", Ref: "U0"}},
			Views: []PView{{Name: "default", Attrs: []PEntry{e("f10"), e("f12")}}, {Name: "tiny", Attrs: []PEntry{e("f12"), e("f10")}}}},
		{Name: "U0", Plain: true, Attrs: []PAttr{{Name: "g00", Kind: "str"}, {Name: "g01", Kind: "res", Ref: "R1"}, {Name: "g02", Kind: "user", Ref: "U0"}}}}})
	// map-values regression (ad438c9): MapOf(String, result type) whose default view is a strict
	// subset of the attributes, with and without an override on the map attribute
	ps = append(ps, &Pool{Tag: "corpus:map-values", Types: []*PType{
		{Name: "Inner", Attrs: []PAttr{{Name: "i1", Kind: "str", Req: true}, {Name: "i2", Kind: "int"}, {Name: "i3", Kind: "int"}},
			Views: []PView{{Name: "default", Attrs: []PEntry{e("i1"), e("i2")}}, {Name: "tiny", Attrs: []PEntry{e("i1")}}}},
		{Name: "Outer", Attrs: []PAttr{{Name: "a", Kind: "str", Req: true}, {Name: "c", Kind: "mapres", Ref: "Inner"}, {Name: "c2", Kind: "mapres", Ref: "Inner"}},
			Views: []PView{{Name: "default", Attrs: []PEntry{e("a"), e("c"), e("c2")}}, {Name: "tiny", Attrs: []PEntry{e("a"), e("c", "tiny"), e("c2")}}}}}})
	// regression of the repaired re-projection defect: the memoised attribute of f03 (type-level
	// view "mid", overridden with "default") becomes the element of g11; the copy of U1 that
	// holds it is reached again through R2 -> U0 -> U1 and used to be re-projected under "mid"
	ps = append(ps, &Pool{Tag: "corpus:reprojected-memo", Types: []*PType{
		{Name: "R0", Attrs: []PAttr{{Name: "f03", Kind: "res", Ref: "R1", Meta: "mid"}}, Views: []PView{{Name: "default", Attrs: []PEntry{e("f03", "default")}}}},
		{Name: "R1", Attrs: []PAttr{{Name: "f11", Kind: "str"}}, Views: []PView{{Name: "default", Attrs: []PEntry{e("f11")}}, {Name: "mid", Attrs: []PEntry{e("f11")}}}},
		{Name: "R2", Attrs: []PAttr{{Name: "f22", Kind: "user", Ref: "U0"}}, Views: []PView{{Name: "default", Attrs: []PEntry{e("f22")}}, {Name: "ext", Attrs: []PEntry{e("f22")}}}},
		{Name: "U0", Plain: true, Attrs: []PAttr{{Name: "g01", Kind: "coll", Ref: "R0"}, {Name: "g02", Kind: "user", Ref: "U1"}}},
		{Name: "U1", Plain: true, Attrs: []PAttr{{Name: "g11", Kind: "arrres", Ref: "R1"}, {Name: "g13", Kind: "mapres", Ref: "R2"}}}}})
	// type-level view meta x per-view override, all four combinations, single and collection
	// (buildView appends the override to the meta list: the LAST one counts)
	in3 := func() *PType {
		return &PType{Name: "Inner", Attrs: []PAttr{{Name: "i1", Kind: "str", Req: true}, {Name: "i2", Kind: "int"}, {Name: "i3", Kind: "arr"}},
			Views: []PView{{Name: "default", Attrs: []PEntry{e("i1"), e("i2"), e("i3")}}, {Name: "tiny", Attrs: []PEntry{e("i1")}}, {Name: "ext", Attrs: []PEntry{e("i1"), e("i3")}}}}
	}
	ps = append(ps, &Pool{Tag: "corpus:meta-override-combos", Types: []*PType{in3(),
		{Name: "Outer", Attrs: []PAttr{{Name: "a", Kind: "str", Req: true},
			{Name: "s00", Kind: "res", Ref: "Inner"}, {Name: "n", Kind: "int"}, {Name: "s10", Kind: "res", Ref: "Inner", Meta: "tiny"},
			{Name: "c00", Kind: "coll", Ref: "Inner"}, {Name: "m", Kind: "str"}, {Name: "c10", Kind: "coll", Ref: "Inner", Meta: "tiny"}},
			Views: []PView{{Name: "default", Attrs: []PEntry{e("a"), e("s00"), e("s10"), e("c00"), e("c10")}},
				{Name: "ext", Attrs: []PEntry{e("a"), e("s00", "ext"), e("s10", "ext"), e("c00", "ext"), e("c10", "ext")}},
				{Name: "tiny", Attrs: []PEntry{e("s10", "default"), e("c10", "default"), e("a")}}}}}})
	// containers: arrays and maps of result types with and without overrides, a recursive plain
	// user type holding a result type with a type-level view
	ps = append(ps, &Pool{Tag: "corpus:containers", Types: []*PType{in3(),
		{Name: "Wrap", Plain: true, Attrs: []PAttr{{Name: "n", Kind: "int"}, {Name: "x", Kind: "res", Ref: "Inner", Meta: "tiny"}, {Name: "y", Kind: "res", Ref: "Inner"},
			{Name: "xs", Kind: "arrres", Ref: "Inner"}, {Name: "w", Kind: "user", Ref: "Wrap"}}},
		{Name: "Outer", Attrs: []PAttr{{Name: "a", Kind: "str", Req: true},
			{Name: "arr", Kind: "arrres", Ref: "Inner"}, {Name: "arr2", Kind: "arrres", Ref: "Inner"},
			{Name: "mp", Kind: "mapres", Ref: "Inner"}, {Name: "mp2", Kind: "mapres", Ref: "Inner"},
			{Name: "wrap", Kind: "user", Ref: "Wrap"}, {Name: "inner", Kind: "res", Ref: "Inner"}},
			Views: []PView{{Name: "default", Attrs: []PEntry{e("a"), e("arr"), e("arr2", "tiny"), e("mp"), e("mp2", "ext"), e("wrap"), e("inner")}},
				{Name: "tiny", Attrs: []PEntry{e("a"), e("arr", "tiny"), e("mp", "tiny"), e("inner", "tiny")}},
				{Name: "ext", Attrs: []PEntry{e("wrap"), e("a"), e("arr2", "ext"), e("mp2")}}}}}})
	return ps
}

// key identifies a pool for the distinct count.
func (p *Pool) key() string {
	var sb strings.Builder
	for _, t := range p.Types {
		fmt.Fprintf(&sb, "%s%v%v|", t.Name, t.NoDefault, t.Plain)
		for _, a := range t.Attrs {
			fmt.Fprintf(&sb, "%s:%s:%s:%s:%v,", a.Name, a.Kind, a.Ref, a.Meta, a.Req)
		}
		for _, v := range t.Views {
			fmt.Fprintf(&sb, "/%s", v.Name)
			for _, e := range v.Attrs {
				fmt.Fprintf(&sb, " %s>%s", e.Attr, e.View)
			}
		}
		sb.WriteString(";")
	}
	return sb.String()
}

// features of a pool (distribution in the evidence).
func (p *Pool) features() []string {
	f := map[string]bool{}
	for _, t := range p.Types {
		if t.NoDefault {
			f["implicit_default_view"] = true
		}
		if t.Plain {
			f["plain_user_type"] = true
		} else {
			f[fmt.Sprintf("views=%d", len(t.Views))] = true
		}
		for _, a := range t.Attrs {
			switch a.Kind {
			case "coll":
				f["collection_attr"] = true
			case "arrres":
				f["array_of_result_type"] = true
			case "mapres":
				f["map_of_result_type"] = true
			case "user":
				f["plain_user_type_attr"] = true
			}
			if t.Plain && a.pointsTo() && a.Kind != "user" {
				f["result_type_inside_plain_type"] = true
			}
			if a.pointsTo() && a.Ref == t.Name {
				f["self_recursive"] = true
			}
			if a.pointsTo() && a.Ref != t.Name && p.reaches(a.Ref, t.Name, map[string]bool{}) {
				f["mutually_recursive"] = true
			}
			if a.Meta != "" {
				f["attr_view_meta"] = true
			}
		}
		if t.Plain {
			continue
		}
		for _, v := range t.Views {
			sameType := map[string]int{}
			for _, e := range v.Attrs {
				a := t.attr(e.Attr)
				if a.isRes() {
					sameType[a.Kind+a.Ref]++
				}
				if a.pointsTo() && e.View != "" {
					f["view_override"] = true
					if a.container() {
						f["view_override_on_container"] = true
					}
					if a.Meta != "" {
						f["override_on_attr_with_view_meta"] = true
					}
				}
				if a.Req {
					f["required_in_view"] = true
				}
			}
			for _, c := range sameType {
				if c > 1 {
					f["two_attrs_same_result_type_in_view"] = true
				}
			}
			for _, a := range t.Attrs {
				if a.Req && v.entry(a.Name) == nil {
					f["view_lacks_required_attr"] = true
				}
			}
		}
	}
	var out []string
	for k := range f {
		out = append(out, k)
	}
	sort.Strings(out)
	return out
}

func (p *Pool) reaches(from, to string, seen map[string]bool) bool {
	if seen[from] {
		return false
	}
	seen[from] = true
	t := p.typ(from)
	if t == nil {
		return false
	}
	for _, a := range t.Attrs {
		if a.pointsTo() && (a.Ref == to || p.reaches(a.Ref, to, seen)) {
			return true
		}
	}
	return false
}
